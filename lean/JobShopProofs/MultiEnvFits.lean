import JobShopProofs.Properties.C18
import JobShopProofs.GraphEdges
import JobShopProofs.Properties.C19
import JobShopProofs.ResidualWorld
/-!
# C18, multi-instance environment: classic generators fit the declared spaces

For generators without recirculation and with one machine per operation every generated instance is "rectangular"
(`Rect I J M`: `J` jobs, each visiting each of `M` machines exactly once).  For rectangular instances the node and edge
counts of the four graph builders are closed forms in `(J, M)` that are monotone, the feature matrices' row counts are
monotone, and the construction of the single environment succeeds or fails independently of the instance.  Hence every
`reset` / `step` of the multi environment pads successfully and returns an observation of the declared space
(`C18_multi_fits_classic`).
-/
namespace JS

/-- generators without recirculation and with exactly one machine per operation -/
def Classic (p : GenParams) : Prop := p.allowRecirc = false ∧ p.mpo = (1, 1)

namespace MF

/-! ## list combinatorics -/

theorem length_bothDir (L : List (Nat × Nat)) : (bothDir L).length = 2 * L.length := by
  induction L with
  | nil => rfl
  | cons a t ih =>
    simp only [bothDir, List.flatMap_cons, List.length_append, List.length_cons, List.length_nil] at ih ⊢
    omega

theorem length_pairs {α} (l : List α) : 2 * (pairs l).length = l.length * (l.length - 1) := by
  induction l with
  | nil => rfl
  | cons a t ih =>
    simp only [pairs, List.length_append, List.length_map, List.length_cons, Nat.add_sub_cancel]
    cases hn : t.length with
    | zero => rw [hn] at ih; simp at ih ⊢; omega
    | succ k =>
      rw [hn] at ih
      simp only [Nat.add_sub_cancel] at ih
      simp only [Nat.add_mul, Nat.mul_add] at ih ⊢
      omega

theorem length_bothDir_pairs (l : List Nat) : (bothDir (pairs l)).length = l.length * (l.length - 1) := by
  rw [length_bothDir, length_pairs]

theorem pairs_lt : ∀ (l : List Nat), l.Pairwise (· < ·) → ∀ ab ∈ pairs l, ab.1 < ab.2
  | [], _, ab, h => by simp [pairs] at h
  | x :: t, hp, ab, h => by
    rw [List.pairwise_cons] at hp
    obtain ⟨a, b⟩ := ab
    rcases (mem_pairs_cons x t a b).1 h with ⟨rfl, hb⟩ | h
    · exact hp.1 b hb
    · exact pairs_lt t hp.2 (a, b) h

theorem pairs_mem_left {α} : ∀ (l : List α) (a b : α), (a, b) ∈ pairs l → a ∈ l ∧ b ∈ l
  | [], a, b, h => by simp [pairs] at h
  | x :: t, a, b, h => by
    rcases (mem_pairs_cons x t a b).1 h with ⟨rfl, hb⟩ | h
    · exact ⟨by simp, by simp [hb]⟩
    · obtain ⟨h1, h2⟩ := pairs_mem_left t a b h
      exact ⟨by simp [h1], by simp [h2]⟩

theorem pairs_nodup {α} : ∀ (l : List α), l.Nodup → (pairs l).Nodup
  | [], _ => by simp [pairs]
  | x :: t, hn => by
    rw [List.nodup_cons] at hn
    simp only [pairs]
    rw [List.nodup_append]
    refine ⟨?_, pairs_nodup t hn.2, ?_⟩
    · exact List.Pairwise.map _ (fun a b hab e => hab (by cases e; rfl)) hn.2
    · intro p hp q hq e
      subst e
      obtain ⟨b, _, rfl⟩ := List.mem_map.1 hp
      exact hn.1 (pairs_mem_left t x b hq).1

/-- both orientations of a duplicate-free list of pairs that are all oriented the same way -/
theorem nodup_bothDir (R : Nat → Nat → Prop) (hasym : ∀ a b, R a b → ¬ R b a) :
    ∀ (L : List (Nat × Nat)), (∀ ab ∈ L, R ab.1 ab.2) → L.Nodup → (bothDir L).Nodup
  | [], _, _ => by simp [bothDir]
  | (a, b) :: L, hR, hnd => by
    rw [List.nodup_cons] at hnd
    have ih := nodup_bothDir R hasym L (fun ab h => hR ab (by simp [h])) hnd.2
    have hab : R a b := hR (a, b) (by simp)
    have hne : a ≠ b := fun e => hasym a b hab (e ▸ hab)
    show ((a, b) :: (b, a) :: bothDir L).Nodup
    rw [List.nodup_cons, List.nodup_cons]
    refine ⟨?_, ?_, ih⟩
    · rw [List.mem_cons, mem_bothDir]
      rintro (e | h | h)
      · exact hne (congrArg Prod.fst e)
      · exact hnd.1 h
      · exact hasym a b hab (hR (b, a) (by simp [h]))
    · rw [mem_bothDir]
      rintro (h | h)
      · exact hasym a b hab (hR (b, a) (by simp [h]))
      · exact hnd.1 h

theorem nodup_flatMap_range {β} (K : Nat) (f : Nat → List β) (h1 : ∀ m, m < K → (f m).Nodup)
    (h2 : ∀ m m', m < K → m' < K → ∀ x, x ∈ f m → x ∈ f m' → m = m') : ((List.range K).flatMap f).Nodup := by
  unfold List.Nodup
  rw [List.pairwise_flatMap]
  refine ⟨fun m hm => h1 m (List.mem_range.1 hm), ?_⟩
  have hr : (List.range K).Pairwise (fun a b => a ≠ b ∧ a < K ∧ b < K) := by
    have h0 : (List.range K).Pairwise (fun a b => a ≠ b) := List.nodup_range
    exact List.Pairwise.imp_of_mem (fun ha hb hab => ⟨hab, List.mem_range.1 ha, List.mem_range.1 hb⟩) h0
  apply List.Pairwise.imp _ hr
  intro a b ⟨hab, ha, hb⟩ x hx y hy e
  subst e
  exact hab (h2 a b ha hb x hx hy)

theorem sum_map_const {α} (l : List α) (g : α → Nat) (c : Nat) (h : ∀ x ∈ l, g x = c) :
    (l.map g).sum = l.length * c := by
  induction l with
  | nil => simp
  | cons a t ih =>
    simp only [List.map_cons, List.sum_cons, List.length_cons]
    rw [ih (fun x hx => h x (by simp [hx])), h a (by simp), Nat.add_mul]
    omega

theorem length_flatMap_range_const {β} (K : Nat) (f : Nat → List β) (c : Nat) (h : ∀ m, m < K → (f m).length = c) :
    ((List.range K).flatMap f).length = K * c := by
  rw [List.length_flatMap, sum_map_const _ _ c (fun x hx => h x (List.mem_range.1 hx)), List.length_range]

/-! ## stars and cliques of `add_edge` calls -/

theorem mem_star (c : Nat) (l : List Nat) (u v : Nat) :
    (u, v) ∈ bothDir (l.map fun o => (c, o)) ↔ (u = c ∧ v ∈ l) ∨ (v = c ∧ u ∈ l) := by
  simp only [mem_bothDir, List.mem_map, Prod.mk.injEq]
  constructor
  · rintro (⟨o, ho, rfl, rfl⟩ | ⟨o, ho, rfl, rfl⟩)
    · exact Or.inl ⟨rfl, ho⟩
    · exact Or.inr ⟨rfl, ho⟩
  · rintro (⟨rfl, h⟩ | ⟨rfl, h⟩)
    · exact Or.inl ⟨v, h, rfl, rfl⟩
    · exact Or.inr ⟨u, h, rfl, rfl⟩

theorem nodup_star (c : Nat) (l : List Nat) (hnd : l.Nodup) (hlt : ∀ o ∈ l, o < c) :
    (bothDir (l.map fun o => (c, o))).Nodup := by
  apply nodup_bothDir (fun a b => b < a) (fun a b h1 h2 => by omega)
  · intro ab hab
    obtain ⟨o, ho, rfl⟩ := List.mem_map.1 hab
    exact hlt o ho
  · exact List.Pairwise.map _ (fun a b hab e => hab (by cases e; rfl)) hnd

theorem length_star (c : Nat) (l : List Nat) : (bothDir (l.map fun o => (c, o))).length = 2 * l.length := by
  rw [length_bothDir, List.length_map]

theorem nodup_flatMap_star (K : Nat) (c : Nat → Nat) (leaf : Nat → List Nat) (B : Nat)
    (hc : ∀ m, m < K → B ≤ c m) (hinj : ∀ m m', c m = c m' → m = m')
    (hl : ∀ m, m < K → ∀ o ∈ leaf m, o < B) (hnd : ∀ m, m < K → (leaf m).Nodup) :
    ((List.range K).flatMap fun m => bothDir ((leaf m).map fun o => (c m, o))).Nodup := by
  apply nodup_flatMap_range
  · intro m hm
    exact nodup_star _ _ (hnd m hm) (fun o ho => by have := hl m hm o ho; have := hc m hm; omega)
  · intro m m' hm hm' x hx hx'
    obtain ⟨u, v⟩ := x
    rw [mem_star] at hx hx'
    rcases hx with ⟨rfl, h1⟩ | ⟨rfl, h1⟩ <;> rcases hx' with ⟨e, h2⟩ | ⟨e, h2⟩
    · exact hinj _ _ e
    · have := hl m hm _ h1; have := hl m' hm' _ h2; have := hc m hm; have := hc m' hm'; omega
    · have := hl m hm _ h1; have := hl m' hm' _ h2; have := hc m hm; have := hc m' hm'; omega
    · exact hinj _ _ e

theorem nodup_clique (l : List Nat) (hs : l.Pairwise (· < ·)) : (bothDir (pairs l)).Nodup :=
  nodup_bothDir (· < ·) (fun a b h1 h2 => by omega) (pairs l) (pairs_lt l hs)
    (pairs_nodup l (List.Pairwise.imp (fun h => Nat.ne_of_lt h) hs))

theorem mem_clique_left (l : List Nat) (u v : Nat) (h : (u, v) ∈ bothDir (pairs l)) : u ∈ l ∧ v ∈ l := by
  rw [mem_bothDir] at h
  rcases h with h | h
  · exact pairs_mem_left l u v h
  · exact (pairs_mem_left l v u h).symm

theorem nodup_flatMap_clique (K : Nat) (mem : Nat → List Nat) (hs : ∀ m, m < K → (mem m).Pairwise (· < ·))
    (hdisj : ∀ m m', m < K → m' < K → ∀ u, u ∈ mem m → u ∈ mem m' → m = m') :
    ((List.range K).flatMap fun m => bothDir (pairs (mem m))).Nodup := by
  apply nodup_flatMap_range
  · intro m hm; exact nodup_clique _ (hs m hm)
  · intro m m' hm hm' x hx hx'
    obtain ⟨u, v⟩ := x
    exact hdisj m m' hm hm' u (mem_clique_left _ u v hx).1 (mem_clique_left _ u v hx').1

theorem sorted_offset (c N : Nat) : ((List.range N).map fun k => c + k).Pairwise (· < ·) := by
  rw [List.pairwise_map]
  exact List.Pairwise.imp (fun h => by omega) List.pairwise_lt_range

/-! ## `nodes_by_machine`, `nodes_by_job` -/

theorem nbm_lt {I : Instance} {m u : Nat} (h : u ∈ nodesByMachine I m) : u < numOps I := by
  obtain ⟨r, hr, _, rfl⟩ := (mem_nodesByMachine I m u).1 h
  exact opId_lt hr

theorem nbj_lt {I : Instance} {j u : Nat} (hj : j < I.length) (h : u ∈ nodesByJob I j) : u < numOps I := by
  obtain ⟨p, hp, rfl⟩ := (mem_nodesByJob I j u hj).1 h
  exact opId_lt hp

theorem nbm_sorted (I : Instance) (m : Nat) : (nodesByMachine I m).Pairwise (· < ·) := by
  rw [nodesByMachine_eq]
  have h : List.Sublist (((allOps I).filter (onMachine I m)).map (opId I)) ((allOps I).map (opId I)) :=
    List.Sublist.map _ List.filter_sublist
  rw [C14_ids] at h
  exact List.Pairwise.sublist h List.pairwise_lt_range

theorem nbj_sorted (I : Instance) (j : Nat) : (nodesByJob I j).Pairwise (· < ·) := by
  rw [nodesByJob_eq, List.pairwise_map]
  exact List.Pairwise.imp (fun h => by simp only [opId]; omega) List.pairwise_lt_range

theorem length_nbj (I : Instance) (j : Nat) : (nodesByJob I j).length = (I.getD j []).length := by
  rw [nodesByJob_eq, List.length_map, List.length_range]

theorem nbj_disjoint {I : Instance} {j j' u : Nat} (hj : j < I.length) (hj' : j' < I.length)
    (h : u ∈ nodesByJob I j) (h' : u ∈ nodesByJob I j') : j = j' := by
  obtain ⟨p, hp, rfl⟩ := (mem_nodesByJob I j u hj).1 h
  obtain ⟨p', hp', e⟩ := (mem_nodesByJob I j' _ hj').1 h'
  exact congrArg Prod.fst (opId_inj hp hp' e)

/-! ## the phases: no call is repeated (in general) and how many calls there are -/

theorem opMachList_nodup (I : Instance) : (opMachList I).Nodup :=
  nodup_flatMap_star _ (fun m => numOps I + m) (nodesByMachine I) (numOps I) (fun m _ => by omega)
    (fun m m' e => by omega) (fun m _ o ho => nbm_lt ho) (fun m _ => nodesByMachine_nodup I m)

theorem opJobList_nodup (I : Instance) : (opJobList I).Nodup :=
  nodup_flatMap_star _ (fun j => numOps I + numMachines I + j) (nodesByJob I) (numOps I) (fun m _ => by omega)
    (fun m m' e => by omega) (fun j hj o ho => nbj_lt hj ho) (fun j _ => nodesByJob_nodup I j)

theorem machMachList_nodup (I : Instance) : (machMachList I).Nodup := nodup_clique _ (sorted_offset _ _)

theorem jobJobList_nodup (I : Instance) : (jobJobList I).Nodup := nodup_clique _ (sorted_offset _ _)

theorem sameJobList_nodup (I : Instance) : (sameJobList I).Nodup :=
  nodup_flatMap_clique _ (nodesByJob I) (fun j _ => nbj_sorted I j) (fun _ _ hj hj' _ h h' => nbj_disjoint hj hj' h h')

theorem length_machMachList (I : Instance) : (machMachList I).length = numMachines I * (numMachines I - 1) := by
  unfold machMachList
  rw [length_bothDir_pairs, List.length_map, List.length_range]

theorem length_jobJobList (I : Instance) : (jobJobList I).length = I.length * (I.length - 1) := by
  unfold jobJobList
  rw [length_bothDir_pairs, List.length_map, List.length_range]

theorem globalList_eq (I : Instance) : globalList I =
    bothDir (((List.range (numMachines I)).map fun m => numOps I + m).map fun o => (numOps I + numMachines I + I.length, o)) ++
    bothDir (((List.range I.length).map fun j => numOps I + numMachines I + j).map
      fun o => (numOps I + numMachines I + I.length, o)) := by
  unfold globalList
  simp only [List.map_map]
  rfl

theorem globalList_nodup (I : Instance) : (globalList I).Nodup := by
  rw [globalList_eq, List.nodup_append]
  refine ⟨nodup_star _ _ ?_ ?_, nodup_star _ _ ?_ ?_, ?_⟩
  · exact List.Pairwise.imp (fun h => Nat.ne_of_lt h) (sorted_offset _ _)
  · intro o ho
    obtain ⟨m, hm, rfl⟩ := List.mem_map.1 ho
    have := List.mem_range.1 hm; omega
  · exact List.Pairwise.imp (fun h => Nat.ne_of_lt h) (sorted_offset _ _)
  · intro o ho
    obtain ⟨m, hm, rfl⟩ := List.mem_map.1 ho
    have := List.mem_range.1 hm; omega
  · rintro ⟨u, v⟩ h1 ⟨u', v'⟩ h2 e
    cases e
    rw [mem_star] at h1 h2
    simp only [List.mem_map, List.mem_range] at h1 h2
    rcases h1 with ⟨rfl, m, hm, rfl⟩ | ⟨rfl, m, hm, rfl⟩ <;> rcases h2 with ⟨e, j, hj, e'⟩ | ⟨e, j, hj, e'⟩ <;> omega

theorem length_globalList (I : Instance) : (globalList I).length = 2 * numMachines I + 2 * I.length := by
  rw [globalList_eq, List.length_append, length_star, length_star]
  simp

theorem length_opMachList (I : Instance) :
    (opMachList I).length = ((List.range (numMachines I)).map fun m => 2 * (nodesByMachine I m).length).sum := by
  unfold opMachList
  rw [List.length_flatMap]
  congr 1
  apply List.map_congr_left
  intro m _
  exact length_star _ _

theorem length_opJobList (I : Instance) :
    (opJobList I).length = ((List.range I.length).map fun j => 2 * (I.getD j []).length).sum := by
  unfold opJobList
  rw [List.length_flatMap]
  congr 1
  apply List.map_congr_left
  intro j _
  rw [length_star, length_nbj]

theorem length_sameJobList (I : Instance) :
    (sameJobList I).length = ((List.range I.length).map fun j => (I.getD j []).length * ((I.getD j []).length - 1)).sum := by
  unfold sameJobList
  rw [List.length_flatMap]
  congr 1
  apply List.map_congr_left
  intro j _
  rw [length_bothDir_pairs, length_nbj]

/-! ## conjunctive and source/sink phases -/

theorem nodup_zip_left {α β} : ∀ (l : List α) (l' : List β), l.Nodup → (l.zip l').Nodup
  | [], _, _ => by simp
  | _ :: _, [], _ => by simp
  | a :: t, b :: t', h => by
    rw [List.nodup_cons] at h
    rw [List.zip_cons_cons, List.nodup_cons]
    exact ⟨fun hm => h.1 (List.of_mem_zip hm).1, nodup_zip_left t t' h.2⟩

theorem conjList_nodup (I : Instance) : (conjList I).Nodup := by
  unfold conjList
  apply nodup_flatMap_range
  · intro j _; exact nodup_zip_left _ _ (nodesByJob_nodup I j)
  · intro j j' hj hj' x hx hx'
    obtain ⟨u, v⟩ := x
    exact nbj_disjoint hj hj' (List.of_mem_zip hx).1 (List.of_mem_zip hx').1

theorem length_conjList (I : Instance) :
    (conjList I).length = ((List.range I.length).map fun j => (I.getD j []).length - 1).sum := by
  unfold conjList
  rw [List.length_flatMap]
  congr 1
  apply List.map_congr_left
  intro j _
  rw [List.length_zip, List.length_tail, length_nbj]
  omega

theorem ssList_eq (I : Instance) (n : Nat) : ssList I n = (List.range I.length).flatMap fun j =>
    if (I.getD j []).length = 0 then []
    else [(n, opId I (j, 0)), (opId I (j, (I.getD j []).length - 1), n + 1)] := by
  simp only [ssList, ssStep_eq]

theorem ssList_nodup (I : Instance) : (ssList I (numOps I)).Nodup := by
  rw [ssList_eq]
  apply nodup_flatMap_range
  · intro j hj
    by_cases hl : (I.getD j []).length = 0
    · rw [if_pos hl]; exact List.nodup_nil
    · rw [if_neg hl]
      have h1 : (j, (I.getD j []).length - 1) ∈ allOps I := (mem_allOps_iff I j _).2 ⟨hj, by omega⟩
      have := opId_lt h1
      rw [List.nodup_cons]
      refine ⟨?_, by simp⟩
      simp only [List.mem_singleton, Prod.mk.injEq]
      omega
  · intro j j' hj hj' x hx hx'
    by_cases hl : (I.getD j []).length = 0
    · rw [if_pos hl] at hx; cases hx
    · by_cases hl' : (I.getD j' []).length = 0
      · rw [if_pos hl'] at hx'; cases hx'
      · rw [if_neg hl] at hx
        rw [if_neg hl'] at hx'
        have h0 : (j, 0) ∈ allOps I := (mem_allOps_iff I j _).2 ⟨hj, by omega⟩
        have h0' : (j', 0) ∈ allOps I := (mem_allOps_iff I j' _).2 ⟨hj', by omega⟩
        have h1 : (j, (I.getD j []).length - 1) ∈ allOps I := (mem_allOps_iff I j _).2 ⟨hj, by omega⟩
        have h1' : (j', (I.getD j' []).length - 1) ∈ allOps I := (mem_allOps_iff I j' _).2 ⟨hj', by omega⟩
        have b1 := opId_lt h1
        have b1' := opId_lt h1'
        simp only [List.mem_cons, List.not_mem_nil, or_false] at hx hx'
        rcases hx with rfl | rfl <;> rcases hx' with e | e
        · exact congrArg Prod.fst (opId_inj h0 h0' (congrArg Prod.snd e))
        · have := congrArg Prod.fst e; simp only at this; omega
        · have := congrArg Prod.fst e; simp only at this; omega
        · exact congrArg Prod.fst (opId_inj h1 h1' (congrArg Prod.fst e))

theorem length_ssList (I : Instance) (n : Nat) :
    (ssList I n).length = ((List.range I.length).map fun j => if (I.getD j []).length = 0 then 0 else 2).sum := by
  rw [ssList_eq, List.length_flatMap]
  congr 1
  apply List.map_congr_left
  intro j _
  split <;> rfl

/-! ## rectangular instances -/

/-- `J` jobs; every operation has exactly one machine; every job visits each of the machines `0 … M-1` exactly once -/
structure Rect (I : Instance) (J M : Nat) : Prop where
  len : I.length = J
  single : ∀ job ∈ I, ∀ op ∈ job, op.machines.length = 1
  perm : ∀ job ∈ I, (job.map fun op => op.machines.headD 0).Perm (List.range M)

theorem single_eq {op : Op} (h : op.machines.length = 1) : op.machines = [op.machines.headD 0] := by
  cases hm : op.machines with
  | nil => rw [hm] at h; cases h
  | cons a t =>
    cases t with
    | nil => rfl
    | cons b t' => rw [hm] at h; simp at h

theorem getD_mem {I : Instance} {j : Nat} (hj : j < I.length) : I.getD j [] ∈ I := by
  rw [List.getD_eq_getElem?_getD, List.getElem?_eq_getElem hj]
  exact List.getElem_mem _

theorem getOp_eq_getD {I : Instance} {j : Nat} (p : Nat) (hj : j < I.length) : getOp I j p = (I.getD j [])[p]? := by
  simp [getOp, List.getD_eq_getElem?_getD, List.getElem?_eq_getElem hj]

theorem Rect.jobLen {I : Instance} {J M : Nat} (h : Rect I J M) {job : List Op} (hj : job ∈ I) : job.length = M := by
  have := (h.perm job hj).length_eq
  simpa using this

theorem Rect.getD_len {I : Instance} {J M : Nat} (h : Rect I J M) {j : Nat} (hj : j < I.length) :
    (I.getD j []).length = M := h.jobLen (getD_mem hj)

theorem Rect.numOps_eq {I : Instance} {J M : Nat} (h : Rect I J M) : numOps I = J * M := by
  unfold numOps
  rw [sum_map_const I List.length M (fun job hj => h.jobLen hj), h.len]

theorem Rect.mach_lt {I : Instance} {J M : Nat} (h : Rect I J M) {job : List Op} (hj : job ∈ I) {op : Op} (ho : op ∈ job) :
    op.machines.headD 0 < M := by
  have : op.machines.headD 0 ∈ job.map fun op => op.machines.headD 0 := List.mem_map.2 ⟨op, ho, rfl⟩
  exact List.mem_range.1 ((h.perm job hj).mem_iff.1 this)

theorem foldl_max_le {α} (f : α → Nat) (B : Nat) : ∀ (l : List α) (a : Nat), a ≤ B → (∀ x ∈ l, f x ≤ B) →
    l.foldl (fun b x => max b (f x)) a ≤ B
  | [], a, ha, _ => ha
  | x :: t, a, ha, h => by
    simp only [List.foldl_cons]
    exact foldl_max_le f B t _ (by have := h x (by simp); omega) (fun y hy => h y (by simp [hy]))

theorem Rect.numMachines_le {I : Instance} {J M : Nat} (h : Rect I J M) : numMachines I ≤ M := by
  unfold numMachines
  apply foldl_max_le jobMax M I 0 (Nat.zero_le _)
  intro job hj
  unfold jobMax
  apply foldl_max_le opMax M job 0 (Nat.zero_le _)
  intro op ho
  unfold opMax
  apply foldl_max_le (fun m => m + 1) M op.machines 0 (Nat.zero_le _)
  intro m hm
  rw [single_eq (h.single job hj op ho)] at hm
  simp only [List.mem_singleton] at hm
  have := h.mach_lt hj ho
  omega

theorem Rect.numMachines_ge {I : Instance} {J M : Nat} (h : Rect I J M) (hJ : 0 < J) : M ≤ numMachines I := by
  by_cases hM : M = 0
  · omega
  · have hj0 : 0 < I.length := by rw [h.len]; exact hJ
    have hjob := getD_mem hj0
    have hmem : M - 1 ∈ (I.getD 0 []).map fun op => op.machines.headD 0 :=
      (h.perm _ hjob).mem_iff.2 (List.mem_range.2 (by omega))
    obtain ⟨op, ho, he⟩ := List.mem_map.1 hmem
    have hm : M - 1 ∈ op.machines := by rw [single_eq (h.single _ hjob op ho), he]; simp
    have h1 : (M - 1) + 1 ≤ opMax op := foldl_max_mem (fun m => m + 1) op.machines 0 (M - 1) hm
    have h2 : opMax op ≤ jobMax (I.getD 0 []) := foldl_max_mem opMax _ 0 op ho
    have h3 : jobMax (I.getD 0 []) ≤ numMachines I := foldl_max_mem jobMax I 0 _ hjob
    omega

/-- the number of machines of a rectangular instance -/
def kOf (J M : Nat) : Nat := if J = 0 then 0 else M

theorem Rect.numMachines_eq {I : Instance} {J M : Nat} (h : Rect I J M) : numMachines I = kOf J M := by
  unfold kOf
  by_cases hJ : J = 0
  · rw [if_pos hJ]
    have : I = [] := List.eq_nil_of_length_eq_zero (by rw [h.len]; exact hJ)
    subst this; rfl
  · rw [if_neg hJ]
    have := h.numMachines_le
    have := h.numMachines_ge (by omega)
    omega

theorem kOf_le (J M : Nat) : kOf J M ≤ M := by unfold kOf; split <;> omega

theorem kOf_mono {J M J' M' : Nat} (hJ : J ≤ J') (hM : M ≤ M') : kOf J M ≤ kOf J' M' := by
  unfold kOf; split <;> split <;> omega

/-! ### the operations of a machine -/

theorem length_filter_range {α} (P : α → Bool) : ∀ (l : List α),
    ((List.range l.length).filter fun i => (l[i]?.map P).getD false).length = (l.filter P).length
  | [] => rfl
  | a :: t => by
    have ih := length_filter_range P t
    rw [List.length_cons, List.range_succ_eq_map, List.filter_cons, List.filter_map, List.filter_cons]
    have hcomp : ((fun i => ((a :: t)[i]?.map P).getD false) ∘ Nat.succ) = fun i => (t[i]?.map P).getD false := by
      funext i; simp [Function.comp]
    rw [hcomp]
    simp only [List.getElem?_cons_zero, Option.map_some, Option.getD_some]
    by_cases hp : P a = true
    · simp only [hp, ↓reduceIte, List.length_cons, List.length_map, ih]
    · simp only [hp, Bool.false_eq_true, ↓reduceIte, List.length_map, ih]

theorem onMachine_single {I : Instance} {j p m : Nat} (hj : j < I.length) {op : Op} (hop : (I.getD j [])[p]? = some op)
    (hs : op.machines.length = 1) : onMachine I m (j, p) = true ↔ op.machines.headD 0 = m := by
  unfold onMachine
  simp only
  rw [getOp_eq_getD p hj, hop]
  simp only
  rw [single_eq hs]
  simp [eq_comm]

theorem Rect.length_nbm {I : Instance} {J M : Nat} (h : Rect I J M) {m : Nat} (hm : m < M) :
    (nodesByMachine I m).length = J := by
  rw [nodesByMachine_eq, List.length_map]
  unfold allOps
  rw [List.filter_flatMap, length_flatMap_range_const _ _ 1, h.len, Nat.mul_one]
  intro j hj
  rw [List.filter_map, List.length_map]
  have hfun : (onMachine I m ∘ fun p => (j, p)) =
      fun p => ((I.getD j [])[p]?.map fun op : Op => op.machines.contains m).getD false := by
    funext p
    simp only [Function.comp, onMachine]
    rw [getOp_eq_getD p hj]
    cases (I.getD j [])[p]? <;> rfl
  rw [hfun, length_filter_range (fun op : Op => op.machines.contains m)]
  have hjob := getD_mem hj
  rw [← List.countP_eq_length_filter]
  have hc : List.countP (fun op : Op => op.machines.contains m) (I.getD j []) =
      List.count m ((I.getD j []).map fun op => op.machines.headD 0) := by
    rw [List.count, List.countP_map]
    apply List.countP_congr
    intro op hop
    rw [single_eq (h.single _ hjob op hop)]
    simp only [List.contains_iff_mem, List.mem_singleton, Function.comp, beq_iff_eq]
    exact eq_comm
  rw [hc, (h.perm _ hjob).count_eq, List.nodup_range.count]
  simp [hm]

/-- two operations of one job never share a machine -/
theorem Rect.share_same_job {I : Instance} {J M : Nat} (h : Rect I J M) {a b : OpRef} (ha : a ∈ allOps I) (hb : b ∈ allOps I)
    (hj : a.1 = b.1) (hs : ShareMachine I a b) : a = b := by
  obtain ⟨j, p⟩ := a
  obtain ⟨j', q⟩ := b
  simp only at hj; subst hj
  obtain ⟨hjl, hp⟩ := (mem_allOps_iff I j p).1 ha
  obtain ⟨_, hq⟩ := (mem_allOps_iff I j q).1 hb
  have hjob := getD_mem hjl
  obtain ⟨m, h1, h2⟩ := hs
  have e1 := (onMachine_single hjl (List.getElem?_eq_getElem hp) (h.single _ hjob _ (List.getElem_mem _))).1 h1
  have e2 := (onMachine_single hjl (List.getElem?_eq_getElem hq) (h.single _ hjob _ (List.getElem_mem _))).1 h2
  have hnd : ((I.getD j []).map fun op => op.machines.headD 0).Nodup := (h.perm _ hjob).nodup_iff.2 List.nodup_range
  have hpl : p < ((I.getD j []).map fun op => op.machines.headD 0).length := by simpa using hp
  have : ((I.getD j []).map fun op => op.machines.headD 0)[p]? = ((I.getD j []).map fun op => op.machines.headD 0)[q]? := by
    simp only [List.getElem?_map, List.getElem?_eq_getElem hp, List.getElem?_eq_getElem hq, Option.map_some, e1, e2]
  rw [(List.getElem?_inj hpl hnd).1 this]

/-- an operation is eligible on one machine only -/
theorem Rect.onMachine_unique {I : Instance} {J M : Nat} (h : Rect I J M) {r : OpRef} (hr : r ∈ allOps I) {m m' : Nat}
    (h1 : onMachine I m r = true) (h2 : onMachine I m' r = true) : m = m' := by
  obtain ⟨j, p⟩ := r
  obtain ⟨hjl, hp⟩ := (mem_allOps_iff I j p).1 hr
  have hjob := getD_mem hjl
  have e1 := (onMachine_single hjl (List.getElem?_eq_getElem hp) (h.single _ hjob _ (List.getElem_mem _))).1 h1
  have e2 := (onMachine_single hjl (List.getElem?_eq_getElem hp) (h.single _ hjob _ (List.getElem_mem _))).1 h2
  omega

theorem Rect.disjList_nodup {I : Instance} {J M : Nat} (h : Rect I J M) : (disjList I).Nodup := by
  unfold disjList
  apply nodup_flatMap_clique _ (nodesByMachine I) (fun m _ => nbm_sorted I m)
  intro m m' _ _ u hu hu'
  obtain ⟨r, hr, hm, rfl⟩ := (mem_nodesByMachine I m u).1 hu
  obtain ⟨r', hr', hm', e⟩ := (mem_nodesByMachine I m' _).1 hu'
  have := opId_inj hr hr' e
  subst this
  exact h.onMachine_unique hr hm hm'

/-! ## counting the edges of a built graph -/

theorem stage_count {g : Graph} {ns : List NodeKind} {S : Nat → Nat → EType → Prop} (h : Stage g ns S)
    (L : List (Nat × Nat)) (hnd : L.Nodup) (hmem : ∀ u v, (u, v) ∈ L ↔ ∃ t, S u v t) :
    g.edges.length = L.length := by
  have hp : (g.edges.map fun e => (e.1, e.2.1)).Perm L := by
    rw [List.perm_ext_iff_of_nodup (stage_edges_nodup h) hnd]
    rintro ⟨u, v⟩
    rw [hmem]
    constructor
    · intro hx
      obtain ⟨e, he, heq⟩ := List.mem_map.1 hx
      obtain ⟨_, _, t⟩ := e
      simp only [Prod.mk.injEq] at heq
      obtain ⟨rfl, rfl⟩ := heq
      exact ⟨t, (stage_edges h _ _ t).1 he⟩
    · rintro ⟨t, ht⟩
      exact List.mem_map.2 ⟨(u, v, t), (stage_edges h u v t).2 ht, rfl⟩
  have := hp.length_eq
  rwa [List.length_map] at this

theorem nodup_app {α} {A B : List α} (hA : A.Nodup) (hB : B.Nodup) (hd : ∀ x, x ∈ A → x ∈ B → False) :
    (A ++ B).Nodup :=
  List.nodup_append.2 ⟨hA, hB, fun a ha _ hb e => hd a ha (e ▸ hb)⟩

theorem opMach_cls {I : Instance} {u v : Nat} (h : OpMachEdge I u v) :
    (u < numOps I ∧ numOps I ≤ v ∧ v < numOps I + numMachines I) ∨
    (numOps I ≤ u ∧ u < numOps I + numMachines I ∧ v < numOps I) := by
  obtain ⟨r, hr, m, hm, (⟨rfl, rfl⟩ | ⟨rfl, rfl⟩)⟩ := h
  · have := opId_lt hr; have := onMachine_lt hm; left; omega
  · have := opId_lt hr; have := onMachine_lt hm; right; omega

theorem machMach_cls {I : Instance} {u v : Nat} (h : MachMachEdge I u v) :
    numOps I ≤ u ∧ u < numOps I + numMachines I ∧ numOps I ≤ v ∧ v < numOps I + numMachines I := by
  obtain ⟨m₁, m₂, h1, h2, _, rfl, rfl⟩ := h
  omega

theorem opJob_cls {I : Instance} {u v : Nat} (h : OpJobEdge I u v) :
    (u < numOps I ∧ numOps I + numMachines I ≤ v ∧ v < numOps I + numMachines I + I.length) ∨
    (numOps I + numMachines I ≤ u ∧ u < numOps I + numMachines I + I.length ∧ v < numOps I) := by
  obtain ⟨⟨j, p⟩, hr, (⟨rfl, rfl⟩ | ⟨rfl, rfl⟩)⟩ := h
  · have := opId_lt hr; have := ((mem_allOps_iff I j p).1 hr).1; left; omega
  · have := opId_lt hr; have := ((mem_allOps_iff I j p).1 hr).1; right; omega

theorem jobJob_cls {I : Instance} {u v : Nat} (h : JobJobEdge I u v) :
    numOps I + numMachines I ≤ u ∧ u < numOps I + numMachines I + I.length ∧
    numOps I + numMachines I ≤ v ∧ v < numOps I + numMachines I + I.length := by
  obtain ⟨j₁, j₂, h1, h2, _, rfl, rfl⟩ := h
  omega

theorem globalMach_cls {I : Instance} {u v : Nat} (h : GlobalMachEdge I u v) :
    (u = numOps I + numMachines I + I.length ∧ numOps I ≤ v ∧ v < numOps I + numMachines I) ∨
    (v = numOps I + numMachines I + I.length ∧ numOps I ≤ u ∧ u < numOps I + numMachines I) := by
  obtain ⟨m, hm, (⟨rfl, rfl⟩ | ⟨rfl, rfl⟩)⟩ := h
  · left; omega
  · right; omega

theorem globalJob_cls {I : Instance} {u v : Nat} (h : GlobalJobEdge I u v) :
    (u = numOps I + numMachines I + I.length ∧ numOps I + numMachines I ≤ v ∧ v < numOps I + numMachines I + I.length) ∨
    (v = numOps I + numMachines I + I.length ∧ numOps I + numMachines I ≤ u ∧ u < numOps I + numMachines I + I.length) := by
  obtain ⟨j, hj, (⟨rfl, rfl⟩ | ⟨rfl, rfl⟩)⟩ := h
  · left; omega
  · right; omega

theorem exists_untyped (P : Prop) : (∃ t : EType, P ∧ t = .untyped) ↔ P :=
  ⟨fun ⟨_, h, _⟩ => h, fun h => ⟨.untyped, h, rfl⟩⟩

/-- the agent-task graph has one edge per `add_edge` call of its three phases -/
theorem edges_agentTask (I : Instance) :
    (buildAgentTask I).edges.length = (opMachList I).length + (machMachList I).length + (sameJobList I).length := by
  rw [stage_count (stage_agentTask I) (opMachList I ++ machMachList I ++ sameJobList I)]
  · simp only [List.length_append]
  · refine nodup_app (nodup_app (opMachList_nodup I) (machMachList_nodup I) ?_) (sameJobList_nodup I) ?_
    · rintro ⟨u, v⟩ h1 h2
      have := opMach_cls ((mem_opMachList I u v).1 h1)
      have := machMach_cls ((mem_machMachList I u v).1 h2)
      omega
    · rintro ⟨u, v⟩ h1 h2
      have := sameJobEdge_lt ((mem_sameJobList I u v).1 h2)
      rcases List.mem_append.1 h1 with h1 | h1
      · have := opMach_cls ((mem_opMachList I u v).1 h1); omega
      · have := machMach_cls ((mem_machMachList I u v).1 h1); omega
  · intro u v
    simp only [List.mem_append, mem_opMachList, mem_machMachList, mem_sameJobList, AgentTaskEdgeSpec, exists_untyped,
      or_assoc]

theorem edges_agentTaskJobs (I : Instance) :
    (buildAgentTaskJobs I).edges.length =
      (opMachList I).length + (machMachList I).length + (opJobList I).length + (jobJobList I).length := by
  rw [stage_count (stage_agentTaskJobs I) (opMachList I ++ machMachList I ++ opJobList I ++ jobJobList I)]
  · simp only [List.length_append]
  · refine nodup_app (nodup_app (nodup_app (opMachList_nodup I) (machMachList_nodup I) ?_) (opJobList_nodup I) ?_)
      (jobJobList_nodup I) ?_
    · rintro ⟨u, v⟩ h1 h2
      have := opMach_cls ((mem_opMachList I u v).1 h1)
      have := machMach_cls ((mem_machMachList I u v).1 h2)
      omega
    · rintro ⟨u, v⟩ h1 h2
      have := opJob_cls ((mem_opJobList I u v).1 h2)
      rcases List.mem_append.1 h1 with h1 | h1
      · have := opMach_cls ((mem_opMachList I u v).1 h1); omega
      · have := machMach_cls ((mem_machMachList I u v).1 h1); omega
    · rintro ⟨u, v⟩ h1 h2
      have := jobJob_cls ((mem_jobJobList I u v).1 h2)
      rcases List.mem_append.1 h1 with h1 | h1
      · rcases List.mem_append.1 h1 with h1 | h1
        · have := opMach_cls ((mem_opMachList I u v).1 h1); omega
        · have := machMach_cls ((mem_machMachList I u v).1 h1); omega
      · have := opJob_cls ((mem_opJobList I u v).1 h1); omega
  · intro u v
    simp only [List.mem_append, mem_opMachList, mem_machMachList, mem_opJobList, mem_jobJobList, AgentTaskJobsEdgeSpec,
      exists_untyped, or_assoc]

theorem edges_completeAgentTask (I : Instance) :
    (buildCompleteAgentTask I).edges.length = (opMachList I).length + (opJobList I).length + (globalList I).length := by
  rw [stage_count (stage_completeAgentTask I) (opMachList I ++ opJobList I ++ globalList I)]
  · simp only [List.length_append]
  · refine nodup_app (nodup_app (opMachList_nodup I) (opJobList_nodup I) ?_) (globalList_nodup I) ?_
    · rintro ⟨u, v⟩ h1 h2
      have := opMach_cls ((mem_opMachList I u v).1 h1)
      have := opJob_cls ((mem_opJobList I u v).1 h2)
      omega
    · rintro ⟨u, v⟩ h1 h2
      have hg : (u = numOps I + numMachines I + I.length ∧ numOps I ≤ v ∧ v < numOps I + numMachines I + I.length) ∨
          (v = numOps I + numMachines I + I.length ∧ numOps I ≤ u ∧ u < numOps I + numMachines I + I.length) := by
        rcases (mem_globalList I u v).1 h2 with h | h
        · have := globalMach_cls h; omega
        · have := globalJob_cls h; omega
      rcases List.mem_append.1 h1 with h1 | h1
      · have := opMach_cls ((mem_opMachList I u v).1 h1); omega
      · have := opJob_cls ((mem_opJobList I u v).1 h1); omega
  · intro u v
    simp only [List.mem_append, mem_opMachList, mem_opJobList, mem_globalList, CompleteAgentTaskEdgeSpec,
      exists_untyped, or_assoc]

/-- for a rectangular instance the disjunctive graph has one edge per `add_edge` call: no call repeats another -/
theorem Rect.edges_disjunctive {I : Instance} {J M : Nat} (h : Rect I J M) :
    (buildDisjunctive I).edges.length = (disjList I).length + (conjList I).length + (ssList I (numOps I)).length := by
  rw [stage_count (stage_disjunctive I) (disjList I ++ conjList I ++ ssList I (numOps I))]
  · simp only [List.length_append]
  · refine nodup_app (nodup_app h.disjList_nodup (conjList_nodup I) ?_) (ssList_nodup I) ?_
    · rintro ⟨u, v⟩ h1 h2
      obtain ⟨a, ha, b, hb, hne, rfl, rfl, hsh⟩ := (mem_disjList I u v).1 h1
      obtain ⟨a', ha', b', hb', hjs, e1, e2⟩ := (mem_conjList I _ _).1 h2
      have := opId_inj ha ha' e1; subst this
      have := opId_inj hb hb' e2; subst this
      exact hne (h.share_same_job ha hb hjs.1.symm hsh)
    · rintro ⟨u, v⟩ h1 h2
      have hlt : u < numOps I ∧ v < numOps I := by
        rcases List.mem_append.1 h1 with h1 | h1
        · obtain ⟨a, ha, b, hb, _, rfl, rfl, _⟩ := (mem_disjList I u v).1 h1
          exact ⟨opId_lt ha, opId_lt hb⟩
        · obtain ⟨a, ha, b, hb, _, rfl, rfl⟩ := (mem_conjList I u v).1 h1
          exact ⟨opId_lt ha, opId_lt hb⟩
      exact not_mem_ssList_of_lt I (numOps I) u v hlt.1 hlt.2 h2
  · intro u v
    simp only [List.mem_append, mem_disjList, mem_conjList, mem_ssList]
    unfold DisjEdgeSpec
    constructor
    · rintro ((⟨a, ha, b, hb, hne, rfl, rfl, hsh⟩ | ⟨a, ha, b, hb, hjs, rfl, rfl⟩) | (⟨a, ha, h0, rfl, rfl⟩ | ⟨a, ha, hl, rfl, rfl⟩))
      · by_cases hjs : JobSucc a b
        · exact ⟨.conjunctive, Or.inl ⟨a, ha, b, hb, hne, rfl, rfl, Or.inl ⟨hjs, rfl⟩⟩⟩
        · exact ⟨.disjunctive, Or.inl ⟨a, ha, b, hb, hne, rfl, rfl, Or.inr ⟨hjs, hsh, rfl⟩⟩⟩
      · exact ⟨.conjunctive, Or.inl ⟨a, ha, b, hb, jobSucc_ne hjs, rfl, rfl, Or.inl ⟨hjs, rfl⟩⟩⟩
      · exact ⟨.conjunctive, Or.inr (Or.inl ⟨a, ha, h0, rfl, rfl, rfl⟩)⟩
      · exact ⟨.conjunctive, Or.inr (Or.inr ⟨a, ha, hl, rfl, rfl, rfl⟩)⟩
    · rintro ⟨t, (⟨a, ha, b, hb, hne, rfl, rfl, (⟨hjs, _⟩ | ⟨_, hsh, _⟩)⟩ | ⟨a, ha, h0, rfl, rfl, _⟩ | ⟨a, ha, hl, rfl, rfl, _⟩)⟩
      · exact Or.inl (Or.inr ⟨a, ha, b, hb, hjs, rfl, rfl⟩)
      · exact Or.inl (Or.inl ⟨a, ha, b, hb, hne, rfl, rfl, hsh⟩)
      · exact Or.inr (Or.inl ⟨a, ha, h0, rfl, rfl⟩)
      · exact Or.inr (Or.inr ⟨a, ha, hl, rfl, rfl⟩)

/-! ## closed forms for rectangular instances -/

def nodesOf (b : Builder) (J M : Nat) : Nat :=
  match b with
  | .disjunctive => J * M + 2
  | .agentTask => J * M + kOf J M
  | .agentTaskJobs => J * M + kOf J M + J
  | .completeAgentTask => J * M + kOf J M + J + 1

def edgesOf (b : Builder) (J M : Nat) : Nat :=
  match b with
  | .disjunctive => kOf J M * (J * (J - 1)) + J * (M - 1) + J * (if M = 0 then 0 else 2)
  | .agentTask => kOf J M * (2 * J) + kOf J M * (kOf J M - 1) + J * (M * (M - 1))
  | .agentTaskJobs => kOf J M * (2 * J) + kOf J M * (kOf J M - 1) + J * (2 * M) + J * (J - 1)
  | .completeAgentTask => kOf J M * (2 * J) + J * (2 * M) + (2 * kOf J M + 2 * J)

theorem Rect.nodes_build {I : Instance} {J M : Nat} (h : Rect I J M) (b : Builder) :
    (build b I).nodes.length = nodesOf b J M := by
  obtain ⟨h1, h2, h3, h4⟩ := C16_nodes I
  cases b
  · rw [h1]; simp [nodesOf, h.numOps_eq]
  · rw [h2]; simp [nodesOf, h.numOps_eq, h.numMachines_eq]
  · rw [h3]; simp [nodesOf, h.numOps_eq, h.numMachines_eq, h.len]; omega
  · rw [h4]; simp [nodesOf, h.numOps_eq, h.numMachines_eq, h.len]; omega

theorem Rect.length_opMachList {I : Instance} {J M : Nat} (h : Rect I J M) :
    (opMachList I).length = kOf J M * (2 * J) := by
  rw [MF.length_opMachList, sum_map_const _ _ (2 * J), List.length_range, h.numMachines_eq]
  intro m hm
  have hm' := List.mem_range.1 hm
  rw [h.numMachines_eq] at hm'
  rw [h.length_nbm (Nat.lt_of_lt_of_le hm' (kOf_le J M))]

theorem Rect.length_opJobList {I : Instance} {J M : Nat} (h : Rect I J M) :
    (opJobList I).length = J * (2 * M) := by
  rw [MF.length_opJobList, sum_map_const _ _ (2 * M), List.length_range, h.len]
  intro j hj
  rw [h.getD_len (List.mem_range.1 hj)]

theorem Rect.length_sameJobList {I : Instance} {J M : Nat} (h : Rect I J M) :
    (sameJobList I).length = J * (M * (M - 1)) := by
  rw [MF.length_sameJobList, sum_map_const _ _ (M * (M - 1)), List.length_range, h.len]
  intro j hj
  rw [h.getD_len (List.mem_range.1 hj)]

theorem Rect.length_conjList {I : Instance} {J M : Nat} (h : Rect I J M) :
    (conjList I).length = J * (M - 1) := by
  rw [MF.length_conjList, sum_map_const _ _ (M - 1), List.length_range, h.len]
  intro j hj
  rw [h.getD_len (List.mem_range.1 hj)]

theorem Rect.length_ssList {I : Instance} {J M : Nat} (h : Rect I J M) (n : Nat) :
    (ssList I n).length = J * (if M = 0 then 0 else 2) := by
  rw [MF.length_ssList, sum_map_const _ _ (if M = 0 then 0 else 2), List.length_range, h.len]
  intro j hj
  rw [h.getD_len (List.mem_range.1 hj)]

theorem Rect.length_disjList {I : Instance} {J M : Nat} (h : Rect I J M) :
    (disjList I).length = kOf J M * (J * (J - 1)) := by
  unfold disjList
  rw [length_flatMap_range_const _ _ (J * (J - 1)), h.numMachines_eq]
  intro m hm
  rw [h.numMachines_eq] at hm
  rw [length_bothDir_pairs, h.length_nbm (Nat.lt_of_lt_of_le hm (kOf_le J M))]

theorem Rect.edges_build {I : Instance} {J M : Nat} (h : Rect I J M) (b : Builder) :
    (build b I).edges.length = edgesOf b J M := by
  cases b
  · show (buildDisjunctive I).edges.length = _
    rw [h.edges_disjunctive, h.length_disjList, h.length_conjList, h.length_ssList]; rfl
  · show (buildAgentTask I).edges.length = _
    rw [edges_agentTask, h.length_opMachList, length_machMachList, h.length_sameJobList, h.numMachines_eq]; rfl
  · show (buildAgentTaskJobs I).edges.length = _
    rw [edges_agentTaskJobs, h.length_opMachList, length_machMachList, h.length_opJobList, length_jobJobList,
      h.numMachines_eq, h.len]; rfl
  · show (buildCompleteAgentTask I).edges.length = _
    rw [edges_completeAgentTask, h.length_opMachList, h.length_opJobList, length_globalList, h.numMachines_eq, h.len]
    rfl

theorem nodesOf_mono (b : Builder) {J M J' M' : Nat} (hJ : J ≤ J') (hM : M ≤ M') : nodesOf b J M ≤ nodesOf b J' M' := by
  have hK := kOf_mono hJ hM
  have hJM : J * M ≤ J' * M' := Nat.mul_le_mul hJ hM
  cases b <;> simp only [nodesOf] <;> omega

theorem edgesOf_mono (b : Builder) {J M J' M' : Nat} (hJ : J ≤ J') (hM : M ≤ M') : edgesOf b J M ≤ edgesOf b J' M' := by
  have hK := kOf_mono hJ hM
  have hJ1 : J - 1 ≤ J' - 1 := by omega
  have hM1 : M - 1 ≤ M' - 1 := by omega
  have hK1 : kOf J M - 1 ≤ kOf J' M' - 1 := by omega
  have hI : (if M = 0 then 0 else 2) ≤ (if M' = 0 then 0 else 2) := by split <;> split <;> omega
  cases b <;> simp only [edgesOf]
  · exact Nat.add_le_add (Nat.add_le_add (Nat.mul_le_mul hK (Nat.mul_le_mul hJ hJ1)) (Nat.mul_le_mul hJ hM1))
      (Nat.mul_le_mul hJ hI)
  · exact Nat.add_le_add (Nat.add_le_add (Nat.mul_le_mul hK (Nat.mul_le_mul (Nat.le_refl 2) hJ)) (Nat.mul_le_mul hK hK1))
      (Nat.mul_le_mul hJ (Nat.mul_le_mul hM hM1))
  · exact Nat.add_le_add (Nat.add_le_add (Nat.add_le_add (Nat.mul_le_mul hK (Nat.mul_le_mul (Nat.le_refl 2) hJ))
      (Nat.mul_le_mul hK hK1)) (Nat.mul_le_mul hJ (Nat.mul_le_mul (Nat.le_refl 2) hM))) (Nat.mul_le_mul hJ hJ1)
  · exact Nat.add_le_add (Nat.add_le_add (Nat.mul_le_mul hK (Nat.mul_le_mul (Nat.le_refl 2) hJ))
      (Nat.mul_le_mul hJ (Nat.mul_le_mul (Nat.le_refl 2) hM))) (by omega)

/-! ## classic generators produce rectangular instances -/

theorem genJobs_rect {p : GenParams} (hcl : Classic p) {nm nj : Nat} {draws : List Nat} {jobs : List (List Op)}
    {d : List Nat} (h : genJobs p nm nj draws = .ok (jobs, d)) : Rect jobs nj nm := by
  obtain ⟨h1, h2⟩ := genJobs_spec p nm nj draws jobs d h
  have hmpo : p.mpo.2 = 1 := by rw [hcl.2]
  refine ⟨h1, ?_, ?_⟩
  · intro job hj op ho
    have := ((h2 job hj).2.1 op ho).count
    rw [if_neg (by omega)] at this
    exact this
  · intro job hj
    exact (h2 job hj).2.2 (by omega) hcl.1

theorem generateFixed_rect {p : GenParams} (hcl : Classic p) {nj nm : Nat} {draws : List Nat} {I : Instance} {n : Nat}
    {d : List Nat} (h : generateFixed p nj nm draws = .ok (I, n, d)) : Rect I nj nm := by
  unfold generateFixed at h
  split at h
  · cases h
  · cases hg : genJobs p nm nj draws with
    | error e => rw [hg] at h; cases h
    | ok r =>
      obtain ⟨jobs, d'⟩ := r
      rw [hg] at h
      simp only [Except.ok.injEq, Prod.mk.injEq] at h
      obtain ⟨rfl, _, _⟩ := h
      exact genJobs_rect hcl hg

theorem next_rect {p : GenParams} (hcl : Classic p) {g g' : GenState} {I : Instance} {n : Nat}
    (h : g.next p = .ok (I, n, g')) :
    ∃ J M, Rect I J M ∧ J ≤ p.jobsRange.2 ∧ M ≤ p.machinesRange.2 := by
  unfold GenState.next at h
  cases hg : generate p g.draws with
  | error e => rw [hg] at h; cases h
  | ok r =>
    obtain ⟨I', nm, d⟩ := r
    rw [hg] at h
    simp only [Except.ok.injEq, Prod.mk.injEq] at h
    obtain ⟨rfl, _, _⟩ := h
    obtain ⟨_, b, _, d', _, f⟩ := C19_shape p g.draws I' nm d hg
    have hmpo : p.mpo.2 = 1 := by rw [hcl.2]
    refine ⟨I'.length, nm, ⟨rfl, ?_, ?_⟩, b, d'⟩
    · intro job hj op ho
      have := ((f job hj).2.1 op ho).count
      rw [if_neg (by omega)] at this
      exact this
    · intro job hj
      exact (f job hj).2.2 (by omega) hcl.1

/-! ## the declared spaces as a function of the instance and the configuration -/

/-- the feature types of the configured observers, in order -/
def featFts (feats : List (FKind × Option (List FT))) : List (List FT) :=
  feats.filterMap fun kf => resolveFts kf.1 kf.2

/-- the spaces `SingleJobShopGraphEnv.__init__` declares -/
def spaceOf (I : Instance) (ec : EnvCfg) : Space :=
  { nJobs := I.length, nMachines := numMachines I, nNodes := (build ec.builder I).nodes.length,
    nEdges := (build ec.builder I).edges.length, feats := shapeF I (featFts ec.feats) }

theorem ext_at {wA wB : FWorld} (e : WExt wA wB) {id : Nat} {base : FObs} (g : wA.heap[id]? = some base)
    (hs : base.kind.single = true) : ∃ q, wB.heap[id]? = some q ∧ q.fts = base.fts ∧ q.kind = base.kind := by
  obtain ⟨q, hq, hk, _, _, hf⟩ := e.step id base g
  exact ⟨q, hq, hf hs, hk⟩

/-- a feature observer's constructor records the resolved feature types -/
theorem construct_fts {w : FWorld} (hw : HeapOK w) (kind : FKind) (hs : kind.single = true) (fts : Option (List FT))
    (hnd : ∀ l, fts = some l → l.Nodup) (w1 : FWorld) (id : Nat) (h : w.construct kind fts = (w1, some id)) :
    ∃ l q, resolveFts kind fts = some l ∧ w1.heap[id]? = some q ∧ q.fts = l ∧ q.kind = kind := by
  cases hr : resolveFts kind fts with
  | none =>
    have : w.construct kind fts = (w, none) := by
      cases kind <;> simp [FKind.single] at hs <;> simp [FWorld.construct, hr]
    rw [this] at h; cases h
  | some l =>
    refine ⟨l, ?_⟩
    have hl := resolveFts_nodup hnd hr
    have hb : (baseOf w.cfg.I kind l).Shaped w.cfg.I := zeroed_shaped _ _ hl
    have hbk : (baseOf w.cfg.I kind l).kind = kind := rfl
    have hbf : (baseOf w.cfg.I kind l).fts = l := rfl
    have hbs : (baseOf w.cfg.I kind l).kind.single = true := by rw [hbk]; exact hs
    generalize hbase : baseOf w.cfg.I kind l = base at hb hbk hbs hbf
    obtain ⟨h1, e1, g1⟩ := push_ok hw base
      ⟨fun _ => hb, fun h => absurd h (single_not_res hbs).1, fun h => absurd h (single_not_res hbs).2⟩
    have key : ∀ wF, w.construct kind fts = (wF, some (w.push base).2) → WExt (w.push base).1 wF →
        ∃ q, some l = some l ∧ w1.heap[id]? = some q ∧ q.fts = l ∧ q.kind = kind := by
      intro wF hc e2
      rw [hc] at h
      simp only [Prod.mk.injEq, Option.some.injEq] at h
      obtain ⟨rfl, rfl⟩ := h
      obtain ⟨q, hq, hf, hk⟩ := ext_at e2 g1 hbs
      exact ⟨q, rfl, hq, hf.trans hbf, hk.trans hbk⟩
    cases kind <;> simp [FKind.single] at hs
    · -- isReady
      have : w.construct .isReady fts = ((w.push base).1.setObs (w.push base).2 (isReadyFeatures w.cfg w.s base), some (w.push base).2) := by
        rw [← hbase]; unfold FWorld.construct; simp only [hr]; rfl
      exact key _ this (setObs_keeps h1 g1 hbs (keeps_isReadyFeatures w.cfg w.s hb)).2
    · -- earliestStart
      have : w.construct .earliestStart fts = ((w.push base).1.setObs (w.push base).2 (estFeatures w.cfg w.s base), some (w.push base).2) := by
        rw [← hbase]; unfold FWorld.construct; simp only [hr]; rfl
      exact key _ this (setObs_keeps h1 g1 hbs (keeps_estFeatures w.cfg w.s hb)).2
    · -- duration
      have : w.construct .duration fts = ((w.push base).1.setObs (w.push base).2 (durationInit w.cfg w.s base), some (w.push base).2) := by
        rw [← hbase]; unfold FWorld.construct; simp only [hr]; rfl
      exact key _ this (setObs_keeps h1 g1 hbs (keeps_durationInit w.cfg w.s hb)).2
    · -- isScheduled
      have : w.construct .isScheduled fts = ((w.push base).1, some (w.push base).2) := by
        rw [← hbase]; unfold FWorld.construct; simp only [hr]; rfl
      exact key _ this (WExt.refl _)
    · -- positionInJob
      have : w.construct .positionInJob fts = ((w.push base).1.setObs (w.push base).2 (positionInit w.cfg w.s base), some (w.push base).2) := by
        rw [← hbase]; unfold FWorld.construct; simp only [hr]; rfl
      exact key _ this (setObs_keeps h1 g1 hbs (keeps_positionInit w.cfg w.s hb)).2
    · -- remainingOps
      have : w.construct .remainingOps fts =
          ((w.push base).1.getUnscheduled.1.setObs (w.push base).2
            (remainingInit (w.push base).1.getUnscheduled.1.cfg
              ((w.push base).1.getUnscheduled.1.heap.getD (w.push base).1.getUnscheduled.2 default).deques base),
           some (w.push base).2) := by
        rw [← hbase]; unfold FWorld.construct; simp only [hr]; rfl
      obtain ⟨h2, e2, _⟩ := getUnscheduled_ok h1
      have g2 := getUnscheduled_keepEntries _ _ _ g1
      have hcfg : (w.push base).1.getUnscheduled.1.cfg = w.cfg := e2.cfg.trans e1.cfg
      have hb2 : base.Shaped (w.push base).1.getUnscheduled.1.cfg.I := by rw [hcfg]; exact hb
      obtain ⟨h3, e3⟩ := setObs_keeps h2 g2 hbs (keeps_remainingInit _ _ hb2)
      exact key _ this (e2.trans e3)
    · -- isCompleted
      have : w.construct .isCompleted fts = ((w.push base).1.isCompletedInit (w.push base).2, some (w.push base).2) := by
        rw [← hbase]; unfold FWorld.construct; simp only [hr]; rfl
      obtain ⟨h2, e2⟩ := isCompletedInit_ok h1 ⟨base, g1, hbk⟩
      exact key _ this e2

theorem constructFeats_fts : ∀ (feats : List (FKind × Option (List FT))) (w : FWorld), HeapOK w → FeatsOK feats →
    ∀ w' ids, constructFeats w feats = some (w', ids) →
      (ids.filterMap fun i => w'.heap[i]?).map (·.fts) = featFts feats
  | [], w, _, _, w', ids, h => by
    simp only [constructFeats] at h; cases h; rfl
  | (k, fts) :: rest, w, hw, hf, w', ids, h => by
    simp only [constructFeats] at h
    by_cases hk : (!k.isFeature || k == .composite) = true
    · rw [if_pos hk] at h; cases h
    · rw [if_neg hk] at h
      have hs : k.single = true := isFeature_single (by simpa using hk)
      obtain ⟨h1, e1, g1⟩ := construct_feature hw k hs fts (hf (k, fts) (by simp))
      rcases hc : w.construct k fts with ⟨w1, oid⟩
      rw [hc] at h h1 e1 g1
      cases oid with
      | none => simp only at h; cases h
      | some id =>
        simp only at h h1 e1 g1
        cases hr : constructFeats w1 rest with
        | none => rw [hr] at h; cases h
        | some r =>
          obtain ⟨w2, ids2⟩ := r
          rw [hr] at h
          simp only [Option.some.injEq, Prod.mk.injEq] at h
          obtain ⟨rfl, rfl⟩ := h
          have hf' : FeatsOK rest := fun kf hkf => hf kf (by simp [hkf])
          obtain ⟨l, q, hrl, hq, hqf, hqk⟩ := construct_fts hw k hs fts (hf (k, fts) (by simp)) w1 id hc
          obtain ⟨_, e2, _⟩ := constructFeats_ok rest w1 h1 hf' w2 ids2 hr
          obtain ⟨q', hq', hqf', _⟩ := ext_at e2 hq (by rw [hqk]; exact hs)
          have ih := constructFeats_fts rest w1 h1 hf' w2 ids2 hr
          simp only [List.filterMap_cons, hq', List.map_cons, featFts, hrl, hqf', hqf]
          exact congrArg _ ih

/-- **the declared spaces depend on the instance only through its graph sizes and entity counts** -/
theorem make_space {c : Cfg} {ec : EnvCfg} {e : Env} (hf : FeatsOK ec.feats) (h : Env.make c ec = some e) :
    e.space = spaceOf c.I ec := by
  unfold Env.make at h
  cases h1 : constructFeats (FWorld.init c) ec.feats with
  | none => rw [h1] at h; cases h
  | some r1 =>
    obtain ⟨w1, ids⟩ := r1
    rw [h1] at h
    simp only at h
    obtain ⟨hw1, e1, g1⟩ := constructFeats_ok ec.feats _ (heapOK_init c) hf w1 ids h1
    have hfts := constructFeats_fts ec.feats _ (heapOK_init c) hf w1 ids h1
    rcases h2 : w1.constructComposite (some ids) with ⟨w2, ocomp⟩
    rw [h2] at h
    cases ocomp with
    | none => simp only at h; cases h
    | some comp =>
      simp only at h
      obtain ⟨hw2, e2, oc, hoc, hkc, hpc, _⟩ := constructComposite_ok hw1 ids g1 w2 comp h2
      rcases h3 : w2.constructResidual (build ec.builder c.I) ec.rmMach ec.rmJob with ⟨w3, oupd⟩
      rw [h3] at h
      cases oupd with
      | none => simp only at h; cases h
      | some upd =>
        simp only at h
        obtain ⟨hw3, e3, ou, hou, hku, hg0, hg⟩ := constructResidual_ok hw2 _ (C17_built_inv ec.builder c.I) _ _ w3 upd h3
        by_cases hrw : (ec.reward != .makespanReward && ec.reward != .idleReward) = true
        · rw [if_pos hrw] at h; cases h
        · rw [if_neg hrw] at h
          have hrk : ec.reward = .makespanReward ∨ ec.reward = .idleReward := by
            cases hr : ec.reward <;> simp [hr] at hrw ⊢
          have hplain : ec.reward = .unscheduled ∨ ec.reward = .history ∨ ec.reward = .makespanReward ∨ ec.reward = .idleReward := by
            rcases hrk with h | h
            · exact Or.inr (Or.inr (Or.inl h))
            · exact Or.inr (Or.inr (Or.inr h))
          obtain ⟨hw4, e4, _⟩ := construct_plain hw3 ec.reward hplain
          have k4 := construct_plain_keep w3 ec.reward hplain
          rcases h4 : w3.construct ec.reward none with ⟨w4, orew⟩
          rw [h4] at h hw4 e4 k4
          cases orew with
          | none => simp only at h; cases h
          | some rew =>
            simp only at h hw4 e4 k4
            obtain ⟨hw5, e5, _⟩ := construct_plain hw4 .history (Or.inr (Or.inl rfl))
            have k5 := construct_plain_keep w4 .history (Or.inr (Or.inl rfl))
            rcases h5 : w4.construct .history none with ⟨w5, ohist⟩
            rw [h5] at h hw5 e5 k5
            cases ohist with
            | none => simp only at h; cases h
            | some hid =>
              simp only [Option.some.injEq] at h hw5 e5 k5
              subst h
              have hcfg : w5.cfg = c := by
                rw [e5.cfg, e4.cfg, e3.cfg, e2.cfg, e1.cfg]; rfl
              have hou5 : w5.heap[upd]? = some ou := k5 _ _ (k4 _ _ hou)
              obtain ⟨oc5, hoc5, hkc5, hpc5, _⟩ := (e3.trans (e4.trans e5)).step comp oc hoc
              have hfeat : (w5.heap.getD comp default).cols.map (fun tc => (tc.1, matShape tc.2)) =
                  shapeF c.I (featFts ec.feats) := by
                simp only [getD_of_some hoc5]
                obtain ⟨hp, hcols, hall⟩ := (hw5 comp oc5 hoc5).comp (hkc5.trans hkc)
                have hsh : ∀ o ∈ oc5.parts.filterMap (fun i => hp[i]?), o.Shaped w5.cfg.I := by
                  intro o ho
                  obtain ⟨i, hi, hio⟩ := List.mem_filterMap.1 ho
                  obtain ⟨p, q, hpi, _, _, hps, _⟩ := hall i hi
                  rw [hpi] at hio; cases hio; exact hps
                rw [hcols, (compositeCols_shape hp oc5.parts hsh).1, hcfg]
                congr 1
                have : ∀ (l : List Nat), (∀ i ∈ l, i ∈ oc5.parts) →
                    (l.filterMap fun i => hp[i]?).map (·.fts) = (l.filterMap fun i => w5.heap[i]?).map (·.fts) := by
                  intro l
                  induction l with
                  | nil => intro _; rfl
                  | cons a t ih =>
                    intro hsub
                    obtain ⟨p, q, hpi, hqi, _, _, hfq⟩ := hall a (hsub a (by simp))
                    simp only [List.filterMap_cons, hpi, hqi, List.map_cons, hfq]
                    rw [ih (fun i hi => hsub i (by simp [hi]))]
                rw [this _ (fun _ h => h), hpc5, hpc, ← hfts]
                exact parts_fts_ext (e2.trans (e3.trans (e4.trans e5))) ids g1
              simp only [spaceOf, getD_of_some hou5, hg, hfeat]

/-! ## whether the constructor succeeds does not depend on the instance -/

/-- observer kinds that the feature-observer constructors (and their helpers) create -/
def Low (k : FKind) : Prop := k ≠ .residual ∧ k ≠ .history ∧ k ≠ .makespanReward ∧ k ≠ .idleReward

def AllK (P : FKind → Prop) (w : FWorld) : Prop := ∀ o ∈ w.heap, P o.kind

theorem allK_push {P : FKind → Prop} {w : FWorld} (h : AllK P w) (o : FObs) (ho : P o.kind) : AllK P (w.push o).1 := by
  intro x hx
  simp only [FWorld.push, List.mem_append, List.mem_singleton] at hx
  rcases hx with hx | rfl
  · exact h x hx
  · exact ho

theorem allK_setObs {P : FKind → Prop} {w : FWorld} (h : AllK P w) (id : Nat) (o' : FObs) (ho : P o'.kind) :
    AllK P (w.setObs id o') := by
  intro x hx
  rcases List.mem_or_eq_of_mem_set hx with hx | rfl
  · exact h x hx
  · exact ho

theorem allK_mono {P Q : FKind → Prop} {w : FWorld} (h : AllK P w) (hPQ : ∀ k, P k → Q k) : AllK Q w :=
  fun o ho => hPQ _ (h o ho)

theorem low_default : Low (default : FObs).kind := by
  show Low FKind.isReady
  simp [Low]

theorem allK_getD {w : FWorld} (h : AllK Low w) (id : Nat) : Low (w.heap.getD id default).kind := by
  rw [List.getD_eq_getElem?_getD]
  cases hg : w.heap[id]? with
  | none => exact low_default
  | some o => exact h o (List.mem_of_getElem? hg)

theorem low_getUnscheduled {w : FWorld} (h : AllK Low w) : AllK Low w.getUnscheduled.1 := by
  unfold FWorld.getUnscheduled
  cases w.findObs .unscheduled [] with
  | some id => exact h
  | none => exact allK_push h _ (by simp [Low])

theorem low_newRemaining {w : FWorld} (h : AllK Low w) (fts : List FT) : AllK Low (w.newRemaining fts).1 := by
  rw [FCtor.newRemaining_eq]
  simp only
  have h1 := low_getUnscheduled (allK_push h (({ kind := .remainingOps, fts := fts } : FObs).zeroed w.cfg.I)
    (by simp [Low, FObs.zeroed]))
  exact allK_setObs h1 _ _ (by rw [RW.remainingInit_kind]; exact allK_getD h1 _)

theorem low_getRemaining {w : FWorld} (h : AllK Low w) (need : List FT) : AllK Low (w.getRemaining need).1 := by
  unfold FWorld.getRemaining
  cases w.findObs .remainingOps need with
  | some id => exact h
  | none => exact low_newRemaining h need

theorem low_isCompletedInit {w : FWorld} (h : AllK Low w) (id : Nat) : AllK Low (w.isCompletedInit id) := by
  unfold FWorld.isCompletedInit
  simp only
  have h1 : AllK Low (w.setObs id ((w.heap.getD id default).zeroed w.cfg.I)) := allK_setObs h _ _ (allK_getD h id)
  have h2 := low_getRemaining h1 (((w.heap.getD id default).zeroed w.cfg.I).fts.filter (· != .operations))
  exact allK_setObs h2 _ _ (allK_getD h2 id)

theorem low_getIsCompleted {w : FWorld} (h : AllK Low w) (need : List FT) : AllK Low (w.getIsCompleted need).1 := by
  unfold FWorld.getIsCompleted
  cases w.findObs .isCompleted need with
  | some id => exact h
  | none => exact low_isCompletedInit (allK_push h _ (by simp [Low, FObs.zeroed])) _

theorem low_constructComposite {w : FWorld} (h : AllK Low w) (parts : Option (List Nat)) :
    AllK Low (w.constructComposite parts).1 := by
  unfold FWorld.constructComposite
  simp only
  exact allK_setObs (allK_push h _ (by simp [Low])) _ _ (by simp [Low])

theorem low_construct {w : FWorld} (h : AllK Low w) (kind : FKind) (hs : kind.single = true) (fts : Option (List FT)) :
    AllK Low (w.construct kind fts).1 := by
  cases kind <;> simp [FKind.single] at hs <;> simp only [FWorld.construct]
  all_goals
    repeat' split
    all_goals first
      | exact h
      | exact allK_push h _ (by simp [Low, FObs.zeroed])
      | exact allK_setObs (allK_push h _ (by simp [Low, FObs.zeroed])) _ _
          (by rw [RW.isReadyFeatures_kind]; simp [Low, FObs.zeroed])
      | exact allK_setObs (allK_push h _ (by simp [Low, FObs.zeroed])) _ _
          (by rw [RW.estFeatures_kind]; simp [Low, FObs.zeroed])
      | exact allK_setObs (allK_push h _ (by simp [Low, FObs.zeroed])) _ _
          (by rw [RW.durationInit_kind]; simp [Low, FObs.zeroed])
      | exact allK_setObs (allK_push h _ (by simp [Low, FObs.zeroed])) _ _
          (by rw [RW.positionInit_kind]; simp [Low, FObs.zeroed])
      | exact allK_setObs (low_getUnscheduled (allK_push h _ (by simp [Low, FObs.zeroed]))) _ _
          (by rw [RW.remainingInit_kind]; simp [Low, FObs.zeroed])
      | exact low_isCompletedInit (allK_push h _ (by simp [Low, FObs.zeroed])) _

theorem any_kind_false {P : FKind → Prop} {w : FWorld} (h : AllK P w) (K : FKind) (hK : ¬ P K) :
    (w.subs.any fun id => (w.heap[id]?.map (·.kind)) == some K) = false := by
  cases hb : (w.subs.any fun id => (w.heap[id]?.map (·.kind)) == some K) with
  | false => rfl
  | true =>
    obtain ⟨id, _, hid⟩ := List.any_eq_true.1 hb
    simp only [beq_iff_eq, Option.map_eq_some_iff] at hid
    obtain ⟨o, ho, hk⟩ := hid
    exact absurd (hk ▸ h o (List.mem_of_getElem? ho)) hK

/-- a feature-observer configuration the constructor accepts -/
def FeatGood (kf : FKind × Option (List FT)) : Prop :=
  (!kf.1.isFeature || kf.1 == .composite) = false ∧ (resolveFts kf.1 kf.2).isSome = true

theorem construct_resolve {w w1 : FWorld} {k : FKind} (hs : k.single = true) {fts : Option (List FT)} {id : Nat}
    (h : w.construct k fts = (w1, some id)) : (resolveFts k fts).isSome = true := by
  cases hr : resolveFts k fts with
  | some l => rfl
  | none =>
    have : w.construct k fts = (w, none) := by
      cases k <;> simp [FKind.single] at hs <;> simp [FWorld.construct, hr]
    rw [this] at h; cases h

theorem construct_some (w : FWorld) {k : FKind} (hs : k.single = true) {fts : Option (List FT)}
    (hr : (resolveFts k fts).isSome = true) : ∃ id, (w.construct k fts).2 = some id := by
  obtain ⟨l, hl⟩ := Option.isSome_iff_exists.1 hr
  cases k <;> simp [FKind.single] at hs <;> simp [FWorld.construct, hl]

theorem constructFeats_good : ∀ (feats : List (FKind × Option (List FT))) (w w' : FWorld) (ids : List Nat),
    constructFeats w feats = some (w', ids) → ∀ kf ∈ feats, FeatGood kf
  | [], _, _, _, _, kf, hkf => by cases hkf
  | (k, fts) :: rest, w, w', ids, h, kf, hkf => by
    simp only [constructFeats] at h
    by_cases hk : (!k.isFeature || k == .composite) = true
    · rw [if_pos hk] at h; cases h
    · rw [if_neg hk] at h
      have hs : k.single = true := isFeature_single (by simpa using hk)
      rcases hc : w.construct k fts with ⟨w1, oid⟩
      rw [hc] at h
      cases oid with
      | none => simp only at h; cases h
      | some id =>
        simp only at h
        cases hr : constructFeats w1 rest with
        | none => rw [hr] at h; cases h
        | some r =>
          rcases List.mem_cons.1 hkf with rfl | hkf
          · exact ⟨by simpa using hk, construct_resolve hs hc⟩
          · exact constructFeats_good rest w1 r.1 r.2 hr kf hkf

theorem constructFeats_total : ∀ (feats : List (FKind × Option (List FT))) (w : FWorld), (∀ kf ∈ feats, FeatGood kf) →
    AllK Low w → ∃ w' ids, constructFeats w feats = some (w', ids) ∧ AllK Low w'
  | [], w, _, hl => ⟨w, [], rfl, hl⟩
  | (k, fts) :: rest, w, hg, hl => by
    obtain ⟨hk, hr⟩ := hg (k, fts) (by simp)
    have hs : k.single = true := isFeature_single hk
    obtain ⟨id, hid⟩ := construct_some w hs hr
    have hl1 := low_construct hl k hs fts
    rcases hc : w.construct k fts with ⟨w1, oid⟩
    rw [hc] at hid hl1
    simp only at hid hl1
    subst hid
    obtain ⟨w2, ids2, h2, hl2⟩ := constructFeats_total rest w1 (fun kf hkf => hg kf (by simp [hkf])) hl1
    refine ⟨w2, id :: ids2, ?_, hl2⟩
    simp only [constructFeats]
    rw [if_neg (by rw [hk]; simp), hc]
    simp only [h2]

/-- kinds other than the ones the reward / history constructors look for -/
def NoRew (k : FKind) : Prop := k ≠ .history ∧ k ≠ .makespanReward ∧ k ≠ .idleReward
def NoHist (k : FKind) : Prop := k ≠ .history

theorem constructResidual_total {w : FWorld} (h : AllK Low w) (g : Graph) (rm rj : Bool) :
    ∃ w' id, w.constructResidual g rm rj = (w', some id) ∧ AllK NoRew w' := by
  have hmono : ∀ {w : FWorld}, AllK Low w → AllK NoRew w := fun h => allK_mono h (fun k hk => ⟨hk.2.1, hk.2.2.1, hk.2.2.2⟩)
  unfold FWorld.constructResidual
  rw [if_neg (by rw [any_kind_false h .residual (by simp [Low])]; simp)]
  simp only
  by_cases hne : ((if rm then [FT.machines] else []) ++ (if rj then [FT.jobs] else [])).isEmpty = true
  · rw [if_pos hne]
    exact ⟨_, _, rfl, allK_push (hmono h) _ (by simp [NoRew])⟩
  · rw [if_neg hne]
    exact ⟨_, _, rfl, allK_push (hmono (low_getIsCompleted h _)) _ (by simp [NoRew])⟩

theorem construct_singleton_total {P Q : FKind → Prop} {w : FWorld} (kind : FKind)
    (hk : kind = .history ∨ kind = .makespanReward ∨ kind = .idleReward) (h : AllK P w) (hno : ¬ P kind)
    (hPQ : ∀ k, P k → Q k) (hQ : Q kind) : ∃ w' id, w.construct kind none = (w', some id) ∧ AllK Q w' := by
  have hany := any_kind_false h kind hno
  rcases hk with rfl | rfl | rfl
  all_goals
    simp only [FWorld.construct]
    rw [if_neg (by rw [hany]; simp)]
    exact ⟨_, _, rfl, allK_push (allK_mono h hPQ) _ hQ⟩

/-- **if the constructor accepts a configuration on one instance it accepts it on every instance** -/
theorem make_total {c : Cfg} {ec : EnvCfg} {e : Env} (h : Env.make c ec = some e) (c' : Cfg) :
    ∃ e', Env.make c' ec = some e' := by
  have hgood : (∀ kf ∈ ec.feats, FeatGood kf) ∧ (ec.reward != .makespanReward && ec.reward != .idleReward) = false := by
    unfold Env.make at h
    cases h1 : constructFeats (FWorld.init c) ec.feats with
    | none => rw [h1] at h; cases h
    | some r1 =>
      refine ⟨constructFeats_good _ _ r1.1 r1.2 h1, ?_⟩
      rw [h1] at h
      simp only at h
      rcases h2 : r1.1.constructComposite (some r1.2) with ⟨w2, ocomp⟩
      rw [h2] at h
      cases ocomp with
      | none => simp only at h; cases h
      | some comp =>
        simp only at h
        rcases h3 : w2.constructResidual (build ec.builder c.I) ec.rmMach ec.rmJob with ⟨w3, oupd⟩
        rw [h3] at h
        cases oupd with
        | none => simp only at h; cases h
        | some upd =>
          simp only at h
          by_cases hrw : (ec.reward != .makespanReward && ec.reward != .idleReward) = true
          · rw [if_pos hrw] at h; cases h
          · simpa using hrw
  obtain ⟨hfeat, hrw⟩ := hgood
  have hrk : ec.reward = .makespanReward ∨ ec.reward = .idleReward := by
    cases hr : ec.reward <;> simp [hr] at hrw ⊢
  have hinit : AllK Low (FWorld.init c') := by intro o ho; simp [FWorld.init] at ho
  obtain ⟨w1, ids, h1, l1⟩ := constructFeats_total ec.feats _ hfeat hinit
  have l2 := low_constructComposite l1 (some ids)
  have h2 : w1.constructComposite (some ids) = ((w1.constructComposite (some ids)).1, some w1.heap.length) := rfl
  generalize (w1.constructComposite (some ids)).1 = w2 at h2 l2
  obtain ⟨w3, upd, h3, l3⟩ := constructResidual_total l2 (build ec.builder c'.I) ec.rmMach ec.rmJob
  obtain ⟨w4, rew, h4, l4⟩ := construct_singleton_total (Q := NoHist) ec.reward
    (by rcases hrk with h | h <;> simp [h]) l3 (by rcases hrk with h | h <;> simp [h, NoRew])
    (fun k hk => hk.1) (by rcases hrk with h | h <;> simp [h, NoHist])
  obtain ⟨w5, hid, h5, _⟩ := construct_singleton_total (Q := fun _ => True) .history (Or.inl rfl) l4 (by simp [NoHist])
    (fun _ _ => trivial) trivial
  unfold Env.make
  rw [h1]
  simp only
  rw [h2]
  simp only
  rw [h3]
  simp only
  rw [if_neg (by rw [hrw]; simp), h4]
  simp only
  rw [h5]
  exact ⟨_, rfl⟩

/-! ## padding an observation of a smaller space -/

theorem containsObs_iff (sp : Space) (o : EObs) : sp.containsObs o = true ↔
    ((((o.removed.length = sp.nNodes ∧ o.edgeIndex.length = sp.nEdges) ∧
      (∀ uv ∈ o.edgeIndex, ((-1 ≤ uv.1 ∧ uv.1 < sp.nNodes) ∧ -1 ≤ uv.2) ∧ uv.2 < sp.nNodes)) ∧
      (o.feats.map fun tc => (tc.1, matShape tc.2)) = sp.feats) ∧
      ∀ tc ∈ o.feats, ∀ col ∈ tc.2, col.length = (tc.2.headD []).length) := by
  simp only [Space.containsObs, Bool.and_eq_true, beq_iff_eq, List.all_eq_true, decide_eq_true_eq]

theorem padMatrix_ok (cols : List (List Int)) (rows : Nat) (hr : (cols.headD []).length ≤ rows)
    (hu : ∀ col ∈ cols, col.length = (cols.headD []).length) :
    ∃ m, padMatrix cols rows cols.length = some m ∧ m.length = cols.length ∧ ∀ col ∈ m, col.length = rows := by
  unfold padMatrix
  rw [show matShape cols = ((cols.headD []).length, cols.length) from rfl]
  simp only []
  have hlt : (decide (rows < (cols.headD []).length) || decide (cols.length < cols.length)) = false := by
    simp only [Bool.or_eq_false_iff, decide_eq_false_iff_not]; omega
  simp only [hlt, Bool.false_eq_true, ↓reduceIte]
  by_cases hz : ((cols.headD []).length * cols.length == 0) = true
  · simp only [hz, ↓reduceIte]
    refine ⟨_, rfl, by simp, ?_⟩
    intro col hc
    rw [List.mem_replicate] at hc
    rw [hc.2]; simp
  · simp only [hz, Bool.false_eq_true, ↓reduceIte]
    refine ⟨_, rfl, by simp, ?_⟩
    intro col hc
    simp only [Nat.sub_self, List.replicate_zero, List.append_nil, List.mem_map] at hc
    obtain ⟨c0, hc0, rfl⟩ := hc
    have := hu c0 hc0
    simp only [List.length_append, List.length_replicate]
    omega

theorem matShape_of_uniform (m : List (List Int)) (rows n : Nat) (hlen : m.length = n) (hpos : 1 ≤ n)
    (hall : ∀ col ∈ m, col.length = rows) :
    matShape m = (rows, n) ∧ ∀ col ∈ m, col.length = (m.headD []).length := by
  cases m with
  | nil => simp at hlen; omega
  | cons a t =>
    have ha := hall a (by simp)
    refine ⟨by simp only [matShape, List.headD_cons, ha, hlen], ?_⟩
    intro col hc
    rw [hall col hc, List.headD_cons, ha]

theorem find_key (g : FT → Nat × Nat) (ft : FT) : ∀ (keys : List FT), ft ∈ keys →
    (keys.map fun k => (k, g k)).find? (·.1 == ft) = some (ft, g ft)
  | [], h => by cases h
  | k :: t, h => by
    simp only [List.map_cons, List.find?_cons]
    by_cases hk : k = ft
    · subst hk; simp
    · have : (k == ft) = false := by simpa using hk
      simp only [this]
      rcases List.mem_cons.1 h with rfl | h
      · exact absurd rfl hk
      · exact find_key g ft t h

theorem padFeats_ok (sp0 : Space) (keys : List FT) (r r0 cnt : FT → Nat)
    (hsp0 : sp0.feats = keys.map fun ft => (ft, r0 ft, cnt ft)) (hle : ∀ ft, r ft ≤ r0 ft)
    (hpos : ∀ ft ∈ keys, 1 ≤ cnt ft) :
    ∀ (fs : List (FT × List (List Int))) (ks : List FT), (∀ ft ∈ ks, ft ∈ keys) →
      (fs.map fun tc => (tc.1, matShape tc.2)) = ks.map (fun ft => (ft, r ft, cnt ft)) →
      (∀ tc ∈ fs, ∀ col ∈ tc.2, col.length = (tc.2.headD []).length) →
      ∃ fs', fs.mapM (padFeat sp0) = some fs' ∧
        (fs'.map fun tc => (tc.1, matShape tc.2)) = ks.map (fun ft => (ft, r0 ft, cnt ft)) ∧
        ∀ tc ∈ fs', ∀ col ∈ tc.2, col.length = (tc.2.headD []).length
  | [], ks, _, hm, _ => by
    cases ks with
    | nil => exact ⟨[], rfl, rfl, fun _ h => by cases h⟩
    | cons k t => simp at hm
  | tc :: fs, ks, hks, hm, hu => by
    cases ks with
    | nil => simp at hm
    | cons k t =>
      simp only [List.map_cons, List.cons.injEq, Prod.mk.injEq] at hm
      obtain ⟨⟨hk, hshape⟩, hrest⟩ := hm
      obtain ⟨fs', hfs', hsh', hu'⟩ := padFeats_ok sp0 keys r r0 cnt hsp0 hle hpos fs t
        (fun ft h => hks ft (by simp [h])) hrest (fun tc' h => hu tc' (by simp [h]))
      have hkin : tc.1 ∈ keys := hk ▸ hks k (by simp)
      have hfind : sp0.feats.find? (·.1 == tc.1) = some (tc.1, r0 tc.1, cnt tc.1) := by
        rw [hsp0]; exact find_key (fun ft => (r0 ft, cnt ft)) tc.1 keys hkin
      simp only [matShape, Prod.mk.injEq] at hshape
      have hrow : (tc.2.headD []).length ≤ r0 tc.1 := by rw [hshape.1, ← hk]; exact hle _
      have hcnt : tc.2.length = cnt tc.1 := by rw [hshape.2, hk]
      obtain ⟨m, hm1, hm2, hm3⟩ := padMatrix_ok tc.2 (r0 tc.1) hrow (hu tc (by simp))
      have hpf : padFeat sp0 tc = some (tc.1, m) := by
        unfold padFeat
        rw [hfind]
        simp only
        rw [← hcnt, hm1]; rfl
      obtain ⟨hms, hmu⟩ := matShape_of_uniform m (r0 tc.1) (cnt tc.1) (hm2.trans hcnt) (hpos _ hkin) hm3
      refine ⟨(tc.1, m) :: fs', ?_, ?_, ?_⟩
      · rw [List.mapM_cons, hpf, hfs']; rfl
      · simp only [List.map_cons, hsh', hms, hk]
      · intro tc' h
        rcases List.mem_cons.1 h with rfl | h
        · exact hmu
        · exact hu' tc' h

/-- an observation of a smaller space of the same configuration pads into the larger space -/
theorem padObs_fits (sp sp0 : Space) (keys : List FT) (r r0 cnt : FT → Nat)
    (hsp : sp.feats = keys.map fun ft => (ft, r ft, cnt ft))
    (hsp0 : sp0.feats = keys.map fun ft => (ft, r0 ft, cnt ft)) (hle : ∀ ft, r ft ≤ r0 ft)
    (hpos : ∀ ft ∈ keys, 1 ≤ cnt ft) (hn : sp.nNodes ≤ sp0.nNodes) (he : sp.nEdges ≤ sp0.nEdges)
    (o : EObs) (ho : sp.containsObs o = true) : ∃ o', padObs sp0 o = some o' ∧ sp0.containsObs o' = true := by
  rw [containsObs_iff] at ho
  obtain ⟨⟨⟨⟨h1, h2⟩, h3⟩, h4⟩, h5⟩ := ho
  obtain ⟨fs', hfs, hsh, hu⟩ := padFeats_ok sp0 keys r r0 cnt hsp0 hle hpos o.feats keys (fun _ h => h) (h4.trans hsp) h5
  unfold padObs
  rw [padEnd_spec _ _ _ (by omega), padEnd_spec _ _ _ (by omega)]
  simp only [hfs, Option.map_some]
  refine ⟨_, rfl, ?_⟩
  rw [containsObs_iff]
  refine ⟨⟨⟨⟨?_, ?_⟩, ?_⟩, ?_⟩, hu⟩
  · simp only [List.length_append, List.length_replicate]; omega
  · simp only [List.length_append, List.length_replicate]; omega
  · intro uv huv
    simp only at huv
    rcases List.mem_append.1 huv with h | h
    · have := h3 uv h; omega
    · obtain ⟨_, rfl⟩ := List.mem_replicate.1 h
      simp only
      omega
  · simp only; rw [hsh, hsp0]

theorem spaceOf_fits {I I0 : Instance} (ec : EnvCfg)
    (hn : (build ec.builder I).nodes.length ≤ (build ec.builder I0).nodes.length)
    (he : (build ec.builder I).edges.length ≤ (build ec.builder I0).edges.length)
    (hent : ∀ ft, numEntities I ft ≤ numEntities I0 ft) (o : EObs) (ho : (spaceOf I ec).containsObs o = true) :
    ∃ o', padObs (spaceOf I0 ec) o = some o' ∧ (spaceOf I0 ec).containsObs o' = true := by
  apply padObs_fits (spaceOf I ec) (spaceOf I0 ec) (orderOf (featFts ec.feats)) (numEntities I) (numEntities I0)
    (fun ft => ((featFts ec.feats).filter (·.contains ft)).length) rfl rfl hent ?_ hn he o ho
  intro ft hft
  obtain ⟨fts, hfts, hmem⟩ := (orderOf_mem _ ft).1 hft
  apply List.length_pos_of_mem (a := fts)
  simp only [List.mem_filter]
  exact ⟨hfts, by simpa using hmem⟩

theorem Rect.fits {I I0 : Instance} {J M J0 M0 : Nat} (h : Rect I J M) (h0 : Rect I0 J0 M0) (hJ : J ≤ J0) (hM : M ≤ M0)
    (ec : EnvCfg) (o : EObs) (ho : (spaceOf I ec).containsObs o = true) :
    ∃ o', padObs (spaceOf I0 ec) o = some o' ∧ (spaceOf I0 ec).containsObs o' = true := by
  apply spaceOf_fits ec ?_ ?_ ?_ o ho
  · rw [h.nodes_build, h0.nodes_build]; exact nodesOf_mono _ hJ hM
  · rw [h.edges_build, h0.edges_build]; exact edgesOf_mono _ hJ hM
  · intro ft
    cases ft
    · show numOps I ≤ numOps I0
      rw [h.numOps_eq, h0.numOps_eq]; exact Nat.mul_le_mul hJ hM
    · show numMachines I ≤ numMachines I0
      rw [h.numMachines_eq, h0.numMachines_eq]; exact kOf_mono hJ hM
    · show I.length ≤ I0.length
      rw [h.len, h0.len]; exact hJ

end MF

/-! ## the multi-instance environment -/

/-- events of the multi environment -/
inductive MEv | reset | step (job : Nat) (machine : Int)

def MultiEnv.stepEv (m : MultiEnv) : MEv → MultiEnv
  | .reset => m.reset.1
  | .step j mm => (m.step j mm).1

def MultiEnv.run (m : MultiEnv) (evs : List MEv) : MultiEnv := evs.foldl MultiEnv.stepEv m

namespace MF

/-- what every reachable multi environment satisfies: the constructor's parameters and spaces, and an episode environment
that was made with the constructor's configuration on a rectangular instance within the ranges and then stepped / reset -/
structure MInv (p : GenParams) (ec : EnvCfg) (F : FilterCfg) (sp0 : Space) (m : MultiEnv) : Prop where
  hp : m.p = p
  hec : m.ec = ec
  hF : m.F = F
  hsp : m.space = sp0
  env : ∃ (I : Instance) (J M : Nat) (e0 : Env) (evs : List EnvEv), Rect I J M ∧ J ≤ p.jobsRange.2 ∧ M ≤ p.machinesRange.2 ∧
    Env.make { I := I, F := F } ec = some e0 ∧ m.env = e0.runEvs evs

theorem MInv.env_ec {p : GenParams} {ec : EnvCfg} {F : FilterCfg} {sp0 : Space} {m : MultiEnv} (h : MInv p ec F sp0 m)
    (hf : FeatsOK ec.feats) : m.env.ec = ec := by
  obtain ⟨I, J, M, e0, evs, _, _, _, hmk, he⟩ := h.env
  rw [he, (Env.runEvs_ec e0 evs).1]
  exact (Env.make_envOK hf hmk).2.2

theorem step_fst (m : MultiEnv) (j : Nat) (mm : Int) : (m.step j mm).1 = { m with env := (m.env.step j mm).1 } := by
  unfold MultiEnv.step
  rcases hs : m.env.step j mm with ⟨env', out⟩
  cases out with
  | raised => rfl
  | ok obs r d t av =>
    simp only
    split
    · split <;> rfl
    · rfl

theorem runEvs_snoc (e : Env) (evs : List EnvEv) (ev : EnvEv) : e.runEvs (evs ++ [ev]) = (e.runEvs evs).apply ev := by
  simp only [Env.runEvs, List.foldl_append, List.foldl_cons, List.foldl_nil]

theorem minv_step {p : GenParams} {ec : EnvCfg} {F : FilterCfg} {sp0 : Space} {m : MultiEnv} (h : MInv p ec F sp0 m)
    (j : Nat) (mm : Int) : MInv p ec F sp0 (m.step j mm).1 := by
  rw [step_fst]
  obtain ⟨I, J, M, e0, evs, hr, hJ, hM, hmk, he⟩ := h.env
  refine ⟨h.hp, h.hec, h.hF, h.hsp, I, J, M, e0, evs ++ [.step j mm], hr, hJ, hM, hmk, ?_⟩
  rw [runEvs_snoc, ← he]; rfl

theorem minv_reset {p : GenParams} {ec : EnvCfg} {F : FilterCfg} {sp0 : Space} {m : MultiEnv} (hcl : Classic p)
    (hf : FeatsOK ec.feats) (h : MInv p ec F sp0 m) : MInv p ec F sp0 m.reset.1 := by
  have hecu : ({ m.ec with usePadding := m.env.ec.usePadding } : EnvCfg) = ec := by
    rw [h.env_ec hf, h.hec]
  unfold MultiEnv.reset
  cases hg : m.gs.next m.p with
  | error e => exact ⟨h.hp, h.hec, h.hF, h.hsp, h.env⟩
  | ok r =>
    obtain ⟨I, n, gs'⟩ := r
    simp only
    rw [hecu]
    cases hmk : Env.make { I := I, F := m.F } ec with
    | none => exact ⟨h.hp, h.hec, h.hF, h.hsp, h.env⟩
    | some env =>
      simp only
      have hm' : MInv p ec F sp0 { m with gs := gs', env := env.reset.1 } := by
        rw [h.hp] at hg
        obtain ⟨J, M, hr, hJ, hM⟩ := next_rect hcl hg
        rw [h.hF] at hmk
        exact ⟨h.hp, h.hec, h.hF, h.hsp, I, J, M, env, [.reset], hr, hJ, hM, hmk, rfl⟩
      cases env.reset.2 with
      | none => exact hm'
      | some o => exact hm'

theorem minv_run {p : GenParams} {ec : EnvCfg} {F : FilterCfg} {sp0 : Space} (hcl : Classic p) (hf : FeatsOK ec.feats) :
    ∀ (evs : List MEv) (m : MultiEnv), MInv p ec F sp0 m → MInv p ec F sp0 (m.run evs)
  | [], _, h => h
  | ev :: t, m, h => by
    have h1 : MInv p ec F sp0 (m.stepEv ev) := by
      cases ev with
      | reset => exact minv_reset hcl hf h
      | step j mm => exact minv_step h j mm
    exact minv_run hcl hf t _ h1

theorem make_minv {p : GenParams} {ec : EnvCfg} {F : FilterCfg} {draws : List Nat} {m0 : MultiEnv} (hcl : Classic p)
    (hmk : MultiEnv.make p ec F draws = some m0) :
    ∃ I0, Rect I0 p.jobsRange.2 p.machinesRange.2 ∧ (FeatsOK ec.feats → m0.space = spaceOf I0 ec) ∧
      MInv p ec F m0.space m0 := by
  unfold MultiEnv.make at hmk
  cases hg : generateFixed p p.jobsRange.2 p.machinesRange.2 draws with
  | error e => rw [hg] at hmk; cases hmk
  | ok r =>
    obtain ⟨I, n, d⟩ := r
    rw [hg] at hmk
    simp only at hmk
    cases hm : Env.make { I := I, F := F } ec with
    | none => rw [hm] at hmk; cases hmk
    | some env =>
      rw [hm] at hmk
      simp only [Option.some.injEq] at hmk
      subst hmk
      have hr := generateFixed_rect hcl hg
      exact ⟨I, hr, fun hf => make_space hf hm, rfl, rfl, rfl, rfl, I, _, _, env, [], hr, Nat.le_refl _, Nat.le_refl _, hm, rfl⟩

theorem reset_snd (m : MultiEnv) {I : Instance} {n : Nat} {gs' : GenState} {env : Env} {o : EObs}
    (hn : m.gs.next m.p = .ok (I, n, gs'))
    (hmk : Env.make { I := I, F := m.F } { m.ec with usePadding := m.env.ec.usePadding } = some env)
    (ho : env.reset.2 = some o) (hp : env.ec.usePadding = true) : m.reset.2 = padObs m.space o := by
  unfold MultiEnv.reset
  rw [hn]
  simp only
  rw [hmk]
  simp only
  have hp' : env.reset.1.ec.usePadding = true := hp
  rw [ho]
  simp only [hp', ↓reduceIte]

end MF

open MF in
/-- **C18 (multi-instance environment, classic generators).** For a generator without recirculation and with exactly
one machine per operation, after any sequence of resets and steps of the multi environment: a reset for which the
generator yields an instance succeeds and returns an observation of the declared space; a step that the episode's
environment accepts returns an observation of the declared space.  (The declared spaces are those of one sample instance
of maximum size: every generated instance is rectangular and no larger, so its graph has no more nodes and edges and its
feature matrices no more rows.) -/
theorem C18_multi_fits_classic (p : GenParams) (ec : EnvCfg) (F : FilterCfg) (draws : List Nat) (m0 : MultiEnv)
    (hcl : Classic p) (hf : FeatsOK ec.feats) (hpad : ec.usePadding = true)
    (hmk : MultiEnv.make p ec F draws = some m0) (evs : List MEv) :
    let m := m0.run evs
    -- reset: if the generator yields an instance, the reset succeeds and its observation is in the declared space
    (∀ I n gs', m.gs.next m.p = .ok (I, n, gs') → ∃ o, m.reset.2 = some o ∧ m0.space.containsObs o = true) ∧
    -- step: a step that the episode environment accepts yields an observation in the declared space
    (∀ j mm, (∃ env' obs r d t av, m.env.step j mm = (env', .ok obs r d t av)) →
        ∃ o r d t av, (m.step j mm).2 = .ok o r d t av ∧ m0.space.containsObs o = true) := by
  intro m
  obtain ⟨I0, hr0, hsp0, hinv0⟩ := make_minv hcl hmk
  have hinv : MInv p ec F m0.space m := minv_run hcl hf evs m0 hinv0
  have hspace := hsp0 hf
  obtain ⟨I, J, M, e0, evs', hr, hJ, hM, hmke, he⟩ := hinv.env
  have hecm : m.env.ec = ec := hinv.env_ec hf
  constructor
  · intro I' n gs' hnext
    have hnext' := hnext
    rw [hinv.hp] at hnext'
    obtain ⟨J', M', hr', hJ', hM'⟩ := next_rect hcl hnext'
    obtain ⟨env, hmk'⟩ := make_total hmke { I := I', F := F }
    obtain ⟨o, ho, _, hin, _⟩ := C18_observation_in_space { I := I', F := F } ec env hf hpad hmk' [.reset]
    have hsp' : env.space = spaceOf I' ec := make_space hf hmk'
    rw [hsp'] at hin
    obtain ⟨o', hpo, hco⟩ := hr'.fits hr0 hJ' hM' ec o hin
    refine ⟨o', ?_, by rw [hspace]; exact hco⟩
    have hecu : ({ m.ec with usePadding := m.env.ec.usePadding } : EnvCfg) = ec := by rw [hecm, hinv.hec]
    rw [reset_snd m hnext (by rw [hecu, hinv.hF]; exact hmk') ho
      (by rw [(Env.make_envOK hf hmk').2.2]; exact hpad), hinv.hsp, hspace]
    exact hpo
  · rintro j mm ⟨env', obs, r, d, t, av, hstep⟩
    have h18 := C18_step_returns_observation { I := I, F := F } ec e0 hf hpad hmke evs' j mm
    simp only at h18
    rw [← he, hstep] at h18
    rcases h18 with ⟨obs', r', d', t', av', hok, hin⟩ | ⟨hraised, _⟩
    · simp only [StepOut.ok.injEq] at hok
      obtain ⟨rfl, rfl, rfl, rfl, rfl⟩ := hok
      rw [make_space hf hmke] at hin
      obtain ⟨o', hpo, hco⟩ := hr.fits hr0 hJ hM ec obs hin
      refine ⟨o', r, d, t, av, ?_, by rw [hspace]; exact hco⟩
      have hpad' : env'.ec.usePadding = true := by
        have := (Env.step_ec m.env j mm).1
        rw [hstep] at this
        simp only at this
        rw [this, hecm]; exact hpad
      unfold MultiEnv.step
      rw [hstep]
      simp only [hpad', ↓reduceIte]
      rw [hinv.hsp, hspace, hpo]
    · cases hraised

/-! non-vacuity: a classic generator, an accepted configuration, a constructed multi environment whose generator yields
an instance, whose reset returns an observation and whose episode environment accepts a step -/
example :
    let p : GenParams := { jobsRange := (1, 2), machinesRange := (1, 2), durRange := (1, 9) }
    let ec : EnvCfg := { builder := .disjunctive, feats := [(.isReady, none), (.duration, some [.machines, .operations])] }
    let draws : List Nat := [5, 3, 7, 1, 2, 9, 0, 4, 4, 1, 3, 3, 8, 2, 2, 6]
    Classic p ∧ FeatsOK ec.feats ∧ ec.usePadding = true ∧ (MultiEnv.make p ec none draws).isSome = true ∧
    ((MultiEnv.make p ec none draws).map fun m =>
      (m.reset.2.isSome, (match (m.reset.1.env.step 0 (-1)).2 with | .ok _ _ _ _ _ => true | .raised => false))) =
      some (true, true) := by
  refine ⟨⟨rfl, rfl⟩, ?_, rfl, ?_, ?_⟩
  · intro kf hkf l hl
    simp only [List.mem_cons, List.mem_nil_iff, or_false] at hkf
    rcases hkf with rfl | rfl <;> simp at hl <;> subst hl <;> decide
  · decide
  · decide

end JS

import JobShopProofs.Invariant
import JobShopProofs.QueriesSpec
/-!
# Invariants along every history

`Inv c s` = dispatcher invariant `CInv` + memo coherence `CacheOK`.  It holds initially and is preserved by
every event (`disp` accepted or rejected, `reset`, any query), hence in every state `run c evs`.
-/
namespace JS

structure Inv (c : Cfg) (s : State) : Prop where
  cinv : CInv c.I s
  cache : CacheOK c s

theorem cinv_setCache {I : Instance} {s : State} (k : Cache) (h : CInv I s) : CInv I (setCache s k) :=
  ⟨⟨h.wf.lenS, h.wf.lenM, h.wf.lenI, h.wf.lenN⟩,
   let ⟨a, hr, ha, ha2⟩ := h.abs; ⟨a, ⟨hr.idx, hr.mN, hr.jN, hr.sched⟩, ha, ha2⟩,
   h.inList, h.ordered, h.lastEnd⟩

theorem inv_init (c : Cfg) : Inv c (init c.I) := ⟨cinv_init c.I, cacheOK_empty c _ rfl⟩

/-- what an accepted request is, in terms of the core `dispatch` -/
theorem dispatchReq_ok {I : Instance} {s s' : State} {j p : Nat} {m : Option Int}
    (h : dispatchReq I s j p m = .ok s') :
    ∃ mm op, getOp I j p = some op ∧ resolveMachine op m = .ok mm ∧ dispatch I s j p mm = .ok s' := by
  unfold dispatchReq at h
  split at h
  · cases h
  · rename_i op hop
    split at h
    · cases h
    · split at h
      · cases h
      · rename_i mm hmm
        exact ⟨mm, op, hop, hmm, h⟩

theorem inv_dispatch {c : Cfg} (hv : Valid c.I) {s s' : State} {j p m : Nat} (hi : Inv c s)
    (h : dispatch c.I s j p m = .ok s') : Inv c s' := by
  obtain ⟨op, hd⟩ := dispatch_ok h
  refine ⟨cinv_dispatch (hv j p op hd.hop).2.2 hi.cinv hd, cacheOK_empty c s' ?_⟩
  rw [hd.eq]

theorem inv_stepEv {c : Cfg} (hv : Valid c.I) {s : State} (hi : Inv c s) (e : Ev) : Inv c (stepEv c s e).1 := by
  cases e with
  | disp j p m =>
    simp only [stepEv]
    split
    · rename_i s' h
      obtain ⟨mm, op, _, _, hd⟩ := dispatchReq_ok h
      exact inv_dispatch hv hi hd
    · exact hi
  | reset => exact inv_init c
  | query q =>
    simp only [stepEv]
    obtain ⟨_, hok, k, hk⟩ := ask_ok c s hi.cache q
    refine ⟨?_, hok⟩
    rw [hk]; exact cinv_setCache k hi.cinv

theorem inv_runEvs {c : Cfg} (hv : Valid c.I) {s : State} (hi : Inv c s) (evs : List Ev) : Inv c (runEvs c s evs) := by
  induction evs generalizing s with
  | nil => exact hi
  | cons e evs ih => exact ih (inv_stepEv hv hi e)

theorem run_snoc (c : Cfg) (evs : List Ev) (e : Ev) : run c (evs ++ [e]) = (stepEv c (run c evs) e).1 := by
  simp [run, runEvs, List.foldl_append]

/-- the invariant holds after every history -/
theorem inv_run {c : Cfg} (hv : Valid c.I) (evs : List Ev) : Inv c (run c evs) := inv_runEvs hv (inv_init c) evs

end JS

import JobShopProofs.EnvOptimum
import JobShopProofs.LateReward
import JobShopProofs.EnvEpisodes
import JobShopProofs.MultiEnvFits
/-!
# The multi-instance environment: the reward clauses of C13 / C18 and the action-space clause of C18

`MultiEnv` draws a new instance from the generator at every `reset` and builds a NEW episode environment with
`Env.make`.  Whatever the history (resets onto new instances, steps, legal or not):

* `C13_multi_env` — the reward observer the environment reads satisfies C13's identities for the current episode;
* `C18_multi_step_reward` — the reward an accepted step returns is the one entry the observer's list grew by;
* `C18_multi_legal_action_classic` — every legal decision belongs to the action space declared at construction.

(1) needs the generated instances to be valid (`Valid`: non-empty duplicate-free machine lists, non-negative durations).
The generator's shape theorem gives this when `0 ≤ p.durRange.1` (an added hypothesis: without it (1) is false, see the
counterexample at the end of the file) and the machine lists are non-empty (`p.mpo.2 > 1 → 1 ≤ p.mpo.1`; automatic for
`Classic p`; `C13_multi_env_general` assumes only this instead of `Classic p`).  (2) needs no hypothesis on the generator at
all.  (3) is about the declared spaces and needs `Classic p`.
-/
namespace JS

/-! ## the reward observer of a made environment -/

/-- the reward observer `Env.make` constructs has the kind the configuration asks for -/
theorem Env.make_rewKind {c : Cfg} {ec : EnvCfg} {e : Env} (hf : FeatsOK ec.feats) (h : Env.make c ec = some e) :
    KindAt e.w e.rew ec.reward := by
  unfold Env.make at h
  cases h1 : constructFeats (FWorld.init c) ec.feats with
  | none => rw [h1] at h; cases h
  | some r1 =>
    obtain ⟨w1, ids⟩ := r1
    rw [h1] at h
    simp only at h
    obtain ⟨hw1, _, g1⟩ := constructFeats_ok ec.feats _ (heapOK_init c) hf w1 ids h1
    rcases h2 : w1.constructComposite (some ids) with ⟨w2, ocomp⟩
    rw [h2] at h
    cases ocomp with
    | none => simp only at h; cases h
    | some comp =>
      simp only at h
      obtain ⟨hw2, _, _⟩ := constructComposite_ok hw1 ids g1 w2 comp h2
      rcases h3 : w2.constructResidual (build ec.builder c.I) ec.rmMach ec.rmJob with ⟨w3, oupd⟩
      rw [h3] at h
      cases oupd with
      | none => simp only at h; cases h
      | some upd =>
        simp only at h
        have hw3 : HeapOK w3 := (constructResidual_ok hw2 _ (C17_built_inv ec.builder c.I) _ _ w3 upd h3).1
        by_cases hrw : (ec.reward != .makespanReward && ec.reward != .idleReward) = true
        · rw [if_pos hrw] at h; cases h
        · rw [if_neg hrw] at h
          have hrk : ec.reward = .makespanReward ∨ ec.reward = .idleReward := by
            cases hr : ec.reward <;> simp [hr] at hrw ⊢
          have hplain : ec.reward = .unscheduled ∨ ec.reward = .history ∨ ec.reward = .makespanReward ∨ ec.reward = .idleReward := by
            rcases hrk with h | h
            · exact Or.inr (Or.inr (Or.inl h))
            · exact Or.inr (Or.inr (Or.inr h))
          obtain ⟨hw4, _, k4⟩ := construct_plain hw3 ec.reward hplain
          rcases h4 : w3.construct ec.reward none with ⟨w4, orew⟩
          rw [h4] at h hw4 k4
          cases orew with
          | none => simp only at h; cases h
          | some rew =>
            simp only at h hw4 k4
            have k4' : KindAt w4 rew ec.reward := k4 rew rfl
            obtain ⟨_, e5, _⟩ := construct_plain hw4 .history (Or.inr (Or.inl rfl))
            rcases h5 : w4.construct .history none with ⟨w5, ohist⟩
            rw [h5] at h e5
            cases ohist with
            | none => simp only at h; cases h
            | some hid =>
              simp only [Option.some.injEq] at h e5
              subst h
              exact k4'.ext e5

theorem Env.apply_rew (e : Env) (ev : EnvEv) : (e.apply ev).rew = e.rew := by
  cases ev with
  | step j m =>
    rcases Env.step_cases e j m with ⟨_, he⟩ | ⟨w', he, _, _⟩
    · simp only [Env.apply]; rw [he]
    · simp only [Env.apply]; rw [he]
  | reset => rfl

theorem Env.runEvs_rew : ∀ (evs : List EnvEv) (e : Env), (e.runEvs evs).rew = e.rew
  | [], _ => rfl
  | ev :: t, e => by
    have := Env.runEvs_rew t (e.apply ev)
    simp only [Env.runEvs, List.foldl_cons] at this ⊢
    rw [this, Env.apply_rew]

theorem Env.apply_envOK {e : Env} (h : EnvOK e) (ev : EnvEv) : EnvOK (e.apply ev) := by
  cases ev with
  | step j m => exact Env.step_envOK h j m
  | reset => exact Env.reset_envOK h

/-- the kind of an observer does not change along steps and resets -/
theorem Env.apply_kindAt {e : Env} (h : EnvOK e) {id : Nat} {k : FKind} (hk : KindAt e.w id k) (ev : EnvEv) :
    KindAt (e.apply ev).w id k := by
  cases ev with
  | step j m =>
    rcases Env.step_cases e j m with ⟨_, he⟩ | ⟨w', he, hdd, _⟩
    · simp only [Env.apply]; rw [he]; exact hk
    · simp only [Env.apply]; rw [he]
      have ex := (dispatch_ok' h.heap j (e.w.s.jobIdx.getD j 0) (if m == -1 then none else some m)).2
      rw [hdd] at ex
      exact hk.ext ex
  | reset => exact hk.ext (reset_ok' h.heap).2

theorem Env.runEvs_kindAt : ∀ (evs : List EnvEv) (e : Env), EnvOK e → ∀ {id : Nat} {k : FKind}, KindAt e.w id k →
    KindAt (e.runEvs evs).w id k
  | [], _, _, _, _, hk => hk
  | ev :: t, e, h, _, _, hk => by
    have := Env.runEvs_kindAt t (e.apply ev) (Env.apply_envOK h ev) (Env.apply_kindAt h hk ev)
    simpa only [Env.runEvs, List.foldl_cons] using this

/-! ## the world of a stepped / reset environment is reached by dispatch requests and resets -/

theorem Env.apply_world (e : Env) (ev : EnvEv) :
    e.apply ev = e ∨ ∃ x : FEv, x.isCtor = false ∧ e.apply ev = { e with w := e.w.step x } := by
  cases ev with
  | step j m =>
    rcases Env.step_world e j m with h | ⟨j', p, mm, h⟩
    · exact Or.inl h
    · exact Or.inr ⟨.disp j' p mm, rfl, h⟩
  | reset => exact Or.inr ⟨.reset, rfl, rfl⟩

theorem Env.runEvs_world : ∀ (evs : List EnvEv) (e : Env),
    ∃ fevs : List FEv, (∀ x ∈ fevs, x.isCtor = false) ∧ e.runEvs evs = { e with w := fevs.foldl FWorld.step e.w }
  | [], e => ⟨[], (fun _ hx => nomatch hx), rfl⟩
  | ev :: t, e => by
    have hcons : e.runEvs (ev :: t) = (e.apply ev).runEvs t := rfl
    rw [hcons]
    rcases Env.apply_world e ev with h | ⟨x, hx, h⟩
    · rw [h]; exact Env.runEvs_world t e
    · rw [h]
      obtain ⟨fevs, hev, heq⟩ := Env.runEvs_world t { e with w := e.w.step x }
      refine ⟨x :: fevs, ?_, ?_⟩
      · intro y hy
        rcases List.mem_cons.1 hy with rfl | hy
        · exact hx
        · exact hev y hy
      · rw [heq]; rfl

theorem ctorsOK_flags' : ∀ (ctors : List FEv) (w : FWorld), CtorsOK w ctors →
    (∀ e ∈ ctors, e.isCtor = true) ∧ (∀ e ∈ ctors, e.NodupFts)
  | [], _, _ => ⟨fun _ h => (nomatch h), fun _ h => (nomatch h)⟩
  | e :: t, w, hok => by
    obtain ⟨h1, h2, _, h4⟩ := hok
    obtain ⟨i1, i2⟩ := ctorsOK_flags' t _ h4
    constructor
    · intro e' he'
      rcases List.mem_cons.1 he' with rfl | h
      · exact h1
      · exact i1 e' h
    · intro e' he'
      rcases List.mem_cons.1 he' with rfl | h
      · exact h2
      · exact i2 e' h

/-- the world of an environment made by the constructor and then stepped / reset is a `Reached` feature world -/
theorem Env.runEvs_reached {c : Cfg} {ec : EnvCfg} {e0 : Env} (hf : FeatsOK ec.feats) (hmk : Env.make c ec = some e0)
    (evs : List EnvEv) : Reached c (e0.runEvs evs).w := by
  obtain ⟨ctors, hok, hw⟩ := Env.make_is_run hf hmk
  obtain ⟨hct, hnd⟩ := ctorsOK_flags' ctors _ hok
  obtain ⟨fevs, hev, heq⟩ := Env.runEvs_world evs e0
  refine ⟨ctors, fevs, hct, hnd, hev, ?_⟩
  rw [heq]
  show fevs.foldl FWorld.step e0.w = _
  rw [hw]
  unfold FWorld.run
  rw [List.foldl_append]

/-- **C13 for an episode environment**: after any steps and resets the reward observer the environment reads is subscribed,
of the configured kind, and satisfies the identities of C13 -/
theorem C13_env {c : Cfg} {ec : EnvCfg} {e0 : Env} (hv : Valid c.I) (hF : c.F = none ∨ PosDurI c.I) (hf : FeatsOK ec.feats)
    (hmk : Env.make c ec = some e0) (evs : List EnvEv) :
    let e := e0.runEvs evs
    ∃ o, e.w.heap[e.rew]? = some o ∧ e.rew ∈ e.w.subs ∧ o.kind = ec.reward ∧
      (∀ r ∈ o.rewards, r ≤ 0) ∧ o.rewards.length = numScheduled e.w.s ∧
      (ec.reward = .makespanReward → o.rewards.sum = - makespan e.w.s) ∧
      (ec.reward = .idleReward → o.rewards.sum = - idleTotal e.w.s) := by
  intro e
  obtain ⟨hok, hcfg, _⟩ := Env.make_envOK hf hmk
  have hok2 := Env.make_envOK2 hf hmk
  have hv0 : Valid e0.w.cfg.I := by rw [hcfg]; exact hv
  have hrun2 : EnvOK2 e := Env.runEvs_envOK2 hok hok2 hv0 evs
  have hrew : e.rew = e0.rew := Env.runEvs_rew evs e0
  obtain ⟨o, ho, hk⟩ : KindAt e.w e.rew ec.reward := by
    rw [hrew]; exact Env.runEvs_kindAt evs e0 hok (Env.make_rewKind hf hmk)
  have hreach : Reached c e.w := Env.runEvs_reached hf hmk evs
  obtain ⟨hm, hi⟩ := C13_world c hv hF e.w hreach e.rew hrun2.rewSub o ho
  have hrk : ec.reward = .makespanReward ∨ ec.reward = .idleReward := by
    obtain ⟨o2, ho2, hk2⟩ := hrun2.rewKind
    rw [ho] at ho2; cases ho2
    rw [← hk]; exact hk2
  refine ⟨o, ho, hrun2.rewSub, hk, ?_, ?_, ?_, ?_⟩
  · rcases hrk with h | h
    · exact (hm (hk.trans h)).2.2.1
    · exact (hi (hk.trans h)).2.1
  · rcases hrk with h | h
    · exact (hm (hk.trans h)).2.2.2
    · exact (hi (hk.trans h)).2.2
  · intro h; exact (hm (hk.trans h)).1
  · intro h; exact (hi (hk.trans h)).1

/-! ## generated instances are valid -/

/-- every operation of the instance has the shape the generator gives its operations -/
def GenOK (p : GenParams) (I : Instance) : Prop := ∃ nm, ∀ job ∈ I, ∀ op ∈ job, OpShape p nm op

theorem getOp_mem {I : Instance} {j q : Nat} {op : Op} (h : getOp I j q = some op) : ∃ job ∈ I, op ∈ job := by
  unfold getOp at h
  cases hj : I[j]? with
  | none => simp [hj] at h
  | some job =>
    rw [hj] at h
    exact ⟨job, List.mem_of_getElem? hj, List.mem_of_getElem? h⟩

theorem GenOK.valid {p : GenParams} {I : Instance} (h : GenOK p I) (hdur : 0 ≤ p.durRange.1)
    (hmpo : p.mpo.2 > 1 → 1 ≤ p.mpo.1) : Valid I := by
  obtain ⟨nm, h⟩ := h
  intro j q op hop
  obtain ⟨job, hj, ho⟩ := getOp_mem hop
  have sh := h job hj op ho
  refine ⟨?_, sh.nodup, by have := sh.dur.1; omega⟩
  intro hnil
  have hc := sh.count
  rw [hnil] at hc
  by_cases hk : p.mpo.2 > 1
  · rw [if_pos hk] at hc
    have := hmpo hk
    simp only [List.length_nil] at hc
    omega
  · rw [if_neg hk] at hc
    simp at hc

theorem GenOK.posDur {p : GenParams} {I : Instance} (h : GenOK p I) (hdur : 1 ≤ p.durRange.1) : PosDurI I := by
  obtain ⟨nm, h⟩ := h
  intro j q op hop
  obtain ⟨job, hj, ho⟩ := getOp_mem hop
  have := (h job hj op ho).dur.1
  omega

theorem generateFixed_genOK {p : GenParams} {nj nm : Nat} {draws : List Nat} {I : Instance} {n : Nat} {d : List Nat}
    (h : generateFixed p nj nm draws = .ok (I, n, d)) : GenOK p I := by
  unfold generateFixed at h
  split at h
  · cases h
  · cases hg : genJobs p nm nj draws with
    | error e => rw [hg] at h; cases h
    | ok r =>
      obtain ⟨jobs, d'⟩ := r
      rw [hg] at h
      simp only [Except.ok.injEq, Prod.mk.injEq] at h
      obtain ⟨rfl, _, _⟩ := h
      obtain ⟨_, h2⟩ := genJobs_spec p nm nj draws jobs d' hg
      exact ⟨nm, fun job hj => (h2 job hj).2.1⟩

theorem next_genOK {p : GenParams} {g g' : GenState} {I : Instance} {n : Nat} (h : g.next p = .ok (I, n, g')) :
    GenOK p I := by
  unfold GenState.next at h
  cases hg : generate p g.draws with
  | error e => rw [hg] at h; cases h
  | ok r =>
    obtain ⟨I', nm, d⟩ := r
    rw [hg] at h
    simp only [Except.ok.injEq, Prod.mk.injEq] at h
    obtain ⟨rfl, _, _⟩ := h
    obtain ⟨_, _, _, _, _, f⟩ := C19_shape p g.draws I' nm d hg
    exact ⟨nm, fun job hj => (f job hj).2.1⟩

/-! ## the episode invariant of the multi environment (no assumption on the generator) -/

/-- what every reachable multi environment satisfies: the constructor's parameters, and an episode environment that was
made with the constructor's configuration on a generated instance and then stepped / reset -/
structure EpInv (p : GenParams) (ec : EnvCfg) (F : FilterCfg) (m : MultiEnv) : Prop where
  hp : m.p = p
  hec : m.ec = ec
  hF : m.F = F
  env : ∃ (I : Instance) (e0 : Env) (evs : List EnvEv), GenOK p I ∧ Env.make { I := I, F := F } ec = some e0 ∧
    m.env = e0.runEvs evs

theorem EpInv.env_ec {p : GenParams} {ec : EnvCfg} {F : FilterCfg} {m : MultiEnv} (h : EpInv p ec F m)
    (hf : FeatsOK ec.feats) : m.env.ec = ec := by
  obtain ⟨I, e0, evs, _, hmk, he⟩ := h.env
  rw [he, (Env.runEvs_ec e0 evs).1]
  exact (Env.make_envOK hf hmk).2.2

theorem epInv_step {p : GenParams} {ec : EnvCfg} {F : FilterCfg} {m : MultiEnv} (h : EpInv p ec F m)
    (j : Nat) (mm : Int) : EpInv p ec F (m.step j mm).1 := by
  rw [MF.step_fst]
  obtain ⟨I, e0, evs, hg, hmk, he⟩ := h.env
  refine ⟨h.hp, h.hec, h.hF, I, e0, evs ++ [.step j mm], hg, hmk, ?_⟩
  rw [MF.runEvs_snoc, ← he]; rfl

theorem epInv_reset {p : GenParams} {ec : EnvCfg} {F : FilterCfg} {m : MultiEnv} (hf : FeatsOK ec.feats)
    (h : EpInv p ec F m) : EpInv p ec F m.reset.1 := by
  have hecu : ({ m.ec with usePadding := m.env.ec.usePadding } : EnvCfg) = ec := by
    rw [h.env_ec hf, h.hec]
  unfold MultiEnv.reset
  cases hg : m.gs.next m.p with
  | error e => exact ⟨h.hp, h.hec, h.hF, h.env⟩
  | ok r =>
    obtain ⟨I, n, gs'⟩ := r
    simp only
    rw [hecu]
    cases hmk : Env.make { I := I, F := m.F } ec with
    | none => exact ⟨h.hp, h.hec, h.hF, h.env⟩
    | some env =>
      simp only
      have hm' : EpInv p ec F { m with gs := gs', env := env.reset.1 } := by
        rw [h.hp] at hg
        rw [h.hF] at hmk
        exact ⟨h.hp, h.hec, h.hF, I, env, [.reset], next_genOK hg, hmk, rfl⟩
      cases env.reset.2 with
      | none => exact hm'
      | some o => exact hm'

theorem epInv_run {p : GenParams} {ec : EnvCfg} {F : FilterCfg} (hf : FeatsOK ec.feats) :
    ∀ (evs : List MEv) (m : MultiEnv), EpInv p ec F m → EpInv p ec F (m.run evs)
  | [], _, h => h
  | ev :: t, m, h => by
    have h1 : EpInv p ec F (m.stepEv ev) := by
      cases ev with
      | reset => exact epInv_reset hf h
      | step j mm => exact epInv_step h j mm
    exact epInv_run hf t _ h1

theorem make_epInv {p : GenParams} {ec : EnvCfg} {F : FilterCfg} {draws : List Nat} {m0 : MultiEnv}
    (hmk : MultiEnv.make p ec F draws = some m0) : EpInv p ec F m0 := by
  unfold MultiEnv.make at hmk
  cases hg : generateFixed p p.jobsRange.2 p.machinesRange.2 draws with
  | error e => rw [hg] at hmk; cases hmk
  | ok r =>
    obtain ⟨I, n, d⟩ := r
    rw [hg] at hmk
    simp only at hmk
    cases hm : Env.make { I := I, F := F } ec with
    | none => rw [hm] at hmk; cases hmk
    | some env =>
      rw [hm] at hmk
      simp only [Option.some.injEq] at hmk
      subst hmk
      exact ⟨rfl, rfl, rfl, I, env, [], generateFixed_genOK hg, hm, rfl⟩

theorem classic_mpo {p : GenParams} (hcl : Classic p) : p.mpo.2 > 1 → 1 ≤ p.mpo.1 := by
  intro h
  have : p.mpo.2 = 1 := by rw [hcl.2]
  omega

/-! ## (1) C13 in the multi-instance environment -/

/-- **C13 in the multi-instance environment (any generator producing valid instances).** -/
theorem C13_multi_env_general (p : GenParams) (ec : EnvCfg) (F : FilterCfg) (draws : List Nat) (m0 : MultiEnv)
    (hf : FeatsOK ec.feats) (hdur : 0 ≤ p.durRange.1) (hmpo : p.mpo.2 > 1 → 1 ≤ p.mpo.1)
    (hF : F = none ∨ 1 ≤ p.durRange.1)
    (hmk : MultiEnv.make p ec F draws = some m0) (evs : List MEv) :
    let m := m0.run evs
    ∃ o, m.env.w.heap[m.env.rew]? = some o ∧ m.env.rew ∈ m.env.w.subs ∧ o.kind = ec.reward ∧
      (∀ r ∈ o.rewards, r ≤ 0) ∧ o.rewards.length = numScheduled m.env.w.s ∧
      (ec.reward = .makespanReward → o.rewards.sum = - makespan m.env.w.s) ∧
      (ec.reward = .idleReward → o.rewards.sum = - idleTotal m.env.w.s) := by
  intro m
  have hinv : EpInv p ec F m := epInv_run hf evs m0 (make_epInv hmk)
  obtain ⟨I, e0, evs', hg, hmke, he⟩ := hinv.env
  have hv : Valid I := hg.valid hdur hmpo
  have hF' : (({ I := I, F := F } : Cfg).F = none) ∨ PosDurI ({ I := I, F := F } : Cfg).I := by
    rcases hF with h | h
    · exact Or.inl h
    · exact Or.inr (hg.posDur h)
  have := C13_env (c := { I := I, F := F }) hv hF' hf hmke evs'
  simp only at this
  rw [← he] at this
  exact this

/-- **(1) C13 in the multi-instance environment**: at any moment of any history (any resets onto new instances, any steps,
legal or not) the reward observer the environment reads satisfies the property's identities for the CURRENT episode: one
non-positive reward per dispatch of the episode, summing to minus the makespan (makespan reward) or minus the idle time
(idle-time reward).  (`hdur`: the generator's durations are non-negative, so that the generated instances are valid.) -/
theorem C13_multi_env (p : GenParams) (ec : EnvCfg) (F : FilterCfg) (draws : List Nat) (m0 : MultiEnv)
    (hf : FeatsOK ec.feats) (hcl : Classic p) (hdur : 0 ≤ p.durRange.1) (hF : F = none ∨ 1 ≤ p.durRange.1)
    (hmk : MultiEnv.make p ec F draws = some m0) (evs : List MEv) :
    let m := m0.run evs
    ∃ o, m.env.w.heap[m.env.rew]? = some o ∧ m.env.rew ∈ m.env.w.subs ∧ o.kind = ec.reward ∧
      (∀ r ∈ o.rewards, r ≤ 0) ∧ o.rewards.length = numScheduled m.env.w.s ∧
      (ec.reward = .makespanReward → o.rewards.sum = - makespan m.env.w.s) ∧
      (ec.reward = .idleReward → o.rewards.sum = - idleTotal m.env.w.s) :=
  C13_multi_env_general p ec F draws m0 hf hdur (classic_mpo hcl) hF hmk evs

/-! ## (2) the step reward

No validity of the instance is needed here: an accepted dispatch finds the entry it appended (the shapes of the dispatcher
state, `WF`, are kept by every dispatch) and every subscribed reward observer appends exactly one reward for it. -/

theorem wf_dispSpec {I : Instance} {s s' : State} {j p m : Nat} {op : Op} (hwf : WF I s)
    (hd : DispSpec I s s' j p m op) : WF I s' := by
  rw [hd.eq]
  constructor <;> simp [hwf.lenS, hwf.lenM, hwf.lenI, hwf.lenN]

theorem FWorld.dispatch_wf (w : FWorld) (j p : Nat) (m : Option Int) (h : WF w.cfg.I w.s) :
    WF w.cfg.I (w.dispatch j p m).1.s := by
  unfold FWorld.dispatch
  cases hd : dispatchReq w.cfg.I w.s j p m with
  | error e => exact h
  | ok s' =>
    simp only
    have hc' : WF w.cfg.I s' := by
      obtain ⟨mm, op, hop, _, hdd⟩ := dispatchReq_ok hd
      obtain ⟨op', hsp⟩ := dispatch_ok hdd
      exact wf_dispSpec h hsp
    cases (s'.sched.flatten.find? fun x => x.job == j && x.pos == p) with
    | none => exact hc'
    | some x =>
      simp only
      have g := good_foldl (fun w id => w.callUpdate x id) (fun w id => good_callUpdate w x id) w.subs { w with s := s' }
      rw [g.st.2]; exact hc'

/-- `dispatch_appends_one_reward` without the validity of the instance -/
theorem dispatch_appends_one_reward' (w : FWorld) (hs : SubsOK w) (rew : Nat) (o : FObs) (ho : w.heap[rew]? = some o)
    (hk : o.kind = .makespanReward ∨ o.kind = .idleReward) (hsub : rew ∈ w.subs) (j p : Nat) (m : Option Int)
    (w' : FWorld) (hd : w.dispatch j p m = (w', true)) (hwf : WF w.cfg.I w.s) :
    ∃ o' r, w'.heap[rew]? = some o' ∧ o'.rewards = o.rewards ++ [r] ∧ o'.rewards.getLast? = some r := by
  unfold FWorld.dispatch at hd
  cases hdr : dispatchReq w.cfg.I w.s j p m with
  | error e => rw [hdr] at hd; cases hd
  | ok s' =>
    rw [hdr] at hd
    simp only at hd
    obtain ⟨mm, op, hop, _, hdd⟩ := dispatchReq_ok hdr
    obtain ⟨op', hsp⟩ := dispatch_ok hdd
    have hmlt := machine_lt w.cfg.I j p mm op' hsp.hop hsp.hm
    have hmem : (⟨j, p, mm, startTime w.s j mm, op'.dur⟩ : SOp) ∈ s'.sched.flatten := by
      rw [hsp.eq]
      exact (flatten_modify_perm w.s.sched mm _ (by rw [hwf.lenS]; exact hmlt)).mem_iff.2 (by simp)
    cases hfind : s'.sched.flatten.find? (fun x => x.job == j && x.pos == p) with
    | none => exact absurd (by simp) (List.find?_eq_none.1 hfind _ hmem)
    | some x =>
      rw [hfind] at hd
      simp only [Prod.mk.injEq, and_true] at hd
      subst hd
      obtain ⟨o', r, h1, h2, _⟩ := fold_callUpdate_reward x w.subs { w with s := s' } rew o hs.nodup hsub ho hk
      exact ⟨o', r, h1, h2, by rw [h2]; simp⟩

/-- `C18_step_reward` without the validity of the instance -/
theorem C18_step_reward' (e : Env) (hs : SubsOK e.w) (o : FObs) (ho : e.w.heap[e.rew]? = some o)
    (hk : o.kind = .makespanReward ∨ o.kind = .idleReward) (hsub : e.rew ∈ e.w.subs) (hwf : WF e.w.cfg.I e.w.s)
    (job : Nat) (machine : Int) (obs : EObs) (r : Int) (d t : Bool) (av : List OpRef)
    (h : (e.step job machine).2 = .ok obs r d t av) :
    ∃ o', (e.step job machine).1.w.heap[e.rew]? = some o' ∧ o'.rewards = o.rewards ++ [r] := by
  obtain ⟨w', hd, he, _, hr, _⟩ := Env.step_ok h
  obtain ⟨o', r', h1, h2, h3⟩ := dispatch_appends_one_reward' e.w hs e.rew o ho hk hsub job _ _ w' hd hwf
  rw [he]
  refine ⟨o', h1, ?_⟩
  have : r = r' := by
    rw [hr]
    simp only [Env.lastReward, getD_of_some h1, h3, Option.getD_some]
  rw [this]; exact h2

/-- the part of `EnvOK2` that needs no validity: subscribers well formed, the reward observer subscribed and of a reward
kind, the dispatcher state well shaped -/
structure EnvRew (e : Env) : Prop where
  subs : SubsOK e.w
  rewSub : e.rew ∈ e.w.subs
  rewKind : ∃ o, e.w.heap[e.rew]? = some o ∧ (o.kind = .makespanReward ∨ o.kind = .idleReward)
  wf : WF e.w.cfg.I e.w.s

theorem EnvRew.step {e : Env} (h : EnvOK e) (h2 : EnvRew e) (job : Nat) (machine : Int) :
    EnvRew (e.step job machine).1 := by
  rcases Env.step_cases e job machine with ⟨_, he⟩ | ⟨w', he, hdd, _⟩
  · rw [he]; exact h2
  · rw [he]
    have hw' : w' = (e.w.dispatch job (e.w.s.jobIdx.getD job 0) (if machine == -1 then none else some machine)).1 := by
      rw [hdd]
    obtain ⟨a, ⟨t, ht⟩, cfgeq, _⟩ := dispatch_keeps e.w job (e.w.s.jobIdx.getD job 0) (if machine == -1 then none else some machine)
    obtain ⟨_, ex⟩ := dispatch_ok' h.heap job (e.w.s.jobIdx.getD job 0) (if machine == -1 then none else some machine)
    have hwf := FWorld.dispatch_wf e.w job (e.w.s.jobIdx.getD job 0) (if machine == -1 then none else some machine) h2.wf
    rw [← hw'] at a ht cfgeq ex hwf
    obtain ⟨o, ho, hk⟩ := h2.rewKind
    obtain ⟨o', ho', hk', _⟩ := ex.step _ o ho
    exact ⟨a h2.subs, by simp only; rw [ht]; exact List.mem_append_left _ h2.rewSub,
      ⟨o', ho', by rw [hk']; exact hk⟩, by simp only; rw [cfgeq]; exact hwf⟩

theorem EnvRew.reset {e : Env} (h : EnvOK e) (h2 : EnvRew e) : EnvRew e.reset.1 := by
  unfold Env.reset
  obtain ⟨a, ⟨t, ht⟩, cfgeq, ci⟩ := reset_keeps e.w
  obtain ⟨_, ex⟩ := reset_ok' h.heap
  obtain ⟨o, ho, hk⟩ := h2.rewKind
  obtain ⟨o', ho', hk', _⟩ := ex.step _ o ho
  exact ⟨a h2.subs, by simp only; rw [ht]; exact List.mem_append_left _ h2.rewSub,
    ⟨o', ho', by rw [hk']; exact hk⟩, by simp only; rw [cfgeq]; exact ci.wf⟩

theorem Env.runEvs_envRew : ∀ (evs : List EnvEv) (e : Env), EnvOK e → EnvRew e → EnvRew (e.runEvs evs)
  | [], _, _, h2 => h2
  | ev :: t, e, h, h2 => by
    have h2' : EnvRew (e.apply ev) := by
      cases ev with
      | step j m => exact EnvRew.step h h2 j m
      | reset => exact EnvRew.reset h h2
    have := Env.runEvs_envRew t (e.apply ev) (Env.apply_envOK h ev) h2'
    simpa only [Env.runEvs, List.foldl_cons] using this

/-- **C13 / C18 (step reward, every reachable environment, ANY instance).** `C18_step_reward_reachable` without the
validity of the instance. -/
theorem C18_step_reward_reachable' (c : Cfg) (ec : EnvCfg) (e0 : Env) (hf : FeatsOK ec.feats)
    (hmk : Env.make c ec = some e0) (evs : List EnvEv) (job : Nat) (machine : Int)
    (obs : EObs) (r : Int) (d t : Bool) (av : List OpRef)
    (h : ((e0.runEvs evs).step job machine).2 = .ok obs r d t av) :
    ∃ o o', (e0.runEvs evs).w.heap[e0.rew]? = some o ∧
      ((e0.runEvs evs).step job machine).1.w.heap[e0.rew]? = some o' ∧ o'.rewards = o.rewards ++ [r] := by
  obtain ⟨hok, _, _⟩ := Env.make_envOK hf hmk
  have hok2 := Env.make_envOK2 hf hmk
  have hrun := Env.runEvs_envRew evs e0 hok ⟨hok2.subs, hok2.rewSub, hok2.rewKind, hok2.cinv.wf⟩
  have hrew : (e0.runEvs evs).rew = e0.rew := Env.runEvs_rew evs e0
  obtain ⟨o, ho, hk⟩ := hrun.rewKind
  obtain ⟨o', h1, h2⟩ := C18_step_reward' (e0.runEvs evs) hrun.subs o ho hk hrun.rewSub hrun.wf
    job machine obs r d t av h
  rw [hrew] at ho h1
  exact ⟨o, o', ho, h1, h2⟩

theorem MultiEnv.step_ok_env {m : MultiEnv} {job : Nat} {machine : Int} {obs : EObs} {r : Int} {d t : Bool}
    {av : List OpRef} (h : (m.step job machine).2 = .ok obs r d t av) :
    ∃ obs', (m.env.step job machine).2 = .ok obs' r d t av := by
  unfold MultiEnv.step at h
  rcases hs : m.env.step job machine with ⟨env', out⟩
  rw [hs] at h
  cases out with
  | raised => cases h
  | ok obs' r' d' t' av' =>
    simp only at h
    split at h
    · split at h
      · cases h
      · simp only [StepOut.ok.injEq] at h
        obtain ⟨_, rfl, rfl, rfl, rfl⟩ := h
        exact ⟨obs', rfl⟩
    · simp only [StepOut.ok.injEq] at h
      obtain ⟨_, rfl, rfl, rfl, rfl⟩ := h
      exact ⟨obs', rfl⟩

/-- **(2)** the reward a multi-environment step returns is the reward emitted for THAT step: the list of the reward observer
the environment reads grew by exactly that entry.  No hypothesis on the generator is needed (`Classic p` of the work
package's statement is dropped). -/
theorem C18_multi_step_reward (p : GenParams) (ec : EnvCfg) (F : FilterCfg) (draws : List Nat) (m0 : MultiEnv)
    (hf : FeatsOK ec.feats) (hmk : MultiEnv.make p ec F draws = some m0) (evs : List MEv)
    (job : Nat) (machine : Int) (obs : EObs) (r : Int) (d t : Bool) (av : List OpRef)
    (h : ((m0.run evs).step job machine).2 = .ok obs r d t av) :
    let m := m0.run evs
    ∃ o o', m.env.w.heap[m.env.rew]? = some o ∧ (m.step job machine).1.env.w.heap[m.env.rew]? = some o' ∧
      o'.rewards = o.rewards ++ [r] := by
  intro m
  have hinv : EpInv p ec F m := epInv_run hf evs m0 (make_epInv hmk)
  obtain ⟨I, e0, evs', _, hmke, he⟩ := hinv.env
  obtain ⟨obs', hs⟩ := MultiEnv.step_ok_env h
  have hs' : ((e0.runEvs evs').step job machine).2 = .ok obs' r d t av := by rw [← he]; exact hs
  obtain ⟨o, o', h1, h2, h3⟩ := C18_step_reward_reachable' { I := I, F := F } ec e0 hf hmke evs' job machine
    obs' r d t av hs'
  have hrew : m.env.rew = e0.rew := by rw [he]; exact Env.runEvs_rew evs' e0
  refine ⟨o, o', ?_, ?_, h3⟩
  · rw [hrew, he]; exact h1
  · rw [MF.step_fst, hrew]
    show (m.env.step job machine).1.w.heap[e0.rew]? = some o'
    rw [he]; exact h2

/-- (2) with the work package's hypothesis list (`Classic p` is not used) -/
theorem C18_multi_step_reward_classic (p : GenParams) (ec : EnvCfg) (F : FilterCfg) (draws : List Nat) (m0 : MultiEnv)
    (hf : FeatsOK ec.feats) (_hcl : Classic p) (hmk : MultiEnv.make p ec F draws = some m0) (evs : List MEv)
    (job : Nat) (machine : Int) (obs : EObs) (r : Int) (d t : Bool) (av : List OpRef)
    (h : ((m0.run evs).step job machine).2 = .ok obs r d t av) :
    let m := m0.run evs
    ∃ o o', m.env.w.heap[m.env.rew]? = some o ∧ (m.step job machine).1.env.w.heap[m.env.rew]? = some o' ∧
      o'.rewards = o.rewards ++ [r] :=
  C18_multi_step_reward p ec F draws m0 hf hmk evs job machine obs r d t av h

/-! ## (3) legal decisions belong to the declared action space -/

/-- **(3)** every legal decision of every episode belongs to the action space declared at construction (classic
generators) -/
theorem C18_multi_legal_action_classic (p : GenParams) (ec : EnvCfg) (F : FilterCfg) (draws : List Nat) (m0 : MultiEnv)
    (hf : FeatsOK ec.feats) (hcl : Classic p) (hmk : MultiEnv.make p ec F draws = some m0) (evs : List MEv)
    (job : Nat) (machine : Int) (hleg : (m0.run evs).env.legal job machine = true) :
    m0.space.containsAction job machine = true := by
  obtain ⟨I0, hr0, hsp0, hinv0⟩ := MF.make_minv hcl hmk
  have hinv := MF.minv_run hcl hf evs m0 hinv0
  obtain ⟨I, J, M, e0, evs', hr, hJ, hM, hmke, he⟩ := hinv.env
  rw [he] at hleg
  have hin := C18_legal_action_in_space { I := I, F := F } ec e0 hf hmke evs' job machine hleg
  rw [MF.make_space hf hmke] at hin
  have hsp : MF.spaceOf ({ I := I, F := F } : Cfg).I ec = MF.spaceOf I ec := rfl
  rw [hsp] at hin
  rw [hsp0 hf]
  have hk := MF.kOf_mono hJ hM
  have e1 := hr.len
  have e2 := hr.numMachines_eq
  have e3 := hr0.len
  have e4 := hr0.numMachines_eq
  simp only [Space.containsAction, MF.spaceOf, Bool.and_eq_true, decide_eq_true_eq] at hin ⊢
  refine ⟨⟨⟨hin.1.1.1, ?_⟩, hin.1.2⟩, ?_⟩
  · have := of_decide_eq_true hin.1.1.2
    exact decide_eq_true (by omega)
  · have := of_decide_eq_true hin.2
    exact decide_eq_true (by omega)

/-! non-vacuity: a classic generator with positive durations, two accepted configurations (makespan reward behind the dominated
filter; idle-time reward without a filter), a constructed multi environment; an episode on a freshly generated 2 × 2 instance with
an illegal step in the middle, then a reset onto a new 2 × 1 instance and a step of the new episode: the reward list the
environment reads and the state's makespan / idle time / number of dispatches are the values computed with `#eval` -/
set_option maxRecDepth 100000 in
example :
    let p : GenParams := { jobsRange := (1, 2), machinesRange := (1, 2), durRange := (1, 9) }
    let ec : EnvCfg := { builder := .disjunctive, feats := [(.isReady, none), (.duration, some [.machines, .operations])] }
    let ec' : EnvCfg := { builder := .disjunctive, feats := [(.isReady, none)], reward := .idleReward }
    let draws : List Nat := [5, 3, 7, 1, 2, 9, 0, 4, 1, 1, 2, 0, 4, 0, 6, 1, 1, 0, 1, 0, 3, 0, 5, 0]
    let ep1 : List MEv := [.reset, .step 0 (-1), .step 1 (-1), .step 5 0, .step 0 1, .step 1 0]
    let view : MultiEnv → Instance × List Int × Int × Int × Nat := fun m =>
      (m.env.w.cfg.I, (m.env.w.heap.getD m.env.rew default).rewards, makespan m.env.w.s, idleTotal m.env.w.s,
        numScheduled m.env.w.s)
    Classic p ∧ (0 : Int) ≤ p.durRange.1 ∧ (1 : Int) ≤ p.durRange.1 ∧ FeatsOK ec.feats ∧ FeatsOK ec'.feats ∧
    ((MultiEnv.make p ec (some [.dominated]) draws).map fun m => view (m.run ep1)) =
      some ([[⟨[0], 3⟩, ⟨[1], 5⟩], [⟨[1], 7⟩, ⟨[0], 2⟩]], [-3, -4, -5, 0], 12, 4, 4) ∧
    ((MultiEnv.make p ec (some [.dominated]) draws).map fun m => view (m.run (ep1 ++ [.reset, .step 1 (-1)]))) =
      some ([[⟨[0], 4⟩], [⟨[0], 6⟩]], [-6], 6, 0, 1) ∧
    ((MultiEnv.make p ec' none draws).map fun m => view (m.run ep1)) =
      some ([[⟨[0], 3⟩, ⟨[1], 5⟩], [⟨[1], 7⟩, ⟨[0], 2⟩]], [0, 0, 0, -4], 12, 4, 4) ∧
    ((MultiEnv.make p ec' none draws).map fun m => view (m.run (ep1 ++ [.reset, .step 1 (-1), .step 0 0]))) =
      some ([[⟨[0], 4⟩], [⟨[0], 6⟩]], [0, 0], 10, 0, 2) := by
  refine ⟨⟨rfl, rfl⟩, by decide, by decide, ?_, ?_, ?_, ?_, ?_, ?_⟩
  · intro kf hkf l hl
    simp only [List.mem_cons, List.mem_nil_iff, or_false] at hkf
    rcases hkf with rfl | rfl <;> simp at hl <;> subst hl <;> decide
  · intro kf hkf l hl
    simp only [List.mem_cons, List.mem_nil_iff, or_false] at hkf
    subst hkf
    simp at hl
  · decide
  · decide
  · decide
  · decide

/-! non-vacuity of (2) and (3) on the same history: the accepted step `(1, 0)` returns the reward `-4` that the idle-time observer
appended for it; the decision is legal and lies in the declared action space -/
set_option maxRecDepth 100000 in
example :
    let p : GenParams := { jobsRange := (1, 2), machinesRange := (1, 2), durRange := (1, 9) }
    let ec' : EnvCfg := { builder := .disjunctive, feats := [(.isReady, none)], reward := .idleReward }
    let draws : List Nat := [5, 3, 7, 1, 2, 9, 0, 4, 1, 1, 2, 0, 4, 0, 6, 1, 1, 0, 1, 0, 3, 0, 5, 0]
    ((MultiEnv.make p ec' none draws).map fun m0 =>
      let m := m0.run [.reset, .step 0 (-1), .step 1 (-1), .step 5 0, .step 0 1]
      ((match (m.step 1 0).2 with | .ok _ r _ _ _ => some r | .raised => none), m.env.legal 1 0,
        m0.space.containsAction 1 0, (m.env.w.heap.getD m.env.rew default).rewards,
        ((m.step 1 0).1.env.w.heap.getD m.env.rew default).rewards)) =
      some (some (-4), true, true, [0, 0, 0], [0, 0, 0, -4]) := by decide

/-! why (1) assumes `0 ≤ p.durRange.1`: a classic generator that may draw negative durations, no filter, makespan reward.  After
four accepted steps on the (maximum-size) first instance the observer's rewards sum to `-2` (it tracks the largest end time seen,
`2`), but the schedule's makespan — the largest end time of the machines' LAST operations — is `0`, because the last operation
of machine 1 has duration `-2`.  So the statement of (1) without that hypothesis is false. -/
set_option maxRecDepth 100000 in
example :
    let p : GenParams := { jobsRange := (2, 2), machinesRange := (2, 2), durRange := (-6, 2) }
    let ec : EnvCfg := { builder := .disjunctive, feats := [(.isReady, none)] }
    let draws : List Nat := [10, 0, 8, 1, 10, 4, 4, 10]
    Classic p ∧ FeatsOK ec.feats ∧ ec.reward = .makespanReward ∧
    ((MultiEnv.make p ec none draws).map fun m0 =>
      let m := m0.run [.step 0 (-1), .step 1 (-1), .step 0 (-1), .step 1 (-1)]
      (m.env.w.cfg.I, (m.env.w.heap.getD m.env.rew default).rewards, makespan m.env.w.s, numScheduled m.env.w.s)) =
      some ([[⟨[0], -5⟩, ⟨[1], 2⟩], [⟨[0], -5⟩, ⟨[1], -2⟩]], [0, 0, -2, 0], 0, 4) := by
  refine ⟨⟨rfl, rfl⟩, ?_, rfl, ?_⟩
  · intro kf hkf l hl
    simp only [List.mem_cons, List.mem_nil_iff, or_false] at hkf
    subst hkf
    simp at hl
  · decide

end JS

import JobShopProofs.EdgeType
import JobShopProofs.FeatureSpecs
/-!
# C16 — each graph builder yields exactly the edges its definition prescribes

For each of the four builders the edge list of the built graph is characterised by a specification predicate that is
written from the instance alone (`DisjEdgeSpec`, `AgentTaskEdgeSpec`, `AgentTaskJobsEdgeSpec`,
`CompleteAgentTaskEdgeSpec`).  The proofs go through a general lemma on folds of `add_edge` calls (`stage_fold`): after
inserting the pairs of a list `L` with type `t₀`, the edge `u → v` has type `t` iff it had type `t` before and `(u, v)`
is not in `L`, or `(u, v)` is in `L` and `t = t₀`.
-/
namespace JS

/-! ## one `add_edge` call -/

theorem mem_upsert (l : List (Nat × EType)) (y : Nat) (t0 : EType) (v : Nat) (t : EType) :
    (v, t) ∈ (if l.any (·.1 == y) then l.map (fun e => if e.1 == y then (y, t0) else e) else l ++ [(y, t0)]) ↔
      if v = y then t = t0 else (v, t) ∈ l := by
  by_cases hany : l.any (·.1 == y) = true
  · rw [if_pos hany]
    obtain ⟨e, he, hk⟩ := List.any_eq_true.1 hany
    simp only [beq_iff_eq] at hk
    simp only [List.mem_map]
    by_cases hvy : v = y
    · subst hvy
      simp only [↓reduceIte]
      constructor
      · rintro ⟨e', _, heq⟩
        by_cases hk' : (e'.1 == v) = true
        · simp only [hk', ↓reduceIte, Prod.mk.injEq] at heq; exact heq.2.symm
        · simp only [hk', Bool.false_eq_true, ↓reduceIte] at heq
          rw [heq] at hk'; simp at hk'
      · rintro rfl
        exact ⟨e, he, by simp [hk]⟩
    · simp only [hvy, ↓reduceIte]
      constructor
      · rintro ⟨e', he', heq⟩
        by_cases hk' : (e'.1 == y) = true
        · simp only [hk', ↓reduceIte, Prod.mk.injEq] at heq; exact absurd heq.1.symm hvy
        · simp only [hk', Bool.false_eq_true, ↓reduceIte] at heq
          rw [heq] at he'; exact he'
      · intro h
        refine ⟨(v, t), h, ?_⟩
        have : ((v, t).1 == y) = false := by simpa using hvy
        simp [this]
  · rw [if_neg hany]
    simp only [List.mem_append, List.mem_singleton, Prod.mk.injEq]
    by_cases hvy : v = y
    · subst hvy
      simp only [↓reduceIte, true_and]
      constructor
      · rintro (h | h)
        · exact absurd (List.any_eq_true.2 ⟨(v, t), h, by simp⟩) hany
        · exact h
      · exact Or.inr
    · simp only [hvy, ↓reduceIte, false_and, or_false]

/-- the effect of one `add_edge` call on the typed-edge relation -/
theorem addEdge_hasEdge (g : Graph) (hg : GInv g) (x y : Nat) (t0 : EType)
    (hp : (g.present x && g.present y) = true) (u v : Nat) (t : EType) :
    HasEdge (g.addEdge x y t0) u v t ↔ if (u, v) = (x, y) then t = t0 else HasEdge g u v t := by
  unfold HasEdge
  rw [addEdge_adj g hg x y t0 u]
  by_cases hu : u = x
  · subst hu
    simp only [hp, and_self, ↓reduceIte]
    rw [mem_upsert]
    by_cases hvy : v = y <;> simp [hvy]
  · have : ¬ ((u, v) = (x, y)) := fun h => hu (congrArg Prod.fst h)
    simp only [hu, and_false, ↓reduceIte, this]

/-- networkx keeps one entry per successor: the successor ids of an adjacency list stay duplicate free -/
theorem upsert_keys (l : List (Nat × EType)) (y : Nat) (t0 : EType) (h : (l.map Prod.fst).Nodup) :
    ((if l.any (·.1 == y) then l.map (fun e => if e.1 == y then (y, t0) else e) else l ++ [(y, t0)]).map
      Prod.fst).Nodup := by
  by_cases hany : l.any (·.1 == y) = true
  · rw [if_pos hany, List.map_map]
    have : (Prod.fst ∘ fun e : Nat × EType => if e.1 == y then (y, t0) else e) = Prod.fst := by
      funext e
      simp only [Function.comp]
      by_cases he : (e.1 == y) = true
      · simp only [he, ↓reduceIte]; exact (beq_iff_eq.1 he).symm
      · simp only [he, Bool.false_eq_true, ↓reduceIte]
    rw [this]; exact h
  · rw [if_neg hany, List.map_append, List.nodup_append]
    refine ⟨h, by simp, ?_⟩
    intro a ha b hb
    simp only [List.map_cons, List.map_nil, List.mem_singleton] at hb
    subst hb
    intro e; subst e
    obtain ⟨e, he, rfl⟩ := List.mem_map.1 ha
    exact hany (List.any_eq_true.2 ⟨e, he, by simp⟩)

theorem addEdge_keys (g : Graph) (hg : GInv g) (x y : Nat) (t0 : EType)
    (h : ∀ u, ((g.adj.getD u []).map Prod.fst).Nodup) (u : Nat) :
    (((g.addEdge x y t0).adj.getD u []).map Prod.fst).Nodup := by
  rw [addEdge_adj g hg x y t0 u]
  split
  · exact upsert_keys _ y t0 (h x)
  · exact h u

/-! ## build stages -/

/-- a graph under construction: well formed, nothing removed, known node list, known typed-edge relation -/
structure Stage (g : Graph) (ns : List NodeKind) (S : Nat → Nat → EType → Prop) : Prop where
  inv : GInv g
  nr : NoRemoved g
  nodes : g.nodes = ns
  edges : ∀ u v t, HasEdge g u v t ↔ S u v t
  /-- one adjacency entry per successor -/
  keys : ∀ u, ((g.adj.getD u []).map Prod.fst).Nodup

theorem stage_congr {g : Graph} {ns : List NodeKind} {S S' : Nat → Nat → EType → Prop} (h : Stage g ns S)
    (hS : ∀ u v t, S u v t ↔ S' u v t) : Stage g ns S' :=
  ⟨h.inv, h.nr, h.nodes, fun u v t => (h.edges u v t).trans (hS u v t), h.keys⟩

theorem stage_empty : Stage {} [] (fun _ _ _ => False) := by
  refine ⟨ginv_empty, ?_, rfl, ?_, ?_⟩
  · intro k hk; simp at hk
  · intro u v t; simp [HasEdge]
  · intro u; simp

theorem getD_nil_of_le {α} (l : List (List α)) (k : Nat) (h : l.length ≤ k) : l.getD k [] = [] := by
  simp only [List.getD_eq_getElem?_getD]
  rw [List.getElem?_eq_none h]; rfl

theorem addNode_adj_getD (g : Graph) (k : NodeKind) (u : Nat) :
    (g.addNode k).adj.getD u [] = g.adj.getD u [] := by
  simp only [Graph.addNode]
  by_cases hlt : u < g.adj.length
  · rw [getD_append_lt _ _ _ _ hlt]
  · rw [getD_nil_of_le g.adj u (by omega)]
    by_cases heq : u = g.adj.length
    · subst heq; simp [List.getD_eq_getElem?_getD]
    · rw [getD_nil_of_le _ u (by simp; omega)]

theorem addNode_hasEdge (g : Graph) (k : NodeKind) (u v : Nat) (t : EType) :
    HasEdge (g.addNode k) u v t ↔ HasEdge g u v t := by
  unfold HasEdge
  rw [addNode_adj_getD]

theorem stage_addNode {g : Graph} {ns : List NodeKind} {S : Nat → Nat → EType → Prop} (h : Stage g ns S)
    (k : NodeKind) : Stage (g.addNode k) (ns ++ [k]) S :=
  ⟨ginv_addNode h.inv k, noRemoved_addNode h.inv h.nr k, by simp [Graph.addNode, h.nodes],
    fun u v t => (addNode_hasEdge g k u v t).trans (h.edges u v t),
    fun u => by rw [addNode_adj_getD]; exact h.keys u⟩

theorem stage_addNodes {α} (k : α → NodeKind) {S : Nat → Nat → EType → Prop} : ∀ (l : List α) {g : Graph}
    {ns : List NodeKind}, Stage g ns S → Stage (l.foldl (fun g a => g.addNode (k a)) g) (ns ++ l.map k) S
  | [], g, ns, h => by simpa using h
  | a :: l, g, ns, h => by
    simp only [List.foldl_cons, List.map_cons]
    have := stage_addNodes k l (stage_addNode h (k a))
    simpa using this

/-- inserting the pairs of `L` with type `t0`: the last insertion decides -/
theorem stage_fold (t0 : EType) : ∀ (L : List (Nat × Nat)) {g : Graph} {ns : List NodeKind}
    {S : Nat → Nat → EType → Prop}, Stage g ns S → (∀ xy ∈ L, xy.1 < ns.length ∧ xy.2 < ns.length) →
    Stage (L.foldl (fun g xy => g.addEdge xy.1 xy.2 t0) g) ns
      (fun u v t => (S u v t ∧ (u, v) ∉ L) ∨ ((u, v) ∈ L ∧ t = t0))
  | [], g, ns, S, h, _ => by
    apply stage_congr h
    intro u v t; simp
  | (x, y) :: L, g, ns, S, h, hL => by
    simp only [List.foldl_cons]
    have hx := (hL (x, y) (by simp)).1
    have hy := (hL (x, y) (by simp)).2
    simp only at hx hy
    have hp : (g.present x && g.present y) = true := by
      rw [present_of_noRemoved h.nr (by rw [h.nodes]; exact hx), present_of_noRemoved h.nr (by rw [h.nodes]; exact hy)]
      rfl
    have h1 : Stage (g.addEdge x y t0) ns (fun u v t => if (u, v) = (x, y) then t = t0 else S u v t) := by
      refine ⟨ginv_addEdge h.inv x y t0, noRemoved_addEdge h.nr x y t0, by rw [addEdge_nodes]; exact h.nodes, ?_,
        addEdge_keys g h.inv x y t0 h.keys⟩
      intro u v t
      rw [addEdge_hasEdge g h.inv x y t0 hp]
      by_cases hc : (u, v) = (x, y)
      · simp only [hc, ↓reduceIte]
      · simp only [hc, ↓reduceIte]; exact h.edges u v t
    apply stage_congr (stage_fold t0 L h1 (fun xy hxy => hL xy (List.mem_cons_of_mem _ hxy)))
    intro u v t
    simp only [List.mem_cons]
    by_cases hc : (u, v) = (x, y)
    · simp only [hc, ↓reduceIte, true_or, not_true_eq_false, and_false, false_or, true_and]
      constructor
      · rintro (h | h)
        · exact h.1
        · exact h.2
      · intro h
        by_cases hm : (x, y) ∈ L
        · exact Or.inr ⟨hm, h⟩
        · exact Or.inl ⟨h, hm⟩
    · simp only [hc, ↓reduceIte, false_or]

/-- the edge list of a stage -/
theorem stage_edges {g : Graph} {ns : List NodeKind} {S : Nat → Nat → EType → Prop} (h : Stage g ns S)
    (u v : Nat) (t : EType) : (u, v, t) ∈ g.edges ↔ S u v t := by
  rw [mem_edges_iff, ← h.edges]
  constructor
  · exact fun h => h.2.2
  · intro he
    have hlt : u < g.nodes.length := by
      apply Classical.byContradiction
      intro hn
      unfold HasEdge at he
      rw [getD_nil_of_le _ u (by rw [h.inv.lenA]; omega)] at he
      cases he
    exact ⟨hlt, present_of_noRemoved h.nr hlt, he⟩

/-- in a stage every ordered pair `(u, v)` occurs at most once in the edge list -/
theorem stage_edges_nodup {g : Graph} {ns : List NodeKind} {S : Nat → Nat → EType → Prop} (h : Stage g ns S) :
    (g.edges.map fun e => (e.1, e.2.1)).Nodup := by
  unfold Graph.edges
  rw [List.map_flatMap]
  unfold List.Nodup
  rw [List.pairwise_flatMap]
  constructor
  · intro u _
    split
    · rw [List.map_map]
      have : ((fun e : Nat × Nat × EType => (e.1, e.2.1)) ∘ fun e : Nat × EType => (u, e.1, e.2)) =
          (fun k => (u, k)) ∘ Prod.fst := by funext e; rfl
      rw [this, ← List.map_map]
      exact List.Pairwise.map _ (fun a b hab e => hab (by cases e; rfl)) (h.keys u)
    · exact List.Pairwise.nil
  · apply List.Pairwise.imp _ (List.nodup_range (n := g.nodes.length))
    intro a b hab x hx y hy e
    apply hab
    have hxa : x.1 = a := by
      split at hx
      · simp only [List.map_map, List.mem_map, Function.comp] at hx
        obtain ⟨_, _, rfl⟩ := hx; rfl
      · cases hx
    have hyb : y.1 = b := by
      split at hy
      · simp only [List.map_map, List.mem_map, Function.comp] at hy
        obtain ⟨_, _, rfl⟩ := hy; rfl
      · cases hy
    rw [← hxa, ← hyb, e]

/-- in a stage an edge has one type -/
theorem stage_type_unique {g : Graph} {ns : List NodeKind} {S : Nat → Nat → EType → Prop} (h : Stage g ns S)
    {u v : Nat} {t t' : EType} (h1 : S u v t) (h2 : S u v t') : t = t' := by
  have k := h.keys u
  have m1 := (h.edges u v t).2 h1
  have m2 := (h.edges u v t').2 h2
  unfold HasEdge at m1 m2
  generalize g.adj.getD u [] = l at k m1 m2
  induction l with
  | nil => cases m1
  | cons e l ih =>
    rw [List.map_cons, List.nodup_cons] at k
    rcases List.mem_cons.1 m1 with rfl | m1'
    · rcases List.mem_cons.1 m2 with e2 | m2'
      · exact (congrArg Prod.snd e2).symm
      · exact absurd (List.mem_map.2 ⟨(v, t'), m2', rfl⟩) k.1
    · rcases List.mem_cons.1 m2 with rfl | m2'
      · exact absurd (List.mem_map.2 ⟨(v, t), m1', rfl⟩) k.1
      · exact ih k.2 m1' m2'

/-! ## lists of pairs -/

/-- both orientations of every pair -/
def bothDir (L : List (Nat × Nat)) : List (Nat × Nat) := L.flatMap fun ab => [(ab.1, ab.2), (ab.2, ab.1)]

theorem mem_bothDir (L : List (Nat × Nat)) (u v : Nat) : (u, v) ∈ bothDir L ↔ (u, v) ∈ L ∨ (v, u) ∈ L := by
  simp only [bothDir, List.mem_flatMap, List.mem_cons, Prod.mk.injEq, List.not_mem_nil, or_false]
  constructor
  · rintro ⟨⟨a, b⟩, hab, (⟨rfl, rfl⟩ | ⟨rfl, rfl⟩)⟩
    · exact Or.inl hab
    · exact Or.inr hab
  · rintro (h | h)
    · exact ⟨(u, v), h, Or.inl ⟨rfl, rfl⟩⟩
    · exact ⟨(v, u), h, Or.inr ⟨rfl, rfl⟩⟩

theorem foldl_addBoth (t : EType) (L : List (Nat × Nat)) (g : Graph) :
    L.foldl (fun g ab => addBoth g ab.1 ab.2 t) g = (bothDir L).foldl (fun g xy => g.addEdge xy.1 xy.2 t) g := by
  unfold bothDir
  rw [List.foldl_flatMap]
  rfl

theorem mem_pairs_cons {α} (x : α) (l : List α) (a b : α) :
    (a, b) ∈ pairs (x :: l) ↔ (a = x ∧ b ∈ l) ∨ (a, b) ∈ pairs l := by
  simp only [pairs, List.mem_append, List.mem_map, Prod.mk.injEq]
  constructor
  · rintro (⟨c, hc, rfl, rfl⟩ | h)
    · exact Or.inl ⟨rfl, hc⟩
    · exact Or.inr h
  · rintro (⟨rfl, hb⟩ | h)
    · exact Or.inl ⟨b, hb, rfl, rfl⟩
    · exact Or.inr h

/-- the unordered pairs of a duplicate-free list, in both orientations: all pairs of different members -/
theorem mem_pairs_sym {α} : ∀ (l : List α), l.Nodup → ∀ (a b : α),
    ((a, b) ∈ pairs l ∨ (b, a) ∈ pairs l) ↔ (a ∈ l ∧ b ∈ l ∧ a ≠ b)
  | [], _, a, b => by simp [pairs]
  | x :: l, hn, a, b => by
    rw [List.nodup_cons] at hn
    rw [mem_pairs_cons, mem_pairs_cons]
    have ih := mem_pairs_sym l hn.2 a b
    simp only [List.mem_cons]
    constructor
    · rintro ((⟨rfl, hb⟩ | h) | (⟨rfl, ha⟩ | h))
      · exact ⟨Or.inl rfl, Or.inr hb, fun e => hn.1 (e ▸ hb)⟩
      · obtain ⟨h1, h2, h3⟩ := ih.1 (Or.inl h); exact ⟨Or.inr h1, Or.inr h2, h3⟩
      · exact ⟨Or.inr ha, Or.inl rfl, fun e => hn.1 (e ▸ ha)⟩
      · obtain ⟨h1, h2, h3⟩ := ih.1 (Or.inr h); exact ⟨Or.inr h1, Or.inr h2, h3⟩
    · rintro ⟨(rfl | ha), (rfl | hb), hne⟩
      · exact absurd rfl hne
      · exact Or.inl (Or.inl ⟨rfl, hb⟩)
      · exact Or.inr (Or.inl ⟨rfl, ha⟩)
      · rcases ih.2 ⟨ha, hb, hne⟩ with h | h
        · exact Or.inl (Or.inr h)
        · exact Or.inr (Or.inr h)

theorem mem_bothDir_pairs (l : List Nat) (hn : l.Nodup) (u v : Nat) :
    (u, v) ∈ bothDir (pairs l) ↔ (u ∈ l ∧ v ∈ l ∧ u ≠ v) := by
  rw [mem_bothDir, mem_pairs_sym l hn]

/-- consecutive members of `f 0, …, f (n-1)` -/
theorem mem_zip_tail_range_map (f : Nat → Nat) (n : Nat) (u v : Nat) :
    (u, v) ∈ ((List.range n).map f).zip ((List.range n).map f).tail ↔ ∃ p, p + 1 < n ∧ u = f p ∧ v = f (p + 1) := by
  constructor
  · intro h
    obtain ⟨p, hp⟩ := List.getElem?_of_mem h
    rw [List.getElem?_zip_eq_some, List.getElem?_tail] at hp
    obtain ⟨h1, h2⟩ := hp
    simp only [List.getElem?_map, Option.map_eq_some_iff] at h1 h2
    obtain ⟨a, ha, rfl⟩ := h1
    obtain ⟨b, hb, rfl⟩ := h2
    have hb' := List.getElem?_eq_some_iff.1 hb
    obtain ⟨hlt, hbv⟩ := hb'
    simp only [List.length_range] at hlt
    simp only [List.getElem_range] at hbv
    have ha' := List.getElem?_eq_some_iff.1 ha
    obtain ⟨_, hav⟩ := ha'
    simp only [List.getElem_range] at hav
    exact ⟨p, hlt, by rw [hav], by rw [← hbv]⟩
  · rintro ⟨p, hp, rfl, rfl⟩
    exact zip_tail_mem_range_map f n p hp

/-! ## operations, `nodes_by_machine`, `nodes_by_job` -/

theorem mem_allOps_iff (I : Instance) (j p : Nat) :
    (j, p) ∈ allOps I ↔ j < I.length ∧ p < (I.getD j []).length := by
  simp only [allOps, List.mem_flatMap, List.mem_range, List.mem_map, Prod.mk.injEq]
  constructor
  · rintro ⟨j', hj', p', hp', rfl, rfl⟩; exact ⟨hj', hp'⟩
  · rintro ⟨hj, hp⟩; exact ⟨j, hj, p, hp, rfl, rfl⟩

theorem nodesByMachine_eq (I : Instance) (m : Nat) :
    nodesByMachine I m = ((allOps I).filter (onMachine I m)).map (opId I) := rfl

theorem mem_nodesByMachine (I : Instance) (m u : Nat) :
    u ∈ nodesByMachine I m ↔ ∃ r ∈ allOps I, onMachine I m r = true ∧ u = opId I r := by
  rw [nodesByMachine_eq]
  simp only [List.mem_map, List.mem_filter]
  constructor
  · rintro ⟨r, ⟨h1, h2⟩, rfl⟩; exact ⟨r, h1, h2, rfl⟩
  · rintro ⟨r, h1, h2, rfl⟩; exact ⟨r, ⟨h1, h2⟩, rfl⟩

theorem nodesByMachine_nodup (I : Instance) (m : Nat) : (nodesByMachine I m).Nodup := by
  rw [nodesByMachine_eq]
  have h : List.Sublist (((allOps I).filter (onMachine I m)).map (opId I)) ((allOps I).map (opId I)) :=
    List.Sublist.map _ List.filter_sublist
  rw [C14_ids] at h
  exact h.nodup List.nodup_range

theorem nodesByJob_eq (I : Instance) (j : Nat) :
    nodesByJob I j = (List.range (I.getD j []).length).map (fun p => opId I (j, p)) := rfl

theorem opId_job_inj (I : Instance) (j p q : Nat) (h : opId I (j, p) = opId I (j, q)) : p = q := by
  simp only [opId] at h; omega

theorem nodesByJob_nodup (I : Instance) (j : Nat) : (nodesByJob I j).Nodup := by
  rw [nodesByJob_eq]
  exact List.Pairwise.map _ (fun a b hab e => hab (opId_job_inj I j a b e)) List.nodup_range

theorem mem_nodesByJob (I : Instance) (j u : Nat) (hj : j < I.length) :
    u ∈ nodesByJob I j ↔ ∃ p, (j, p) ∈ allOps I ∧ u = opId I (j, p) := by
  rw [nodesByJob_eq]
  simp only [List.mem_map, List.mem_range, mem_allOps_iff, hj, true_and]
  constructor
  · rintro ⟨p, hp, rfl⟩; exact ⟨p, hp, rfl⟩
  · rintro ⟨p, hp, rfl⟩; exact ⟨p, hp, rfl⟩

/-! ## the disjunctive graph -/

/-- the `add_edge` calls of the disjunctive phase -/
def disjList (I : Instance) : List (Nat × Nat) :=
  (List.range (numMachines I)).flatMap fun m => bothDir (pairs (nodesByMachine I m))

/-- the `add_edge` calls of the conjunctive phase -/
def conjList (I : Instance) : List (Nat × Nat) :=
  (List.range I.length).flatMap fun j => (nodesByJob I j).zip (nodesByJob I j).tail

/-- the `add_edge` calls of the source/sink phase -/
def ssList (I : Instance) (n : Nat) : List (Nat × Nat) :=
  (List.range I.length).flatMap fun j =>
    match (nodesByJob I j).head?, (nodesByJob I j).getLast? with
    | some a, some b => [(n, a), (b, n + 1)]
    | _, _ => []

theorem addDisjunctiveEdges_fold (I : Instance) (g : Graph) :
    addDisjunctiveEdges I g = (disjList I).foldl (fun g xy => g.addEdge xy.1 xy.2 .disjunctive) g := by
  unfold addDisjunctiveEdges disjList
  rw [List.foldl_flatMap]
  congr 1
  funext g m
  rw [← foldl_addBoth]

theorem addConjunctiveEdges_fold (I : Instance) (g : Graph) :
    addConjunctiveEdges I g = (conjList I).foldl (fun g xy => g.addEdge xy.1 xy.2 .conjunctive) g := by
  rw [addConjunctiveEdges_eq]
  unfold conjList
  rw [List.foldl_flatMap]

theorem addSourceSink_fold (I : Instance) (g : Graph) :
    addSourceSink I g = (ssList I g.nodes.length).foldl (fun g xy => g.addEdge xy.1 xy.2 .conjunctive)
      ((g.addNode .source).addNode .sink) := by
  unfold addSourceSink ssList
  simp only
  rw [List.foldl_flatMap]
  congr 1
  funext g' j
  cases (nodesByJob I j).head? with
  | none => rfl
  | some a =>
    cases (nodesByJob I j).getLast? with
    | none => rfl
    | some b => rfl

/-- `b` is the operation that follows `a` in its job -/
def JobSucc (a b : OpRef) : Prop := b.1 = a.1 ∧ b.2 = a.2 + 1

/-- some machine is eligible for both operations -/
def ShareMachine (I : Instance) (a b : OpRef) : Prop := ∃ m, onMachine I m a = true ∧ onMachine I m b = true

theorem onMachine_lt {I : Instance} {m : Nat} {r : OpRef} (h : onMachine I m r = true) : m < numMachines I := by
  unfold onMachine at h
  cases hop : getOp I r.1 r.2 with
  | none => simp [hop] at h
  | some op =>
    simp only [hop, List.contains_iff_mem] at h
    exact machine_lt I r.1 r.2 m op hop h

theorem mem_disjList (I : Instance) (u v : Nat) :
    (u, v) ∈ disjList I ↔
      ∃ a ∈ allOps I, ∃ b ∈ allOps I, a ≠ b ∧ u = opId I a ∧ v = opId I b ∧ ShareMachine I a b := by
  simp only [disjList, List.mem_flatMap, List.mem_range]
  constructor
  · rintro ⟨m, _, h⟩
    rw [mem_bothDir_pairs _ (nodesByMachine_nodup I m), mem_nodesByMachine, mem_nodesByMachine] at h
    obtain ⟨⟨a, ha, hma, rfl⟩, ⟨b, hb, hmb, rfl⟩, hne⟩ := h
    exact ⟨a, ha, b, hb, fun e => hne (by rw [e]), rfl, rfl, m, hma, hmb⟩
  · rintro ⟨a, ha, b, hb, hne, rfl, rfl, m, hma, hmb⟩
    refine ⟨m, onMachine_lt hma, ?_⟩
    rw [mem_bothDir_pairs _ (nodesByMachine_nodup I m), mem_nodesByMachine, mem_nodesByMachine]
    exact ⟨⟨a, ha, hma, rfl⟩, ⟨b, hb, hmb, rfl⟩, fun e => hne (opId_inj ha hb e)⟩

theorem mem_conjList (I : Instance) (u v : Nat) :
    (u, v) ∈ conjList I ↔ ∃ a ∈ allOps I, ∃ b ∈ allOps I, JobSucc a b ∧ u = opId I a ∧ v = opId I b := by
  simp only [conjList, List.mem_flatMap, List.mem_range]
  constructor
  · rintro ⟨j, hj, h⟩
    rw [nodesByJob_eq, mem_zip_tail_range_map] at h
    obtain ⟨p, hp, rfl, rfl⟩ := h
    exact ⟨(j, p), (mem_allOps_iff I j p).2 ⟨hj, by omega⟩, (j, p + 1), (mem_allOps_iff I j (p + 1)).2 ⟨hj, hp⟩,
      ⟨rfl, rfl⟩, rfl, rfl⟩
  · rintro ⟨⟨j, p⟩, _, ⟨j', p'⟩, hb, ⟨h1, h2⟩, rfl, rfl⟩
    simp only at h1 h2
    subst h1; subst h2
    obtain ⟨hj, hp⟩ := (mem_allOps_iff I j' (p + 1)).1 hb
    refine ⟨j', hj, ?_⟩
    rw [nodesByJob_eq, mem_zip_tail_range_map]
    exact ⟨p, hp, rfl, rfl⟩

theorem ssStep_eq (I : Instance) (n j : Nat) :
    (match (nodesByJob I j).head?, (nodesByJob I j).getLast? with
      | some a, some b => [(n, a), (b, n + 1)]
      | _, _ => []) =
    if (I.getD j []).length = 0 then []
    else [(n, opId I (j, 0)), (opId I (j, (I.getD j []).length - 1), n + 1)] := by
  rw [nodesByJob_eq, List.head?_map, List.getLast?_map, List.head?_range, List.getLast?_range]
  by_cases h : (I.getD j []).length = 0
  · simp only [h, ↓reduceIte, Option.map_none]
  · simp only [h, ↓reduceIte, Option.map_some]

theorem mem_ssList (I : Instance) (n u v : Nat) :
    (u, v) ∈ ssList I n ↔
      (∃ a ∈ allOps I, a.2 = 0 ∧ u = n ∧ v = opId I a) ∨
      (∃ a ∈ allOps I, (a.1, a.2 + 1) ∉ allOps I ∧ u = opId I a ∧ v = n + 1) := by
  simp only [ssList, List.mem_flatMap, List.mem_range, ssStep_eq]
  constructor
  · rintro ⟨j, hj, h⟩
    by_cases hl : (I.getD j []).length = 0
    · rw [if_pos hl] at h; cases h
    · rw [if_neg hl] at h
      simp only [List.mem_cons, Prod.mk.injEq, List.not_mem_nil, or_false] at h
      rcases h with ⟨rfl, rfl⟩ | ⟨rfl, rfl⟩
      · exact Or.inl ⟨(j, 0), (mem_allOps_iff I j 0).2 ⟨hj, by omega⟩, rfl, rfl, rfl⟩
      · refine Or.inr ⟨(j, (I.getD j []).length - 1), (mem_allOps_iff I j _).2 ⟨hj, by omega⟩, ?_, rfl, rfl⟩
        rw [mem_allOps_iff]
        simp only
        omega
  · rintro (⟨⟨j, p⟩, ha, h0, rfl, rfl⟩ | ⟨⟨j, p⟩, ha, hlast, rfl, rfl⟩)
    · simp only at h0; subst h0
      obtain ⟨hj, hp⟩ := (mem_allOps_iff I j 0).1 ha
      refine ⟨j, hj, ?_⟩
      have hl : (I.getD j []).length ≠ 0 := by omega
      rw [if_neg hl]
      exact List.mem_cons_self
    · obtain ⟨hj, hp⟩ := (mem_allOps_iff I j p).1 ha
      rw [mem_allOps_iff] at hlast
      simp only at hlast
      refine ⟨j, hj, ?_⟩
      have hl : (I.getD j []).length ≠ 0 := by omega
      have hpe : (I.getD j []).length - 1 = p := by omega
      rw [if_neg hl, hpe]
      exact List.mem_cons_of_mem _ List.mem_cons_self

theorem not_mem_ssList_of_lt (I : Instance) (n u v : Nat) (hu : u < n) (hv : v < n) : (u, v) ∉ ssList I n := by
  rw [mem_ssList]
  rintro (⟨_, _, _, h, _⟩ | ⟨_, _, _, _, h⟩) <;> omega

theorem stage_opNodes (I : Instance) :
    Stage (opNodesGraph I) ((List.range (numOps I)).map .operation) (fun _ _ _ => False) := by
  have := stage_addNodes (fun i => NodeKind.operation i) (List.range (numOps I)) stage_empty
  simpa [opNodesGraph] using this

/-- **Specification of the disjunctive graph** (nodes: operations, then source `numOps I`, sink `numOps I + 1`).
Between two different operations `a`, `b` there is an edge `opId a → opId b` iff `b` is the job successor of `a` or
they share an eligible machine; it is conjunctive in the first case and disjunctive otherwise.  The source points
(conjunctive) to the first operation of every non-empty job, the last operation of every non-empty job points
(conjunctive) to the sink; nothing else. -/
def DisjEdgeSpec (I : Instance) (u v : Nat) (t : EType) : Prop :=
  (∃ a ∈ allOps I, ∃ b ∈ allOps I, a ≠ b ∧ u = opId I a ∧ v = opId I b ∧
      ((JobSucc a b ∧ t = .conjunctive) ∨ (¬ JobSucc a b ∧ ShareMachine I a b ∧ t = .disjunctive))) ∨
  (∃ a ∈ allOps I, a.2 = 0 ∧ u = numOps I ∧ v = opId I a ∧ t = .conjunctive) ∨
  (∃ a ∈ allOps I, (a.1, a.2 + 1) ∉ allOps I ∧ u = opId I a ∧ v = numOps I + 1 ∧ t = .conjunctive)

theorem jobSucc_ne {a b : OpRef} (h : JobSucc a b) : a ≠ b := by
  intro e; subst e; have := h.2; omega

theorem stage_disjunctive (I : Instance) :
    Stage (buildDisjunctive I) ((List.range (numOps I)).map .operation ++ [.source, .sink]) (DisjEdgeSpec I) := by
  have h0 := stage_opNodes I
  have hlen : ((List.range (numOps I)).map NodeKind.operation).length = numOps I := by simp
  have h1 := stage_fold .disjunctive (disjList I) h0 (by
    intro xy hxy
    obtain ⟨x, y⟩ := xy
    obtain ⟨a, ha, b, hb, _, rfl, rfl, _⟩ := (mem_disjList I x y).1 hxy
    rw [hlen]; exact ⟨opId_lt ha, opId_lt hb⟩)
  rw [← addDisjunctiveEdges_fold] at h1
  have h2 := stage_fold .conjunctive (conjList I) h1 (by
    intro xy hxy
    obtain ⟨x, y⟩ := xy
    obtain ⟨a, ha, b, hb, _, rfl, rfl⟩ := (mem_conjList I x y).1 hxy
    rw [hlen]; exact ⟨opId_lt ha, opId_lt hb⟩)
  rw [← addConjunctiveEdges_fold] at h2
  have hn2 : (addConjunctiveEdges I (addDisjunctiveEdges I (opNodesGraph I))).nodes.length = numOps I := by
    rw [h2.nodes, hlen]
  have h3 := stage_fold .conjunctive (ssList I (numOps I)) (stage_addNode (stage_addNode h2 .source) .sink) (by
    intro xy hxy
    obtain ⟨x, y⟩ := xy
    simp only [List.length_append, hlen, List.length_singleton]
    rcases (mem_ssList I _ x y).1 hxy with ⟨a, ha, _, rfl, rfl⟩ | ⟨a, ha, _, rfl, rfl⟩
    · have := opId_lt ha; constructor <;> omega
    · have := opId_lt ha; constructor <;> omega)
  rw [← hn2, ← addSourceSink_fold, hn2] at h3
  rw [List.append_assoc] at h3
  unfold buildDisjunctive
  apply stage_congr h3
  intro u v t
  simp only [false_and, false_or, mem_disjList, mem_conjList]
  unfold DisjEdgeSpec
  constructor
  · rintro (⟨(⟨⟨hd, rfl⟩, hnc⟩ | ⟨hc, rfl⟩), _⟩ | ⟨hs, rfl⟩)
    · obtain ⟨a, ha, b, hb, hne, rfl, rfl, hsh⟩ := hd
      refine Or.inl ⟨a, ha, b, hb, hne, rfl, rfl, Or.inr ⟨?_, hsh, rfl⟩⟩
      intro hjs; exact hnc ⟨a, ha, b, hb, hjs, rfl, rfl⟩
    · obtain ⟨a, ha, b, hb, hjs, rfl, rfl⟩ := hc
      exact Or.inl ⟨a, ha, b, hb, jobSucc_ne hjs, rfl, rfl, Or.inl ⟨hjs, rfl⟩⟩
    · rcases (mem_ssList I _ u v).1 hs with ⟨a, ha, h0, rfl, rfl⟩ | ⟨a, ha, hl, rfl, rfl⟩
      · exact Or.inr (Or.inl ⟨a, ha, h0, rfl, rfl, rfl⟩)
      · exact Or.inr (Or.inr ⟨a, ha, hl, rfl, rfl, rfl⟩)
  · rintro (⟨a, ha, b, hb, hne, rfl, rfl, h⟩ | ⟨a, ha, h0, rfl, rfl, rfl⟩ | ⟨a, ha, hl, rfl, rfl, rfl⟩)
    · have hn3 := not_mem_ssList_of_lt I (numOps I) _ _ (opId_lt ha) (opId_lt hb)
      rcases h with ⟨hjs, rfl⟩ | ⟨hnjs, hsh, rfl⟩
      · exact Or.inl ⟨Or.inr ⟨⟨a, ha, b, hb, hjs, rfl, rfl⟩, rfl⟩, hn3⟩
      · refine Or.inl ⟨Or.inl ⟨⟨⟨a, ha, b, hb, hne, rfl, rfl, hsh⟩, rfl⟩, ?_⟩, hn3⟩
        rintro ⟨a', ha', b', hb', hjs, e1, e2⟩
        have := opId_inj ha ha' e1; subst this
        have := opId_inj hb hb' e2; subst this
        exact hnjs hjs
    · exact Or.inr ⟨(mem_ssList I _ _ _).2 (Or.inl ⟨a, ha, h0, rfl, rfl⟩), rfl⟩
    · exact Or.inr ⟨(mem_ssList I _ _ _).2 (Or.inr ⟨a, ha, hl, rfl, rfl⟩), rfl⟩

set_option linter.unusedVariables false in
/-- **C16 (disjunctive graph: exactly the prescribed edges, correctly typed).**  (`Valid I` is not needed.) -/
theorem C16_disjunctive_edges (I : Instance) (hv : Valid I) (u v : Nat) (t : EType) :
    (u, v, t) ∈ (buildDisjunctive I).edges ↔ DisjEdgeSpec I u v t :=
  stage_edges (stage_disjunctive I) u v t

/-! ## the agent-task graphs: tools -/

theorem idxOf_map_range (f : Nat → NodeKind) (hinj : ∀ a b, f a = f b → a = b) : ∀ (N k : Nat), k < N →
    List.idxOf (f k) ((List.range N).map f) = k
  | 0, k, h => by omega
  | N + 1, k, h => by
    rw [List.range_succ, List.map_append, List.idxOf_append]
    by_cases hk : k < N
    · have hmem : f k ∈ (List.range N).map f := List.mem_map.2 ⟨k, List.mem_range.2 hk, rfl⟩
      rw [if_pos hmem]
      exact idxOf_map_range f hinj N k hk
    · have hkN : k = N := by omega
      subst hkN
      have hmem : f k ∉ (List.range k).map f := by
        intro hm
        obtain ⟨i, hi, he⟩ := List.mem_map.1 hm
        have := hinj _ _ he
        have := List.mem_range.1 hi
        omega
      rw [if_neg hmem]
      simp

/-- the node id of machine `m` -/
theorem idxOf_machine (n M m : Nat) (rest : List NodeKind) (hm : m < M) :
    List.idxOf (NodeKind.machine m)
      ((List.range n).map NodeKind.operation ++ (List.range M).map NodeKind.machine ++ rest) = n + m := by
  have h1 : NodeKind.machine m ∈ (List.range n).map NodeKind.operation ++ (List.range M).map NodeKind.machine :=
    List.mem_append.2 (Or.inr (List.mem_map.2 ⟨m, List.mem_range.2 hm, rfl⟩))
  have h2 : NodeKind.machine m ∉ (List.range n).map NodeKind.operation := by
    intro h; obtain ⟨i, _, he⟩ := List.mem_map.1 h; cases he
  rw [List.idxOf_append, if_pos h1, List.idxOf_append, if_neg h2,
    idxOf_map_range NodeKind.machine (fun a b h => by cases h; rfl) M m hm]
  simp; omega

/-- the node id of job `j` -/
theorem idxOf_job (n M J j : Nat) (rest : List NodeKind) (hj : j < J) :
    List.idxOf (NodeKind.job j)
      ((List.range n).map NodeKind.operation ++ (List.range M).map NodeKind.machine ++
        (List.range J).map NodeKind.job ++ rest) = n + M + j := by
  have h1 : NodeKind.job j ∈ (List.range n).map NodeKind.operation ++ (List.range M).map NodeKind.machine ++
      (List.range J).map NodeKind.job :=
    List.mem_append.2 (Or.inr (List.mem_map.2 ⟨j, List.mem_range.2 hj, rfl⟩))
  have h2 : NodeKind.job j ∉ (List.range n).map NodeKind.operation ++ (List.range M).map NodeKind.machine := by
    intro h
    rcases List.mem_append.1 h with h | h
    · obtain ⟨i, _, he⟩ := List.mem_map.1 h; cases he
    · obtain ⟨i, _, he⟩ := List.mem_map.1 h; cases he
  rw [List.idxOf_append, if_pos h1, List.idxOf_append, if_neg h2,
    idxOf_map_range NodeKind.job (fun a b h => by cases h; rfl) J j hj]
  simp; omega

/-- two step functions that agree on graphs with node list `ns` (which they preserve) give the same fold -/
theorem foldl_congr_nodes {α} (f f' : Graph → α → Graph) (ns : List NodeKind)
    (hn : ∀ g a, (f' g a).nodes = g.nodes) : ∀ (l : List α) (g : Graph), g.nodes = ns →
    (∀ g, g.nodes = ns → ∀ a ∈ l, f g a = f' g a) → l.foldl f g = l.foldl f' g
  | [], _, _, _ => rfl
  | a :: l, g, hg, h => by
    simp only [List.foldl_cons]
    rw [h g hg a (by simp)]
    exact foldl_congr_nodes f f' ns hn l _ (by rw [hn]; exact hg) (fun g' hg' b hb => h g' hg' b (by simp [hb]))

theorem foldl_addBoth_map {α} (t : EType) (f : α → Nat × Nat) (l : List α) (g : Graph) :
    l.foldl (fun g a => addBoth g (f a).1 (f a).2 t) g =
      (bothDir (l.map f)).foldl (fun g xy => g.addEdge xy.1 xy.2 t) g := by
  rw [← foldl_addBoth, List.foldl_map]

/-- untyped insertions on an untyped graph -/
theorem stage_fold_untyped (L : List (Nat × Nat)) {g : Graph} {ns : List NodeKind} {P : Nat → Nat → Prop}
    (h : Stage g ns (fun u v t => P u v ∧ t = .untyped)) (hL : ∀ xy ∈ L, xy.1 < ns.length ∧ xy.2 < ns.length) :
    Stage (L.foldl (fun g xy => g.addEdge xy.1 xy.2 .untyped) g) ns
      (fun u v t => (P u v ∨ (u, v) ∈ L) ∧ t = .untyped) := by
  apply stage_congr (stage_fold .untyped L h hL)
  intro u v t
  constructor
  · rintro (⟨⟨h1, h2⟩, _⟩ | ⟨h1, h2⟩)
    · exact ⟨Or.inl h1, h2⟩
    · exact ⟨Or.inr h1, h2⟩
  · rintro ⟨h1 | h1, h2⟩
    · by_cases hm : (u, v) ∈ L
      · exact Or.inr ⟨hm, h2⟩
      · exact Or.inl ⟨⟨h1, h2⟩, hm⟩
    · exact Or.inr ⟨h1, h2⟩

/-! ## the agent-task graphs: the `add_edge` calls of every phase -/

abbrev opsL (I : Instance) : List NodeKind := (List.range (numOps I)).map NodeKind.operation
abbrev machsL (I : Instance) : List NodeKind := (List.range (numMachines I)).map NodeKind.machine
abbrev jobsL (I : Instance) : List NodeKind := (List.range I.length).map NodeKind.job

def opMachList (I : Instance) : List (Nat × Nat) :=
  (List.range (numMachines I)).flatMap fun m => bothDir ((nodesByMachine I m).map fun o => (numOps I + m, o))

def machMachList (I : Instance) : List (Nat × Nat) :=
  bothDir (pairs ((List.range (numMachines I)).map fun m => numOps I + m))

def sameJobList (I : Instance) : List (Nat × Nat) :=
  (List.range I.length).flatMap fun j => bothDir (pairs (nodesByJob I j))

def opJobList (I : Instance) : List (Nat × Nat) :=
  (List.range I.length).flatMap fun j =>
    bothDir ((nodesByJob I j).map fun o => (numOps I + numMachines I + j, o))

def jobJobList (I : Instance) : List (Nat × Nat) :=
  bothDir (pairs ((List.range I.length).map fun j => numOps I + numMachines I + j))

def globalList (I : Instance) : List (Nat × Nat) :=
  bothDir ((List.range (numMachines I)).map fun m => (numOps I + numMachines I + I.length, numOps I + m)) ++
  bothDir ((List.range I.length).map fun j =>
    (numOps I + numMachines I + I.length, numOps I + numMachines I + j))

theorem foldl_addEdge_nodes (t : EType) (L : List (Nat × Nat)) (g : Graph) :
    (L.foldl (fun g xy => g.addEdge xy.1 xy.2 t) g).nodes = g.nodes :=
  foldl_nodes _ (fun g _ => addEdge_nodes g _ _ _) L g

theorem addOperationMachineEdges_fold (I : Instance) (g : Graph) (rest : List NodeKind)
    (hg : g.nodes = opsL I ++ machsL I ++ rest) :
    addOperationMachineEdges I g = (opMachList I).foldl (fun g xy => g.addEdge xy.1 xy.2 .untyped) g := by
  unfold addOperationMachineEdges opMachList
  rw [List.foldl_flatMap]
  apply foldl_congr_nodes _ _ _ (fun g m => foldl_addEdge_nodes _ _ g) _ _ hg
  intro g' hg' m hm
  rw [← foldl_addBoth_map]
  apply foldl_congr_nodes _ _ _ (fun g a => addBoth_nodes _ _ _ _) _ _ hg'
  intro g'' hg'' o _
  simp only [nodeIdOf, hg'', idxOf_machine _ _ _ _ (List.mem_range.1 hm)]

theorem addMachineMachineEdges_fold (I : Instance) (g : Graph) (rest : List NodeKind)
    (hg : g.nodes = opsL I ++ machsL I ++ rest) :
    addMachineMachineEdges I g = (machMachList I).foldl (fun g xy => g.addEdge xy.1 xy.2 .untyped) g := by
  unfold addMachineMachineEdges machMachList
  have : ((List.range (numMachines I)).map fun m => nodeIdOf g (.machine m)) =
      (List.range (numMachines I)).map fun m => numOps I + m := by
    apply List.map_congr_left
    intro m hm
    simp only [nodeIdOf, hg, idxOf_machine _ _ _ _ (List.mem_range.1 hm)]
  rw [this, ← foldl_addBoth]

theorem addSameJobEdges_fold (I : Instance) (g : Graph) :
    addSameJobEdges I g = (sameJobList I).foldl (fun g xy => g.addEdge xy.1 xy.2 .untyped) g := by
  unfold addSameJobEdges sameJobList
  rw [List.foldl_flatMap]
  congr 1
  funext g j
  rw [← foldl_addBoth]

theorem addOperationJobEdges_fold (I : Instance) (g : Graph) (rest : List NodeKind)
    (hg : g.nodes = opsL I ++ machsL I ++ jobsL I ++ rest) :
    addOperationJobEdges I g = (opJobList I).foldl (fun g xy => g.addEdge xy.1 xy.2 .untyped) g := by
  unfold addOperationJobEdges opJobList
  rw [List.foldl_flatMap]
  apply foldl_congr_nodes _ _ _ (fun g m => foldl_addEdge_nodes _ _ g) _ _ hg
  intro g' hg' j hj
  rw [← foldl_addBoth_map]
  apply foldl_congr_nodes _ _ _ (fun g a => addBoth_nodes _ _ _ _) _ _ hg'
  intro g'' hg'' o _
  simp only [nodeIdOf, hg'', idxOf_job _ _ _ _ _ (List.mem_range.1 hj)]

theorem addJobJobEdges_fold (I : Instance) (g : Graph) (rest : List NodeKind)
    (hg : g.nodes = opsL I ++ machsL I ++ jobsL I ++ rest) :
    addJobJobEdges I g = (jobJobList I).foldl (fun g xy => g.addEdge xy.1 xy.2 .untyped) g := by
  unfold addJobJobEdges jobJobList
  have : ((List.range I.length).map fun j => nodeIdOf g (.job j)) =
      (List.range I.length).map fun j => numOps I + numMachines I + j := by
    apply List.map_congr_left
    intro j hj
    simp only [nodeIdOf, hg, idxOf_job _ _ _ _ _ (List.mem_range.1 hj)]
  rw [this, ← foldl_addBoth]

theorem addGlobal_fold (I : Instance) (g : Graph) (hg : g.nodes = opsL I ++ machsL I ++ jobsL I) :
    addGlobal I g = (globalList I).foldl (fun g xy => g.addEdge xy.1 xy.2 .untyped) (g.addNode .global) := by
  have hlen : g.nodes.length = numOps I + numMachines I + I.length := by simp [hg]; omega
  have hg1 : (g.addNode .global).nodes = opsL I ++ machsL I ++ jobsL I ++ [.global] := by
    simp only [Graph.addNode, hg]
  unfold addGlobal globalList
  simp only
  rw [List.foldl_append, ← foldl_addBoth_map, ← foldl_addBoth_map, hlen]
  have h1 : (List.range (numMachines I)).foldl
        (fun g m => addBoth g (numOps I + numMachines I + I.length) (nodeIdOf g (.machine m)) .untyped)
        (g.addNode .global) =
      (List.range (numMachines I)).foldl
        (fun g m => addBoth g (numOps I + numMachines I + I.length) (numOps I + m) .untyped) (g.addNode .global) := by
    apply foldl_congr_nodes _ _ _ (fun g a => addBoth_nodes _ _ _ _) _ _ hg1
    intro g' hg' m hm
    have : g'.nodes = opsL I ++ machsL I ++ (jobsL I ++ [.global]) := by rw [hg', List.append_assoc]
    simp only [nodeIdOf, this, idxOf_machine _ _ _ _ (List.mem_range.1 hm)]
  rw [h1]
  apply foldl_congr_nodes _ _ (opsL I ++ machsL I ++ jobsL I ++ [.global]) (fun g a => addBoth_nodes _ _ _ _) _ _
    (by rw [foldl_nodes _ (fun g a => addBoth_nodes _ _ _ _)]; exact hg1)
  intro g' hg' j hj
  simp only [nodeIdOf, hg', idxOf_job _ _ _ _ _ (List.mem_range.1 hj)]

/-! ## the agent-task graphs: the prescribed edges

Node ids: operation `r` is `opId I r`, machine `m` is `numOps I + m`, job `j` is `numOps I + numMachines I + j`, the
global node is `numOps I + numMachines I + I.length`. -/

/-- operation ↔ machine, for every eligible machine of the operation -/
def OpMachEdge (I : Instance) (u v : Nat) : Prop :=
  ∃ r ∈ allOps I, ∃ m, onMachine I m r = true ∧
    ((u = opId I r ∧ v = numOps I + m) ∨ (u = numOps I + m ∧ v = opId I r))

/-- machine ↔ machine, for every two different machines -/
def MachMachEdge (I : Instance) (u v : Nat) : Prop :=
  ∃ m₁ m₂, m₁ < numMachines I ∧ m₂ < numMachines I ∧ m₁ ≠ m₂ ∧ u = numOps I + m₁ ∧ v = numOps I + m₂

/-- operation ↔ operation, for every two different operations of one job -/
def SameJobEdge (I : Instance) (u v : Nat) : Prop :=
  ∃ a ∈ allOps I, ∃ b ∈ allOps I, a ≠ b ∧ a.1 = b.1 ∧ u = opId I a ∧ v = opId I b

/-- operation ↔ its job node -/
def OpJobEdge (I : Instance) (u v : Nat) : Prop :=
  ∃ r ∈ allOps I, (u = opId I r ∧ v = numOps I + numMachines I + r.1) ∨
    (u = numOps I + numMachines I + r.1 ∧ v = opId I r)

/-- job ↔ job, for every two different jobs -/
def JobJobEdge (I : Instance) (u v : Nat) : Prop :=
  ∃ j₁ j₂, j₁ < I.length ∧ j₂ < I.length ∧ j₁ ≠ j₂ ∧
    u = numOps I + numMachines I + j₁ ∧ v = numOps I + numMachines I + j₂

/-- global ↔ every machine -/
def GlobalMachEdge (I : Instance) (u v : Nat) : Prop :=
  ∃ m, m < numMachines I ∧
    ((u = numOps I + numMachines I + I.length ∧ v = numOps I + m) ∨
     (u = numOps I + m ∧ v = numOps I + numMachines I + I.length))

/-- global ↔ every job -/
def GlobalJobEdge (I : Instance) (u v : Nat) : Prop :=
  ∃ j, j < I.length ∧
    ((u = numOps I + numMachines I + I.length ∧ v = numOps I + numMachines I + j) ∨
     (u = numOps I + numMachines I + j ∧ v = numOps I + numMachines I + I.length))

theorem mem_opMachList (I : Instance) (u v : Nat) : (u, v) ∈ opMachList I ↔ OpMachEdge I u v := by
  simp only [opMachList, List.mem_flatMap, List.mem_range, mem_bothDir, List.mem_map, Prod.mk.injEq, OpMachEdge]
  constructor
  · rintro ⟨m, _, (⟨o, ho, rfl, rfl⟩ | ⟨o, ho, rfl, rfl⟩)⟩
    · obtain ⟨r, hr, hm, rfl⟩ := (mem_nodesByMachine I m _).1 ho
      exact ⟨r, hr, m, hm, Or.inr ⟨rfl, rfl⟩⟩
    · obtain ⟨r, hr, hm, rfl⟩ := (mem_nodesByMachine I m _).1 ho
      exact ⟨r, hr, m, hm, Or.inl ⟨rfl, rfl⟩⟩
  · rintro ⟨r, hr, m, hm, (⟨rfl, rfl⟩ | ⟨rfl, rfl⟩)⟩
    · exact ⟨m, onMachine_lt hm, Or.inr ⟨opId I r, (mem_nodesByMachine I m _).2 ⟨r, hr, hm, rfl⟩, rfl, rfl⟩⟩
    · exact ⟨m, onMachine_lt hm, Or.inl ⟨opId I r, (mem_nodesByMachine I m _).2 ⟨r, hr, hm, rfl⟩, rfl, rfl⟩⟩

theorem mem_bothDir_pairs_offset (c N u v : Nat) :
    (u, v) ∈ bothDir (pairs ((List.range N).map fun k => c + k)) ↔
      ∃ k₁ k₂, k₁ < N ∧ k₂ < N ∧ k₁ ≠ k₂ ∧ u = c + k₁ ∧ v = c + k₂ := by
  have hn : ((List.range N).map fun k => c + k).Nodup :=
    List.Pairwise.map _ (fun a b hab e => hab (by omega)) List.nodup_range
  rw [mem_bothDir_pairs _ hn]
  simp only [List.mem_map, List.mem_range]
  constructor
  · rintro ⟨⟨k₁, h1, rfl⟩, ⟨k₂, h2, rfl⟩, hne⟩
    exact ⟨k₁, k₂, h1, h2, fun e => hne (by rw [e]), rfl, rfl⟩
  · rintro ⟨k₁, k₂, h1, h2, hne, rfl, rfl⟩
    exact ⟨⟨k₁, h1, rfl⟩, ⟨k₂, h2, rfl⟩, fun e => hne (by omega)⟩

theorem mem_machMachList (I : Instance) (u v : Nat) : (u, v) ∈ machMachList I ↔ MachMachEdge I u v :=
  mem_bothDir_pairs_offset _ _ u v

theorem mem_jobJobList (I : Instance) (u v : Nat) : (u, v) ∈ jobJobList I ↔ JobJobEdge I u v :=
  mem_bothDir_pairs_offset _ _ u v

theorem mem_sameJobList (I : Instance) (u v : Nat) : (u, v) ∈ sameJobList I ↔ SameJobEdge I u v := by
  simp only [sameJobList, List.mem_flatMap, List.mem_range, SameJobEdge]
  constructor
  · rintro ⟨j, hj, h⟩
    rw [mem_bothDir_pairs _ (nodesByJob_nodup I j), mem_nodesByJob I j u hj, mem_nodesByJob I j v hj] at h
    obtain ⟨⟨p, hp, rfl⟩, ⟨q, hq, rfl⟩, hne⟩ := h
    exact ⟨(j, p), hp, (j, q), hq, fun e => hne (by rw [e]), rfl, rfl, rfl⟩
  · rintro ⟨⟨j, p⟩, ha, ⟨j', q⟩, hb, hne, hjj, rfl, rfl⟩
    simp only at hjj; subst hjj
    have hj := ((mem_allOps_iff I j p).1 ha).1
    refine ⟨j, hj, ?_⟩
    rw [mem_bothDir_pairs _ (nodesByJob_nodup I j), mem_nodesByJob I j _ hj, mem_nodesByJob I j _ hj]
    exact ⟨⟨p, ha, rfl⟩, ⟨q, hb, rfl⟩, fun e => hne (opId_inj ha hb e)⟩

theorem mem_opJobList (I : Instance) (u v : Nat) : (u, v) ∈ opJobList I ↔ OpJobEdge I u v := by
  simp only [opJobList, List.mem_flatMap, List.mem_range, mem_bothDir, List.mem_map, Prod.mk.injEq, OpJobEdge]
  constructor
  · rintro ⟨j, hj, (⟨o, ho, rfl, rfl⟩ | ⟨o, ho, rfl, rfl⟩)⟩
    · obtain ⟨p, hp, rfl⟩ := (mem_nodesByJob I j _ hj).1 ho
      exact ⟨(j, p), hp, Or.inr ⟨rfl, rfl⟩⟩
    · obtain ⟨p, hp, rfl⟩ := (mem_nodesByJob I j _ hj).1 ho
      exact ⟨(j, p), hp, Or.inl ⟨rfl, rfl⟩⟩
  · rintro ⟨⟨j, p⟩, hr, (⟨rfl, rfl⟩ | ⟨rfl, rfl⟩)⟩
    · have hj := ((mem_allOps_iff I j p).1 hr).1
      exact ⟨j, hj, Or.inr ⟨opId I (j, p), (mem_nodesByJob I j _ hj).2 ⟨p, hr, rfl⟩, rfl, rfl⟩⟩
    · have hj := ((mem_allOps_iff I j p).1 hr).1
      exact ⟨j, hj, Or.inl ⟨opId I (j, p), (mem_nodesByJob I j _ hj).2 ⟨p, hr, rfl⟩, rfl, rfl⟩⟩

theorem mem_globalList (I : Instance) (u v : Nat) :
    (u, v) ∈ globalList I ↔ GlobalMachEdge I u v ∨ GlobalJobEdge I u v := by
  simp only [globalList, List.mem_append, mem_bothDir, List.mem_map, List.mem_range, Prod.mk.injEq, GlobalMachEdge,
    GlobalJobEdge]
  constructor
  · rintro ((⟨m, hm, rfl, rfl⟩ | ⟨m, hm, rfl, rfl⟩) | (⟨j, hj, rfl, rfl⟩ | ⟨j, hj, rfl, rfl⟩))
    · exact Or.inl ⟨m, hm, Or.inl ⟨rfl, rfl⟩⟩
    · exact Or.inl ⟨m, hm, Or.inr ⟨rfl, rfl⟩⟩
    · exact Or.inr ⟨j, hj, Or.inl ⟨rfl, rfl⟩⟩
    · exact Or.inr ⟨j, hj, Or.inr ⟨rfl, rfl⟩⟩
  · rintro (⟨m, hm, (⟨rfl, rfl⟩ | ⟨rfl, rfl⟩)⟩ | ⟨j, hj, (⟨rfl, rfl⟩ | ⟨rfl, rfl⟩)⟩)
    · exact Or.inl (Or.inl ⟨m, hm, rfl, rfl⟩)
    · exact Or.inl (Or.inr ⟨m, hm, rfl, rfl⟩)
    · exact Or.inr (Or.inl ⟨j, hj, rfl, rfl⟩)
    · exact Or.inr (Or.inr ⟨j, hj, rfl, rfl⟩)

/-! bounds: every inserted pair connects existing nodes -/

theorem opMachEdge_lt {I : Instance} {u v : Nat} (h : OpMachEdge I u v) :
    u < numOps I + numMachines I ∧ v < numOps I + numMachines I := by
  obtain ⟨r, hr, m, hm, (⟨rfl, rfl⟩ | ⟨rfl, rfl⟩)⟩ := h <;>
  · have := opId_lt hr; have := onMachine_lt hm; constructor <;> omega

theorem machMachEdge_lt {I : Instance} {u v : Nat} (h : MachMachEdge I u v) :
    u < numOps I + numMachines I ∧ v < numOps I + numMachines I := by
  obtain ⟨m₁, m₂, h1, h2, _, rfl, rfl⟩ := h
  constructor <;> omega

theorem sameJobEdge_lt {I : Instance} {u v : Nat} (h : SameJobEdge I u v) : u < numOps I ∧ v < numOps I := by
  obtain ⟨a, ha, b, hb, _, _, rfl, rfl⟩ := h
  exact ⟨opId_lt ha, opId_lt hb⟩

theorem opJobEdge_lt {I : Instance} {u v : Nat} (h : OpJobEdge I u v) :
    u < numOps I + numMachines I + I.length ∧ v < numOps I + numMachines I + I.length := by
  obtain ⟨⟨j, p⟩, hr, (⟨rfl, rfl⟩ | ⟨rfl, rfl⟩)⟩ := h <;>
  · have := opId_lt hr; have := ((mem_allOps_iff I j p).1 hr).1; constructor <;> omega

theorem jobJobEdge_lt {I : Instance} {u v : Nat} (h : JobJobEdge I u v) :
    u < numOps I + numMachines I + I.length ∧ v < numOps I + numMachines I + I.length := by
  obtain ⟨j₁, j₂, h1, h2, _, rfl, rfl⟩ := h
  constructor <;> omega

theorem globalEdge_lt {I : Instance} {u v : Nat} (h : GlobalMachEdge I u v ∨ GlobalJobEdge I u v) :
    u < numOps I + numMachines I + I.length + 1 ∧ v < numOps I + numMachines I + I.length + 1 := by
  rcases h with ⟨m, hm, (⟨rfl, rfl⟩ | ⟨rfl, rfl⟩)⟩ | ⟨j, hj, (⟨rfl, rfl⟩ | ⟨rfl, rfl⟩)⟩ <;> constructor <;> omega

/-- one phase of untyped insertions, with the inserted pairs described by `Q` -/
theorem stage_step {g g' : Graph} {ns : List NodeKind} {P Q : Nat → Nat → Prop} (L : List (Nat × Nat))
    (h : Stage g ns (fun u v t => P u v ∧ t = .untyped))
    (hg' : g' = L.foldl (fun g xy => g.addEdge xy.1 xy.2 .untyped) g)
    (hmem : ∀ u v, (u, v) ∈ L ↔ Q u v) (hlt : ∀ u v, Q u v → u < ns.length ∧ v < ns.length) :
    Stage g' ns (fun u v t => (P u v ∨ Q u v) ∧ t = .untyped) := by
  subst hg'
  apply stage_congr (stage_fold_untyped L h (fun xy hxy => hlt xy.1 xy.2 ((hmem xy.1 xy.2).1 hxy)))
  intro u v t
  rw [hmem]

theorem length_opsL_machsL (I : Instance) : (opsL I ++ machsL I).length = numOps I + numMachines I := by simp

theorem length_opsL_machsL_jobsL (I : Instance) :
    (opsL I ++ machsL I ++ jobsL I).length = numOps I + numMachines I + I.length := by simp; omega

/-- operation nodes, machine nodes, operation ↔ machine edges: the common prefix of the three agent-task builders -/
theorem stage_opMach (I : Instance) :
    Stage (addOperationMachineEdges I (addMachineNodes I (opNodesGraph I))) (opsL I ++ machsL I)
      (fun u v t => OpMachEdge I u v ∧ t = .untyped) := by
  have h0 : Stage (addMachineNodes I (opNodesGraph I)) (opsL I ++ machsL I)
      (fun _ _ t => False ∧ t = .untyped) := by
    apply stage_congr (stage_addNodes NodeKind.machine (List.range (numMachines I)) (stage_opNodes I))
    intro u v t; simp
  have h1 := stage_step (opMachList I) h0
    (addOperationMachineEdges_fold I _ [] (by rw [h0.nodes, List.append_nil])) (mem_opMachList I)
    (fun u v h => by rw [length_opsL_machsL]; exact opMachEdge_lt h)
  apply stage_congr h1
  intro u v t; simp

/-- **Specification of the agent-task graph** (nodes: operations, then machine `m` at `numOps I + m`): untyped edges
operation ↔ eligible machine, machine ↔ machine (different), operation ↔ operation (different, same job); nothing
else. -/
def AgentTaskEdgeSpec (I : Instance) (u v : Nat) (t : EType) : Prop :=
  (OpMachEdge I u v ∨ MachMachEdge I u v ∨ SameJobEdge I u v) ∧ t = .untyped

theorem stage_agentTask (I : Instance) :
    Stage (buildAgentTask I) (opsL I ++ machsL I) (AgentTaskEdgeSpec I) := by
  have h1 := stage_opMach I
  have h2 := stage_step (machMachList I) h1
    (addMachineMachineEdges_fold I _ [] (by rw [h1.nodes, List.append_nil])) (mem_machMachList I)
    (fun u v h => by rw [length_opsL_machsL]; exact machMachEdge_lt h)
  have h3 := stage_step (sameJobList I) h2 (addSameJobEdges_fold I _) (mem_sameJobList I)
    (fun u v h => by rw [length_opsL_machsL]; have := sameJobEdge_lt h; omega)
  unfold buildAgentTask
  apply stage_congr h3
  intro u v t
  unfold AgentTaskEdgeSpec
  rw [or_assoc]

set_option linter.unusedVariables false in
/-- **C16 (agent-task graph: exactly the prescribed edges).**  (`Valid I` is not needed.) -/
theorem C16_agentTask_edges (I : Instance) (hv : Valid I) (u v : Nat) (t : EType) :
    (u, v, t) ∈ (buildAgentTask I).edges ↔ AgentTaskEdgeSpec I u v t :=
  stage_edges (stage_agentTask I) u v t

/-- **Specification of the agent-task graph with job nodes** (nodes: operations, machine `m` at `numOps I + m`, job `j`
at `numOps I + numMachines I + j`): untyped edges operation ↔ eligible machine, machine ↔ machine (different),
operation ↔ its job, job ↔ job (different); nothing else. -/
def AgentTaskJobsEdgeSpec (I : Instance) (u v : Nat) (t : EType) : Prop :=
  (OpMachEdge I u v ∨ MachMachEdge I u v ∨ OpJobEdge I u v ∨ JobJobEdge I u v) ∧ t = .untyped

theorem stage_agentTaskJobs (I : Instance) :
    Stage (buildAgentTaskJobs I) (opsL I ++ machsL I ++ jobsL I) (AgentTaskJobsEdgeSpec I) := by
  have h1 := stage_opMach I
  have h2 := stage_step (machMachList I) h1
    (addMachineMachineEdges_fold I _ [] (by rw [h1.nodes, List.append_nil])) (mem_machMachList I)
    (fun u v h => by rw [length_opsL_machsL]; exact machMachEdge_lt h)
  have h3 : Stage (addJobNodes I _) (opsL I ++ machsL I ++ jobsL I) _ :=
    stage_addNodes NodeKind.job (List.range I.length) h2
  have h4 := stage_step (opJobList I) h3
    (addOperationJobEdges_fold I _ [] (by rw [h3.nodes, List.append_nil])) (mem_opJobList I)
    (fun u v h => by rw [length_opsL_machsL_jobsL]; exact opJobEdge_lt h)
  have h5 := stage_step (jobJobList I) h4
    (addJobJobEdges_fold I _ [] (by rw [h4.nodes, List.append_nil])) (mem_jobJobList I)
    (fun u v h => by rw [length_opsL_machsL_jobsL]; exact jobJobEdge_lt h)
  unfold buildAgentTaskJobs
  apply stage_congr h5
  intro u v t
  unfold AgentTaskJobsEdgeSpec
  simp only [or_assoc]

set_option linter.unusedVariables false in
/-- **C16 (agent-task graph with jobs: exactly the prescribed edges).**  (`Valid I` is not needed.) -/
theorem C16_agentTaskJobs_edges (I : Instance) (hv : Valid I) (u v : Nat) (t : EType) :
    (u, v, t) ∈ (buildAgentTaskJobs I).edges ↔ AgentTaskJobsEdgeSpec I u v t :=
  stage_edges (stage_agentTaskJobs I) u v t

/-- **Specification of the complete agent-task graph** (nodes: operations, machine `m` at `numOps I + m`, job `j` at
`numOps I + numMachines I + j`, the global node at `numOps I + numMachines I + I.length`): untyped edges
operation ↔ eligible machine, operation ↔ its job, global ↔ every machine, global ↔ every job; nothing else. -/
def CompleteAgentTaskEdgeSpec (I : Instance) (u v : Nat) (t : EType) : Prop :=
  (OpMachEdge I u v ∨ OpJobEdge I u v ∨ GlobalMachEdge I u v ∨ GlobalJobEdge I u v) ∧ t = .untyped

theorem stage_completeAgentTask (I : Instance) :
    Stage (buildCompleteAgentTask I) (opsL I ++ machsL I ++ jobsL I ++ [.global]) (CompleteAgentTaskEdgeSpec I) := by
  have h1 := stage_opMach I
  have h3 : Stage (addJobNodes I _) (opsL I ++ machsL I ++ jobsL I) _ :=
    stage_addNodes NodeKind.job (List.range I.length) h1
  have h4 := stage_step (opJobList I) h3
    (addOperationJobEdges_fold I _ [] (by rw [h3.nodes, List.append_nil])) (mem_opJobList I)
    (fun u v h => by rw [length_opsL_machsL_jobsL]; exact opJobEdge_lt h)
  have h5 := stage_step (globalList I) (stage_addNode h4 .global) (addGlobal_fold I _ h4.nodes) (mem_globalList I)
    (fun u v h => by
      rw [List.length_append, length_opsL_machsL_jobsL]; exact globalEdge_lt h)
  unfold buildCompleteAgentTask
  apply stage_congr h5
  intro u v t
  unfold CompleteAgentTaskEdgeSpec
  simp only [or_assoc]

set_option linter.unusedVariables false in
/-- **C16 (complete agent-task graph: exactly the prescribed edges).**  (`Valid I` is not needed.) -/
theorem C16_completeAgentTask_edges (I : Instance) (hv : Valid I) (u v : Nat) (t : EType) :
    (u, v, t) ∈ (buildCompleteAgentTask I).edges ↔ CompleteAgentTaskEdgeSpec I u v t :=
  stage_edges (stage_completeAgentTask I) u v t

/-- **C16 (one entry per edge).** In every built graph each ordered pair `(u, v)` occurs at most once in the edge
list, so an edge has exactly one type. -/
theorem C16_edges_nodup (b : Builder) (I : Instance) :
    ((build b I).edges.map fun e => (e.1, e.2.1)).Nodup := by
  cases b
  · exact stage_edges_nodup (stage_disjunctive I)
  · exact stage_edges_nodup (stage_agentTask I)
  · exact stage_edges_nodup (stage_agentTaskJobs I)
  · exact stage_edges_nodup (stage_completeAgentTask I)

theorem C16_edge_type_unique (b : Builder) (I : Instance) (u v : Nat) (t t' : EType)
    (h1 : (u, v, t) ∈ (build b I).edges) (h2 : (u, v, t') ∈ (build b I).edges) : t = t' := by
  cases b
  · exact stage_type_unique (stage_disjunctive I) ((stage_edges (stage_disjunctive I) u v t).1 h1)
      ((stage_edges (stage_disjunctive I) u v t').1 h2)
  · exact stage_type_unique (stage_agentTask I) ((stage_edges (stage_agentTask I) u v t).1 h1)
      ((stage_edges (stage_agentTask I) u v t').1 h2)
  · exact stage_type_unique (stage_agentTaskJobs I) ((stage_edges (stage_agentTaskJobs I) u v t).1 h1)
      ((stage_edges (stage_agentTaskJobs I) u v t').1 h2)
  · exact stage_type_unique (stage_completeAgentTask I) ((stage_edges (stage_completeAgentTask I) u v t).1 h1)
      ((stage_edges (stage_completeAgentTask I) u v t').1 h2)

end JS

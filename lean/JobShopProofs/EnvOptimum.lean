import JobShopProofs.EnvRejected
import JobShopProofs.ObserversTransparent
import JobShopProofs.Properties.C08
/-!
# C08 end to end through the environment

`C08_pruned_reaches_concrete` is about the bare dispatcher.  Here the same through the Gymnasium environment (`Env`) configured
with the dominated-operations filter: an agent that only ever chooses among the available operations the environment reports
(`info["available_operations"]` = `availablePure` of the current dispatcher state) reaches a schedule at least as good as any
feasible complete assignment; every one of its steps is accepted (none raises), and the run ends complete (the last step reports
`done`).  Conversely the final state of any run of the environment is a reachable dispatcher state, so a complete one yields a
feasible complete assignment: with the filter installed the environment reaches makespan `≤ B` iff some feasible complete
assignment finishes by `B`.
-/
namespace JS

/-- the constructor leaves the dispatcher of the environment fresh: configuration `c`, state `init c.I` -/
theorem Env.make_st {c : Cfg} {ec : EnvCfg} {e : Env} (h : Env.make c ec = some e) :
    e.w.cfg = c ∧ e.w.s = init c.I := by
  unfold Env.make at h
  cases h1 : constructFeats (FWorld.init c) ec.feats with
  | none => rw [h1] at h; cases h
  | some r1 =>
    obtain ⟨w1, ids⟩ := r1
    rw [h1] at h
    simp only at h
    have g1 := good_constructFeats ec.feats _ w1 ids h1
    rcases h2 : w1.constructComposite (some ids) with ⟨w2, ocomp⟩
    have g2 := good_constructComposite w1 (some ids)
    rw [h2] at h g2
    cases ocomp with
    | none => simp only at h; cases h
    | some comp =>
      simp only at h g2
      rcases h3 : w2.constructResidual (build ec.builder c.I) ec.rmMach ec.rmJob with ⟨w3, oupd⟩
      have g3 := good_constructResidual w2 (build ec.builder c.I) ec.rmMach ec.rmJob
      rw [h3] at h g3
      cases oupd with
      | none => simp only at h; cases h
      | some upd =>
        simp only at h g3
        by_cases hrw : (ec.reward != .makespanReward && ec.reward != .idleReward) = true
        · rw [if_pos hrw] at h; cases h
        · rw [if_neg hrw] at h
          have g4 := good_construct w3 ec.reward none
          rcases h4 : w3.construct ec.reward none with ⟨w4, orew⟩
          rw [h4] at h g4
          cases orew with
          | none => simp only at h; cases h
          | some rew =>
            simp only at h g4
            have g5 := good_construct w4 .history none
            rcases h5 : w4.construct .history none with ⟨w5, ohist⟩
            rw [h5] at h g5
            cases ohist with
            | none => simp only at h; cases h
            | some hid =>
              simp only [Option.some.injEq] at h g5
              subst h
              have gall := g1.trans (g2.trans (g3.trans (g4.trans g5)))
              exact ⟨gall.st.1, gall.st.2⟩

/-- with the dominated filter alone, the available operations are the filter applied to the raw ready list -/
theorem availablePure_dominated (c : Cfg) (hdom : c.F = some [.dominated]) (s : State) :
    availablePure c s = filterDominated c.I s (rawReady c.I s) := by
  simp only [availablePure, hdom, applyCfg, applyFilters, List.foldl_cons, List.foldl_nil, applyFilter]

/-- an explicit eligible machine id resolves to itself -/
theorem resolveMachine_some_nat (op : Op) (m : Nat) (hm : m ∈ op.machines) :
    resolveMachine op (some (m : Int)) = .ok m := by
  simp only [resolveMachine]
  rw [if_neg (by omega)]
  simp only [Int.toNat_natCast, hm, ↓reduceIte]

theorem natCast_beq_neg_one (m : Nat) : ((m : Int) == -1) = false := by
  simp only [beq_eq_false_iff_ne, ne_eq]; omega

/-- the decision of the environment that names job `j` with machine `m` dispatches exactly as `dispatch … j p m`, where `p` is
the job's next position -/
theorem Env.step_of_dispatch (e : Env) (j p m : Nat) (s' : State) (hd : dispatch e.w.cfg.I e.w.s j p m = .ok s') :
    (e.step j (m : Int)).1.w.cfg = e.w.cfg ∧ (e.step j (m : Int)).1.w.s = s' ∧ e.legal j (m : Int) = true ∧
      e.w.s.jobIdx.getD j 0 = p := by
  obtain ⟨op, hsp⟩ := dispatch_ok hd
  have hidx := hsp.hidx
  have hop : getOp e.w.cfg.I j (e.w.s.jobIdx.getD j 0) = some op := by rw [hidx]; exact hsp.hop
  have hreq : dispatchReq e.w.cfg.I e.w.s j (e.w.s.jobIdx.getD j 0) (some (m : Int)) = .ok s' := by
    rw [hidx]
    unfold dispatchReq
    simp only [hsp.hop, hidx, ne_eq, not_true_eq_false, ↓reduceIte, resolveMachine_some_nat op m hsp.hm]
    exact hd
  have hmach : (if ((m : Int) == -1) = true then (none : Option Int) else some (m : Int)) = some (m : Int) := by
    rw [natCast_beq_neg_one]; rfl
  have hds := FWorld.dispatch_s e.w j (e.w.s.jobIdx.getD j 0) (some (m : Int))
  have hst : stepEv e.w.cfg e.w.s (.disp j (e.w.s.jobIdx.getD j 0) (some (m : Int))) = (s', .ok) := by
    simp only [stepEv, hreq]
  rw [hst] at hds
  have hb : (e.w.dispatch j (e.w.s.jobIdx.getD j 0) (some (m : Int))).2 = true := by
    unfold FWorld.dispatch
    simp only [hreq]
    cases (s'.sched.flatten.find? fun x => x.job == j && x.pos == e.w.s.jobIdx.getD j 0) <;> rfl
  rcases hdd : e.w.dispatch j (e.w.s.jobIdx.getD j 0) (some (m : Int)) with ⟨w', b⟩
  rw [hdd] at hds hb
  simp only at hds hb
  subst hb
  have hdd' : e.w.dispatch j (e.w.s.jobIdx.getD j 0) (if ((m : Int) == -1) = true then none else some (m : Int))
      = (w', true) := by rw [hmach]; exact hdd
  obtain ⟨hw', _⟩ := Env.step_of_accepted e j (m : Int) op w' hop hdd'
  refine ⟨by rw [hw']; exact hds.1, by rw [hw']; exact hds.2, ?_, hidx⟩
  unfold Env.legal
  rw [hop]
  simp only [natCast_beq_neg_one, Bool.false_eq_true, ↓reduceIte, Int.toNat_natCast, Bool.and_eq_true,
    decide_eq_true_eq, List.contains_iff_mem]
  exact ⟨by omega, hsp.hm⟩

/-- the decisions an agent makes to follow a dispatch history: job and explicit machine id -/
def actsOf (h : List (Nat × Nat × Nat)) : List (Nat × Int) := h.map fun x => (x.1, (x.2.2 : Int))

/-- the events of a list of decisions -/
def stepEvs (acts : List (Nat × Int)) : List EnvEv := acts.map fun a => EnvEv.step a.1 a.2

theorem Env.runEvs_append (e : Env) (a b : List EnvEv) : e.runEvs (a ++ b) = (e.runEvs a).runEvs b := by
  simp only [Env.runEvs, List.foldl_append]

/-- following a filtered dispatch history through the environment: the dispatcher inside moves along the history, every
decision is among the available operations reported, no step raises -/
theorem env_follows_fhist (c : Cfg) (hv : Valid c.I) (hdom : c.F = some [.dominated])
    (ec : EnvCfg) (e0 : Env) (hf : FeatsOK ec.feats) (hpad : ec.usePadding = true) (hmk : Env.make c ec = some e0)
    {h : List (Nat × Nat × Nat)} {s : State} (hh : FHist c.I h s) :
    (e0.runEvs (stepEvs (actsOf h))).w.cfg = c ∧ (e0.runEvs (stepEvs (actsOf h))).w.s = s ∧
    ∀ k, (hk : k < (actsOf h).length) →
      let e := e0.runEvs (stepEvs ((actsOf h).take k))
      ((actsOf h)[k].1, e.w.s.jobIdx.getD (actsOf h)[k].1 0) ∈ availablePure e.w.cfg e.w.s ∧
      (e.step (actsOf h)[k].1 (actsOf h)[k].2).2 ≠ .raised := by
  induction hh with
  | nil =>
    obtain ⟨h1, h2⟩ := Env.make_st hmk
    refine ⟨h1, h2, ?_⟩
    intro k hk
    simp [actsOf] at hk
  | @snoc h s s' j p m _ hmem hd ih =>
    obtain ⟨icfg, ist, iall⟩ := ih
    have hacts : actsOf (h ++ [(j, p, m)]) = actsOf h ++ [(j, (m : Int))] := by
      simp [actsOf]
    have hevs : stepEvs (actsOf h ++ [(j, (m : Int))]) = stepEvs (actsOf h) ++ [EnvEv.step j (m : Int)] := by
      simp [stepEvs]
    have hd' : dispatch (e0.runEvs (stepEvs (actsOf h))).w.cfg.I (e0.runEvs (stepEvs (actsOf h))).w.s j p m = .ok s' := by
      rw [icfg, ist]; exact hd
    obtain ⟨s1, s2, s3, s4⟩ := Env.step_of_dispatch (e0.runEvs (stepEvs (actsOf h))) j p m s' hd'
    rw [hacts, hevs, Env.runEvs_append]
    refine ⟨?_, ?_, ?_⟩
    · simp only [Env.runEvs, List.foldl_cons, List.foldl_nil, Env.apply]
      exact s1.trans icfg
    · simp only [Env.runEvs, List.foldl_cons, List.foldl_nil, Env.apply]
      exact s2
    · intro k hk
      rw [List.length_append, List.length_singleton] at hk
      by_cases hlt : k < (actsOf h).length
      · have e1 : (actsOf h ++ [(j, (m : Int))]).take k = (actsOf h).take k := by
          rw [List.take_append_of_le_length (by omega)]
        have e2 : (actsOf h ++ [(j, (m : Int))])[k]'(by simp; omega) = (actsOf h)[k] :=
          List.getElem_append_left hlt
        rw [e1, e2]
        exact iall k hlt
      · have hke : k = (actsOf h).length := by omega
        subst hke
        have e1 : (actsOf h ++ [(j, (m : Int))]).take (actsOf h).length = actsOf h := by
          rw [List.take_left']; rfl
        have e2 : (actsOf h ++ [(j, (m : Int))])[(actsOf h).length]'(by simp) = (j, (m : Int)) := by
          simp
        rw [e1, e2]
        intro e
        refine ⟨?_, ?_⟩
        · show (j, e.w.s.jobIdx.getD j 0) ∈ availablePure e.w.cfg e.w.s
          rw [s4]
          show (j, p) ∈ availablePure (e0.runEvs (stepEvs (actsOf h))).w.cfg (e0.runEvs (stepEvs (actsOf h))).w.s
          rw [icfg, ist, availablePure_dominated c hdom]
          exact hmem
        · show (e.step j (m : Int)).2 ≠ .raised
          intro hr
          have := (C09_env_raises_iff_illegal c hv ec e0 hf hpad hmk (stepEvs (actsOf h)) j (m : Int)).1 hr
          rw [s3] at this
          cases this

/-- **C08 through the environment.**  For every valid instance with positive durations, the environment built by the constructor
with the dominated-operations filter (any admissible feature configuration, padding on), and every feasible complete assignment
`T` finishing by `B`: there is a sequence of decisions, each naming a job whose next operation is among the available operations the
environment reports at that moment (with an eligible machine of it), each accepted by `step` (no raise), after which the schedule
is complete (so the last step reported `done`) with makespan `≤ max 0 B`. -/
theorem C08_env_reaches (c : Cfg) (hv : Valid c.I) (hp : PosDurI c.I) (hdom : c.F = some [.dominated])
    (ec : EnvCfg) (e0 : Env) (hf : FeatsOK ec.feats) (hpad : ec.usePadding = true) (hmk : Env.make c ec = some e0)
    (T : Asg) (hT : FeasT c.I T) (B : Int) (hB : BoundT c.I T B) :
    ∃ acts : List (Nat × Int),
      (∀ k, (hk : k < acts.length) →
          let e := e0.runEvs ((acts.take k).map fun a => EnvEv.step a.1 a.2)
          (acts[k].1, e.w.s.jobIdx.getD acts[k].1 0) ∈ availablePure e.w.cfg e.w.s ∧
          (e.step acts[k].1 acts[k].2).2 ≠ .raised) ∧
      (let e := e0.runEvs (acts.map fun a => EnvEv.step a.1 a.2)
       isComplete c.I e.w.s = true ∧ makespan e.w.s ≤ max 0 B) := by
  obtain ⟨h, s, hh, hcomp, hmks⟩ := C08_pruned_reaches_concrete c.I hv hp T hT B hB
  obtain ⟨_, hst, hall⟩ := env_follows_fhist c hv hdom ec e0 hf hpad hmk hh
  refine ⟨actsOf h, hall, ?_⟩
  show isComplete c.I (e0.runEvs (stepEvs (actsOf h))).w.s = true ∧ makespan (e0.runEvs (stepEvs (actsOf h))).w.s ≤ max 0 B
  rw [hst]
  exact ⟨hcomp, hmks⟩

/-- the last step of a complete run reports `done`: an accepted step returns `done = isComplete` of the state it reaches -/
theorem C08_env_last_done (e : Env) (job : Nat) (machine : Int) (hnr : (e.step job machine).2 ≠ .raised)
    (hcomp : isComplete (e.step job machine).1.w.cfg.I (e.step job machine).1.w.s = true) :
    ∃ obs r av, (e.step job machine).2 = .ok obs r true false av := by
  cases hs : (e.step job machine).2 with
  | raised => exact absurd hs hnr
  | ok obs r d t av =>
    obtain ⟨hd, ht⟩ := C18_done_truncated e job machine obs r d t av hs
    rw [hcomp] at hd
    subst hd; subst ht
    exact ⟨obs, r, av, rfl⟩

/-- **C08 through the environment, with the `done` flag.**  As `C08_env_reaches`, and moreover the last step of the run returns
`done = True` (and `truncated = False`): the episode ends exactly there. -/
theorem C08_env_reaches_done (c : Cfg) (hv : Valid c.I) (hp : PosDurI c.I) (hdom : c.F = some [.dominated])
    (ec : EnvCfg) (e0 : Env) (hf : FeatsOK ec.feats) (hpad : ec.usePadding = true) (hmk : Env.make c ec = some e0)
    (T : Asg) (hT : FeasT c.I T) (B : Int) (hB : BoundT c.I T B) :
    ∃ acts : List (Nat × Int),
      (∀ k, (hk : k < acts.length) →
          let e := e0.runEvs ((acts.take k).map fun a => EnvEv.step a.1 a.2)
          (acts[k].1, e.w.s.jobIdx.getD acts[k].1 0) ∈ availablePure e.w.cfg e.w.s ∧
          (e.step acts[k].1 acts[k].2).2 ≠ .raised ∧
          (k + 1 = acts.length → ∃ obs r av, (e.step acts[k].1 acts[k].2).2 = .ok obs r true false av)) ∧
      (let e := e0.runEvs (acts.map fun a => EnvEv.step a.1 a.2)
       isComplete c.I e.w.s = true ∧ makespan e.w.s ≤ max 0 B) := by
  obtain ⟨acts, h1, h2⟩ := C08_env_reaches c hv hp hdom ec e0 hf hpad hmk T hT B hB
  refine ⟨acts, ?_, h2⟩
  intro k hk e
  obtain ⟨a1, a2⟩ := h1 k hk
  refine ⟨a1, a2, ?_⟩
  intro hlast
  apply C08_env_last_done e _ _ a2
  have hrun : (e.step acts[k].1 acts[k].2).1 = e0.runEvs (acts.map fun a => EnvEv.step a.1 a.2) := by
    have : acts = acts.take k ++ [acts[k]] := by
      rw [List.take_append_getElem hk, hlast, List.take_length]
    conv => rhs; rw [this]
    rw [List.map_append, Env.runEvs_append]
    simp only [List.map_cons, List.map_nil, Env.runEvs, List.foldl_cons, List.foldl_nil, Env.apply]
    rfl
  obtain ⟨hok, hcfg, _⟩ := Env.make_envOK hf hmk
  rw [hrun, Env.runEvs_cfg e0 _ hok, hcfg]
  exact h2.1

/-- converse: whatever the agent does (any steps, legal or not, any resets), the dispatcher state of the environment is a
reachable one; if it is complete, it is a feasible complete assignment finishing by its makespan -/
theorem C08_env_run_feasible (c : Cfg) (hv : Valid c.I) (ec : EnvCfg) (e0 : Env) (hf : FeatsOK ec.feats)
    (hmk : Env.make c ec = some e0) (evs : List EnvEv) (hcomp : isComplete c.I (e0.runEvs evs).w.s = true) :
    FeasT c.I (asgOf (e0.runEvs evs).w.s) ∧ BoundT c.I (asgOf (e0.runEvs evs).w.s) (makespan (e0.runEvs evs).w.s) := by
  obtain ⟨hok, hcfg, _⟩ := Env.make_envOK hf hmk
  have hok2 := Env.make_envOK2 hf hmk
  have hv0 : Valid e0.w.cfg.I := by rw [hcfg]; exact hv
  have hrun2 := Env.runEvs_envOK2 hok hok2 hv0 evs
  have hc := hrun2.cinv
  rw [Env.runEvs_cfg e0 evs hok, hcfg] at hc
  exact asgOf_feasible hv hc hcomp

/-- **C08 through the environment (minimum = optimum).**  With the dominated-operations filter installed, for every bound `B ≥ 0`:
an agent choosing only among the reported available operations, all its steps accepted, can finish with makespan `≤ B` iff some
feasible complete assignment of machines and start times finishes everything by `B`. -/
theorem C08_env_min_iff (c : Cfg) (hv : Valid c.I) (hp : PosDurI c.I) (hdom : c.F = some [.dominated])
    (ec : EnvCfg) (e0 : Env) (hf : FeatsOK ec.feats) (hpad : ec.usePadding = true) (hmk : Env.make c ec = some e0)
    (B : Int) (hB : 0 ≤ B) :
    (∃ acts : List (Nat × Int),
      (∀ k, (hk : k < acts.length) →
          let e := e0.runEvs ((acts.take k).map fun a => EnvEv.step a.1 a.2)
          (acts[k].1, e.w.s.jobIdx.getD acts[k].1 0) ∈ availablePure e.w.cfg e.w.s ∧
          (e.step acts[k].1 acts[k].2).2 ≠ .raised) ∧
      (let e := e0.runEvs (acts.map fun a => EnvEv.step a.1 a.2)
       isComplete c.I e.w.s = true ∧ makespan e.w.s ≤ B)) ↔
    (∃ T, FeasT c.I T ∧ BoundT c.I T B) := by
  constructor
  · rintro ⟨acts, _, hcomp, hm⟩
    obtain ⟨hT, hBd⟩ := C08_env_run_feasible c hv ec e0 hf hmk _ hcomp
    exact ⟨_, hT, fun j p op hop => Int.le_trans (hBd j p op hop) hm⟩
  · rintro ⟨T, hT, hBd⟩
    obtain ⟨acts, h1, h2, h3⟩ := C08_env_reaches c hv hp hdom ec e0 hf hpad hmk T hT B hBd
    exact ⟨acts, h1, h2, by omega⟩

/-! non-vacuity: the hypotheses of both theorems are satisfiable — the positive-duration flexible instance of C06 with the
dominated filter, the constructor succeeds, a feasible complete assignment finishing by 5 exists — and the decisions
`(0, 0), (1, 1), (0, 2), (1, 0)` taken through that environment are each among the reported available operations, none raises,
the last one reports `done`, and the makespan is 5 -/
theorem posInstance_posDur : PosDurI posInstance := by
  intro j p op h
  have hall : posInstance.all (fun job => job.all fun op => decide (0 < op.dur)) = true := by decide
  unfold getOp at h
  cases hj : posInstance[j]? with
  | none => simp [hj] at h
  | some job =>
    simp only [hj, Option.bind_some] at h
    have := List.all_eq_true.1 hall job (List.mem_of_getElem? hj)
    have := List.all_eq_true.1 this op (List.mem_of_getElem? h)
    simpa using this

set_option maxRecDepth 100000 in
example :
    let c : Cfg := { I := posInstance, F := some [.dominated] }
    let ec : EnvCfg := { builder := .agentTask, feats := [(.isReady, none), (.duration, some [.machines, .operations]),
      (.isCompleted, some [.jobs])] }
    Valid c.I ∧ PosDurI c.I ∧ c.F = some [.dominated] ∧ FeatsOK ec.feats ∧ ec.usePadding = true ∧
      (∃ e0, Env.make c ec = some e0) ∧ (∃ T, FeasT c.I T ∧ BoundT c.I T 5) := by
  have hv : Valid posInstance := valid_of_validB (by decide)
  refine ⟨hv, posInstance_posDur, rfl, ?_, rfl, Option.isSome_iff_exists.1 (by decide), ?_⟩
  · intro kf hkf l hl
    simp only [List.mem_cons, List.mem_nil_iff, or_false] at hkf
    rcases hkf with rfl | rfl | rfl <;> simp at hl <;> subst hl <;> decide
  · let r (h : List (Nat × Nat × Nat)) := replay posInstance (init posInstance) h
    have h1 : AHist posInstance ([] ++ [(0, 0, 0)]) (r [(0, 0, 0)]) := .snoc .nil (by rfl)
    have h2 : AHist posInstance ([] ++ [(0, 0, 0)] ++ [(1, 0, 1)]) (r [(0, 0, 0), (1, 0, 1)]) := .snoc h1 (by rfl)
    have h3 : AHist posInstance ([] ++ [(0, 0, 0)] ++ [(1, 0, 1)] ++ [(0, 1, 2)]) (r [(0, 0, 0), (1, 0, 1), (0, 1, 2)]) :=
      .snoc h2 (by rfl)
    have h4 : AHist posInstance ([] ++ [(0, 0, 0)] ++ [(1, 0, 1)] ++ [(0, 1, 2)] ++ [(1, 1, 0)])
        (r [(0, 0, 0), (1, 0, 1), (0, 1, 2), (1, 1, 0)]) := .snoc h3 (by rfl)
    obtain ⟨hT, hBd⟩ := asgOf_feasible hv (h4.cinv hv) (by decide)
    exact ⟨_, hT, fun j p op hop => Int.le_trans (hBd j p op hop) (by decide)⟩

set_option maxRecDepth 100000 in
example :
    let c : Cfg := { I := posInstance, F := some [.dominated] }
    let ec : EnvCfg := { builder := .agentTask, feats := [(.isReady, none), (.duration, some [.machines, .operations]),
      (.isCompleted, some [.jobs])] }
    let acts : List (Nat × Int) := [(0, 0), (1, 1), (0, 2), (1, 0)]
    (Env.make c ec).map (fun e0 =>
      ((List.range acts.length).map fun k =>
        let e := e0.runEvs ((acts.take k).map fun a => EnvEv.step a.1 a.2)
        let a := acts.getD k (0, 0)
        (decide ((a.1, e.w.s.jobIdx.getD a.1 0) ∈ availablePure e.w.cfg e.w.s),
         (e.step a.1 a.2).2 == .raised,
         match (e.step a.1 a.2).2 with | .ok _ _ d _ _ => d | .raised => false),
       let e := e0.runEvs (acts.map fun a => EnvEv.step a.1 a.2)
       (isComplete c.I e.w.s, makespan e.w.s))) =
    some ([(true, false, false), (true, false, false), (true, false, false), (true, false, true)], (true, 5)) := by
  decide

end JS

import JobShopProofs.FeatureWorldDispatch
import JobShopProofs.FeatureWorldReset
import JobShopProofs.FeatureWorldCtor
/-!
# The value invariant holds in every reachable feature world

Observers are constructed on the fresh dispatcher (any kinds, any feature-type subsets, any order, helpers created
lazily, composites, residual graph updaters), then any sequence of dispatch requests (accepted or rejected) and resets
follows: in every world reached this way every subscribed observer satisfies `ObsVal` for the current dispatcher
state.
-/
namespace JS

/-- well-formed construction events: no feature type is listed twice (Python's `features` is a dict) -/
def FEv.NodupFts : FEv → Prop
  | .construct _ (some l) => l.Nodup
  | _ => True

theorem finv_ctors {c : Cfg} (hv : Valid c.I) : ∀ (ctors : List FEv) (w : FWorld), w.cfg = c → FInv w → w.s = init c.I →
    (∀ e ∈ ctors, e.isCtor = true) → (∀ e ∈ ctors, e.NodupFts) →
    FInv (ctors.foldl FWorld.step w) ∧ (ctors.foldl FWorld.step w).s = init c.I ∧ (ctors.foldl FWorld.step w).cfg = c
  | [], w, hc, h, hs, _, _ => ⟨h, hs, hc⟩
  | e :: t, w, hc, h, hs, hct, hnd => by
    simp only [List.foldl_cons]
    subst hc
    obtain ⟨h1, h2, h3⟩ := finv_ctor hv h hs e (hct e (List.mem_cons_self ..))
      (by intro k l he; have := hnd e (List.mem_cons_self ..); rw [he] at this; exact this)
    exact finv_ctors (c := w.cfg) hv t _ h3 h1 h2
      (fun e' he' => hct e' (List.mem_cons_of_mem _ he')) (fun e' he' => hnd e' (List.mem_cons_of_mem _ he'))

theorem finv_events {c : Cfg} (hv : Valid c.I) (hF : c.F = none ∨ PosDurI c.I) : ∀ (evs : List FEv) (w : FWorld),
    w.cfg = c → FInv w → (∀ e ∈ evs, e.isCtor = false) →
    FInv (evs.foldl FWorld.step w) ∧ (evs.foldl FWorld.step w).cfg = c
  | [], w, hc, h, _ => ⟨h, hc⟩
  | e :: t, w, hc, h, hev => by
    simp only [List.foldl_cons]
    subst hc
    have he := hev e (List.mem_cons_self ..)
    have hrest : ∀ e' ∈ t, e'.isCtor = false := fun e' he' => hev e' (List.mem_cons_of_mem _ he')
    cases e with
    | disp j p m =>
      have hcfg : (w.dispatch j p m).1.cfg = w.cfg := (dispatch_keeps w j p m).2.2.1
      exact finv_events (c := w.cfg) hv hF t _ hcfg (finv_dispatch hv hF h j p m) hrest
    | reset =>
      have hcfg : w.reset.cfg = w.cfg := (reset_keeps w).2.2.1
      exact finv_events (c := w.cfg) hv hF t _ hcfg (finv_reset hv h).1 hrest
    | construct k fts => simp [FEv.isCtor] at he
    | composite parts => simp [FEv.isCtor] at he
    | residual b rm rj => simp [FEv.isCtor] at he

/-- **The value invariant in every reachable feature world.** -/
theorem finv_run (c : Cfg) (hv : Valid c.I) (hF : c.F = none ∨ PosDurI c.I) (ctors evs : List FEv)
    (hct : ∀ e ∈ ctors, e.isCtor = true) (hnd : ∀ e ∈ ctors, e.NodupFts) (hev : ∀ e ∈ evs, e.isCtor = false) :
    FInv (FWorld.run c (ctors ++ evs)) ∧ (FWorld.run c (ctors ++ evs)).cfg = c := by
  unfold FWorld.run
  rw [List.foldl_append]
  obtain ⟨h0, hs0⟩ := finv_init c
  obtain ⟨h1, _, h3⟩ := finv_ctors hv ctors (FWorld.init c) rfl h0 hs0 hct hnd
  exact finv_events hv hF evs _ h3 h1 hev

end JS

import JobShopProofs.Properties.C17
import JobShopProofs.CpLemmas
/-!
# Edge types: the last insertion decides

`JobShopGraph.add_edge` on an existing edge overwrites its attributes.  `build_disjunctive_graph` adds the
disjunctive edges first and the conjunctive job-chain edges afterwards, so a job's consecutive operations that share
a machine end up connected by a *conjunctive* edge in job direction (the reverse edge stays disjunctive).
-/
namespace JS

def HasEdge (g : Graph) (u v : Nat) (t : EType) : Prop := (v, t) ∈ g.adj.getD u []
def OnlyType (g : Graph) (u v : Nat) (t : EType) : Prop := ∀ t', (v, t') ∈ g.adj.getD u [] → t' = t

/-- the edge `u → v` exists with type `t` and with no other type -/
def Typed (g : Graph) (u v : Nat) (t : EType) : Prop := HasEdge g u v t ∧ OnlyType g u v t

theorem getD_modify_self {α} (l : List α) (f : α → α) (k : Nat) (d : α) (h : k < l.length) :
    (l.modify k f).getD k d = f (l.getD k d) := by
  simp [List.getD_eq_getElem?_getD, List.getElem?_modify, h, List.getElem?_eq_getElem h]

theorem getD_modify_ne {α} (l : List α) (f : α → α) (k u : Nat) (d : α) (h : k ≠ u) :
    (l.modify k f).getD u d = l.getD u d := by
  simp [List.getD_eq_getElem?_getD, List.getElem?_modify, h]

/-- adjacency after `add_edge` -/
theorem addEdge_adj (g : Graph) (hg : GInv g) (x y : Nat) (t0 : EType) (u : Nat) :
    (g.addEdge x y t0).adj.getD u [] =
      if (g.present x && g.present y) = true ∧ u = x then
        (if (g.adj.getD x []).any (·.1 == y) then (g.adj.getD x []).map fun e => if e.1 == y then (y, t0) else e
         else g.adj.getD x [] ++ [(y, t0)])
      else g.adj.getD u [] := by
  unfold Graph.addEdge
  by_cases hp : (g.present x && g.present y) = true
  · simp only [hp, ↓reduceIte, true_and]
    by_cases hu : u = x
    · subst hu
      simp only [↓reduceIte]
      have hlt : u < g.adj.length := by
        rw [hg.lenA]
        simp only [Bool.and_eq_true, Graph.present, decide_eq_true_eq] at hp
        exact hp.1.1
      rw [getD_modify_self _ _ _ _ hlt]
    · simp only [hu, ↓reduceIte]
      rw [getD_modify_ne _ _ _ _ _ (fun h => hu h.symm)]
  · simp only [hp, Bool.false_eq_true, ↓reduceIte, false_and]

theorem addEdge_typed_new (g : Graph) (hg : GInv g) (x y : Nat) (t0 : EType)
    (hp : (g.present x && g.present y) = true) : Typed (g.addEdge x y t0) x y t0 := by
  unfold Typed HasEdge OnlyType
  rw [addEdge_adj g hg x y t0 x]
  simp only [hp, and_self, ↓reduceIte]
  by_cases hany : (g.adj.getD x []).any (·.1 == y) = true
  · simp only [hany, ↓reduceIte, List.mem_map]
    obtain ⟨e, he, hk⟩ := List.any_eq_true.1 hany
    refine ⟨⟨e, he, by simp [hk]⟩, ?_⟩
    rintro t' ⟨e', he', heq⟩
    by_cases hk' : (e'.1 == y) = true
    · simp only [hk', ↓reduceIte, Prod.mk.injEq] at heq; exact heq.2.symm
    · simp only [hk', Bool.false_eq_true, ↓reduceIte] at heq
      rw [heq] at hk'; simp at hk'
  · simp only [hany, Bool.false_eq_true, ↓reduceIte, List.mem_append, List.mem_singleton, Prod.mk.injEq]
    refine ⟨by simp, ?_⟩
    rintro t' (h | h)
    · exfalso
      apply hany
      exact List.any_eq_true.2 ⟨(y, t'), h, by simp⟩
    · exact h.2

theorem addEdge_typed_keep (g : Graph) (hg : GInv g) (x y : Nat) (t0 : EType) (a b : Nat) (t : EType)
    (hne : (x, y) ≠ (a, b)) (h : Typed g a b t) : Typed (g.addEdge x y t0) a b t := by
  unfold Typed HasEdge OnlyType at h ⊢
  rw [addEdge_adj g hg x y t0 a]
  by_cases hc : (g.present x && g.present y) = true ∧ a = x
  · obtain ⟨hp, rfl⟩ := hc
    have hyb : y ≠ b := fun e => hne (by rw [e])
    simp only [hp, and_self, ↓reduceIte]
    by_cases hany : (g.adj.getD a []).any (·.1 == y) = true
    · simp only [hany, ↓reduceIte, List.mem_map]
      constructor
      · exact ⟨(b, t), h.1, by
          have : ((b, t).1 == y) = false := by simpa using fun e => hyb e.symm
          simp [this]⟩
      · rintro t' ⟨e', he', heq⟩
        by_cases hk' : (e'.1 == y) = true
        · simp only [hk', ↓reduceIte, Prod.mk.injEq] at heq; exact absurd heq.1 hyb
        · simp only [hk', Bool.false_eq_true, ↓reduceIte] at heq
          rw [heq] at he'; exact h.2 t' he'
    · simp only [hany, Bool.false_eq_true, ↓reduceIte, List.mem_append, List.mem_singleton, Prod.mk.injEq]
      constructor
      · exact Or.inl h.1
      · rintro t' (h' | h')
        · exact h.2 t' h'
        · exact absurd h'.1.symm hyb
  · simp only [hc, ↓reduceIte]; exact h

/-- inserting an edge of type `t` — with any endpoints — never breaks `Typed g a b t` while `a`, `b` are present -/
theorem addEdge_typed_same (g : Graph) (hg : GInv g) (x y a b : Nat) (t : EType)
    (hpa : g.present a = true) (hpb : g.present b = true) (h : Typed g a b t) : Typed (g.addEdge x y t) a b t := by
  by_cases hk : (x, y) = (a, b)
  · have hx : x = a := congrArg Prod.fst hk
    have hy : y = b := congrArg Prod.snd hk
    subst hx; subst hy
    exact addEdge_typed_new g hg x y t (by simp [hpa, hpb])
  · exact addEdge_typed_keep g hg x y t a b t hk h

theorem addNode_typed (g : Graph) (hg : GInv g) (k : NodeKind) (a b : Nat) (t : EType) (ha : a < g.nodes.length)
    (h : Typed g a b t) : Typed (g.addNode k) a b t := by
  unfold Typed HasEdge OnlyType at h ⊢
  simp only [Graph.addNode]
  rw [getD_append_lt _ _ _ _ (by rw [hg.lenA]; exact ha)]
  exact h

theorem addNode_present (g : Graph) (hg : GInv g) (k : NodeKind) (a : Nat) (h : g.present a = true) :
    (g.addNode k).present a = true := by
  simp only [Graph.present, Graph.addNode, Bool.and_eq_true, decide_eq_true_eq, Bool.not_eq_true',
    List.length_append, List.length_singleton] at h ⊢
  refine ⟨by omega, ?_⟩
  rw [getD_append_lt _ _ _ _ (by rw [hg.lenR]; exact h.1)]
  exact h.2

/-- a fold of same-typed insertions: `Typed a b t` holds afterwards if it held before or `(a, b)` is inserted -/
theorem fold_addEdge_typed (t : EType) (a b : Nat) : ∀ (L : List (Nat × Nat)) (g : Graph), GInv g →
    g.present a = true → g.present b = true → (Typed g a b t ∨ (a, b) ∈ L) →
    Typed (L.foldl (fun g xy => g.addEdge xy.1 xy.2 t) g) a b t ∧
    GInv (L.foldl (fun g xy => g.addEdge xy.1 xy.2 t) g) ∧
    (L.foldl (fun g xy => g.addEdge xy.1 xy.2 t) g).present a = true ∧
    (L.foldl (fun g xy => g.addEdge xy.1 xy.2 t) g).present b = true
  | [], g, hg, ha, hb, h => by
    rcases h with h | h
    · exact ⟨h, hg, ha, hb⟩
    · cases h
  | (x, y) :: L, g, hg, ha, hb, h => by
    simp only [List.foldl_cons]
    apply fold_addEdge_typed t a b L _ (ginv_addEdge hg x y t) (by rw [addEdge_present]; exact ha)
      (by rw [addEdge_present]; exact hb)
    rcases h with h | h
    · exact Or.inl (addEdge_typed_same g hg x y a b t ha hb h)
    · rcases List.mem_cons.1 h with h1 | h1
      · cases h1
        exact Or.inl (addEdge_typed_new g hg a b t (by simp [ha, hb]))
      · exact Or.inr h1

end JS

namespace JS

/-- the conjunctive phase as a fold over pairs -/
theorem addConjunctiveEdges_eq (I : Instance) (g : Graph) :
    addConjunctiveEdges I g = (List.range I.length).foldl (fun g j =>
      ((nodesByJob I j).zip (nodesByJob I j).tail).foldl (fun g xy => g.addEdge xy.1 xy.2 .conjunctive) g) g := rfl

/-- after the conjunctive phase every job-consecutive pair is conjunctive-typed, whatever edges were there before -/
theorem addConjunctive_typed (I : Instance) (a b : Nat) : ∀ (js : List Nat) (g : Graph), GInv g →
    g.present a = true → g.present b = true →
    (Typed g a b .conjunctive ∨ ∃ j ∈ js, (a, b) ∈ (nodesByJob I j).zip (nodesByJob I j).tail) →
    let g' := js.foldl (fun g j =>
      ((nodesByJob I j).zip (nodesByJob I j).tail).foldl (fun g xy => g.addEdge xy.1 xy.2 .conjunctive) g) g
    Typed g' a b .conjunctive ∧ GInv g' ∧ g'.present a = true ∧ g'.present b = true
  | [], g, hg, ha, hb, h => by
    rcases h with h | ⟨j, hj, _⟩
    · exact ⟨h, hg, ha, hb⟩
    · cases hj
  | j :: js, g, hg, ha, hb, h => by
    simp only [List.foldl_cons]
    have hstep := fold_addEdge_typed .conjunctive a b ((nodesByJob I j).zip (nodesByJob I j).tail) g hg ha hb
    by_cases hin : (a, b) ∈ (nodesByJob I j).zip (nodesByJob I j).tail
    · obtain ⟨h1, h2, h3, h4⟩ := hstep (Or.inr hin)
      exact addConjunctive_typed I a b js _ h2 h3 h4 (Or.inl h1)
    · rcases h with h | ⟨j', hj', hmem⟩
      · obtain ⟨h1, h2, h3, h4⟩ := hstep (Or.inl h)
        exact addConjunctive_typed I a b js _ h2 h3 h4 (Or.inl h1)
      · -- the pair is inserted later; the current job only adds conjunctive edges
        have hj'' : j' ∈ js := by
          rcases List.mem_cons.1 hj' with rfl | h'
          · exact absurd hmem hin
          · exact h'
        -- presence and the invariant survive this job's insertions
        have key : ∀ (L : List (Nat × Nat)) (g0 : Graph), GInv g0 → g0.present a = true → g0.present b = true →
            GInv (L.foldl (fun g xy => g.addEdge xy.1 xy.2 .conjunctive) g0) ∧
            (L.foldl (fun g xy => g.addEdge xy.1 xy.2 .conjunctive) g0).present a = true ∧
            (L.foldl (fun g xy => g.addEdge xy.1 xy.2 .conjunctive) g0).present b = true := by
          intro L
          induction L with
          | nil => intro g0 h0 h1 h2; exact ⟨h0, h1, h2⟩
          | cons xy L ih =>
            intro g0 h0 h1 h2
            simp only [List.foldl_cons]
            exact ih _ (ginv_addEdge h0 _ _ _) (by rw [addEdge_present]; exact h1) (by rw [addEdge_present]; exact h2)
        obtain ⟨k1, k2, k3⟩ := key ((nodesByJob I j).zip (nodesByJob I j).tail) g hg ha hb
        exact addConjunctive_typed I a b js _ k1 k2 k3 (Or.inr ⟨j', hj'', hmem⟩)

end JS

namespace JS

/-- no node of the graph is removed (true of every graph while it is being built) -/
def NoRemoved (g : Graph) : Prop := ∀ k, k < g.nodes.length → g.removed.getD k true = false

theorem noRemoved_addNode {g : Graph} (hg : GInv g) (h : NoRemoved g) (k : NodeKind) : NoRemoved (g.addNode k) := by
  intro i hi
  simp only [Graph.addNode, List.length_append, List.length_singleton] at hi ⊢
  by_cases hlt : i < g.nodes.length
  · rw [getD_append_lt _ _ _ _ (by rw [hg.lenR]; exact hlt)]; exact h i hlt
  · have : i = g.removed.length := by rw [hg.lenR]; omega
    subst this
    simp [List.getD_eq_getElem?_getD]

theorem noRemoved_addEdge {g : Graph} (h : NoRemoved g) (x y : Nat) (t : EType) : NoRemoved (g.addEdge x y t) := by
  intro i hi
  rw [addEdge_nodes] at hi
  have : (g.addEdge x y t).removed = g.removed := by unfold Graph.addEdge; split <;> rfl
  rw [this]; exact h i hi

theorem noRemoved_foldl {α} (f : Graph → α → Graph)
    (hf : ∀ g a, GInv g → NoRemoved g → GInv (f g a) ∧ NoRemoved (f g a)) :
    ∀ (l : List α) (g : Graph), GInv g → NoRemoved g → GInv (l.foldl f g) ∧ NoRemoved (l.foldl f g)
  | [], _, h1, h2 => ⟨h1, h2⟩
  | a :: t, g, h1, h2 => by
    simp only [List.foldl_cons]
    obtain ⟨a1, a2⟩ := hf g a h1 h2
    exact noRemoved_foldl f hf t _ a1 a2

theorem present_of_noRemoved {g : Graph} (h : NoRemoved g) {a : Nat} (ha : a < g.nodes.length) : g.present a = true := by
  have := h a ha
  simp only [Graph.present, Bool.and_eq_true, decide_eq_true_eq, Bool.not_eq_true']
  exact ⟨ha, this⟩

theorem mem_edges_iff (g : Graph) (u v : Nat) (t : EType) :
    (u, v, t) ∈ g.edges ↔ u < g.nodes.length ∧ g.present u = true ∧ (v, t) ∈ g.adj.getD u [] := by
  simp only [Graph.edges, List.mem_flatMap, List.mem_range]
  constructor
  · rintro ⟨w, hw, hmem⟩
    by_cases hp : g.present w = true
    · rw [if_pos hp] at hmem
      simp only [List.mem_map, Prod.mk.injEq] at hmem
      obtain ⟨e, he, rfl, rfl, rfl⟩ := hmem
      exact ⟨hw, hp, he⟩
    · rw [if_neg hp] at hmem; cases hmem
  · rintro ⟨hu, hp, hmem⟩
    refine ⟨u, hu, ?_⟩
    rw [if_pos hp]
    exact List.mem_map.2 ⟨(v, t), hmem, rfl⟩

theorem zip_tail_mem_range_map (f : Nat → Nat) (n p : Nat) (hp : p + 1 < n) :
    (f p, f (p + 1)) ∈ ((List.range n).map f).zip ((List.range n).map f).tail := by
  rw [List.mem_iff_getElem?]
  refine ⟨p, ?_⟩
  rw [List.getElem?_zip_eq_some]
  constructor
  · simp [List.getElem?_range (by omega : p < n)]
  · rw [List.getElem?_tail]
    simp [List.getElem?_range (by omega : p + 1 < n)]

/-- **C16 (job-chain edges are conjunctive).** In `build_disjunctive_graph(I)`, for every two consecutive operations of
a job the edge from the earlier to the later one exists, is typed conjunctive, and carries no other type — also when
both run on the same machine, where a disjunctive edge between them had been added first. -/
theorem C16_conjunctive_typed (I : Instance) (j p : Nat) (hp : p + 1 < (I.getD j []).length) (hj : j < I.length) :
    let g := buildDisjunctive I
    let a := opId I (j, p)
    let b := opId I (j, p + 1)
    (a, b, EType.conjunctive) ∈ g.edges ∧ ∀ t, (a, b, t) ∈ g.edges → t = .conjunctive := by
  intro g a b
  -- the operations are nodes of the graph
  have hjj : I[j]? = some (I.getD j []) := by simp [List.getD_eq_getElem?_getD, List.getElem?_eq_getElem hj]
  have hmemA : (j, p) ∈ allOps I := by
    rw [mem_allOps']
    simp only [getOp, hjj, Option.bind_some]
    rw [List.getElem?_eq_getElem (by omega)]; rfl
  have hmemB : (j, p + 1) ∈ allOps I := by
    rw [mem_allOps']
    simp only [getOp, hjj, Option.bind_some]
    rw [List.getElem?_eq_getElem hp]; rfl
  have ha : a < numOps I := opId_lt hmemA
  have hb : b < numOps I := opId_lt hmemB
  -- phase 0/1: operation nodes, disjunctive edges
  have h0 : GInv (opNodesGraph I) ∧ NoRemoved (opNodesGraph I) := by
    unfold opNodesGraph
    exact noRemoved_foldl _ (fun g i hg hn => ⟨ginv_addNode hg _, noRemoved_addNode hg hn _⟩) _ _ ginv_empty
      (by intro k hk; simp at hk)
  have hn0 : (opNodesGraph I).nodes.length = numOps I := by rw [opNodesGraph_nodes]; simp
  have h1 : GInv (addDisjunctiveEdges I (opNodesGraph I)) ∧ NoRemoved (addDisjunctiveEdges I (opNodesGraph I)) := by
    unfold addDisjunctiveEdges
    exact noRemoved_foldl _ (fun g m hg hn => noRemoved_foldl _ (fun g ab hg hn =>
      ⟨ginv_addBoth hg _ _ _, by unfold addBoth; exact noRemoved_addEdge (noRemoved_addEdge hn _ _ _) _ _ _⟩) _ _ hg hn)
      _ _ h0.1 h0.2
  have hn1 : (addDisjunctiveEdges I (opNodesGraph I)).nodes.length = numOps I := by
    rw [addDisjunctiveEdges_nodes]; exact hn0
  -- phase 2: conjunctive edges
  have hin : (a, b) ∈ (nodesByJob I j).zip (nodesByJob I j).tail :=
    zip_tail_mem_range_map (fun q => opId I (j, q)) _ p hp
  obtain ⟨t2, g2inv, pa2, pb2⟩ := addConjunctive_typed I a b (List.range I.length) _ h1.1
    (present_of_noRemoved h1.2 (by rw [hn1]; exact ha)) (present_of_noRemoved h1.2 (by rw [hn1]; exact hb))
    (Or.inr ⟨j, List.mem_range.2 hj, hin⟩)
  rw [← addConjunctiveEdges_eq] at t2 g2inv pa2 pb2
  have hgdef : g = addSourceSink I (addConjunctiveEdges I (addDisjunctiveEdges I (opNodesGraph I))) := rfl
  generalize addConjunctiveEdges I (addDisjunctiveEdges I (opNodesGraph I)) = g2 at t2 g2inv pa2 pb2 hgdef
  have ha2 : a < g2.nodes.length := by
    simp only [Graph.present, Bool.and_eq_true, decide_eq_true_eq] at pa2; exact pa2.1
  -- phase 3: source and sink; every insertion is conjunctive
  have hfinal : Typed (addSourceSink I g2) a b .conjunctive ∧ (addSourceSink I g2).present a = true := by
    unfold addSourceSink
    simp only
    have g3inv := ginv_addNode (ginv_addNode g2inv .source) .sink
    have t3 : Typed ((g2.addNode .source).addNode .sink) a b .conjunctive :=
      addNode_typed _ (ginv_addNode g2inv _) _ a b _ (by simp [Graph.addNode]; omega)
        (addNode_typed _ g2inv _ a b _ ha2 t2)
    have pa3 := addNode_present _ (ginv_addNode g2inv .source) .sink a (addNode_present _ g2inv .source a pa2)
    have pb3 := addNode_present _ (ginv_addNode g2inv .source) .sink b (addNode_present _ g2inv .source b pb2)
    generalize (g2.addNode .source).addNode .sink = g3 at g3inv t3 pa3 pb3
    have key : ∀ (js : List Nat) (g0 : Graph), GInv g0 → Typed g0 a b .conjunctive → g0.present a = true →
        g0.present b = true →
        let r := js.foldl (fun g j =>
          match (nodesByJob I j).head?, (nodesByJob I j).getLast? with
          | some x, some y => (g.addEdge g2.nodes.length x .conjunctive).addEdge y (g2.nodes.length + 1) .conjunctive
          | _, _ => g) g0
        Typed r a b .conjunctive ∧ r.present a = true := by
      intro js
      induction js with
      | nil => intro g0 _ ht hpa _; exact ⟨ht, hpa⟩
      | cons j' js ih =>
        intro g0 hg0 ht hpa hpb
        simp only [List.foldl_cons]
        cases hh : (nodesByJob I j').head? with
        | none => simp only; exact ih g0 hg0 ht hpa hpb
        | some x =>
          cases hl : (nodesByJob I j').getLast? with
          | none => simp only; exact ih g0 hg0 ht hpa hpb
          | some y =>
            simp only
            have e1 := addEdge_typed_same g0 hg0 g2.nodes.length x a b .conjunctive hpa hpb ht
            have g1inv := ginv_addEdge hg0 g2.nodes.length x .conjunctive
            have pa1 : (g0.addEdge g2.nodes.length x .conjunctive).present a = true := by rw [addEdge_present]; exact hpa
            have pb1 : (g0.addEdge g2.nodes.length x .conjunctive).present b = true := by rw [addEdge_present]; exact hpb
            have e2 := addEdge_typed_same _ g1inv y (g2.nodes.length + 1) a b .conjunctive pa1 pb1 e1
            exact ih _ (ginv_addEdge g1inv _ _ _) e2 (by rw [addEdge_present]; exact pa1) (by rw [addEdge_present]; exact pb1)
    exact key (List.range I.length) g3 g3inv t3 pa3 pb3
  rw [← hgdef] at hfinal
  obtain ⟨⟨hhas, honly⟩, hpres⟩ := hfinal
  have hlt : a < g.nodes.length := by
    simp only [Graph.present, Bool.and_eq_true, decide_eq_true_eq] at hpres; exact hpres.1
  constructor
  · exact (mem_edges_iff g a b .conjunctive).2 ⟨hlt, hpres, hhas⟩
  · intro t ht
    exact honly t ((mem_edges_iff g a b t).1 ht).2.2

end JS

import JobShopProofs.FeatureWorldDefs
/-!
# The value invariant of the feature world: the fresh world, and constructors on a fresh dispatcher

`finv_init`: the world without observers satisfies `FInv`.  `finv_ctor`: constructing any observer while the
dispatcher is still in its initial state keeps `FInv` (and neither the dispatcher state nor the configuration
change).

Method: constructors never modify existing heap entries; they push new observers and then rewrite the NEW ids only.
`PInv w ex` is `FInv` without the value clause for the ids in `ex` (observers that are pushed but not initialised
yet); every primitive (`push`, `setObs`) and every helper (`getUnscheduled`, `getRemaining`, `isCompletedInit`,
`getIsCompleted`) is walked through with it.
-/
namespace JS
namespace FCtor

/-! ## `ObsVal` by kind -/

theorem obsVal_plain {c : Cfg} {s : State} {o : FObs} (h1 : o.kind.single = false) (h2 : o.kind ≠ .unscheduled) :
    ObsVal c s o := by
  constructor
  all_goals
    intro hk
    first
      | exact absurd hk h2
      | (rw [hk] at h1; exact absurd h1 (by decide))

theorem obsVal_unsched {c : Cfg} {s : State} {o : FObs} (hk : o.kind = .unscheduled)
    (h : o.deques = dequesSpec c.I s) : ObsVal c s o := by
  constructor
  all_goals first
    | exact fun _ => h
    | (intro hk'; rw [hk] at hk'; cases hk')

theorem obsVal_isReady {c : Cfg} {s : State} {o : FObs} (hk : o.kind = .isReady)
    (h : ∀ ft ∈ o.fts, o.col ft = indicator (numEntities c.I ft) (readyIds c s ft)) : ObsVal c s o := by
  constructor
  all_goals first
    | exact fun _ => h
    | (intro hk'; rw [hk] at hk'; cases hk')

theorem obsVal_est {c : Cfg} {s : State} {o : FObs} (hk : o.kind = .earliestStart)
    (h0 : EstOK c.I s o.est)
    (h1 : FT.operations ∈ o.fts → ∀ r ∈ unscheduledPure c.I s,
      (o.col .operations).getD (opId c.I r) 0 = estSpec c.I s r - currentTimePure c s)
    (h2 : FT.machines ∈ o.fts → ∀ m, m < numMachines c.I →
      (o.col .machines).getD m 0 =
        ((((unscheduledPure c.I s).filter (onMachine c.I m)).map (estSpec c.I s)).min?).getD 0 - currentTimePure c s)
    (h3 : FT.jobs ∈ o.fts → ∀ j, j < c.I.length → s.jobIdx.getD j 0 < (c.I.getD j []).length →
      (o.col .jobs).getD j 0 = estSpec c.I s (j, s.jobIdx.getD j 0) - currentTimePure c s) : ObsVal c s o := by
  constructor
  all_goals first
    | exact fun _ => h0
    | exact fun _ => h1
    | exact fun _ => h2
    | exact fun _ => h3
    | (intro hk'; rw [hk] at hk'; cases hk')

theorem obsVal_duration {c : Cfg} {s : State} {o : FObs} (hk : o.kind = .duration)
    (h1 : FT.operations ∈ o.fts → DurOpsOK c.I s (o.col .operations))
    (h2 : FT.jobs ∈ o.fts → o.col .jobs = durJobsSpec c.I s)
    (h3 : FT.machines ∈ o.fts → o.col .machines = durMachSpec c.I s) : ObsVal c s o := by
  constructor
  all_goals first
    | exact fun _ => h1
    | exact fun _ => h2
    | exact fun _ _ => h3
    | (intro hk'; rw [hk] at hk'; cases hk')

theorem obsVal_isScheduled {c : Cfg} {s : State} {o : FObs} (hk : o.kind = .isScheduled)
    (h1 : FT.operations ∈ o.fts → o.col .operations = schedOpsSpec c.I s)
    (h2 : FT.machines ∈ o.fts → o.col .machines = ongoingMachSpec c s)
    (h3 : FT.jobs ∈ o.fts → o.col .jobs = ongoingJobsSpec c s) : ObsVal c s o := by
  constructor
  all_goals first
    | exact fun _ => h1
    | exact fun _ => h2
    | exact fun _ => h3
    | (intro hk'; rw [hk] at hk'; cases hk')

theorem obsVal_position {c : Cfg} {s : State} {o : FObs} (hk : o.kind = .positionInJob)
    (h1 : FT.operations ∈ o.fts → PosSpecOK c.I s (o.col .operations)) : ObsVal c s o := by
  constructor
  all_goals first
    | exact fun _ => h1
    | (intro hk'; rw [hk] at hk'; cases hk')

theorem obsVal_remaining {c : Cfg} {s : State} {o : FObs} (hk : o.kind = .remainingOps)
    (h1 : FT.jobs ∈ o.fts → o.col .jobs = remJobsSpec c.I s)
    (h2 : FT.machines ∈ o.fts → o.col .machines = remMachSpec c.I s) : ObsVal c s o := by
  constructor
  all_goals first
    | exact fun _ => h1
    | exact fun _ _ => h2
    | (intro hk'; rw [hk] at hk'; cases hk')

theorem obsVal_completed {c : Cfg} {s : State} {o : FObs} (hk : o.kind = .isCompleted)
    (h1 : FT.operations ∈ o.fts → o.col .operations = complOpsSpec c s)
    (h2 : FT.jobs ∈ o.fts → o.remJob = remJobsSpec c.I s ∧ o.col .jobs = complJobsSpec c.I s)
    (h3 : FT.machines ∈ o.fts → o.remMach = remMachSpec c.I s ∧ o.col .machines = complMachSpec c.I s) :
    ObsVal c s o := by
  constructor
  all_goals first
    | exact fun _ => h1
    | exact fun _ => h2
    | exact fun _ => h3
    | (intro hk'; rw [hk] at hk'; cases hk')

/-! ## worlds: entries that are kept, the partial invariant -/

/-- `w'` has `w`'s configuration and dispatcher state, and every heap entry of `w` unchanged -/
structure Keep (w w' : FWorld) : Prop where
  cfg : w'.cfg = w.cfg
  s : w'.s = w.s
  keep : ∀ (k : Nat) (o : FObs), w.heap[k]? = some o → w'.heap[k]? = some o

theorem Keep.refl (w : FWorld) : Keep w w := ⟨rfl, rfl, fun _ _ h => h⟩

theorem Keep.trans {a b c : FWorld} (h1 : Keep a b) (h2 : Keep b c) : Keep a c :=
  ⟨h2.cfg.trans h1.cfg, h2.s.trans h1.s, fun k o h => h2.keep k o (h1.keep k o h)⟩

theorem keep_push (w : FWorld) (o : FObs) : Keep w (w.push o).1 := by
  refine ⟨rfl, rfl, ?_⟩
  intro k o' h
  simp only [FWorld.push]
  rw [List.getElem?_append_left (List.getElem?_eq_some_iff.1 h).1]; exact h

/-- rewriting an id that is new with respect to `w` -/
theorem Keep.setObs {w w1 : FWorld} (h : Keep w w1) (id : Nat) (o : FObs) (hid : w.heap.length ≤ id) :
    Keep w (w1.setObs id o) := by
  refine ⟨h.cfg, h.s, ?_⟩
  intro k o' hk
  have hlt : k < w.heap.length := (List.getElem?_eq_some_iff.1 hk).1
  simp only [FWorld.setObs]
  rw [List.getElem?_set_ne (by omega)]
  exact h.keep k o' hk

theorem push_get {w : FWorld} {o o' : FObs} {k : Nat} (h : (w.push o).1.heap[k]? = some o') :
    w.heap[k]? = some o' ∨ (k = w.heap.length ∧ o' = o) := by
  simp only [FWorld.push] at h
  by_cases hlt : k < w.heap.length
  · rw [List.getElem?_append_left hlt] at h; exact Or.inl h
  · rw [List.getElem?_append_right (by omega)] at h
    cases hc : k - w.heap.length with
    | zero =>
      rw [hc] at h
      simp only [List.getElem?_cons_zero, Option.some.injEq] at h
      exact Or.inr ⟨by omega, h.symm⟩
    | succ n => rw [hc] at h; simp at h

theorem push_get_new (w : FWorld) (o : FObs) : (w.push o).1.heap[w.heap.length]? = some o := by
  simp [FWorld.push]

theorem setObs_get {w : FWorld} {id k : Nat} {o o' : FObs} (h : (w.setObs id o).heap[k]? = some o') :
    (k = id ∧ o' = o) ∨ (k ≠ id ∧ w.heap[k]? = some o') := by
  simp only [FWorld.setObs, List.getElem?_set] at h
  by_cases hik : id = k
  · subst hik
    simp only [↓reduceIte] at h
    split at h
    · exact Or.inl ⟨rfl, by cases h; rfl⟩
    · cases h
  · simp only [hik, ↓reduceIte] at h
    exact Or.inr ⟨fun e => hik e.symm, h⟩

/-- `FInv` without reachability (the state never changes here), and without the value clause for the ids in `ex` -/
structure PInv (w : FWorld) (ex : List Nat) : Prop where
  shape : ShapeOK w
  subs : SubsOK w
  val : ∀ id ∈ w.subs, id ∉ ex → ∀ o, w.heap[id]? = some o → ObsVal w.cfg w.s o

theorem PInv.mono {w : FWorld} {ex ex' : List Nat} (h : PInv w ex) (hsub : ∀ x ∈ ex, x ∈ ex') : PInv w ex' :=
  ⟨h.shape, h.subs, fun id hid hn o ho => h.val id hid (fun hx => hn (hsub id hx)) o ho⟩

theorem pinv_push {w : FWorld} {ex : List Nat} (h : PInv w ex) (o : FObs)
    (hsh : o.kind.single = true → o.Shaped w.cfg.I)
    (hv : w.heap.length ∉ ex → ObsVal w.cfg w.s o) : PInv (w.push o).1 ex := by
  refine ⟨?_, subsOK_push h.subs o, ?_⟩
  · intro k o' hk hs
    rcases push_get hk with h1 | ⟨_, rfl⟩
    · exact h.shape k o' h1 hs
    · exact hsh hs
  · intro id hid hn o' ho'
    rcases push_get ho' with h1 | ⟨rfl, rfl⟩
    · have hlt : id < w.heap.length := (List.getElem?_eq_some_iff.1 h1).1
      have hid' : id ∈ w.subs := by
        simp only [FWorld.push, List.mem_append, List.mem_singleton] at hid
        rcases hid with h2 | h2
        · exact h2
        · omega
      exact h.val id hid' hn o' h1
    · exact hv hn

theorem pinv_setObs {w : FWorld} {ex : List Nat} {id : Nat} (h : PInv w (id :: ex)) (o : FObs)
    (hsh : o.kind.single = true → o.Shaped w.cfg.I)
    (hv : id ∉ ex → ObsVal w.cfg w.s o) : PInv (w.setObs id o) ex := by
  refine ⟨?_, subsOK_setObs h.subs id o, ?_⟩
  · intro k o' hk hs
    rcases setObs_get hk with ⟨_, rfl⟩ | ⟨_, h1⟩
    · exact hsh hs
    · exact h.shape k o' h1 hs
  · intro k hk hn o' ho'
    rcases setObs_get ho' with ⟨rfl, rfl⟩ | ⟨hne, h1⟩
    · exact hv hn
    · exact h.val k hk (by simp [hne, hn]) o' h1

/-! ## the initial state -/

theorem init_sched_flatten (I : Instance) : (init I).sched.flatten = [] := by
  simp only [init]
  apply List.eq_nil_iff_forall_not_mem.2
  intro x hx
  obtain ⟨l, hl, hxl⟩ := List.mem_flatten.1 hx
  rw [(List.mem_replicate.1 hl).2] at hxl
  cases hxl

theorem fullDequesF_eq (I : Instance) : fullDequesF I = dequesSpec I (init I) := by
  simp only [fullDequesF, dequesSpec, init_jobIdx_getD, List.drop_zero]

theorem zeroed_col' (I : Instance) (ft : FT) : ∀ (l : List FT), ft ∈ l →
    (match (l.map fun ft => (ft, [zeros (numEntities I ft)])).find? (fun x => x.1 == ft) with
      | some (_, c :: _) => c
      | _ => []) = zeros (numEntities I ft)
  | [], h => by cases h
  | a :: t, h => by
    simp only [List.map_cons, List.find?_cons]
    by_cases he : a = ft
    · subst he; simp
    · have : (a == ft) = false := by simpa using he
      simp only [this]
      rcases List.mem_cons.1 h with h1 | h1
      · exact absurd h1.symm he
      · exact zeroed_col' I ft t h1

theorem zeroed_col (I : Instance) (o : FObs) (ft : FT) (hft : ft ∈ o.fts) :
    (o.zeroed I).col ft = zeros (numEntities I ft) := by
  unfold FObs.zeroed FObs.col
  exact zeroed_col' I ft o.fts hft

/-! ## lookup -/

theorem findObs_spec {w : FWorld} {kind : FKind} {need : List FT} {id : Nat} (h : w.findObs kind need = some id) :
    id ∈ w.subs ∧ ∃ o, w.heap[id]? = some o ∧ o.kind = kind ∧ ∀ ft ∈ need, ft ∈ o.fts := by
  unfold FWorld.findObs at h
  have hm := List.mem_of_find?_eq_some h
  have := List.find?_some h
  cases ho : w.heap[id]? with
  | none => simp [ho] at this
  | some o =>
    simp only [ho, Bool.and_eq_true, beq_iff_eq, List.all_eq_true, List.contains_eq_mem, decide_eq_true_eq] at this
    exact ⟨hm, o, rfl, this.1, this.2⟩

/-! ## `getUnscheduled` -/

theorem getUnscheduled_spec {w : FWorld} {ex : List Nat} (h : PInv w ex) (hs : w.s = init w.cfg.I)
    (hex : ∀ x ∈ ex, ∀ o, w.heap[x]? = some o → o.kind ≠ .unscheduled) :
    PInv w.getUnscheduled.1 ex ∧ Keep w w.getUnscheduled.1 ∧
    ∃ u, w.getUnscheduled.1.heap[w.getUnscheduled.2]? = some u ∧ u.deques = dequesSpec w.cfg.I w.s := by
  unfold FWorld.getUnscheduled
  cases hf : w.findObs .unscheduled [] with
  | some id =>
    obtain ⟨hm, o, ho, hk, _⟩ := findObs_spec hf
    refine ⟨h, Keep.refl w, o, ho, ?_⟩
    have hn : id ∉ ex := fun hx => hex id hx o ho hk
    exact (h.val id hm hn o ho).unsched hk
  | none =>
    simp only
    have hd : (w.s.sched.flatten.foldl (fun d x => popJobF d x.job) (fullDequesF w.cfg.I)) = dequesSpec w.cfg.I w.s := by
      rw [hs, init_sched_flatten, List.foldl_nil, fullDequesF_eq]
    rw [hd]
    refine ⟨pinv_push h _ (fun hsg => by cases hsg) (fun _ => obsVal_unsched rfl rfl), keep_push w _, _, push_get_new w _, rfl⟩

theorem setObs_get_self {w : FWorld} {id : Nat} {o0 : FObs} (h : w.heap[id]? = some o0) (o : FObs) :
    (w.setObs id o).heap[id]? = some o := by
  have hlt : id < w.heap.length := (List.getElem?_eq_some_iff.1 h).1
  simp [FWorld.setObs, hlt]

/-! ## `newRemaining` / `getRemaining` -/

theorem newRemaining_eq (w : FWorld) (fts : List FT) :
    w.newRemaining fts =
      ((w.push (({ kind := .remainingOps, fts := fts } : FObs).zeroed w.cfg.I)).1.getUnscheduled.1.setObs w.heap.length
        (remainingInit (w.push (({ kind := .remainingOps, fts := fts } : FObs).zeroed w.cfg.I)).1.getUnscheduled.1.cfg
          (((w.push (({ kind := .remainingOps, fts := fts } : FObs).zeroed w.cfg.I)).1.getUnscheduled.1.heap.getD
            (w.push (({ kind := .remainingOps, fts := fts } : FObs).zeroed w.cfg.I)).1.getUnscheduled.2 default).deques)
          ((w.push (({ kind := .remainingOps, fts := fts } : FObs).zeroed w.cfg.I)).1.getUnscheduled.1.heap.getD
            w.heap.length default)), w.heap.length) := rfl

/-- the freshly initialised `RemainingOperationsObserver` -/
theorem remaining_new_val (c : Cfg) (s : State) (hs : s = init c.I) (base : FObs) (hk : base.kind = .remainingOps)
    (hnd : base.fts.Nodup) :
    ObsVal c s (remainingInit c (dequesSpec c.I s) (base.zeroed c.I)) ∧
    (remainingInit c (dequesSpec c.I s) (base.zeroed c.I)).Shaped c.I ∧
    (remainingInit c (dequesSpec c.I s) (base.zeroed c.I)).fts = base.fts ∧
    (remainingInit c (dequesSpec c.I s) (base.zeroed c.I)).kind = .remainingOps := by
  have hwf : WF c.I s := by rw [hs]; exact wf_init c.I
  have hk' := keeps_remainingInit c (dequesSpec c.I s) (zeroed_shaped c.I base hnd)
  obtain ⟨h1, h2, _, h4⟩ := remainingInit_spec c s hwf (base.zeroed c.I) (zeroed_wf c.I base hnd)
    (fun ft hft => zeroed_col c.I base ft hft)
  have hkind : (remainingInit c (dequesSpec c.I s) (base.zeroed c.I)).kind = .remainingOps := hk'.kind.trans hk
  refine ⟨obsVal_remaining hkind (fun hft => h1 (h4 ▸ hft)) (fun hft => h2 (h4 ▸ hft)), hk'.shaped, h4, hkind⟩

theorem newRemaining_spec {w : FWorld} {ex : List Nat} (h : PInv w ex) (hs : w.s = init w.cfg.I)
    (hex : ∀ x ∈ ex, ∀ o, w.heap[x]? = some o → o.kind ≠ .unscheduled) (fts : List FT) (hnd : fts.Nodup) :
    PInv (w.newRemaining fts).1 ex ∧ Keep w (w.newRemaining fts).1 ∧
    ∃ r, (w.newRemaining fts).1.heap[(w.newRemaining fts).2]? = some r ∧ r.kind = .remainingOps ∧ r.fts = fts ∧
      ObsVal w.cfg w.s r := by
  rw [newRemaining_eq]
  simp only
  generalize hbase : ({ kind := .remainingOps, fts := fts } : FObs) = b0
  have hb0k : b0.kind = .remainingOps := by rw [← hbase]
  have hb0f : b0.fts = fts := by rw [← hbase]
  have hb0nd : b0.fts.Nodup := by rw [hb0f]; exact hnd
  have h0 : PInv w (w.heap.length :: ex) := h.mono (fun x hx => by simp [hx])
  have h1 : PInv (w.push (b0.zeroed w.cfg.I)).1 (w.heap.length :: ex) :=
    pinv_push h0 _ (fun _ => zeroed_shaped _ _ hb0nd) (fun hn => absurd (by simp) hn)
  have hex1 : ∀ x ∈ w.heap.length :: ex, ∀ o, (w.push (b0.zeroed w.cfg.I)).1.heap[x]? = some o → o.kind ≠ .unscheduled := by
    intro x hx o ho
    rcases push_get ho with h2 | ⟨_, rfl⟩
    · rcases List.mem_cons.1 hx with rfl | hx
      · have := (List.getElem?_eq_some_iff.1 h2).1; omega
      · exact hex x hx o h2
    · show b0.kind ≠ .unscheduled
      rw [hb0k]; simp
  obtain ⟨h2, k2, u, hu, hud⟩ := getUnscheduled_spec h1 hs hex1
  have g2 := k2.keep _ _ (push_get_new w (b0.zeroed w.cfg.I))
  have kk := (keep_push w (b0.zeroed w.cfg.I)).trans k2
  generalize (w.push (b0.zeroed w.cfg.I)).1.getUnscheduled = r2 at h2 k2 u hu hud g2 kk
  obtain ⟨w2, uid⟩ := r2
  simp only at h2 k2 hu hud g2 kk ⊢
  have hc2 : w2.cfg = w.cfg := kk.cfg
  have hs2 : w2.s = w.s := kk.s
  rw [getD_of_some g2, getD_of_some hu, hud, hc2]
  obtain ⟨v1, v2, v3, v4⟩ := remaining_new_val w.cfg w.s hs b0 hb0k hb0nd
  show PInv (w2.setObs w.heap.length (remainingInit w.cfg (dequesSpec w.cfg.I w.s) (b0.zeroed w.cfg.I))) ex ∧ _
  refine ⟨pinv_setObs h2 _ (fun _ => by rw [hc2]; exact v2) (fun _ => by rw [hc2, hs2]; exact v1),
    kk.setObs _ _ (Nat.le_refl _), _, setObs_get_self g2 _, v4, v3.trans hb0f, v1⟩

theorem getRemaining_spec {w : FWorld} {ex : List Nat} (h : PInv w ex) (hs : w.s = init w.cfg.I)
    (hex : ∀ x ∈ ex, ∀ o, w.heap[x]? = some o → o.kind ≠ .unscheduled ∧ o.kind ≠ .remainingOps)
    (need : List FT) (hnd : need.Nodup) :
    PInv (w.getRemaining need).1 ex ∧ Keep w (w.getRemaining need).1 ∧
    ∃ r, (w.getRemaining need).1.heap[(w.getRemaining need).2]? = some r ∧ r.kind = .remainingOps ∧
      (∀ ft ∈ need, ft ∈ r.fts) ∧ ObsVal w.cfg w.s r := by
  unfold FWorld.getRemaining
  cases hf : w.findObs .remainingOps need with
  | some id =>
    obtain ⟨hm, o, ho, hk, hn⟩ := findObs_spec hf
    have hne : id ∉ ex := fun hx => (hex id hx o ho).2 hk
    exact ⟨h, Keep.refl w, o, ho, hk, hn, h.val id hm hne o ho⟩
  | none =>
    obtain ⟨a, b, r, hr, hk, hf, hv⟩ := newRemaining_spec h hs (fun x hx o ho => (hex x hx o ho).1) need hnd
    exact ⟨a, b, r, hr, hk, fun ft hft => hf ▸ hft, hv⟩

/-! ## `isCompletedInit` / `getIsCompleted` -/

/-- the freshly initialised `IsCompletedObserver`, given its (correct) remaining-operations helper -/
theorem completed_new_val (c : Cfg) (s : State) (hs : s = init c.I) (o r : FObs) (hk : o.kind = .isCompleted)
    (hkr : r.kind = .remainingOps) (hr : ObsVal c s r)
    (hneed : ∀ ft ∈ (o.zeroed c.I).fts.filter (· != .operations), ft ∈ r.fts) :
    ObsVal c s { (o.zeroed c.I) with
      remJob := if (o.zeroed c.I).has .jobs then r.col .jobs else (o.zeroed c.I).remJob,
      remMach := if (o.zeroed c.I).has .machines then r.col .machines else (o.zeroed c.I).remMach } := by
  subst hs
  obtain ⟨c1, c2⟩ := complSpecs_init c
  refine obsVal_completed ?_ ?_ ?_ ?_
  · exact hk
  · intro hft0
    have hft : FT.operations ∈ o.fts := hft0
    show (o.zeroed c.I).col .operations = _
    rw [zeroed_col _ _ _ hft, c1]; rfl
  · intro hft0
    have hft : FT.jobs ∈ o.fts := hft0
    have hm : (o.zeroed c.I).has .jobs = true := mem_has hft
    refine ⟨?_, ?_⟩
    · show (if (o.zeroed c.I).has .jobs = true then r.col .jobs else _) = _
      rw [if_pos hm]
      exact hr.remJobs hkr (hneed _ (List.mem_filter.2 ⟨hft, by decide⟩))
    · show (o.zeroed c.I).col .jobs = _
      rw [zeroed_col _ _ _ hft, c2]; rfl
  · intro hft0
    have hft : FT.machines ∈ o.fts := hft0
    have hm : (o.zeroed c.I).has .machines = true := mem_has hft
    refine ⟨?_, ?_⟩
    · show (if (o.zeroed c.I).has .machines = true then r.col .machines else _) = _
      rw [if_pos hm]
      exact hr.remMach hkr (Or.inr rfl) (hneed _ (List.mem_filter.2 ⟨hft, by decide⟩))
    · show (o.zeroed c.I).col .machines = _
      rw [zeroed_col _ _ _ hft, complMachSpec_init]; rfl

theorem isCompletedInit_eq (w : FWorld) (id : Nat) :
    w.isCompletedInit id =
      ((w.setObs id ((w.heap.getD id default).zeroed w.cfg.I)).getRemaining
          (((w.heap.getD id default).zeroed w.cfg.I).fts.filter (· != .operations))).1.setObs id
        { (((w.setObs id ((w.heap.getD id default).zeroed w.cfg.I)).getRemaining
            (((w.heap.getD id default).zeroed w.cfg.I).fts.filter (· != .operations))).1.heap.getD id default) with
          remJob := if (((w.setObs id ((w.heap.getD id default).zeroed w.cfg.I)).getRemaining
              (((w.heap.getD id default).zeroed w.cfg.I).fts.filter (· != .operations))).1.heap.getD id default).has .jobs
            then (((w.setObs id ((w.heap.getD id default).zeroed w.cfg.I)).getRemaining
              (((w.heap.getD id default).zeroed w.cfg.I).fts.filter (· != .operations))).1.heap.getD
                ((w.setObs id ((w.heap.getD id default).zeroed w.cfg.I)).getRemaining
                  (((w.heap.getD id default).zeroed w.cfg.I).fts.filter (· != .operations))).2 default).col .jobs
            else (((w.setObs id ((w.heap.getD id default).zeroed w.cfg.I)).getRemaining
              (((w.heap.getD id default).zeroed w.cfg.I).fts.filter (· != .operations))).1.heap.getD id default).remJob,
          remMach := if (((w.setObs id ((w.heap.getD id default).zeroed w.cfg.I)).getRemaining
              (((w.heap.getD id default).zeroed w.cfg.I).fts.filter (· != .operations))).1.heap.getD id default).has .machines
            then (((w.setObs id ((w.heap.getD id default).zeroed w.cfg.I)).getRemaining
              (((w.heap.getD id default).zeroed w.cfg.I).fts.filter (· != .operations))).1.heap.getD
                ((w.setObs id ((w.heap.getD id default).zeroed w.cfg.I)).getRemaining
                  (((w.heap.getD id default).zeroed w.cfg.I).fts.filter (· != .operations))).2 default).col .machines
            else (((w.setObs id ((w.heap.getD id default).zeroed w.cfg.I)).getRemaining
              (((w.heap.getD id default).zeroed w.cfg.I).fts.filter (· != .operations))).1.heap.getD id default).remMach } := rfl

theorem isCompletedInit_spec {w : FWorld} {ex : List Nat} {id : Nat} {o0 : FObs} (h : PInv w (id :: ex))
    (hs : w.s = init w.cfg.I)
    (hex : ∀ x ∈ ex, ∀ o, w.heap[x]? = some o → o.kind ≠ .unscheduled ∧ o.kind ≠ .remainingOps)
    (h0 : w.heap[id]? = some o0) (hk0 : o0.kind = .isCompleted) :
    PInv (w.isCompletedInit id) ex ∧ (w.isCompletedInit id).cfg = w.cfg ∧ (w.isCompletedInit id).s = w.s := by
  rw [isCompletedInit_eq, getD_of_some h0]
  have hsh0 : o0.Shaped w.cfg.I := h.shape id o0 h0 (by rw [hk0]; rfl)
  have hnd0 : o0.fts.Nodup := hsh0.wf.nodup
  have hz : (o0.zeroed w.cfg.I).Shaped w.cfg.I := zeroed_shaped _ _ hnd0
  have h1 : PInv (w.setObs id (o0.zeroed w.cfg.I)) (id :: ex) :=
    pinv_setObs (h.mono (fun x hx => by simp [List.mem_cons.1 hx])) _ (fun _ => hz) (fun hn => absurd (by simp) hn)
  have hex1 : ∀ x ∈ id :: ex, ∀ o, (w.setObs id (o0.zeroed w.cfg.I)).heap[x]? = some o →
      o.kind ≠ .unscheduled ∧ o.kind ≠ .remainingOps := by
    intro x hx o ho
    rcases setObs_get ho with ⟨_, rfl⟩ | ⟨hne, h2⟩
    · show o0.kind ≠ _ ∧ o0.kind ≠ _
      rw [hk0]; simp
    · rcases List.mem_cons.1 hx with rfl | hx
      · exact absurd rfl hne
      · exact hex x hx o h2
  obtain ⟨h2, k2, r, hr, hkr, hneed, hvr⟩ := getRemaining_spec h1 hs hex1
    ((o0.zeroed w.cfg.I).fts.filter (· != .operations)) (hnd0.filter _)
  have g2 := k2.keep _ _ (setObs_get_self h0 (o0.zeroed w.cfg.I))
  generalize (w.setObs id (o0.zeroed w.cfg.I)).getRemaining ((o0.zeroed w.cfg.I).fts.filter (· != .operations)) = r2
    at h2 k2 r hr hkr hneed hvr g2
  obtain ⟨w2, rid⟩ := r2
  simp only at h2 k2 hr g2 ⊢
  have hc2 : w2.cfg = w.cfg := k2.cfg
  have hs2 : w2.s = w.s := k2.s
  rw [getD_of_some g2, getD_of_some hr]
  have hv := completed_new_val w.cfg w.s hs o0 r hk0 hkr hvr hneed
  refine ⟨pinv_setObs h2 _ (fun _ => ?_) (fun _ => by rw [hc2, hs2]; exact hv), hc2, hs2⟩
  rw [hc2]
  exact (keeps_withRem hz _ _).shaped

theorem getIsCompleted_spec {w : FWorld} (h : PInv w []) (hs : w.s = init w.cfg.I) (need : List FT) (hnd : need.Nodup) :
    PInv (w.getIsCompleted need).1 [] ∧ (w.getIsCompleted need).1.cfg = w.cfg ∧ (w.getIsCompleted need).1.s = w.s := by
  unfold FWorld.getIsCompleted
  cases w.findObs .isCompleted need with
  | some id => exact ⟨h, rfl, rfl⟩
  | none =>
    simp only
    generalize hbase : ({ kind := .isCompleted, fts := need } : FObs) = b0
    have hb0k : b0.kind = .isCompleted := by rw [← hbase]
    have hb0nd : b0.fts.Nodup := by rw [← hbase]; exact hnd
    have h1 : PInv (w.push (b0.zeroed w.cfg.I)).1 [w.heap.length] :=
      pinv_push (h.mono (fun x hx => by cases hx)) _ (fun _ => zeroed_shaped _ _ hb0nd) (fun hn => absurd (by simp) hn)
    exact isCompletedInit_spec h1 hs (fun x hx => by cases hx) (push_get_new w _) hb0k

/-! ## the freshly initialised single-column observers -/

theorem assignCols_est (o : FObs) (g : FObs → FT → List Int) : (o.assignCols g).est = o.est := by
  unfold FObs.assignCols
  have : ∀ (l : List FT) (o : FObs), (l.foldl (fun o ft => o.setCol ft (g o ft)) o).est = o.est := by
    intro l
    induction l with
    | nil => intro o; rfl
    | cons a t ih => intro o; simp only [List.foldl_cons]; rw [ih]; rfl
  exact this o.fts o

theorem ready_new_val (c : Cfg) (s : State) (b : FObs) (hk : b.kind = .isReady) (hnd : b.fts.Nodup) :
    ObsVal c s (isReadyFeatures c s (b.zeroed c.I)) ∧ (isReadyFeatures c s (b.zeroed c.I)).Shaped c.I := by
  have hk' := keeps_isReadyFeatures c s (zeroed_shaped c.I b hnd)
  refine ⟨obsVal_isReady (hk'.kind.trans hk) ?_, hk'.shaped⟩
  intro ft hft
  rw [hk'.fts] at hft
  exact C11_isReady c s (b.zeroed c.I) hnd ft hft

theorem estCol_indep (c : Cfg) (s : State) (o : FObs) (ft ft' : FT) (cc : List Int) (hne : ft ≠ ft') :
    estCol c s (o.setCol ft' cc) ft = estCol c s o ft := by
  cases ft
  · rfl
  · rfl
  · simp only [estCol, col_setCol_other _ _ _ _ hne]
    rfl

theorem est_new_val (c : Cfg) (s : State) (hs : s = init c.I) (hv : Valid c.I) (b : FObs) (hk : b.kind = .earliestStart)
    (hnd : b.fts.Nodup) (he : b.est = estInitial c.I) :
    ObsVal c s (estFeatures c s (b.zeroed c.I)) ∧ (estFeatures c s (b.zeroed c.I)).Shaped c.I := by
  have hw := zeroed_wf c.I b hnd
  have hk' := keeps_estFeatures c s (zeroed_shaped c.I b hnd)
  have hok : EstOK c.I s (b.zeroed c.I).est := by
    subst hs
    rw [show (b.zeroed c.I).est = b.est from rfl, he]
    exact estInitial_spec c.I hv
  have hest : (estFeatures c s (b.zeroed c.I)).est = (b.zeroed c.I).est := by
    unfold estFeatures; rw [assignCols_est]
  have hcol : ∀ ft ∈ (b.zeroed c.I).fts, (estFeatures c s (b.zeroed c.I)).col ft = estCol c s (b.zeroed c.I) ft :=
    fun ft hft => (assignCols_col _ _ hw (fun o ft ft' cc hne => estCol_indep c s o ft ft' cc hne) ft hft).1
  refine ⟨obsVal_est (hk'.kind.trans hk) ?_ ?_ ?_ ?_, hk'.shaped⟩
  · rw [hest]; exact hok
  · intro hft r hr
    rw [hk'.fts] at hft
    rw [hcol _ hft]
    exact estCol_ops c s _ hok r hr
  · intro hft m hm
    rw [hk'.fts] at hft
    rw [hcol _ hft]
    exact estCol_machines c s _ hok m hm
  · intro hft j hj hlt
    rw [hk'.fts] at hft
    rw [hcol _ hft]
    exact estCol_jobs c s _ hok j hj hlt

theorem duration_new_val (c : Cfg) (s : State) (b : FObs) (hk : b.kind = .duration) (hnd : b.fts.Nodup) :
    ObsVal c s (durationInit c s (b.zeroed c.I)) ∧ (durationInit c s (b.zeroed c.I)).Shaped c.I := by
  have hw := zeroed_wf c.I b hnd
  have hk' := keeps_durationInit c s (zeroed_shaped c.I b hnd)
  refine ⟨obsVal_duration (hk'.kind.trans hk) ?_ ?_ ?_, hk'.shaped⟩
  · intro hft
    rw [hk'.fts] at hft
    exact durationInit_ops c s _ hw hft
  · intro hft
    rw [hk'.fts] at hft
    exact (durationInit_jobs c s _ hw hft).1
  · intro hft
    rw [hk'.fts] at hft
    exact durationInit_machines c s _ hw hft

theorem schedOpsSpec_init (I : Instance) : schedOpsSpec I (init I) = zeros (numOps I) := by
  unfold schedOpsSpec zeros
  apply List.ext_getElem
  · simp [length_allOps]
  · intro k h1 h2
    simp only [List.getElem_map, List.getElem_replicate, isScheduled, init_jobIdx_getD]
    simp

theorem scheduled_new_val (c : Cfg) (s : State) (hs : s = init c.I) (b : FObs) (hk : b.kind = .isScheduled)
    (hnd : b.fts.Nodup) :
    ObsVal c s (b.zeroed c.I) ∧ (b.zeroed c.I).Shaped c.I := by
  subst hs
  obtain ⟨g1, g2⟩ := ongoingSpecs_init c
  refine ⟨obsVal_isScheduled hk ?_ ?_ ?_, zeroed_shaped c.I b hnd⟩
  · intro hft
    rw [zeroed_col c.I b _ hft, schedOpsSpec_init]; rfl
  · intro hft
    rw [zeroed_col c.I b _ hft, g1]; rfl
  · intro hft
    rw [zeroed_col c.I b _ hft, g2]; rfl

theorem position_new_val (c : Cfg) (s : State) (hs : s = init c.I) (b : FObs) (hk : b.kind = .positionInJob)
    (hnd : b.fts.Nodup) :
    ObsVal c s (positionInit c s (b.zeroed c.I)) ∧ (positionInit c s (b.zeroed c.I)).Shaped c.I := by
  subst hs
  have hw := zeroed_wf c.I b hnd
  have hk' := keeps_positionInit c (init c.I) (zeroed_shaped c.I b hnd)
  refine ⟨obsVal_position (hk'.kind.trans hk) ?_, hk'.shaped⟩
  intro hft
  rw [hk'.fts] at hft
  refine (positionInit_spec c _ hw hft ?_).1
  rw [zeroed_col c.I b _ hft]
  simp [zeros, numEntities]

/-! ## `construct` -/

theorem pushThen_spec {w : FWorld} (h : PInv w []) (base final : FObs)
    (hb : base.kind.single = true → base.Shaped w.cfg.I)
    (hsh : final.kind.single = true → final.Shaped w.cfg.I) (hv : ObsVal w.cfg w.s final) :
    PInv ((w.push base).1.setObs (w.push base).2 final) [] := by
  have h1 : PInv (w.push base).1 [w.heap.length] :=
    pinv_push (h.mono (fun x hx => by cases hx)) base hb (fun hn => absurd (by simp) hn)
  exact pinv_setObs h1 final hsh (fun _ => hv)

/-- `RemainingOperationsObserver(...)`: push, get the helper, initialise -/
theorem remainingCtor_spec {w : FWorld} (h : PInv w []) (hs : w.s = init w.cfg.I) (b : FObs)
    (hbk : b.kind = .remainingOps) (hbf : b.fts.Nodup) :
    PInv ((w.push (b.zeroed w.cfg.I)).1.getUnscheduled.1.setObs (w.push (b.zeroed w.cfg.I)).2
      (remainingInit (w.push (b.zeroed w.cfg.I)).1.getUnscheduled.1.cfg
        ((w.push (b.zeroed w.cfg.I)).1.getUnscheduled.1.heap.getD (w.push (b.zeroed w.cfg.I)).1.getUnscheduled.2 default).deques
        (b.zeroed w.cfg.I))) [] := by
  have h1 : PInv (w.push (b.zeroed w.cfg.I)).1 [w.heap.length] :=
    pinv_push (h.mono (fun x hx => by cases hx)) _ (fun _ => zeroed_shaped _ _ hbf) (fun hn => absurd (by simp) hn)
  have hex1 : ∀ x ∈ [w.heap.length], ∀ o, (w.push (b.zeroed w.cfg.I)).1.heap[x]? = some o → o.kind ≠ .unscheduled := by
    intro x hx o ho
    rcases push_get ho with h2 | ⟨_, rfl⟩
    · rw [List.mem_singleton] at hx
      subst hx
      have := (List.getElem?_eq_some_iff.1 h2).1; omega
    · show b.kind ≠ .unscheduled
      rw [hbk]; simp
  obtain ⟨h2, k2, u, hu, hud⟩ := getUnscheduled_spec h1 hs hex1
  have kk := (keep_push w (b.zeroed w.cfg.I)).trans k2
  show PInv ((w.push (b.zeroed w.cfg.I)).1.getUnscheduled.1.setObs w.heap.length _) []
  generalize (w.push (b.zeroed w.cfg.I)).1.getUnscheduled = r2 at h2 k2 u hu hud kk
  obtain ⟨w2, uid⟩ := r2
  simp only at h2 k2 hu hud kk ⊢
  have hc2 : w2.cfg = w.cfg := kk.cfg
  have hs2 : w2.s = w.s := kk.s
  rw [getD_of_some hu, hud, hc2]
  obtain ⟨v1, v2, _, _⟩ := remaining_new_val w.cfg w.s hs b hbk hbf
  exact pinv_setObs h2 _ (fun _ => by rw [hc2]; exact v2) (fun _ => by rw [hc2, hs2]; exact v1)

theorem construct_feature_spec {w : FWorld} (h : PInv w []) (hv : Valid w.cfg.I) (hs : w.s = init w.cfg.I)
    (kind : FKind) (hsg : kind.single = true) (fts : Option (List FT)) (hnd : ∀ l, fts = some l → l.Nodup) :
    PInv (w.construct kind fts).1 [] := by
  cases hr : resolveFts kind fts with
  | none =>
    have : w.construct kind fts = (w, none) := by
      cases kind <;> simp [FKind.single] at hsg <;> simp [FWorld.construct, hr]
    rw [this]; exact h
  | some l =>
    have hl := resolveFts_nodup hnd hr
    generalize hb : ({ kind := kind, fts := l, est := if kind == .earliestStart then estInitial w.cfg.I else [] } : FObs) = b
    have hbk : b.kind = kind := by rw [← hb]
    have hbf : b.fts.Nodup := by rw [← hb]; exact hl
    have hbe : b.est = if kind == .earliestStart then estInitial w.cfg.I else [] := by rw [← hb]
    have hz : (b.zeroed w.cfg.I).kind.single = true → (b.zeroed w.cfg.I).Shaped w.cfg.I := fun _ => zeroed_shaped _ _ hbf
    cases kind <;> simp [FKind.single] at hsg
    · -- isReady
      have e : w.construct .isReady fts = ((w.push (b.zeroed w.cfg.I)).1.setObs (w.push (b.zeroed w.cfg.I)).2
          (isReadyFeatures w.cfg w.s (b.zeroed w.cfg.I)), some (w.push (b.zeroed w.cfg.I)).2) := by
        rw [← hb]; unfold FWorld.construct; simp only [hr] <;> rfl
      rw [e]
      obtain ⟨v1, v2⟩ := ready_new_val w.cfg w.s b hbk hbf
      exact pushThen_spec h _ _ hz (fun _ => v2) v1
    · -- earliestStart
      have e : w.construct .earliestStart fts = ((w.push (b.zeroed w.cfg.I)).1.setObs (w.push (b.zeroed w.cfg.I)).2
          (estFeatures w.cfg w.s (b.zeroed w.cfg.I)), some (w.push (b.zeroed w.cfg.I)).2) := by
        rw [← hb]; unfold FWorld.construct; simp only [hr] <;> rfl
      rw [e]
      obtain ⟨v1, v2⟩ := est_new_val w.cfg w.s hs hv b hbk hbf (by simpa using hbe)
      exact pushThen_spec h _ _ hz (fun _ => v2) v1
    · -- duration
      have e : w.construct .duration fts = ((w.push (b.zeroed w.cfg.I)).1.setObs (w.push (b.zeroed w.cfg.I)).2
          (durationInit w.cfg w.s (b.zeroed w.cfg.I)), some (w.push (b.zeroed w.cfg.I)).2) := by
        rw [← hb]; unfold FWorld.construct; simp only [hr] <;> rfl
      rw [e]
      obtain ⟨v1, v2⟩ := duration_new_val w.cfg w.s b hbk hbf
      exact pushThen_spec h _ _ hz (fun _ => v2) v1
    · -- isScheduled
      have e : w.construct .isScheduled fts = ((w.push (b.zeroed w.cfg.I)).1, some (w.push (b.zeroed w.cfg.I)).2) := by
        rw [← hb]; unfold FWorld.construct; simp only [hr] <;> rfl
      rw [e]
      obtain ⟨v1, v2⟩ := scheduled_new_val w.cfg w.s hs b hbk hbf
      exact pinv_push h _ hz (fun _ => v1)
    · -- positionInJob
      have e : w.construct .positionInJob fts = ((w.push (b.zeroed w.cfg.I)).1.setObs (w.push (b.zeroed w.cfg.I)).2
          (positionInit w.cfg w.s (b.zeroed w.cfg.I)), some (w.push (b.zeroed w.cfg.I)).2) := by
        rw [← hb]; unfold FWorld.construct; simp only [hr] <;> rfl
      rw [e]
      obtain ⟨v1, v2⟩ := position_new_val w.cfg w.s hs b hbk hbf
      exact pushThen_spec h _ _ hz (fun _ => v2) v1
    · -- remainingOps
      have e : w.construct .remainingOps fts =
          ((w.push (b.zeroed w.cfg.I)).1.getUnscheduled.1.setObs (w.push (b.zeroed w.cfg.I)).2
            (remainingInit (w.push (b.zeroed w.cfg.I)).1.getUnscheduled.1.cfg
              ((w.push (b.zeroed w.cfg.I)).1.getUnscheduled.1.heap.getD (w.push (b.zeroed w.cfg.I)).1.getUnscheduled.2 default).deques
              (b.zeroed w.cfg.I)),
           some (w.push (b.zeroed w.cfg.I)).2) := by
        rw [← hb]; unfold FWorld.construct; simp only [hr] <;> rfl
      rw [e]
      exact remainingCtor_spec h hs b hbk hbf
    · -- isCompleted
      have e : w.construct .isCompleted fts =
          ((w.push (b.zeroed w.cfg.I)).1.isCompletedInit (w.push (b.zeroed w.cfg.I)).2, some (w.push (b.zeroed w.cfg.I)).2) := by
        rw [← hb]; unfold FWorld.construct; simp only [hr] <;> rfl
      rw [e]
      have h1 : PInv (w.push (b.zeroed w.cfg.I)).1 [w.heap.length] :=
        pinv_push (h.mono (fun x hx => by cases hx)) _ hz (fun hn => absurd (by simp) hn)
      exact (isCompletedInit_spec h1 hs (fun x hx => by cases hx) (push_get_new w _) hbk).1

theorem construct_plain_spec {w : FWorld} (h : PInv w []) (hs : w.s = init w.cfg.I) (kind : FKind)
    (hk : kind = .unscheduled ∨ kind = .history ∨ kind = .makespanReward ∨ kind = .idleReward) (fts : Option (List FT)) :
    PInv (w.construct kind fts).1 [] := by
  have hd : (w.s.sched.flatten.foldl (fun d x => popJobF d x.job) (fullDequesF w.cfg.I)) = dequesSpec w.cfg.I w.s := by
    rw [hs, init_sched_flatten, List.foldl_nil, fullDequesF_eq]
  rcases hk with rfl | rfl | rfl | rfl
  all_goals
    simp only [FWorld.construct]
    split
    · exact h
    · first
        | exact pinv_push h _ (fun hsg => by cases hsg) (fun _ => obsVal_unsched rfl hd)
        | exact pinv_push h _ (fun hsg => by cases hsg) (fun _ => obsVal_plain rfl (by simp))

theorem construct_spec {w : FWorld} (h : PInv w []) (hv : Valid w.cfg.I) (hs : w.s = init w.cfg.I) (kind : FKind)
    (fts : Option (List FT)) (hnd : ∀ l, fts = some l → l.Nodup) : PInv (w.construct kind fts).1 [] := by
  cases kind
  case composite => exact h
  case residual => exact h
  case unscheduled => exact construct_plain_spec h hs _ (Or.inl rfl) fts
  case history => exact construct_plain_spec h hs _ (Or.inr (Or.inl rfl)) fts
  case makespanReward => exact construct_plain_spec h hs _ (Or.inr (Or.inr (Or.inl rfl))) fts
  case idleReward => exact construct_plain_spec h hs _ (Or.inr (Or.inr (Or.inr rfl))) fts
  all_goals exact construct_feature_spec h hv hs _ rfl fts hnd

/-! ## `constructComposite`, `constructResidual` -/

theorem constructComposite_spec {w : FWorld} (h : PInv w []) (parts : Option (List Nat)) :
    PInv (w.constructComposite parts).1 [] := by
  unfold FWorld.constructComposite
  simp only
  exact pushThen_spec h _ _ (fun hsg => by cases hsg) (fun hsg => by cases hsg) (obsVal_plain rfl (by simp))

theorem constructResidual_spec {w : FWorld} (h : PInv w []) (hs : w.s = init w.cfg.I) (g : Graph) (rm rj : Bool) :
    PInv (w.constructResidual g rm rj).1 [] := by
  unfold FWorld.constructResidual
  by_cases h1 : (w.subs.any fun id => (w.heap[id]?.map (·.kind)) == some FKind.residual) = true
  · rw [if_pos h1]; exact h
  · rw [if_neg h1]
    simp only
    have hnd : ((if rm then [FT.machines] else []) ++ (if rj then [FT.jobs] else [])).Nodup := by
      cases rm <;> cases rj <;> decide
    generalize ((if rm then [FT.machines] else []) ++ (if rj then [FT.jobs] else [])) = need at hnd
    by_cases h2 : need.isEmpty = true
    · rw [if_pos h2]
      exact pinv_push h _ (fun hsg => by cases hsg) (fun _ => obsVal_plain rfl (by simp))
    · rw [if_neg h2]
      obtain ⟨a, _, _⟩ := getIsCompleted_spec h hs need hnd
      exact pinv_push a _ (fun hsg => by cases hsg) (fun _ => obsVal_plain rfl (by simp))

theorem pinv_of_finv {w : FWorld} (h : FInv w) : PInv w [] :=
  ⟨h.shape, h.subs, fun id hid _ o ho => h.val id hid o ho⟩

theorem finv_of_pinv {w w' : FWorld} (h : FInv w) (hp : PInv w' []) (hc : w'.cfg = w.cfg) (hs : w'.s = w.s) : FInv w' := by
  refine ⟨hp.shape, hp.subs, ?_, fun id hid o ho => hp.val id hid (by simp) o ho⟩
  obtain ⟨evs, he⟩ := h.reach
  exact ⟨evs, by rw [hs, hc, he]⟩

end FCtor

/-- the world without observers satisfies the invariant -/
theorem finv_init (c : Cfg) : FInv (FWorld.init c) ∧ (FWorld.init c).s = init c.I := by
  refine ⟨⟨?_, subsOK_init c, ⟨[], rfl⟩, ?_⟩, rfl⟩
  · intro k o h
    simp [FWorld.init] at h
  · intro id hid
    simp [FWorld.init] at hid

/-- constructing any observer on a dispatcher that is still in its initial state preserves the invariant
(explicit feature-type lists without repetitions: a repeated feature type breaks `ShapeOK`) -/
theorem finv_ctor {w : FWorld} (hv : Valid w.cfg.I) (h : FInv w) (hs : w.s = init w.cfg.I) (e : FEv)
    (he : e.isCtor = true) (hnd : ∀ k l, e = .construct k (some l) → l.Nodup) :
    FInv (w.step e) ∧ (w.step e).s = init w.cfg.I ∧ (w.step e).cfg = w.cfg := by
  have hp := FCtor.pinv_of_finv h
  cases e with
  | disp j p m => cases he
  | reset => cases he
  | construct k fts =>
    have g := (good_construct w k fts).st
    have hp' := FCtor.construct_spec hp hv hs k fts (fun l hl => hnd k l (by rw [hl]))
    exact ⟨FCtor.finv_of_pinv h hp' g.1 g.2, g.2.trans hs, g.1⟩
  | composite parts =>
    have g := (good_constructComposite w parts).st
    have hp' := FCtor.constructComposite_spec hp parts
    exact ⟨FCtor.finv_of_pinv h hp' g.1 g.2, g.2.trans hs, g.1⟩
  | residual b rm rj =>
    have g := (good_constructResidual w (build b w.cfg.I) rm rj).st
    have hp' := FCtor.constructResidual_spec hp hs (build b w.cfg.I) rm rj
    exact ⟨FCtor.finv_of_pinv h hp' g.1 g.2, g.2.trans hs, g.1⟩

end JS

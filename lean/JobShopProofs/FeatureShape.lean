import JobShopProofs.FeatureLemmas
import JobShopProofs.Properties.C01
/-!
# Feature matrices keep their shape

Every callback of every single-column feature observer (initialise, update, reset) keeps the observer's kind, its
feature types and the shape of every matrix: one column of `numEntities I ft` entries per observed feature type.
numpy gives this for free (arrays are allocated once and written in place); in the list model it is a theorem.
-/
namespace JS

/-- one column of the right length per observed feature type -/
structure FObs.Shaped (I : Instance) (o : FObs) : Prop where
  wf : o.WF
  one : ∀ ft cs, (ft, cs) ∈ o.cols → ∃ c, cs = [c] ∧ c.length = numEntities I ft

theorem setAt_length (l : List Int) (i : Nat) (v : Int) : (setAt l i v).length = l.length := by simp [setAt]
theorem addAt_length (l : List Int) (i : Nat) (v : Int) : (addAt l i v).length = l.length := by simp [addAt]
theorem indicator_length (n : Nat) (ids : List Nat) : (indicator n ids).length = n := by simp [indicator]
theorem zeros_length (n : Nat) : (zeros n).length = n := by simp [zeros]

theorem foldl_length {α} (f : List Int → α → List Int) (hf : ∀ l a, (f l a).length = l.length) :
    ∀ (xs : List α) (l : List Int), (xs.foldl f l).length = l.length
  | [], _ => rfl
  | a :: t, l => by simp only [List.foldl_cons]; rw [foldl_length f hf t, hf]

theorem find_key_mem (ft : FT) : ∀ (l : List (FT × List (List Int))) (x : FT × List (List Int)),
    l.find? (·.1 == ft) = some x → x ∈ l ∧ x.1 = ft := by
  intro l x h
  exact ⟨List.mem_of_find?_eq_some h, by simpa using List.find?_some h⟩

theorem FObs.Shaped.col_length {I : Instance} {o : FObs} (h : o.Shaped I) {ft : FT} (hft : ft ∈ o.fts) :
    (o.col ft).length = numEntities I ft := by
  obtain ⟨cs, hcs⟩ := h.wf.has_col hft
  unfold FObs.col
  cases hf : o.cols.find? (·.1 == ft) with
  | none =>
    have := List.find?_eq_none.1 hf (ft, cs) hcs
    simp at this
  | some x =>
    obtain ⟨hx, hk⟩ := find_key_mem ft o.cols x hf
    obtain ⟨t, cs'⟩ := x
    simp only at hk; subst hk
    obtain ⟨c, rfl, hc⟩ := h.one t cs' hx
    simpa using hc

theorem FObs.Shaped.setCol {I : Instance} {o : FObs} (h : o.Shaped I) (ft : FT) (c : List Int)
    (hc : c.length = numEntities I ft) : (o.setCol ft c).Shaped I := by
  refine ⟨h.wf.setCol ft c, ?_⟩
  intro t cs hmem
  unfold FObs.setCol at hmem
  simp only at hmem
  rw [List.mem_map] at hmem
  obtain ⟨x0, h0, heq⟩ := hmem
  by_cases hk : (x0.1 == ft) = true
  · rw [if_pos hk] at heq
    cases heq
    have : x0.1 = ft := by simpa using hk
    rw [this]
    exact ⟨c, rfl, hc⟩
  · rw [if_neg hk] at heq
    cases heq
    exact h.one x0.1 x0.2 h0

theorem zeroed_shaped (I : Instance) (o : FObs) (hnd : o.fts.Nodup) : (o.zeroed I).Shaped I := by
  refine ⟨zeroed_wf I o hnd, ?_⟩
  intro ft cs hmem
  simp only [FObs.zeroed, List.mem_map] at hmem
  obtain ⟨t, _, heq⟩ := hmem
  cases heq
  exact ⟨_, rfl, zeros_length _⟩

theorem zeroed_fts (I : Instance) (o : FObs) : (o.zeroed I).fts = o.fts := rfl
theorem zeroed_kind (I : Instance) (o : FObs) : (o.zeroed I).kind = o.kind := rfl

/-- what the shape argument needs to know about a transformer -/
structure Keeps (I : Instance) (o o' : FObs) : Prop where
  shaped : o'.Shaped I
  fts : o'.fts = o.fts
  kind : o'.kind = o.kind
  parts : o'.parts = o.parts
  graph : o'.graph = o.graph ∧ o'.graph0 = o.graph0

theorem Keeps.refl {I : Instance} {o : FObs} (h : o.Shaped I) : Keeps I o o := ⟨h, rfl, rfl, rfl, rfl, rfl⟩

theorem Keeps.trans {I : Instance} {a b c : FObs} (h1 : Keeps I a b) (h2 : Keeps I b c) : Keeps I a c :=
  ⟨h2.shaped, h2.fts.trans h1.fts, h2.kind.trans h1.kind, h2.parts.trans h1.parts,
   h2.graph.1.trans h1.graph.1, h2.graph.2.trans h1.graph.2⟩

theorem keeps_setCol {I : Instance} {o : FObs} (h : o.Shaped I) (ft : FT) (c : List Int)
    (hc : c.length = numEntities I ft) : Keeps I o (o.setCol ft c) :=
  ⟨h.setCol ft c hc, rfl, rfl, rfl, rfl, rfl⟩

theorem keeps_zeroed {I : Instance} {o : FObs} (hnd : o.fts.Nodup) : Keeps I o (o.zeroed I) :=
  ⟨zeroed_shaped I o hnd, rfl, rfl, rfl, rfl, rfl⟩

/-- `assignCols` with values of the right length -/
theorem keeps_assignCols {I : Instance} {o : FObs} (h : o.Shaped I) (g : FObs → FT → List Int)
    (hg : ∀ o', Keeps I o o' → ∀ ft, ft ∈ o.fts → (g o' ft).length = numEntities I ft) :
    Keeps I o (o.assignCols g) := by
  unfold FObs.assignCols
  have : ∀ (l : List FT) (o' : FObs), (∀ ft ∈ l, ft ∈ o.fts) → Keeps I o o' →
      Keeps I o (l.foldl (fun o ft => o.setCol ft (g o ft)) o') := by
    intro l
    induction l with
    | nil => intro o' _ hk; exact hk
    | cons a t ih =>
      intro o' hsub hk
      simp only [List.foldl_cons]
      apply ih _ (fun ft hft => hsub ft (by simp [hft]))
      exact hk.trans (keeps_setCol hk.shaped a _ (hg o' hk a (hsub a (by simp))))
  exact this o.fts o (fun _ h => h) (Keeps.refl h)

/-! ## the seven observers -/

theorem numEntities_ops (I : Instance) : numEntities I .operations = (allOps I).length := by
  rw [length_allOps]; rfl

theorem keeps_isReadyFeatures (c : Cfg) (s : State) {o : FObs} (h : o.Shaped c.I) :
    Keeps c.I o (isReadyFeatures c s o) := by
  unfold isReadyFeatures
  exact (keeps_zeroed h.wf.nodup).trans
    (keeps_assignCols (zeroed_shaped c.I o h.wf.nodup) _ (fun _ _ ft _ => indicator_length _ _))

theorem estCol_length (c : Cfg) (s : State) (o : FObs) (ft : FT) : (estCol c s o ft).length = numEntities c.I ft := by
  cases ft <;> simp [estCol, numEntities, length_allOps]

theorem keeps_estFeatures (c : Cfg) (s : State) {o : FObs} (h : o.Shaped c.I) : Keeps c.I o (estFeatures c s o) :=
  keeps_assignCols h _ (fun o' _ ft _ => estCol_length c s o' ft)

theorem durationInitCol_length (c : Cfg) (s : State) (ft : FT) : (durationInitCol c s ft).length = numEntities c.I ft := by
  cases ft <;> simp [durationInitCol, numEntities, length_allOps]

theorem keeps_durationInit (c : Cfg) (s : State) {o : FObs} (h : o.Shaped c.I) : Keeps c.I o (durationInit c s o) :=
  keeps_assignCols h _ (fun _ _ ft _ => durationInitCol_length c s ft)

theorem keeps_durationUpdate (c : Cfg) (s : State) (x : SOp) {o : FObs} (h : o.Shaped c.I) :
    Keeps c.I o (durationUpdate c s x o) := by
  refine keeps_assignCols h _ ?_
  intro o' hk ft hft
  have hl := hk.shaped.col_length (hk.fts ▸ hft)
  cases ft <;> simp only [durationUpdateCol, setAt_length, addAt_length] <;> exact hl

theorem keeps_isScheduledUpdate (c : Cfg) (s : State) (x : SOp) {o : FObs} (h : o.Shaped c.I) :
    Keeps c.I o (isScheduledUpdate c s x o) := by
  refine keeps_assignCols h _ ?_
  intro o' hk ft hft
  have hl := hk.shaped.col_length (hk.fts ▸ hft)
  cases ft
  · simp only [isScheduledCol, setAt_length]; exact hl
  · simp only [isScheduledCol]
    rw [foldl_length _ (fun l a => addAt_length l _ _)]; simp [zeros, numEntities]
  · simp only [isScheduledCol]
    rw [foldl_length _ (fun l a => addAt_length l _ _)]; simp [zeros, numEntities]

theorem has_mem {o : FObs} {ft : FT} (h : o.has ft = true) : ft ∈ o.fts := by
  simpa [FObs.has] using h

theorem keeps_positionInit (c : Cfg) (s : State) {o : FObs} (h : o.Shaped c.I) : Keeps c.I o (positionInit c s o) := by
  unfold positionInit
  split
  · rename_i hh
    apply keeps_setCol h
    rw [foldl_length _ (fun l a => setAt_length l _ _)]
    exact h.col_length (has_mem hh)
  · exact Keeps.refl h

theorem keeps_positionUpdate (c : Cfg) (x : SOp) {o : FObs} (h : o.Shaped c.I) : Keeps c.I o (positionUpdate c x o) := by
  unfold positionUpdate
  split
  · rename_i hh
    apply keeps_setCol h
    rw [foldl_length _ (fun l a => setAt_length l _ _)]
    exact h.col_length (has_mem hh)
  · exact Keeps.refl h

theorem keeps_foldl {α} {I : Instance} (f : FObs → α → FObs) (hf : ∀ o a, o.Shaped I → Keeps I o (f o a)) :
    ∀ (l : List α) (o : FObs), o.Shaped I → Keeps I o (l.foldl f o)
  | [], _, h => Keeps.refl h
  | a :: t, o, h => by
    simp only [List.foldl_cons]
    exact (hf o a h).trans (keeps_foldl f hf t _ (hf o a h).shaped)

theorem keeps_if {I : Instance} {o : FObs} (h : o.Shaped I) (b : Bool) (o' : FObs) (hk : b = true → Keeps I o o') :
    Keeps I o (if b = true then o' else o) := by
  split
  · rename_i hb; exact hk hb
  · exact Keeps.refl h

theorem keeps_remainingInit (c : Cfg) (deques : List (List OpRef)) {o : FObs} (h : o.Shaped c.I) :
    Keeps c.I o (remainingInit c deques o) := by
  unfold remainingInit
  apply keeps_foldl _ _ _ _ h
  intro o r ho
  have h1 : Keeps c.I o (if o.has .jobs = true then o.setCol .jobs (addAt (o.col .jobs) r.1 1) else o) :=
    keeps_if ho _ _ (fun hh => keeps_setCol ho _ _ (by rw [addAt_length]; exact ho.col_length (has_mem hh)))
  refine h1.trans ?_
  generalize (if o.has .jobs = true then o.setCol .jobs (addAt (o.col .jobs) r.1 1) else o) = o1 at h1
  dsimp only
  cases hop : getOp c.I r.1 r.2 with
  | none => simp only [ite_self]; exact Keeps.refl h1.shaped
  | some op =>
    simp only
    exact keeps_if h1.shaped _ _ (fun hh => keeps_setCol h1.shaped _ _ (by
      rw [foldl_length _ (fun l a => addAt_length l _ _)]; exact h1.shaped.col_length (has_mem hh)))

theorem keeps_remainingUpdate (I : Instance) (x : SOp) {o : FObs} (h : o.Shaped I) : Keeps I o (remainingUpdate x o) := by
  unfold remainingUpdate
  have h1 : Keeps I o (if o.has .jobs = true then o.setCol .jobs (addAt (o.col .jobs) x.job (-1)) else o) :=
    keeps_if h _ _ (fun hh => keeps_setCol h _ _ (by rw [addAt_length]; exact h.col_length (has_mem hh)))
  refine h1.trans ?_
  generalize (if o.has .jobs = true then o.setCol .jobs (addAt (o.col .jobs) x.job (-1)) else o) = o1 at h1
  dsimp only
  exact keeps_if h1.shaped _ _ (fun hh => keeps_setCol h1.shaped _ _ (by
    rw [addAt_length]; exact h1.shaped.col_length (has_mem hh)))

/-- updating the two private counters does not touch the matrices -/
theorem keeps_withRemMach {I : Instance} {o : FObs} (h : o.Shaped I) (rm : List Int) :
    Keeps I o { o with remMach := rm } :=
  ⟨⟨⟨h.wf.keys, h.wf.nodup⟩, h.one⟩, rfl, rfl, rfl, rfl, rfl⟩
theorem keeps_withRemJob {I : Instance} {o : FObs} (h : o.Shaped I) (rj : List Int) :
    Keeps I o { o with remJob := rj } :=
  ⟨⟨⟨h.wf.keys, h.wf.nodup⟩, h.one⟩, rfl, rfl, rfl, rfl, rfl⟩

/-- the three stages of `IsCompletedObserver.update` -/
def icOps (c : Cfg) (s : State) (o : FObs) : FObs :=
  if o.has .operations then
    o.setCol .operations ((completedPure c s).foldl (fun col r => setAt col (opId c.I r) 1) (o.col .operations))
  else o
def icMach (ms : List Nat) (o : FObs) : FObs :=
  if o.has .machines then
    let rem := ms.foldl (fun col m => addAt col m (-1)) o.remMach
    let o2 := o.setCol .machines (ms.foldl (fun col m => setAt col m (if rem.getD m 0 == 0 then 1 else 0)) (o.col .machines))
    { o2 with remMach := rem }
  else o
def icJobs (x : SOp) (o : FObs) : FObs :=
  if o.has .jobs then
    let rem := addAt o.remJob x.job (-1)
    let o2 := o.setCol .jobs (setAt (o.col .jobs) x.job (if rem.getD x.job 0 == 0 then 1 else 0))
    { o2 with remJob := rem }
  else o

theorem isCompletedUpdate_eq (c : Cfg) (s : State) (x : SOp) (o : FObs) :
    isCompletedUpdate c s x o =
      icJobs x (icMach (match getOp c.I x.job x.pos with | some op => op.machines | none => []) (icOps c s o)) := rfl

theorem keeps_isCompletedUpdate (c : Cfg) (s : State) (x : SOp) {o : FObs} (h : o.Shaped c.I) :
    Keeps c.I o (isCompletedUpdate c s x o) := by
  rw [isCompletedUpdate_eq]
  have h1 : Keeps c.I o (icOps c s o) := by
    unfold icOps
    exact keeps_if h _ _ (fun hh => keeps_setCol h _ _ (by
      rw [foldl_length _ (fun l a => setAt_length l _ _)]; exact h.col_length (has_mem hh)))
  have h2 : ∀ (ms : List Nat) (o1 : FObs), o1.Shaped c.I → Keeps c.I o1 (icMach ms o1) := by
    intro ms o1 ho1
    unfold icMach
    split
    · rename_i hh
      dsimp only
      have hk := keeps_setCol ho1 .machines
        (ms.foldl (fun col m => setAt col m
          (if (ms.foldl (fun col m => addAt col m (-1)) o1.remMach).getD m 0 == 0 then 1 else 0)) (o1.col .machines))
        (by rw [foldl_length _ (fun l a => setAt_length l _ _)]; exact ho1.col_length (has_mem hh))
      exact hk.trans (keeps_withRemMach hk.shaped _)
    · exact Keeps.refl ho1
  have h3 : ∀ (o2 : FObs), o2.Shaped c.I → Keeps c.I o2 (icJobs x o2) := by
    intro o2 ho2
    unfold icJobs
    split
    · rename_i hh
      dsimp only
      have hk := keeps_setCol ho2 .jobs
        (setAt (o2.col .jobs) x.job (if (addAt o2.remJob x.job (-1)).getD x.job 0 == 0 then 1 else 0))
        (by rw [setAt_length]; exact ho2.col_length (has_mem hh))
      exact hk.trans (keeps_withRemJob hk.shaped _)
    · exact Keeps.refl ho2
  exact h1.trans ((h2 _ _ h1.shaped).trans (h3 _ (h2 _ _ h1.shaped).shaped))

end JS

import JobShopProofs.SeqRebuild
/-!
# C14 — job sequences are accepted exactly when they admit a schedule

* `C14_seq_result_is_history`: whatever `from_job_sequences` returns is the state of the dispatcher after a history of
  dispatch requests (one `dispatch(operation, machine)` per placed operation) on a fresh dispatcher — the whole state,
  not only the schedule.
* `C14_seq_accept_iff`: for a non-flexible instance and an input with one row per machine and as many ids as there are
  operations, acceptance ⇔ some dispatcher-built complete schedule has exactly these job sequences.
* `C14_seq_outcomes`: the only outcomes are a schedule, the validation error, or an index error.

The loop of `from_job_sequences` only ever calls the core `dispatch` with a machine of the operation; such a call is the
request `Ev.disp j p (some m)` (`dispatchReq_of_dispatch`), so the list of events is carried through the three nested
loops (`hist_machine`, `hist_passFrom`, `hist_loop`).
-/
namespace JS

/-- `t` is the state of a dispatcher after some history -/
def Hist (c : Cfg) (t : State) : Prop := ∃ evs : List Ev, run c evs = t

theorem hist_init (c : Cfg) : Hist c (init c.I) := ⟨[], rfl⟩

/-- an accepted core dispatch on machine `m` is the accepted request with the explicit machine id `m` -/
theorem dispatchReq_of_dispatch {I : Instance} {s s' : State} {j p m : Nat} (h : dispatch I s j p m = .ok s') :
    dispatchReq I s j p (some (m : Int)) = .ok s' := by
  obtain ⟨op, hd⟩ := dispatch_ok h
  unfold dispatchReq
  rw [hd.hop]
  simp only [hd.hidx, ne_eq, not_true_eq_false, ↓reduceIte, resolveMachine]
  have h0 : ¬ ((m : Int) < 0) := by omega
  simp only [h0, ↓reduceIte, Int.toNat_natCast, hd.hm]
  exact h

theorem hist_dispatch {c : Cfg} {s s' : State} {j p m : Nat} (hh : Hist c s) (h : dispatch c.I s j p m = .ok s') :
    Hist c s' := by
  obtain ⟨evs, rfl⟩ := hh
  refine ⟨evs ++ [.disp j p (some (m : Int))], ?_⟩
  rw [run_snoc]
  simp only [stepEv, dispatchReq_of_dispatch h]

theorem hist_machine {c : Cfg} {t : State} (hh : Hist c t) (m : Nat) (d : List (List Nat)) (pr : Bool)
    (r : List (List Nat) × State × Bool) (h : jobSeqMachine c.I m d t pr = .ok r) : Hist c r.2.1 := by
  unfold jobSeqMachine at h
  split at h
  · cases h; exact hh
  · simp only at h
    split at h
    · cases h
    · split at h
      · split at h
        · rename_i s' hd
          cases h
          exact hist_dispatch hh hd
        · cases h
      · cases h; exact hh

theorem hist_passFrom {c : Cfg} : ∀ (ms : List Nat) (d : List (List Nat)) (t : State) (pr : Bool)
    (r : List (List Nat) × State × Bool), Hist c t → jobSeqPassFrom c.I ms d t pr = .ok r → Hist c r.2.1
  | [], d, t, pr, r, hh, h => by
    unfold jobSeqPassFrom at h; cases h; exact hh
  | m :: ms, d, t, pr, r, hh, h => by
    unfold jobSeqPassFrom at h
    cases hp : jobSeqMachine c.I m d t pr with
    | error e => rw [hp] at h; cases h
    | ok r1 =>
      rw [hp] at h
      obtain ⟨d1, t1, pr1⟩ := r1
      simp only at h
      exact hist_passFrom ms d1 t1 pr1 r (hist_machine hh m d pr _ hp) h

/-- the outer loop: the result is complete and is the state after a history -/
theorem hist_loop {c : Cfg} : ∀ (fuel : Nat) (d : List (List Nat)) (t s' : State), Hist c t →
    fromJobSequences c.I fuel d t = .ok s' → Hist c s' ∧ isComplete c.I s' = true
  | 0, d, t, s', hh, h => by
    unfold fromJobSequences at h
    by_cases hc : isComplete c.I t = true
    · simp only [hc, ↓reduceIte] at h; cases h; exact ⟨hh, hc⟩
    · simp [hc] at h
  | fuel + 1, d, t, s', hh, h => by
    unfold fromJobSequences at h
    by_cases hc : isComplete c.I t = true
    · simp only [hc, ↓reduceIte] at h; cases h; exact ⟨hh, hc⟩
    · simp only [hc, Bool.false_eq_true, ↓reduceIte] at h
      cases hp : jobSeqPass c.I d t with
      | error e =>
        rw [hp] at h; simp only at h; subst h
        rcases seqPassFrom_err c.I _ d t false _ hp with h | h <;> cases h
      | ok r =>
        rw [hp] at h
        obtain ⟨d1, t1, pr1⟩ := r
        simp only at h
        by_cases hpr : pr1 = true
        · simp only [hpr, ↓reduceIte] at h
          exact hist_loop fuel d1 t1 s' (hist_passFrom _ d t false _ hh hp) h
        · simp [hpr] at h

/-- **C14 (job sequences: the result is dispatcher-built), full state.**  Whatever the instance, the fuel and the input,
a returned schedule is — in every field of the dispatcher state, the memo table included — the state after a history
of dispatch requests on the fresh dispatcher, and it is complete. -/
theorem C14_seq_result_is_history_state (c : Cfg) (fuel : Nat) (seqs : List (List Nat)) (s' : State)
    (h : fromJobSequences c.I fuel seqs (init c.I) = .ok s') :
    ∃ evs : List Ev, run c evs = s' ∧ isComplete c.I (run c evs) = true := by
  obtain ⟨⟨evs, he⟩, hc⟩ := hist_loop fuel seqs (init c.I) s' (hist_init c) h
  exact ⟨evs, he, by rw [he]; exact hc⟩

/-- an accepted result is dispatcher-built: it is the state after some history of dispatch requests on the fresh
dispatcher -/
theorem C14_seq_result_is_history (c : Cfg) (_hv : Valid c.I) (fuel : Nat) (seqs : List (List Nat)) (s' : State)
    (h : fromJobSequences c.I fuel seqs (init c.I) = .ok s') :
    ∃ evs : List Ev, (run c evs).sched = s'.sched ∧ isComplete c.I (run c evs) = true := by
  obtain ⟨evs, he, hc⟩ := C14_seq_result_is_history_state c fuel seqs s' h
  exact ⟨evs, by rw [he], hc⟩

/-- the equivalence under the weaker side condition "no more ids than operations" (any fuel that suffices, i.e.
`num_operations + 1`); the side conditions are used for `→` only -/
theorem C14_seq_accept_iff_le (c : Cfg) (hv : Valid c.I) (hn : NonFlexH c.I) (seqs : List (List Nat))
    (hrows : seqs.length = numMachines c.I) (htot : (seqs.map List.length).sum ≤ numOps c.I) :
    (∃ s', fromJobSequences c.I (numOps c.I + 1) seqs (init c.I) = .ok s') ↔
    (∃ evs : List Ev, isComplete c.I (run c evs) = true ∧ jobSequences (run c evs) = seqs) := by
  constructor
  · rintro ⟨s', h⟩
    obtain ⟨evs, he, hc⟩ := C14_seq_result_is_history_state c _ seqs s' h
    refine ⟨evs, hc, ?_⟩
    rw [he]
    exact (C14_seq_converse c.I _ seqs s' h).2 hrows htot
  · rintro ⟨evs, hc, hs⟩
    obtain ⟨s', h, _⟩ := C14_seq_rebuild c hv hn evs hc
    rw [hs] at h
    exact ⟨s', h⟩

/-- `←` needs no side condition on the input: the job sequences of a dispatcher-built complete schedule are accepted -/
theorem C14_seq_accept_of_history (c : Cfg) (hv : Valid c.I) (hn : NonFlexH c.I) (seqs : List (List Nat))
    (h : ∃ evs : List Ev, isComplete c.I (run c evs) = true ∧ jobSequences (run c evs) = seqs) :
    ∃ s', fromJobSequences c.I (numOps c.I + 1) seqs (init c.I) = .ok s' := by
  obtain ⟨evs, hc, hs⟩ := h
  obtain ⟨s', h, _⟩ := C14_seq_rebuild c hv hn evs hc
  rw [hs] at h
  exact ⟨s', h⟩

/-- **accepted ⇔ admits a schedule**: per-machine job sequences (one row per machine, as many ids as the instance has
operations) of a non-flexible instance are accepted exactly when some dispatcher-built complete schedule has them as its
per-machine job sequences; otherwise the result is the validation error or an index error for ids that name no remaining
operation — never a hang, never a dispatch failure -/
theorem C14_seq_accept_iff (c : Cfg) (hv : Valid c.I) (hn : NonFlexH c.I) (seqs : List (List Nat))
    (hrows : seqs.length = numMachines c.I) (htot : (seqs.map List.length).sum = numOps c.I) :
    (∃ s', fromJobSequences c.I (numOps c.I + 1) seqs (init c.I) = .ok s') ↔
    (∃ evs : List Ev, isComplete c.I (run c evs) = true ∧ jobSequences (run c evs) = seqs) :=
  C14_seq_accept_iff_le c hv hn seqs hrows (by omega)

theorem C14_seq_outcomes (c : Cfg) (hv : Valid c.I) (seqs : List (List Nat)) :
    (∃ s', fromJobSequences c.I (numOps c.I + 1) seqs (init c.I) = .ok s') ∨
    fromJobSequences c.I (numOps c.I + 1) seqs (init c.I) = .validationError ∨
    fromJobSequences c.I (numOps c.I + 1) seqs (init c.I) = .indexError := by
  have h1 := (C14_seq_result_reachable hv (numOps c.I + 1) seqs (init c.I) (cinv_init c.I)).2
  have h2 := C14_seq_terminates c.I hv seqs
  cases hr : fromJobSequences c.I (numOps c.I + 1) seqs (init c.I) with
  | ok s => exact Or.inl ⟨s, rfl⟩
  | validationError => exact Or.inr (Or.inl rfl)
  | indexError => exact Or.inr (Or.inr rfl)
  | dispatchError => exact absurd hr h1
  | fuel => exact absurd hr h2

/-! non-vacuity and sharpness of the side conditions -/

/-- `from_job_sequences` returned a schedule -/
def SeqResult.isOk : SeqResult → Bool
  | .ok _ => true
  | _ => false

theorem SeqResult.exists_of_isOk {r : SeqResult} (h : r.isOk = true) : ∃ s', r = .ok s' := by
  cases r <;> first | exact ⟨_, rfl⟩ | cases h

/-- all three outcomes occur (cyclic order → validation error; unknown job id → index error) -/
example : ∃ s', fromJobSequences cyclicInstance 5 [[0, 1], [0, 1]] (init cyclicInstance) = .ok s' :=
  SeqResult.exists_of_isOk (by decide)
example : fromJobSequences cyclicInstance 5 [[1, 0], [0, 1]] (init cyclicInstance) = .validationError := by decide
example : fromJobSequences cyclicInstance 5 [[7, 0], [0, 1]] (init cyclicInstance) = .indexError := by decide

def oneOp : Cfg := { I := [[⟨[0], 1⟩]] }

theorem numScheduled_jobSequences (s : State) : ((jobSequences s).map List.length).sum = numScheduled s := by
  simp [jobSequences, numScheduled, List.map_map, Function.comp_def]

/-- without the bound on the number of ids `→` fails: the input `[[0, 0]]` is accepted (the trailing id is ignored),
but no complete schedule of the one-operation instance has these job sequences -/
example : (∃ s', fromJobSequences oneOp.I (numOps oneOp.I + 1) [[0, 0]] (init oneOp.I) = .ok s') ∧
    ¬ ∃ evs : List Ev, isComplete oneOp.I (run oneOp evs) = true ∧ jobSequences (run oneOp evs) = [[0, 0]] := by
  refine ⟨SeqResult.exists_of_isOk (by decide), ?_⟩
  rintro ⟨evs, hc, hs⟩
  have h1 := numScheduled_jobSequences (run oneOp evs)
  rw [hs] at h1
  simp only [isComplete, beq_iff_eq] at hc
  rw [hc] at h1
  revert h1; decide

/-- without "one row per machine" `→` fails as well: an extra empty row is accepted and ignored -/
example : (∃ s', fromJobSequences oneOp.I (numOps oneOp.I + 1) [[0], []] (init oneOp.I) = .ok s') ∧
    ¬ ∃ evs : List Ev, isComplete oneOp.I (run oneOp evs) = true ∧ jobSequences (run oneOp evs) = [[0], []] := by
  refine ⟨SeqResult.exists_of_isOk (by decide), ?_⟩
  rintro ⟨evs, _, hs⟩
  have hv : Valid oneOp.I := valid_of_validB (by decide)
  have h1 := (inv_run hv evs).cinv.wf.lenS
  have h2 : (jobSequences (run oneOp evs)).length = (run oneOp evs).sched.length := by simp [jobSequences]
  rw [hs, h1] at h2
  revert h2; decide

end JS

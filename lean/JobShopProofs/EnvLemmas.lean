import JobShopModel.Env
import JobShopProofs.Properties.C17
/-!
# Lemmas for the environment model: the residual graph only shrinks, and nothing but the updater touches it
-/
namespace JS

/-! ## the number of edges never grows under node removal -/

theorem length_flatMap_le {α β} (f g : α → List β) : ∀ (l : List α), (∀ x ∈ l, (f x).length ≤ (g x).length) →
    (l.flatMap f).length ≤ (l.flatMap g).length
  | [], _ => by simp
  | a :: t, h => by
    simp only [List.flatMap_cons, List.length_append]
    have h1 := h a (by simp)
    have h2 := length_flatMap_le f g t (fun x hx => h x (by simp [hx]))
    omega

theorem dropNode_present_imp (g : Graph) (u v : Nat) (h : (g.dropNode u).present v = true) : g.present v = true := by
  simp only [Graph.present, Graph.dropNode, Bool.and_eq_true, decide_eq_true_eq, Bool.not_eq_true'] at h ⊢
  refine ⟨of_decide_eq_true h.1, ?_⟩
  have h2 := h.2
  simp only [List.getD_eq_getElem?_getD, List.getElem?_set] at h2 ⊢
  split at h2
  · split at h2
    · simp at h2
    · rename_i huv hlt
      subst huv
      have : g.removed[u]? = none := List.getElem?_eq_none (by omega)
      simp [this] at h2
  · exact h2

theorem dropNode_adj_le (g : Graph) (u v : Nat) :
    ((g.dropNode u).adj.getD v []).length ≤ (g.adj.getD v []).length := by
  simp only [Graph.dropNode, List.getD_eq_getElem?_getD, List.getElem?_map, List.getElem?_set]
  split
  · rename_i huv
    split
    · simp
    · rename_i hn
      have : g.adj[v]? = none := List.getElem?_eq_none (by omega)
      simp [this]
  · cases h : g.adj[v]? with
    | none => simp
    | some l => simp only [Option.map_some, Option.getD_some]; exact List.length_filter_le _ _

theorem dropNode_edges_le (g : Graph) (u : Nat) : (g.dropNode u).edges.length ≤ g.edges.length := by
  unfold Graph.edges
  rw [dropNode_nodes]
  apply length_flatMap_le
  intro v _
  by_cases hp : (g.dropNode u).present v = true
  · rw [if_pos hp, if_pos (dropNode_present_imp g u v hp)]
    simp only [List.length_map]
    exact dropNode_adj_le g u v
  · rw [if_neg hp]; simp

theorem foldl_dropNode_edges_le : ∀ (l : List Nat) (g : Graph),
    (l.foldl (fun g v => g.dropNode v) g).edges.length ≤ g.edges.length
  | [], _ => Nat.le_refl _
  | a :: t, g => by
    simp only [List.foldl_cons]
    exact Nat.le_trans (foldl_dropNode_edges_le t _) (dropNode_edges_le g a)

theorem removeNode_edges_le (g : Graph) (u : Nat) : (g.removeNode u).edges.length ≤ g.edges.length := by
  unfold Graph.removeNode
  exact Nat.le_trans (foldl_dropNode_edges_le _ _) (dropNode_edges_le g u)

theorem foldl_dropNode_nodes : ∀ (l : List Nat) (g : Graph), (l.foldl (fun g v => g.dropNode v) g).nodes = g.nodes
  | [], _ => rfl
  | a :: t, g => by simp only [List.foldl_cons]; rw [foldl_dropNode_nodes t]; rfl

theorem removeNode_nodes (g : Graph) (u : Nat) : (g.removeNode u).nodes = g.nodes := by
  unfold Graph.removeNode
  rw [foldl_dropNode_nodes]; rfl

theorem removeIf_nodes (g : Graph) (nid : Nat) (cond : Bool) : (removeIf g nid cond).nodes = g.nodes := by
  unfold removeIf; split
  · exact removeNode_nodes g nid
  · rfl

theorem removeIf_edges_le (g : Graph) (nid : Nat) (cond : Bool) : (removeIf g nid cond).edges.length ≤ g.edges.length := by
  unfold removeIf; split
  · exact removeNode_edges_le g nid
  · exact Nat.le_refl _

/-- the size facts the observation space relies on -/
structure SizeLe (g g0 : Graph) : Prop where
  nodes : g.nodes = g0.nodes
  edges : g.edges.length ≤ g0.edges.length

theorem SizeLe.refl (g : Graph) : SizeLe g g := ⟨rfl, Nat.le_refl _⟩

theorem SizeLe.removeIf {g g0 : Graph} (h : SizeLe g g0) (nid : Nat) (cond : Bool) : SizeLe (removeIf g nid cond) g0 :=
  ⟨(removeIf_nodes g nid cond).trans h.nodes, Nat.le_trans (removeIf_edges_le g nid cond) h.edges⟩

theorem sizeLe_foldl {α} (f : Graph → α → Graph) (g0 : Graph) (hf : ∀ g a, SizeLe g g0 → SizeLe (f g a) g0) :
    ∀ (l : List α) (g : Graph), SizeLe g g0 → SizeLe (l.foldl f g) g0
  | [], _, h => h
  | a :: t, g, h => by simp only [List.foldl_cons]; exact sizeLe_foldl f g0 hf t _ (hf g a h)

theorem residualUpdate_sizeLe (c : Cfg) (s : State) (heap : List FObs) (o : FObs) (g0 : Graph) (h : SizeLe o.graph g0) :
    SizeLe (residualUpdate c s heap o) g0 := by
  unfold residualUpdate
  simp only
  have h1 : SizeLe (removeCompletedOps c.I o.graph (completedPure c s)) g0 :=
    sizeLe_foldl _ g0 (fun g r hg => hg.removeIf _ _) _ _ h
  have hfl : ∀ (g : Graph) (flags : List Int) (kind : Nat → NodeKind), SizeLe g g0 → SizeLe (removeFlagged g flags kind) g0 :=
    fun g flags kind hg => sizeLe_foldl _ g0 (fun g fm hg => hg.removeIf _ _) _ _ hg
  have hite : ∀ (cnd : Bool) (a b : Graph), SizeLe a g0 → SizeLe b g0 → SizeLe (if cnd = true then a else b) g0 := by
    intro cnd a b ha hb; split <;> assumption
  apply hite
  · exact hfl _ _ _ (hite _ _ _ (hfl _ _ _ h1) h1)
  · exact hite _ _ _ (hfl _ _ _ h1) h1

/-! ## frame: only the updater's own callback writes a residual observer -/

/-- `w'` keeps every residual observer of `w` (same index, same content) and the configuration -/
structure KeepRes (w w' : FWorld) : Prop where
  cfg : w'.cfg = w.cfg
  keep : ∀ (k : Nat) (o : FObs), w.heap[k]? = some o → o.kind = FKind.residual → w'.heap[k]? = some o

theorem KeepRes.refl (w : FWorld) : KeepRes w w := ⟨rfl, fun _ _ h _ => h⟩

theorem KeepRes.trans {a b c : FWorld} (h1 : KeepRes a b) (h2 : KeepRes b c) : KeepRes a c :=
  ⟨h2.cfg.trans h1.cfg, fun k o h hk => h2.keep k o (h1.keep k o h hk) hk⟩

theorem keepRes_push (w : FWorld) (o : FObs) : KeepRes w (w.push o).1 := by
  refine ⟨rfl, ?_⟩
  intro k o' h _
  simp only [FWorld.push]
  have hk : k < w.heap.length := (List.getElem?_eq_some_iff.1 h).1
  rw [List.getElem?_append_left hk]; exact h

/-- overwriting an observer that is not a residual updater -/
theorem keepRes_setObs (w : FWorld) (id : Nat) (o : FObs) (h : ∀ o0, w.heap[id]? = some o0 → o0.kind ≠ .residual) :
    KeepRes w (w.setObs id o) := by
  refine ⟨rfl, ?_⟩
  intro k o' hk hres
  simp only [FWorld.setObs, List.getElem?_set]
  split
  · rename_i hik
    subst hik
    exact absurd hres (h o' hk)
  · exact hk

theorem findObs_kind {w : FWorld} {kind : FKind} {need : List FT} {id : Nat} (h : w.findObs kind need = some id) :
    ∃ o, w.heap[id]? = some o ∧ o.kind = kind := by
  unfold FWorld.findObs at h
  have := List.find?_some h
  cases ho : w.heap[id]? with
  | none => simp [ho] at this
  | some o =>
    simp only [ho, Bool.and_eq_true, beq_iff_eq] at this
    exact ⟨o, rfl, this.1⟩

end JS

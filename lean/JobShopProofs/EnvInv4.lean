import JobShopProofs.EnvInv3
/-!
# The environment's constructor establishes the invariant; steps and resets keep it
-/
namespace JS

/-- feature-observer configurations the library accepts: a single-column observer kind, no repeated feature type -/
def FeatsOK (feats : List (FKind × Option (List FT))) : Prop :=
  ∀ kf ∈ feats, ∀ l, kf.2 = some l → l.Nodup

theorem isFeature_single {k : FKind} (h : (!k.isFeature || k == .composite) = false) : k.single = true := by
  cases k <;> simp [FKind.isFeature, FKind.single] at h ⊢

theorem constructFeats_ok : ∀ (feats : List (FKind × Option (List FT))) (w : FWorld), HeapOK w → FeatsOK feats →
    ∀ w' ids, constructFeats w feats = some (w', ids) →
      HeapOK w' ∧ WExt w w' ∧ ∀ i ∈ ids, ∃ q, w'.heap[i]? = some q ∧ q.kind.single = true
  | [], w, hw, _, w', ids, h => by
    simp only [constructFeats] at h; cases h
    exact ⟨hw, WExt.refl w, fun i hi => by cases hi⟩
  | (k, fts) :: rest, w, hw, hf, w', ids, h => by
    simp only [constructFeats] at h
    by_cases hk : (!k.isFeature || k == .composite) = true
    · rw [if_pos hk] at h; cases h
    · rw [if_neg hk] at h
      have hs : k.single = true := isFeature_single (by simpa using hk)
      obtain ⟨h1, e1, g1⟩ := construct_feature hw k hs fts (hf (k, fts) (by simp))
      rcases hc : w.construct k fts with ⟨w1, oid⟩
      rw [hc] at h h1 e1 g1
      cases oid with
      | none => simp only at h; cases h
      | some id =>
        simp only at h h1 e1 g1
        cases hr : constructFeats w1 rest with
        | none => rw [hr] at h; cases h
        | some r =>
          obtain ⟨w2, ids2⟩ := r
          rw [hr] at h
          simp only [Option.some.injEq, Prod.mk.injEq] at h
          obtain ⟨rfl, rfl⟩ := h
          obtain ⟨h2, e2, g2⟩ := constructFeats_ok rest w1 h1 (fun kf hkf => hf kf (by simp [hkf])) w2 ids2 hr
          refine ⟨h2, e1.trans e2, ?_⟩
          intro i hi
          rcases List.mem_cons.1 hi with rfl | hi
          · obtain ⟨q, hq, hkq⟩ := (g1 i rfl).ext e2
            exact ⟨q, hq, by rw [hkq]; exact hs⟩
          · exact g2 i hi

theorem set_append_last {α} (l : List α) (a b : α) : (l ++ [a]).set l.length b = l ++ [b] := by
  induction l with
  | nil => rfl
  | cons x t ih => simp only [List.cons_append, List.length_cons, List.set_cons_succ, ih]

/-- `constructComposite` over existing single-column observers -/
theorem constructComposite_ok {w : FWorld} (hw : HeapOK w) (ids : List Nat)
    (hids : ∀ i ∈ ids, ∃ q, w.heap[i]? = some q ∧ q.kind.single = true) :
    ∀ w' id, w.constructComposite (some ids) = (w', some id) →
      HeapOK w' ∧ WExt w w' ∧
      ∃ o, w'.heap[id]? = some o ∧ o.kind = .composite ∧ o.parts = ids ∧ CompOK w.cfg.I w'.heap o := by
  intro w' id h
  simp only [FWorld.constructComposite, FWorld.push, FWorld.setObs, Prod.mk.injEq, Option.some.injEq] at h
  obtain ⟨rfl, rfl⟩ := h
  simp only [set_append_last]
  generalize ho : ({ kind := FKind.composite, parts := ids, cols := compositeCols (w.heap ++ [({ kind := .composite, parts := ids } : FObs)]) ids, fts := (compositeCols (w.heap ++ [({ kind := .composite, parts := ids } : FObs)]) ids).map (·.1), names := compositeNames (w.heap ++ [({ kind := .composite, parts := ids } : FObs)]) ids } : FObs) = o'
  have hk' : o'.kind = .composite := by rw [← ho]
  have hp' : o'.parts = ids := by rw [← ho]
  have hc' : o'.cols = compositeCols (w.heap ++ [({ kind := .composite, parts := ids } : FObs)]) o'.parts := by
    rw [← ho]
  have hcomp : CompOK w.cfg.I (w.heap ++ [o']) o' := by
    refine ⟨_, hc', ?_⟩
    intro i hi
    rw [hp'] at hi
    obtain ⟨q, hq, hs⟩ := hids i hi
    have hlt : i < w.heap.length := (List.getElem?_eq_some_iff.1 hq).1
    refine ⟨q, q, ?_, ?_, hs, shaped_of_heapOK hw hq hs, rfl⟩
    · rw [List.getElem?_append_left hlt]; exact hq
    · rw [List.getElem?_append_left hlt]; exact hq
  obtain ⟨h1, e1, g1⟩ := push_ok hw o'
    ⟨fun h => (by rw [hk'] at h; cases h), fun h => (by rw [hk'] at h; cases h), fun _ => hcomp⟩
  refine ⟨?_, ?_, o', ?_, hk', hp', hcomp⟩
  · exact h1
  · exact e1
  · exact g1

theorem getIsCompleted_ok {w : FWorld} (hw : HeapOK w) (need : List FT) (hnd : need.Nodup) :
    HeapOK (w.getIsCompleted need).1 ∧ WExt w (w.getIsCompleted need).1 := by
  unfold FWorld.getIsCompleted
  cases w.findObs .isCompleted need with
  | some id => exact ⟨hw, WExt.refl w⟩
  | none =>
    simp only
    have hb : ((({ kind := .isCompleted, fts := need } : FObs).zeroed w.cfg.I)).Shaped w.cfg.I := zeroed_shaped _ _ hnd
    obtain ⟨a, b, c⟩ := push_single_ok hw _ rfl hb
    obtain ⟨h2, e2⟩ := isCompletedInit_ok a c
    exact ⟨h2, b.trans e2⟩

theorem constructResidual_ok {w : FWorld} (hw : HeapOK w) (g : Graph) (hg : GInv g) (rm rj : Bool) :
    ∀ w' id, w.constructResidual g rm rj = (w', some id) →
      HeapOK w' ∧ WExt w w' ∧ ∃ o, w'.heap[id]? = some o ∧ o.kind = .residual ∧ o.graph0 = g ∧ o.graph = g := by
  intro w' id h
  unfold FWorld.constructResidual at h
  split at h
  · cases h
  · simp only at h
    have hnd : ((if rm then [FT.machines] else []) ++ (if rj then [FT.jobs] else [])).Nodup := by
      cases rm <;> cases rj <;> decide
    generalize hneed : ((if rm then [FT.machines] else []) ++ (if rj then [FT.jobs] else [])) = need at h hnd
    have hstep : ∀ (w1 : FWorld) (parts : List Nat), HeapOK w1 → WExt w w1 →
        ((w1.push { kind := .residual, parts := parts, graph := g, graph0 := g, rmMach := rm, rmJob := rj }).1,
          some (w1.push { kind := .residual, parts := parts, graph := g, graph0 := g, rmMach := rm, rmJob := rj }).2)
          = (w', some id) →
        HeapOK w' ∧ WExt w w' ∧ ∃ o, w'.heap[id]? = some o ∧ o.kind = .residual ∧ o.graph0 = g ∧ o.graph = g := by
      intro w1 parts h1 e1 heq
      simp only [Prod.mk.injEq, Option.some.injEq] at heq
      obtain ⟨rfl, rfl⟩ := heq
      obtain ⟨a, b, c⟩ := push_ok h1
        ({ kind := .residual, parts := parts, graph := g, graph0 := g, rmMach := rm, rmJob := rj } : FObs)
        ⟨fun h => (by cases h), fun _ => ⟨hg, SizeLe.refl g, hg⟩, fun h => (by cases h)⟩
      exact ⟨a, e1.trans b, _, c, rfl, rfl, rfl⟩
    by_cases hne : need.isEmpty = true
    · rw [if_pos hne] at h
      exact hstep w [] hw (WExt.refl w) h
    · rw [if_neg hne] at h
      obtain ⟨h1, e1⟩ := getIsCompleted_ok hw need hnd
      exact hstep _ _ h1 e1 h

/-! ## the environment invariant -/

structure EnvOK (e : Env) : Prop where
  heap : HeapOK e.w
  upd : ∃ o, e.w.heap[e.upd]? = some o ∧ o.kind = .residual ∧
    o.graph0.nodes.length = e.space.nNodes ∧ o.graph0.edges.length = e.space.nEdges
  comp : ∃ o, e.w.heap[e.comp]? = some o ∧ o.kind = .composite ∧
    e.space.feats = shapeF e.w.cfg.I ((o.parts.filterMap fun i => e.w.heap[i]?).map (·.fts))
  act : e.space.nJobs = e.w.cfg.I.length ∧ e.space.nMachines = numMachines e.w.cfg.I

/-- the feature types of a composite's parts do not change along an extension -/
theorem parts_fts_ext {w w' : FWorld} (e : WExt w w') (parts : List Nat)
    (hp : ∀ i ∈ parts, ∃ q, w.heap[i]? = some q ∧ q.kind.single = true) :
    (parts.filterMap fun i => w'.heap[i]?).map (·.fts) = (parts.filterMap fun i => w.heap[i]?).map (·.fts) := by
  induction parts with
  | nil => rfl
  | cons a t ih =>
    obtain ⟨q, hq, hs⟩ := hp a (by simp)
    obtain ⟨q', hq', _, _, _, hf⟩ := e.step a q hq
    simp only [List.filterMap_cons, hq, hq', List.map_cons]
    rw [ih (fun i hi => hp i (by simp [hi])), hf hs]

theorem EnvOK.ext {e : Env} (h : EnvOK e) {w' : FWorld} (hw' : HeapOK w') (ex : WExt e.w w') :
    EnvOK { e with w := w' } := by
  obtain ⟨o, ho, hk, hn, he⟩ := h.upd
  obtain ⟨o', ho', hk', _, hg0, _⟩ := ex.step _ o ho
  obtain ⟨c, hc, hkc, hf⟩ := h.comp
  obtain ⟨c', hc', hkc', hpc', _⟩ := ex.step _ c hc
  refine ⟨hw', ⟨o', ho', hk'.trans hk, by rw [hg0]; exact hn, by rw [hg0]; exact he⟩, ⟨c', hc', hkc'.trans hkc, ?_⟩, ?_⟩
  · simp only
    rw [ex.cfg, hpc', hf]
    obtain ⟨_, _, hall⟩ := (h.heap _ c hc).comp hkc
    rw [parts_fts_ext ex c.parts (fun i hi => by
      obtain ⟨_, q, _, hq, hs, _⟩ := hall i hi; exact ⟨q, hq, hs⟩)]
  · simp only
    rw [ex.cfg]; exact h.act

theorem Env.step_envOK {e : Env} (h : EnvOK e) (job : Nat) (machine : Int) : EnvOK (e.step job machine).1 := by
  unfold Env.step
  by_cases h1 : job ≥ e.w.cfg.I.length
  · simp only [if_pos h1]; exact h
  · simp only [if_neg h1]
    by_cases h2 : e.w.s.jobIdx.getD job 0 ≥ (e.w.cfg.I.getD job []).length
    · simp only [if_pos h2]; exact h
    · simp only [if_neg h2]
      obtain ⟨hd, ed⟩ := dispatch_ok' h.heap job (e.w.s.jobIdx.getD job 0) (if machine == -1 then none else some machine)
      rcases hdd : e.w.dispatch job (e.w.s.jobIdx.getD job 0) (if machine == -1 then none else some machine) with ⟨w', b⟩
      rw [hdd] at hd ed
      cases b with
      | false => exact h
      | true =>
        simp only
        cases ({ e with w := w' } : Env).observation with
        | none => exact h.ext hd ed
        | some o => exact h.ext hd ed

theorem Env.reset_envOK {e : Env} (h : EnvOK e) : EnvOK e.reset.1 := by
  unfold Env.reset
  obtain ⟨hr, er⟩ := reset_ok' h.heap
  exact h.ext hr er

end JS

namespace JS

theorem construct_plain_keep (w : FWorld) (kind : FKind)
    (hk : kind = .unscheduled ∨ kind = .history ∨ kind = .makespanReward ∨ kind = .idleReward)
    (k : Nat) (o : FObs) (h : w.heap[k]? = some o) : (w.construct kind none).1.heap[k]? = some o := by
  have hlt : k < w.heap.length := (List.getElem?_eq_some_iff.1 h).1
  rcases hk with rfl | rfl | rfl | rfl
  all_goals
    simp only [FWorld.construct]
    split
    · exact h
    · simp only [FWorld.push]
      rw [List.getElem?_append_left hlt]; exact h

theorem heapOK_init (c : Cfg) : HeapOK (FWorld.init c) := by
  intro k o h
  simp [FWorld.init] at h

/-- **the constructor establishes the invariant** -/
theorem Env.make_envOK {c : Cfg} {ec : EnvCfg} {e : Env} (hf : FeatsOK ec.feats) (h : Env.make c ec = some e) :
    EnvOK e ∧ e.w.cfg = c ∧ e.ec = ec := by
  unfold Env.make at h
  cases h1 : constructFeats (FWorld.init c) ec.feats with
  | none => rw [h1] at h; cases h
  | some r1 =>
    obtain ⟨w1, ids⟩ := r1
    rw [h1] at h
    simp only at h
    obtain ⟨hw1, e1, g1⟩ := constructFeats_ok ec.feats _ (heapOK_init c) hf w1 ids h1
    rcases h2 : w1.constructComposite (some ids) with ⟨w2, ocomp⟩
    rw [h2] at h
    cases ocomp with
    | none => simp only at h; cases h
    | some comp =>
      simp only at h
      obtain ⟨hw2, e2, oc, hoc, hkc, hpc, _⟩ := constructComposite_ok hw1 ids g1 w2 comp h2
      rcases h3 : w2.constructResidual (build ec.builder c.I) ec.rmMach ec.rmJob with ⟨w3, oupd⟩
      rw [h3] at h
      cases oupd with
      | none => simp only at h; cases h
      | some upd =>
        simp only at h
        obtain ⟨hw3, e3, ou, hou, hku, hg0, hg⟩ := constructResidual_ok hw2 _ (C17_built_inv ec.builder c.I) _ _ w3 upd h3
        by_cases hrw : (ec.reward != .makespanReward && ec.reward != .idleReward) = true
        · rw [if_pos hrw] at h; cases h
        · rw [if_neg hrw] at h
          have hrk : ec.reward = .makespanReward ∨ ec.reward = .idleReward := by
            cases hr : ec.reward <;> simp [hr] at hrw ⊢
          have hplain : ec.reward = .unscheduled ∨ ec.reward = .history ∨ ec.reward = .makespanReward ∨ ec.reward = .idleReward := by
            rcases hrk with h | h
            · exact Or.inr (Or.inr (Or.inl h))
            · exact Or.inr (Or.inr (Or.inr h))
          obtain ⟨hw4, e4, _⟩ := construct_plain hw3 ec.reward hplain
          have k4 := construct_plain_keep w3 ec.reward hplain
          rcases h4 : w3.construct ec.reward none with ⟨w4, orew⟩
          rw [h4] at h hw4 e4 k4
          cases orew with
          | none => simp only at h; cases h
          | some rew =>
            simp only at h hw4 e4 k4
            obtain ⟨hw5, e5, _⟩ := construct_plain hw4 .history (Or.inr (Or.inl rfl))
            have k5 := construct_plain_keep w4 .history (Or.inr (Or.inl rfl))
            rcases h5 : w4.construct .history none with ⟨w5, ohist⟩
            rw [h5] at h hw5 e5 k5
            cases ohist with
            | none => simp only at h; cases h
            | some hid =>
              simp only [Option.some.injEq] at h hw5 e5 k5
              subst h
              have hcfg : w5.cfg = c := by
                rw [e5.cfg, e4.cfg, e3.cfg, e2.cfg, e1.cfg]; rfl
              have hou5 : w5.heap[upd]? = some ou := k5 _ _ (k4 _ _ hou)
              obtain ⟨oc5, hoc5, hkc5, hpc5, _⟩ := (e3.trans (e4.trans e5)).step comp oc hoc
              refine ⟨⟨hw5, ⟨ou, hou5, hku, ?_, ?_⟩, ⟨oc5, hoc5, hkc5.trans hkc, ?_⟩, ?_⟩, hcfg, rfl⟩
              · simp only [getD_of_some hou5, hg, hg0]
              · simp only [getD_of_some hou5, hg, hg0]
              · simp only [getD_of_some hoc5]
                obtain ⟨hp, hcols, hall⟩ := (hw5 comp oc5 hoc5).comp (hkc5.trans hkc)
                have hsh : ∀ o ∈ oc5.parts.filterMap (fun i => hp[i]?), o.Shaped w5.cfg.I := by
                  intro o ho
                  obtain ⟨i, hi, hio⟩ := List.mem_filterMap.1 ho
                  obtain ⟨p, q, hpi, _, _, hps, _⟩ := hall i hi
                  rw [hpi] at hio; cases hio; exact hps
                rw [hcols, (compositeCols_shape hp oc5.parts hsh).1]
                congr 1
                -- the parts' feature types in `hp` are those in the current heap
                have : ∀ (l : List Nat), (∀ i ∈ l, i ∈ oc5.parts) →
                    (l.filterMap fun i => hp[i]?).map (·.fts) = (l.filterMap fun i => w5.heap[i]?).map (·.fts) := by
                  intro l
                  induction l with
                  | nil => intro _; rfl
                  | cons a t ih =>
                    intro hsub
                    obtain ⟨p, q, hpi, hqi, _, _, hfq⟩ := hall a (hsub a (by simp))
                    simp only [List.filterMap_cons, hpi, hqi, List.map_cons, hfq]
                    rw [ih (fun i hi => hsub i (by simp [hi]))]
                exact this _ (fun _ h => h)
              · simp only; rw [hcfg]; exact ⟨rfl, rfl⟩

end JS

import JobShopModel.Generator
import JobShopModel.Env
/-!
# A refusing generator (C19, C18)

`generate()` draws from the generator's own `random.Random`.  When it raises in the middle, the draws made before the
failing call stay consumed, the name counter is not advanced, and nothing else of the generator changes.  The model
carries the draws left at the moment of the failure in the error (`GenFail.draws`); `GenState.next` and
`MultiEnv.reset` put them into the generator state.
-/
namespace JS

/-- `d` is what is left of `draws` after some number of draws -/
def IsDrop (d draws : List Nat) : Prop := ∃ k, d = draws.drop k

theorem IsDrop.refl (draws : List Nat) : IsDrop draws draws := ⟨0, rfl⟩

theorem IsDrop.tail (draws : List Nat) : IsDrop draws.tail draws := ⟨1, by simp⟩

theorem IsDrop.trans {a b c : List Nat} (h1 : IsDrop a b) (h2 : IsDrop b c) : IsDrop a c := by
  obtain ⟨k1, rfl⟩ := h1
  obtain ⟨k2, rfl⟩ := h2
  exact ⟨k2 + k1, by rw [List.drop_drop]⟩

/-- the draws a call leaves behind, whether it returns or raises -/
def rest {α : Type} (r : Except GenFail (α × List Nat)) : List Nat :=
  match r with
  | .error f => f.draws
  | .ok (_, d) => d

theorem randintN_rest (a b : Nat) (draws : List Nat) : IsDrop (rest (randintN a b draws)) draws := by
  unfold randintN
  split
  · exact IsDrop.tail draws
  · exact IsDrop.refl draws

theorem randintI_rest (a b : Int) (draws : List Nat) : IsDrop (rest (randintI a b draws)) draws := by
  unfold randintI
  split
  · exact IsDrop.tail draws
  · exact IsDrop.refl draws

theorem choiceN_rest (seq draws : List Nat) : IsDrop (rest (choiceN seq draws)) draws := by
  unfold choiceN
  split
  · exact IsDrop.refl draws
  · exact IsDrop.tail draws

theorem chooseMany_rest : ∀ (k : Nat) (avail draws : List Nat), IsDrop (rest (chooseMany k avail draws)) draws
  | 0, _, draws => IsDrop.refl draws
  | k + 1, avail, draws => by
    have h1 := choiceN_rest avail draws
    unfold chooseMany
    cases hc : choiceN avail draws with
    | error e => rw [hc] at h1; exact h1
    | ok r =>
      obtain ⟨m, d1⟩ := r
      rw [hc] at h1
      have h2 := chooseMany_rest k (avail.erase m) d1
      simp only
      cases hm : chooseMany k (avail.erase m) d1 with
      | error e => rw [hm] at h2; exact h2.trans h1
      | ok r2 => obtain ⟨ms, d2⟩ := r2; rw [hm] at h2; exact h2.trans h1

/-- the draws `create_random_operation` leaves behind -/
def restOp (r : Except GenFail (Op × List Nat × List Nat)) : List Nat :=
  match r with
  | .error f => f.draws
  | .ok (_, _, d) => d

theorem genOp_rest (p : GenParams) (avail draws : List Nat) : IsDrop (restOp (genOp p avail draws)) draws := by
  have h1 := randintI_rest p.durRange.1 p.durRange.2 draws
  unfold genOp
  cases hr : randintI p.durRange.1 p.durRange.2 draws with
  | error e => rw [hr] at h1; exact h1
  | ok r =>
    obtain ⟨dur, d1⟩ := r
    rw [hr] at h1
    simp only
    split
    · have h2 := randintN_rest p.mpo.1 p.mpo.2 d1
      cases hk : randintN p.mpo.1 p.mpo.2 d1 with
      | error e => rw [hk] at h2; exact h2.trans h1
      | ok r2 =>
        obtain ⟨k, d2⟩ := r2
        rw [hk] at h2
        have h3 := chooseMany_rest k avail d2
        simp only
        cases hm : chooseMany k avail d2 with
        | error e => rw [hm] at h3; exact (h3.trans h2).trans h1
        | ok r3 => obtain ⟨ms, d3⟩ := r3; rw [hm] at h3; exact (h3.trans h2).trans h1
    · have h2 := choiceN_rest avail d1
      cases hc : choiceN avail d1 with
      | error e => rw [hc] at h2; exact h2.trans h1
      | ok r2 => obtain ⟨m, d2⟩ := r2; rw [hc] at h2; exact h2.trans h1

theorem genJob_rest (p : GenParams) : ∀ (n : Nat) (avail draws : List Nat), IsDrop (rest (genJob p n avail draws)) draws
  | 0, _, draws => IsDrop.refl draws
  | n + 1, avail, draws => by
    have h1 := genOp_rest p avail draws
    unfold genJob
    cases ho : genOp p avail draws with
    | error e => rw [ho] at h1; exact h1
    | ok r =>
      obtain ⟨op, avail', d1⟩ := r
      rw [ho] at h1
      have h2 := genJob_rest p n avail' d1
      simp only
      cases hj : genJob p n avail' d1 with
      | error e => rw [hj] at h2; exact h2.trans h1
      | ok r2 => obtain ⟨ops, d2⟩ := r2; rw [hj] at h2; exact h2.trans h1

theorem genJobs_rest (p : GenParams) (nm : Nat) : ∀ (n : Nat) (draws : List Nat), IsDrop (rest (genJobs p nm n draws)) draws
  | 0, draws => IsDrop.refl draws
  | n + 1, draws => by
    have h1 := genJob_rest p nm (List.range nm) draws
    unfold genJobs
    cases hj : genJob p nm (List.range nm) draws with
    | error e => rw [hj] at h1; exact h1
    | ok r =>
      obtain ⟨job, d1⟩ := r
      rw [hj] at h1
      have h2 := genJobs_rest p nm n d1
      simp only
      cases hjs : genJobs p nm n d1 with
      | error e => rw [hjs] at h2; exact h2.trans h1
      | ok r2 => obtain ⟨jobs, d2⟩ := r2; rw [hjs] at h2; exact h2.trans h1

/-- the draws `generate()` leaves behind -/
def restGen (r : Except GenFail (Instance × Nat × List Nat)) : List Nat :=
  match r with
  | .error f => f.draws
  | .ok (_, _, d) => d

/-- `generate()` consumes a prefix of the stream, whether it returns or raises -/
theorem generate_rest (p : GenParams) (draws : List Nat) : IsDrop (restGen (generate p draws)) draws := by
  have h1 := randintN_rest p.jobsRange.1 p.jobsRange.2 draws
  unfold generate
  cases hj : randintN p.jobsRange.1 p.jobsRange.2 draws with
  | error e => rw [hj] at h1; exact h1
  | ok r =>
    obtain ⟨nj, d1⟩ := r
    rw [hj] at h1
    simp only
    have h2 := randintN_rest p.machinesRange.1 (if p.allowLess then p.machinesRange.2 else min nj p.machinesRange.2) d1
    cases hm : randintN p.machinesRange.1 (if p.allowLess then p.machinesRange.2 else min nj p.machinesRange.2) d1 with
    | error e => rw [hm] at h2; exact h2.trans h1
    | ok r2 =>
      obtain ⟨nm, d2⟩ := r2
      rw [hm] at h2
      have h3 := genJobs_rest p nm nj d2
      simp only
      cases hjs : genJobs p nm nj d2 with
      | error e => rw [hjs] at h3; exact (h3.trans h2).trans h1
      | ok r3 => obtain ⟨jobs, d3⟩ := r3; rw [hjs] at h3; exact (h3.trans h2).trans h1

/-- `generate(num_jobs, num_machines)` with both sizes given consumes a prefix of the stream too; the "fewer jobs than
machines" check raises without drawing -/
theorem generateFixed_rest (p : GenParams) (nj nm : Nat) (draws : List Nat) :
    IsDrop (restGen (generateFixed p nj nm draws)) draws := by
  unfold generateFixed
  split
  · exact IsDrop.refl draws
  · have h := genJobs_rest p nm nj draws
    cases hjs : genJobs p nm nj draws with
    | error e => rw [hjs] at h; exact h
    | ok r => obtain ⟨jobs, d⟩ := r; rw [hjs] at h; exact h

/-- what a refusing `generate()` call on the generator object leaves: the error and the draws of the model's `generate`,
every other field as it was -/
theorem next_error_iff (p : GenParams) (g : GenState) (e : GenErr) (g' : GenState) :
    g.next p = .error (e, g') ↔ ∃ f, generate p g.draws = .error f ∧ e = f.err ∧ g' = { g with draws := f.draws } := by
  unfold GenState.next
  cases hg : generate p g.draws with
  | error f =>
    simp only [Except.error.injEq, Prod.mk.injEq]
    constructor
    · rintro ⟨rfl, rfl⟩; exact ⟨f, rfl, rfl, rfl⟩
    · rintro ⟨f', rfl, rfl, rfl⟩; exact ⟨rfl, rfl⟩
  | ok r =>
    obtain ⟨I, n, d⟩ := r
    simp only [reduceCtorEq, false_and, exists_false]

/-- **C19 (refusal).** A refusing `generate()` keeps the name counter (and the iteration state) and leaves exactly the
draws not yet used. -/
theorem C19_refusal_state (p : GenParams) (g : GenState) (e : GenErr) (g' : GenState) (h : g.next p = .error (e, g')) :
    g'.counter = g.counter ∧ ∃ k, g'.draws = g.draws.drop k := by
  obtain ⟨f, hf, _, rfl⟩ := (next_error_iff p g e g').1 h
  have := generate_rest p g.draws
  rw [hf] at this
  exact ⟨rfl, this⟩

/-- the iteration state is not touched by a refusing call either -/
theorem C19_refusal_iter (p : GenParams) (g : GenState) (e : GenErr) (g' : GenState) (h : g.next p = .error (e, g')) :
    g'.iter = g.iter := by
  obtain ⟨f, _, _, rfl⟩ := (next_error_iff p g e g').1 h
  rfl

/-- **C19 (refusal is deterministic).** Refusal is a property of the parameters and the draws only: the same generator
state refuses the same way again (no hidden state). -/
theorem C19_refusal_deterministic (p : GenParams) (g h : GenState) (hd : g.draws = h.draws) (e : GenErr) (g' : GenState)
    (hg : g.next p = .error (e, g')) : ∃ h', h.next p = .error (e, h') ∧ h'.draws = g'.draws := by
  obtain ⟨f, hf, rfl, rfl⟩ := (next_error_iff p g _ g').1 hg
  rw [hd] at hf
  exact ⟨{ h with draws := f.draws }, (next_error_iff p h _ _).2 ⟨f, hf, rfl, rfl⟩, rfl⟩

/-- a pass over the generator that ends with a refusal: the names given out before stay given out (the counter only
grows) and the stream is further on -/
theorem iterate_refusal_state (p : GenParams) : ∀ (n : Nat) (g : GenState) (e : GenErr) (g' : GenState),
    iterate p n g = .error (e, g') → g.counter ≤ g'.counter ∧ g'.counter < g.counter + n ∧ ∃ k, g'.draws = g.draws.drop k
  | 0, g, e, g', h => by simp [iterate] at h
  | n + 1, g, e, g', h => by
    simp only [iterate] at h
    cases hn : g.next p with
    | error r =>
      obtain ⟨e1, g1⟩ := r
      rw [hn] at h
      simp only [Except.error.injEq, Prod.mk.injEq] at h
      obtain ⟨rfl, rfl⟩ := h
      obtain ⟨hc, hk⟩ := C19_refusal_state p g e1 g1 hn
      exact ⟨by omega, by omega, hk⟩
    | ok r =>
      obtain ⟨I, name, g1⟩ := r
      rw [hn] at h
      simp only at h
      have hg1 : g1.counter = g.counter + 1 ∧ IsDrop g1.draws g.draws := by
        unfold GenState.next at hn
        have hr := generate_rest p g.draws
        cases hg : generate p g.draws with
        | error f => rw [hg] at hn; cases hn
        | ok r3 =>
          obtain ⟨I', nm, d⟩ := r3
          rw [hg] at hn hr
          cases hn
          exact ⟨rfl, hr⟩
      cases hr : iterate p n g1 with
      | ok r2 => obtain ⟨l, g2⟩ := r2; rw [hr] at h; cases h
      | error r2 =>
        obtain ⟨e2, g2⟩ := r2
        rw [hr] at h
        simp only [Except.error.injEq, Prod.mk.injEq] at h
        obtain ⟨rfl, rfl⟩ := h
        obtain ⟨h1, h2, h3⟩ := iterate_refusal_state p n g1 e2 g2 hr
        exact ⟨by omega, by omega, IsDrop.trans h3 hg1.2⟩

/-- a refusing generator makes `reset()` raise -/
theorem C18_multi_refusal_raises (m : MultiEnv) (e : GenErr) (g' : GenState) (hg : m.gs.next m.p = .error (e, g')) :
    (m.reset).2 = none := by
  unfold MultiEnv.reset
  rw [hg]

/-- **C18 (refused reset).** A multi-environment whose generator refuses on `reset()` raises, keeps its configuration,
spaces and current single environment, and only its generator moves on. -/
theorem C18_multi_refused_reset (m : MultiEnv) (_h : (m.reset).2 = none) (e : GenErr) (g' : GenState)
    (hg : m.gs.next m.p = .error (e, g')) :
    (m.reset).1 = { m with gs := g' } := by
  unfold MultiEnv.reset
  rw [hg]

/-- the generator of a multi-environment after a refused `reset()`: same counter, the draws not yet used -/
theorem C18_multi_refused_reset_gen (m : MultiEnv) (e : GenErr) (g' : GenState) (hg : m.gs.next m.p = .error (e, g')) :
    (m.reset).1.gs.counter = m.gs.counter ∧ ∃ k, (m.reset).1.gs.draws = m.gs.draws.drop k := by
  rw [C18_multi_refused_reset m (C18_multi_refusal_raises m e g' hg) e g' hg]
  exact C19_refusal_state m.p m.gs e g' hg

/-! non-vacuity: one job is drawn, then `randint(2, min 1 3)` refuses; the first draw stays consumed -/
example : GenState.next { jobsRange := (1, 3), machinesRange := (2, 3), durRange := (1, 9), allowLess := false }
    { draws := [0, 5, 7], counter := 4 } = .error (.emptyRange, { draws := [5, 7], counter := 4 }) := by rfl

/-! a refusal in the middle of the operations: `choice([])` after the job's machines ran out (more operations per
job than machines cannot happen in `generate`, so the helper is called directly) -/
example : genJob { jobsRange := (1, 1), machinesRange := (1, 1), durRange := (1, 9) } 2 [0] [3, 4, 5, 6, 7] =
    .error ⟨.emptyChoice, [6, 7]⟩ := by rfl

/-! the second pass of a generator starts where the refused one stopped -/
example : iterate { jobsRange := (1, 3), machinesRange := (2, 3), durRange := (1, 9), allowLess := false } 2
    { draws := [1, 0, 4, 0, 2, 1, 6, 0, 3, 1, 0, 9, 9] } =
    .error (.emptyRange, { draws := [9, 9], counter := 1 }) := by rfl

example : ((({ (default : MultiEnv) with
      p := { jobsRange := (1, 3), machinesRange := (2, 3), durRange := (1, 9), allowLess := false },
      gs := { draws := [0, 5, 7], counter := 4 } }).reset).1.gs, 0) =
    (({ draws := [5, 7], counter := 4 } : GenState), 0) := by decide

end JS

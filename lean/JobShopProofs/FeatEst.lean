import JobShopProofs.FeatureSpecs
/-!
# EarliestStartTimeObserver: the matrix and the columns agree with the from-scratch specification

`estRow`/`estCompute` (the model of `_compute_earliest_start_times`) establish `EstOK`, whatever the old matrix
held; the constructor's cumulative durations are the specification in the initial state; the three columns
written by `initialize_features` are the specification minus the current time.
-/
namespace JS

/-! ## list helpers -/

private theorem drop_zipIdx' {α} : ∀ (l : List α) (k n : Nat), (l.zipIdx k).drop n = (l.drop n).zipIdx (k + n)
  | [], k, n => by simp
  | a :: t, k, 0 => by simp
  | a :: t, k, n + 1 => by
    simp only [List.zipIdx_cons, List.drop_succ_cons]
    rw [drop_zipIdx' t (k + 1) n]
    congr 1; omega

private theorem flatMap_congr' {α β} (f g : α → List β) : ∀ (l : List α), (∀ a ∈ l, f a = g a) → l.flatMap f = l.flatMap g
  | [], _ => rfl
  | a :: t, h => by
    simp only [List.flatMap_cons]
    rw [h a (by simp), flatMap_congr' f g t (fun b hb => h b (by simp [hb]))]

private theorem getElem_eq_getD' {α} (l : List α) (i : Nat) (h : i < l.length) (d : α) : l[i] = l.getD i d := by
  simp [List.getD_eq_getElem?_getD, List.getElem?_eq_getElem h]

private theorem getD_map_range {β} (f : Nat → β) (n j : Nat) (d : β) (h : j < n) : ((List.range n).map f).getD j d = f j := by
  simp [List.getD_eq_getElem?_getD, List.getElem?_range h]

private theorem filter_range_not_lt (k : Nat) : ∀ n,
    (List.range n).filter (fun p => !decide (p < k)) = (List.range n).drop k
  | 0 => by simp
  | n + 1 => by
    rw [List.range_succ, List.filter_append, filter_range_not_lt k n]
    by_cases h : n < k
    · have h1 : (List.range n).drop k = [] := by
        apply List.drop_eq_nil_of_le; simp; omega
      have h2 : (List.range n ++ [n]).drop k = [] := by
        apply List.drop_eq_nil_of_le; simp; omega
      rw [h1, h2]; simp [h]
    · rw [List.drop_append_of_le_length (by simp; omega)]
      simp [h]

/-- the unscheduled operations are the operations of the instance that are not scheduled, in id order -/
theorem filter_allOps_unscheduled (I : Instance) (s : State) :
    (allOps I).filter (fun r => !isScheduled s r) = unscheduledPure I s := by
  unfold allOps unscheduledPure
  rw [List.filter_flatMap]
  apply flatMap_congr'
  intro j _
  rw [List.filter_map]
  simp only
  congr 1
  exact filter_range_not_lt (s.jobIdx.getD j 0) _

theorem mem_unsched_iff {I : Instance} {s : State} {r : OpRef} :
    r ∈ unscheduledPure I s ↔ r.1 < I.length ∧ s.jobIdx.getD r.1 0 ≤ r.2 ∧ r.2 < (I.getD r.1 []).length := by
  obtain ⟨j, p⟩ := r
  unfold unscheduledPure
  simp only [List.mem_flatMap, List.mem_range, List.mem_map, Prod.mk.injEq]
  constructor
  · rintro ⟨j', hj', p', hp', rfl, rfl⟩
    have hm := List.mem_of_mem_drop hp'
    simp only [List.mem_range] at hm
    refine ⟨hj', ?_, hm⟩
    obtain ⟨i, hi, hip⟩ := List.getElem_of_mem hp'
    simp only [List.getElem_drop, List.getElem_range] at hip
    omega
  · rintro ⟨hj, h1, h2⟩
    refine ⟨j, hj, p, ?_, rfl, rfl⟩
    rw [List.mem_iff_getElem]
    refine ⟨p - s.jobIdx.getD j 0, by rw [List.length_drop, List.length_range]; omega, ?_⟩
    simp only [List.getElem_drop, List.getElem_range]
    omega

theorem mem_allOps_of_unscheduled {I : Instance} {s : State} {r : OpRef} (h : r ∈ unscheduledPure I s) :
    r ∈ allOps I := by
  rw [mem_allOps', getD_length_of_getOp]
  exact (mem_unsched_iff.1 h).2.2

/-! ## one row -/

/-- the step of the loop of `_compute_earliest_start_times` -/
def estStep (s : State) (acc : List Int × Int) (opi : Op × Nat) : List Int × Int :=
  (acc.1.set opi.2 (max acc.2 (((opi.1.machines.map fun m => s.machNext.getD m 0).min?).getD 0)),
   max acc.2 (((opi.1.machines.map fun m => s.machNext.getD m 0).min?).getD 0) + opi.1.dur)

theorem estRow_eq (s : State) (j : Nat) (job : List Op) (row : List Int) :
    estRow s j job row =
      (((job.drop (s.jobIdx.getD j 0)).zipIdx (s.jobIdx.getD j 0)).foldl (estStep s) (row, s.jobNext.getD j 0)).1 := by
  unfold estRow
  simp only
  rw [drop_zipIdx' job 0 (s.jobIdx.getD j 0), Nat.zero_add]
  rfl

theorem estChain_length (s : State) : ∀ (ops : List Op) (acc : Int), (estChain s ops acc).length = ops.length
  | [], _ => rfl
  | op :: rest, acc => by simp [estChain, estChain_length s rest]

theorem estFold_spec (s : State) : ∀ (ops : List Op) (k : Nat) (row : List Int) (acc : Int),
    k + ops.length ≤ row.length →
    ((ops.zipIdx k).foldl (estStep s) (row, acc)).1.length = row.length ∧
    (∀ p, p < k → ((ops.zipIdx k).foldl (estStep s) (row, acc)).1.getD p 0 = row.getD p 0) ∧
    (∀ p, k ≤ p → p < k + ops.length →
      ((ops.zipIdx k).foldl (estStep s) (row, acc)).1.getD p 0 = (estChain s ops acc).getD (p - k) 0)
  | [], k, row, acc, _ => by
    refine ⟨rfl, fun _ _ => rfl, ?_⟩
    intro p h1 h2; simp at h2; omega
  | op :: rest, k, row, acc, hlen => by
    simp only [List.length_cons] at hlen
    simp only [List.zipIdx_cons, List.foldl_cons]
    obtain ⟨ih1, ih2, ih3⟩ := estFold_spec s rest (k + 1) (estStep s (row, acc) (op, k)).1
      (estStep s (row, acc) (op, k)).2 (by simp [estStep]; omega)
    have hstep : estStep s (row, acc) (op, k) =
        ((estStep s (row, acc) (op, k)).1, (estStep s (row, acc) (op, k)).2) := rfl
    rw [hstep]
    refine ⟨?_, ?_, ?_⟩
    · rw [ih1]; simp [estStep]
    · intro p hp
      rw [ih2 p (by omega)]
      simp only [estStep]
      rw [getD_set_eq _ _ _ _ (by omega)]
      have : ¬ p = k := by omega
      simp [this]
    · intro p h1 h2
      simp only [List.length_cons] at h2
      by_cases hpk : p = k
      · subst hpk
        rw [ih2 p (by omega)]
        simp only [estStep]
        rw [getD_set_eq _ _ _ _ (by omega)]
        simp [estChain]
      · rw [ih3 p (by omega) (by omega)]
        have : p - k = (p - (k + 1)) + 1 := by omega
        rw [this]
        simp [estChain, estStep]

theorem estRow_spec (s : State) (j : Nat) (job : List Op) (row : List Int) (hlen : row.length = job.length) :
    (estRow s j job row).length = job.length ∧
    ∀ p, s.jobIdx.getD j 0 ≤ p → p < job.length →
      (estRow s j job row).getD p 0 =
        (estChain s (job.drop (s.jobIdx.getD j 0)) (s.jobNext.getD j 0)).getD (p - s.jobIdx.getD j 0) 0 := by
  rw [estRow_eq]
  by_cases hn : s.jobIdx.getD j 0 ≤ job.length
  · obtain ⟨h1, _, h3⟩ := estFold_spec s (job.drop (s.jobIdx.getD j 0)) (s.jobIdx.getD j 0) row (s.jobNext.getD j 0)
      (by rw [List.length_drop]; omega)
    refine ⟨by rw [h1, hlen], ?_⟩
    intro p hp1 hp2
    exact h3 p hp1 (by rw [List.length_drop]; omega)
  · have : job.drop (s.jobIdx.getD j 0) = [] := List.drop_eq_nil_of_le (by omega)
    rw [this]
    refine ⟨by simpa using hlen, ?_⟩
    intro p hp1 hp2; omega

/-! ## the constructor's matrix -/

/-- cumulative durations -/
def cumDur : List Op → Int → List Int
  | [], _ => []
  | op :: rest, acc => acc :: cumDur rest (acc + op.dur)

theorem cumDur_length : ∀ (ops : List Op) (acc : Int), (cumDur ops acc).length = ops.length
  | [], _ => rfl
  | op :: rest, acc => by simp [cumDur, cumDur_length rest]

theorem estInitial_fold : ∀ (job : List Op) (l : List Int) (a : Int),
    (job.foldl (fun (acc : List Int × Int) op => (acc.1 ++ [acc.2], acc.2 + op.dur)) (l, a)).1 = l ++ cumDur job a
  | [], l, a => by simp [cumDur]
  | op :: rest, l, a => by
    simp only [List.foldl_cons]
    rw [estInitial_fold rest]
    simp [cumDur]

theorem estInitial_eq (I : Instance) : estInitial I = I.map fun job => cumDur job 0 := by
  unfold estInitial
  apply List.map_congr_left
  intro job _
  rw [estInitial_fold]; simp

theorem estInitial_getD (I : Instance) (j : Nat) : (estInitial I).getD j [] = cumDur (I.getD j []) 0 := by
  rw [estInitial_eq]
  simp only [List.getD_eq_getElem?_getD, List.getElem?_map]
  cases I[j]? <;> simp [cumDur]

theorem estInitial_shape (I : Instance) :
    (estInitial I).length = I.length ∧ ∀ j, ((estInitial I).getD j []).length = (I.getD j []).length := by
  refine ⟨by simp [estInitial], ?_⟩
  intro j
  rw [estInitial_getD, cumDur_length]

private theorem init_machNext_getD (I : Instance) (m : Nat) : (init I).machNext.getD m 0 = 0 := by
  simp only [init, List.getD_eq_getElem?_getD, List.getElem?_replicate]
  split <;> rfl

private theorem init_jobNext_getD (I : Instance) (j : Nat) : (init I).jobNext.getD j 0 = 0 := by
  simp only [init, List.getD_eq_getElem?_getD, List.getElem?_replicate]
  split <;> rfl

private theorem init_jobIdx_getD (I : Instance) (j : Nat) : (init I).jobIdx.getD j 0 = 0 := by
  simp only [init, List.getD_eq_getElem?_getD, List.getElem?_replicate]
  split <;> rfl

private theorem min?_zeros_getD : ∀ (n : Nat), ((List.replicate n (0 : Int)).min?).getD 0 = 0 := by
  intro n
  rw [List.min?_replicate]
  split <;> rfl

/-- in the initial state every machine is free at 0: a chain that starts at a non-negative time is the
cumulative durations -/
theorem estChain_init (I : Instance) : ∀ (ops : List Op) (acc : Int), 0 ≤ acc → (∀ op ∈ ops, 0 ≤ op.dur) →
    estChain (init I) ops acc = cumDur ops acc
  | [], _, _, _ => rfl
  | op :: rest, acc, hacc, hd => by
    have hz : (op.machines.map fun m => (init I).machNext.getD m 0) = List.replicate op.machines.length 0 := by
      rw [List.eq_replicate_iff]
      refine ⟨by simp, ?_⟩
      intro b hb
      obtain ⟨m, _, rfl⟩ := List.mem_map.1 hb
      exact init_machNext_getD I m
    have hst : max acc (((op.machines.map fun m => (init I).machNext.getD m 0).min?).getD 0) = acc := by
      rw [hz, min?_zeros_getD]; omega
    simp only [estChain, cumDur, hst]
    have h0 : 0 ≤ op.dur := hd op (by simp)
    rw [estChain_init I rest (acc + op.dur) (by omega) (fun o ho => hd o (by simp [ho]))]

private theorem valid_job_dur {I : Instance} (hv : Valid I) (j : Nat) : ∀ op ∈ I.getD j [], 0 ≤ op.dur := by
  intro op hop
  have hj : j < I.length := by
    apply Classical.byContradiction
    intro hn
    have : I.getD j [] = [] := by simp [List.getD_eq_getElem?_getD, List.getElem?_eq_none (Nat.le_of_not_lt hn)]
    rw [this] at hop; cases hop
  have hIj : I.getD j [] = I[j] := by simp [List.getD_eq_getElem?_getD, List.getElem?_eq_getElem hj]
  rw [hIj] at hop
  obtain ⟨p, hp, hpe⟩ := List.getElem_of_mem hop
  have hget : getOp I j p = some op := by
    unfold getOp
    rw [List.getElem?_eq_getElem hj]
    simp only [Option.bind_some]
    rw [List.getElem?_eq_getElem hp, hpe]
  exact (hv j p op hget).2.2

/-! ## the whole matrix -/

theorem estCompute_length (I : Instance) (s : State) (est : List (List Int)) : (estCompute I s est).length = I.length := by
  simp [estCompute]

theorem estCompute_getD (I : Instance) (s : State) (est : List (List Int)) (j : Nat) (hj : j < I.length) :
    (estCompute I s est).getD j [] = estRow s j (I.getD j []) (est.getD j []) := by
  unfold estCompute
  simp only [List.getD_eq_getElem?_getD, List.getElem?_map, List.getElem?_zipIdx, List.getElem?_eq_getElem hj,
    Option.map_some, Option.getD_some, Nat.zero_add]

theorem estCompute_getD_ge (I : Instance) (s : State) (est : List (List Int)) (j : Nat) (hj : ¬ j < I.length) :
    (estCompute I s est).getD j [] = [] := by
  simp [List.getD_eq_getElem?_getD, estCompute_length, Nat.le_of_not_lt hj]

/-- recomputation establishes the specification, whatever the old matrix held (only its shape matters) -/
theorem estCompute_spec (I : Instance) (s : State) (est : List (List Int))
    (hshape : est.length = I.length ∧ ∀ j, (est.getD j []).length = (I.getD j []).length) :
    EstOK I s (estCompute I s est) := by
  refine ⟨estCompute_length I s est, ?_, ?_⟩
  · intro j
    by_cases hj : j < I.length
    · rw [estCompute_getD I s est j hj]
      exact (estRow_spec s j _ _ (hshape.2 j)).1
    · rw [estCompute_getD_ge I s est j hj]
      simp [List.getD_eq_getElem?_getD, List.getElem?_eq_none (Nat.le_of_not_lt hj)]
  · intro r hr
    obtain ⟨hj, h1, h2⟩ := mem_unsched_iff.1 hr
    unfold estAt estSpec
    rw [estCompute_getD I s est r.1 hj]
    exact (estRow_spec s r.1 _ _ (hshape.2 r.1)).2 r.2 h1 h2

/-- the constructor's cumulative durations are the specification in the initial state -/
theorem estInitial_spec (I : Instance) (hv : Valid I) : EstOK I (init I) (estInitial I) := by
  obtain ⟨h1, h2⟩ := estInitial_shape I
  refine ⟨h1, h2, ?_⟩
  intro r _
  unfold estAt estSpec
  simp only [init_jobIdx_getD, init_jobNext_getD, List.drop_zero, Nat.sub_zero]
  rw [estInitial_getD, estChain_init I _ 0 (Int.le_refl 0) (valid_job_dur hv r.1)]

/-- ... and recomputing in the initial state reproduces the constructor's matrix exactly -/
theorem estCompute_init (I : Instance) (hv : Valid I) (est : List (List Int))
    (hshape : est.length = I.length ∧ ∀ j, (est.getD j []).length = (I.getD j []).length) :
    estCompute I (init I) est = estInitial I := by
  have hsh := estInitial_shape I
  apply List.ext_getElem
  · rw [estCompute_length, hsh.1]
  · intro j hj1 hj2
    rw [getElem_eq_getD' _ _ hj1 [], getElem_eq_getD' _ _ hj2 []]
    rw [estCompute_length] at hj1
    rw [estCompute_getD I _ est j hj1]
    obtain ⟨hl, hval⟩ := estRow_spec (init I) j (I.getD j []) (est.getD j []) (hshape.2 j)
    apply List.ext_getElem
    · rw [hl, hsh.2 j]
    · intro p hp1 hp2
      rw [getElem_eq_getD' _ _ hp1 0, getElem_eq_getD' _ _ hp2 0]
      rw [hl] at hp1
      have hc := hval p (by rw [init_jobIdx_getD]; omega) hp1
      simp only [init_jobIdx_getD, init_jobNext_getD, List.drop_zero, Nat.sub_zero] at hc
      rw [estChain_init I _ 0 (Int.le_refl 0) (valid_job_dur hv j), ← estInitial_getD] at hc
      exact hc

/-! ## the columns -/

theorem estCol_ops (c : Cfg) (s : State) (o : FObs) (hok : EstOK c.I s o.est) :
    ∀ r ∈ unscheduledPure c.I s,
      (estCol c s o .operations).getD (opId c.I r) 0 = estSpec c.I s r - currentTimePure c s := by
  intro r hr
  have hmem := mem_allOps_of_unscheduled hr
  have hg := allOps_getElem_opId hmem
  simp only [estCol, List.getD_eq_getElem?_getD, List.getElem?_map, hg, Option.map_some, Option.getD_some]
  rw [hok.2.2 r hr]

theorem estCol_jobs (c : Cfg) (s : State) (o : FObs) (hok : EstOK c.I s o.est) :
    ∀ j, j < c.I.length → s.jobIdx.getD j 0 < (c.I.getD j []).length →
      (estCol c s o .jobs).getD j 0 = estSpec c.I s (j, s.jobIdx.getD j 0) - currentTimePure c s := by
  intro j hj hlt
  have hne : (s.jobIdx.getD j 0 == (c.I.getD j []).length) = false := by
    simp only [beq_eq_false_iff_ne, ne_eq]; omega
  have hr : (j, s.jobIdx.getD j 0) ∈ unscheduledPure c.I s :=
    mem_unsched_iff.2 ⟨hj, Nat.le_refl _, hlt⟩
  simp only [estCol]
  rw [getD_map_range _ _ _ _ hj]
  simp only [hne, Bool.false_eq_true, ↓reduceIte]
  rw [hok.2.2 _ hr]

/-- (`WF c.I s` is not needed.) -/
theorem estCol_machines (c : Cfg) (s : State) (o : FObs) (hok : EstOK c.I s o.est) :
    ∀ m, m < numMachines c.I →
      (estCol c s o .machines).getD m 0 =
        ((((unscheduledPure c.I s).filter (onMachine c.I m)).map (estSpec c.I s)).min?).getD 0 - currentTimePure c s := by
  intro m hm
  have hcand : ∀ f : OpRef → Bool, (∀ r, f r = (!isScheduled s r && onMachine c.I m r)) →
      (allOps c.I).filter f = (unscheduledPure c.I s).filter (onMachine c.I m) := by
    intro f hf
    rw [← filter_allOps_unscheduled, List.filter_filter]
    apply List.filter_congr
    intro r _
    rw [hf r, Bool.and_comm]
  have hmap : ((unscheduledPure c.I s).filter (onMachine c.I m)).map (estAt o.est) =
      ((unscheduledPure c.I s).filter (onMachine c.I m)).map (estSpec c.I s) := by
    apply List.map_congr_left
    intro r hr
    exact hok.2.2 r (List.mem_filter.1 hr).1
  simp only [estCol]
  rw [getD_map_range _ _ _ _ hm, ← hmap]
  exact congrArg (fun l => ((List.map (estAt o.est) l).min?).getD 0 - currentTimePure c s) (hcand _ (fun r => rfl))

end JS

import JobShopProofs.FeatureWorldDefs
/-!
# A dispatch request preserves the value invariant of the feature world

`finv_dispatch`: if `FInv w` then `FInv (w.dispatch j p m).1`, whether the request is accepted or rejected.

Route: an accepted request notifies every subscriber once (`fold_callUpdate_at`); a notification rewrites exactly
the notified observer, by the pure transformer `updObs`; per kind, `updObs` maps `ObsVal` of the old state to
`ObsVal` of the new state (`updObs_spec`).
-/
namespace JS

/-! ## `ObsVal` by kind -/

/-- closes a clause of `ObsVal` whose kind hypothesis contradicts the known kind -/
macro "kind_absurd" hk:ident : tactic =>
  `(tactic| (intro hk'; rw [$hk:ident] at hk'; exact absurd hk' (by decide)))

/-- observers of the kinds `ObsVal` says nothing about -/
theorem obsVal_plain (c : Cfg) (s : State) (o : FObs) (hk : o.kind.single = false) (hu : o.kind ≠ .unscheduled) :
    ObsVal c s o := by
  constructor
  case unsched => intro h; exact absurd h hu
  all_goals (intro hk'; rw [hk'] at hk; exact absurd hk (by decide))

/-! ## the pure transformer behind `callUpdate` -/

/-- what `observer.update(x)` makes of observer `o` (`heap`: the heap it reads, for composites and the residual
updater) -/
def updObs (c : Cfg) (s : State) (x : SOp) (heap : List FObs) (o : FObs) : FObs :=
  match o.kind with
  | .isReady => isReadyFeatures c s o
  | .earliestStart => estFeatures c s { o with est := estCompute c.I s o.est }
  | .duration => durationUpdate c s x o
  | .isScheduled => isScheduledUpdate c s x o
  | .positionInJob => positionUpdate c x o
  | .remainingOps => remainingUpdate x o
  | .isCompleted => isCompletedUpdate c s x o
  | .composite => { o with cols := compositeCols heap o.parts, fts := (compositeCols heap o.parts).map (·.1) }
  | .unscheduled => { o with deques := popJobF o.deques x.job }
  | .history => { o with hist := o.hist ++ [x] }
  | .makespanReward =>
    { o with curMakespan := max o.curMakespan x.end_, rewards := o.rewards ++ [o.curMakespan - max o.curMakespan x.end_] }
  | .idleReward =>
    { o with rewards := o.rewards ++ [-(match ((s.sched.getD x.machine []).dropLast).getLast? with
        | some l => x.start - l.end_ | none => x.start)] }
  | .residual => { o with graph := residualUpdate c s heap o }

theorem callUpdate_eq (w : FWorld) (x : SOp) (id : Nat) (o : FObs) (ho : w.heap[id]? = some o) :
    w.callUpdate x id = w.setObs id (updObs w.cfg w.s x w.heap o) := by
  unfold FWorld.callUpdate updObs
  simp only [ho]
  cases hk : o.kind <;> rfl

/-- folding the callbacks over a duplicate-free subscriber list: the frame is untouched, observers outside the list
are untouched, every observer in the list is rewritten once by `updObs` -/
theorem fold_callUpdate_at (x : SOp) : ∀ (l : List Nat) (w : FWorld), l.Nodup →
    (l.foldl (fun w i => w.callUpdate x i) w).subs = w.subs ∧
    (l.foldl (fun w i => w.callUpdate x i) w).s = w.s ∧
    (l.foldl (fun w i => w.callUpdate x i) w).cfg = w.cfg ∧
    (l.foldl (fun w i => w.callUpdate x i) w).heap.length = w.heap.length ∧
    (∀ k, k ∉ l → (l.foldl (fun w i => w.callUpdate x i) w).heap[k]? = w.heap[k]?) ∧
    (∀ id ∈ l, ∀ o, w.heap[id]? = some o →
      ∃ hp, (l.foldl (fun w i => w.callUpdate x i) w).heap[id]? = some (updObs w.cfg w.s x hp o))
  | [], w, _ => ⟨rfl, rfl, rfl, rfl, fun _ _ => rfl, fun _ h => by cases h⟩
  | a :: t, w, hnd => by
    simp only [List.foldl_cons]
    rw [List.nodup_cons] at hnd
    obtain ⟨i1, i2, i3, i4, i5, i6⟩ := fold_callUpdate_at x t (w.callUpdate x a) hnd.2
    obtain ⟨f1, f2, f3, f4⟩ := callUpdate_frame w x a
    refine ⟨i1.trans f1, i2.trans f2, i3.trans f3, i4.trans f4, ?_, ?_⟩
    · intro k hk
      rw [i5 k (fun h => hk (by simp [h])), (callUpdate_other w x a k (fun h => hk (by simp [h]))).1]
    · intro id hid o ho
      by_cases ha : a = id
      · subst ha
        refine ⟨w.heap, ?_⟩
        rw [i5 a hnd.1, callUpdate_eq w x a o ho]
        have hlt : a < w.heap.length := (List.getElem?_eq_some_iff.1 ho).1
        simp [FWorld.setObs, hlt]
      · have hmem : id ∈ t := by
          rcases List.mem_cons.1 hid with h | h
          · exact absurd h.symm ha
          · exact h
        have ho2 : (w.callUpdate x a).heap[id]? = some o := by
          rw [(callUpdate_other w x a id ha).1]; exact ho
        obtain ⟨hp, hhp⟩ := i6 id hmem o ho2
        rw [f3, f2] at hhp
        exact ⟨hp, hhp⟩


/-! ## per kind: one notification maps `ObsVal` of the old state to `ObsVal` of the new state -/

theorem assignCols_est (o : FObs) (g : FObs → FT → List Int) : (o.assignCols g).est = o.est := by
  unfold FObs.assignCols
  have : ∀ (l : List FT) (o : FObs), (l.foldl (fun o ft => o.setCol ft (g o ft)) o).est = o.est := by
    intro l
    induction l with
    | nil => intro o; rfl
    | cons a t ih => intro o; simp only [List.foldl_cons]; rw [ih]; rfl
  exact this o.fts o

theorem estCol_indep (c : Cfg) (s : State) :
    ∀ (o : FObs) (ft ft' : FT) (cc : List Int), ft ≠ ft' → estCol c s (o.setCol ft' cc) ft = estCol c s o ft := by
  intro o ft ft' cc hne
  cases ft
  · rfl
  · rfl
  · simp only [estCol, col_setCol_other _ _ _ _ hne]
    rfl

theorem durationUpdateCol_indep (c : Cfg) (s : State) (x : SOp) :
    ∀ (o : FObs) (ft ft' : FT) (cc : List Int), ft ≠ ft' →
      durationUpdateCol c s x (o.setCol ft' cc) ft = durationUpdateCol c s x o ft := by
  intro o ft ft' cc hne
  cases ft <;> simp only [durationUpdateCol, col_setCol_other _ _ _ _ hne]

theorem upd_isReady (c : Cfg) (s' : State) (o o' : FObs) (hk : o.kind = .isReady) (hsh : o.Shaped c.I)
    (ho' : o' = isReadyFeatures c s' o) : o'.kind = o.kind ∧ o'.Shaped c.I ∧ ObsVal c s' o' := by
  subst ho'
  have k := keeps_isReadyFeatures c s' hsh
  refine ⟨k.kind, k.shaped, ?_⟩
  have hk' : (isReadyFeatures c s' o).kind = .isReady := k.kind.trans hk
  constructor
  case ready =>
    intro _ ft hft
    rw [k.fts] at hft
    exact C11_isReady c s' o hsh.wf.nodup ft hft
  all_goals kind_absurd hk'

theorem upd_est (c : Cfg) (s s' : State) (o o' : FObs) (hk : o.kind = .earliestStart) (hsh : o.Shaped c.I)
    (hval : ObsVal c s o) (ho' : o' = estFeatures c s' { o with est := estCompute c.I s' o.est }) :
    o'.kind = o.kind ∧ o'.Shaped c.I ∧ ObsVal c s' o' := by
  subst ho'
  have k1 := keeps_withEst hsh (estCompute c.I s' o.est)
  have k2 := keeps_estFeatures c s' k1.shaped
  have k := k1.trans k2
  refine ⟨k.kind, k.shaped, ?_⟩
  have hk' := k.kind.trans hk
  obtain ⟨e1, e2, _⟩ := hval.estM hk
  have hest : EstOK c.I s' ({ o with est := estCompute c.I s' o.est } : FObs).est :=
    estCompute_spec c.I s' o.est ⟨e1, e2⟩
  have hcol : ∀ ft, ft ∈ (estFeatures c s' { o with est := estCompute c.I s' o.est }).fts →
      (estFeatures c s' { o with est := estCompute c.I s' o.est }).col ft =
        estCol c s' { o with est := estCompute c.I s' o.est } ft := by
    intro ft hft
    rw [k2.fts] at hft
    exact (assignCols_col _ (estCol c s') k1.shaped.wf (estCol_indep c s') ft hft).1
  constructor
  case estM =>
    intro _
    unfold estFeatures
    rw [assignCols_est]
    exact hest
  case estOps =>
    intro _ hft r hr
    rw [hcol _ hft]
    exact estCol_ops c s' _ hest r hr
  case estMach =>
    intro _ hft m hm
    rw [hcol _ hft]
    exact estCol_machines c s' _ hest m hm
  case estJobs =>
    intro _ hft j hj hlt
    rw [hcol _ hft]
    exact estCol_jobs c s' _ hest j hj hlt
  all_goals kind_absurd hk'

theorem nonflex_machines {I : Instance} {s s' : State} {j p m : Nat} {op : Op} (hn : NonFlexG I)
    (hd : DispSpec I s s' j p m op) : op.machines = [m] := by
  obtain ⟨m', hm'⟩ := hn j p op hd.hop
  have := hd.hm
  rw [hm'] at this
  simp only [List.mem_singleton] at this
  rw [hm', this]

theorem upd_duration (c : Cfg) {s s' : State} {j p m : Nat} {op : Op} (hwf : WF c.I s)
    (hd : DispSpec c.I s s' j p m op) (o o' : FObs) (hk : o.kind = .duration) (hsh : o.Shaped c.I)
    (hval : ObsVal c s o) (ho' : o' = durationUpdate c s' (newEntry s j p m op) o) :
    o'.kind = o.kind ∧ o'.Shaped c.I ∧ ObsVal c s' o' := by
  subst ho'
  have k := keeps_durationUpdate c s' (newEntry s j p m op) hsh
  refine ⟨k.kind, k.shaped, ?_⟩
  have hk' := k.kind.trans hk
  constructor
  case durOps =>
    intro _ hft
    rw [k.fts] at hft
    exact durationUpdate_ops c hwf hd o hsh.wf hft (hval.durOps hk hft)
  case durJobs =>
    intro _ hft
    rw [k.fts] at hft
    exact (durationUpdate_jobs c hwf hd o hsh.wf hft (hval.durJobs hk hft)).1
  case durMach =>
    intro _ hn hft
    rw [k.fts] at hft
    exact durationUpdate_machines c hwf hd (nonflex_machines hn hd) o hsh.wf hft (hval.durMach hk hn hft)
  all_goals kind_absurd hk'

theorem upd_isScheduled (c : Cfg) {s s' : State} {j p m : Nat} {op : Op} (hc : CInv c.I s) (hc' : CInv c.I s')
    (hd : DispSpec c.I s s' j p m op) (o o' : FObs) (hk : o.kind = .isScheduled) (hsh : o.Shaped c.I)
    (hval : ObsVal c s o) (ho' : o' = isScheduledUpdate c s' (newEntry s j p m op) o) :
    o'.kind = o.kind ∧ o'.Shaped c.I ∧ ObsVal c s' o' := by
  subst ho'
  have k := keeps_isScheduledUpdate c s' (newEntry s j p m op) hsh
  refine ⟨k.kind, k.shaped, ?_⟩
  have hk' := k.kind.trans hk
  have hb := ongoing_bounds c s' hc'
  constructor
  case schOps =>
    intro _ hft
    rw [k.fts] at hft
    have h1 := (assignCols_col o (isScheduledCol c s' (newEntry s j p m op)) hsh.wf
      (isScheduledCol_indep c s' _) .operations hft).1
    unfold isScheduledUpdate
    rw [h1]
    simp only [isScheduledCol, newEntry]
    rw [hval.schOps hk hft, schedOpsSpec_dispatch hc.wf hd]
  case schMach =>
    intro _ hft
    rw [k.fts] at hft
    exact isScheduledUpdate_machines c s' _ o hsh.wf hft (fun y hy => (hb y hy).1)
  case schJobs =>
    intro _ hft
    rw [k.fts] at hft
    exact isScheduledUpdate_jobs c s' _ o hsh.wf hft (fun y hy => (hb y hy).2)
  all_goals kind_absurd hk'

theorem upd_position (c : Cfg) {s s' : State} {j p m : Nat} {op : Op} (hwf : WF c.I s)
    (hd : DispSpec c.I s s' j p m op) (o o' : FObs) (hk : o.kind = .positionInJob) (hsh : o.Shaped c.I)
    (hval : ObsVal c s o) (ho' : o' = positionUpdate c (newEntry s j p m op) o) :
    o'.kind = o.kind ∧ o'.Shaped c.I ∧ ObsVal c s' o' := by
  subst ho'
  have k := keeps_positionUpdate c (newEntry s j p m op) hsh
  refine ⟨k.kind, k.shaped, ?_⟩
  have hk' := k.kind.trans hk
  constructor
  case pos =>
    intro _ hft
    rw [k.fts] at hft
    exact (positionUpdate_spec c hwf hd o hsh.wf hft (hval.pos hk hft)).1
  all_goals kind_absurd hk'

theorem dispatch_ne_init {I : Instance} {s s' : State} {j p m : Nat} {op : Op} (hwf : WF I s)
    (hd : DispSpec I s s' j p m op) : s' ≠ init I := by
  intro h
  have h1 := (dispSpec_vectors hwf hd).2.1 j
  rw [h, init_jobIdx_getD] at h1
  simp at h1

theorem upd_remaining (c : Cfg) {s s' : State} {j p m : Nat} {op : Op} (hwf : WF c.I s)
    (hd : DispSpec c.I s s' j p m op) (o o' : FObs) (hk : o.kind = .remainingOps) (hsh : o.Shaped c.I)
    (hval : ObsVal c s o) (ho' : o' = remainingUpdate (newEntry s j p m op) o) :
    o'.kind = o.kind ∧ o'.Shaped c.I ∧ ObsVal c s' o' := by
  subst ho'
  have k := keeps_remainingUpdate c.I (newEntry s j p m op) hsh
  refine ⟨k.kind, k.shaped, ?_⟩
  have hk' := k.kind.trans hk
  constructor
  case remJobs =>
    intro _ hft
    rw [k.fts] at hft
    exact (remainingUpdate_jobs c.I hwf hd o hsh.wf hft (hval.remJobs hk hft)).1
  case remMach =>
    intro _ hn hft
    rw [k.fts] at hft
    rcases hn with hn | hn
    · exact remainingUpdate_machines c.I hwf hd (nonflex_machines hn hd) o hsh.wf hft
        (hval.remMach hk (Or.inl hn) hft)
    · exact absurd hn (dispatch_ne_init hwf hd)
  all_goals kind_absurd hk'

theorem upd_isCompleted (c : Cfg) {s s' : State} {j p m : Nat} {op : Op} (hwf : WF c.I s)
    (hd : DispSpec c.I s s' j p m op) (hnd : op.machines.Nodup)
    (hmono : ∀ r, r ∈ completedPure c s → r ∈ completedPure c s') (o o' : FObs) (hk : o.kind = .isCompleted)
    (hsh : o.Shaped c.I) (hval : ObsVal c s o) (ho' : o' = isCompletedUpdate c s' (newEntry s j p m op) o) :
    o'.kind = o.kind ∧ o'.Shaped c.I ∧ ObsVal c s' o' := by
  subst ho'
  have k := keeps_isCompletedUpdate c s' (newEntry s j p m op) hsh
  refine ⟨k.kind, k.shaped, ?_⟩
  have hk' := k.kind.trans hk
  constructor
  case cmpOps =>
    intro _ hft
    rw [k.fts] at hft
    exact isCompletedUpdate_ops c s s' _ o hsh.wf hft hmono (hval.cmpOps hk hft)
  case cmpJobs =>
    intro _ hft
    rw [k.fts] at hft
    obtain ⟨a, b⟩ := hval.cmpJobs hk hft
    exact isCompletedUpdate_jobs c hwf hd o hsh.wf hft a b
  case cmpMach =>
    intro _ hft
    rw [k.fts] at hft
    obtain ⟨a, b⟩ := hval.cmpMach hk hft
    exact isCompletedUpdate_machines c hwf hd hnd o hsh.wf hft a b
  all_goals kind_absurd hk'

theorem popJobF_dequesSpec {I : Instance} {s s' : State} {j p m : Nat} {op : Op} (hwf : WF I s)
    (hd : DispSpec I s s' j p m op) : popJobF (dequesSpec I s) j = dequesSpec I s' := by
  have e : ∀ s, dequesSpec I s = (List.range I.length).map (unschedJob I s) := fun _ => rfl
  rw [e, e]
  unfold popJobF
  apply List.ext_getElem
  · simp
  · intro k h1 h2
    simp only [List.length_map, List.length_range] at h2
    simp only [List.getElem_modify, List.getElem_map, List.getElem_range]
    by_cases hk : j = k
    · subst hk
      simp only [↓reduceIte]
      rw [(unschedJob_dispatch hwf hd j).2]
      rfl
    · simp only [hk, ↓reduceIte]
      rw [(unschedJob_dispatch hwf hd k).1 (fun h => hk h.symm)]

theorem upd_unscheduled (c : Cfg) {s s' : State} {j p m : Nat} {op : Op} (hwf : WF c.I s)
    (hd : DispSpec c.I s s' j p m op) (o o' : FObs) (hk : o.kind = .unscheduled)
    (hval : ObsVal c s o) (ho' : o' = { o with deques := popJobF o.deques (newEntry s j p m op).job }) :
    o'.kind = o.kind ∧ ObsVal c s' o' := by
  subst ho'
  refine ⟨rfl, ?_⟩
  have hk' : ({ o with deques := popJobF o.deques (newEntry s j p m op).job } : FObs).kind = .unscheduled := hk
  constructor
  case unsched =>
    intro _
    show popJobF o.deques j = dequesSpec c.I s'
    rw [hval.unsched hk, popJobF_dequesSpec hwf hd]
  all_goals kind_absurd hk'


theorem updObs_kind_plain (c : Cfg) (s : State) (x : SOp) (hp : List FObs) (o : FObs) (h : o.kind.single = false) :
    (updObs c s x hp o).kind = o.kind := by
  unfold updObs
  cases hk : o.kind <;> first | rfl | (rw [hk] at h; exact absurd h (by decide))

/-- the kinds put together: one notification across an accepted dispatch -/
theorem updObs_spec (c : Cfg) {s s' : State} {j p m : Nat} {op : Op} (hv : Valid c.I) (hc : CInv c.I s)
    (hd : DispSpec c.I s s' j p m op) (hmono : ∀ r, r ∈ completedPure c s → r ∈ completedPure c s')
    (hp : List FObs) (o : FObs) (hsh : o.kind.single = true → o.Shaped c.I) (hval : ObsVal c s o) :
    (updObs c s' (newEntry s j p m op) hp o).kind = o.kind ∧
    (o.kind.single = true → (updObs c s' (newEntry s j p m op) hp o).Shaped c.I) ∧
    ObsVal c s' (updObs c s' (newEntry s j p m op) hp o) := by
  have hvop := hv j p op hd.hop
  have hc' := cinv_dispatch hvop.2.2 hc hd
  by_cases hs : o.kind.single = true
  · have hsh' := hsh hs
    cases hk : o.kind <;> (first | (rw [hk] at hs; exact absurd hs (by decide)) | skip)
    case isReady =>
      have e : updObs c s' (newEntry s j p m op) hp o = isReadyFeatures c s' o := by simp only [updObs, hk]
      obtain ⟨a, b, d⟩ := upd_isReady c s' o _ hk hsh' e
      exact ⟨a.trans hk, fun _ => b, d⟩
    case earliestStart =>
      have e : updObs c s' (newEntry s j p m op) hp o =
          estFeatures c s' { o with est := estCompute c.I s' o.est } := by simp only [updObs, hk]
      obtain ⟨a, b, d⟩ := upd_est c s s' o _ hk hsh' hval e
      exact ⟨a.trans hk, fun _ => b, d⟩
    case duration =>
      have e : updObs c s' (newEntry s j p m op) hp o = durationUpdate c s' (newEntry s j p m op) o := by
        simp only [updObs, hk]
      obtain ⟨a, b, d⟩ := upd_duration c hc.wf hd o _ hk hsh' hval e
      exact ⟨a.trans hk, fun _ => b, d⟩
    case isScheduled =>
      have e : updObs c s' (newEntry s j p m op) hp o = isScheduledUpdate c s' (newEntry s j p m op) o := by
        simp only [updObs, hk]
      obtain ⟨a, b, d⟩ := upd_isScheduled c hc hc' hd o _ hk hsh' hval e
      exact ⟨a.trans hk, fun _ => b, d⟩
    case positionInJob =>
      have e : updObs c s' (newEntry s j p m op) hp o = positionUpdate c (newEntry s j p m op) o := by
        simp only [updObs, hk]
      obtain ⟨a, b, d⟩ := upd_position c hc.wf hd o _ hk hsh' hval e
      exact ⟨a.trans hk, fun _ => b, d⟩
    case remainingOps =>
      have e : updObs c s' (newEntry s j p m op) hp o = remainingUpdate (newEntry s j p m op) o := by
        simp only [updObs, hk]
      obtain ⟨a, b, d⟩ := upd_remaining c hc.wf hd o _ hk hsh' hval e
      exact ⟨a.trans hk, fun _ => b, d⟩
    case isCompleted =>
      have e : updObs c s' (newEntry s j p m op) hp o = isCompletedUpdate c s' (newEntry s j p m op) o := by
        simp only [updObs, hk]
      obtain ⟨a, b, d⟩ := upd_isCompleted c hc.wf hd hvop.2.1 hmono o _ hk hsh' hval e
      exact ⟨a.trans hk, fun _ => b, d⟩
  · have hs' : o.kind.single = false := by simpa using hs
    have hkind := updObs_kind_plain c s' (newEntry s j p m op) hp o hs'
    refine ⟨hkind, fun h => absurd h hs, ?_⟩
    by_cases hu : o.kind = .unscheduled
    · have e : updObs c s' (newEntry s j p m op) hp o =
          { o with deques := popJobF o.deques (newEntry s j p m op).job } := by simp only [updObs, hu]
      exact (upd_unscheduled c hc.wf hd o _ hu hval e).2
    · exact obsVal_plain c s' _ (by rw [hkind]; exact hs') (by rw [hkind]; exact hu)

/-- a world that differs from `w` (in state `s'`) by one `updObs` per subscriber satisfies the invariant -/
theorem finv_of_frame {w W : FWorld} {s' : State} {j p mm : Nat} {op : Op} (hv : Valid w.cfg.I) (h : FInv w)
    (hc : CInv w.cfg.I w.s) (hd : DispSpec w.cfg.I w.s s' j p mm op)
    (hmono : ∀ r, r ∈ completedPure w.cfg w.s → r ∈ completedPure w.cfg s')
    (hreach : ∃ evs : List Ev, s' = run w.cfg evs)
    (f1 : W.subs = w.subs) (f2 : W.s = s') (f3 : W.cfg = w.cfg) (f4 : W.heap.length = w.heap.length)
    (f5 : ∀ k, k ∉ w.subs → W.heap[k]? = w.heap[k]?)
    (f6 : ∀ id ∈ w.subs, ∀ o, w.heap[id]? = some o →
      ∃ hp, W.heap[id]? = some (updObs w.cfg s' (newEntry w.s j p mm op) hp o)) : FInv W := by
  -- every subscribed entry of `W`: the transformer applied to the old entry
  have hsub : ∀ id ∈ w.subs, ∀ o', W.heap[id]? = some o' →
      ∃ o hp, w.heap[id]? = some o ∧ o' = updObs w.cfg s' (newEntry w.s j p mm op) hp o := by
    intro id hid o' ho'
    have hlt := h.subs.valid id hid
    have ho : w.heap[id]? = some w.heap[id] := List.getElem?_eq_getElem hlt
    obtain ⟨hp, hhp⟩ := f6 id hid _ ho
    rw [hhp] at ho'
    exact ⟨_, hp, ho, (Option.some.inj ho').symm⟩
  constructor
  · intro k o' ho' hs
    rw [f3]
    by_cases hmem : k ∈ w.subs
    · obtain ⟨o, hp, ho, rfl⟩ := hsub k hmem o' ho'
      have hsh : o.kind.single = true → o.Shaped w.cfg.I := h.shape k o ho
      obtain ⟨a, b, _⟩ := updObs_spec w.cfg hv hc hd hmono hp o hsh (h.val k hmem o ho)
      exact b (by rw [← a]; exact hs)
    · rw [f5 k hmem] at ho'
      exact h.shape k o' ho' hs
  · refine ⟨by rw [f1]; exact h.subs.nodup, ?_⟩
    intro id hid
    rw [f1] at hid
    rw [f4]
    exact h.subs.valid id hid
  · obtain ⟨evs, he⟩ := hreach
    exact ⟨evs, by rw [f2, f3]; exact he⟩
  · intro id hid o' ho'
    rw [f1] at hid
    rw [f2, f3]
    obtain ⟨o, hp, ho, rfl⟩ := hsub id hid o' ho'
    exact (updObs_spec w.cfg hv hc hd hmono hp o (h.shape id o ho) (h.val id hid o ho)).2.2

/-- an accepted or rejected dispatch request preserves the invariant -/
theorem finv_dispatch {w : FWorld} (hv : Valid w.cfg.I) (hF : w.cfg.F = none ∨ PosDurI w.cfg.I) (h : FInv w)
    (j p : Nat) (m : Option Int) : FInv (w.dispatch j p m).1 := by
  unfold FWorld.dispatch
  cases hdr : dispatchReq w.cfg.I w.s j p m with
  | error e => exact h
  | ok s' =>
    simp only
    obtain ⟨mm, op, hop, _, hdd⟩ := dispatchReq_ok hdr
    obtain ⟨op', hsp⟩ := dispatch_ok hdd
    have hop' := hsp.hop
    rw [hop] at hop'; cases hop'
    obtain ⟨evs, hevs⟩ := h.reach
    have hc : CInv w.cfg.I w.s := by rw [hevs]; exact (inv_run hv evs).cinv
    have hvop := hv j p op hop
    rw [find_new_entry hc hvop.2.2 hsp]
    simp only
    have hrun : s' = run w.cfg (evs ++ [.disp j p m]) := by
      rw [run_snoc, ← hevs]
      simp only [stepEv, hdr]
    have hmono : ∀ r, r ∈ completedPure w.cfg w.s → r ∈ completedPure w.cfg s' := by
      intro r hr
      rw [hrun]
      rw [hevs] at hr
      exact C06_completed_mono w.cfg hv hF evs j p m r hr
    obtain ⟨f1, f2, f3, f4, f5, f6⟩ :=
      fold_callUpdate_at (newEntry w.s j p mm op) w.subs { w with s := s' } h.subs.nodup
    exact finv_of_frame hv h hc hsp hmono ⟨_, hrun⟩ f1 f2 f3 f4 f5 f6

end JS

import JobShopProofs.Properties.C14
import JobShopProofs.Properties.C02
/-!
# C14 — rebuilding a dispatcher-built schedule from its per-machine job sequences

`C14_seq_rebuild`: for every valid non-flexible instance and every complete schedule built by a dispatcher history,
`Schedule.from_job_sequences` applied to `job_sequences` of that schedule returns the identical schedule (every
entry: operation, machine, start time, in the same per-machine order).

Structure of the proof
* `HInv S`: history facts about the per-machine lists of a reachable state: a rank (the acceptance order) that
  increases along every machine list and along every job, and "every start time is forced" (`max` of the end of
  the machine predecessor and the end of the job predecessor).  `hinv_run`.
* `RInv`: invariant of the rebuild loop (every machine list of the rebuilt state is a prefix of the target's, the
  queue is the job ids of the remaining suffix).
* `seqMachine_step`: one machine step keeps `RInv` (safety), `exists_ready`: an incomplete state has a machine whose
  head is dispatchable (progress), `seq_rebuild_fuel`: the outer loop.
-/
namespace JS

/-- non-flexible: one machine per operation -/
def NonFlexH (I : Instance) : Prop := ∀ j p op, getOp I j p = some op → ∃ m, op.machines = [m]

/-! ## generic list facts -/

theorem eq_of_map_nodup {α β} (f : α → β) : ∀ (l : List α), (l.map f).Nodup → ∀ x ∈ l, ∀ y ∈ l, f x = f y → x = y
  | [], _, _, hx, _, _, _ => by simp at hx
  | a :: t, hn, x, hx, y, hy, hxy => by
    simp only [List.map_cons, List.nodup_cons, List.mem_map, not_exists, not_and] at hn
    rcases List.mem_cons.1 hx with hxa | hxt <;> rcases List.mem_cons.1 hy with hya | hyt
    · rw [hxa, hya]
    · rw [hxa] at hxy; exact absurd hxy.symm (hn.1 y hyt)
    · rw [hya] at hxy; exact absurd hxy (hn.1 x hxt)
    · exact eq_of_map_nodup f t hn.2 x hxt y hyt hxy

theorem ext_getD_nil {α} (l1 l2 : List (List α)) (hlen : l1.length = l2.length)
    (h : ∀ m, l1.getD m [] = l2.getD m []) : l1 = l2 := by
  apply List.ext_getElem hlen
  intro i h1 h2
  have := h i
  simpa [List.getD_eq_getElem?_getD, List.getElem?_eq_getElem h1, List.getElem?_eq_getElem h2] using this

theorem mem_getD_of_flatten_inList {S : List (List SOp)} (hin : ∀ m, ∀ x ∈ S.getD m [], x.machine = m) (x : SOp)
    (hx : x ∈ S.flatten) : x ∈ S.getD x.machine [] := by
  obtain ⟨k, hk⟩ := mem_flatten_getD S x hx
  have := hin k x hk
  rw [this]; exact hk

/-- end of the last entry of a list (0 if empty) -/
def lastEndOfList (l : List SOp) : Int := (l.getLast?.map SOp.end_).getD 0

/-! ## history facts of a reachable schedule -/

/-- start of `x` is forced, given the entries `pre` before it on its machine and the whole schedule `S` -/
def ForcedAt (S : List (List SOp)) (pre : List SOp) (x : SOp) : Prop :=
  ∃ jp : Int, x.start = max (lastEndOfList pre) jp ∧ (x.pos = 0 → jp = 0) ∧
    ∀ y ∈ S.flatten, y.job = x.job → y.pos + 1 = x.pos → jp = y.end_

structure HInv (S : List (List SOp)) : Prop where
  rank : ∃ (rk : SOp → Nat) (N : Nat), (∀ x ∈ S.flatten, rk x < N) ∧
    (∀ m, (S.getD m []).Pairwise (fun a b => rk a < rk b)) ∧
    (∀ x ∈ S.flatten, ∀ y ∈ S.flatten, x.job = y.job → x.pos < y.pos → rk x < rk y)
  forced : ∀ m pre x post, S.getD m [] = pre ++ x :: post → ForcedAt S pre x

theorem hinv_init (I : Instance) : HInv (init I).sched := by
  refine ⟨⟨fun _ => 0, 0, ?_, ?_, ?_⟩, ?_⟩
  · intro x hx; simp [init] at hx
  · intro m; simp only [init, getD_replicate_nil]; exact List.Pairwise.nil
  · intro x hx; simp [init] at hx
  · intro m pre x post h
    simp only [init, getD_replicate_nil] at h
    cases pre <;> cases h

theorem sched_getD_dispatch {I : Instance} {s s' : State} {j p m : Nat} {op : Op} (hc : WF I s)
    (hd : DispSpec I s s' j p m op) (k : Nat) :
    s'.sched.getD k [] =
      if k = m then s.sched.getD m [] ++ [⟨j, p, m, startTime s j m, op.dur⟩] else s.sched.getD k [] := by
  have hmlt := machine_lt I j p m op hd.hop hd.hm
  rw [hd.eq]; exact getD_modify_eq _ _ _ _ (by rw [hc.lenS]; exact hmlt) k

theorem mem_flatten_dispatch {I : Instance} {s s' : State} {j p m : Nat} {op : Op} (hc : CInv I s)
    (hd : DispSpec I s s' j p m op) (x : SOp) :
    x ∈ s'.sched.flatten ↔ x ∈ s.sched.flatten ∨ x = ⟨j, p, m, startTime s j m, op.dur⟩ := by
  have hmlt := machine_lt I j p m op hd.hop hd.hm
  rw [hd.eq]; simp only
  rw [(flatten_modify_perm _ _ _ (by rw [hc.wf.lenS]; exact hmlt)).mem_iff]
  simp

theorem hinv_dispatch {I : Instance} {s s' : State} {j p m : Nat} {op : Op} (hc : CInv I s)
    (hh : HInv s.sched) (hd : DispSpec I s s' j p m op) : HInv s'.sched := by
  obtain ⟨a, hr, ha, ha2⟩ := hc.abs
  have hsched := sched_getD_dispatch hc.wf hd
  have hmem := mem_flatten_dispatch hc hd
  generalize hso : (⟨j, p, m, startTime s j m, op.dur⟩ : SOp) = so at hsched hmem
  have hsoj : so.job = j := by rw [← hso]
  have hsop : so.pos = p := by rw [← hso]
  have hsos : so.start = startTime s j m := by rw [← hso]
  have hold : ∀ x ∈ s.sched.flatten, x.pos < s.jobIdx.getD x.job 0 := by
    intro x hx; have := ha.sched_lt x (hr.sched.mem_iff.2 hx); rwa [hr.idx] at this
  have hne : ∀ x ∈ s.sched.flatten, x ≠ so := by
    intro x hx he; have := hold x hx; rw [he, hsoj, hsop, hd.hidx] at this; omega
  have hsub : ∀ k, ∀ x ∈ s.sched.getD k [], x ∈ s.sched.flatten := fun k x hx => mem_getD_flatten _ _ _ hx
  obtain ⟨rk, N, hN, hR1, hR2⟩ := hh.rank
  refine ⟨⟨fun x => if x = so then N else rk x, N + 1, ?_, ?_, ?_⟩, ?_⟩
  · intro x hx
    rcases (hmem x).1 hx with hx | hx
    · have := hN x hx; simp only [hne x hx, ↓reduceIte]; omega
    · simp [hx]
  · intro k
    have hold1 : (s.sched.getD k []).Pairwise (fun a b => (if a = so then N else rk a) < (if b = so then N else rk b)) := by
      refine List.Pairwise.imp_of_mem ?_ (hR1 k)
      intro a b ha' hb' hab
      simp only [hne a (hsub k a ha'), hne b (hsub k b hb'), ↓reduceIte]; exact hab
    rw [hsched]
    by_cases hk : k = m
    · subst hk
      simp only [↓reduceIte]
      rw [List.pairwise_append]
      refine ⟨hold1, by simp, ?_⟩
      intro x hx y hy
      simp only [List.mem_singleton] at hy
      subst hy
      simp only [hne x (hsub k x hx), ↓reduceIte]
      exact hN x (hsub k x hx)
    · simp only [hk, ↓reduceIte]; exact hold1
  · intro x hx y hy hj hp
    rcases (hmem x).1 hx with hx | hx <;> rcases (hmem y).1 hy with hy | hy
    · simp only [hne x hx, hne y hy, ↓reduceIte]; exact hR2 x hx y hy hj hp
    · subst hy; simp only [hne x hx, ↓reduceIte]; exact hN x hx
    · subst hx
      have := hold y hy
      rw [← hj, hsoj, hd.hidx] at this
      rw [hsop] at hp; omega
    · subst hx; subst hy; omega
  · intro k pre x post hsplit
    rw [hsched] at hsplit
    -- entries of the old state keep their justification
    have holdcase : ∀ post', s.sched.getD k [] = pre ++ x :: post' → ForcedAt s'.sched pre x := by
      intro post' h
      obtain ⟨jp, h1, h2, h3⟩ := hh.forced k pre x post' h
      refine ⟨jp, h1, h2, ?_⟩
      intro y hy hyj hyp
      rcases (hmem y).1 hy with hy | hy
      · exact h3 y hy hyj hyp
      · exfalso
        have hx : x ∈ s.sched.flatten := hsub k x (by rw [h]; simp)
        have := hold x hx
        rw [hy, hsoj] at hyj
        rw [hy, hsop] at hyp
        rw [← hyj, hd.hidx] at this; omega
    by_cases hk : k = m
    · subst hk
      simp only [↓reduceIte] at hsplit
      rcases List.eq_nil_or_concat post with hp | ⟨post', z, hp⟩
      · subst hp
        have h2 : s.sched.getD k [] ++ [so] = pre ++ [x] := hsplit
        obtain ⟨e1, e2⟩ := List.append_inj' h2 rfl
        simp only [List.cons.injEq, and_true] at e2
        subst e2
        refine ⟨s.jobNext.getD j 0, ?_, ?_, ?_⟩
        · rw [hsos, ← e1]
          simp only [startTime, lastEndOfList]
          rw [hc.lastEnd k]
        · intro h0
          rw [hsop] at h0
          rw [← hr.jN]; apply ha.jN_zero; rw [hr.idx, hd.hidx]; exact h0
        · intro y hy hyj hyp
          rw [hsoj] at hyj; rw [hsop] at hyp
          rcases (hmem y).1 hy with hy | hy
          · have hya : y ∈ a.sched := hr.sched.mem_iff.2 hy
            have := ha.jN_last y hya (by rw [hr.idx, hyj, hd.hidx]; exact hyp)
            rw [← hr.jN, ← hyj]; exact this
          · rw [hy, hsop] at hyp; omega
      · subst hp
        have h2 : s.sched.getD k [] ++ [so] = (pre ++ x :: post') ++ [z] := by
          rw [hsplit]; simp
        obtain ⟨e1, _⟩ := List.append_inj' h2 rfl
        exact holdcase post' e1
    · simp only [hk, ↓reduceIte] at hsplit
      exact holdcase post hsplit

theorem hinv_runEvs {c : Cfg} (hv : Valid c.I) : ∀ (evs : List Ev) (s : State), Inv c s → HInv s.sched →
    HInv (runEvs c s evs).sched
  | [], _, _, hh => hh
  | e :: evs, s, hi, hh => by
    have hnext := inv_stepEv hv hi e
    have key : HInv (stepEv c s e).1.sched := by
      cases e with
      | disp j p m =>
        simp only [stepEv]
        split
        · rename_i s' h
          obtain ⟨mm, op, _, _, hd⟩ := dispatchReq_ok h
          obtain ⟨op', hsp⟩ := dispatch_ok hd
          exact hinv_dispatch hi.cinv hh hsp
        · exact hh
      | reset => exact hinv_init c.I
      | query q =>
        simp only [stepEv]
        obtain ⟨_, _, k, hk⟩ := ask_ok c s hi.cache q
        rw [hk]; exact hh
    exact hinv_runEvs hv evs _ hnext key

theorem hinv_run {c : Cfg} (hv : Valid c.I) (evs : List Ev) : HInv (run c evs).sched :=
  hinv_runEvs hv evs _ (inv_init c) (hinv_init c.I)

/-! ## the rebuild loop -/

/-- what the proof needs of the target schedule `S` -/
structure Target (I : Instance) (S : List (List SOp)) : Prop where
  feas : Feasible I S
  len : S.length = numMachines I
  comp : Complete I S
  hist : HInv S

/-- invariant of the rebuild loop: every machine list of `t` is a prefix of the target's; the queue of the machine
holds the job ids of the remaining suffix -/
structure RInv (I : Instance) (S : List (List SOp)) (t : State) (d : List (List Nat)) : Prop where
  cinv : CInv I t
  dlen : d.length = numMachines I
  pre : ∀ m, ∃ rest, S.getD m [] = t.sched.getD m [] ++ rest ∧ d.getD m [] = rest.map (·.job)

/-- machine `m`'s head entry of the remaining suffix is the next operation of its job -/
def ReadyAt (S : List (List SOp)) (t : State) (m : Nat) : Prop :=
  ∃ x rest, S.getD m [] = t.sched.getD m [] ++ x :: rest ∧ t.jobIdx.getD x.job 0 = x.pos

section
variable {I : Instance} {S : List (List SOp)} {t : State} {d : List (List Nat)}

theorem rinv_sub (hr : RInv I S t d) (x : SOp) (hx : x ∈ t.sched.flatten) : x ∈ S.flatten := by
  obtain ⟨k, hk⟩ := mem_flatten_getD _ x hx
  obtain ⟨rest, h1, _⟩ := hr.pre k
  exact mem_getD_flatten S k x (by rw [h1]; exact List.mem_append_left _ hk)

theorem placed_lt (hr : RInv I S t d) (x : SOp) (hx : x ∈ t.sched.flatten) : x.pos < t.jobIdx.getD x.job 0 := by
  obtain ⟨a, hra, ha, _⟩ := hr.cinv.abs
  have := ha.sched_lt x (hra.sched.mem_iff.2 hx); rwa [hra.idx] at this

/-- an entry of the target whose position is below the job's next index is already placed (on its machine) -/
theorem placed_of_lt (hT : Target I S) (hr : RInv I S t d) (z : SOp) (hz : z ∈ S.flatten)
    (hlt : z.pos < t.jobIdx.getD z.job 0) : z ∈ t.sched.getD z.machine [] := by
  obtain ⟨a, hra, ha, _⟩ := hr.cinv.abs
  obtain ⟨w, hw, hwj, hwp⟩ := ha.idx_sched z.job z.pos (by rw [hra.idx]; exact hlt)
  have hwt : w ∈ t.sched.flatten := hra.sched.mem_iff.1 hw
  have hwS := rinv_sub hr w hwt
  have : w = z := eq_of_map_nodup _ _ hT.feas.once w hwS z hz (by simp [hwj, hwp])
  subst this
  exact mem_getD_of_flatten_inList hr.cinv.inList w hwt

/-- the entries of the remaining suffix are not placed -/
theorem unplaced_of_rest (hT : Target I S) (hr : RInv I S t d) {m : Nat} {rest : List SOp}
    (h : S.getD m [] = t.sched.getD m [] ++ rest) (z : SOp) (hz : z ∈ rest) : t.jobIdx.getD z.job 0 ≤ z.pos := by
  apply Classical.byContradiction
  intro hn
  have hzm : z ∈ S.getD m [] := by rw [h]; exact List.mem_append_right _ hz
  have hzS : z ∈ S.flatten := mem_getD_flatten S m z hzm
  have hpl := placed_of_lt hT hr z hzS (by omega)
  rw [hT.feas.inList m z hzm] at hpl
  obtain ⟨rk, N, _, hR1, _⟩ := hT.hist.rank
  have hp := hR1 m
  rw [h, List.pairwise_append] at hp
  have := hp.2.2 z hpl z hz
  omega

theorem mem_rest_of_ge (hT : Target I S) (hr : RInv I S t d) (z : SOp) (hz : z ∈ S.flatten)
    (hge : t.jobIdx.getD z.job 0 ≤ z.pos) :
    ∃ rest, S.getD z.machine [] = t.sched.getD z.machine [] ++ rest ∧ z ∈ rest := by
  obtain ⟨rest, h1, _⟩ := hr.pre z.machine
  refine ⟨rest, h1, ?_⟩
  have hzm := mem_getD_of_flatten_inList hT.feas.inList z hz
  rw [h1] at hzm
  rcases List.mem_append.1 hzm with h | h
  · have := placed_lt hr z (mem_getD_flatten _ _ _ h); omega
  · exact h

theorem getOp_le (I : Instance) (j p q : Nat) (op : Op) (h : getOp I j q = some op) (hpq : p ≤ q) :
    ∃ op', getOp I j p = some op' := by
  unfold getOp at *
  cases hj : I[j]? with
  | none => simp [hj] at h
  | some job =>
    simp [hj] at h ⊢
    have hlt : q < job.length := (List.getElem?_eq_some_iff.1 h).1
    exact ⟨job[p], by simp [List.getElem?_eq_getElem (by omega : p < job.length)]⟩

/-- **safety (which operation).**  If the next operation of the head job may run on `m`, it *is* the head entry. -/
theorem head_pos_eq (hT : Target I S) (hn : NonFlexH I) (hr : RInv I S t d) {m : Nat} {y : SOp} {rest : List SOp}
    (h : S.getD m [] = t.sched.getD m [] ++ y :: rest) {op : Op}
    (hop : getOp I y.job (t.jobIdx.getD y.job 0) = some op) (hm : m ∈ op.machines) :
    t.jobIdx.getD y.job 0 = y.pos := by
  have hle := unplaced_of_rest hT hr h y (by simp)
  apply Classical.byContradiction
  intro hne
  have hlt : t.jobIdx.getD y.job 0 < y.pos := by omega
  have hyS : y ∈ S.flatten := mem_getD_flatten S m y (by rw [h]; simp)
  obtain ⟨z, hzS, hzj, hzp⟩ := hT.feas.jobPrefix y hyS _ hlt
  obtain ⟨opz, hopz, _, hzm⟩ := hT.feas.isOp z hzS
  rw [hzj, hzp, hop] at hopz
  cases hopz
  obtain ⟨m', hm'⟩ := hn _ _ _ hop
  rw [hm'] at hm hzm
  simp only [List.mem_singleton] at hm hzm
  have hzmach : z.machine = m := by rw [hzm, hm]
  obtain ⟨rest', h1, hzr⟩ := mem_rest_of_ge hT hr z hzS (by rw [hzj, hzp]; exact Nat.le_refl _)
  rw [hzmach, h] at h1
  have := List.append_cancel_left h1
  subst this
  rcases List.mem_cons.1 hzr with hzy | hzr
  · rw [hzy] at hzp; omega
  · obtain ⟨rk, N, _, hR1, hR2⟩ := hT.hist.rank
    have hp := hR1 m
    rw [h, List.pairwise_append] at hp
    have h2 := List.rel_of_pairwise_cons hp.2.1 hzr
    have h3 := hR2 z hzS y hyS hzj (by omega)
    omega

/-- **safety (which start time).** -/
theorem head_start_eq (hT : Target I S) (hr : RInv I S t d) {m : Nat} {y : SOp} {rest : List SOp}
    (h : S.getD m [] = t.sched.getD m [] ++ y :: rest) (hidx : t.jobIdx.getD y.job 0 = y.pos) :
    y.start = startTime t y.job m := by
  obtain ⟨jp, h1, h2, h3⟩ := hT.hist.forced m _ y rest h
  obtain ⟨a, hra, ha, _⟩ := hr.cinv.abs
  rw [h1]
  simp only [startTime, lastEndOfList]
  rw [hr.cinv.lastEnd m]
  congr 1
  rw [← hra.jN]
  cases hp : y.pos with
  | zero =>
    rw [h2 hp]
    exact (ha.jN_zero y.job (by rw [hra.idx, hidx, hp])).symm
  | succ q =>
    obtain ⟨w, hw, hwj, hwp⟩ := ha.idx_sched y.job q (by rw [hra.idx, hidx, hp]; omega)
    have hwS := rinv_sub hr w (hra.sched.mem_iff.1 hw)
    rw [h3 w hwS hwj (by rw [hwp, hp])]
    have := ha.jN_last w hw (by rw [hwj, hra.idx, hidx, hwp, hp])
    rw [hwj] at this; exact this.symm

/-- one machine step of the rebuild loop: either the head entry of the machine's remaining suffix is placed,
identically, or nothing changes and the machine was not ready -/
theorem seqMachine_step (hv : Valid I) (hT : Target I S) (hn : NonFlexH I) (hr : RInv I S t d) (m : Nat) (pr : Bool) :
    (∃ d' t', jobSeqMachine I m d t pr = .ok (d', t', true) ∧ RInv I S t' d' ∧
      numScheduled t' = numScheduled t + 1) ∨
    (jobSeqMachine I m d t pr = .ok (d, t, pr) ∧ ¬ ReadyAt S t m) := by
  obtain ⟨rest, h1, h2⟩ := hr.pre m
  unfold jobSeqMachine
  cases rest with
  | nil =>
    right
    simp only [List.map_nil] at h2
    rw [h2]
    refine ⟨rfl, ?_⟩
    rintro ⟨x, rest', hx, _⟩
    rw [h1] at hx
    have := List.append_cancel_left hx
    cases this
  | cons y rest' =>
    simp only [List.map_cons] at h2
    rw [h2]
    simp only
    have hym : y ∈ S.getD m [] := by rw [h1]; simp
    have hyS : y ∈ S.flatten := mem_getD_flatten S m y hym
    have hle := unplaced_of_rest hT hr h1 y (by simp)
    obtain ⟨opy, hopy, hdur, hmach⟩ := hT.feas.isOp y hyS
    obtain ⟨op, hop⟩ := getOp_le I y.job _ _ opy hopy hle
    rw [hop]; simp only
    by_cases hm : op.machines.contains m = true
    · simp only [hm, ↓reduceIte]
      left
      have hmem : m ∈ op.machines := by simpa using hm
      have hidx := head_pos_eq hT hn hr h1 hop hmem
      obtain ⟨t', ht'⟩ := dispatch_accepts hr.cinv hop rfl hmem
      rw [ht']; simp only
      refine ⟨_, t', rfl, ?_, numScheduled_dispatch hr.cinv.wf ht'⟩
      obtain ⟨op', hsp⟩ := dispatch_ok ht'
      have hop'eq : op' = op := by have := hsp.hop; rw [hop] at this; cases this; rfl
      subst hop'eq
      have hopeq : opy = op' := by rw [hidx, hopy] at hop; cases hop; rfl
      subst hopeq
      have hc' := cinv_dispatch (hv _ _ _ hop).2.2 hr.cinv hsp
      have hsched := sched_getD_dispatch hr.cinv.wf hsp
      have hyeq : (⟨y.job, t.jobIdx.getD y.job 0, m, startTime t y.job m, opy.dur⟩ : SOp) = y := by
        have e1 := hT.feas.inList m y hym
        have e2 := head_start_eq hT hr h1 hidx
        cases y
        simp only at e1 e2 hdur hidx
        simp only [SOp.mk.injEq, true_and]
        exact ⟨hidx, e1.symm, e2.symm, hdur.symm⟩
      rw [hyeq] at hsched
      have hmlt := machine_lt I _ _ m opy hop hmem
      refine ⟨hc', by simp [hr.dlen], ?_⟩
      intro k
      rw [hsched, getD_set_eq _ _ _ _ (by rw [hr.dlen]; exact hmlt)]
      by_cases hk : k = m
      · subst hk
        simp only [↓reduceIte]
        exact ⟨rest', by rw [h1]; simp, rfl⟩
      · simp only [hk, ↓reduceIte]
        exact hr.pre k
    · right
      refine ⟨by simp only [hm, Bool.false_eq_true, ↓reduceIte], ?_⟩
      rintro ⟨x, rest'', hx, hxi⟩
      rw [h1] at hx
      have := List.append_cancel_left hx
      simp only [List.cons.injEq] at this
      obtain ⟨e, _⟩ := this
      subst e
      rw [hxi, hopy] at hop
      cases hop
      rw [hT.feas.inList m y hym] at hmach
      apply hm
      simpa using hmach

/-- one pass over the machines `ms` -/
theorem seqPassFrom_step (hv : Valid I) (hT : Target I S) (hn : NonFlexH I) : ∀ (ms : List Nat) (d : List (List Nat))
    (t : State) (pr : Bool), RInv I S t d →
    ∃ d' t' pr', jobSeqPassFrom I ms d t pr = .ok (d', t', pr') ∧ RInv I S t' d' ∧
      numScheduled t ≤ numScheduled t' ∧ (pr = true → pr' = true) ∧
      (pr' = true → pr = true ∨ numScheduled t < numScheduled t') ∧
      (pr' = false → d' = d ∧ t' = t ∧ ∀ m ∈ ms, ¬ ReadyAt S t m)
  | [], d, t, pr, hr => by
    refine ⟨d, t, pr, rfl, hr, Nat.le_refl _, id, fun h => Or.inl h, fun _ => ⟨rfl, rfl, by simp⟩⟩
  | m :: ms, d, t, pr, hr => by
    unfold jobSeqPassFrom
    rcases seqMachine_step hv hT hn hr m pr with ⟨d1, t1, h1, hr1, hnum⟩ | ⟨h1, hnr⟩
    · rw [h1]; simp only
      obtain ⟨d', t', pr', e, hr', g0, g1, g2, g3⟩ := seqPassFrom_step hv hT hn ms d1 t1 true hr1
      have hp' : pr' = true := g1 rfl
      refine ⟨d', t', pr', e, hr', by omega, fun _ => hp', fun _ => Or.inr (by omega), ?_⟩
      intro hp; rw [hp'] at hp; cases hp
    · rw [h1]; simp only
      obtain ⟨d', t', pr', e, hr', g0, g1, g2, g3⟩ := seqPassFrom_step hv hT hn ms d t pr hr
      refine ⟨d', t', pr', e, hr', g0, g1, g2, ?_⟩
      intro hp
      obtain ⟨a, b, c⟩ := g3 hp
      refine ⟨a, b, ?_⟩
      intro k hk
      rcases List.mem_cons.1 hk with rfl | hk
      · exact hnr
      · exact c k hk

/-- if every entry of the target is placed, the rebuilt schedule is the target -/
theorem sched_eq_of_all_placed (hT : Target I S) (hr : RInv I S t d)
    (hall : ∀ z ∈ S.flatten, z.pos < t.jobIdx.getD z.job 0) : t.sched = S := by
  apply ext_getD_nil _ _ (by rw [hr.cinv.wf.lenS, hT.len])
  intro m
  obtain ⟨rest, h1, _⟩ := hr.pre m
  cases rest with
  | nil => rw [h1]; simp
  | cons y rest' =>
    exfalso
    have hym : y ∈ S.getD m [] := by rw [h1]; simp
    have := hall y (mem_getD_flatten S m y hym)
    have := unplaced_of_rest hT hr h1 y (by simp)
    omega

/-- at the end of the loop the schedules coincide -/
theorem sched_eq_of_complete (hT : Target I S) (hr : RInv I S t d) (hcomp : isComplete I t = true) : t.sched = S := by
  apply sched_eq_of_all_placed hT hr
  intro z hz
  have hf := feasible_of_cinv hr.cinv
  have hc : Complete I t.sched := by
    apply (complete_iff_count hf).1
    rw [← numScheduled_eq]
    simpa [isComplete] using hcomp
  obtain ⟨op, hop, _, _⟩ := hT.feas.isOp z hz
  obtain ⟨x, hx, hxj, hxp⟩ := hc z.job z.pos (by simp [hop])
  have := placed_lt hr x hx
  rw [hxj, hxp] at this; exact this

theorem machine_lt_of_mem (hT : Target I S) {m : Nat} {z : SOp} (hz : z ∈ S.getD m []) : m < numMachines I := by
  rw [← hT.len]
  apply Classical.byContradiction
  intro h
  have : S.getD m [] = [] := by
    simp only [List.getD_eq_getElem?_getD]
    rw [List.getElem?_eq_none (by omega)]; rfl
  rw [this] at hz; cases hz

/-- **progress.**  An entry that is not yet placed yields a machine whose head entry can be dispatched: follow
machine predecessors and job predecessors; the acceptance rank decreases. -/
theorem ready_of_unplaced (hT : Target I S) (hr : RInv I S t d) (z : SOp) (hz : z ∈ S.flatten)
    (hge : t.jobIdx.getD z.job 0 ≤ z.pos) : ∃ m, m < numMachines I ∧ ReadyAt S t m := by
  obtain ⟨rk, N, _, hR1, hR2⟩ := hT.hist.rank
  have step : ∀ z, z ∈ S.flatten → t.jobIdx.getD z.job 0 ≤ z.pos →
      (∀ w, w ∈ S.flatten → t.jobIdx.getD w.job 0 ≤ w.pos → rk w < rk z → ∃ m, m < numMachines I ∧ ReadyAt S t m) →
      ∃ m, m < numMachines I ∧ ReadyAt S t m := by
    intro z hz hge ih
    obtain ⟨rest, h1, hzr⟩ := mem_rest_of_ge hT hr z hz hge
    cases rest with
    | nil => cases hzr
    | cons y rest' =>
      have hym : y ∈ S.getD z.machine [] := by rw [h1]; simp
      have hyS : y ∈ S.flatten := mem_getD_flatten S _ y hym
      have hyge := unplaced_of_rest hT hr h1 y (by simp)
      rcases List.mem_cons.1 hzr with hzy | hzr'
      · subst hzy
        by_cases hidx : t.jobIdx.getD z.job 0 = z.pos
        · exact ⟨z.machine, machine_lt_of_mem hT hym, z, rest', h1, hidx⟩
        · obtain ⟨w, hwS, hwj, hwp⟩ := hT.feas.jobPrefix z hz (t.jobIdx.getD z.job 0) (by omega)
          exact ih w hwS (by rw [hwj, hwp]; exact Nat.le_refl _) (hR2 w hwS z hz hwj (by omega))
      · have hp := hR1 z.machine
        rw [h1, List.pairwise_append] at hp
        exact ih y hyS hyge (List.rel_of_pairwise_cons hp.2.1 hzr')
  have key : ∀ n z, z ∈ S.flatten → t.jobIdx.getD z.job 0 ≤ z.pos → rk z ≤ n →
      ∃ m, m < numMachines I ∧ ReadyAt S t m := by
    intro n
    induction n with
    | zero =>
      intro z hz hge hle
      exact step z hz hge (fun w _ _ hlt => absurd hlt (by omega))
    | succ n ih =>
      intro z hz hge hle
      exact step z hz hge (fun w hw hwge hlt => ih w hw hwge (by omega))
  exact key (rk z) z hz hge (Nat.le_refl _)

theorem exists_ready (hT : Target I S) (hr : RInv I S t d) (hcomp : ¬ isComplete I t = true) :
    ∃ m, m < numMachines I ∧ ReadyAt S t m := by
  apply Classical.byContradiction
  intro hno
  apply hcomp
  have hall : ∀ z ∈ S.flatten, z.pos < t.jobIdx.getD z.job 0 := by
    intro z hz
    apply Classical.byContradiction
    intro h
    exact hno (ready_of_unplaced hT hr z hz (by omega))
  have := sched_eq_of_all_placed hT hr hall
  have hlen := (complete_iff_count hT.feas).2 hT.comp
  simp only [isComplete, beq_iff_eq]
  rw [numScheduled_eq, this, hlen]

/-- the outer loop -/
theorem seq_rebuild_fuel (hv : Valid I) (hT : Target I S) (hn : NonFlexH I) : ∀ (fuel : Nat) (d : List (List Nat))
    (t : State), RInv I S t d → numOps I - numScheduled t < fuel →
    ∃ s', fromJobSequences I fuel d t = .ok s' ∧ s'.sched = S
  | 0, _, _, _, h => by omega
  | fuel + 1, d, t, hr, hlt => by
    unfold fromJobSequences
    by_cases hcomp : isComplete I t = true
    · simp only [hcomp, ↓reduceIte]
      exact ⟨t, rfl, sched_eq_of_complete hT hr hcomp⟩
    · simp only [hcomp, Bool.false_eq_true, ↓reduceIte]
      obtain ⟨d', t', pr', e, hr', g0, _, g2, g3⟩ :=
        seqPassFrom_step hv hT hn (List.range d.length) d t false hr
      unfold jobSeqPass
      rw [e]; simp only
      cases hp : pr' with
      | true =>
        simp only [↓reduceIte]
        have hgrow : numScheduled t < numScheduled t' := by
          rcases g2 hp with h | h
          · cases h
          · exact h
        have hlt2 : numScheduled t < numOps I := by
          have h1 := cinv_numScheduled_le hr.cinv
          have h2 : numScheduled t ≠ numOps I := by
            intro he; apply hcomp; simp [isComplete, he]
          omega
        exact seq_rebuild_fuel hv hT hn fuel d' t' hr' (by omega)
      | false =>
        exfalso
        obtain ⟨_, _, hnr⟩ := g3 hp
        obtain ⟨m, hm, hready⟩ := exists_ready hT hr hcomp
        exact hnr m (by rw [List.mem_range, hr.dlen]; exact hm) hready

end

theorem rinv_init {I : Instance} {S : List (List SOp)} (hT : Target I S) :
    RInv I S (init I) (S.map fun ms => ms.map (·.job)) := by
  refine ⟨cinv_init I, by simp [hT.len], ?_⟩
  intro m
  refine ⟨S.getD m [], by simp only [init, getD_replicate_nil, List.nil_append], ?_⟩
  simp only [List.getD_eq_getElem?_getD, List.getElem?_map]
  cases S[m]? <;> simp

theorem target_run (c : Cfg) (hv : Valid c.I) (evs : List Ev) (hcomp : isComplete c.I (run c evs) = true) :
    Target c.I (run c evs).sched :=
  ⟨C01_feasible c hv evs, (inv_run hv evs).cinv.wf.lenS, (C01_complete_iff c hv evs).2.1 hcomp, hinv_run hv evs⟩

/-- **C14 (job sequences round trip).**  For every valid non-flexible instance and every complete schedule built by a
dispatcher history (any accepted/rejected requests, resets, queries), `Schedule.from_job_sequences` applied to the
schedule's `job_sequences` returns the identical schedule: every entry — operation, machine, start time — in the
same per-machine order; in particular it raises nothing. -/
theorem C14_seq_rebuild (c : Cfg) (hv : Valid c.I) (hn : NonFlexH c.I) (evs : List Ev)
    (hcomp : isComplete c.I (run c evs) = true) :
    ∃ s', fromJobSequences c.I (numOps c.I + 1) (jobSequences (run c evs)) (init c.I) = .ok s' ∧
      s'.sched = (run c evs).sched := by
  have hT := target_run c hv evs hcomp
  exact seq_rebuild_fuel hv hT hn _ _ _ (rinv_init hT) (by simp [numScheduled, init])

/-! non-vacuity: a non-flexible instance with zero durations and recirculation; a complete history with a rejected
request, a reset and a query -/
def rebuildInstance : Instance := [[⟨[0], 0⟩, ⟨[1], 2⟩, ⟨[0], 0⟩], [⟨[0], 0⟩, ⟨[1], 0⟩]]
def rebuildHistory : List Ev :=
  [.disp 1 0 none, .reset, .disp 0 0 none, .disp 0 1 none, .disp 1 1 none, .disp 1 0 none, .query .makespan,
   .disp 0 2 none, .disp 1 1 (some 1)]
example : Valid rebuildInstance := valid_of_validB (by decide)
example : NonFlexH rebuildInstance := by
  intro j p op h
  have : ∀ r ∈ allOps rebuildInstance, ∀ op, getOp rebuildInstance r.1 r.2 = some op → op.machines.length = 1 := by decide
  have h1 := this (j, p) ((mem_allOps' _ _).2 (by simp [h])) op h
  cases hm : op.machines with
  | nil => rw [hm] at h1; cases h1
  | cons a t => rw [hm] at h1; cases t with
    | nil => exact ⟨a, rfl⟩
    | cons b t => simp at h1
example : isComplete rebuildInstance (run { I := rebuildInstance } rebuildHistory) = true := by decide
example : (run { I := rebuildInstance } rebuildHistory).sched =
    [[⟨0, 0, 0, 0, 0⟩, ⟨1, 0, 0, 0, 0⟩, ⟨0, 2, 0, 2, 0⟩], [⟨0, 1, 1, 0, 2⟩, ⟨1, 1, 1, 2, 0⟩]] := by decide

/-! ## the converse direction: an accepted input is reproduced (up to ignored trailing ids) -/

theorem wf_dispatch {I : Instance} {s s' : State} {j p m : Nat} {op : Op} (hwf : WF I s)
    (hd : DispSpec I s s' j p m op) : WF I s' := by
  rw [hd.eq]
  constructor <;> simp [hwf.lenS, hwf.lenM, hwf.lenI, hwf.lenN]

/-- invariant of the loop for arbitrary input `seqs`: what was consumed of machine `m`'s queue is the job-id list of
what was placed on `m` -/
structure VInv (I : Instance) (seqs : List (List Nat)) (t : State) (d : List (List Nat)) : Prop where
  wf : WF I t
  split : ∀ m, seqs.getD m [] = (t.sched.getD m []).map (·.job) ++ d.getD m []

theorem vinv_machine {I : Instance} {seqs : List (List Nat)} {t : State} {d : List (List Nat)} (hi : VInv I seqs t d)
    (m : Nat) (pr : Bool) (r : List (List Nat) × State × Bool) (h : jobSeqMachine I m d t pr = .ok r) :
    VInv I seqs r.2.1 r.1 := by
  unfold jobSeqMachine at h
  cases hd : d.getD m [] with
  | nil => rw [hd] at h; cases h; exact hi
  | cons j rest =>
    rw [hd] at h
    simp only at h
    cases hop : getOp I j (t.jobIdx.getD j 0) with
    | none => rw [hop] at h; cases h
    | some op =>
      rw [hop] at h
      simp only at h
      by_cases hm : op.machines.contains m = true
      · simp only [hm, ↓reduceIte] at h
        cases hdisp : dispatch I t j (t.jobIdx.getD j 0) m with
        | error e => rw [hdisp] at h; cases h
        | ok t' =>
          rw [hdisp] at h
          cases h
          obtain ⟨op', hsp⟩ := dispatch_ok hdisp
          have hsched := sched_getD_dispatch hi.wf hsp
          have hml : m < d.length := by
            apply Classical.byContradiction
            intro hn
            have : d.getD m [] = [] := by
              simp only [List.getD_eq_getElem?_getD]
              rw [List.getElem?_eq_none (by omega)]; rfl
            rw [this] at hd; cases hd
          refine ⟨wf_dispatch hi.wf hsp, ?_⟩
          intro k
          simp only
          rw [hsched, getD_set_eq _ _ _ _ hml]
          by_cases hk : k = m
          · subst hk
            simp only [↓reduceIte]
            rw [hi.split k, hd]
            simp
          · simp only [hk, ↓reduceIte]
            exact hi.split k
      · simp only [hm, Bool.false_eq_true, ↓reduceIte] at h
        cases h; exact hi

theorem vinv_passFrom {I : Instance} {seqs : List (List Nat)} : ∀ (ms : List Nat) (d : List (List Nat)) (t : State)
    (pr : Bool) (r : List (List Nat) × State × Bool), VInv I seqs t d → jobSeqPassFrom I ms d t pr = .ok r →
    VInv I seqs r.2.1 r.1
  | [], d, t, pr, r, hi, h => by
    unfold jobSeqPassFrom at h; cases h; exact hi
  | m :: ms, d, t, pr, r, hi, h => by
    unfold jobSeqPassFrom at h
    cases hp : jobSeqMachine I m d t pr with
    | error e => rw [hp] at h; cases h
    | ok r1 =>
      rw [hp] at h
      obtain ⟨d1, t1, pr1⟩ := r1
      simp only at h
      exact vinv_passFrom ms d1 t1 pr1 r (vinv_machine hi m pr _ hp) h

theorem seqMachine_err (I : Instance) (m : Nat) (d : List (List Nat)) (t : State) (pr : Bool) (e : SeqResult)
    (h : jobSeqMachine I m d t pr = .error e) : e = .indexError ∨ e = .dispatchError := by
  unfold jobSeqMachine at h
  split at h
  · cases h
  · simp only at h
    split at h
    · cases h; left; rfl
    · split at h
      · split at h
        · cases h
        · cases h; right; rfl
      · cases h

theorem seqPassFrom_err (I : Instance) : ∀ (ms : List Nat) (d : List (List Nat)) (t : State) (pr : Bool) (e : SeqResult),
    jobSeqPassFrom I ms d t pr = .error e → e = .indexError ∨ e = .dispatchError
  | [], d, t, pr, e, h => by unfold jobSeqPassFrom at h; cases h
  | m :: ms, d, t, pr, e, h => by
    unfold jobSeqPassFrom at h
    cases hp : jobSeqMachine I m d t pr with
    | error e' =>
      rw [hp] at h; cases h
      exact seqMachine_err I m d t pr _ hp
    | ok r1 =>
      rw [hp] at h
      obtain ⟨d1, t1, pr1⟩ := r1
      exact seqPassFrom_err I ms d1 t1 pr1 e h

theorem vinv_loop {I : Instance} {seqs : List (List Nat)} : ∀ (fuel : Nat) (d : List (List Nat)) (t s' : State),
    VInv I seqs t d → fromJobSequences I fuel d t = .ok s' →
    isComplete I s' = true ∧ ∃ d', VInv I seqs s' d'
  | 0, d, t, s', hi, h => by
    unfold fromJobSequences at h
    by_cases hc : isComplete I t = true
    · simp only [hc, ↓reduceIte] at h; cases h; exact ⟨hc, d, hi⟩
    · simp [hc] at h
  | fuel + 1, d, t, s', hi, h => by
    unfold fromJobSequences at h
    by_cases hc : isComplete I t = true
    · simp only [hc, ↓reduceIte] at h; cases h; exact ⟨hc, d, hi⟩
    · simp only [hc, Bool.false_eq_true, ↓reduceIte] at h
      cases hp : jobSeqPass I d t with
      | error e =>
        rw [hp] at h; simp only at h; subst h
        rcases seqPassFrom_err I _ d t false _ hp with h | h <;> cases h
      | ok r =>
        rw [hp] at h
        obtain ⟨d1, t1, pr1⟩ := r
        simp only at h
        by_cases hpr : pr1 = true
        · simp only [hpr, ↓reduceIte] at h
          exact vinv_loop fuel d1 t1 s' (vinv_passFrom _ d t false _ hi hp) h
        · simp [hpr] at h

theorem sum_length_le_of_prefix {α} : ∀ (L1 L2 : List (List α)), L1.length = L2.length →
    (∀ m, ∃ rest, L2.getD m [] = L1.getD m [] ++ rest) → (L1.map List.length).sum ≤ (L2.map List.length).sum
  | [], [], _, _ => by simp
  | [], _ :: _, h, _ => by simp at h
  | _ :: _, [], h, _ => by simp at h
  | a :: L1, b :: L2, hlen, hp => by
    obtain ⟨rest, h0⟩ := hp 0
    simp only [List.getD_cons_zero] at h0
    have ih := sum_length_le_of_prefix L1 L2 (by simpa using hlen) (fun m => by simpa using hp (m + 1))
    simp only [List.map_cons, List.sum_cons, h0, List.length_append]
    omega

theorem eq_of_prefix_sum {α} : ∀ (L1 L2 : List (List α)), L1.length = L2.length →
    (∀ m, ∃ rest, L2.getD m [] = L1.getD m [] ++ rest) → (L2.map List.length).sum ≤ (L1.map List.length).sum → L1 = L2
  | [], [], _, _, _ => rfl
  | [], _ :: _, h, _, _ => by simp at h
  | _ :: _, [], h, _, _ => by simp at h
  | a :: L1, b :: L2, hlen, hp, hs => by
    obtain ⟨rest, h0⟩ := hp 0
    simp only [List.getD_cons_zero] at h0
    have hlen' : L1.length = L2.length := by simpa using hlen
    have hp' : ∀ m, ∃ rest, L2.getD m [] = L1.getD m [] ++ rest := fun m => by simpa using hp (m + 1)
    have hle := sum_length_le_of_prefix L1 L2 hlen' hp'
    simp only [List.map_cons, List.sum_cons, h0, List.length_append] at hs
    have hr : rest = [] := List.eq_nil_of_length_eq_zero (by omega)
    subst hr
    rw [eq_of_prefix_sum L1 L2 hlen' hp' (by omega), h0]; simp

theorem jobSequences_getD (s : State) (m : Nat) :
    (jobSequences s).getD m [] = (s.sched.getD m []).map (·.job) := by
  simp only [jobSequences, List.getD_eq_getElem?_getD, List.getElem?_map]
  cases s.sched[m]? <;> simp

/-- **C14 (job sequences: an accepted input is reproduced).**  Whatever the instance and the input sequences, if
`from_job_sequences` returns a schedule, that schedule's `job_sequences` rows are prefixes of the input rows (ids
left in a queue once the schedule is complete are silently ignored); when the input has one row per machine and no
more ids than the instance has operations, the input is reproduced exactly. -/
theorem C14_seq_converse (I : Instance) (fuel : Nat) (seqs : List (List Nat)) (s' : State)
    (h : fromJobSequences I fuel seqs (init I) = .ok s') :
    (∀ m, ∃ rest, seqs.getD m [] = (jobSequences s').getD m [] ++ rest) ∧
    (seqs.length = numMachines I → (seqs.map List.length).sum ≤ numOps I → jobSequences s' = seqs) := by
  have h0 : VInv I seqs (init I) seqs := ⟨wf_init I, fun m => by simp only [init, getD_replicate_nil, List.map_nil, List.nil_append]⟩
  obtain ⟨hc, d', hi⟩ := vinv_loop fuel seqs (init I) s' h0 h
  have hpre : ∀ m, ∃ rest, seqs.getD m [] = (jobSequences s').getD m [] ++ rest :=
    fun m => ⟨d'.getD m [], by rw [jobSequences_getD]; exact hi.split m⟩
  refine ⟨hpre, ?_⟩
  intro hlen hsum
  apply eq_of_prefix_sum _ _ (by simp [jobSequences, hi.wf.lenS, hlen]) hpre
  have : ((jobSequences s').map List.length).sum = numOps I := by
    have : numScheduled s' = numOps I := by simpa [isComplete] using hc
    rw [← this]
    simp [jobSequences, numScheduled, List.map_map, Function.comp_def]
  omega

/-- the exact converse fails without the bound on the number of ids: a trailing id is ignored -/
example : ∃ s', fromJobSequences [[⟨[0], 1⟩]] 2 [[0, 0]] (init [[⟨[0], 1⟩]]) = .ok s' ∧
    jobSequences s' = [[0]] :=
  ⟨{ sched := [[⟨0, 0, 0, 0, 1⟩]], machNext := [1], jobIdx := [1], jobNext := [1], cache := {} }, by decide, by decide⟩

end JS

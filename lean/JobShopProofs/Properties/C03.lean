import JobShopProofs.CpLemmas
/-!
# C03 — the CP-SAT solver returns feasible, truly optimal schedules

What is proved here is about the model `ORToolsSolver` hands to CP-SAT and about the schedule it reads back:

* **sound**: every solution of the generated model is a feasible complete assignment (`FeasT`, the declarative notion
  C08 uses) finishing by the objective value, and reading it back the way `_create_schedule` does (per machine, sorted
  by `(start, end)`) passes the `Schedule` constructor's check — also with zero-duration operations;
* **complete**: every feasible complete assignment finishing within the horizon is a solution with objective at most
  its completion time; a solution always exists (the horizon `total_duration` is large enough), so "no solution" can
  only come from a time limit;
* hence the optimum of the model is the true optimum, is at most the makespan of every dispatcher-built schedule, and
  at least every job's length and every machine's load.

Trusted: CP-SAT (a returned solution satisfies the model; `OPTIMAL` means no solution has a smaller objective) and the
constraint semantics `CpCon.holds` transcribed from `cp_model.proto`.
-/
namespace JS

/-- one eligible machine per operation -/
def NonFlexI (I : Instance) : Prop := ∀ j p op, getOp I j p = some op → ∃ m, op.machines = [m]

/-- the assignment a solution encodes -/
def asgOfSol (I : Instance) (v : Nat → Int) : Asg :=
  { mach := fun j p => machOf I (j, p), st := fun j p => v (startVar I (j, p)) }

theorem machOf_eq {I : Instance} {j p : Nat} {op : Op} (h : getOp I j p = some op) :
    machOf I (j, p) = op.machines.headD 0 := by simp [machOf, h]

theorem durOf_eq {I : Instance} {j p : Nat} {op : Op} (h : getOp I j p = some op) : durOf I (j, p) = op.dur := by
  simp [durOf, h]

/-- what a solution says about one operation -/
theorem sat_op {I : Instance} {v : Nat → Int} (hs : (cpModel I).Sat v) {r : OpRef} (h : r ∈ allOps I) :
    v (endVar I r) = v (startVar I r) + durOf I r ∧ 0 ≤ v (startVar I r) ∧ v (endVar I r) ≤ totalDuration I := by
  have h1 := hs.con _ (cp_mem_endEq h)
  simp only [CpCon.holds, linSum, List.map_cons, List.map_nil, List.sum_cons, List.sum_nil] at h1
  have hlt := opId_lt h
  have d1 := hs.dom (startVar I r) _ (cp_dom I _ (by simp only [startVar]; omega))
  have d2 := hs.dom (endVar I r) _ (cp_dom I _ (by simp only [endVar]; omega))
  simp only at d1 d2
  refine ⟨by omega, d1.1, d2.2⟩

theorem sat_prec {I : Instance} {v : Nat → Int} (hs : (cpModel I).Sat v) {j p : Nat} (h : (j, p + 1) ∈ allOps I) :
    v (endVar I (j, p)) ≤ v (startVar I (j, p + 1)) := by
  have h1 := hs.con _ (cp_mem_prec h (by simp))
  simp only [CpCon.holds, linSum, List.map_cons, List.map_nil, List.sum_cons, List.sum_nil, Nat.add_sub_cancel] at h1
  omega

/-- on every machine the intervals of a solution are pairwise disjoint -/
theorem sat_disjoint {I : Instance} (hv : Valid I) {v : Nat → Int} (hs : (cpModel I).Sat v) {m : Nat}
    (hm : m < numMachines I) :
    (opsOn I m).Pairwise fun a b => v (endVar I a) ≤ v (startVar I b) ∨ v (endVar I b) ≤ v (startVar I a) := by
  have h1 := hs.con _ (cp_mem_noOverlap hm)
  simp only [CpCon.holds, NoOverlap] at h1
  obtain ⟨order, hperm, hcons⟩ := h1
  have hmem : ∀ a ∈ order, v a.1 ≤ v a.2.2 := by
    intro a ha
    obtain ⟨r, hr, rfl⟩ := List.mem_map.1 (hperm.mem_iff.1 ha)
    obtain ⟨h2, _, _⟩ := sat_op hs (mem_opsOn.1 hr).1
    obtain ⟨op, hop⟩ := Option.isSome_iff_exists.1 ((mem_allOps' I r).1 (mem_opsOn.1 hr).1)
    have hd : 0 ≤ durOf I r := by
      have := (hv r.1 r.2 op hop).2.2
      simp only [durOf, hop]; exact this
    simp only [itvOf]; omega
  have hpw := consec_pairwise (fun a : Itv => v a.1) (fun a => v a.2.2) order hmem hcons
  have hsym : order.Pairwise fun a b => v a.2.2 ≤ v b.1 ∨ v b.2.2 ≤ v a.1 := hpw.imp (fun h => Or.inl h)
  have hsym' : ((opsOn I m).map (itvOf I)).Pairwise fun a b => v a.2.2 ≤ v b.1 ∨ v b.2.2 ≤ v a.1 :=
    (hperm.pairwise_iff (fun {a b} h => h.symm)).1 hsym
  rw [List.pairwise_map] at hsym'
  exact hsym'.imp (fun h => h)

/-- **C03 (every solution is a feasible complete schedule).** For a valid non-flexible instance (durations `≥ 0`),
every solution of the generated model assigns every operation its machine and a start time such that: no start is
negative, operations of a job run in order without overlap, operations sharing a machine do not overlap — and every
operation ends by the value of the objective variable, which is attained by some operation. -/
theorem C03_solution_feasible (I : Instance) (hv : Valid I) (hn : NonFlexI I) (v : Nat → Int) (hs : (cpModel I).Sat v) :
    FeasT I (asgOfSol I v) ∧ BoundT I (asgOfSol I v) (v (makespanVar I)) ∧
    (∃ r ∈ allOps I, v (startVar I r) + durOf I r = v (makespanVar I)) := by
  have hmax := hs.con _ (cp_mem_linMax I)
  simp only [CpCon.holds, List.mem_map, forall_exists_index, and_imp, forall_apply_eq_imp_iff₂] at hmax
  refine ⟨⟨?_, ?_, ?_, ?_⟩, ?_, ?_⟩
  · intro j p op hop
    obtain ⟨m, hm⟩ := hn j p op hop
    simp only [asgOfSol, machOf_eq hop, hm]; simp
  · intro j p op hop
    exact (sat_op hs (mem_allOps_of_getOp hop)).2.1
  · intro j p op op' hop hop'
    have h1 := sat_op hs (mem_allOps_of_getOp hop)
    have h2 := sat_prec hs (mem_allOps_of_getOp hop')
    simp only [asgOfSol]
    rw [← durOf_eq hop]; omega
  · intro j p op j' p' op' hop hop' hne hmach
    simp only [asgOfSol] at hmach ⊢
    have hm : machOf I (j, p) < numMachines I := by
      obtain ⟨m, hm⟩ := hn j p op hop
      rw [machOf_eq hop, hm]
      exact machine_lt I j p m op hop (by rw [hm]; simp)
    have hpw := sat_disjoint hv hs hm
    have ha : (j, p) ∈ opsOn I (machOf I (j, p)) := mem_opsOn.2 ⟨mem_allOps_of_getOp hop, rfl⟩
    have hb : (j', p') ∈ opsOn I (machOf I (j, p)) := mem_opsOn.2 ⟨mem_allOps_of_getOp hop', hmach.symm⟩
    have h1 := sat_op hs (mem_allOps_of_getOp hop)
    have h2 := sat_op hs (mem_allOps_of_getOp hop')
    rw [← durOf_eq hop, ← durOf_eq hop']
    rcases pairwise_either hpw _ ha _ hb hne with h | h
    · rcases h with h | h
      · left; omega
      · right; omega
    · rcases h with h | h
      · right; omega
      · left; omega
  · intro j p op hop
    have h1 := sat_op hs (mem_allOps_of_getOp hop)
    have := hmax.1 (j, p) (mem_allOps_of_getOp hop)
    simp only [asgOfSol]
    rw [← durOf_eq hop]; omega
  · obtain ⟨e, ⟨r, hr, rfl⟩, he⟩ := hmax.2
    exact ⟨r, hr, by rw [← he, (sat_op hs hr).1]⟩


/-! ## reading the solution back -/

theorem sopOf_end {I : Instance} {v : Nat → Int} (hs : (cpModel I).Sat v) {r : OpRef} (h : r ∈ allOps I) :
    (sopOf I v r).end_ = v (endVar I r) := by
  simp only [SOp.end_, sopOf]; rw [(sat_op hs h).1]

theorem sopOf_dur_nonneg {I : Instance} (hv : Valid I) {v : Nat → Int} {r : OpRef} (h : r ∈ allOps I) :
    0 ≤ (sopOf I v r).dur := by
  obtain ⟨op, hop⟩ := Option.isSome_iff_exists.1 ((mem_allOps' I r).1 h)
  simp only [sopOf, durOf, hop]; exact (hv r.1 r.2 op hop).2.2

/-- on every machine, the list `_create_schedule` builds is in time order without overlap -/
theorem cpSchedule_machine_ordered {I : Instance} (hv : Valid I) {v : Nat → Int} (hs : (cpModel I).Sat v) {m : Nat}
    (hm : m < numMachines I) :
    (sortSOps ((opsOn I m).map (sopOf I v))).Pairwise (fun a b => a.end_ ≤ b.start) := by
  obtain ⟨hperm, hsorted⟩ := sortSOps_spec ((opsOn I m).map (sopOf I v))
  have hdisj0 : ((opsOn I m).map (sopOf I v)).Pairwise Disj := by
    rw [List.pairwise_map]
    refine (sat_disjoint hv hs hm).imp_of_mem ?_
    intro a b ha hb h
    simp only [Disj, sopOf_end hs (mem_opsOn.1 ha).1, sopOf_end hs (mem_opsOn.1 hb).1]
    exact h
  have hdisj : (sortSOps ((opsOn I m).map (sopOf I v))).Pairwise Disj :=
    (hperm.pairwise_iff (fun {a b} h => disj_symm h)).2 hdisj0
  apply sorted_disjoint_ordered _ _ hsorted hdisj
  intro a ha
  obtain ⟨r, hr, rfl⟩ := List.mem_map.1 (hperm.mem_iff.1 ha)
  exact sopOf_dur_nonneg hv (mem_opsOn.1 hr).1

theorem pairwise_zip_tail {α} (R : α → α → Prop) : ∀ (l : List α), l.Pairwise R → ∀ ab ∈ l.zip l.tail, R ab.1 ab.2
  | [], _, ab, h => by simp at h
  | [a], _, ab, h => by simp at h
  | a :: b :: t, hp, ab, h => by
    simp only [List.tail_cons, List.zip_cons_cons, List.mem_cons] at h
    rw [List.pairwise_cons] at hp
    rcases h with rfl | h
    · exact hp.1 b (by simp)
    · exact pairwise_zip_tail R (b :: t) hp.2 ab (by simpa using h)

theorem mem_cpSchedule {I : Instance} {v : Nat → Int} {ms : List SOp} (h : ms ∈ cpSchedule I v) :
    ∃ m < numMachines I, ms = sortSOps ((opsOn I m).map (sopOf I v)) := by
  simp only [cpSchedule, List.mem_map, List.mem_range] at h
  obtain ⟨m, hm, rfl⟩ := h
  exact ⟨m, hm, rfl⟩

/-- **C03 (the schedule is accepted and reports its own makespan).** For every solution, `_create_schedule`'s
per-machine lists sorted by `(start, end)` pass the `Schedule` constructor's check (so no `ValidationError`, also with
zero-duration operations that share a start time with another operation), and `Schedule.makespan()` of the result is
the value of the objective variable that is written into the metadata. -/
theorem C03_schedule_accepted (I : Instance) (hv : Valid I) (hn : NonFlexI I) (v : Nat → Int) (hs : (cpModel I).Sat v) :
    cpResult I v = some (cpSchedule I v, v (makespanVar I)) ∧
    scheduleMakespan (cpSchedule I v) = v (makespanVar I) ∧
    ∀ ms ∈ cpSchedule I v, ms.Pairwise (fun a b => a.end_ ≤ b.start) := by
  have hord : ∀ ms ∈ cpSchedule I v, ms.Pairwise (fun a b => a.end_ ≤ b.start) := by
    intro ms hms
    obtain ⟨m, hm, rfl⟩ := mem_cpSchedule hms
    exact cpSchedule_machine_ordered hv hs hm
  have hmax := hs.con _ (cp_mem_linMax I)
  simp only [CpCon.holds, List.mem_map, forall_exists_index, and_imp, forall_apply_eq_imp_iff₂] at hmax
  have hmk0 : 0 ≤ v (makespanVar I) := (hs.dom (makespanVar I) _ (cp_dom I _ (by simp [makespanVar]))).1
  refine ⟨?_, ?_, hord⟩
  · unfold cpResult
    have : scheduleCheck (cpSchedule I v) = true := by
      simp only [scheduleCheck, List.all_eq_true, decide_eq_true_eq]
      intro ms hms ab hab
      exact pairwise_zip_tail _ ms (hord ms hms) ab hab
    simp only [this, ↓reduceIte]
  · apply Int.le_antisymm
    · rcases foldl_last_attained (cpSchedule I v) 0 with h0 | ⟨ms, hms, l, hl, he⟩
      · unfold scheduleMakespan; rw [h0]; exact hmk0
      · unfold scheduleMakespan; rw [← he]
        obtain ⟨m, hm, rfl⟩ := mem_cpSchedule hms
        have hl' := (sortSOps_spec ((opsOn I m).map (sopOf I v))).1.mem_iff.1 (List.mem_of_getLast? hl)
        obtain ⟨r, hr, rfl⟩ := List.mem_map.1 hl'
        rw [sopOf_end hs (mem_opsOn.1 hr).1]
        exact hmax.1 r (mem_opsOn.1 hr).1
    · obtain ⟨e, ⟨r, hr, rfl⟩, he⟩ := hmax.2
      rw [← he]
      -- r sits on its machine's list; the last entry of that list ends no earlier
      obtain ⟨op, hop⟩ := Option.isSome_iff_exists.1 ((mem_allOps' I r).1 hr)
      have hm : machOf I r < numMachines I := by
        obtain ⟨m, hm⟩ := hn r.1 r.2 op hop
        rw [show r = (r.1, r.2) from rfl, machOf_eq hop, hm]
        exact machine_lt I r.1 r.2 m op hop (by rw [hm]; simp)
      have hmem : sopOf I v r ∈ sortSOps ((opsOn I (machOf I r)).map (sopOf I v)) :=
        (sortSOps_spec _).1.mem_iff.2 (List.mem_map_of_mem (mem_opsOn.2 ⟨hr, rfl⟩))
      have hin : sortSOps ((opsOn I (machOf I r)).map (sopOf I v)) ∈ cpSchedule I v := by
        simp only [cpSchedule, List.mem_map, List.mem_range]; exact ⟨_, hm, rfl⟩
      have hpw := cpSchedule_machine_ordered hv hs hm
      generalize sortSOps ((opsOn I (machOf I r)).map (sopOf I v)) = ms at hmem hin hpw
      cases hl : ms.getLast? with
      | none => rw [List.getLast?_eq_none_iff] at hl; subst hl; cases hmem
      | some l =>
        have hle : (sopOf I v r).end_ ≤ l.end_ := by
          obtain ⟨pre, rfl⟩ : ∃ pre, ms = pre ++ [l] := by
            have := List.getLast?_eq_some_iff.1 hl
            exact this
          rcases List.mem_append.1 hmem with h1 | h1
          · have := (List.pairwise_append.1 hpw).2.2 _ h1 l (by simp)
            have hd : 0 ≤ l.dur := by
              have hl2 : l ∈ pre ++ [l] := by simp
              rcases hin' : mem_cpSchedule hin with ⟨m', hm', heq⟩
              have := (sortSOps_spec ((opsOn I m').map (sopOf I v))).1.mem_iff.1 (heq ▸ hl2)
              obtain ⟨r', hr', rfl⟩ := List.mem_map.1 this
              exact sopOf_dur_nonneg hv (mem_opsOn.1 hr').1
            simp only [SOp.end_] at this ⊢; omega
          · simp at h1; rw [h1]; exact Int.le_refl _
        rw [← sopOf_end hs hr]
        exact Int.le_trans hle (foldl_last_mem (cpSchedule I v) 0 ms l hin hl)


/-! ## every feasible assignment within the horizon is a solution -/

def maxEnd (I : Instance) (T : Asg) : Int := ((allOps I).map fun r => T.st r.1 r.2 + durOf I r).foldl max 0

/-- the solution that encodes an assignment -/
def solOf (I : Instance) (T : Asg) (i : Nat) : Int :=
  if i = makespanVar I then maxEnd I T else
  let r := (allOps I).getD (i / 2) (0, 0)
  if i % 2 = 0 then T.st r.1 r.2 else T.st r.1 r.2 + durOf I r

theorem foldlMaxInt_ge (l : List Int) : ∀ (acc : Int), acc ≤ l.foldl max acc ∧ ∀ x ∈ l, x ≤ l.foldl max acc := by
  induction l with
  | nil => intro acc; simp
  | cons a t ih =>
    intro acc
    simp only [List.foldl_cons, List.mem_cons]
    obtain ⟨h1, h2⟩ := ih (max acc a)
    refine ⟨by omega, ?_⟩
    rintro x (rfl | hx)
    · omega
    · exact h2 x hx

theorem foldlMaxInt_attained (l : List Int) : ∀ (acc : Int), l.foldl max acc = acc ∨ l.foldl max acc ∈ l := by
  induction l with
  | nil => intro acc; left; rfl
  | cons a t ih =>
    intro acc
    simp only [List.foldl_cons, List.mem_cons]
    rcases ih (max acc a) with h | h
    · by_cases hc : a ≤ acc
      · left; rw [h]; omega
      · right; left; rw [h]; omega
    · right; right; exact h

theorem solOf_start {I : Instance} (T : Asg) {r : OpRef} (h : r ∈ allOps I) : solOf I T (startVar I r) = T.st r.1 r.2 := by
  have hlt := opId_lt h
  have hg := allOps_getElem_opId h
  unfold solOf
  have hne : startVar I r ≠ makespanVar I := by simp only [startVar, makespanVar]; omega
  rw [if_neg hne]
  have h2 : startVar I r / 2 = opId I r := by simp only [startVar]; omega
  have h3 : startVar I r % 2 = 0 := by simp only [startVar]; omega
  simp only [h2, h3, ↓reduceIte, List.getD_eq_getElem?_getD, hg, Option.getD_some]

theorem solOf_end {I : Instance} (T : Asg) {r : OpRef} (h : r ∈ allOps I) :
    solOf I T (endVar I r) = T.st r.1 r.2 + durOf I r := by
  have hlt := opId_lt h
  have hg := allOps_getElem_opId h
  unfold solOf
  have hne : endVar I r ≠ makespanVar I := by simp only [endVar, makespanVar]; omega
  rw [if_neg hne]
  have h2 : endVar I r / 2 = opId I r := by simp only [endVar]; omega
  have h3 : ¬ endVar I r % 2 = 0 := by simp only [endVar]; omega
  simp only [h2, h3, ↓reduceIte, List.getD_eq_getElem?_getD, hg, Option.getD_some]

theorem solOf_mk (I : Instance) (T : Asg) : solOf I T (makespanVar I) = maxEnd I T := by simp [solOf]

theorem pairwise_of_nodup {α} (R : α → α → Prop) : ∀ (l : List α), l.Nodup → (∀ a ∈ l, ∀ b ∈ l, a ≠ b → R a b) → l.Pairwise R
  | [], _, _ => List.Pairwise.nil
  | a :: t, hn, h => by
    rw [List.nodup_cons] at hn
    rw [List.pairwise_cons]
    refine ⟨fun b hb => h a (by simp) b (by simp [hb]) (fun e => hn.1 (e ▸ hb)), ?_⟩
    exact pairwise_of_nodup R t hn.2 (fun x hx y hy hne => h x (by simp [hx]) y (by simp [hy]) hne)

/-- **C03 (every feasible schedule within the horizon is a solution).** A feasible complete assignment that uses
each operation's machine and finishes by `B ≤ total_duration` is a solution of the generated model whose objective
value is at most `B`. -/
theorem C03_feasible_is_solution (I : Instance) (hv : Valid I) (T : Asg) (hT : FeasT I T)
    (hmach : ∀ j p op, getOp I j p = some op → T.mach j p = machOf I (j, p))
    (B : Int) (hB : BoundT I T B) (hH : B ≤ totalDuration I) (hB0 : 0 ≤ B) (hne : 0 < numOps I) :
    (cpModel I).Sat (solOf I T) ∧ solOf I T (makespanVar I) ≤ B := by
  have hop_of : ∀ r ∈ allOps I, ∃ op, getOp I r.1 r.2 = some op := fun r hr =>
    Option.isSome_iff_exists.1 ((mem_allOps' I r).1 hr)
  have hdur : ∀ r ∈ allOps I, 0 ≤ durOf I r := by
    intro r hr
    obtain ⟨op, hop⟩ := hop_of r hr
    simp only [durOf, hop]; exact (hv r.1 r.2 op hop).2.2
  have hst0 : ∀ r ∈ allOps I, 0 ≤ T.st r.1 r.2 := fun r hr => by
    obtain ⟨op, hop⟩ := hop_of r hr; exact hT.nonneg r.1 r.2 op hop
  have hendB : ∀ r ∈ allOps I, T.st r.1 r.2 + durOf I r ≤ B := fun r hr => by
    obtain ⟨op, hop⟩ := hop_of r hr
    have := hB r.1 r.2 op hop
    simp only [durOf, hop]; exact this
  have hmaxle : maxEnd I T ≤ B := by
    unfold maxEnd
    rcases foldlMaxInt_attained ((allOps I).map fun r => T.st r.1 r.2 + durOf I r) 0 with h | h
    · rw [h]; exact hB0
    · obtain ⟨r, hr, he⟩ := List.mem_map.1 h
      rw [← he]; exact hendB r hr
  have hmaxge : ∀ r ∈ allOps I, T.st r.1 r.2 + durOf I r ≤ maxEnd I T := fun r hr =>
    (foldlMaxInt_ge ((allOps I).map fun r => T.st r.1 r.2 + durOf I r) 0).2 _
      (List.mem_map_of_mem (f := fun r => T.st r.1 r.2 + durOf I r) hr)
  have hmax0 : 0 ≤ maxEnd I T := (foldlMaxInt_ge ((allOps I).map fun r => T.st r.1 r.2 + durOf I r) 0).1
  -- disjointness on a machine
  have hdisj : ∀ m, ((opsOn I m).map (sopOf I (solOf I T))).Pairwise Disj := by
    intro m
    rw [List.pairwise_map]
    apply pairwise_of_nodup _ _ ((nodup_allOps I).filter _)
    intro a ha b hb hab
    obtain ⟨opa, hopa⟩ := hop_of a (mem_opsOn.1 ha).1
    obtain ⟨opb, hopb⟩ := hop_of b (mem_opsOn.1 hb).1
    have hm : T.mach a.1 a.2 = T.mach b.1 b.2 := by
      rw [hmach _ _ _ hopa, hmach _ _ _ hopb]
      exact (mem_opsOn.1 ha).2.trans (mem_opsOn.1 hb).2.symm
    have := hT.disj a.1 a.2 opa b.1 b.2 opb hopa hopb hab hm
    simp only [Disj, SOp.end_, sopOf, solOf_start T (mem_opsOn.1 ha).1, solOf_start T (mem_opsOn.1 hb).1, durOf, hopa, hopb]
    exact this
  refine ⟨⟨?_, ?_⟩, by rw [solOf_mk]; exact hmaxle⟩
  · -- domains
    intro i lh hi
    obtain ⟨hlt, rfl⟩ := cp_dom_some hi
    simp only
    by_cases hmk : i = makespanVar I
    · rw [hmk, solOf_mk]; exact ⟨hmax0, by omega⟩
    · have hk : i / 2 < (allOps I).length := by rw [length_allOps]; simp only [makespanVar] at hmk; omega
      have hr : (allOps I)[i / 2] ∈ allOps I := List.getElem_mem hk
      have hopid : opId I ((allOps I)[i / 2]) = i / 2 := by
        have := C14_ids I
        have h2 : ((allOps I).map (opId I))[i / 2]? = some (opId I ((allOps I)[i / 2])) := by
          simp [List.getElem?_eq_getElem hk]
        rw [this, List.getElem?_range (by rwa [length_allOps] at hk)] at h2
        exact (Option.some.inj h2).symm
      by_cases hpar : i % 2 = 0
      · have : i = startVar I ((allOps I)[i / 2]) := by simp only [startVar, hopid]; omega
        rw [this, solOf_start T hr]
        have := hendB _ hr; have := hdur _ hr; have := hst0 _ hr
        exact ⟨by omega, by omega⟩
      · have : i = endVar I ((allOps I)[i / 2]) := by simp only [endVar, hopid]; omega
        rw [this, solOf_end T hr]
        have := hendB _ hr; have := hdur _ hr; have := hst0 _ hr
        exact ⟨by omega, by omega⟩
  · -- constraints
    intro c hc
    rcases cp_cons_cases hc with ⟨r, hr, rfl⟩ | ⟨r, hr, hp, rfl⟩ | ⟨m, hm, r, hr, rfl⟩ | ⟨m, hm, rfl⟩ | rfl
    · simp only [CpCon.holds, linSum, List.map_cons, List.map_nil, List.sum_cons, List.sum_nil,
        solOf_start T hr, solOf_end T hr]
      omega
    · obtain ⟨op, hop⟩ := hop_of r hr
      have hprev : (r.1, r.2 - 1) ∈ allOps I := by
        rw [mem_allOps']
        simp only [getOp] at hop ⊢
        cases hj : I[r.1]? with
        | none => simp [hj] at hop
        | some job =>
          simp only [hj, Option.bind_some] at hop ⊢
          have hlt : r.2 < job.length := (List.getElem?_eq_some_iff.1 hop).1
          simp [List.getElem?_eq_getElem (show r.2 - 1 < job.length by omega)]
      obtain ⟨op', hop'⟩ := hop_of _ hprev
      have hsucc : getOp I r.1 (r.2 - 1 + 1) = some op := by
        rw [Nat.sub_add_cancel (by omega)]; exact hop
      have := hT.prec r.1 (r.2 - 1) op' op hop' hsucc
      rw [Nat.sub_add_cancel (by omega)] at this
      simp only [CpCon.holds, linSum, List.map_cons, List.map_nil, List.sum_cons, List.sum_nil,
        solOf_start T hr, solOf_end T hprev, durOf, hop', true_and]
      omega
    · have hr' := (mem_opsOn.1 hr).1
      show solOf I T (startVar I r) + durOf I r = solOf I T (endVar I r)
      rw [solOf_start T hr', solOf_end T hr']
    · -- no overlap: the sorted order is a witness
      simp only [CpCon.holds, NoOverlap]
      obtain ⟨hperm, hsorted⟩ := sortSOps_spec ((opsOn I m).map (sopOf I (solOf I T)))
      have hd : (sortSOps ((opsOn I m).map (sopOf I (solOf I T)))).Pairwise Disj :=
        (hperm.pairwise_iff (fun {a b} h => disj_symm h)).2 (hdisj m)
      have hmemr : ∀ a ∈ sortSOps ((opsOn I m).map (sopOf I (solOf I T))), ∃ r ∈ opsOn I m, a = sopOf I (solOf I T) r := by
        intro a ha
        obtain ⟨r, hr, rfl⟩ := List.mem_map.1 (hperm.mem_iff.1 ha)
        exact ⟨r, hr, rfl⟩
      have hord := sorted_disjoint_ordered _ (fun a ha => by
        obtain ⟨r, hr, rfl⟩ := hmemr a ha
        simp only [sopOf]; exact hdur r (mem_opsOn.1 hr).1) hsorted hd
      refine ⟨(sortSOps ((opsOn I m).map (sopOf I (solOf I T)))).map (fun x => itvOf I (x.job, x.pos)), ?_, ?_⟩
      · have := hperm.map (fun x : SOp => itvOf I (x.job, x.pos))
        rw [List.map_map] at this
        exact this
      · apply pairwise_consec
        rw [List.pairwise_map]
        refine hord.imp_of_mem ?_
        intro a b ha hb hab
        obtain ⟨ra, hra, rfl⟩ := hmemr a ha
        obtain ⟨rb, hrb, rfl⟩ := hmemr b hb
        simp only [itvOf, sopOf, solOf_end T (mem_opsOn.1 hra).1, solOf_start T (mem_opsOn.1 hrb).1]
        simp only [SOp.end_, sopOf, solOf_start T (mem_opsOn.1 hra).1, solOf_start T (mem_opsOn.1 hrb).1] at hab
        exact hab
    · simp only [CpCon.holds, List.mem_map, forall_exists_index, and_imp, forall_apply_eq_imp_iff₂, solOf_mk]
      refine ⟨fun r hr => by rw [solOf_end T hr]; exact hmaxge r hr, ?_⟩
      unfold maxEnd
      rcases foldlMaxInt_attained ((allOps I).map fun r => T.st r.1 r.2 + durOf I r) 0 with h | h
      · -- the maximum is 0: every operation ends at 0, any of them attains it
        have hpos : 0 < (allOps I).length := by rw [length_allOps]; exact hne
        obtain ⟨r, hr⟩ := List.exists_mem_of_length_pos hpos
        refine ⟨endVar I r, ⟨r, hr, rfl⟩, ?_⟩
        rw [solOf_end T hr, h]
        have h1 := hmaxge r hr
        unfold maxEnd at h1; rw [h] at h1
        have := hst0 r hr; have := hdur r hr
        omega
      · obtain ⟨r, hr, he⟩ := List.mem_map.1 h
        exact ⟨endVar I r, ⟨r, hr, rfl⟩, by rw [solOf_end T hr, ← he]⟩


/-! ## a solution always exists: run the operations one after another -/

def jobDurL (job : List Op) : Int := (job.map (·.dur)).sum
def jobOffset (I : Instance) (j : Nat) : Int := ((I.take j).map jobDurL).sum
def withinJob (I : Instance) (j p : Nat) : Int := (((I.getD j []).take p).map (·.dur)).sum

/-- every operation starts when all operations before it (job-major order) have finished -/
def seqT (I : Instance) : Asg :=
  { mach := fun j p => machOf I (j, p), st := fun j p => jobOffset I j + withinJob I j p }

theorem sum_nonneg_of {l : List Int} (h : ∀ x ∈ l, 0 ≤ x) : 0 ≤ l.sum := by
  induction l with
  | nil => simp
  | cons a t ih =>
    simp only [List.sum_cons]
    have := h a (by simp)
    have := ih (fun x hx => h x (by simp [hx]))
    omega

theorem sum_take_mono (l : List Int) (h : ∀ x ∈ l, 0 ≤ x) : ∀ (k k' : Nat), k ≤ k' → (l.take k).sum ≤ (l.take k').sum := by
  induction l with
  | nil => intro k k' _; simp
  | cons a t ih =>
    intro k k' hk
    cases k with
    | zero =>
      simp only [List.take_zero, List.sum_nil]
      exact sum_nonneg_of (fun x hx => h x (List.mem_of_mem_take hx))
    | succ k =>
      cases k' with
      | zero => omega
      | succ k' =>
        simp only [List.take_succ_cons, List.sum_cons]
        have := ih (fun x hx => h x (by simp [hx])) k k' (by omega)
        omega

theorem sum_take_le (l : List Int) (h : ∀ x ∈ l, 0 ≤ x) (k : Nat) : (l.take k).sum ≤ l.sum := by
  by_cases hk : k ≤ l.length
  · have := sum_take_mono l h k l.length hk
    simpa using this
  · rw [List.take_of_length_le (by omega)]; exact Int.le_refl _

theorem take_succ_sum {α} (l : List α) (f : α → Int) (k : Nat) (x : α) (h : l[k]? = some x) :
    ((l.take (k + 1)).map f).sum = ((l.take k).map f).sum + f x := by
  rw [List.take_add_one, h]
  simp

theorem valid_job_nonneg {I : Instance} (hv : Valid I) (j : Nat) : ∀ x ∈ (I.getD j []).map (·.dur), 0 ≤ x := by
  intro x hx
  obtain ⟨op, hop, rfl⟩ := List.mem_map.1 hx
  obtain ⟨p, hp⟩ := List.getElem?_of_mem hop
  have hj : j < I.length := by
    apply Classical.byContradiction; intro hn
    have : I.getD j [] = [] := by simp [List.getD_eq_getElem?_getD, List.getElem?_eq_none (by omega : I.length ≤ j)]
    rw [this] at hop; cases hop
  have : getOp I j p = some op := by
    simp only [getOp, List.getElem?_eq_getElem hj, Option.bind_some]
    simpa [List.getD_eq_getElem?_getD, List.getElem?_eq_getElem hj] using hp
  exact (hv j p op this).2.2

theorem jobDurL_nonneg {I : Instance} (hv : Valid I) : ∀ x ∈ I.map jobDurL, 0 ≤ x := by
  intro x hx
  obtain ⟨job, hjob, rfl⟩ := List.mem_map.1 hx
  obtain ⟨j, hj⟩ := List.getElem?_of_mem hjob
  have : job = I.getD j [] := by simp [List.getD_eq_getElem?_getD, hj]
  unfold jobDurL
  rw [this]
  exact sum_nonneg_of (valid_job_nonneg hv j)

theorem getOp_parts {I : Instance} {j p : Nat} {op : Op} (h : getOp I j p = some op) :
    I[j]? = some (I.getD j []) ∧ (I.getD j [])[p]? = some op := by
  simp only [getOp] at h
  cases hj : I[j]? with
  | none => simp [hj] at h
  | some job =>
    simp only [hj, Option.bind_some] at h
    simp [List.getD_eq_getElem?_getD, hj, h]

theorem seq_end_le_next {I : Instance} (hv : Valid I) {j p : Nat} {op : Op} (h : getOp I j p = some op) :
    jobOffset I j + withinJob I j p + op.dur ≤ jobOffset I (j + 1) := by
  obtain ⟨hj, hp⟩ := getOp_parts h
  have h1 : withinJob I j (p + 1) = withinJob I j p + op.dur := take_succ_sum _ _ p op hp
  have h2 : withinJob I j (p + 1) ≤ jobDurL (I.getD j []) := by
    unfold withinJob jobDurL
    rw [List.map_take]
    exact sum_take_le _ (valid_job_nonneg hv j) _
  have h3 : jobOffset I (j + 1) = jobOffset I j + jobDurL (I.getD j []) := take_succ_sum I jobDurL j _ hj
  omega

theorem jobOffset_mono {I : Instance} (hv : Valid I) {j j' : Nat} (h : j ≤ j') : jobOffset I j ≤ jobOffset I j' := by
  unfold jobOffset
  rw [List.map_take, List.map_take]
  exact sum_take_mono _ (jobDurL_nonneg hv) j j' h

theorem totalDuration_eq (I : Instance) : totalDuration I = (I.map jobDurL).sum := rfl

theorem seqT_feasible (I : Instance) (hv : Valid I) (hn : NonFlexI I) :
    FeasT I (seqT I) ∧ BoundT I (seqT I) (totalDuration I) := by
  have hoff0 : ∀ j, 0 ≤ jobOffset I j := fun j => by
    unfold jobOffset; rw [List.map_take]
    have := sum_take_mono _ (jobDurL_nonneg hv) 0 j (by omega)
    simpa using this
  have hwith0 : ∀ j p, 0 ≤ withinJob I j p := fun j p => by
    unfold withinJob; rw [List.map_take]
    have := sum_take_mono _ (valid_job_nonneg hv j) 0 p (by omega)
    simpa using this
  refine ⟨⟨?_, ?_, ?_, ?_⟩, ?_⟩
  · intro j p op hop
    obtain ⟨m, hm⟩ := hn j p op hop
    simp only [seqT, machOf_eq hop, hm]; simp
  · intro j p op hop
    simp only [seqT]; have := hoff0 j; have := hwith0 j p; omega
  · intro j p op op' hop hop'
    obtain ⟨_, hp⟩ := getOp_parts hop
    have h1 : withinJob I j (p + 1) = withinJob I j p + op.dur := take_succ_sum _ _ p op hp
    simp only [seqT]; omega
  · intro j p op j' p' op' hop hop' hne _
    simp only [seqT]
    have e1 := seq_end_le_next hv hop
    have e2 := seq_end_le_next hv hop'
    rcases Nat.lt_trichotomy j j' with hlt | heq | hgt
    · left
      have := jobOffset_mono hv (show j + 1 ≤ j' by omega)
      have := hwith0 j' p'
      omega
    · subst heq
      have hpp : p ≠ p' := fun h => hne (by rw [h])
      obtain ⟨_, hp⟩ := getOp_parts hop
      obtain ⟨_, hp'⟩ := getOp_parts hop'
      have h1 : withinJob I j (p + 1) = withinJob I j p + op.dur := take_succ_sum _ _ p op hp
      have h1' : withinJob I j (p' + 1) = withinJob I j p' + op'.dur := take_succ_sum _ _ p' op' hp'
      rcases Nat.lt_or_gt_of_ne hpp with h | h
      · left
        have : withinJob I j (p + 1) ≤ withinJob I j p' := by
          unfold withinJob; rw [List.map_take, List.map_take]
          exact sum_take_mono _ (valid_job_nonneg hv j) _ _ (by omega)
        omega
      · right
        have : withinJob I j (p' + 1) ≤ withinJob I j p := by
          unfold withinJob; rw [List.map_take, List.map_take]
          exact sum_take_mono _ (valid_job_nonneg hv j) _ _ (by omega)
        omega
    · right
      have := jobOffset_mono hv (show j' + 1 ≤ j by omega)
      have := hwith0 j p
      omega
  · intro j p op hop
    have e1 := seq_end_le_next hv hop
    have : jobOffset I (j + 1) ≤ totalDuration I := by
      rw [totalDuration_eq]; unfold jobOffset; rw [List.map_take]
      exact sum_take_le _ (jobDurL_nonneg hv) _
    simp only [seqT]; omega

/-- **C03 (a solution always exists).** The horizon `total_duration` is large enough: the generated model of every
valid non-flexible instance has a solution, so CP-SAT can only fail to return one because of a time limit. -/
theorem C03_solution_exists (I : Instance) (hv : Valid I) (hn : NonFlexI I) (hne : 0 < numOps I) :
    ∃ v, (cpModel I).Sat v ∧ v (makespanVar I) ≤ totalDuration I := by
  obtain ⟨hT, hB⟩ := seqT_feasible I hv hn
  have hH0 : 0 ≤ totalDuration I := by rw [totalDuration_eq]; exact sum_nonneg_of (jobDurL_nonneg hv)
  exact ⟨solOf I (seqT I), C03_feasible_is_solution I hv (seqT I) hT (fun _ _ _ _ => rfl) _ hB (Int.le_refl _) hH0 hne⟩

/-- **C03 (the optimum of the model is the true optimum).** For every bound `B`: the model has a solution with
objective `≤ B` exactly when some feasible complete assignment (each operation on its machine) finishes everything
by `B`.  So when CP-SAT reports `OPTIMAL`, no feasible schedule is shorter. -/
theorem C03_optimum (I : Instance) (hv : Valid I) (hn : NonFlexI I) (hne : 0 < numOps I) (B : Int) :
    (∃ v, (cpModel I).Sat v ∧ v (makespanVar I) ≤ B) ↔
    (∃ T, FeasT I T ∧ (∀ j p op, getOp I j p = some op → T.mach j p = machOf I (j, p)) ∧ BoundT I T B ∧ 0 ≤ B) := by
  constructor
  · rintro ⟨v, hs, hle⟩
    obtain ⟨hT, hB, _⟩ := C03_solution_feasible I hv hn v hs
    have hmk0 : 0 ≤ v (makespanVar I) := (hs.dom (makespanVar I) _ (cp_dom I _ (by simp [makespanVar]))).1
    exact ⟨asgOfSol I v, hT, fun _ _ _ _ => rfl, fun j p op hop => Int.le_trans (hB j p op hop) hle, by omega⟩
  · rintro ⟨T, hT, hm, hB, hB0⟩
    by_cases hH : B ≤ totalDuration I
    · exact ⟨solOf I T, C03_feasible_is_solution I hv T hT hm B hB hH hB0 hne⟩
    · obtain ⟨v, hs, hle⟩ := C03_solution_exists I hv hn hne
      exact ⟨v, hs, by omega⟩

/-- **C03 (never above a dispatcher-built schedule).** For every complete schedule the dispatcher can build — in
particular the result of every dispatching rule — the model has a solution whose objective is at most that
schedule's makespan; an `OPTIMAL` answer is therefore never above any dispatching-rule result. -/
theorem C03_le_dispatcher (I : Instance) (hv : Valid I) (hn : NonFlexI I) (hne : 0 < numOps I)
    (h : List (Nat × Nat × Nat)) (s : State) (ha : AHist I h s) (hc : isComplete I s = true) :
    ∃ v, (cpModel I).Sat v ∧ v (makespanVar I) ≤ makespan s := by
  obtain ⟨hT, hB⟩ := asgOf_feasible hv (ha.cinv hv) hc
  apply (C03_optimum I hv hn hne (makespan s)).2
  refine ⟨asgOf s, hT, ?_, hB, ?_⟩
  · intro j p op hop
    obtain ⟨m, hm⟩ := hn j p op hop
    have := hT.elig j p op hop
    rw [hm] at this
    simp only [List.mem_singleton] at this
    rw [this, machOf_eq hop, hm]; rfl
  · unfold makespan; exact foldl_last_ge _ 0


/-! ## the returned schedule contains every operation exactly once -/

theorem flatMap_perm_congr {α β} (f g : α → List β) : ∀ (l : List α), (∀ a ∈ l, (f a).Perm (g a)) →
    (l.flatMap f).Perm (l.flatMap g)
  | [], _ => List.Perm.refl _
  | a :: t, h => by
    simp only [List.flatMap_cons]
    exact (h a (by simp)).append (flatMap_perm_congr f g t (fun x hx => h x (by simp [hx])))

theorem buckets_perm {α} (f : α → Nat) (l : List α) : ∀ (M : Nat),
    ((List.range M).flatMap fun m => l.filter fun x => f x == m).Perm (l.filter fun x => decide (f x < M))
  | 0 => by simp
  | M + 1 => by
    rw [List.range_succ, List.flatMap_append]
    simp only [List.flatMap_cons, List.flatMap_nil, List.append_nil]
    have ih := buckets_perm f l M
    have h1 := List.filter_append_perm (fun x => decide (f x < M)) (l.filter fun x => decide (f x < M + 1))
    have e1 : (l.filter fun x => decide (f x < M + 1)).filter (fun x => decide (f x < M)) = l.filter fun x => decide (f x < M) := by
      rw [List.filter_filter]
      apply List.filter_congr
      intro x _
      by_cases h : f x < M
      · have : f x < M + 1 := by omega
        simp [h, this]
      · simp [h]
    have e2 : (l.filter fun x => decide (f x < M + 1)).filter (fun x => !decide (f x < M)) = l.filter fun x => f x == M := by
      rw [List.filter_filter]
      apply List.filter_congr
      intro x _
      by_cases h : f x = M
      · simp [h]
      · have : (f x == M) = false := by simpa using h
        rw [this]
        by_cases h2 : f x < M <;> simp [h2] <;> omega
    rw [e1, e2] at h1
    exact (ih.append_right _).trans h1

/-- **C03 (complete).** The returned schedule contains exactly the operations of the instance, each once, each with
its duration, on its machine, at the start time the solver assigned. -/
theorem C03_schedule_complete (I : Instance) (hn : NonFlexI I) (v : Nat → Int) :
    (cpSchedule I v).flatten.Perm ((allOps I).map (sopOf I v)) ∧
    (cpSchedule I v).length = numMachines I ∧
    ∀ m, ∀ x ∈ (cpSchedule I v).getD m [], x.machine = m := by
  refine ⟨?_, by simp [cpSchedule], ?_⟩
  · have h1 : (cpSchedule I v).flatten =
        (List.range (numMachines I)).flatMap fun m => sortSOps ((opsOn I m).map (sopOf I v)) := by
      simp [cpSchedule, List.flatMap]
    rw [h1]
    have h2 := flatMap_perm_congr (fun m => sortSOps ((opsOn I m).map (sopOf I v)))
      (fun m => ((allOps I).filter fun r => machOf I r == m).map (sopOf I v)) (List.range (numMachines I))
      (fun m _ => (sortSOps_spec _).1)
    refine h2.trans ?_
    have h3 : ((List.range (numMachines I)).flatMap fun m => ((allOps I).filter fun r => machOf I r == m).map (sopOf I v))
        = ((List.range (numMachines I)).flatMap fun m => (allOps I).filter fun r => machOf I r == m).map (sopOf I v) := by
      rw [List.map_flatMap]
    rw [h3]
    apply List.Perm.map
    refine (buckets_perm (machOf I) (allOps I) (numMachines I)).trans ?_
    rw [List.filter_eq_self.2]
    intro r hr
    obtain ⟨op, hop⟩ := Option.isSome_iff_exists.1 ((mem_allOps' I r).1 hr)
    obtain ⟨m, hm⟩ := hn r.1 r.2 op hop
    have : machOf I r = m := by rw [show r = (r.1, r.2) from rfl, machOf_eq hop, hm]; rfl
    simp only [decide_eq_true_eq, this]
    exact machine_lt I r.1 r.2 m op hop (by rw [hm]; simp)
  · intro m x hx
    by_cases hm : m < numMachines I
    · have : (cpSchedule I v).getD m [] = sortSOps ((opsOn I m).map (sopOf I v)) := by
        simp [cpSchedule, List.getD_eq_getElem?_getD, hm]
      rw [this] at hx
      obtain ⟨r, hr, rfl⟩ := List.mem_map.1 ((sortSOps_spec _).1.mem_iff.1 hx)
      exact (mem_opsOn.1 hr).2
    · have : (cpSchedule I v).getD m [] = [] := by
        simp [cpSchedule, List.getD_eq_getElem?_getD, hm]
      rw [this] at hx; cases hx

/-! ## lower bounds -/

/-- **C03 (job-length bound).** No solution finishes before the total duration of any job. -/
theorem C03_job_bound (I : Instance) (hv : Valid I) (hn : NonFlexI I) (v : Nat → Int) (hs : (cpModel I).Sat v)
    (j : Nat) (hj : j < I.length) : jobDurL (I.getD j []) ≤ v (makespanVar I) := by
  obtain ⟨hT, hB, _⟩ := C03_solution_feasible I hv hn v hs
  have hmk0 : 0 ≤ v (makespanVar I) := (hs.dom (makespanVar I) _ (cp_dom I _ (by simp [makespanVar]))).1
  -- every prefix of the job fits before the start of the next operation
  have key : ∀ p, p ≤ (I.getD j []).length → withinJob I j p ≤ v (makespanVar I) ∧
      (∀ op, getOp I j p = some op → withinJob I j p ≤ (asgOfSol I v).st j p) := by
    intro p
    induction p with
    | zero =>
      intro _
      refine ⟨by simp [withinJob]; exact hmk0, fun op hop => ?_⟩
      simp only [withinJob, List.take_zero, List.map_nil, List.sum_nil]
      exact hT.nonneg j 0 op hop
    | succ p ih =>
      intro hp
      obtain ⟨_, ih2⟩ := ih (by omega)
      have hjj : I[j]? = some (I.getD j []) := by simp [List.getD_eq_getElem?_getD, List.getElem?_eq_getElem hj]
      have hpp : p < (I.getD j []).length := by omega
      have hop : getOp I j p = some ((I.getD j [])[p]) := by
        simp only [getOp, hjj, Option.bind_some]; exact List.getElem?_eq_getElem hpp
      have h1 : withinJob I j (p + 1) = withinJob I j p + ((I.getD j [])[p]).dur :=
        take_succ_sum _ _ p _ (List.getElem?_eq_getElem hpp)
      have hst := ih2 _ hop
      refine ⟨?_, fun op' hop' => ?_⟩
      · have := hB j p _ hop; omega
      · have := hT.prec j p _ op' hop hop'; omega
  have := (key (I.getD j []).length (Nat.le_refl _)).1
  unfold withinJob at this
  rw [List.take_length] at this
  exact this

theorem ordered_sum_le : ∀ (l : List SOp) (L B : Int), l.Pairwise (fun a b => a.end_ ≤ b.start) →
    (∀ a ∈ l, L ≤ a.start ∧ a.end_ ≤ B) → L ≤ B → (l.map (·.dur)).sum ≤ B - L
  | [], L, B, _, _, h => by simp; omega
  | a :: t, L, B, hp, hb, _ => by
    rw [List.pairwise_cons] at hp
    have ha := hb a (by simp)
    have ih := ordered_sum_le t a.end_ B hp.2 (fun x hx => ⟨hp.1 x hx, (hb x (by simp [hx])).2⟩) ha.2
    simp only [List.map_cons, List.sum_cons, SOp.end_] at ih ha ⊢
    omega

theorem perm_sum_eq {l l' : List Int} (h : l.Perm l') : l.sum = l'.sum := by
  induction h with
  | nil => rfl
  | cons a _ ih => simp [ih]
  | swap a b l => simp only [List.sum_cons]; omega
  | trans _ _ ih1 ih2 => exact ih1.trans ih2

/-- **C03 (machine-load bound).** No solution finishes before the total duration of the operations of any machine. -/
theorem C03_machine_bound (I : Instance) (hv : Valid I) (v : Nat → Int) (hs : (cpModel I).Sat v)
    (m : Nat) (hm : m < numMachines I) : ((opsOn I m).map (durOf I)).sum ≤ v (makespanVar I) := by
  have hord := cpSchedule_machine_ordered hv hs hm
  obtain ⟨hperm, _⟩ := sortSOps_spec ((opsOn I m).map (sopOf I v))
  have hmax := hs.con _ (cp_mem_linMax I)
  simp only [CpCon.holds, List.mem_map, forall_exists_index, and_imp, forall_apply_eq_imp_iff₂] at hmax
  have hmk0 : 0 ≤ v (makespanVar I) := (hs.dom (makespanVar I) _ (cp_dom I _ (by simp [makespanVar]))).1
  have hb : ∀ a ∈ sortSOps ((opsOn I m).map (sopOf I v)), 0 ≤ a.start ∧ a.end_ ≤ v (makespanVar I) := by
    intro a ha
    obtain ⟨r, hr, rfl⟩ := List.mem_map.1 (hperm.mem_iff.1 ha)
    have hr' := (mem_opsOn.1 hr).1
    rw [sopOf_end hs hr']
    exact ⟨(sat_op hs hr').2.1, hmax.1 r hr'⟩
  have h1 := ordered_sum_le _ 0 (v (makespanVar I)) hord hb hmk0
  have h2 : ((sortSOps ((opsOn I m).map (sopOf I v))).map (·.dur)).sum = ((opsOn I m).map (durOf I)).sum := by
    rw [perm_sum_eq (hperm.map (·.dur)), List.map_map]
    rfl
  omega

/-! non-vacuity: an instance with a zero-duration operation that shares its start with another operation of the
same machine (the case the `(start, end)` sort key exists for), and an optimal solution of its model -/
def cpExample : Instance := [[⟨[0], 0⟩, ⟨[1], 2⟩], [⟨[0], 3⟩]]
def cpExampleSol : Nat → Int := fun i => [0, 0, 0, 2, 0, 3, 3].getD i 0

example : Valid cpExample ∧ NonFlexI cpExample := by
  constructor
  · apply valid_of_validB; decide
  · intro j p op hop
    have : j < 2 ∧ p < 2 := by
      simp only [getOp, cpExample] at hop
      rcases j with _ | _ | j <;> rcases p with _ | _ | p <;> simp at hop <;> omega
    rcases j with _ | _ | j <;> rcases p with _ | _ | p <;> simp [getOp, cpExample] at hop <;> first | omega | (subst hop; exact ⟨_, rfl⟩)

example : cpResult cpExample cpExampleSol =
    some ([[⟨0, 0, 0, 0, 0⟩, ⟨1, 0, 0, 0, 3⟩], [⟨0, 1, 1, 0, 2⟩]], 3) := by decide

end JS

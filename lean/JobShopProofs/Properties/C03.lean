import JobShopModel.CpSat
/-!
# C03 — the CP-SAT solver returns feasible, truly optimal schedules
-/
namespace JS
end JS

import JobShopProofs.Abstract.Final
import JobShopProofs.Properties.C06
/-!
# C08 — pruning dominated operations never loses the optimum

`FHist I h s`: `h` is a dispatch history (list of `(job, position, machine)`) all of whose requests are
accepted *and* dispatch an operation that survives `filter_dominated_operations` applied to the raw ready
list of the state it is dispatched in; `s` is the resulting state.  `AHist` is the same without the
filter condition.  The theorems: for every instance with positive durations (flexible or not), for every
bound `B`, a complete filtered history with makespan `≤ B` exists iff a complete unfiltered one does iff a
feasible complete assignment `T` of machines and start times with all completions `≤ B` exists.  Hence
the minimum over the pruned search tree, over the full tree, and the true optimum coincide.
The exchange argument itself (`JS.C08_pruned_reaches`, abstract level) is in `Abstract/`.
-/
namespace JS

inductive FHist (I : Instance) : List (Nat × Nat × Nat) → State → Prop
  | nil : FHist I [] (init I)
  | snoc {h s s' j p m} : FHist I h s → (j, p) ∈ filterDominated I s (rawReady I s) →
      dispatch I s j p m = .ok s' → FHist I (h ++ [(j, p, m)]) s'

inductive AHist (I : Instance) : List (Nat × Nat × Nat) → State → Prop
  | nil : AHist I [] (init I)
  | snoc {h s s' j p m} : AHist I h s → dispatch I s j p m = .ok s' → AHist I (h ++ [(j, p, m)]) s'

theorem FHist.toAHist {I h s} (hf : FHist I h s) : AHist I h s := by
  induction hf with
  | nil => exact .nil
  | snoc _ _ hd ih => exact .snoc ih hd

/-- the state of an accepted history is the replay of that history on a fresh dispatcher -/
theorem AHist.replay_eq {I h s} (ha : AHist I h s) : s = replay I (init I) h := by
  induction ha with
  | nil => rfl
  | snoc _ hd ih =>
    rw [replay_append, ← ih]
    simp [replay, hd]

theorem AHist.cinv {I : Instance} (hv : Valid I) {h s} (ha : AHist I h s) : CInv I s := by
  induction ha with
  | nil => exact cinv_init I
  | snoc _ hd ih =>
    obtain ⟨op, hsp⟩ := dispatch_ok hd
    exact cinv_dispatch (hv _ _ op hsp.hop).2.2 ih hsp

/-- link between the abstract non-dominance predicate and the executable filter on the raw ready list -/
theorem nonDom_iff_filter {I : Instance} (hv : Valid I) (hp : PosDurI I) {s : State} {a : AState} (hr : Rel s a)
    (j p : Nat) (hready : a.idx j = p) :
    NonDom I a j p ↔ (j, p) ∈ filterDominated I s (rawReady I s) := by
  have hcrit := (C07_criterion_dominated I s (rawReady I s) (posDurL_of_posDurI hp _)).2 (j, p)
  rw [hcrit]
  unfold NonDom NotDominated
  constructor
  · rintro ⟨op, hop, m, hm, hall⟩
    have hj : j < I.length := getOp_job_lt' I j p op hop
    refine ⟨(mem_rawReady I s (j, p)).2 ⟨hj, by simp only; rw [← hr.idx, hready],
      getD_length_of_getOp.1 (by simp [hop])⟩, op, hop, m, hm, ?_⟩
    intro r' hr' op' hop' hm'
    obtain ⟨_, h2, _⟩ := (mem_rawReady I s r').1 hr'
    have := hall r'.1 op' (by rw [hr.idx, ← h2]; exact hop') hm'
    rw [rel_startTime hr, rel_startTime hr]; exact this
  · rintro ⟨_, op, hop, m, hm, hall⟩
    refine ⟨op, hop, m, hm, ?_⟩
    intro j' op' hop' hm'
    have hj' : j' < I.length := getOp_job_lt' I j' _ op' hop'
    have hmem : (j', a.idx j') ∈ rawReady I s :=
      (mem_rawReady I s (j', a.idx j')).2 ⟨hj', by simp only; rw [hr.idx],
        getD_length_of_getOp.1 (by simp [hop'])⟩
    have := hall (j', a.idx j') hmem op' hop' hm'
    rw [rel_startTime hr, rel_startTime hr] at this; exact this

/-- every abstractly reachable filtered state is the state of a concrete filtered history -/
theorem freach_concrete {I : Instance} (hv : Valid I) (hp : PosDurI I) {a : AState} (hf : FReach I a) :
    ∃ h s, FHist I h s ∧ Rel s a := by
  induction hf with
  | init => exact ⟨[], init I, .nil, rel_init I⟩
  | @step a' j p m op _ hready hop hnd hm ih =>
    obtain ⟨h, s, hh, hr⟩ := ih
    have hc := hh.toAHist.cinv hv
    obtain ⟨s', hs'⟩ := dispatch_accepts hc hop (by rw [← hr.idx]; exact hready.1) hm
    obtain ⟨op', hsp⟩ := dispatch_ok hs'
    have : op' = op := by have := hsp.hop; rw [hop] at this; cases this; rfl
    subst this
    exact ⟨h ++ [(j, p, m)], s', .snoc hh ((nonDom_iff_filter hv hp hr j p hready.1).1 hnd) hs',
      (rel_dispatch hc.wf hr hsp).2⟩

theorem makespan_le_of_ends {I : Instance} {s : State} (hc : CInv I s) (B : Int)
    (h : ∀ x ∈ s.sched.flatten, x.end_ ≤ B) : makespan s ≤ max 0 B := by
  rcases foldl_last_attained s.sched 0 with h0 | ⟨ms, hms, l, hl, he⟩
  · unfold makespan; omega
  · have := h l (List.mem_flatten.2 ⟨ms, hms, List.mem_of_getLast? hl⟩)
    unfold makespan; omega

/-- **C08 (the pruned tree reaches every feasible assignment's makespan).** For every valid instance with
positive durations and every feasible complete assignment `T` (machines and start times, flexible or not)
whose completions are all `≤ B`, there is a dispatch history that only ever dispatches operations
surviving the dominated-operations filter, ends complete, and has makespan `≤ B`. -/
theorem C08_pruned_reaches_concrete (I : Instance) (hv : Valid I) (hp : PosDurI I) (T : Asg) (hT : FeasT I T)
    (B : Int) (hB : BoundT I T B) :
    ∃ h s, FHist I h s ∧ isComplete I s = true ∧ makespan s ≤ max 0 B := by
  obtain ⟨a, hreach, hainv, hcomp, hends⟩ := C08_pruned_reaches I hp T hT B hB
  obtain ⟨h, s, hh, hr⟩ := freach_concrete hv hp hreach
  have hc := hh.toAHist.cinv hv
  refine ⟨h, s, hh, ?_, ?_⟩
  · have hf := feasible_of_cinv hc
    simp only [isComplete, beq_iff_eq, numScheduled_eq]
    rw [complete_iff_count hf]
    intro j p hjp
    obtain ⟨op, hop⟩ := Option.isSome_iff_exists.1 hjp
    have hlt : p < a.idx j := by
      apply Classical.byContradiction; intro hn
      exact hcomp j p ⟨⟨op, hop⟩, by omega⟩
    obtain ⟨x, hx, h1, h2⟩ := hainv.idx_sched j p hlt
    exact ⟨x, hr.sched.mem_iff.1 hx, h1, h2⟩
  · exact makespan_le_of_ends hc B (fun x hx => hends x (hr.sched.mem_iff.2 hx))

/-! ## converse: every complete history is a feasible complete assignment -/

/-- the assignment read off a schedule -/
def asgOf (s : State) : Asg :=
  { mach := fun j p => ((s.sched.flatten.find? fun x => x.job == j && x.pos == p).map (·.machine)).getD 0,
    st := fun j p => ((s.sched.flatten.find? fun x => x.job == j && x.pos == p).map (·.start)).getD 0 }

theorem pairwise_either {α} {R : α → α → Prop} : ∀ {l : List α}, l.Pairwise R → ∀ x ∈ l, ∀ y ∈ l, x ≠ y → R x y ∨ R y x
  | [], _, _, hx, _, _, _ => by simp at hx
  | a :: t, hp, x, hx, y, hy, hne => by
    rw [List.pairwise_cons] at hp
    rcases List.mem_cons.1 hx with hxa | hxt <;> rcases List.mem_cons.1 hy with hya | hyt
    · exact absurd (hxa.trans hya.symm) hne
    · left; rw [hxa]; exact hp.1 y hyt
    · right; rw [hya]; exact hp.1 x hxt
    · exact pairwise_either hp.2 x hxt y hyt hne

theorem asgOf_feasible {I : Instance} (hv : Valid I) {s : State} (hc : CInv I s) (hcomp : isComplete I s = true) :
    FeasT I (asgOf s) ∧ BoundT I (asgOf s) (makespan s) := by
  have hf := feasible_of_cinv hc
  have hC : Complete I s.sched := by
    rw [← complete_iff_count hf, ← numScheduled_eq]; simpa [isComplete] using hcomp
  obtain ⟨a, hr, ha, ha2⟩ := hc.abs
  -- the entry of each operation
  have entry : ∀ j p op, getOp I j p = some op → ∃ x ∈ s.sched.flatten, x.job = j ∧ x.pos = p ∧
      (asgOf s).mach j p = x.machine ∧ (asgOf s).st j p = x.start ∧ x.dur = op.dur := by
    intro j p op hop
    obtain ⟨x, hx, hxj, hxp⟩ := hC j p (by simp [hop])
    cases hfind : s.sched.flatten.find? (fun x => x.job == j && x.pos == p) with
    | none => exact absurd (by simp [hxj, hxp]) (List.find?_eq_none.1 hfind x hx)
    | some y =>
      have hyp := List.find?_some hfind
      simp only [Bool.and_eq_true, beq_iff_eq] at hyp
      have hym := List.mem_of_find?_eq_some hfind
      obtain ⟨op', hop', hd, _⟩ := hf.isOp y hym
      rw [hyp.1, hyp.2, hop] at hop'; cases hop'
      exact ⟨y, hym, hyp.1, hyp.2, by simp only [asgOf, hfind, Option.map_some, Option.getD_some],
        by simp only [asgOf, hfind, Option.map_some, Option.getD_some], hd⟩
  constructor
  · constructor
    · intro j p op hop
      obtain ⟨x, hx, hxj, hxp, hm, _, _⟩ := entry j p op hop
      obtain ⟨op', hop', _, hel⟩ := hf.isOp x hx
      rw [hxj, hxp, hop] at hop'; cases hop'
      rw [hm]; exact hel
    · intro j p op hop
      obtain ⟨x, hx, _, _, _, hs, _⟩ := entry j p op hop
      rw [hs]; exact hf.nonneg x hx
    · intro j p op op' hop hop'
      obtain ⟨x, hx, hxj, hxp, _, hs, hd⟩ := entry j p op hop
      obtain ⟨y, hy, hyj, hyp, _, hs', _⟩ := entry j (p+1) op' hop'
      have := hf.jobOrder x hx y hy (by rw [hxj, hyj]) (by rw [hxp, hyp]; omega)
      rw [hs, hs', ← hd]; simpa [SOp.end_] using this
    · intro j p op j' p' op' hop hop' hne hmach
      obtain ⟨x, hx, hxj, hxp, hm, hs, hd⟩ := entry j p op hop
      obtain ⟨y, hy, hyj, hyp, hm', hs', hd'⟩ := entry j' p' op' hop'
      rw [hm, hm'] at hmach
      have hxy : x ≠ y := by
        intro h; apply hne; rw [← hxj, ← hxp, ← hyj, ← hyp, h]
      obtain ⟨m, hxm⟩ := mem_flatten_getD _ x hx
      obtain ⟨m', hym⟩ := mem_flatten_getD _ y hy
      have e1 := hf.inList m x hxm
      have e2 := hf.inList m' y hym
      have : m = m' := by rw [← e1, ← e2, hmach]
      subst this
      rcases pairwise_either (hf.machOrder m) x hxm y hym hxy with h | h
      · left; rw [hs, hs', ← hd]; simpa [SOp.end_] using h
      · right; rw [hs, hs', ← hd']; simpa [SOp.end_] using h
  · intro j p op hop
    obtain ⟨x, hx, _, _, _, hs, hd⟩ := entry j p op hop
    have := cinv_end_le_makespan hc x hx
    rw [hs, ← hd]; simpa [SOp.end_] using this

/-- **C08 (min over the pruned tree = min over the full tree = OPT).** For every valid instance with positive
durations and every bound `B ≥ 0`, the following are equivalent:
(1) some complete *filtered* dispatch history has makespan `≤ B`;
(2) some complete dispatch history has makespan `≤ B`;
(3) some feasible complete assignment of machines and start times finishes everything by `B`. -/
theorem C08_min_eq (I : Instance) (hv : Valid I) (hp : PosDurI I) (B : Int) (hB : 0 ≤ B) :
    ((∃ h s, FHist I h s ∧ isComplete I s = true ∧ makespan s ≤ B) ↔
     (∃ h s, AHist I h s ∧ isComplete I s = true ∧ makespan s ≤ B)) ∧
    ((∃ h s, AHist I h s ∧ isComplete I s = true ∧ makespan s ≤ B) ↔
     (∃ T, FeasT I T ∧ BoundT I T B)) := by
  have h12 : (∃ h s, FHist I h s ∧ isComplete I s = true ∧ makespan s ≤ B) →
      (∃ h s, AHist I h s ∧ isComplete I s = true ∧ makespan s ≤ B) :=
    fun ⟨h, s, hf, hc, hm⟩ => ⟨h, s, hf.toAHist, hc, hm⟩
  have h23 : (∃ h s, AHist I h s ∧ isComplete I s = true ∧ makespan s ≤ B) → (∃ T, FeasT I T ∧ BoundT I T B) := by
    rintro ⟨h, s, ha, hc, hm⟩
    obtain ⟨hT, hBd⟩ := asgOf_feasible hv (ha.cinv hv) hc
    exact ⟨asgOf s, hT, fun j p op hop => Int.le_trans (hBd j p op hop) hm⟩
  have h31 : (∃ T, FeasT I T ∧ BoundT I T B) → (∃ h s, FHist I h s ∧ isComplete I s = true ∧ makespan s ≤ B) := by
    rintro ⟨T, hT, hBd⟩
    obtain ⟨h, s, hf, hc, hm⟩ := C08_pruned_reaches_concrete I hv hp T hT B hBd
    exact ⟨h, s, hf, hc, by omega⟩
  exact ⟨⟨h12, fun h => h31 (h23 h)⟩, ⟨h23, fun h => h12 (h31 h)⟩⟩

/-! non-vacuity: the positive-duration flexible instance of C06 has a complete filtered history -/
example : ∃ h s, FHist posInstance h s ∧ isComplete posInstance s = true ∧ makespan s ≤ 5 := by
  let r (h : List (Nat × Nat × Nat)) := replay posInstance (init posInstance) h
  have h1 : FHist posInstance ([] ++ [(0, 0, 0)]) (r [(0, 0, 0)]) := .snoc .nil (by decide) (by rfl)
  have h2 : FHist posInstance ([] ++ [(0, 0, 0)] ++ [(1, 0, 1)]) (r [(0, 0, 0), (1, 0, 1)]) :=
    .snoc h1 (by decide) (by rfl)
  have h3 : FHist posInstance ([] ++ [(0, 0, 0)] ++ [(1, 0, 1)] ++ [(0, 1, 2)]) (r [(0, 0, 0), (1, 0, 1), (0, 1, 2)]) :=
    .snoc h2 (by decide) (by rfl)
  have h4 : FHist posInstance ([] ++ [(0, 0, 0)] ++ [(1, 0, 1)] ++ [(0, 1, 2)] ++ [(1, 1, 0)])
      (r [(0, 0, 0), (1, 0, 1), (0, 1, 2), (1, 1, 0)]) := .snoc h3 (by decide) (by rfl)
  exact ⟨_, _, h4, by decide, by decide⟩

end JS

import Batteries.Data.List.Perm
import JobShopProofs.Reach
/-!
# C01 — every dispatch history yields a feasible schedule

`Feasible`/`Complete` are *declarative* predicates over the per-machine lists; they mention neither the
tracking vectors nor `dispatch`.  The theorems quantify over every valid instance (flexible, zero
durations, recirculation), every filter configuration `c.F` and every event list: accepted and rejected
requests (arbitrary job, position, machine argument), resets and queries in any order.
-/
namespace JS

/-- Declarative feasibility of a partial schedule given as per-machine lists. -/
structure Feasible (I : Instance) (S : List (List SOp)) : Prop where
  /-- each operation appears at most once -/
  once : (S.flatten.map fun x => (x.job, x.pos)).Nodup
  /-- every entry is an operation of the instance, with its duration, on one of its eligible machines -/
  isOp : ∀ x ∈ S.flatten, ∃ op, getOp I x.job x.pos = some op ∧ x.dur = op.dur ∧ x.machine ∈ op.machines
  /-- and it is listed under that machine -/
  inList : ∀ m, ∀ x ∈ S.getD m [], x.machine = m
  /-- the scheduled operations of a job form a prefix of the job -/
  jobPrefix : ∀ x ∈ S.flatten, ∀ q, q < x.pos → ∃ y ∈ S.flatten, y.job = x.job ∧ y.pos = q
  /-- operations of a job run in job order without overlapping -/
  jobOrder : ∀ x ∈ S.flatten, ∀ y ∈ S.flatten, x.job = y.job → x.pos < y.pos → x.end_ ≤ y.start
  /-- operations on a machine are listed in time order and do not overlap -/
  machOrder : ∀ m, (S.getD m []).Pairwise (fun a b => a.end_ ≤ b.start)
  /-- no start time is negative -/
  nonneg : ∀ x ∈ S.flatten, 0 ≤ x.start

/-- every operation of the instance is scheduled -/
def Complete (I : Instance) (S : List (List SOp)) : Prop :=
  ∀ j p, (getOp I j p).isSome → ∃ x ∈ S.flatten, x.job = j ∧ x.pos = p

theorem feasible_of_cinv {I : Instance} {s : State} (h : CInv I s) : Feasible I s.sched := by
  obtain ⟨a, hr, ha, ha2⟩ := h.abs
  have hmem : ∀ x, x ∈ s.sched.flatten ↔ x ∈ a.sched := fun x => hr.sched.mem_iff.symm
  constructor
  · exact (hr.sched.map _).nodup_iff.1 ha2.keys_nodup
  · intro x hx
    obtain ⟨op, hop, hd⟩ := ha.sched_op x ((hmem x).1 hx)
    exact ⟨op, hop, hd, ha2.elig x ((hmem x).1 hx) op hop⟩
  · exact h.inList
  · intro x hx q hq
    have := ha.sched_lt x ((hmem x).1 hx)
    obtain ⟨y, hy, h1, h2⟩ := ha.idx_sched x.job q (by omega)
    exact ⟨y, (hmem y).2 hy, h1, h2⟩
  · intro x hx y hy
    exact ha2.jobOrder x ((hmem x).1 hx) y ((hmem y).1 hy)
  · exact h.ordered
  · intro x hx; exact ha2.start_nonneg x ((hmem x).1 hx)

/-- **C01 (feasibility).** For every valid instance, every filter configuration and every history of
events, the schedule held by the dispatcher is feasible — after every step, because the history is
arbitrary. -/
theorem C01_feasible (c : Cfg) (hv : Valid c.I) (evs : List Ev) : Feasible c.I (run c evs).sched :=
  feasible_of_cinv (inv_run hv evs).cinv

/-- The filter configuration is irrelevant for what `dispatch` does: same events, same schedule. -/
theorem C01_feasible_filtered (I : Instance) (hv : Valid I) (F : FilterCfg) (evs : List Ev) :
    Feasible I (run { I := I, F := F } evs).sched := C01_feasible { I := I, F := F } hv evs

/-- A ready operation on any of its eligible machines is accepted in every reachable state. -/
theorem C01_accepts_ready_eligible (c : Cfg) (hv : Valid c.I) (evs : List Ev) (j p m : Nat) (op : Op)
    (hop : getOp c.I j p = some op) (hready : (run c evs).jobIdx.getD j 0 = p) (hm : m ∈ op.machines) :
    ∃ s', dispatchReq c.I (run c evs) j p (some (m : Int)) = .ok s' := by
  obtain ⟨s', hs'⟩ := dispatch_accepts (inv_run hv evs).cinv hop hready hm
  refine ⟨s', ?_⟩
  unfold dispatchReq
  simp only [hop, hready, ne_eq, not_true_eq_false, ↓reduceIte, resolveMachine]
  have : ¬ ((m : Int) < 0) := by omega
  simp [this, hm, hs']

/-! ## completeness -/

theorem map_getD_range {α β} (l : List α) (d : α) (f : α → β) :
    (List.range l.length).map (fun j => f (l.getD j d)) = l.map f := by
  apply List.ext_getElem
  · simp
  · intro i h1 h2
    simp only [List.length_map, List.length_range] at h1
    simp [List.getD_eq_getElem?_getD, List.getElem?_eq_getElem h1]

theorem length_allOps (I : Instance) : (allOps I).length = numOps I := by
  unfold allOps numOps
  rw [List.length_flatMap]
  simp only [List.length_map, List.length_range]
  rw [map_getD_range I [] List.length]

theorem nodup_flatMap_pair (g : Nat → List Nat) (hg : ∀ j, (g j).Nodup) : ∀ (l : List Nat), l.Nodup →
    (l.flatMap fun j => (g j).map fun p => (j, p)).Nodup
  | [], _ => by simp
  | j :: t, hl => by
    rw [List.nodup_cons] at hl
    simp only [List.flatMap_cons]
    rw [List.nodup_append]
    refine ⟨List.Pairwise.map _ (by intro a b hab h; simp at h; exact hab h) (hg j), nodup_flatMap_pair g hg t hl.2, ?_⟩
    intro a ha b hb hab
    simp only [List.mem_map] at ha
    obtain ⟨p, _, rfl⟩ := ha
    simp only [List.mem_flatMap, List.mem_map] at hb
    obtain ⟨j', hj', p', _, hp'⟩ := hb
    rw [← hab] at hp'
    simp only [Prod.mk.injEq] at hp'
    exact hl.1 (hp'.1 ▸ hj')

theorem nodup_allOps (I : Instance) : (allOps I).Nodup :=
  nodup_flatMap_pair (fun j => List.range (I.getD j []).length) (fun _ => List.nodup_range) _ List.nodup_range

theorem mem_allOps' (I : Instance) (r : OpRef) : r ∈ allOps I ↔ (getOp I r.1 r.2).isSome := by
  unfold allOps getOp
  simp only [List.mem_flatMap, List.mem_range, List.mem_map, List.getD_eq_getElem?_getD]
  constructor
  · rintro ⟨j, hj, p, hp, rfl⟩
    have : I[j]? = some I[j] := List.getElem?_eq_getElem hj
    simp only [this, Option.getD_some] at hp
    simp [this, List.getElem?_eq_getElem hp]
  · intro h
    obtain ⟨j, p⟩ := r
    cases hj : I[j]? with
    | none => simp [hj] at h
    | some job =>
      simp only [hj, Option.bind_some] at h
      have hjl : j < I.length := (List.getElem?_eq_some_iff.1 hj).1
      cases hp : job[p]? with
      | none => simp [hp] at h
      | some op =>
        have hpl : p < job.length := (List.getElem?_eq_some_iff.1 hp).1
        exact ⟨j, hjl, p, by simp [hj, hpl], rfl⟩

/-- In a feasible schedule, "as many entries as the instance has operations" is the same as "every
operation is scheduled". -/
theorem complete_iff_count {I : Instance} {S : List (List SOp)} (hf : Feasible I S) :
    S.flatten.length = numOps I ↔ Complete I S := by
  have hsub : (S.flatten.map fun x => (x.job, x.pos)) ⊆ allOps I := by
    intro r hr
    simp only [List.mem_map] at hr
    obtain ⟨x, hx, rfl⟩ := hr
    obtain ⟨op, hop, _⟩ := hf.isOp x hx
    exact (mem_allOps' I _).2 (by simp [hop])
  have hsp := List.subperm_of_subset hf.once hsub
  constructor
  · intro hlen j p hjp
    have hperm := hsp.perm_of_length_le (by rw [List.length_map, length_allOps, hlen]; exact Nat.le_refl _)
    have : (j, p) ∈ (S.flatten.map fun x => (x.job, x.pos)) :=
      hperm.mem_iff.2 ((mem_allOps' I (j, p)).2 hjp)
    simp only [List.mem_map, Prod.mk.injEq] at this
    obtain ⟨x, hx, h1, h2⟩ := this
    exact ⟨x, hx, h1, h2⟩
  · intro hc
    have hsub2 : allOps I ⊆ (S.flatten.map fun x => (x.job, x.pos)) := by
      intro r hr
      obtain ⟨x, hx, h1, h2⟩ := hc r.1 r.2 ((mem_allOps' I r).1 hr)
      exact List.mem_map.2 ⟨x, hx, by simp [h1, h2]⟩
    have hsp2 := List.subperm_of_subset (nodup_allOps I) hsub2
    have h1 := hsp.length_le
    have h2 := hsp2.length_le
    simp only [List.length_map, length_allOps] at h1 h2
    omega

theorem numScheduled_eq (s : State) : numScheduled s = s.sched.flatten.length := by
  simp [numScheduled, List.length_flatten]

/-- number of accepted dispatches since the last reset, counted along the history -/
def acceptedSinceReset (c : Cfg) : State → List Ev → Nat → Nat
  | _, [], n => n
  | s, e :: evs, n =>
    match e with
    | .disp j p m =>
      match dispatchReq c.I s j p m with
      | .ok s' => acceptedSinceReset c s' evs (n + 1)
      | .error _ => acceptedSinceReset c s evs n
    | .reset => acceptedSinceReset c (reset c.I s) evs 0
    | .query q => acceptedSinceReset c (ask c s q).2 evs n

theorem numScheduled_dispatch {I : Instance} {s s' : State} {j p m : Nat} (hwf : WF I s)
    (h : dispatch I s j p m = .ok s') : numScheduled s' = numScheduled s + 1 := by
  obtain ⟨op, hd⟩ := dispatch_ok h
  have hmlt := machine_lt I j p m op hd.hop hd.hm
  rw [numScheduled_eq, numScheduled_eq, hd.eq]
  have := (flatten_modify_perm s.sched m ⟨j, p, m, startTime s j m, op.dur⟩ (by rw [hwf.lenS]; exact hmlt)).length_eq
  simpa using this

theorem count_runEvs (c : Cfg) (hv : Valid c.I) : ∀ (evs : List Ev) (s : State) (n : Nat), Inv c s →
    numScheduled s = n → numScheduled (runEvs c s evs) = acceptedSinceReset c s evs n
  | [], s, n, _, h => by simp [runEvs, acceptedSinceReset, h]
  | e :: evs, s, n, hi, h => by
    have hnext := inv_stepEv hv hi e
    cases e with
    | disp j p m =>
      simp only [runEvs, List.foldl_cons, stepEv, acceptedSinceReset] at hnext ⊢
      cases hd : dispatchReq c.I s j p m with
      | ok s' =>
        simp only [hd] at hnext ⊢
        obtain ⟨mm, op, _, _, hdd⟩ := dispatchReq_ok hd
        exact count_runEvs c hv evs s' (n+1) hnext (by rw [numScheduled_dispatch hi.cinv.wf hdd, h])
      | error e =>
        simp only [hd] at hnext ⊢
        exact count_runEvs c hv evs s n hnext h
    | reset =>
      simp only [runEvs, List.foldl_cons, stepEv, acceptedSinceReset] at hnext ⊢
      exact count_runEvs c hv evs _ 0 hnext (by simp [reset, init, numScheduled])
    | query q =>
      simp only [runEvs, List.foldl_cons, stepEv, acceptedSinceReset] at hnext ⊢
      obtain ⟨_, _, k, hk⟩ := ask_ok c s hi.cache q
      exact count_runEvs c hv evs _ n hnext (by rw [hk]; exact h)

/-- **C01 (completeness).** The schedule is complete (every operation of the instance is scheduled, and
`is_complete()` says so) exactly when the number of accepted dispatches since the last reset equals the
number of operations: one accepted dispatch per operation, no more, no fewer. -/
theorem C01_complete_iff (c : Cfg) (hv : Valid c.I) (evs : List Ev) :
    (acceptedSinceReset c (init c.I) evs 0 = numOps c.I ↔ Complete c.I (run c evs).sched) ∧
    (isComplete c.I (run c evs) = true ↔ Complete c.I (run c evs).sched) := by
  have hcount := count_runEvs c hv evs (init c.I) 0 (inv_init c) (by simp [init, numScheduled])
  have hf := C01_feasible c hv evs
  have hiff := complete_iff_count hf
  rw [← numScheduled_eq] at hiff
  constructor
  · rw [← hcount]; exact hiff
  · simp only [isComplete, beq_iff_eq]; exact hiff

/-! ## the hypotheses are satisfiable (non-vacuity) -/

/-- a flexible instance with a zero duration, recirculation and an unused machine id (machine 2) -/
def exampleInstance : Instance :=
  [[⟨[0, 1], 3⟩, ⟨[3], 0⟩, ⟨[0], 2⟩], [⟨[1], 4⟩, ⟨[0, 3], 1⟩]]

example : validB exampleInstance = true := by decide
example : Valid exampleInstance := valid_of_validB (by decide)
/-- a history with accepted, rejected (not next; ineligible machine; `None` on a flexible op) requests, a
query and a reset; it ends complete -/
def exampleHistory : List Ev :=
  [.disp 0 0 (some 1), .disp 0 2 (some 0), .disp 1 0 none, .query .currentTime, .disp 1 1 (some 2), .disp 1 1 none,
   .reset, .disp 1 0 (some 1), .disp 0 0 (some 1), .disp 0 1 none, .disp 1 1 (some 3), .disp 0 2 (some 0)]
example : isComplete exampleInstance (run { I := exampleInstance, F := some [.dominated] } exampleHistory) = true := by
  decide

end JS

import JobShopProofs.Properties.C19
import JobShopProofs.GenRefusal
import JobShopProofs.GenPasses
/-! everything proved for C19 (one module for the per-run audit) -/

import JobShopProofs.Properties.C19
import JobShopProofs.GenRefusal
/-! everything proved for C19 (one module for the per-run audit) -/

import JobShopProofs.Properties.C07
/-!
# C06 — time only moves forward
-/
namespace JS

/-- every duration of the instance is positive -/
def PosDurI (I : Instance) : Prop := ∀ j p op, getOp I j p = some op → 0 < op.dur

/-- the current time when no filter is installed: minimum start time over the raw ready operations -/
def nowNoFilter (I : Instance) (s : State) : Int := minStart I s (rawReady I s)

theorem posDurL_of_posDurI {I : Instance} (h : PosDurI I) (L : List OpRef) : PosDurL I L :=
  fun r _ op hop => h r.1 r.2 op hop

/-- **C06 (filters do not change the time).** With positive durations, in every reachable state the
current time under any composition of built-in filters equals the current time without filter. -/
theorem C06_filter_now (c : Cfg) (hv : Valid c.I) (hp : PosDurI c.I) (evs : List Ev) :
    currentTimePure c (run c evs) = nowNoFilter c.I (run c evs) := by
  unfold currentTimePure availablePure applyCfg nowNoFilter
  cases c.F with
  | none => rfl
  | some fs =>
    exact applyFilters_minStart hv (inv_run hv evs).cinv fs (rawReady_refsOK hv _) (posDurL_of_posDurI hp _)

theorem currentTime_noFilter (c : Cfg) (h : c.F = none) (s : State) : currentTimePure c s = nowNoFilter c.I s := by
  unfold currentTimePure availablePure applyCfg nowNoFilter; rw [h]

/-- all four tracking vectors after an accepted dispatch, pointwise -/
theorem dispSpec_vectors {I : Instance} {s s' : State} {j p m : Nat} {op : Op} (hwf : WF I s)
    (hd : DispSpec I s s' j p m op) :
    (∀ k, s'.machNext.getD k 0 = if k = m then startTime s j m + op.dur else s.machNext.getD k 0) ∧
    (∀ k, s'.jobIdx.getD k 0 = if k = j then p + 1 else s.jobIdx.getD k 0) ∧
    (∀ k, s'.jobNext.getD k 0 = if k = j then startTime s j m + op.dur else s.jobNext.getD k 0) := by
  have hj : j < I.length := getOp_job_lt' I j p op hd.hop
  have hmlt := machine_lt I j p m op hd.hop hd.hm
  refine ⟨?_, ?_, ?_⟩ <;> intro k <;> rw [hd.eq]
  · exact getD_set_eq _ _ _ _ (by rw [hwf.lenM]; exact hmlt) k
  · exact getD_set_eq _ _ _ _ (by rw [hwf.lenI]; exact hj) k
  · exact getD_set_eq _ _ _ _ (by rw [hwf.lenN]; exact hj) k

theorem cinv_end_le_makespan {I : Instance} {s : State} (h : CInv I s) :
    ∀ x ∈ s.sched.flatten, x.end_ ≤ makespan s := by
  intro x hx
  obtain ⟨m, hm⟩ := mem_flatten_getD _ x hx
  have hne : s.sched.getD m [] ≠ [] := List.ne_nil_of_mem hm
  rcases getD_mem_or_nil s.sched m with hmem | hnil
  · obtain ⟨l, hl⟩ : ∃ l, (s.sched.getD m []).getLast? = some l := by
      cases h' : (s.sched.getD m []).getLast? with
      | none => exact absurd (List.getLast?_eq_none_iff.1 h') hne
      | some l => exact ⟨l, rfl⟩
    have hlm : l ∈ s.sched.getD m [] := List.mem_of_getLast? hl
    have h1 := end_le_last _ l x (h.ordered m) (cinv_dur_nonneg h l (mem_getD_flatten _ _ _ hlm)) hl hm
    have h2 := foldl_last_mem s.sched 0 _ l hmem hl
    unfold makespan; omega
  · exact absurd hnil hne

/-- one accepted dispatch never lowers the no-filter current time -/
theorem now_mono_dispatch {I : Instance} (hv : Valid I) {s s' : State} {j p m : Nat} (hc : CInv I s)
    (h : dispatch I s j p m = .ok s') : nowNoFilter I s ≤ nowNoFilter I s' := by
  obtain ⟨op, hd⟩ := dispatch_ok h
  have hc' : CInv I s' := cinv_dispatch (hv j p op hd.hop).2.2 hc hd
  obtain ⟨hmn, hji, hjn⟩ := dispSpec_vectors hc.wf hd
  have hdur : 0 ≤ op.dur := (hv j p op hd.hop).2.2
  have hj : j < I.length := getOp_job_lt' I j p op hd.hop
  -- the dispatched operation was ready, so its start bounds the old current time from above
  have hready : (j, p) ∈ rawReady I s :=
    (mem_rawReady I s (j, p)).2 ⟨hj, hd.hidx.symm, getD_length_of_getOp.1 (by simp [hd.hop])⟩
  have hokS := rawReady_refsOK hv s
  have hstart : nowNoFilter I s ≤ startTime s j m :=
    (minStart_spec I s _ (List.ne_nil_of_mem hready) hokS).2 (j, p) hready op hd.hop m hd.hm
  by_cases hraw' : rawReady I s' = []
  · -- nothing left: the new time is the makespan, which is at least the end of the new operation
    unfold nowNoFilter at *
    rw [hraw', minStart_nil]
    have hx : (⟨j, p, m, startTime s j m, op.dur⟩ : SOp) ∈ s'.sched.flatten := by
      have hmlt := machine_lt I j p m op hd.hop hd.hm
      rw [hd.eq]
      exact (flatten_modify_perm s.sched m _ (by rw [hc.wf.lenS]; exact hmlt)).mem_iff.2 (by simp)
    have := cinv_end_le_makespan hc' _ hx
    simp only [SOp.end_] at this
    omega
  · obtain ⟨⟨r', hr', op', hop', m', hm', he⟩, _⟩ := minStart_spec I s' _ hraw' (rawReady_refsOK hv s')
    unfold nowNoFilter at *
    rw [← he]
    obtain ⟨h1, h2, h3⟩ := (mem_rawReady I s' r').1 hr'
    have hA : s.machNext.getD m' 0 ≤ s'.machNext.getD m' 0 := by
      rw [hmn]
      by_cases hmm : m' = m
      · simp only [hmm, ↓reduceIte, startTime]; omega
      · simp only [hmm, ↓reduceIte]; exact Int.le_refl _
    by_cases hrj : r'.1 = j
    · have hB : s'.jobNext.getD r'.1 0 = startTime s j m + op.dur := by rw [hjn]; simp [hrj]
      simp only [startTime] at hstart hB ⊢
      omega
    · -- another job: it was ready before, with a start time no later than now
      have hB : s'.jobNext.getD r'.1 0 = s.jobNext.getD r'.1 0 := by rw [hjn]; simp [hrj]
      rw [hji] at h2
      simp only [hrj, ↓reduceIte] at h2
      have hr0 : r' ∈ rawReady I s := (mem_rawReady I s r').2 ⟨h1, h2, h3⟩
      have := (minStart_spec I s _ (List.ne_nil_of_mem hr0) hokS).2 r' hr0 op' hop' m' hm'
      simp only [startTime] at this ⊢
      omega

/-- **C06 (monotone time).** Along every history the current time never decreases across a dispatch
request (accepted or rejected): for every instance when no filter is used, and for every instance with
positive durations under any composition of built-in filters. -/
theorem C06_now_mono (c : Cfg) (hv : Valid c.I) (hF : c.F = none ∨ PosDurI c.I) (evs : List Ev)
    (j p : Nat) (m : Option Int) :
    currentTimePure c (run c evs) ≤ currentTimePure c (run c (evs ++ [.disp j p m])) := by
  have hnow : ∀ evs', currentTimePure c (run c evs') = nowNoFilter c.I (run c evs') := by
    intro evs'
    rcases hF with h | h
    · exact currentTime_noFilter c h _
    · exact C06_filter_now c hv h evs'
  rw [hnow, hnow, run_snoc]
  simp only [stepEv]
  cases hd : dispatchReq c.I (run c evs) j p m with
  | error e => exact Int.le_refl _
  | ok s' =>
    obtain ⟨mm, op, _, _, hdd⟩ := dispatchReq_ok hd
    exact now_mono_dispatch hv (inv_run hv evs).cinv hdd

/-- **C06 (completed only grows).** Under the same conditions, an operation reported completed before a
dispatch request is still reported completed after it. -/
theorem C06_completed_mono (c : Cfg) (hv : Valid c.I) (hF : c.F = none ∨ PosDurI c.I) (evs : List Ev)
    (j p : Nat) (m : Option Int) (r : OpRef) :
    r ∈ completedPure c (run c evs) → r ∈ completedPure c (run c (evs ++ [.disp j p m])) := by
  intro hr
  have hmono := C06_now_mono c hv hF evs j p m
  have hi := inv_run hv evs
  -- facts about the state after the request
  have hsub : ∀ x, x ∈ (run c evs).sched.flatten → x ∈ (run c (evs ++ [.disp j p m])).sched.flatten := by
    intro x hx
    rw [run_snoc]
    simp only [stepEv]
    cases hd : dispatchReq c.I (run c evs) j p m with
    | error e => exact hx
    | ok s' =>
      obtain ⟨mm, op, _, _, hdd⟩ := dispatchReq_ok hd
      obtain ⟨op', hsp⟩ := dispatch_ok hdd
      have hmlt := machine_lt c.I j p mm op' hsp.hop hsp.hm
      simp only
      rw [hsp.eq]
      exact (flatten_modify_perm _ mm _ (by rw [hi.cinv.wf.lenS]; exact hmlt)).mem_iff.2
        (List.mem_append_left _ hx)
  have hong' := fun y => C05_ongoing_iff c hv (evs ++ [.disp j p m]) y
  have hsch' := (C05_scheduled_iff c hv (evs ++ [.disp j p m]) r).1
  have huniq' : ∀ x ∈ (run c (evs ++ [.disp j p m])).sched.flatten,
      ∀ y ∈ (run c (evs ++ [.disp j p m])).sched.flatten, (x.job, x.pos) = (y.job, y.pos) → x = y := by
    obtain ⟨a, hr', ha, _⟩ := (inv_run hv (evs ++ [.disp j p m])).cinv.abs
    intro x hx y hy hk
    simp only [Prod.mk.injEq] at hk
    exact ha.uniq x (hr'.sched.mem_iff.2 hx) y (hr'.sched.mem_iff.2 hy) hk.1 hk.2
  have hong := fun y => C05_ongoing_iff c hv evs y
  have hsch := (C05_scheduled_iff c hv evs r).1
  generalize run c (evs ++ [.disp j p m]) = s' at *
  generalize run c evs = s at *
  simp only [completedPure, mem_sortRefs, List.mem_filter, Bool.not_eq_true', List.contains_eq_mem,
    decide_eq_false_iff_not, List.mem_map, not_exists, not_and] at hr ⊢
  obtain ⟨hall, hsched, hnog⟩ := hr
  obtain ⟨x, hx, hkey⟩ := hsch.1 hsched
  have hxend : x.end_ ≤ currentTimePure c s := by
    apply Classical.byContradiction; intro hlt
    exact hnog x ((hong x).2 ⟨hx, by omega⟩) hkey
  have hx' := hsub x hx
  refine ⟨hall, hsch'.2 ⟨x, hx', hkey⟩, ?_⟩
  intro y hy hykey
  obtain ⟨hyf, hyt⟩ := (hong' y).1 hy
  have hxy : x = y := huniq' x hx' y hyf (hkey.trans hykey.symm)
  rw [← hxy] at hyt
  omega

/-- **C06 (final time).** Once the schedule is complete the current time is the makespan, under any
filter configuration. -/
theorem C06_final (c : Cfg) (hv : Valid c.I) (evs : List Ev) (hcomp : isComplete c.I (run c evs) = true) :
    currentTimePure c (run c evs) = makespan (run c evs) := by
  have hC := (C01_complete_iff c hv evs).2.1 hcomp
  have hraw : rawReady c.I (run c evs) = [] := by
    apply List.eq_nil_iff_forall_not_mem.2
    intro r hr
    obtain ⟨h1, h2, h3⟩ := (mem_rawReady c.I _ r).1 hr
    obtain ⟨x, hx, hxj, hxp⟩ := hC r.1 r.2 (getD_length_of_getOp.2 h3)
    have := ((C05_scheduled_iff c hv evs r).1).2 ⟨x, hx, by rw [hxj, hxp]⟩
    have := ((mem_scheduledPure c.I _ r).1 this).2
    omega
  have hav : availablePure c (run c evs) = [] := by
    unfold availablePure applyCfg
    rw [hraw]
    cases c.F with
    | none => rfl
    | some fs => simpa using applyFilters_sublist c.I (run c evs) fs []
  unfold currentTimePure
  rw [hav, minStart_nil]

/-! non-vacuity: positive-duration instance, filter composition, time strictly increases along a history -/
def posInstance : Instance := [[⟨[0, 1], 3⟩, ⟨[2], 2⟩], [⟨[1], 4⟩, ⟨[0, 2], 1⟩]]
example : PosDurI posInstance ∧ Valid posInstance := by
  have hv : Valid posInstance := valid_of_validB (by decide)
  refine ⟨?_, hv⟩
  intro j p op h
  have hall : posInstance.all (fun job => job.all fun op => decide (0 < op.dur)) = true := by decide
  unfold getOp at h
  cases hj : posInstance[j]? with
  | none => simp [hj] at h
  | some job =>
    simp only [hj, Option.bind_some] at h
    have := List.all_eq_true.1 hall job (List.mem_of_getElem? hj)
    have := List.all_eq_true.1 this op (List.mem_of_getElem? h)
    simpa using this
example :
    let c : Cfg := { I := posInstance, F := some [.dominated, .nonIdleMachines] }
    (currentTimePure c (run c []), currentTimePure c (run c [.disp 0 0 (some 0)]),
     currentTimePure c (run c [.disp 0 0 (some 0), .disp 1 0 none]),
     currentTimePure c (run c [.disp 0 0 (some 0), .disp 1 0 none, .disp 0 1 none, .disp 1 1 (some 0)])) =
    (0, 0, 3, 5) := by decide

end JS

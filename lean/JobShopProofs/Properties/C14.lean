import JobShopModel.Views
import JobShopProofs.Properties.C07
/-!
# C14 — instances and schedules survive serialisation; views match
-/
namespace JS

/-! ## operation ids -/

theorem opIdBase_succ (I : Instance) (j : Nat) (h : j < I.length) :
    opIdBase I (j + 1) = opIdBase I j + (I.getD j []).length := by
  unfold opIdBase
  rw [List.take_succ, List.map_append, List.sum_append]
  simp [List.getD_eq_getElem?_getD, List.getElem?_eq_getElem h]

theorem range_flatMap_ids (I : Instance) : ∀ n, n ≤ I.length →
    ((List.range n).flatMap fun j => (List.range (I.getD j []).length).map fun p => opIdBase I j + p)
      = List.range (opIdBase I n)
  | 0, _ => by simp [opIdBase]
  | n + 1, h => by
    rw [List.range_succ, List.flatMap_append, range_flatMap_ids I n (by omega)]
    simp only [List.flatMap_cons, List.flatMap_nil, List.append_nil]
    rw [opIdBase_succ I n (by omega), List.range_add]

/-- **C14 (ids).** Operation ids are numbered densely in job-major order: listing all operations job by job,
position by position, yields exactly `0, 1, …, num_operations − 1`. -/
theorem C14_ids (I : Instance) : (allOps I).map (opId I) = List.range (numOps I) := by
  have h1 : (allOps I).map (opId I) =
      (List.range I.length).flatMap fun j => (List.range (I.getD j []).length).map fun p => opIdBase I j + p := by
    simp only [allOps, List.map_flatMap, List.map_map]
    rfl
  rw [h1, range_flatMap_ids I I.length (Nat.le_refl _)]
  simp [opIdBase, numOps]

/-- **C14 (counts).** `num_operations` is the sum of the job lengths; every machine id that occurs is below
`num_machines`. -/
theorem C14_counts (I : Instance) :
    numOps I = (I.map List.length).sum ∧
    ∀ j p op m, getOp I j p = some op → m ∈ op.machines → m < numMachines I :=
  ⟨rfl, fun j p op m h hm => machine_lt I j p m op h hm⟩

/-! ## dictionary and Taillard round trips -/

/-- every operation has exactly one machine -/
def NonFlex (I : Instance) : Prop := ∀ job ∈ I, ∀ op ∈ job, op.machines.length = 1

/-- every operation has at least one machine -/
def HasMachine (I : Instance) : Prop := ∀ job ∈ I, ∀ op ∈ job, op.machines ≠ []

theorem not_flexible_iff (I : Instance) : isFlexible I = false ↔ ∀ job ∈ I, ∀ op ∈ job, op.machines.length ≤ 1 := by
  simp only [isFlexible, List.any_eq_false, List.any_eq_true, not_exists, not_and, decide_eq_true_eq]
  constructor
  · intro h job hj op ho
    have := h job hj op ho
    omega
  · intro h job hj op ho
    have := h job hj op ho
    omega

theorem map_range_getD {α β} (l : List α) (d : α) (f : α → β) :
    (List.range l.length).map (fun i => f (l.getD i d)) = l.map f := by
  apply List.ext_getElem
  · simp
  · intro i h1 h2
    simp only [List.length_map, List.length_range] at h1
    simp [List.getD_eq_getElem?_getD, List.getElem?_eq_getElem h1]

theorem rebuild_rows {α} (I : Instance) (g : List Op → List α) (mk : α → Int → Op)
    (hlen : ∀ job ∈ I, (g job).length = job.length)
    (hmk : ∀ job (hj : job ∈ I), ∀ p (h : p < job.length),
      mk ((g job)[p]'(by rw [hlen job hj]; exact h)) (job[p]).dur = job[p]) :
    ∀ (defA : α), ((List.range I.length).map fun j =>
      (List.range (((I.map fun job => job.map (·.dur)).getD j []).length)).map fun p =>
        mk (((I.map g).getD j []).getD p defA) (((I.map fun job => job.map (·.dur)).getD j []).getD p 0)) = I := by
  intro defA
  apply List.ext_getElem
  · simp
  · intro j h1 h2
    simp only [List.length_map, List.length_range] at h1
    have hj : I[j] ∈ I := List.getElem_mem _
    simp only [List.getElem_map, List.getElem_range, List.getD_eq_getElem?_getD, List.getElem?_map,
      List.getElem?_eq_getElem h1, Option.map_some, Option.getD_some, List.length_map]
    apply List.ext_getElem
    · simp
    · intro p hp1 hp2
      simp only [List.length_map, List.length_range] at hp1
      have hgl := hlen I[j] hj
      have hpg : p < (g I[j]).length := by rw [hgl]; exact hp1
      simp only [List.getElem_map, List.getElem_range, List.getElem?_eq_getElem hpg, List.getElem?_eq_getElem hp1,
        Option.getD_some]
      exact hmk I[j] hj p hp1

/-- **C14 (dictionary round trip).** For every instance whose operations all have a machine, converting to
the dictionary form (duration matrix + machines matrix — lists of machines when flexible, single ids
otherwise) and back reproduces the same operations. -/
theorem C14_dict_roundtrip (I : Instance) (hm : HasMachine I) :
    fromMatrices (toDict I).1 (toDict I).2 = I := by
  unfold toDict machinesMatrix
  by_cases hf : isFlexible I = true
  · simp only [hf, ↓reduceIte, fromMatrices, durationsMatrix]
    have := rebuild_rows I (fun job => job.map (·.machines)) (fun ms d => ⟨ms, d⟩)
      (by intro job _; simp) (by intro job _ p h; simp) []
    simpa using this
  · have hf' : isFlexible I = false := by simpa using hf
    simp only [hf', Bool.false_eq_true, ↓reduceIte, fromMatrices, durationsMatrix]
    have hle := (not_flexible_iff I).1 hf'
    have := rebuild_rows I (fun job => job.map fun op => op.machines.headD 0) (fun m d => ⟨[m], d⟩)
      (by intro job _; simp)
      (by
        intro job hj p h
        have hop : job[p] ∈ job := List.getElem_mem _
        have h1 := hle job hj job[p] hop
        have h2 := hm job hj job[p] hop
        simp only [List.getElem_map]
        cases hms : job[p].machines with
        | nil => exact absurd hms h2
        | cons a t =>
          rw [hms] at h1
          simp only [List.length_cons] at h1
          have : t = [] := List.eq_nil_of_length_eq_zero (by omega)
          subst this
          cases hjp : job[p]
          simp_all) 0
    simpa using this

theorem pairsOf_flatten (l : List (Nat × Int)) :
    pairsOf ((l.map fun x => [(x.1 : Int), x.2]).flatten) = l.map fun x => ((x.1 : Int), x.2) := by
  induction l with
  | nil => rfl
  | cons a t ih => simp [pairsOf, ih]

/-- **C14 (Taillard round trip).** For every non-flexible instance, writing the Taillard rows (header row,
then one row of `machine duration` pairs per job) and reading them back reproduces the same operations. -/
theorem C14_taillard_roundtrip (I : Instance) (hn : NonFlex I) : parseTaillard (renderTaillard I) = I := by
  unfold parseTaillard renderTaillard
  simp only [List.tail_cons, List.map_map]
  conv => rhs; rw [← List.map_id I]
  apply List.map_congr_left
  intro job hj
  simp only [Function.comp_apply, id_eq]
  have : (job.map fun op => [((op.machines.headD 0 : Nat) : Int), op.dur]) =
      ((job.map fun op => (op.machines.headD 0, op.dur)).map fun x => [(x.1 : Int), x.2]) := by
    simp
  rw [this, pairsOf_flatten]
  simp only [List.map_map]
  conv => rhs; rw [← List.map_id job]
  apply List.map_congr_left
  intro op ho
  have h1 := hn job hj op ho
  cases hms : op.machines with
  | nil => rw [hms] at h1; simp at h1
  | cons a t =>
    rw [hms] at h1
    simp only [List.length_cons] at h1
    have : t = [] := List.eq_nil_of_length_eq_zero (by omega)
    subst this
    cases op
    simp_all

/-! ## a representative view: machine loads -/

theorem getD_modify_add (l : List Int) (m k : Nat) (d : Int) (h : m < l.length) :
    (l.modify m (· + d)).getD k 0 = l.getD k 0 + (if k = m then d else 0) := by
  rw [getD_modify_eq l _ m 0 h k]
  by_cases hk : k = m
  · subst hk; simp
  · simp [hk]

theorem foldl_machines_load (d : Int) : ∀ (ms : List Nat) (acc : List Int) (k : Nat), (∀ m ∈ ms, m < acc.length) →
    ((ms.foldl (fun acc m => acc.modify m (· + d)) acc).getD k 0 = acc.getD k 0 + (ms.count k : Int) * d) ∧
    (ms.foldl (fun acc m => acc.modify m (· + d)) acc).length = acc.length
  | [], acc, k, _ => by simp
  | m :: t, acc, k, h => by
    simp only [List.foldl_cons]
    have hm := h m (by simp)
    obtain ⟨h1, h2⟩ := foldl_machines_load d t (acc.modify m (· + d)) k
      (by intro x hx; simp only [List.length_modify]; exact h x (by simp [hx]))
    rw [h1, h2, getD_modify_add acc m k d hm]
    refine ⟨?_, by simp⟩
    simp only [List.count_cons, beq_iff_eq]
    by_cases hk : k = m
    · subst hk; simp only [↓reduceIte]; push_cast; rw [Int.add_mul]; omega
    · have : ¬ m = k := fun e => hk e.symm
      simp only [hk, this, ↓reduceIte, Nat.add_zero, Int.add_zero]

theorem foldl_ops_load : ∀ (ops : List Op) (acc : List Int) (k : Nat),
    (∀ op ∈ ops, ∀ m ∈ op.machines, m < acc.length) →
    (ops.foldl (fun acc op => op.machines.foldl (fun acc m => acc.modify m (· + op.dur)) acc) acc).getD k 0 =
      acc.getD k 0 + (ops.map fun op => (op.machines.count k : Int) * op.dur).sum
  | [], acc, k, _ => by simp
  | op :: t, acc, k, h => by
    simp only [List.foldl_cons, List.map_cons, List.sum_cons]
    obtain ⟨h1, h2⟩ := foldl_machines_load op.dur op.machines acc k (h op (by simp))
    rw [foldl_ops_load t _ k (by intro o ho m hm; rw [h2]; exact h o (by simp [ho]) m hm), h1]
    omega

/-- **C14 (machine loads = definition).** The load of machine `k` is the sum of the durations of the
operations that can be processed on `k` (each counted once when machine lists are duplicate-free). -/
theorem C14_machineLoads (I : Instance) (k : Nat) :
    (machineLoads I).getD k 0 = (I.flatten.map fun op => (op.machines.count k : Int) * op.dur).sum := by
  unfold machineLoads
  rw [foldl_ops_load I.flatten _ k]
  · simp only [List.getD_eq_getElem?_getD, List.getElem?_replicate]
    split <;> simp
  · intro op ho m hm
    simp only [List.length_replicate]
    obtain ⟨job, hjob, hop⟩ := List.mem_flatten.1 ho
    have h1 : m + 1 ≤ opMax op := foldl_max_mem (fun m => m + 1) op.machines 0 m hm
    have h2 : opMax op ≤ jobMax job := foldl_max_mem opMax job 0 op hop
    have h3 : jobMax job ≤ numMachines I := foldl_max_mem jobMax I 0 job hjob
    omega

/-! ## job sequences -/

theorem jobSeqMachine_spec {I : Instance} (hv : Valid I) (m : Nat) (deques : List (List Nat)) (s : State) (pr : Bool)
    (hc : CInv I s) :
    (∀ r, jobSeqMachine I m deques s pr = .ok r → CInv I r.2.1 ∧ numScheduled s ≤ numScheduled r.2.1 ∧
      (r.2.2 = true → pr = true ∨ numScheduled s < numScheduled r.2.1)) ∧
    (∀ e, jobSeqMachine I m deques s pr = .error e → e = .indexError) := by
  unfold jobSeqMachine
  cases hd : deques.getD m [] with
  | nil =>
    simp only
    refine ⟨?_, ?_⟩
    · intro r hr; cases hr; exact ⟨hc, Nat.le_refl _, fun h => Or.inl h⟩
    · intro e he; cases he
  | cons j rest =>
    simp only
    cases hop : getOp I j (s.jobIdx.getD j 0) with
    | none =>
      simp only
      refine ⟨?_, ?_⟩
      · intro r hr; cases hr
      · intro e he; cases he; rfl
    | some op =>
      simp only
      by_cases hm : op.machines.contains m = true
      · simp only [hm, ↓reduceIte]
        have hmem : m ∈ op.machines := by simpa using hm
        obtain ⟨s', hs'⟩ := dispatch_accepts hc hop rfl hmem
        simp only [hs']
        obtain ⟨op', hsp⟩ := dispatch_ok hs'
        have hc' := cinv_dispatch (hv _ _ op' hsp.hop).2.2 hc hsp
        have hnum := numScheduled_dispatch hc.wf hs'
        refine ⟨?_, ?_⟩
        · intro r hr; cases hr; exact ⟨hc', by simp only; omega, fun _ => Or.inr (by simp only; omega)⟩
        · intro e he; cases he
      · simp only [hm, Bool.false_eq_true, ↓reduceIte]
        refine ⟨?_, ?_⟩
        · intro r hr; cases hr; exact ⟨hc, Nat.le_refl _, fun h => Or.inl h⟩
        · intro e he; cases he

theorem jobSeqPassFrom_spec {I : Instance} (hv : Valid I) : ∀ (ms : List Nat) (deques : List (List Nat)) (s : State)
    (pr : Bool), CInv I s →
    (∀ r, jobSeqPassFrom I ms deques s pr = .ok r → CInv I r.2.1 ∧ numScheduled s ≤ numScheduled r.2.1 ∧
      (r.2.2 = true → pr = true ∨ numScheduled s < numScheduled r.2.1)) ∧
    (∀ e, jobSeqPassFrom I ms deques s pr = .error e → e = .indexError)
  | [], deques, s, pr, hc => by
    unfold jobSeqPassFrom
    refine ⟨?_, ?_⟩
    · intro r hr; cases hr; exact ⟨hc, Nat.le_refl _, fun h => Or.inl h⟩
    · intro e he; cases he
  | m :: ms, deques, s, pr, hc => by
    unfold jobSeqPassFrom
    obtain ⟨h1, h2⟩ := jobSeqMachine_spec hv m deques s pr hc
    cases hp : jobSeqMachine I m deques s pr with
    | error e =>
      simp only
      refine ⟨?_, ?_⟩
      · intro r hr; cases hr
      · intro e' he'; cases he'; exact h2 e hp
    | ok r1 =>
      obtain ⟨d', s', pr'⟩ := r1
      simp only
      obtain ⟨hc', hle, hgrow⟩ := h1 _ hp
      simp only at hc' hle hgrow
      obtain ⟨g1, g2⟩ := jobSeqPassFrom_spec hv ms d' s' pr' hc'
      refine ⟨?_, g2⟩
      intro r hr
      obtain ⟨a, b, c⟩ := g1 r hr
      refine ⟨a, by omega, ?_⟩
      intro hr2
      rcases c hr2 with h | h
      · rcases hgrow h with h' | h'
        · left; exact h'
        · right; omega
      · right; omega

theorem jobSeqPass_spec {I : Instance} (hv : Valid I) (deques : List (List Nat)) (s : State) (hc : CInv I s) :
    (∀ r, jobSeqPass I deques s = .ok r → CInv I r.2.1 ∧ numScheduled s ≤ numScheduled r.2.1 ∧
      (r.2.2 = true → numScheduled s < numScheduled r.2.1)) ∧
    (∀ e, jobSeqPass I deques s = .error e → e = .indexError) := by
  obtain ⟨h1, h2⟩ := jobSeqPassFrom_spec hv (List.range deques.length) deques s false hc
  refine ⟨?_, h2⟩
  intro r hr
  obtain ⟨a, b, c⟩ := h1 r hr
  refine ⟨a, b, ?_⟩
  intro h
  rcases c h with h' | h'
  · cases h'
  · exact h'

/-- **C14 (job sequences: any accepted result is a reachable schedule).** From a reachable state, whatever the
sequences, if `from_job_sequences` returns a schedule then that schedule satisfies the dispatcher invariant —
hence is feasible (C01) — and is complete; and the method never fails inside `dispatch`. -/
theorem C14_seq_result_reachable {I : Instance} (hv : Valid I) : ∀ (fuel : Nat) (deques : List (List Nat)) (s : State),
    CInv I s →
    (∀ s', fromJobSequences I fuel deques s = .ok s' → CInv I s' ∧ Feasible I s'.sched ∧ isComplete I s' = true) ∧
    fromJobSequences I fuel deques s ≠ .dispatchError
  | 0, deques, s, hc => by
    unfold fromJobSequences
    by_cases hcomp : isComplete I s = true
    · simp only [hcomp, ↓reduceIte]
      refine ⟨fun s' h => by cases h; exact ⟨hc, feasible_of_cinv hc, hcomp⟩, by simp⟩
    · simp [hcomp]
  | fuel + 1, deques, s, hc => by
    unfold fromJobSequences
    by_cases hcomp : isComplete I s = true
    · simp only [hcomp, ↓reduceIte]
      refine ⟨fun s' h => by cases h; exact ⟨hc, feasible_of_cinv hc, hcomp⟩, by simp⟩
    · simp only [hcomp, Bool.false_eq_true, ↓reduceIte]
      obtain ⟨h1, h2⟩ := jobSeqPass_spec hv deques s hc
      cases hp : jobSeqPass I deques s with
      | error e =>
        simp only
        have := h2 e hp
        subst this
        refine ⟨?_, ?_⟩
        · intro s' h; cases h
        · intro h; cases h
      | ok r =>
        obtain ⟨d', s1, pr⟩ := r
        simp only
        obtain ⟨hc1, _, _⟩ := h1 _ hp
        by_cases hpr : pr = true
        · simp only [hpr, ↓reduceIte]
          exact C14_seq_result_reachable hv fuel d' s1 hc1
        · simp [hpr]

theorem cinv_numScheduled_le {I : Instance} {s : State} (hc : CInv I s) : numScheduled s ≤ numOps I := by
  have hf := feasible_of_cinv hc
  have hsub : (s.sched.flatten.map fun x => (x.job, x.pos)) ⊆ allOps I := by
    intro r hr
    simp only [List.mem_map] at hr
    obtain ⟨x, hx, rfl⟩ := hr
    obtain ⟨op, hop, _⟩ := hf.isOp x hx
    exact (mem_allOps' I _).2 (by simp [hop])
  have := (List.subperm_of_subset hf.once hsub).length_le
  rw [List.length_map, length_allOps] at this
  rw [numScheduled_eq]; exact this

theorem seq_fuel_ok {I : Instance} (hv : Valid I) : ∀ (fuel : Nat) (deques : List (List Nat)) (s : State), CInv I s →
    numOps I - numScheduled s < fuel → fromJobSequences I fuel deques s ≠ .fuel := by
  intro fuel
  induction fuel with
  | zero => intro _ _ _ h; omega
  | succ fuel ih =>
    intro deques s hc hlt
    unfold fromJobSequences
    by_cases hcomp : isComplete I s = true
    · simp [hcomp]
    · simp only [hcomp, Bool.false_eq_true, ↓reduceIte]
      obtain ⟨h1, h3⟩ := jobSeqPass_spec hv deques s hc
      have hlt2 : numScheduled s < numOps I := by
        have h1 := cinv_numScheduled_le hc
        have h2 : numScheduled s ≠ numOps I := by
          intro he; apply hcomp; simp [isComplete, he]
        omega
      cases hp : jobSeqPass I deques s with
      | error e => simp only; rw [h3 e hp]; intro h; cases h
      | ok r =>
        obtain ⟨d', s1, pr⟩ := r
        simp only
        by_cases hpr : pr = true
        · simp only [hpr, ↓reduceIte]
          obtain ⟨hc1, _, hgrow⟩ := h1 _ hp
          have hg : numScheduled s < numScheduled s1 := hgrow hpr
          have hle := cinv_numScheduled_le hc1
          exact ih d' s1 hc1 (by omega)
        · simp [hpr]

/-- **C14 (job sequences: never a hang).** Started on a fresh dispatcher with `num_operations + 1` iterations of
the outer loop as fuel, `from_job_sequences` never runs out of fuel: every iteration either finishes, raises, or
schedules at least one more operation. -/
theorem C14_seq_terminates (I : Instance) (hv : Valid I) (deques : List (List Nat)) :
    fromJobSequences I (numOps I + 1) deques (init I) ≠ .fuel :=
  seq_fuel_ok hv _ deques (init I) (cinv_init I) (by simp [numScheduled, init])

/-! non-vacuity -/
example : fromMatrices (toDict exampleInstance).1 (toDict exampleInstance).2 = exampleInstance := by decide
example : parseTaillard (renderTaillard [[⟨[1], 3⟩, ⟨[0], 0⟩], [⟨[0], 2⟩]]) = [[⟨[1], 3⟩, ⟨[0], 0⟩], [⟨[0], 2⟩]] := by decide
def cyclicInstance : Instance := [[⟨[0], 1⟩, ⟨[1], 1⟩], [⟨[1], 1⟩, ⟨[0], 1⟩]]
example : fromJobSequences cyclicInstance 5 [[1, 0], [0, 1]] (init cyclicInstance) = .validationError := by decide

end JS

import JobShopProofs.ResidualComplete
import JobShopProofs.Unsubscribed
/-! Everything the C17 check audits, in one module. -/

import JobShopProofs.Properties.C01
/-!
# C02 — start times are forced, bookkeeping matches the schedule, histories replay

Everything is stated against the *schedule* (`s.sched`, the per-machine lists), not against the tracking
vectors: the vectors are then shown to be what the schedule implies.
-/
namespace JS

/-- end of the last operation listed on machine `m` (0 if none) — read off the schedule -/
def lastEndOn (S : List (List SOp)) (m : Nat) : Int := ((S.getD m []).getLast?.map SOp.end_).getD 0

/-- end of the job predecessor of `(j, p)` in the schedule (0 if `p = 0`) — read off the schedule -/
def predEnd (S : List (List SOp)) (j : Nat) : Nat → Int
  | 0 => 0
  | q+1 => ((S.flatten.find? fun x => x.job == j && x.pos == q).map SOp.end_).getD 0

theorem jobNext_eq_predEnd {I : Instance} {s : State} (h : CInv I s) (j : Nat) :
    s.jobNext.getD j 0 = predEnd s.sched j (s.jobIdx.getD j 0) := by
  obtain ⟨a, hr, ha, ha2⟩ := h.abs
  rw [← hr.jN, ← hr.idx]
  cases hidx : a.idx j with
  | zero => simp [predEnd, ha.jN_zero j hidx]
  | succ q =>
    obtain ⟨x, hx, hxj, hxp⟩ := ha.idx_sched j q (by omega)
    have hxf : x ∈ s.sched.flatten := hr.sched.mem_iff.1 hx
    simp only [predEnd]
    cases hfind : s.sched.flatten.find? (fun x => x.job == j && x.pos == q) with
    | none =>
      have := List.find?_eq_none.1 hfind x hxf
      simp [hxj, hxp] at this
    | some y =>
      have hy := List.find?_some hfind
      have hym := List.mem_of_find?_eq_some hfind
      simp only [Bool.and_eq_true, beq_iff_eq] at hy
      have hya : y ∈ a.sched := hr.sched.mem_iff.2 hym
      have : x = y := ha.uniq x hx y hya (by rw [hxj, hy.1]) (by rw [hxp, hy.2])
      subst this
      simp only [Option.map_some, Option.getD_some]
      have := ha.jN_last x hx (by rw [hxj, hxp, hidx])
      rw [hxj] at this; exact this

/-- **C02 (forced start).** In every reachable state an accepted dispatch of `(j,p)` on `m` appends to
machine `m`'s list (and to no other) one entry whose start is exactly the later of the end of the job
predecessor and the end of the last operation already on `m` — both read off the schedule, 0 when absent. -/
theorem C02_start_forced (c : Cfg) (hv : Valid c.I) (evs : List Ev) (j p m : Nat) (s' : State)
    (h : dispatch c.I (run c evs) j p m = .ok s') :
    ∃ so : SOp, s'.sched.getD m [] = (run c evs).sched.getD m [] ++ [so] ∧
      (∀ k, k ≠ m → s'.sched.getD k [] = (run c evs).sched.getD k []) ∧
      so.job = j ∧ so.pos = p ∧ so.machine = m ∧
      (∃ op, getOp c.I j p = some op ∧ so.dur = op.dur) ∧
      so.start = max (predEnd (run c evs).sched j p) (lastEndOn (run c evs).sched m) := by
  have hi := inv_run hv evs
  obtain ⟨op, hd⟩ := dispatch_ok h
  have hmlt := machine_lt c.I j p m op hd.hop hd.hm
  have hlenS : m < (run c evs).sched.length := by rw [hi.cinv.wf.lenS]; exact hmlt
  refine ⟨⟨j, p, m, startTime (run c evs) j m, op.dur⟩, ?_, ?_, rfl, rfl, rfl, ⟨op, hd.hop, rfl⟩, ?_⟩
  · rw [hd.eq]; simp only; rw [getD_modify_eq _ _ _ _ hlenS]; simp
  · intro k hk; rw [hd.eq]; simp only; rw [getD_modify_eq _ _ _ _ hlenS]; simp [hk]
  · simp only [startTime, lastEndOn]
    rw [hi.cinv.lastEnd m, jobNext_eq_predEnd hi.cinv j, hd.hidx]
    exact Int.max_comm _ _

/-! ## makespan reads the last operation of each machine; that is the true maximum -/

theorem foldl_last_ge (L : List (List SOp)) : ∀ (acc : Int),
    acc ≤ L.foldl makespanStep acc := by
  induction L with
  | nil => intro acc; simp
  | cons ms t ih =>
    intro acc
    simp only [List.foldl_cons, makespanStep]
    cases ms.getLast? with
    | none => exact ih acc
    | some l => have := ih (max acc l.end_); simp only at this ⊢; omega

theorem foldl_last_mem (L : List (List SOp)) : ∀ (acc : Int) (ms : List SOp) (l : SOp), ms ∈ L →
    ms.getLast? = some l →
    l.end_ ≤ L.foldl makespanStep acc := by
  induction L with
  | nil => intro _ _ _ h; simp at h
  | cons ms' t ih =>
    intro acc ms l hmem hl
    simp only [List.foldl_cons]
    rcases List.mem_cons.1 hmem with rfl | hmem
    · simp only [makespanStep, hl]
      have := foldl_last_ge t (max acc l.end_)
      omega
    · exact ih _ ms l hmem hl

theorem foldl_last_attained (L : List (List SOp)) : ∀ (acc : Int),
    (L.foldl makespanStep acc = acc) ∨
    ∃ ms ∈ L, ∃ l, ms.getLast? = some l ∧
      l.end_ = L.foldl makespanStep acc := by
  induction L with
  | nil => intro acc; left; rfl
  | cons ms t ih =>
    intro acc
    simp only [List.foldl_cons, makespanStep]
    cases hl : ms.getLast? with
    | none =>
      rcases ih acc with h | ⟨ms', hm', l, hl', he⟩
      · left; exact h
      · right; exact ⟨ms', List.mem_cons_of_mem _ hm', l, hl', he⟩
    | some l =>
      simp only
      rcases ih (max acc l.end_) with h | ⟨ms', hm', l', hl', he⟩
      · by_cases hc : acc ≤ l.end_
        · right
          refine ⟨ms, by simp, l, hl, ?_⟩
          rw [h]; omega
        · left; rw [h]; omega
      · right; exact ⟨ms', List.mem_cons_of_mem _ hm', l', hl', he⟩

theorem mem_flatten_getD {α} (l : List (List α)) (x : α) (h : x ∈ l.flatten) : ∃ m, x ∈ l.getD m [] := by
  obtain ⟨ms, hms, hx⟩ := List.mem_flatten.1 h
  obtain ⟨i, hi, rfl⟩ := List.mem_iff_getElem.1 hms
  exact ⟨i, by simp [List.getD_eq_getElem?_getD, List.getElem?_eq_getElem hi, hx]⟩

theorem getD_mem_or_nil {α} (l : List (List α)) (m : Nat) : l.getD m [] ∈ l ∨ l.getD m [] = [] := by
  simp only [List.getD_eq_getElem?_getD]
  cases h : l[m]? with
  | none => right; rfl
  | some ms => left; exact List.mem_of_getElem? h

/-- in a time-ordered list of operations with non-negative durations the last one ends last -/
theorem end_le_last (ms : List SOp) (l x : SOp) (hord : ms.Pairwise (fun a b => a.end_ ≤ b.start))
    (hdur : 0 ≤ l.dur) (hl : ms.getLast? = some l) (hx : x ∈ ms) : x.end_ ≤ l.end_ := by
  obtain ⟨ys, hsplit⟩ := List.getLast?_eq_some_iff.1 hl
  rw [hsplit] at hord hx
  rw [List.pairwise_append] at hord
  rcases List.mem_append.1 hx with hx | hx
  · have := hord.2.2 x hx l (by simp)
    simp only [SOp.end_] at this ⊢; omega
  · simp only [List.mem_singleton] at hx; subst hx; exact Int.le_refl _

/-- **C02 (bookkeeping).** In every reachable state the dispatcher's tracking data are exactly what the
schedule implies: per-machine next-available time = end of the last operation on the machine; per-job
next-operation index = number of scheduled operations of the job; per-job next-available time = end of the
job's last scheduled operation; scheduled-operation count = number of entries; and the makespan (which the
code reads off the last operation of each machine) is the true maximum end time. -/
theorem C02_tracking (c : Cfg) (hv : Valid c.I) (evs : List Ev) :
    let s := run c evs
    (∀ m, s.machNext.getD m 0 = lastEndOn s.sched m) ∧
    (∀ j, s.jobIdx.getD j 0 = (s.sched.flatten.filter fun x => x.job == j).length) ∧
    (∀ j, s.jobNext.getD j 0 = predEnd s.sched j (s.jobIdx.getD j 0)) ∧
    numScheduled s = s.sched.flatten.length ∧
    (∀ x ∈ s.sched.flatten, x.end_ ≤ makespan s) ∧
    (makespan s = 0 ∨ ∃ x ∈ s.sched.flatten, x.end_ = makespan s) ∧ 0 ≤ makespan s := by
  intro s
  have hi : Inv c s := inv_run hv evs
  obtain ⟨a, hr, ha, ha2⟩ := hi.cinv.abs
  refine ⟨hi.cinv.lastEnd, ?_, jobNext_eq_predEnd hi.cinv, numScheduled_eq s, ?_, ?_, foldl_last_ge _ 0⟩
  · intro j
    rw [← hr.idx, ← ha2.idx_count j]
    exact (hr.sched.filter _).length_eq
  · intro x hx
    obtain ⟨m, hm⟩ := mem_flatten_getD _ x hx
    have hne : s.sched.getD m [] ≠ [] := List.ne_nil_of_mem hm
    rcases getD_mem_or_nil s.sched m with hmem | hnil
    · obtain ⟨l, hl⟩ : ∃ l, (s.sched.getD m []).getLast? = some l := by
        cases h : (s.sched.getD m []).getLast? with
        | none => exact absurd (List.getLast?_eq_none_iff.1 h) hne
        | some l => exact ⟨l, rfl⟩
      have hlm : l ∈ s.sched.getD m [] := List.mem_of_getLast? hl
      have hla : l ∈ a.sched := hr.sched.mem_iff.2 (mem_getD_flatten _ _ _ hlm)
      have h1 := end_le_last _ l x (hi.cinv.ordered m) (ha2.dur_nonneg l hla) hl hm
      have h2 := foldl_last_mem s.sched 0 _ l hmem hl
      unfold makespan; omega
    · exact absurd hnil hne
  · rcases foldl_last_attained s.sched 0 with h | ⟨ms, hms, l, hl, he⟩
    · left; exact h
    · right
      exact ⟨l, List.mem_flatten.2 ⟨ms, hms, List.mem_of_getLast? hl⟩, he⟩

/-! ## replay -/

/-- equality of everything but the memo table -/
def CoreEq (s t : State) : Prop :=
  s.sched = t.sched ∧ s.machNext = t.machNext ∧ s.jobIdx = t.jobIdx ∧ s.jobNext = t.jobNext

theorem CoreEq.rfl' (s : State) : CoreEq s s := ⟨rfl, rfl, rfl, rfl⟩

theorem dispatch_coreEq {I : Instance} {s t : State} (h : CoreEq s t) (j p m : Nat) :
    dispatch I s j p m = dispatch I t j p m := by
  obtain ⟨h1, h2, h3, h4⟩ := h
  cases s; cases t
  simp only at h1 h2 h3 h4
  subst h1 h2 h3 h4
  rfl

/-- `Dispatcher.reset` restores exactly the state of a freshly constructed dispatcher. -/
theorem C02_reset_eq_init (I : Instance) (s : State) : reset I s = init I := rfl

/-- the accepted `(job, position, machine)` triples since the last reset, in order — what a
`HistoryObserver` records -/
def acceptedHistory (c : Cfg) : State → List Ev → List (Nat × Nat × Nat) → List (Nat × Nat × Nat)
  | _, [], acc => acc
  | s, e :: evs, acc =>
    match e with
    | .disp j p m =>
      match getOp c.I j p with
      | none => acceptedHistory c s evs acc
      | some op =>
        match resolveMachine op m, dispatchReq c.I s j p m with
        | .ok mm, .ok s' => acceptedHistory c s' evs (acc ++ [(j, p, mm)])
        | _, _ => acceptedHistory c s evs acc
    | .reset => acceptedHistory c (reset c.I s) evs []
    | .query q => acceptedHistory c (ask c s q).2 evs acc

/-- re-dispatching a recorded history on a dispatcher without filter, observers or queries -/
def replay (I : Instance) (s : State) (h : List (Nat × Nat × Nat)) : State :=
  h.foldl (fun s r => match dispatch I s r.1 r.2.1 r.2.2 with | .ok s' => s' | .error _ => s) s

theorem replay_append (I : Instance) (s : State) (h1 h2 : List (Nat × Nat × Nat)) :
    replay I s (h1 ++ h2) = replay I (replay I s h1) h2 := by simp [replay, List.foldl_append]

theorem replay_general (c : Cfg) : ∀ (evs : List Ev) (s : State) (acc : List (Nat × Nat × Nat)),
    CacheOK c s → CoreEq s (replay c.I (init c.I) acc) →
    CoreEq (runEvs c s evs) (replay c.I (init c.I) (acceptedHistory c s evs acc))
  | [], s, acc, _, h => by simpa [runEvs, acceptedHistory] using h
  | e :: evs, s, acc, hc, h => by
    cases e with
    | disp j p m =>
      simp only [runEvs, List.foldl_cons, stepEv, acceptedHistory]
      cases hop : getOp c.I j p with
      | none =>
        have : dispatchReq c.I s j p m = .error .noSuchOp := by simp [dispatchReq, hop]
        simp only [this]
        exact replay_general c evs s acc hc h
      | some op =>
        simp only
        cases hd : dispatchReq c.I s j p m with
        | error e =>
          have : (match resolveMachine op m, (Except.error e : Except Err State) with
              | .ok mm, .ok s' => acceptedHistory c s' evs (acc ++ [(j, p, mm)])
              | _, _ => acceptedHistory c s evs acc) = acceptedHistory c s evs acc := by
            cases resolveMachine op m <;> rfl
          rw [this]
          exact replay_general c evs s acc hc h
        | ok s' =>
          obtain ⟨mm, op', hop', hres, hdd⟩ := dispatchReq_ok hd
          rw [hop] at hop'; cases hop'
          simp only [hres]
          refine replay_general c evs s' (acc ++ [(j, p, mm)]) (cacheOK_empty c s' ?_) ?_
          · obtain ⟨_, hsp⟩ := dispatch_ok hdd; rw [hsp.eq]
          · rw [replay_append]
            have e := dispatch_coreEq (I := c.I) h j p mm
            rw [hdd] at e
            simp only [replay, List.foldl_cons, List.foldl_nil] at e ⊢
            rw [← e]
            exact CoreEq.rfl' s'
    | reset =>
      simp only [runEvs, List.foldl_cons, stepEv, acceptedHistory]
      exact replay_general c evs _ [] (cacheOK_empty c _ rfl) (CoreEq.rfl' _)
    | query q =>
      simp only [runEvs, List.foldl_cons, stepEv, acceptedHistory]
      obtain ⟨_, hok, k, hk⟩ := ask_ok c s hc q
      refine replay_general c evs _ acc hok ?_
      rw [hk]; exact h

/-- **C02 (replay).** The schedule and all bookkeeping are a pure function of the accepted
`(operation, machine)` sequence since the last reset: re-dispatching that recorded sequence on a fresh
dispatcher — or on one that was reset (`C02_reset_eq_init`) — with any other filter configuration and no
queries reproduces them exactly, whatever rejected requests, queries and earlier episodes the original
history contained. -/
theorem C02_replay (c : Cfg) (evs : List Ev) :
    CoreEq (run c evs) (replay c.I (init c.I) (acceptedHistory c (init c.I) evs [])) :=
  replay_general c evs (init c.I) [] (cacheOK_empty c _ rfl) (CoreEq.rfl' _)

/-- the recorded history replays without any rejection: its length is the number of scheduled operations -/
theorem C02_replay_from_reset (c : Cfg) (evs : List Ev) (s : State) :
    CoreEq (run c evs) (replay c.I (reset c.I s) (acceptedHistory c (init c.I) evs [])) := C02_replay c evs

/-! non-vacuity: the example history of C01 really exercises an accepted dispatch with both constraints -/
example : (run { I := exampleInstance } exampleHistory).sched =
    [[⟨0, 2, 0, 7, 2⟩], [⟨1, 0, 1, 0, 4⟩, ⟨0, 0, 1, 4, 3⟩], [], [⟨0, 1, 3, 7, 0⟩, ⟨1, 1, 3, 7, 1⟩]] := by decide

end JS

import JobShopModel.Staged
import JobShopProofs.Properties.C13
/-!
# C09 — rejected requests change nothing
-/
namespace JS

/-- **C09 (atomicity, statement level).** Whatever the request (any job/position of the instance, any
machine argument: out of range, negative, ineligible, `None` on a flexible operation), if the call raises
then the world at that moment — dispatcher, schedule, memo, every observer, the subscriber list — is the
world before the call: every `raise` precedes every mutation. -/
theorem C09_dispatch_atomic (w : World) (j p : Nat) (m : Option Int) (e : Err)
    (h : (w.dispatchStaged j p m).2 = .raised e) : (w.dispatchStaged j p m).1 = w := by
  unfold World.dispatchStaged at h ⊢
  cases hop : getOp w.cfg.I j p with
  | none => rfl
  | some op =>
    simp only [hop] at h ⊢
    by_cases hidx : w.s.jobIdx.getD j 0 ≠ p
    · simp only [if_pos hidx]
    · simp only [if_neg hidx] at h ⊢
      cases hres : resolveNone op m with
      | error e' => rfl
      | ok z =>
        simp only [hres] at h ⊢
        cases hpi : pyIndex w.s.machNext z with
        | none => rfl
        | some mnext =>
          simp only [hpi] at h ⊢
          by_cases hz : z < 0 ∨ z.toNat ∉ op.machines
          · simp only [if_pos hz]
          · simp only [if_neg hz] at h ⊢
            split at h
            · rename_i hadd; simp only [if_pos hadd]
            · cases h

theorem pyIndex_nat {α} (l : List α) (n : Nat) : pyIndex l (n : Int) = l[n]? := by
  simp [pyIndex]

/-- the entry found by `World.dispatch` is the one the staged model builds -/
theorem find_new_entry {I : Instance} {s s' : State} {j p mm : Nat} {op : Op} (hc : CInv I s) (hv : 0 ≤ op.dur)
    (hd : DispSpec I s s' j p mm op) :
    s'.sched.flatten.find? (fun x => x.job == j && x.pos == p) = some ⟨j, p, mm, startTime s j mm, op.dur⟩ := by
  have hc' := cinv_dispatch hv hc hd
  obtain ⟨a, hr, ha, _⟩ := hc'.abs
  have hmlt := machine_lt I j p mm op hd.hop hd.hm
  have hmem : (⟨j, p, mm, startTime s j mm, op.dur⟩ : SOp) ∈ s'.sched.flatten := by
    rw [hd.eq]
    exact (flatten_modify_perm s.sched mm _ (by rw [hc.wf.lenS]; exact hmlt)).mem_iff.2 (by simp)
  cases hfind : s'.sched.flatten.find? (fun x => x.job == j && x.pos == p) with
  | none => exact absurd (by simp) (List.find?_eq_none.1 hfind _ hmem)
  | some x =>
    have hxp := List.find?_some hfind
    simp only [Bool.and_eq_true, beq_iff_eq] at hxp
    have hxm := List.mem_of_find?_eq_some hfind
    rw [ha.uniq x (hr.sched.mem_iff.2 hxm) _ (hr.sched.mem_iff.2 hmem) hxp.1 hxp.2]

/-- **C09 (the two models agree).** In every well-formed world the statement-level execution and the
check-then-update `World.dispatch` produce the same world and the same outcome class (ok / raised). -/
theorem C09_staged_eq {w : World} (hw : WInv w) (hv : Valid w.cfg.I) (j p : Nat) (m : Option Int) :
    (w.dispatchStaged j p m).1 = (w.dispatch j p m).1 ∧
    ((w.dispatchStaged j p m).2 = .ok ↔ (w.dispatch j p m).2 = .ok) := by
  have hwf := hw.inv.cinv.wf
  cases hd : dispatchReq w.cfg.I w.s j p m with
  | error e =>
    rw [World.dispatch_rejected w hd]
    -- the staged run must raise as well, hence returns w
    have hraise : ∃ e', (w.dispatchStaged j p m).2 = .raised e' := by
      unfold World.dispatchStaged
      unfold dispatchReq at hd
      cases hop : getOp w.cfg.I j p with
      | none => exact ⟨_, rfl⟩
      | some op =>
        simp only [hop] at hd ⊢
        by_cases hidx : w.s.jobIdx.getD j 0 ≠ p
        · simp only [if_pos hidx]; exact ⟨_, rfl⟩
        · simp only [if_neg hidx] at hd ⊢
          cases m with
          | none =>
            simp only [resolveMachine, resolveNone] at hd ⊢
            by_cases hlen : op.machines.length > 1
            · simp only [hlen, ↓reduceIte]; exact ⟨_, rfl⟩
            · simp only [hlen, ↓reduceIte] at hd ⊢
              cases hms : op.machines with
              | nil => exact ⟨_, rfl⟩
              | cons m0 t =>
                simp only [hms] at hd ⊢
                -- m0 is eligible, so the core dispatch would have been accepted
                have hm0 : m0 ∈ op.machines := by rw [hms]; simp
                obtain ⟨s', hs'⟩ := dispatch_accepts hw.inv.cinv hop (by simpa using hidx) hm0
                rw [hs'] at hd; cases hd
          | some z =>
            simp only [resolveMachine, resolveNone] at hd ⊢
            by_cases hz : z < 0
            · cases pyIndex w.s.machNext z with
              | none => exact ⟨_, rfl⟩
              | some v => simp only [hz, true_or, ↓reduceIte]; exact ⟨_, rfl⟩
            · simp only [hz, ↓reduceIte] at hd
              by_cases hmem : z.toNat ∈ op.machines
              · simp only [hmem, ↓reduceIte] at hd
                obtain ⟨s', hs'⟩ := dispatch_accepts hw.inv.cinv hop (by simpa using hidx) hmem
                rw [hs'] at hd; cases hd
              · cases pyIndex w.s.machNext z with
                | none => exact ⟨_, rfl⟩
                | some v => simp only [hz, hmem, not_false_eq_true, or_true, ↓reduceIte]; exact ⟨_, rfl⟩
    obtain ⟨e', he'⟩ := hraise
    exact ⟨C09_dispatch_atomic w j p m e' he', by simp [he']⟩
  | ok s' =>
    obtain ⟨mm, op, hop, hres, hdd⟩ := dispatchReq_ok hd
    obtain ⟨op', hsp⟩ := dispatch_ok hdd
    have hop' := hsp.hop
    rw [hop] at hop'; cases hop'
    have hmlt := machine_lt w.cfg.I j p mm op hop hsp.hm
    have hfind := find_new_entry hw.inv.cinv (hv j p op hop).2.2 hsp
    -- the resolved machine as the staged model sees it
    have hz : resolveNone op m = .ok (mm : Int) := by
      cases m with
      | none =>
        simp only [resolveMachine] at hres
        simp only [resolveNone]
        split at hres
        · cases hres
        · rename_i hlen
          simp only [hlen, ↓reduceIte]
          cases hms : op.machines with
          | nil => simp [hms] at hres
          | cons m0 t => simp only [hms] at hres; cases hres; rfl
      | some z =>
        simp only [resolveMachine] at hres
        simp only [resolveNone]
        split at hres
        · cases hres
        · split at hres
          · cases hres; congr 1; omega
          · cases hres
    have hidx : w.s.machNext[mm]? = some (w.s.machNext.getD mm 0) := by
      have : mm < w.s.machNext.length := by rw [hwf.lenM]; exact hmlt
      simp [List.getD_eq_getElem?_getD, List.getElem?_eq_getElem this]
    have hadd : addOk (w.s.sched.getD mm []) ⟨j, p, mm, max (w.s.machNext.getD mm 0) (w.s.jobNext.getD j 0), op.dur⟩
        = true := hsp.addok
    have hnot : ¬ ((mm : Int) < 0 ∨ ¬ mm ∈ op.machines) := by
      intro h
      rcases h with h | h
      · omega
      · exact h hsp.hm
    constructor
    · simp only [World.dispatch, hd, hfind, World.dispatchStaged, hop, hsp.hidx, ne_eq, not_true_eq_false,
        ↓reduceIte, hz, pyIndex_nat, hidx, hnot, Int.toNat_natCast, hadd, Bool.not_true, Bool.false_eq_true,
        World.stagedCommit]
      rw [hsp.eq]
      simp [startTime, SOp.end_]
    · simp only [World.dispatch, hd, hfind, World.dispatchStaged, hop, hsp.hidx, ne_eq, not_true_eq_false,
        ↓reduceIte, hz, pyIndex_nat, hidx, hnot, Int.toNat_natCast, hadd, Bool.not_true, Bool.false_eq_true]

/-- **C09 (rejected requests, world level).** A rejected dispatch request leaves the whole world — the
dispatcher, its schedule and memo, the subscriber list and every observer — exactly as it was. -/
theorem C09_rejected_unchanged (w : World) (j p : Nat) (m : Option Int) (e : Err)
    (h : (w.dispatch j p m).2 = .raised e) : (w.dispatch j p m).1 = w := by
  unfold World.dispatch at h ⊢
  cases hd : dispatchReq w.cfg.I w.s j p m with
  | error e' => rfl
  | ok s' =>
    simp only [hd] at h
    split at h <;> simp at h

/-- **C09 (as if never made).** Inserting a rejected request anywhere in a history does not change the
world the history produces — subsequent requests behave as if it had never been made. -/
theorem C09_as_if_never (c : Cfg) (h1 h2 : List WEv) (j p : Nat) (m : Option Int) (e : Err)
    (hrej : ((World.run c h1).dispatch j p m).2 = .raised e) :
    World.run c (h1 ++ [.disp j p m] ++ h2) = World.run c (h1 ++ h2) := by
  simp only [World.run, List.foldl_append, List.foldl_cons, List.foldl_nil, World.step]
  congr 1
  exact C09_rejected_unchanged _ j p m e hrej

/-- which requests are rejected: not the next operation of its job, or a machine the operation is not
eligible for (any integer, in or out of range), or no machine given for a flexible operation -/
theorem C09_rejects (c : Cfg) (hv : Valid c.I) (evs : List Ev) (j p : Nat) (m : Option Int) (op : Op)
    (hop : getOp c.I j p = some op)
    (hbad : (run c evs).jobIdx.getD j 0 ≠ p ∨ (∃ z, m = some z ∧ (z < 0 ∨ z.toNat ∉ op.machines)) ∨
      (m = none ∧ op.machines.length > 1)) :
    ∃ e, dispatchReq c.I (run c evs) j p m = .error e := by
  unfold dispatchReq
  simp only [hop]
  by_cases hidx : (run c evs).jobIdx.getD j 0 ≠ p
  · simp only [if_pos hidx]; exact ⟨_, rfl⟩
  · simp only [if_neg hidx]
    rcases hbad with h | ⟨z, rfl, hz⟩ | ⟨rfl, hlen⟩
    · exact absurd h hidx
    · simp only [resolveMachine]
      rcases hz with hz | hz
      · simp [hz]
      · by_cases hneg : z < 0
        · simp [hneg]
        · simp [hneg, hz]
    · simp [resolveMachine, hlen]

/-! non-vacuity: three kinds of rejected request in a world with observers -/
example :
    let c : Cfg := { I := exampleInstance }
    let w := World.run c [.construct .history, .construct .recorder, .disp 1 0 none]
    ((w.dispatchStaged 0 1 none).2, (w.dispatchStaged 0 0 (some 7)).2, (w.dispatchStaged 0 0 (some (-1))).2,
     (w.dispatchStaged 0 0 none).2, (w.dispatchStaged 0 0 (some 3)).2) =
    (.raised .notReady, .raised .badMachine, .raised .badMachine, .raised .uninit, .raised .badMachine) := by decide

end JS

import JobShopModel.Rules
import JobShopProofs.Properties.C07
/-!
# C04 — dispatching-rule solvers always finish and follow their rule
-/
namespace JS

/-! ## `min`/`max` with a key return the first extremum -/

theorem foldl_argmin_spec {α} (key : α → Int) : ∀ (t : List α) (a : α),
    (t.foldl (fun best x => if key x < key best then x else best) a = a ∨
      t.foldl (fun best x => if key x < key best then x else best) a ∈ t) ∧
    key (t.foldl (fun best x => if key x < key best then x else best) a) ≤ key a ∧
    ∀ b ∈ t, key (t.foldl (fun best x => if key x < key best then x else best) a) ≤ key b
  | [], a => by simp
  | x :: t, a => by
    simp only [List.foldl_cons, List.mem_cons]
    by_cases h : key x < key a
    · simp only [h, ↓reduceIte]
      obtain ⟨h1, h2, h3⟩ := foldl_argmin_spec key t x
      refine ⟨?_, by omega, ?_⟩
      · rcases h1 with h1 | h1
        · right; left; exact h1
        · right; right; exact h1
      · rintro b (rfl | hb)
        · exact h2
        · exact h3 b hb
    · simp only [h, ↓reduceIte]
      obtain ⟨h1, h2, h3⟩ := foldl_argmin_spec key t a
      refine ⟨?_, h2, ?_⟩
      · rcases h1 with h1 | h1
        · left; exact h1
        · right; right; exact h1
      · rintro b (rfl | hb)
        · omega
        · exact h3 b hb

theorem argminFirst_spec {α} (key : α → Int) (l : List α) (a : α) (h : argminFirst key l = some a) :
    a ∈ l ∧ ∀ b ∈ l, key a ≤ key b := by
  cases l with
  | nil => simp [argminFirst] at h
  | cons x t =>
    simp only [argminFirst, Option.some.injEq] at h
    obtain ⟨h1, h2, h3⟩ := foldl_argmin_spec key t x
    rw [h] at h1 h2 h3
    refine ⟨?_, ?_⟩
    · rcases h1 with h1 | h1
      · rw [h1]; simp
      · exact List.mem_cons_of_mem _ h1
    · intro b hb
      rcases List.mem_cons.1 hb with rfl | hb
      · exact h2
      · exact h3 b hb

theorem argmaxFirst_eq_argmin {α} (key : α → Int) (l : List α) :
    argmaxFirst key l = argminFirst (fun a => - key a) l := by
  cases l with
  | nil => rfl
  | cons x t =>
    simp only [argmaxFirst, argminFirst]
    congr 1
    induction t generalizing x with
    | nil => rfl
    | cons y t ih =>
      simp only [List.foldl_cons]
      have : (if key x < key y then y else x) = (if -key y < -key x then y else x) := by
        by_cases h : key x < key y
        · have h' : -key y < -key x := by omega
          simp [h, h']
        · have h' : ¬ (-key y < -key x) := by omega
          simp [h, h']
      rw [this]; exact ih _

theorem argmaxFirst_spec {α} (key : α → Int) (l : List α) (a : α) (h : argmaxFirst key l = some a) :
    a ∈ l ∧ ∀ b ∈ l, key b ≤ key a := by
  rw [argmaxFirst_eq_argmin] at h
  obtain ⟨h1, h2⟩ := argminFirst_spec _ l a h
  exact ⟨h1, fun b hb => by have := h2 b hb; omega⟩

theorem argminFirst_isSome {α} (key : α → Int) (l : List α) (h : l ≠ []) : (argminFirst key l).isSome := by
  cases l with
  | nil => exact absurd rfl h
  | cons _ _ => simp [argminFirst]

theorem argmaxFirst_isSome {α} (key : α → Int) (l : List α) (h : l ≠ []) : (argmaxFirst key l).isSome := by
  rw [argmaxFirst_eq_argmin]; exact argminFirst_isSome _ l h

theorem argmaxFirst_congr {α} (k1 k2 : α → Int) (l : List α) (h : ∀ a ∈ l, k1 a = k2 a) :
    argmaxFirst k1 l = argmaxFirst k2 l := by
  cases l with
  | nil => rfl
  | cons x t =>
    simp only [argmaxFirst]
    congr 1
    have hx := h x (by simp)
    have ht : ∀ a ∈ t, k1 a = k2 a := fun a ha => h a (by simp [ha])
    clear h
    -- the running best is always an element of the list
    have : ∀ (t : List α) (b : α), k1 b = k2 b → (∀ a ∈ t, k1 a = k2 a) →
        t.foldl (fun best x => if k1 best < k1 x then x else best) b =
        t.foldl (fun best x => if k2 best < k2 x then x else best) b := by
      intro t
      induction t with
      | nil => intros; rfl
      | cons y t ih =>
        intro b hb hall
        simp only [List.foldl_cons]
        have hy := hall y (by simp)
        rw [hb, hy]
        by_cases hlt : k2 b < k2 y
        · simp only [hlt, ↓reduceIte]; exact ih y hy (fun a ha => hall a (by simp [ha]))
        · simp only [hlt, ↓reduceIte]; exact ih b hb (fun a ha => hall a (by simp [ha]))
    exact this t x hx ht

/-! ## the selected operation is available and best -/

theorem mem_insertSorted (x y : Nat) : ∀ (l : List Nat), y ∈ insertSorted x l ↔ y = x ∨ y ∈ l
  | [] => by simp [insertSorted]
  | z :: t => by
    unfold insertSorted
    split
    · simp
    · split
      · rename_i h; subst h; simp
      · simp only [List.mem_cons, mem_insertSorted x y t]
        constructor
        · rintro (h | h | h)
          · right; left; exact h
          · left; exact h
          · right; right; exact h
        · rintro (h | h | h)
          · right; left; exact h
          · left; exact h
          · right; right; exact h

theorem mem_sortDedup (y : Nat) : ∀ (l : List Nat), y ∈ sortDedup l ↔ y ∈ l
  | [] => by simp [sortDedup]
  | x :: t => by
    have ih := mem_sortDedup y t
    simp only [sortDedup, List.foldr_cons] at ih ⊢
    rw [mem_insertSorted, ih]; simp

theorem max?_spec (l : List Int) (h : l ≠ []) : ∃ m, l.max? = some m ∧ m ∈ l ∧ ∀ a ∈ l, a ≤ m := by
  cases l with
  | nil => exact absurd rfl h
  | cons a t =>
    refine ⟨t.foldl max a, List.max?_cons', ?_, ?_⟩
    · have : ∀ (t : List Int) (a : Int), t.foldl max a = a ∨ t.foldl max a ∈ t := by
        intro t
        induction t with
        | nil => intro a; left; rfl
        | cons x t ih =>
          intro a
          simp only [List.foldl_cons, List.mem_cons]
          rcases ih (max a x) with h | h
          · rw [h]
            by_cases hax : a ≤ x
            · right; left; omega
            · left; omega
          · right; right; exact h
      rcases this t a with h | h
      · rw [h]; simp
      · exact List.mem_cons_of_mem _ h
    · have : ∀ (t : List Int) (a : Int), a ≤ t.foldl max a ∧ ∀ b ∈ t, b ≤ t.foldl max a := by
        intro t
        induction t with
        | nil => intro a; simp
        | cons x t ih =>
          intro a
          simp only [List.foldl_cons, List.mem_cons]
          obtain ⟨h1, h2⟩ := ih (max a x)
          refine ⟨by omega, ?_⟩
          rintro b (rfl | hb)
          · omega
          · exact h2 b hb
      intro b hb
      obtain ⟨h1, h2⟩ := this t a
      rcases List.mem_cons.1 hb with rfl | hb
      · exact h1
      · exact h2 b hb

/-- the score vector of `r` is lexicographically at least that of `o` -/
def LexGe (c : Cfg) (s : State) : List ScoreFn → OpRef → OpRef → Prop
  | [], _, _ => True
  | f :: fs, r, o => score c s f o.1 < score c s f r.1 ∨ (score c s f o.1 = score c s f r.1 ∧ LexGe c s fs r o)

theorem lexGe_refl (c : Cfg) (s : State) : ∀ (fs : List ScoreFn) (r : OpRef), LexGe c s fs r r
  | [], _ => trivial
  | _ :: fs, r => Or.inr ⟨rfl, lexGe_refl c s fs r⟩

theorem tieBreakLoop_spec (c : Cfg) (s : State) : ∀ (fs : List ScoreFn) (cands : List OpRef),
    (cands ≠ [] → (tieBreakLoop c s fs cands).isSome) ∧
    ∀ r, tieBreakLoop c s fs cands = some r → r ∈ cands ∧ ∀ o ∈ cands, LexGe c s fs r o
  | [], cands => by
    constructor
    · intro h; cases cands with
      | nil => exact absurd rfl h
      | cons a t => simp [tieBreakLoop]
    · intro r hr
      simp only [tieBreakLoop] at hr
      exact ⟨List.mem_of_mem_head? hr, fun _ _ => trivial⟩
  | f :: fs, cands => by
    unfold tieBreakLoop
    by_cases hne : cands = []
    · subst hne; simp
    · have hmne : (cands.map fun r => score c s f r.1) ≠ [] := by simpa using hne
      obtain ⟨best, hb, hbm, hble⟩ := max?_spec _ hmne
      simp only [hb]
      -- the filtered candidates
      have hsub : ∀ x, x ∈ cands.filter (fun r => score c s f r.1 == best) ↔ x ∈ cands ∧ score c s f x.1 = best := by
        intro x; simp [List.mem_filter]
      have hne' : cands.filter (fun r => score c s f r.1 == best) ≠ [] := by
        obtain ⟨x, hx, hxe⟩ := List.mem_map.1 hbm
        exact List.ne_nil_of_mem ((hsub x).2 ⟨hx, hxe⟩)
      obtain ⟨ih1, ih2⟩ := tieBreakLoop_spec c s fs (cands.filter fun r => score c s f r.1 == best)
      have key : ∀ r, r ∈ cands.filter (fun r => score c s f r.1 == best) →
          (∀ o ∈ cands.filter (fun r => score c s f r.1 == best), LexGe c s fs r o) →
          r ∈ cands ∧ ∀ o ∈ cands, LexGe c s (f :: fs) r o := by
        intro r hr hall
        obtain ⟨hrc, hrb⟩ := (hsub r).1 hr
        refine ⟨hrc, ?_⟩
        intro o ho
        have hole := hble _ (List.mem_map.2 ⟨o, ho, rfl⟩)
        by_cases heq : score c s f o.1 = best
        · right; exact ⟨by rw [heq, hrb], hall o ((hsub o).2 ⟨ho, heq⟩)⟩
        · left; rw [hrb]; omega
      split
      · rename_i hlen
        constructor
        · intro _
          cases hf : cands.filter (fun r => score c s f r.1 == best) with
          | nil => exact absurd hf hne'
          | cons a t => simp
        · intro r hr
          have hrm := List.mem_of_mem_head? hr
          apply key r hrm
          intro o ho
          -- a one-element list: o = r
          cases hf : cands.filter (fun r => score c s f r.1 == best) with
          | nil => rw [hf] at ho; cases ho
          | cons a t =>
            rw [hf] at hlen hrm ho
            simp only [List.length_cons, beq_iff_eq, Nat.add_eq_right, List.length_eq_zero_iff] at hlen
            subst hlen
            simp only [List.mem_singleton] at hrm ho
            rw [hrm, ho]; exact lexGe_refl c s fs a
      · constructor
        · intro _; exact ih1 hne'
        · intro r hr
          obtain ⟨h1, h2⟩ := ih2 r hr
          exact key r h1 h2

/-- **C04 (selected operation is available).** Whatever the rule, the draw, the filter configuration and the
state, the operation a rule selects is one of the currently available operations. -/
theorem C04_selected_available (c : Cfg) (s : State) (rule : RuleKind) (draw : Nat) (r : OpRef)
    (h : selectOp c s rule draw = some r) : r ∈ availablePure c s := by
  cases rule with
  | spt => exact (argminFirst_spec _ _ r h).1
  | fcfs => exact (argminFirst_spec _ _ r h).1
  | mwkr => exact (argmaxFirst_spec _ _ r h).1
  | mor => exact (argmaxFirst_spec _ _ r h).1
  | random =>
    simp only [selectOp] at h
    split at h
    · cases h
    · exact List.mem_of_getElem? h
  | observerMwkr => exact (argmaxFirst_spec _ _ r h).1
  | scoreBased f => exact (argmaxFirst_spec _ _ r h).1
  | tieBreak fs => exact ((tieBreakLoop_spec c s fs _).2 r h).1

/-- **C04 (selected operation is best).** Each rule's selection is optimal for its documented criterion among
the available operations: shortest duration; lowest position in job; most remaining job work (total
duration of the job's unscheduled operations); most remaining job operations (the job's uncompleted
operations); highest score for score-based rules. -/
theorem C04_selected_best (c : Cfg) (s : State) (draw : Nat) (r : OpRef) :
    (selectOp c s .spt draw = some r → ∀ o ∈ availablePure c s, opDur c.I r ≤ opDur c.I o) ∧
    (selectOp c s .fcfs draw = some r → ∀ o ∈ availablePure c s, r.2 ≤ o.2) ∧
    (selectOp c s .mwkr draw = some r → ∀ o ∈ availablePure c s, remainingWork c.I s o.1 ≤ remainingWork c.I s r.1) ∧
    (selectOp c s .mor draw = some r → ∀ o ∈ availablePure c s, remainingOps c s o.1 ≤ remainingOps c s r.1) ∧
    (∀ f, selectOp c s (.scoreBased f) draw = some r → ∀ o ∈ availablePure c s, score c s f o.1 ≤ score c s f r.1) := by
  refine ⟨fun h => (argminFirst_spec _ _ r h).2, ?_, fun h => (argmaxFirst_spec _ _ r h).2,
    fun h => (argmaxFirst_spec _ _ r h).2, fun f h => (argmaxFirst_spec _ _ r h).2⟩
  intro h o ho
  have := (argminFirst_spec _ _ r h).2 o ho
  omega

/-- **C04 (direct = observer-based most-work-remaining).** In every state (any filter, any history) the
two rules select the same operation: on available operations the observer-based score (remaining work of
the job, zeroed for jobs that are not ready) equals the remaining work. -/
theorem C04_mwkr_agree (c : Cfg) (s : State) (d1 d2 : Nat) :
    selectOp c s .mwkr d1 = selectOp c s .observerMwkr d2 := by
  simp only [selectOp]
  apply argmaxFirst_congr
  intro r hr
  have : (availableJobsPure c s).contains r.1 = true := by
    simp only [List.contains_eq_mem, decide_eq_true_eq, availableJobsPure, mem_sortDedup]
    exact List.mem_map.2 ⟨r, hr, rfl⟩
  simp only [score, this, ↓reduceIte]

/-- **C04 (tie-breaker rule).** A rule composed of scoring functions with tie-breaking returns an available
operation whenever one exists … -/
theorem C04_tiebreak_available (c : Cfg) (s : State) (fs : List ScoreFn) (draw : Nat)
    (h : availablePure c s ≠ []) :
    ∃ r, selectOp c s (.tieBreak fs) draw = some r ∧ r ∈ availablePure c s := by
  obtain ⟨h1, h2⟩ := tieBreakLoop_spec c s fs (availablePure c s)
  obtain ⟨r, hr⟩ := Option.isSome_iff_exists.1 (h1 h)
  exact ⟨r, hr, (h2 r hr).1⟩

/-- … and that operation is lexicographically best under those scores. -/
theorem C04_tiebreak_lex (c : Cfg) (s : State) (fs : List ScoreFn) (draw : Nat) (r : OpRef)
    (h : selectOp c s (.tieBreak fs) draw = some r) : ∀ o ∈ availablePure c s, LexGe c s fs r o :=
  ((tieBreakLoop_spec c s fs _).2 r h).2

/-- **C04 (metadata).** With a monotone clock the recorded elapsed time is non-negative. -/
theorem C04_elapsed_nonneg (t0 t1 : Int) (h : t0 ≤ t1) : 0 ≤ elapsedTime t0 t1 := by
  unfold elapsedTime; omega

/-! ## the solver terminates with a complete feasible schedule -/

theorem selectOp_isSome (c : Cfg) (s : State) (rule : RuleKind) (draw : Nat) (h : availablePure c s ≠ []) :
    (selectOp c s rule draw).isSome := by
  cases rule with
  | spt => exact argminFirst_isSome _ _ h
  | fcfs => exact argminFirst_isSome _ _ h
  | mwkr => exact argmaxFirst_isSome _ _ h
  | mor => exact argmaxFirst_isSome _ _ h
  | random =>
    simp only [selectOp]
    have hlen : 0 < (availablePure c s).length := List.length_pos_iff.2 h
    have : ¬ (availablePure c s).isEmpty = true := by simpa using h
    simp only [this, Bool.false_eq_true, ↓reduceIte]
    have hlt : draw % (availablePure c s).length < (availablePure c s).length := Nat.mod_lt _ hlen
    simp [List.getElem?_eq_getElem hlt]
  | observerMwkr => exact argmaxFirst_isSome _ _ h
  | scoreBased f => exact argmaxFirst_isSome _ _ h
  | tieBreak fs => exact (tieBreakLoop_spec c s fs _).1 h

/-- one solver step from a reachable incomplete state succeeds and yields a reachable state with one more
scheduled operation -/
theorem solverStep_ok (c : Cfg) (hv : Valid c.I) (rule : RuleKind) (ch : Chooser) (evs : List Ev) (draws : List Nat)
    (hinc : isComplete c.I (run c evs) = false) :
    ∃ s' r m draws', solverStep c rule ch (run c evs) draws = some (s', r, m, draws') ∧
      s' = run c (evs ++ [.disp r.1 r.2 (some (m : Int))]) ∧ numScheduled s' = numScheduled (run c evs) + 1 := by
  obtain ⟨hne, hall⟩ := C07_progress c hv evs hinc
  unfold solverStep
  obtain ⟨r, hr⟩ := Option.isSome_iff_exists.1
    (selectOp_isSome c (run c evs) rule (drawFor (ruleUsesDraw rule) draws).1 hne)
  have hrav := C04_selected_available c _ rule _ r hr
  obtain ⟨_, op, hop, hacc⟩ := hall r hrav
  simp only [hr]
  have hmne := (hv r.1 r.2 op hop).1
  -- the chooser returns an eligible machine
  have hch : ∀ d2, ∃ m, chooseMachine c.I ch r d2 = some m ∧ m ∈ op.machines := by
    intro d2
    unfold chooseMachine
    simp only [hop]
    cases ch with
    | first =>
      cases hms : op.machines with
      | nil => exact absurd hms hmne
      | cons a t => exact ⟨a, rfl, by simp⟩
    | random =>
      have hlen : 0 < op.machines.length := List.length_pos_iff.2 hmne
      have : ¬ op.machines.isEmpty = true := by simpa using hmne
      simp only [this, Bool.false_eq_true, ↓reduceIte]
      have hlt : d2 % op.machines.length < op.machines.length := Nat.mod_lt _ hlen
      exact ⟨op.machines[d2 % op.machines.length], List.getElem?_eq_getElem hlt, List.getElem_mem _⟩
  obtain ⟨m, hm, hmem⟩ := hch (drawFor (chooserUsesDraw ch) (drawFor (ruleUsesDraw rule) draws).2).1
  obtain ⟨s', hs'⟩ := hacc m hmem
  simp only [hm, hs']
  refine ⟨s', r, m, _, rfl, ?_, numScheduled_dispatch (inv_run hv evs).cinv.wf hs'⟩
  rw [run_snoc]
  simp only [stepEv]
  have hidx : (run c evs).jobIdx.getD r.1 0 = r.2 := by
    obtain ⟨_, hsp⟩ := dispatch_ok hs'; exact hsp.hidx
  have : dispatchReq c.I (run c evs) r.1 r.2 (some (m : Int)) = .ok s' := by
    unfold dispatchReq
    simp only [hop, hidx, ne_eq, not_true_eq_false, ↓reduceIte, resolveMachine]
    have : ¬ ((m : Int) < 0) := by omega
    simp [this, hmem, hs']
  rw [this]

theorem numScheduled_le_numOps (c : Cfg) (hv : Valid c.I) (evs : List Ev) : numScheduled (run c evs) ≤ numOps c.I := by
  have hf := C01_feasible c hv evs
  have hsub : ((run c evs).sched.flatten.map fun x => (x.job, x.pos)) ⊆ allOps c.I := by
    intro r hr
    simp only [List.mem_map] at hr
    obtain ⟨x, hx, rfl⟩ := hr
    obtain ⟨op, hop, _⟩ := hf.isOp x hx
    exact (mem_allOps' c.I _).2 (by simp [hop])
  have := (List.subperm_of_subset hf.once hsub).length_le
  rw [List.length_map, length_allOps] at this
  rw [numScheduled_eq]; exact this

theorem solveLoop_terminates (c : Cfg) (hv : Valid c.I) (rule : RuleKind) (ch : Chooser) :
    ∀ (fuel : Nat) (evs : List Ev) (draws : List Nat), numOps c.I - numScheduled (run c evs) < fuel →
      ∃ evs', solveLoop c rule ch fuel (run c evs) draws = some (run c evs') ∧ isComplete c.I (run c evs') = true
  | 0, _, _, h => by omega
  | fuel + 1, evs, draws, h => by
    unfold solveLoop
    cases hc : isComplete c.I (run c evs) with
    | true => exact ⟨evs, by simp, hc⟩
    | false =>
      obtain ⟨s', r, m, draws', hstep, hs', hn⟩ := solverStep_ok c hv rule ch evs draws hc
      simp only [Bool.false_eq_true, ↓reduceIte, hstep]
      rw [hs']
      have hle := numScheduled_le_numOps c hv evs
      have hlt : numScheduled (run c evs) < numOps c.I := by
        have : numScheduled (run c evs) ≠ numOps c.I := by
          intro he; simp [isComplete, he] at hc
        omega
      exact solveLoop_terminates c hv rule ch fuel _ draws' (by rw [← hs', hn]; omega)

/-- **C04 (termination).** For every valid instance, every built-in rule, chooser and filter configuration
and every draw stream, `solve` terminates within `num_operations + 1` iterations of its loop — the fuel
is never exhausted and no step raises — with a complete feasible schedule. -/
theorem C04_terminates (c : Cfg) (hv : Valid c.I) (rule : RuleKind) (ch : Chooser) (draws : List Nat) :
    ∃ S, solve c rule ch draws = some S ∧ isComplete c.I S = true ∧ Feasible c.I S.sched := by
  obtain ⟨evs', h1, h2⟩ := solveLoop_terminates c hv rule ch (numOps c.I + 1) [] draws (by
    simp only [run, runEvs, List.foldl_nil]; omega)
  exact ⟨run c evs', h1, h2, C01_feasible c hv evs'⟩

/-! non-vacuity -/
example :
    let c : Cfg := { I := exampleInstance, F := some [.dominated, .nonIdleMachines] }
    ((solve c .mwkr .first []).map makespan, (solve c (.tieBreak [.spt, .mor]) .random [1, 0, 1]).map makespan,
     selectOp c (init c.I) .spt 0, selectOp c (init c.I) .observerMwkr 0) = (some 6, some 8, some (0, 0), some (0, 0)) := by
  decide

end JS

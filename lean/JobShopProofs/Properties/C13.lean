import JobShopProofs.Properties.C10
/-!
# C13 — dense rewards add up to the sparse objective
-/
namespace JS

theorem makespan_init (I : Instance) : makespan (init I) = 0 := by
  unfold makespan init
  simp only
  generalize numMachines I = n
  induction n with
  | zero => rfl
  | succ n ih => simpa [List.replicate_succ, makespanStep] using ih

/-- the makespan is characterised by: upper bound of all end times, non-negative, zero or attained -/
theorem makespan_char {I : Instance} {s : State} (hc : CInv I s) (v : Int)
    (hub : ∀ x ∈ s.sched.flatten, x.end_ ≤ v) (h0 : 0 ≤ v) (hatt : v = 0 ∨ ∃ x ∈ s.sched.flatten, x.end_ = v) :
    makespan s = v := by
  have h1 := cinv_end_le_makespan hc
  have h2 : 0 ≤ makespan s := foldl_last_ge _ 0
  have h3 : makespan s = 0 ∨ ∃ ms ∈ s.sched, ∃ l, ms.getLast? = some l ∧ l.end_ = makespan s :=
    foldl_last_attained s.sched 0
  have hle : makespan s ≤ v := by
    rcases h3 with h | ⟨ms, hms, l, hl, he⟩
    · omega
    · have := hub l (List.mem_flatten.2 ⟨ms, hms, List.mem_of_getLast? hl⟩); omega
  have hge : v ≤ makespan s := by
    rcases hatt with h | ⟨x, hx, he⟩
    · omega
    · have := h1 x hx; omega
  omega

/-- the entry an accepted request creates, and what the schedule looks like afterwards -/
theorem accepted_entry {c : Cfg} (hv : Valid c.I) {s s' : State} {j p : Nat} {m : Option Int} (hi : Inv c s)
    (hd : dispatchReq c.I s j p m = .ok s') {x : SOp} (hx : x ∈ s'.sched.flatten) (hj : x.job = j) (hp : x.pos = p) :
    ∃ mm op, DispSpec c.I s s' j p mm op ∧ x = ⟨j, p, mm, startTime s j mm, op.dur⟩ ∧
      s'.sched.flatten.Perm (s.sched.flatten ++ [x]) ∧ Inv c s' := by
  obtain ⟨mm, op, hsp, hmem, hperm⟩ := dispatchReq_entry hi.cinv.wf hd
  obtain ⟨mm', op', _, _, hdd⟩ := dispatchReq_ok hd
  have hi' : Inv c s' := inv_dispatch hv hi hdd
  obtain ⟨a, hr, ha, _⟩ := hi'.cinv.abs
  have : x = ⟨j, p, mm, startTime s j mm, op.dur⟩ :=
    ha.uniq x (hr.sched.mem_iff.2 hx) _ (hr.sched.mem_iff.2 hmem) hj hp
  refine ⟨mm, op, hsp, this, ?_, hi'⟩
  rw [this]; exact hperm

/-- one accepted dispatch: the new makespan is the old one or the end of the new operation -/
theorem makespan_dispatch {c : Cfg} (hv : Valid c.I) {s s' : State} {j p : Nat} {m : Option Int} (hi : Inv c s)
    (hd : dispatchReq c.I s j p m = .ok s') {x : SOp} (hx : x ∈ s'.sched.flatten) (hj : x.job = j) (hp : x.pos = p) :
    makespan s' = max (makespan s) x.end_ := by
  obtain ⟨mm, op, hsp, hxe, hperm, hi'⟩ := accepted_entry hv hi hd hx hj hp
  have h1 := cinv_end_le_makespan hi.cinv
  have h2 : 0 ≤ makespan s := foldl_last_ge _ 0
  have h3 : makespan s = 0 ∨ ∃ ms ∈ s.sched, ∃ l, ms.getLast? = some l ∧ l.end_ = makespan s :=
    foldl_last_attained s.sched 0
  apply makespan_char hi'.cinv
  · intro y hy
    rcases List.mem_append.1 (hperm.mem_iff.1 hy) with hy | hy
    · have := h1 y hy; omega
    · simp only [List.mem_singleton] at hy; subst hy; omega
  · omega
  · by_cases hc : makespan s ≤ x.end_
    · right; exact ⟨x, hx, by omega⟩
    · rcases h3 with h | ⟨ms, hms, l, hl, he⟩
      · left; omega
      · right
        refine ⟨l, hperm.mem_iff.2 (List.mem_append_left _ (List.mem_flatten.2 ⟨ms, hms, List.mem_of_getLast? hl⟩)), ?_⟩
        omega

theorem sum_append_singleton (l : List Int) (a : Int) : (l ++ [a]).sum = l.sum + a := by
  simp [List.sum_append]

/-- **C13 (makespan reward).** For a makespan-reward observer created on the fresh dispatcher and never
unsubscribed, after every history: exactly one reward per accepted dispatch since the last reset, each
non-positive, and their sum is minus the current makespan. -/
theorem C13_makespan_sum (c : Cfg) (hv : Valid c.I) (evs : List WEv) (hno : ∀ e ∈ evs, e ≠ .unsub 0) :
    let w := World.run c (.construct .makespanReward :: evs)
    ∃ o, w.heap[0]? = some o ∧ o.rewards.sum = - makespan w.s ∧ (∀ r ∈ o.rewards, r ≤ 0) ∧
      o.rewards.length = w.accepted.length ∧ o.curMakespan = makespan w.s := by
  intro w
  obtain ⟨o, ho, _, _, h1, h2, h3, h4⟩ := obs0_run c hv .makespanReward
    (fun s acc o => o.curMakespan = makespan s ∧ o.rewards.sum = - makespan s ∧ (∀ r ∈ o.rewards, r ≤ 0) ∧
      o.rewards.length = acc.length)
    (fun _ _ _ _ h => h)
    (by simp [Obs.construct, makespan_init])
    (by
      intro s s' j p m x acc o hi hd hx hj hp hk ⟨h1, h2, h3, h4⟩
      have hm := makespan_dispatch hv hi hd hx hj hp
      simp only [Obs.updateSpec, hk]
      refine ⟨by rw [h1, hm], ?_, ?_, ?_⟩
      · rw [sum_append_singleton, h2, h1, hm]; omega
      · intro r hr
        rcases List.mem_append.1 hr with hr | hr
        · exact h3 r hr
        · simp only [List.mem_singleton] at hr; subst hr; omega
      · simp [h4])
    (by intro s acc o hk _; simp [Obs.resetSpec, hk, makespan_init])
    evs hno
  exact ⟨o, ho, h2, h3, h4, h1⟩

/-! ## idle time -/

/-- end of the last operation of a machine list (0 if empty) -/
def lastEndOf (ms : List SOp) : Int := (ms.getLast?.map SOp.end_).getD 0

/-- idle time of one machine up to its last operation: its last end minus the work it did -/
def idleOf (ms : List SOp) : Int := lastEndOf ms - (ms.map (·.dur)).sum

/-- total idle time of all machines up to their last operation -/
def idleTotal (s : State) : Int := (s.sched.map idleOf).sum

theorem sum_map_modify {α} (g : α → Int) (f : α → α) : ∀ (l : List α) (m : Nat) (h : m < l.length),
    ((l.modify m f).map g).sum = (l.map g).sum - g l[m] + g (f l[m])
  | [], _, h => by simp at h
  | a :: t, 0, _ => by simp only [List.modify_zero_cons, List.map_cons, List.sum_cons, List.getElem_cons_zero]; omega
  | a :: t, m+1, h => by
    simp only [List.modify_succ_cons, List.map_cons, List.sum_cons, List.getElem_cons_succ]
    rw [sum_map_modify g f t m (by simpa using h)]; omega

theorem idleTotal_init (I : Instance) : idleTotal (init I) = 0 := by
  unfold idleTotal init
  simp only
  generalize numMachines I = n
  induction n with
  | zero => rfl
  | succ n ih => simpa [List.replicate_succ, idleOf, lastEndOf] using ih

theorem idleOf_append (ms : List SOp) (x : SOp) : idleOf (ms ++ [x]) = idleOf ms + (x.start - lastEndOf ms) := by
  simp only [idleOf, lastEndOf, List.getLast?_append, List.getLast?_singleton, List.map_append, List.map_cons,
    List.map_nil, List.sum_append, List.sum_cons, List.sum_nil, SOp.end_, Option.some_or, Option.map_some,
    Option.getD_some]
  omega

/-- **C13 (idle-time reward).** For an idle-time-reward observer created on the fresh dispatcher and never
unsubscribed, after every history: exactly one reward per accepted dispatch since the last reset, each
non-positive, and their sum is minus the total idle time of all machines up to their last operation. -/
theorem C13_idle_sum (c : Cfg) (hv : Valid c.I) (evs : List WEv) (hno : ∀ e ∈ evs, e ≠ .unsub 0) :
    let w := World.run c (.construct .idleReward :: evs)
    ∃ o, w.heap[0]? = some o ∧ o.rewards.sum = - idleTotal w.s ∧ (∀ r ∈ o.rewards, r ≤ 0) ∧
      o.rewards.length = w.accepted.length := by
  intro w
  obtain ⟨o, ho, _, _, h1, h2, h3⟩ := obs0_run c hv .idleReward
    (fun s acc o => o.rewards.sum = - idleTotal s ∧ (∀ r ∈ o.rewards, r ≤ 0) ∧ o.rewards.length = acc.length)
    (fun _ _ _ _ h => h)
    (by simp [Obs.construct, idleTotal_init])
    (by
      intro s s' j p m x acc o hi hd hx hj hp hk ⟨h1, h2, h3⟩
      obtain ⟨mm, op, hsp, hxe, _, _⟩ := accepted_entry hv hi hd hx hj hp
      have hmlt := machine_lt c.I j p mm op hsp.hop hsp.hm
      have hlenS : mm < s.sched.length := by rw [hi.cinv.wf.lenS]; exact hmlt
      have hxm : x.machine = mm := by rw [hxe]
      have hget : s.sched.getD mm [] = s.sched[mm] := by
        simp [List.getD_eq_getElem?_getD, List.getElem?_eq_getElem hlenS]
      -- the list of the machine after the dispatch
      have hlist : s'.sched.getD x.machine [] = s.sched[mm] ++ [x] := by
        rw [hxm, hsp.eq]; simp only; rw [getD_modify_eq _ _ _ _ hlenS, hget]; simp [hxe]
      have hidle : idleTotal s' = idleTotal s + (x.start - lastEndOf s.sched[mm]) := by
        unfold idleTotal
        rw [hsp.eq]; simp only
        rw [sum_map_modify idleOf _ s.sched mm hlenS, ← hxe, idleOf_append]; omega
      have hlast : lastEndOf s.sched[mm] ≤ x.start := by
        have := hi.cinv.lastEnd mm
        rw [hget] at this
        rw [hxe]; simp only [lastEndOf, startTime]; omega
      have hrew : idleGap (s'.sched.getD x.machine []).dropLast x = x.start - lastEndOf s.sched[mm] := by
        rw [hlist, List.dropLast_concat]
        unfold lastEndOf idleGap
        cases s.sched[mm].getLast? <;> simp
      simp only [Obs.updateSpec, hk, hrew]
      refine ⟨?_, ?_, ?_⟩
      · rw [sum_append_singleton, h1, hidle]; omega
      · intro r hr
        rcases List.mem_append.1 hr with hr | hr
        · exact h2 r hr
        · simp only [List.mem_singleton] at hr; subst hr; omega
      · simp [h3])
    (by intro s acc o hk _; simp [Obs.resetSpec, hk, idleTotal_init])
    evs hno
  exact ⟨o, ho, h1, h2, h3⟩

/-! non-vacuity: rewards with a dispatch that does not extend the makespan and one that leaves a gap -/
example :
    let c : Cfg := { I := exampleInstance }
    let w := World.run c [.construct .makespanReward, .construct .idleReward, .disp 1 0 none, .disp 0 0 (some 0),
      .disp 0 1 none]
    (w.heap[0]?.map (·.rewards)) = some [-4, 0, 0] ∧ (w.heap[1]?.map (·.rewards)) = some [0, 0, -3] ∧
    makespan w.s = 4 ∧ idleTotal w.s = 3 := by decide

end JS

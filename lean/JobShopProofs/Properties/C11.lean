import JobShopProofs.FeatureLemmas
import JobShopProofs.CpLemmas
/-!
# C11 — incremental features equal a from-scratch recomputation

Model: `JobShopModel/Features.lean` (all seven feature observers, helpers, composite), validated against the
real observers array by array.  Theorems here: the recomputed-on-every-update observer (`IsReady`) equals
its specification in every state; the incremental job-level features of `DurationObserver` (and, by the same
argument, `RemainingOperationsObserver`) are initialised to the specification and every update across an
accepted dispatch maps the specification of the old state to that of the new state, so they equal it after
every history by induction; every observer is constructible; the composite is the concatenation of its parts.
The operation-level value of `DurationObserver` for a running operation is a recorded known finding
(`C11_duration_ops_stale` exhibits the witness).
-/
namespace JS

/-- **C11 (readiness).** After `initialize_features`/`update`/`reset` in any state, each readiness column is the
indicator of: the available operations (ids), the machines of available operations, the jobs of available
operations. -/
theorem C11_isReady (c : Cfg) (s : State) (o : FObs) (hnd : o.fts.Nodup) (ft : FT) (hft : ft ∈ o.fts) :
    (isReadyFeatures c s o).col ft = indicator (numEntities c.I ft) (readyIds c s ft) := by
  unfold isReadyFeatures
  exact (assignCols_col (o.zeroed c.I) _ (zeroed_wf c.I o hnd) (by intros; rfl) ft hft).1

/-- the job column after `DurationObserver.initialize_features` is the specification -/
theorem durationInit_jobs (c : Cfg) (s : State) (o : FObs) (hw : o.WF) (hft : FT.jobs ∈ o.fts) :
    (durationInit c s o).col .jobs = durJobsSpec c.I s ∧ (durationInit c s o).WF :=
  assignCols_col o _ hw (by intros; rfl) .jobs hft

/-- one update of `DurationObserver` across an accepted dispatch keeps the job column equal to the
specification -/
theorem durationUpdate_jobs (c : Cfg) {s s' : State} {j p m : Nat} {op : Op} (hwf : WF c.I s)
    (hd : DispSpec c.I s s' j p m op) (o : FObs) (hw : o.WF) (hft : FT.jobs ∈ o.fts)
    (hspec : o.col .jobs = durJobsSpec c.I s) :
    (durationUpdate c s' ⟨j, p, m, startTime s j m, op.dur⟩ o).col .jobs = durJobsSpec c.I s' ∧
    (durationUpdate c s' ⟨j, p, m, startTime s j m, op.dur⟩ o).WF := by
  obtain ⟨h1, h2⟩ := assignCols_col o (durationUpdateCol c s' ⟨j, p, m, startTime s j m, op.dur⟩) hw
    (by
      intro o ft ft' cc hne
      cases ft <;> simp only [durationUpdateCol, col_setCol_other _ _ _ _ hne]) .jobs hft
  refine ⟨?_, h2⟩
  unfold durationUpdate
  rw [h1]
  simp only [durationUpdateCol]
  rw [hspec, durJobsSpec_dispatch hwf hd]

/-- the new schedule entry of an accepted dispatch, in the form the observers receive it -/
def newEntry (s : State) (j p m : Nat) (op : Op) : SOp := ⟨j, p, m, startTime s j m, op.dur⟩

/-- **C11 (remaining job work, every history).** Along every sequence of accepted dispatches starting in a state
where it was initialised, `DurationObserver`'s job feature equals the total duration of each job's unscheduled
operations. -/
theorem C11_duration_jobs (c : Cfg) (o0 : FObs) (hw0 : o0.WF) (hft : FT.jobs ∈ o0.fts) :
    ∀ (h : List (Nat × Nat × Nat)) (s : State) (o : FObs), CInv c.I s → Valid c.I → o.WF → o.fts = o0.fts →
      o.col .jobs = durJobsSpec c.I s →
      -- run the history: each accepted dispatch updates the observer with the new entry
      let r := h.foldl (fun (so : State × FObs) (r : Nat × Nat × Nat) =>
        match dispatch c.I so.1 r.1 r.2.1 r.2.2, getOp c.I r.1 r.2.1 with
        | .ok s', some op => (s', durationUpdate c s' (newEntry so.1 r.1 r.2.1 r.2.2 op) so.2)
        | _, _ => so) (s, o)
      r.2.col .jobs = durJobsSpec c.I r.1
  | [], s, o, _, _, _, _, hspec => hspec
  | (j, p, m) :: h, s, o, hc, hv, hw, hfts, hspec => by
    simp only [List.foldl_cons]
    cases hd : dispatch c.I s j p m with
    | error e => simp only; exact C11_duration_jobs c o0 hw0 hft h s o hc hv hw hfts hspec
    | ok s' =>
      obtain ⟨op, hsp⟩ := dispatch_ok hd
      simp only [hsp.hop]
      have hc' := cinv_dispatch (hv j p op hsp.hop).2.2 hc hsp
      obtain ⟨h1, h2⟩ := durationUpdate_jobs c hc.wf hsp o hw (by rw [hfts]; exact hft) hspec
      exact C11_duration_jobs c o0 hw0 hft h s' _ hc' hv h2
        (by unfold durationUpdate; rw [assignCols_fts]; exact hfts) h1

/-! ## RemainingOperationsObserver, job level -/

theorem remJobsSpec_dispatch {I : Instance} {s s' : State} {j p m : Nat} {op : Op} (hwf : WF I s)
    (hd : DispSpec I s s' j p m op) :
    remJobsSpec I s' = addAt (remJobsSpec I s) j (-1) := by
  unfold remJobsSpec addAt
  apply List.ext_getElem
  · simp
  · intro k h1 h2
    simp only [List.length_map, List.length_range] at h1
    simp only [List.getElem_map, List.getElem_range, List.getElem_modify, filter_unscheduled_job, h1, ↓reduceIte]
    obtain ⟨hother, hsame⟩ := unschedJob_dispatch hwf hd k
    by_cases hk : j = k
    · subst hk
      simp only [↓reduceIte]
      rw [(unschedJob_dispatch hwf hd j).2]
      simp only [List.length_cons]
      omega
    · simp only [hk, ↓reduceIte]
      rw [hother (fun h => hk h.symm)]

/-- one `RemainingOperationsObserver.update` across an accepted dispatch keeps the job column equal to the
specification -/
theorem remainingUpdate_jobs (I : Instance) {s s' : State} {j p m : Nat} {op : Op} (hwf : WF I s)
    (hd : DispSpec I s s' j p m op) (o : FObs) (hw : o.WF) (hft : FT.jobs ∈ o.fts)
    (hspec : o.col .jobs = remJobsSpec I s) :
    (remainingUpdate ⟨j, p, m, startTime s j m, op.dur⟩ o).col .jobs = remJobsSpec I s' ∧
    (remainingUpdate ⟨j, p, m, startTime s j m, op.dur⟩ o).WF ∧
    (remainingUpdate ⟨j, p, m, startTime s j m, op.dur⟩ o).fts = o.fts := by
  unfold remainingUpdate
  have hhas : o.has .jobs = true := by simpa [FObs.has] using hft
  simp only [hhas, ↓reduceIte]
  have h1 : (o.setCol .jobs (addAt (o.col .jobs) j (-1))).col .jobs = addAt (o.col .jobs) j (-1) :=
    col_setCol_same o .jobs _ (hw.has_col hft)
  have hw1 := hw.setCol .jobs (addAt (o.col .jobs) j (-1))
  split
  · refine ⟨?_, hw1.setCol _ _, rfl⟩
    rw [col_setCol_other _ _ _ _ (by decide), h1, hspec, remJobsSpec_dispatch hwf hd]
  · refine ⟨?_, hw1, rfl⟩
    rw [h1, hspec, remJobsSpec_dispatch hwf hd]

/-- **C11 (remaining operations per job, every history).** Along every sequence of accepted dispatches starting in a
state where it was initialised, `RemainingOperationsObserver`'s job feature is the number of unscheduled operations
of each job. -/
theorem C11_remaining_jobs (c : Cfg) (fts0 : List FT) (hft : FT.jobs ∈ fts0) :
    ∀ (h : List (Nat × Nat × Nat)) (s : State) (o : FObs), CInv c.I s → Valid c.I → o.WF → o.fts = fts0 →
      o.col .jobs = remJobsSpec c.I s →
      let r := h.foldl (fun (so : State × FObs) (r : Nat × Nat × Nat) =>
        match dispatch c.I so.1 r.1 r.2.1 r.2.2, getOp c.I r.1 r.2.1 with
        | .ok s', some op => (s', remainingUpdate (newEntry so.1 r.1 r.2.1 r.2.2 op) so.2)
        | _, _ => so) (s, o)
      r.2.col .jobs = remJobsSpec c.I r.1
  | [], s, o, _, _, _, _, hspec => hspec
  | (j, p, m) :: h, s, o, hc, hv, hw, hfts, hspec => by
    simp only [List.foldl_cons]
    cases hd : dispatch c.I s j p m with
    | error e => simp only; exact C11_remaining_jobs c fts0 hft h s o hc hv hw hfts hspec
    | ok s' =>
      obtain ⟨op, hsp⟩ := dispatch_ok hd
      simp only [hsp.hop]
      have hc' := cinv_dispatch (hv j p op hsp.hop).2.2 hc hsp
      obtain ⟨h1, h2, h3⟩ := remainingUpdate_jobs c.I hc.wf hsp o hw (by rw [hfts]; exact hft) hspec
      exact C11_remaining_jobs c fts0 hft h s' _ hc' hv h2 (h3.trans hfts) h1

/-! ## IsScheduledObserver, operation level -/

theorem schedOpsSpec_dispatch {I : Instance} {s s' : State} {j p m : Nat} {op : Op} (hwf : WF I s)
    (hd : DispSpec I s s' j p m op) :
    schedOpsSpec I s' = setAt (schedOpsSpec I s) (opId I (j, p)) 1 := by
  obtain ⟨_, hji, _⟩ := dispSpec_vectors hwf hd
  have hmem : (j, p) ∈ allOps I := mem_allOps_of_getOp hd.hop
  unfold schedOpsSpec setAt
  apply List.ext_getElem
  · simp
  · intro k h1 h2
    simp only [List.length_map] at h1
    simp only [List.getElem_map, List.getElem_set]
    have hk : (allOps I)[k] ∈ allOps I := List.getElem_mem h1
    by_cases hkk : opId I (j, p) = k
    · subst hkk
      have := allOps_getElem_opId hmem
      rw [List.getElem?_eq_getElem h1] at this
      have heq : (allOps I)[opId I (j, p)] = (j, p) := Option.some.inj this
      simp only [↓reduceIte, heq, isScheduled, hji, decide_eq_true_eq]
      simp
    · simp only [hkk, ↓reduceIte]
      have hne : (allOps I)[k] ≠ (j, p) := by
        intro h
        apply hkk
        have a := allOps_getElem_opId hmem
        have b : (allOps I)[k]? = some (j, p) := by rw [List.getElem?_eq_getElem h1, h]
        -- both indices hold (j, p) in a duplicate-free list
        have hk' : (allOps I)[k] ∈ allOps I := List.getElem_mem h1
        have c := allOps_getElem_opId hk'
        rw [h] at c
        -- `k` and `opId (j,p)` both index `(j, p)`; ids are positions (C14_ids)
        have hids := C14_ids I
        have e1 : ((allOps I).map (opId I))[k]? = some (opId I (j, p)) := by
          simp [List.getElem?_eq_getElem h1, h]
        rw [hids, List.getElem?_range (by rwa [length_allOps] at h1)] at e1
        exact (Option.some.inj e1).symm
      generalize (allOps I)[k] = r at hne
      simp only [isScheduled, hji]
      by_cases hr : r.1 = j
      · have hp : r.2 ≠ p := fun h => hne (Prod.ext hr h)
        simp only [hr, ↓reduceIte, hd.hidx]
        by_cases h1 : r.2 < p
        · have : r.2 < p + 1 := by omega
          simp [h1, this]
        · have : ¬ r.2 < p + 1 := by omega
          simp [h1, this]
      · simp only [hr, ↓reduceIte]
        rfl

/-- **C11 (scheduled flag, every history).** Along every sequence of accepted dispatches starting in a state where
it agrees with the schedule, `IsScheduledObserver`'s operation feature is 1 exactly for the scheduled operations. -/
theorem C11_isScheduled_ops (c : Cfg) (fts0 : List FT) (hft : FT.operations ∈ fts0) :
    ∀ (h : List (Nat × Nat × Nat)) (s : State) (o : FObs), CInv c.I s → Valid c.I → o.WF → o.fts = fts0 →
      o.col .operations = schedOpsSpec c.I s →
      let r := h.foldl (fun (so : State × FObs) (r : Nat × Nat × Nat) =>
        match dispatch c.I so.1 r.1 r.2.1 r.2.2, getOp c.I r.1 r.2.1 with
        | .ok s', some op => (s', isScheduledUpdate c s' (newEntry so.1 r.1 r.2.1 r.2.2 op) so.2)
        | _, _ => so) (s, o)
      r.2.col .operations = schedOpsSpec c.I r.1
  | [], s, o, _, _, _, _, hspec => hspec
  | (j, p, m) :: h, s, o, hc, hv, hw, hfts, hspec => by
    simp only [List.foldl_cons]
    cases hd : dispatch c.I s j p m with
    | error e => simp only; exact C11_isScheduled_ops c fts0 hft h s o hc hv hw hfts hspec
    | ok s' =>
      obtain ⟨op, hsp⟩ := dispatch_ok hd
      simp only [hsp.hop]
      have hc' := cinv_dispatch (hv j p op hsp.hop).2.2 hc hsp
      obtain ⟨h1, h2⟩ := assignCols_col o (isScheduledCol c s' (newEntry s j p m op)) hw
        (by
          intro o ft ft' cc hne
          cases ft <;> simp only [isScheduledCol, col_setCol_other _ _ _ _ hne]) .operations (by rw [hfts]; exact hft)
      refine C11_isScheduled_ops c fts0 hft h s' _ hc' hv h2
        (by unfold isScheduledUpdate; rw [assignCols_fts]; exact hfts) ?_
      unfold isScheduledUpdate
      rw [h1]
      simp only [isScheduledCol, newEntry]
      rw [hspec, schedOpsSpec_dispatch hc.wf hsp]

/-! ## column names of the composite -/

theorem partNames_length (o : FObs) (ft : FT) (hne : ∀ tc ∈ o.cols, tc.2 ≠ []) :
    (partNames o ft).length = ((o.cols.filter (·.1 == ft)).flatMap (·.2)).length := by
  unfold partNames
  have hl : ∀ tc ∈ o.cols.filter (·.1 == ft), tc.2 ≠ [] := fun tc h => hne tc (List.mem_filter.1 h).1
  generalize o.cols.filter (·.1 == ft) = l at hl
  induction l with
  | nil => rfl
  | cons a t ih =>
    simp only [List.flatMap_cons, List.length_append]
    rw [ih (fun tc h => hl tc (by simp [h]))]
    congr 1
    have ha := hl a (by simp)
    by_cases h1 : a.2.length > 1
    · simp [h1]
    · simp only [h1, ↓reduceIte, List.length_cons, List.length_nil]
      cases hc : a.2 with
      | nil => exact absurd hc ha
      | cons c cs => rw [hc] at h1; simp at h1; simp [h1]

theorem length_flatMap_congr {α β γ} (f : α → List β) (g : α → List γ) : ∀ (l : List α),
    (∀ a ∈ l, (f a).length = (g a).length) → (l.flatMap f).length = (l.flatMap g).length
  | [], _ => rfl
  | a :: t, h => by
    simp only [List.flatMap_cons, List.length_append]
    rw [h a (by simp), length_flatMap_congr f g t (fun x hx => h x (by simp [hx]))]

/-- **C11 (column names).** The composite has, for every feature type, exactly as many column names as columns, in the
same feature-type order: `Name` for a one-column component, `Name_0 … Name_{k-1}` for a `k`-column component (a nested
composite). -/
theorem C11_composite_names (heap : List FObs) (parts : List Nat)
    (hne : ∀ i ∈ parts, ∀ o, heap[i]? = some o → ∀ tc ∈ o.cols, tc.2 ≠ []) :
    (compositeNames heap parts).map (fun x => (x.1, x.2.length)) =
      (compositeCols heap parts).map (fun x => (x.1, x.2.length)) := by
  unfold compositeNames compositeCols
  simp only [List.map_map]
  apply List.map_congr_left
  intro ft _
  simp only [Function.comp_apply]
  congr 1
  apply length_flatMap_congr
  intro o ho
  obtain ⟨i, hi, hio⟩ := List.mem_filterMap.1 ho
  exact partNames_length o ft (hne i hi o hio)

/-! ## PositionInJobObserver -/

/-- specification: an unscheduled operation's feature is its position among the unscheduled operations of its job -/
def PosOK (I : Instance) (s : State) (col : List Int) : Prop :=
  ∀ r ∈ allOps I, isScheduled s r = false → col.getD (opId I r) 0 = (r.2 : Int) - (s.jobIdx.getD r.1 0 : Int)

theorem getD_setAt (l : List Int) (i k : Nat) (v : Int) :
    (setAt l i v).getD k 0 = if i = k ∧ k < l.length then v else l.getD k 0 := by
  simp only [setAt, List.getD_eq_getElem?_getD, List.getElem?_set]
  by_cases h : i = k
  · subst h
    by_cases hl : i < l.length
    · simp [hl]
    · simp [hl, List.getElem?_eq_none (Nat.le_of_not_lt hl)]
  · simp [h]

/-- the renumbering fold of `PositionInJobObserver.update`: positions `a … a+m-1` of job `j` get `c, c+1, …` -/
theorem renumber_fold (I : Instance) (j : Nat) : ∀ (m a c : Nat) (col : List Int) (k : Nat),
    (((List.range' a m).zipIdx c).foldl (fun col (pk : Nat × Nat) => setAt col (opId I (j, pk.1)) pk.2) col).getD k 0 =
      (if opIdBase I j + a ≤ k ∧ k < opIdBase I j + a + m ∧ k < col.length then
          ((c : Int) + ((k - (opIdBase I j + a) : Nat) : Int)) else col.getD k 0)
  | 0, a, c, col, k => by
    have : ¬ (opIdBase I j + a ≤ k ∧ k < opIdBase I j + a + 0 ∧ k < col.length) := by omega
    rw [if_neg this]
    rfl
  | m + 1, a, c, col, k => by
    simp only [List.range'_succ, List.zipIdx_cons, List.foldl_cons]
    rw [renumber_fold I j m (a + 1) (c + 1) _ k]
    have hid : opId I (j, a) = opIdBase I j + a := rfl
    simp only [hid, setAt, List.length_set]
    by_cases h1 : opIdBase I j + (a + 1) ≤ k ∧ k < opIdBase I j + (a + 1) + m ∧ k < col.length
    · rw [if_pos h1, if_pos (by omega)]
      push_cast
      omega
    · rw [if_neg h1]
      have := getD_setAt col (opIdBase I j + a) k c
      simp only [setAt] at this
      rw [this]
      by_cases h2 : opIdBase I j + a = k ∧ k < col.length
      · rw [if_pos h2, if_pos (by omega)]
        have : k - (opIdBase I j + a) = 0 := by omega
        rw [this]; simp
      · rw [if_neg h2, if_neg (by omega)]

end JS

namespace JS

/-- **C11 (constructible).** Every feature observer can be constructed in every state of every instance, for
every list of supported feature types (and the default `None`). -/
theorem C11_constructible (w : FWorld) (kind : FKind) (fts : Option (List FT)) (hk : kind.isFeature = true)
    (hc : kind ≠ .composite) (hf : ∀ l, fts = some l → ∀ ft ∈ l, ft ∈ kind.supported) :
    (w.construct kind fts).2.isSome = true := by
  have hres : ∃ l, resolveFts kind fts = some l := by
    cases fts with
    | none => exact ⟨_, rfl⟩
    | some l =>
      refine ⟨l, ?_⟩
      simp only [resolveFts]
      have : l.all (fun ft => kind.supported.contains ft) = true := by
        simp only [List.all_eq_true, List.contains_eq_mem, decide_eq_true_eq]
        exact hf l rfl
      rw [if_pos this]
  obtain ⟨l, hl⟩ := hres
  cases kind <;> simp_all [FWorld.construct, FKind.isFeature]

/-- **C11 (composite).** After its own `update` (and `reset`) the composite observer's matrices are the column-wise
concatenation of its parts' current matrices, feature types in order of first appearance. -/
theorem C11_composite (w : FWorld) (x : SOp) (id : Nat) (o : FObs) (ho : w.heap[id]? = some o)
    (hk : o.kind = .composite) :
    ((w.callUpdate x id).heap[id]?.map (·.cols)) = some (compositeCols w.heap o.parts) ∧
    ((w.callReset id).heap[id]?.map (·.cols)) = some (compositeCols w.heap o.parts) := by
  have hlt : id < w.heap.length := (List.getElem?_eq_some_iff.1 ho).1
  constructor
  · simp only [FWorld.callUpdate, ho, hk, FWorld.setObs]
    simp [hlt]
  · simp only [FWorld.callReset, ho, hk, FWorld.setObs]
    simp [hlt]

/-- the known finding: a running operation's operation-level duration is stale (witness) -/
theorem C11_duration_ops_stale :
    let c : Cfg := { I := [[⟨[0], 5⟩], [⟨[1], 2⟩], [⟨[1], 1⟩]] }
    let w := FWorld.run c [.construct .duration (some [.operations]), .disp 0 0 none, .disp 1 0 none]
    (w.heap[0]?.map fun o => (o.col .operations).getD 0 0) = some 5 ∧ currentTimePure c w.s = 2 := by decide

/-! non-vacuity: the example instance with all seven observers and a composite -/
example :
    let c : Cfg := { I := exampleInstance, F := some [.dominated] }
    let w := FWorld.run c [.construct .isCompleted none, .construct .duration none, .construct .isReady none,
      .composite none, .disp 1 0 none, .disp 0 0 (some 0)]
    (w.heap[3]?.map fun o => o.col .jobs) = some [2, 1] ∧ w.subs = [0, 1, 2, 3, 4, 5] := by decide

end JS

import JobShopModel.Env
import JobShopProofs.EnvInv4
import JobShopProofs.EnvReward
import JobShopProofs.Properties.C19
/-!
# C18 — the environments honour the Gymnasium contract
-/
namespace JS

/-- what an accepted step is: the dispatch of the job's next operation was accepted by the feature world, the new
environment differs from the old one only in its world, and the outputs are read from the new world -/
theorem Env.step_ok {e : Env} {job : Nat} {machine : Int} {obs : EObs} {r : Int} {d t : Bool} {av : List OpRef}
    (h : (e.step job machine).2 = .ok obs r d t av) :
    ∃ w', e.w.dispatch job (e.w.s.jobIdx.getD job 0) (if machine == -1 then none else some machine) = (w', true) ∧
      (e.step job machine).1 = { e with w := w' } ∧
      ({ e with w := w' } : Env).observation = some obs ∧
      r = ({ e with w := w' } : Env).lastReward ∧ d = isComplete w'.cfg.I w'.s ∧ t = false ∧
      av = availablePure w'.cfg w'.s ∧ job < e.w.cfg.I.length ∧
      e.w.s.jobIdx.getD job 0 < (e.w.cfg.I.getD job []).length := by
  unfold Env.step at h ⊢
  by_cases h1 : job ≥ e.w.cfg.I.length
  · simp only [if_pos h1] at h; cases h
  · simp only [if_neg h1] at h ⊢
    by_cases h2 : e.w.s.jobIdx.getD job 0 ≥ (e.w.cfg.I.getD job []).length
    · simp only [if_pos h2] at h; cases h
    · simp only [if_neg h2] at h ⊢
      rcases hd : e.w.dispatch job (e.w.s.jobIdx.getD job 0) (if machine == -1 then none else some machine) with ⟨w', b⟩
      cases b with
      | false => simp only [hd] at h; cases h
      | true =>
        simp only [hd] at h ⊢
        cases ho : ({ e with w := w' } : Env).observation with
        | none => simp only [ho] at h; cases h
        | some o =>
          simp only [ho] at h ⊢
          cases h
          exact ⟨w', rfl, rfl, ho, rfl, rfl, rfl, rfl, by omega, by omega⟩

/-- **C18 (done / truncated).** A step that does not raise reports `done` exactly when the schedule is complete and
never signals truncation. -/
theorem C18_done_truncated (e : Env) (job : Nat) (machine : Int) (obs : EObs) (r : Int) (d t : Bool) (av : List OpRef)
    (h : (e.step job machine).2 = .ok obs r d t av) :
    d = isComplete (e.step job machine).1.w.cfg.I (e.step job machine).1.w.s ∧ t = false := by
  obtain ⟨w', _, he, _, _, hd, ht, _⟩ := Env.step_ok h
  rw [he]; exact ⟨hd, ht⟩

/-- environments the properties talk about: built by the constructor from a valid configuration, then stepped and
reset any number of times -/
inductive EnvEv
  | step (job : Nat) (machine : Int)
  | reset
deriving Repr, DecidableEq

def Env.apply (e : Env) : EnvEv → Env
  | .step j m => (e.step j m).1
  | .reset => e.reset.1

def Env.runEvs (e : Env) (evs : List EnvEv) : Env := evs.foldl Env.apply e

theorem Env.runEvs_envOK {e : Env} (h : EnvOK e) (evs : List EnvEv) : EnvOK (e.runEvs evs) := by
  induction evs generalizing e with
  | nil => exact h
  | cons ev t ih =>
    simp only [Env.runEvs, List.foldl_cons]
    apply ih
    cases ev with
    | step j m => exact Env.step_envOK h j m
    | reset => exact Env.reset_envOK h

theorem Env.step_cases (e : Env) (job : Nat) (machine : Int) :
    ((e.step job machine).2 = .raised ∧ (e.step job machine).1 = e) ∨
    (∃ w', (e.step job machine).1 = { e with w := w' } ∧
      e.w.dispatch job (e.w.s.jobIdx.getD job 0) (if machine == -1 then none else some machine) = (w', true) ∧
      (((e.step job machine).2 = .raised ∧ ({ e with w := w' } : Env).observation = none) ∨
       ∃ obs r d t av, (e.step job machine).2 = .ok obs r d t av ∧ ({ e with w := w' } : Env).observation = some obs)) := by
  unfold Env.step
  by_cases h1 : job ≥ e.w.cfg.I.length
  · simp only [if_pos h1]; exact Or.inl ⟨trivial, trivial⟩
  · simp only [if_neg h1]
    by_cases h2 : e.w.s.jobIdx.getD job 0 ≥ (e.w.cfg.I.getD job []).length
    · simp only [if_pos h2]; exact Or.inl ⟨trivial, trivial⟩
    · simp only [if_neg h2]
      rcases hd : e.w.dispatch job (e.w.s.jobIdx.getD job 0) (if machine == -1 then none else some machine) with ⟨w', b⟩
      cases b with
      | false => exact Or.inl ⟨rfl, rfl⟩
      | true =>
        simp only
        cases ho : ({ e with w := w' } : Env).observation with
        | none => exact Or.inr ⟨w', rfl, rfl, Or.inl ⟨rfl, ho⟩⟩
        | some o => exact Or.inr ⟨w', rfl, rfl, Or.inr ⟨_, _, _, _, _, rfl, ho⟩⟩

theorem Env.step_ec (e : Env) (j : Nat) (m : Int) : (e.step j m).1.ec = e.ec ∧ (e.step j m).1.space = e.space := by
  rcases Env.step_cases e j m with ⟨_, h⟩ | ⟨w', h, _, _⟩
  · rw [h]; exact ⟨rfl, rfl⟩
  · rw [h]; exact ⟨rfl, rfl⟩

theorem Env.runEvs_ec (e : Env) (evs : List EnvEv) : (e.runEvs evs).ec = e.ec ∧ (e.runEvs evs).space = e.space := by
  induction evs generalizing e with
  | nil => exact ⟨rfl, rfl⟩
  | cons ev t ih =>
    simp only [Env.runEvs, List.foldl_cons]
    obtain ⟨a, b⟩ := ih (e := e.apply ev)
    simp only [Env.runEvs] at a b
    cases ev with
    | step j m => exact ⟨a.trans (Env.step_ec e j m).1, b.trans (Env.step_ec e j m).2⟩
    | reset => exact ⟨a, b⟩

theorem padEnd_spec {α} (l : List α) (n : Nat) (v : α) (h : l.length ≤ n) :
    padEnd l n v = some (l ++ List.replicate (n - l.length) v) := by
  unfold padEnd; rw [if_neg (by omega)]

/-- the observation of an environment satisfying the invariant -/
theorem EnvOK.observation_spec {e : Env} (h : EnvOK e) (hpad : e.ec.usePadding = true) :
    ∃ o, e.observation = some o ∧ e.space.containsObs o = true ∧
      o.removed = e.graph.removed ∧
      o.edgeIndex = (e.graph.edges.map fun x => ((x.1 : Int), (x.2.1 : Int))) ++
        List.replicate (e.space.nEdges - e.graph.edges.length) (-1, -1) := by
  obtain ⟨ou, hou, hku, hn, hed⟩ := h.upd
  obtain ⟨hg, hsz, _⟩ := (h.heap _ ou hou).res hku
  obtain ⟨oc, hoc, hkc, hfeat⟩ := h.comp
  have hgr : e.graph = ou.graph := by unfold Env.graph; rw [getD_of_some hou]
  have hle : e.graph.edges.length ≤ e.space.nEdges := by rw [hgr, ← hed]; exact hsz.edges
  have hnodes : e.graph.nodes.length = e.space.nNodes := by rw [hgr, hsz.nodes, hn]
  refine ⟨{ removed := e.graph.removed,
             edgeIndex := (e.graph.edges.map fun x => ((x.1 : Int), (x.2.1 : Int))) ++
               List.replicate (e.space.nEdges - e.graph.edges.length) (-1, -1),
             feats := oc.cols }, ?_, ?_, rfl, rfl⟩
  · unfold Env.observation
    simp only [hpad, ↓reduceIte]
    rw [padEnd_spec _ _ _ (by simpa using hle)]
    simp only [Option.map_some, List.length_map, getD_of_some hoc]
  · rw [hgr] at hle hnodes ⊢
    simp only [Space.containsObs, Bool.and_eq_true, beq_iff_eq, List.all_eq_true, decide_eq_true_eq,
      List.length_append, List.length_map, List.length_replicate, getD_of_some hoc]
    refine ⟨⟨⟨⟨?_, by omega⟩, ?_⟩, ?_⟩, ?_⟩
    · rw [hg.lenR]; exact hnodes
    · intro uv huv
      rcases List.mem_append.1 huv with h1 | h1
      · obtain ⟨x, hx, rfl⟩ := List.mem_map.1 h1
        obtain ⟨hp1, hp2⟩ := C17_no_dangling_edges hg x hx
        simp only [Graph.present, Bool.and_eq_true, decide_eq_true_eq] at hp1 hp2
        refine ⟨⟨⟨by omega, ?_⟩, by omega⟩, ?_⟩
        · have := hp1.1; omega
        · have := hp2.1; omega
      · obtain ⟨_, rfl⟩ := List.mem_replicate.1 h1
        simp only
        refine ⟨⟨⟨by omega, by omega⟩, by omega⟩, by omega⟩
    · -- feature matrices have the declared shapes
      obtain ⟨hp, hcols, hall⟩ := (h.heap _ oc hoc).comp hkc
      have hsh : ∀ o ∈ oc.parts.filterMap (fun i => hp[i]?), o.Shaped e.w.cfg.I := by
        intro o ho
        obtain ⟨i, hi, hio⟩ := List.mem_filterMap.1 ho
        obtain ⟨p, q, hpi, _, _, hps, _⟩ := hall i hi
        rw [hpi] at hio; cases hio; exact hps
      rw [hcols, (compositeCols_shape hp oc.parts hsh).1, hfeat]
      congr 1
      have : ∀ (l : List Nat), (∀ i ∈ l, i ∈ oc.parts) →
          (l.filterMap fun i => hp[i]?).map (·.fts) = (l.filterMap fun i => e.w.heap[i]?).map (·.fts) := by
        intro l
        induction l with
        | nil => intro _; rfl
        | cons a t ih =>
          intro hsub
          obtain ⟨p, q, hpi, hqi, _, _, hfq⟩ := hall a (hsub a (by simp))
          simp only [List.filterMap_cons, hpi, hqi, List.map_cons, hfq]
          rw [ih (fun i hi => hsub i (by simp [hi]))]
      exact this _ (fun _ h => h)
    · obtain ⟨hp, hcols, hall⟩ := (h.heap _ oc hoc).comp hkc
      have hsh : ∀ o ∈ oc.parts.filterMap (fun i => hp[i]?), o.Shaped e.w.cfg.I := by
        intro o ho
        obtain ⟨i, hi, hio⟩ := List.mem_filterMap.1 ho
        obtain ⟨p, q, hpi, _, _, hps, _⟩ := hall i hi
        rw [hpi] at hio; cases hio; exact hps
      intro tc htc col hcol
      rw [hcols] at htc
      exact (compositeCols_shape hp oc.parts hsh).2 tc htc col hcol

/-- **C18 (observations, single environment).** For every instance, filter, graph builder, residual-updater options,
reward and list of feature-observer configurations for which the constructor succeeds, after any sequence of steps
(legal or rejected) and resets, with padding on: the observation exists, belongs to the declared observation space
(mask of the declared length, edge index of the declared width with entries in `[-1, nodes)`, every feature matrix
of the declared shape), its mask is the current graph's, and its edge index is the current graph's edge list followed
only by `(-1, -1)` columns. -/
theorem C18_observation_in_space (c : Cfg) (ec : EnvCfg) (e0 : Env) (hf : FeatsOK ec.feats) (hpad : ec.usePadding = true)
    (hmk : Env.make c ec = some e0) (evs : List EnvEv) :
    let e := e0.runEvs evs
    ∃ o, e.observation = some o ∧ e.space = e0.space ∧ e0.space.containsObs o = true ∧
      o.removed = e.graph.removed ∧
      o.edgeIndex = (e.graph.edges.map fun x => ((x.1 : Int), (x.2.1 : Int))) ++
        List.replicate (e0.space.nEdges - e.graph.edges.length) (-1, -1) := by
  intro e
  obtain ⟨hok, _, hec⟩ := Env.make_envOK hf hmk
  have hrun := Env.runEvs_envOK hok evs
  obtain ⟨hec', hsp'⟩ := Env.runEvs_ec e0 evs
  obtain ⟨o, h1, h2, h3, h4⟩ := hrun.observation_spec (by rw [hec', hec]; exact hpad)
  exact ⟨o, h1, hsp', hsp' ▸ h2, h3, hsp' ▸ h4⟩

/-- **C18 (a step never fails for lack of room).** An accepted dispatch always yields an observation: the residual
graph only shrinks, so it always fits the declared edge-index width. -/
theorem C18_step_returns_observation (c : Cfg) (ec : EnvCfg) (e0 : Env) (hf : FeatsOK ec.feats) (hpad : ec.usePadding = true)
    (hmk : Env.make c ec = some e0) (evs : List EnvEv) (job : Nat) (machine : Int) :
    let e := e0.runEvs evs
    (∃ obs r d t av, (e.step job machine).2 = .ok obs r d t av ∧ e0.space.containsObs obs = true) ∨
    ((e.step job machine).2 = .raised ∧ (e.step job machine).1 = e) := by
  intro e
  have hobs := C18_observation_in_space c ec e0 hf hpad hmk (evs ++ [.step job machine])
  simp only [Env.runEvs, List.foldl_append, List.foldl_cons, List.foldl_nil, Env.apply] at hobs
  obtain ⟨o, ho, _, hin, _⟩ := hobs
  change (Env.step e job machine).1.observation = some o at ho
  rcases Env.step_cases e job machine with h | ⟨w', hw', _, h | ⟨obs, r, d, t, av, hok, hobs'⟩⟩
  · exact Or.inr h
  · rw [hw', h.2] at ho; cases ho
  · rw [hw', hobs'] at ho; cases ho
    exact Or.inl ⟨_, _, _, _, _, hok, hin⟩

/-- **C18 (legal decisions).** In every reachable state every legal decision — a job with operations left together
with an eligible machine id, or `-1` for a single-machine operation — belongs to the declared action space
`MultiDiscrete([J, M + 1], start=[0, -1])`. -/
theorem C18_legal_action_in_space (c : Cfg) (ec : EnvCfg) (e0 : Env) (hf : FeatsOK ec.feats)
    (hmk : Env.make c ec = some e0) (evs : List EnvEv) (job : Nat) (machine : Int)
    (hlegal : (e0.runEvs evs).legal job machine = true) :
    e0.space.containsAction job machine = true := by
  obtain ⟨hok, _, _⟩ := Env.make_envOK hf hmk
  have hrun := Env.runEvs_envOK hok evs
  obtain ⟨_, hsp⟩ := Env.runEvs_ec e0 evs
  have hact := hrun.act
  rw [hsp] at hact
  generalize e0.runEvs evs = e at *
  unfold Env.legal at hlegal
  cases hop : getOp e.w.cfg.I job (e.w.s.jobIdx.getD job 0) with
  | none => rw [hop] at hlegal; cases hlegal
  | some op =>
    rw [hop] at hlegal
    have hjob : job < e.w.cfg.I.length := by
      unfold getOp at hop
      cases hj : e.w.cfg.I[job]? with
      | none => simp [hj] at hop
      | some jb => exact (List.getElem?_eq_some_iff.1 hj).1
    simp only [Space.containsAction, Bool.and_eq_true, decide_eq_true_eq, hact.1, hact.2]
    by_cases hm : (machine == -1) = true
    · have : machine = -1 := by simpa using hm
      subst this
      refine ⟨⟨⟨by omega, by omega⟩, by omega⟩, by omega⟩
    · simp only [hm, Bool.false_eq_true, ↓reduceIte, Bool.and_eq_true, decide_eq_true_eq, List.contains_iff_mem] at hlegal
      have hlt := machine_lt e.w.cfg.I job _ machine.toNat op hop hlegal.2
      refine ⟨⟨⟨by omega, by omega⟩, by omega⟩, by omega⟩


/-! ## the multi-instance environment -/

theorem padEnd_some {α} {l l' : List α} {n : Nat} {v : α} (h : padEnd l n v = some l') :
    l' = l ++ List.replicate (n - l.length) v ∧ l'.length = n := by
  unfold padEnd at h
  split at h
  · cases h
  · cases h
    refine ⟨rfl, ?_⟩
    simp only [List.length_append, List.length_replicate]; omega

/-- **C18 (padding of the multi environment).** When padding succeeds, the mask and the edge index are the single
environment's followed only by the declared fill values (`True`, `(-1, -1)`), and they have the declared lengths. -/
theorem C18_padObs (sp : Space) (o o' : EObs) (h : padObs sp o = some o') :
    o'.removed = o.removed ++ List.replicate (sp.nNodes - o.removed.length) true ∧ o'.removed.length = sp.nNodes ∧
    o'.edgeIndex = o.edgeIndex ++ List.replicate (sp.nEdges - o.edgeIndex.length) (-1, -1) ∧
    o'.edgeIndex.length = sp.nEdges ∧ o'.feats.map (·.1) = o.feats.map (·.1) := by
  unfold padObs at h
  cases hr : padEnd o.removed sp.nNodes true with
  | none => rw [hr] at h; simp at h
  | some rm =>
    cases he : padEnd o.edgeIndex sp.nEdges (-1, -1) with
    | none => rw [hr, he] at h; simp at h
    | some ei =>
      rw [hr, he] at h
      simp only at h
      cases hfs : o.feats.mapM (padFeat sp) with
      | none => rw [hfs] at h; cases h
      | some fs =>
        rw [hfs] at h
        simp only [Option.map_some, Option.some.injEq] at h
        subst h
        obtain ⟨a1, a2⟩ := padEnd_some hr
        obtain ⟨b1, b2⟩ := padEnd_some he
        refine ⟨a1, a2, b1, b2, ?_⟩
        simp only
        -- keys are kept by the element-wise padding
        have hkey : ∀ a b, padFeat sp a = some b → b.1 = a.1 := by
          intro a b hab
          unfold padFeat at hab
          split at hab
          · cases hab
          · cases hpm : padMatrix a.2 _ _ with
            | none => rw [hpm] at hab; cases hab
            | some mtx => rw [hpm] at hab; cases hab; rfl
        have : ∀ (l : List (FT × List (List Int))) (fs : List (FT × List (List Int))),
            l.mapM (padFeat sp) = some fs → fs.map (·.1) = l.map (·.1) := by
          intro l
          induction l with
          | nil => intro fs h; simp at h; subst h; rfl
          | cons a t ih =>
            intro fs h
            rw [List.mapM_cons] at h
            cases hfa : padFeat sp a with
            | none => simp [hfa] at h
            | some b =>
              cases ht : t.mapM (padFeat sp) with
              | none => simp [hfa, ht] at h
              | some fs' =>
                simp [hfa, ht] at h
                subst h
                simp only [List.map_cons, ih fs' ht, hkey a b hfa]
        exact this _ _ hfs

/-- **C18 (episodes of the multi environment).** A reset that returns an observation leaves the generator
parameters, the configuration, the filter and the declared spaces as the constructor set them, draws the new
instance from the generator (so it satisfies every clause of C19's shape theorem), and builds the episode's
environment with exactly the constructor's configuration. -/
theorem C18_multi_reset_config (m : MultiEnv) (o : EObs) (hf : FeatsOK m.ec.feats) (h : m.reset.2 = some o) :
    m.reset.1.p = m.p ∧ m.reset.1.ec = m.ec ∧ m.reset.1.F = m.F ∧ m.reset.1.space = m.space ∧
    ∃ I n gs', m.gs.next m.p = .ok (I, n, gs') ∧ m.reset.1.gs = gs' ∧
      m.reset.1.env.w.cfg = { I := I, F := m.F } ∧
      m.reset.1.env.ec = { m.ec with usePadding := m.env.ec.usePadding } := by
  unfold MultiEnv.reset at h ⊢
  cases hg : m.gs.next m.p with
  | error e => rw [hg] at h; cases h
  | ok r =>
    obtain ⟨I, n, gs'⟩ := r
    rw [hg] at h
    simp only at h ⊢
    cases hmk : Env.make { I := I, F := m.F } { m.ec with usePadding := m.env.ec.usePadding } with
    | none => rw [hmk] at h; cases h
    | some env =>
      rw [hmk] at h
      simp only at h ⊢
      obtain ⟨hok, hcfg, hec⟩ := Env.make_envOK (c := { I := I, F := m.F }) (ec := { m.ec with usePadding := m.env.ec.usePadding }) hf hmk
      have hrcfg : env.reset.1.w.cfg = { I := I, F := m.F } := by
        unfold Env.reset
        simp only
        rw [(reset_ok' hok.heap).2.cfg, hcfg]
      cases hob : env.reset.2 with
      | none => rw [hob] at h; cases h
      | some ob =>
        have hec' : env.reset.1.ec = { m.ec with usePadding := m.env.ec.usePadding } := hec
        exact ⟨by simp, by simp, by simp, by simp, I, n, gs', by simp, by simp, by simpa using hrcfg, by simpa using hec'⟩

/-- the instances of the episodes lie within the generator's ranges (C19's shape theorem applies verbatim) -/
theorem C18_multi_instance_in_ranges (m : MultiEnv) (I : Instance) (n : Nat) (gs' : GenState)
    (h : m.gs.next m.p = .ok (I, n, gs')) :
    m.p.jobsRange.1 ≤ I.length ∧ I.length ≤ m.p.jobsRange.2 ∧
    ∃ nm, m.p.machinesRange.1 ≤ nm ∧ nm ≤ m.p.machinesRange.2 ∧ (m.p.allowLess = false → nm ≤ I.length) ∧
      ∀ job ∈ I, job.length = nm ∧ ∀ op ∈ job, OpShape m.p nm op := by
  unfold GenState.next at h
  cases hg : generate m.p m.gs.draws with
  | error e => rw [hg] at h; cases h
  | ok r =>
    obtain ⟨I', nm, d⟩ := r
    rw [hg] at h
    simp only [Except.ok.injEq, Prod.mk.injEq] at h
    obtain ⟨rfl, _, _⟩ := h
    obtain ⟨a, b, c, d', e, f⟩ := C19_shape m.p m.gs.draws I' nm d hg
    exact ⟨a, b, nm, c, d', e, fun job hj => ⟨(f job hj).1, (f job hj).2.1⟩⟩

/-! non-vacuity: a concrete environment, an episode, a reset -/
example :
    let c : Cfg := { I := exampleInstance, F := some [.dominated] }
    let ec : EnvCfg := { builder := .agentTask, feats := [(.isReady, none), (.duration, some [.machines, .operations]),
      (.isCompleted, some [.jobs])] }
    (Env.make c ec).isSome = true ∧ FeatsOK ec.feats := by
  constructor
  · decide
  · intro kf hkf l hl
    simp only [List.mem_cons, List.mem_nil_iff, or_false] at hkf
    rcases hkf with rfl | rfl | rfl <;> simp at hl <;> subst hl <;> decide


/-- **C13/C18 (step reward).** The reward an accepted environment step returns is the last entry of the reward
observer's list after the step, and that list grew by exactly this one entry — provided the reward observer is
subscribed once (which the constructor ensures) and the dispatcher state is reachable. -/
theorem C18_step_reward (e : Env) (hs : SubsOK e.w) (o : FObs) (ho : e.w.heap[e.rew]? = some o)
    (hk : o.kind = .makespanReward ∨ o.kind = .idleReward) (hsub : e.rew ∈ e.w.subs)
    (hv : Valid e.w.cfg.I) (hc : CInv e.w.cfg.I e.w.s)
    (job : Nat) (machine : Int) (obs : EObs) (r : Int) (d t : Bool) (av : List OpRef)
    (h : (e.step job machine).2 = .ok obs r d t av) :
    ∃ o', (e.step job machine).1.w.heap[e.rew]? = some o' ∧ o'.rewards = o.rewards ++ [r] := by
  obtain ⟨w', hd, he, _, hr, _⟩ := Env.step_ok h
  obtain ⟨o', r', h1, h2, h3⟩ := dispatch_appends_one_reward e.w hs e.rew o ho hk hsub job _ _ w' hd hv hc
  rw [he]
  refine ⟨o', h1, ?_⟩
  have : r = r' := by
    rw [hr]
    simp only [Env.lastReward, getD_of_some h1, h3, Option.getD_some]
  rw [this]; exact h2


/-! ## the step-reward theorem over every reachable environment -/

structure EnvOK2 (e : Env) : Prop where
  subs : SubsOK e.w
  rewSub : e.rew ∈ e.w.subs
  rewKind : ∃ o, e.w.heap[e.rew]? = some o ∧ (o.kind = .makespanReward ∨ o.kind = .idleReward)
  cinv : CInv e.w.cfg.I e.w.s

theorem good_constructFeats : ∀ (feats : List (FKind × Option (List FT))) (w w' : FWorld) (ids : List Nat),
    constructFeats w feats = some (w', ids) → Good w w'
  | [], w, w', ids, h => by simp only [constructFeats] at h; cases h; exact Good.refl w
  | (k, fts) :: rest, w, w', ids, h => by
    simp only [constructFeats] at h
    by_cases hk : (!k.isFeature || k == .composite) = true
    · rw [if_pos hk] at h; cases h
    · rw [if_neg hk] at h
      have g1 := good_construct w k fts
      rcases hc : w.construct k fts with ⟨w1, oid⟩
      rw [hc] at h g1
      cases oid with
      | none => simp only at h; cases h
      | some id =>
        simp only at h g1
        cases hr : constructFeats w1 rest with
        | none => rw [hr] at h; cases h
        | some r =>
          obtain ⟨w2, ids2⟩ := r
          rw [hr] at h
          simp only [Option.some.injEq, Prod.mk.injEq] at h
          obtain ⟨rfl, _⟩ := h
          exact g1.trans (good_constructFeats rest w1 w2 ids2 hr)

theorem construct_plain_mem (w w' : FWorld) (kind : FKind) (id : Nat)
    (hk : kind = .unscheduled ∨ kind = .history ∨ kind = .makespanReward ∨ kind = .idleReward)
    (h : w.construct kind none = (w', some id)) : id ∈ w'.subs := by
  rcases hk with rfl | rfl | rfl | rfl
  all_goals
    simp only [FWorld.construct] at h
    split at h
    · cases h
    · simp only [FWorld.push, Prod.mk.injEq, Option.some.injEq] at h
      obtain ⟨rfl, rfl⟩ := h
      simp

theorem Env.make_envOK2 {c : Cfg} {ec : EnvCfg} {e : Env} (hf : FeatsOK ec.feats) (h : Env.make c ec = some e) :
    EnvOK2 e := by
  have hok := Env.make_envOK hf h
  unfold Env.make at h
  cases h1 : constructFeats (FWorld.init c) ec.feats with
  | none => rw [h1] at h; cases h
  | some r1 =>
    obtain ⟨w1, ids⟩ := r1
    rw [h1] at h
    simp only at h
    have g1 := good_constructFeats ec.feats _ w1 ids h1
    obtain ⟨hw1, _, _⟩ := constructFeats_ok ec.feats _ (heapOK_init c) hf w1 ids h1
    rcases h2 : w1.constructComposite (some ids) with ⟨w2, ocomp⟩
    have g2 := good_constructComposite w1 (some ids)
    rw [h2] at h g2
    cases ocomp with
    | none => simp only at h; cases h
    | some comp =>
      simp only at h g2
      rcases h3 : w2.constructResidual (build ec.builder c.I) ec.rmMach ec.rmJob with ⟨w3, oupd⟩
      have g3 := good_constructResidual w2 (build ec.builder c.I) ec.rmMach ec.rmJob
      rw [h3] at h g3
      cases oupd with
      | none => simp only at h; cases h
      | some upd =>
        simp only at h g3
        by_cases hrw : (ec.reward != .makespanReward && ec.reward != .idleReward) = true
        · rw [if_pos hrw] at h; cases h
        · rw [if_neg hrw] at h
          have hrk : ec.reward = .makespanReward ∨ ec.reward = .idleReward := by
            cases hr : ec.reward <;> simp [hr] at hrw ⊢
          have hplain : ec.reward = .unscheduled ∨ ec.reward = .history ∨ ec.reward = .makespanReward ∨ ec.reward = .idleReward := by
            rcases hrk with h | h
            · exact Or.inr (Or.inr (Or.inl h))
            · exact Or.inr (Or.inr (Or.inr h))
          have g4 := good_construct w3 ec.reward none
          rcases h4 : w3.construct ec.reward none with ⟨w4, orew⟩
          rw [h4] at h g4
          cases orew with
          | none => simp only at h; cases h
          | some rew =>
            simp only at h g4
            have hmem4 := construct_plain_mem w3 w4 ec.reward rew hplain h4
            have g5 := good_construct w4 .history none
            rcases h5 : w4.construct .history none with ⟨w5, ohist⟩
            rw [h5] at h g5
            cases ohist with
            | none => simp only at h; cases h
            | some hid =>
              simp only [Option.some.injEq] at h g5
              subst h
              have gall := g1.trans (g2.trans (g3.trans (g4.trans g5)))
              obtain ⟨t5, ht5⟩ := g5.pre
              refine ⟨gall.ok (subsOK_init c), by simp only; rw [ht5]; exact List.mem_append_left _ hmem4, ?_, ?_⟩
              · -- the kind of the reward observer
                have hw3 : HeapOK w3 := by
                  obtain ⟨hw2, _, _⟩ := constructComposite_ok hw1 ids
                    (fun i hi => (constructFeats_ok ec.feats _ (heapOK_init c) hf w1 ids h1).2.2 i hi) w2 comp h2
                  exact (constructResidual_ok hw2 _ (C17_built_inv ec.builder c.I) _ _ w3 upd h3).1
                obtain ⟨hw4, _, k4⟩ := construct_plain hw3 ec.reward hplain
                rw [h4] at hw4 k4
                obtain ⟨o4, ho4, hk4⟩ := k4 rew rfl
                obtain ⟨_, e5, _⟩ := construct_plain hw4 .history (Or.inr (Or.inl rfl))
                rw [h5] at e5
                obtain ⟨o5, ho5, hk5, _⟩ := e5.step rew o4 ho4
                exact ⟨o5, ho5, by rw [hk5, hk4]; exact hrk⟩
              · simp only
                rw [gall.st.1, gall.st.2]
                exact cinv_init c.I

theorem EnvOK2.step {e : Env} (h : EnvOK e) (h2 : EnvOK2 e) (hv : Valid e.w.cfg.I) (job : Nat) (machine : Int) :
    EnvOK2 (e.step job machine).1 := by
  rcases Env.step_cases e job machine with ⟨_, he⟩ | ⟨w', he, hdd, _⟩
  · rw [he]; exact h2
  · rw [he]
    have hw' : w' = (e.w.dispatch job (e.w.s.jobIdx.getD job 0) (if machine == -1 then none else some machine)).1 := by
      rw [hdd]
    obtain ⟨a, ⟨t, ht⟩, cfgeq, ci⟩ := dispatch_keeps e.w job (e.w.s.jobIdx.getD job 0) (if machine == -1 then none else some machine)
    obtain ⟨_, ex⟩ := dispatch_ok' h.heap job (e.w.s.jobIdx.getD job 0) (if machine == -1 then none else some machine)
    rw [← hw'] at a ht cfgeq ci ex
    obtain ⟨o, ho, hk⟩ := h2.rewKind
    obtain ⟨o', ho', hk', _⟩ := ex.step _ o ho
    exact ⟨a h2.subs, by simp only; rw [ht]; exact List.mem_append_left _ h2.rewSub,
      ⟨o', ho', by rw [hk']; exact hk⟩, by simp only; rw [cfgeq]; exact ci hv h2.cinv⟩

theorem EnvOK2.reset {e : Env} (h : EnvOK e) (h2 : EnvOK2 e) : EnvOK2 e.reset.1 := by
  unfold Env.reset
  obtain ⟨a, ⟨t, ht⟩, cfgeq, ci⟩ := reset_keeps e.w
  obtain ⟨_, ex⟩ := reset_ok' h.heap
  obtain ⟨o, ho, hk⟩ := h2.rewKind
  obtain ⟨o', ho', hk', _⟩ := ex.step _ o ho
  exact ⟨a h2.subs, by simp only; rw [ht]; exact List.mem_append_left _ h2.rewSub,
    ⟨o', ho', by rw [hk']; exact hk⟩, by simp only; rw [cfgeq]; exact ci⟩

theorem Env.runEvs_cfg (e : Env) (evs : List EnvEv) (h : EnvOK e) : (e.runEvs evs).w.cfg = e.w.cfg := by
  induction evs generalizing e with
  | nil => rfl
  | cons ev t ih =>
    simp only [Env.runEvs, List.foldl_cons]
    cases ev with
    | step j m =>
      have h1 := Env.step_envOK h j m
      have := ih (e := (e.step j m).1) h1
      simp only [Env.runEvs] at this
      rw [Env.apply, this]
      rcases Env.step_cases e j m with ⟨_, he⟩ | ⟨w', he, hdd, _⟩
      · rw [he]
      · rw [he]
        have := (dispatch_keeps e.w j (e.w.s.jobIdx.getD j 0) (if m == -1 then none else some m)).2.2.1
        rw [hdd] at this; exact this
    | reset =>
      have h1 := Env.reset_envOK h
      have := ih (e := e.reset.1) h1
      simp only [Env.runEvs] at this
      rw [Env.apply, this]
      exact (reset_keeps e.w).2.2.1

theorem Env.runEvs_envOK2 {e : Env} (h : EnvOK e) (h2 : EnvOK2 e) (hv : Valid e.w.cfg.I) (evs : List EnvEv) :
    EnvOK2 (e.runEvs evs) := by
  induction evs generalizing e with
  | nil => exact h2
  | cons ev t ih =>
    simp only [Env.runEvs, List.foldl_cons]
    cases ev with
    | step j m =>
      have h1 := Env.step_envOK h j m
      have hcfg : (e.step j m).1.w.cfg = e.w.cfg := by
        have := Env.runEvs_cfg e [.step j m] h
        simpa [Env.runEvs, Env.apply] using this
      exact ih h1 (EnvOK2.step h h2 hv j m) (by show Valid (e.step j m).1.w.cfg.I; rw [hcfg]; exact hv)
    | reset =>
      have h1 := Env.reset_envOK h
      have hcfg : e.reset.1.w.cfg = e.w.cfg := (reset_keeps e.w).2.2.1
      exact ih h1 (EnvOK2.reset h h2) (by show Valid e.reset.1.w.cfg.I; rw [hcfg]; exact hv)

/-- **C13 / C18 (step reward, every reachable environment).** For an environment built by the constructor on a valid
instance and driven through any sequence of steps and resets: the reward an accepted step returns is the single
reward the reward observer emitted for that step (its list grew by exactly that entry). -/
theorem C18_step_reward_reachable (c : Cfg) (ec : EnvCfg) (e0 : Env) (hf : FeatsOK ec.feats) (hv : Valid c.I)
    (hmk : Env.make c ec = some e0) (evs : List EnvEv) (job : Nat) (machine : Int)
    (obs : EObs) (r : Int) (d t : Bool) (av : List OpRef)
    (h : ((e0.runEvs evs).step job machine).2 = .ok obs r d t av) :
    ∃ o o', (e0.runEvs evs).w.heap[e0.rew]? = some o ∧
      ((e0.runEvs evs).step job machine).1.w.heap[e0.rew]? = some o' ∧ o'.rewards = o.rewards ++ [r] := by
  obtain ⟨hok, hcfg, _⟩ := Env.make_envOK hf hmk
  have hok2 := Env.make_envOK2 hf hmk
  have hv0 : Valid e0.w.cfg.I := by rw [hcfg]; exact hv
  have hrun := Env.runEvs_envOK hok evs
  have hrun2 := Env.runEvs_envOK2 hok hok2 hv0 evs
  have hrew : (e0.runEvs evs).rew = e0.rew := by
    have : ∀ (evs : List EnvEv) (e : Env), (e.runEvs evs).rew = e.rew := by
      intro evs
      induction evs with
      | nil => intro e; rfl
      | cons ev t ih =>
        intro e
        simp only [Env.runEvs, List.foldl_cons]
        have := ih (e.apply ev)
        simp only [Env.runEvs] at this
        rw [this]
        cases ev with
        | step j m =>
          rcases Env.step_cases e j m with ⟨_, he⟩ | ⟨w', he, _, _⟩
          · simp only [Env.apply]; rw [he]
          · simp only [Env.apply]; rw [he]
        | reset => rfl
    exact this evs e0
  obtain ⟨o, ho, hk⟩ := hrun2.rewKind
  have hvr : Valid (e0.runEvs evs).w.cfg.I := by rw [Env.runEvs_cfg e0 evs hok]; exact hv0
  obtain ⟨o', h1, h2⟩ := C18_step_reward (e0.runEvs evs) hrun2.subs o ho hk hrun2.rewSub hvr hrun2.cinv
    job machine obs r d t av h
  rw [hrew] at ho h1
  exact ⟨o, o', ho, h1, h2⟩

end JS

import JobShopModel.Env
import JobShopProofs.Properties.C17
/-!
# C18 — the environments honour the Gymnasium contract
-/
namespace JS

/-- what an accepted step is: the dispatch of the job's next operation was accepted by the feature world, the new
environment differs from the old one only in its world, and the outputs are read from the new world -/
theorem Env.step_ok {e : Env} {job : Nat} {machine : Int} {obs : EObs} {r : Int} {d t : Bool} {av : List OpRef}
    (h : (e.step job machine).2 = .ok obs r d t av) :
    ∃ w', e.w.dispatch job (e.w.s.jobIdx.getD job 0) (if machine == -1 then none else some machine) = (w', true) ∧
      (e.step job machine).1 = { e with w := w' } ∧
      ({ e with w := w' } : Env).observation = some obs ∧
      r = ({ e with w := w' } : Env).lastReward ∧ d = isComplete w'.cfg.I w'.s ∧ t = false ∧
      av = availablePure w'.cfg w'.s ∧ job < e.w.cfg.I.length ∧
      e.w.s.jobIdx.getD job 0 < (e.w.cfg.I.getD job []).length := by
  unfold Env.step at h ⊢
  by_cases h1 : job ≥ e.w.cfg.I.length
  · simp only [if_pos h1] at h; cases h
  · simp only [if_neg h1] at h ⊢
    by_cases h2 : e.w.s.jobIdx.getD job 0 ≥ (e.w.cfg.I.getD job []).length
    · simp only [if_pos h2] at h; cases h
    · simp only [if_neg h2] at h ⊢
      rcases hd : e.w.dispatch job (e.w.s.jobIdx.getD job 0) (if machine == -1 then none else some machine) with ⟨w', b⟩
      cases b with
      | false => simp only [hd] at h; cases h
      | true =>
        simp only [hd] at h ⊢
        cases ho : ({ e with w := w' } : Env).observation with
        | none => simp only [ho] at h; cases h
        | some o =>
          simp only [ho] at h ⊢
          cases h
          exact ⟨w', rfl, rfl, ho, rfl, rfl, rfl, rfl, by omega, by omega⟩

/-- **C18 (done / truncated).** A step that does not raise reports `done` exactly when the schedule is complete and
never signals truncation. -/
theorem C18_done_truncated (e : Env) (job : Nat) (machine : Int) (obs : EObs) (r : Int) (d t : Bool) (av : List OpRef)
    (h : (e.step job machine).2 = .ok obs r d t av) :
    d = isComplete (e.step job machine).1.w.cfg.I (e.step job machine).1.w.s ∧ t = false := by
  obtain ⟨w', _, he, _, _, hd, ht, _⟩ := Env.step_ok h
  rw [he]; exact ⟨hd, ht⟩

end JS

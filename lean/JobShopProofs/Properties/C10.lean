import JobShopProofs.WorldInv
/-!
# C10 — observers see every dispatch once, in order, after it took effect

Worlds are reached from a fresh dispatcher by arbitrary lists of world events (`WEv`): dispatch requests
(accepted or rejected), resets, queries, observer constructions, `create_or_get_observer`, unsubscribe and
re-subscribe.  Direct double `subscribe` of one object is API misuse outside the event alphabet
(`resub` of a subscribed observer is refused by the model and not issued by the harness).
-/
namespace JS

/-- **C10 (every accepted dispatch).** In every reachable world an accepted dispatch
* produces a schedule entry `x` for the requested operation that is already in the schedule,
* calls `update(x)` on every subscribed observer exactly once — each one moves from its state `o` to
  `updateSpec … x o` — and on nobody else,
* in subscription order (the shared recorder trace grows by the subscribers' entries in `subs` order),
* at a moment when the dispatcher already shows the post-dispatch state: what a recorder logs is
  `snapshotSpec` of the new state `s'` (schedule, vectors, `current_time()`, `unscheduled_operations()`),
and changes neither the subscriber list nor the configuration. -/
theorem C10_dispatch_notifies (c : Cfg) (hv : Valid c.I) (evs : List WEv) (j p : Nat) (m : Option Int)
    (s' : State) (hd : dispatchReq c.I (World.run c evs).s j p m = .ok s') :
    let w := World.run c evs
    let w' := (w.dispatch j p m).1
    ∃ x : SOp, x ∈ s'.sched.flatten ∧ x.job = j ∧ x.pos = p ∧
      (∃ k, w'.s = setCache s' k) ∧ w'.subs = w.subs ∧
      (∀ i, i ∉ w.subs → w'.heap[i]? = w.heap[i]?) ∧
      (∀ i ∈ w.subs, ∀ o, w.heap[i]? = some o → w'.heap[i]? = some (Obs.updateSpec c s' i x o).1) ∧
      (w'.trace = w.trace ++ w.subs.flatMap fun id => match w.heap[id]? with
        | some o => (Obs.updateSpec c s' id x o).2 | none => []) ∧
      w'.accepted = w.accepted ++ [x] := by
  intro w w'
  obtain ⟨hw, hcfg⟩ := winv_run c hv evs
  have hd' : dispatchReq w.cfg.I w.s j p m = .ok s' := by rw [hcfg]; exact hd
  obtain ⟨x, h1, h2, h3, _, _, h5, _, h6, _, h7, h8, h9, h10⟩ :=
    World.dispatch_accepted hw (by rw [hcfg]; exact hv) hd'
  rw [hcfg] at h8 h9
  exact ⟨x, h1, h2, h3, h5, h6, h7, h8, h9, h10⟩

/-- a recorder's log entry for a dispatch is the dispatched entry together with the post-state view -/
theorem C10_recorder_sees_post_state (c : Cfg) (s' : State) (i : Nat) (x : SOp) (o : Obs) (hk : o.kind = .recorder) :
    (Obs.updateSpec c s' i x o).1.log = o.log ++ [.update x (snapshotSpec c s')] ∧
    (Obs.updateSpec c s' i x o).2 = [(i, .update x (snapshotSpec c s'))] := by
  simp [Obs.updateSpec, hk]

/-- **C10 (rejected dispatches notify nobody).** -/
theorem C10_rejected_silent (w : World) (j p : Nat) (m : Option Int) (e : Err)
    (hd : dispatchReq w.cfg.I w.s j p m = .error e) : (w.dispatch j p m).1 = w := by
  rw [World.dispatch_rejected w hd]

/-- **C10 (reset).** A reset calls `reset()` on each subscriber exactly once, in subscription order, after
the dispatcher itself has been reset, and on nobody else. -/
theorem C10_reset_once (c : Cfg) (hv : Valid c.I) (evs : List WEv) :
    let w := World.run c evs
    (∃ k, w.reset.s = setCache (init c.I) k) ∧ w.reset.subs = w.subs ∧
    (∀ i, i ∉ w.subs → w.reset.heap[i]? = w.heap[i]?) ∧
    (∀ i ∈ w.subs, ∀ o, w.heap[i]? = some o → w.reset.heap[i]? = some (Obs.resetSpec c (init c.I) i o).1) ∧
    (w.reset.trace = w.trace ++ w.subs.flatMap fun id => match w.heap[id]? with
      | some o => (Obs.resetSpec c (init c.I) id o).2 | none => []) := by
  intro w
  obtain ⟨hw, hcfg⟩ := winv_run c hv evs
  obtain ⟨_, h2, _, h4, _, h6, h7, h8, _⟩ := World.reset_spec hw
  rw [hcfg] at h2 h7 h8
  exact ⟨h2, h4, h6, h7, h8⟩

/-- **C10 (unsubscribed observers receive nothing).** Follows from the above: an observer that is not in
`subs` is untouched by dispatches and resets; and `unsubscribe` removes exactly that observer. -/
theorem C10_unsubscribe (w : World) (id : Nat) (h : id ∈ w.subs) (hnd : w.subs.Nodup) :
    (w.unsubscribe id).1.subs = w.subs.erase id ∧ id ∉ (w.unsubscribe id).1.subs ∧
    (w.unsubscribe id).1.heap = w.heap := by
  simp only [World.unsubscribe, List.contains_eq_mem, h, decide_true, ↓reduceIte, true_and]
  exact ⟨fun hm => (List.Nodup.mem_erase_iff hnd).1 hm |>.1 rfl, trivial⟩

/-- **C10 (non-subscribed observers).** An observer constructed with `subscribe=False` is not subscribed: the
subscriber list is unchanged and the new observer is not in it — so by `C10_dispatch_notifies` / `C10_reset_once` it
receives nothing until it is subscribed by hand. -/
theorem C10_detached (w : World) (hw : WInv w) (k : ObsKind) (id : Nat) (h : (w.constructDetached k).2 = some id) :
    (w.constructDetached k).1.subs = w.subs ∧ id ∉ (w.constructDetached k).1.subs ∧
    ∃ o, (w.constructDetached k).1.heap[id]? = some o ∧ o.kind = k := by
  unfold World.constructDetached at h ⊢
  split at h
  · cases h
  · rename_i hc
    simp only [hc, Bool.false_eq_true, ↓reduceIte, Option.some.injEq] at h ⊢
    subst h
    refine ⟨trivial, fun hm => ?_, ?_⟩
    · have := hw.valid _ hm; omega
    · refine ⟨Obs.construct w.cfg w.s k, by simp, ?_⟩
      cases k <;> rfl

/-- **C10 (singleton guard).** Constructing an observer of a singleton class while one is subscribed raises
and leaves the world (in particular the subscriber list) unchanged. -/
theorem C10_singleton (w : World) (k : ObsKind) (hs : k.singleton = true) (id : Nat) (hid : id ∈ w.subs)
    (hk : (w.heap[id]?.map (·.kind)) = some k) : w.construct k = (w, none) := by
  unfold World.construct
  have : (w.subs.any fun id => (w.heap[id]?.map (·.kind)) == some k) = true :=
    List.any_eq_true.2 ⟨id, hid, by simp [hk]⟩
  simp [hs, this]

/-- **C10 (create-or-get).** `create_or_get_observer` returns the first subscribed observer of the class
without changing anything; when there is none it constructs (and thereby subscribes) a new one. -/
theorem C10_create_or_get (w : World) (k : ObsKind) :
    (∀ id, w.subs.find? (fun id => (w.heap[id]?.map (·.kind)) == some k) = some id →
      w.createOrGet k = (w, some id)) ∧
    (w.subs.find? (fun id => (w.heap[id]?.map (·.kind)) == some k) = none →
      w.createOrGet k = w.construct k) := by
  constructor
  · intro id h; simp [World.createOrGet, h]
  · intro h; simp [World.createOrGet, h]

/-- **C10 (create-or-get with a condition).** With a condition, the first subscribed observer of the class
*that satisfies the condition* is returned — later subscribers are examined too — and only when none
matches is a new observer constructed. -/
theorem C10_create_or_get_cond (w : World) (k : ObsKind) (tag : Nat) :
    (∀ id, w.subs.find? (fun id => (w.heap[id]?.map fun o => (o.kind, o.tag)) == some (k, tag)) = some id →
      w.createOrGetCond k tag = (w, some id)) ∧
    (w.subs.find? (fun id => (w.heap[id]?.map fun o => (o.kind, o.tag)) == some (k, tag)) = none →
      w.createOrGetCond k tag = w.construct k tag) := by
  constructor
  · intro id h; simp [World.createOrGetCond, h]
  · intro h; simp [World.createOrGetCond, h]

/-! ## run-level: the history observer's record is the dispatch sequence -/

/-- how observer 0 and the dispatch sequence evolve over one event other than `unsub 0` -/
theorem step_obs0 {w : World} (hw : WInv w) (hv : Valid w.cfg.I) (h0 : 0 ∈ w.subs) (o : Obs)
    (ho : w.heap[0]? = some o) (e : WEv) (hne : e ≠ .unsub 0) :
    0 ∈ (w.step e).subs ∧
    ((∃ j p m s' x, e = .disp j p m ∧ dispatchReq w.cfg.I w.s j p m = .ok s' ∧ x ∈ s'.sched.flatten ∧
        x.job = j ∧ x.pos = p ∧
        (∃ k, (w.step e).s = setCache s' k) ∧ (w.step e).accepted = w.accepted ++ [x] ∧
        (w.step e).heap[0]? = some (Obs.updateSpec w.cfg s' 0 x o).1) ∨
     (e = .reset ∧ (∃ k, (w.step e).s = setCache (init w.cfg.I) k) ∧ (w.step e).accepted = [] ∧
        (w.step e).heap[0]? = some (Obs.resetSpec w.cfg (init w.cfg.I) 0 o).1) ∨
     ((∃ k, (w.step e).s = setCache w.s k) ∧ (w.step e).accepted = w.accepted ∧ (w.step e).heap[0]? = some o)) := by
  have hlt : 0 < w.heap.length := (List.getElem?_eq_some_iff.1 ho).1
  cases e with
  | disp j p m =>
    simp only [World.step]
    cases hd : dispatchReq w.cfg.I w.s j p m with
    | error e =>
      rw [World.dispatch_rejected w hd]
      exact ⟨h0, Or.inr (Or.inr ⟨⟨w.s.cache, rfl⟩, rfl, ho⟩)⟩
    | ok s' =>
      obtain ⟨x, h1, h2, h3, _, _, h5, _, h6, _, _, h8, _, h10⟩ := World.dispatch_accepted hw hv hd
      refine ⟨by rw [h6]; exact h0, Or.inl ⟨j, p, m, s', x, rfl, hd, h1, h2, h3, h5, h10, h8 0 h0 o ho⟩⟩
  | reset =>
    simp only [World.step]
    obtain ⟨_, h2, _, h4, _, _, h7, _, h9⟩ := World.reset_spec hw
    exact ⟨by rw [h4]; exact h0, Or.inr (Or.inl ⟨trivial, h2, h9, h7 0 h0 o ho⟩)⟩
  | query q =>
    simp only [World.step, World.ask]
    obtain ⟨_, _, k, hk⟩ := ask_ok w.cfg w.s hw.inv.cache q
    exact ⟨h0, Or.inr (Or.inr ⟨⟨k, hk⟩, trivial, ho⟩)⟩
  | construct k =>
    simp only [World.step, World.construct]
    split
    · exact ⟨h0, Or.inr (Or.inr ⟨⟨w.s.cache, rfl⟩, rfl, ho⟩)⟩
    · refine ⟨by simp [h0], Or.inr (Or.inr ⟨⟨w.s.cache, rfl⟩, rfl, ?_⟩)⟩
      simp only; rw [List.getElem?_append_left hlt]; exact ho
  | constructTagged k t =>
    simp only [World.step, World.construct]
    split
    · exact ⟨h0, Or.inr (Or.inr ⟨⟨w.s.cache, rfl⟩, rfl, ho⟩)⟩
    · refine ⟨by simp [h0], Or.inr (Or.inr ⟨⟨w.s.cache, rfl⟩, rfl, ?_⟩)⟩
      simp only; rw [List.getElem?_append_left hlt]; exact ho
  | constructDetached k =>
    simp only [World.step, World.constructDetached]
    split
    · exact ⟨h0, Or.inr (Or.inr ⟨⟨w.s.cache, rfl⟩, rfl, ho⟩)⟩
    · refine ⟨h0, Or.inr (Or.inr ⟨⟨w.s.cache, rfl⟩, rfl, ?_⟩)⟩
      simp only; rw [List.getElem?_append_left hlt]; exact ho
  | createOrGet k =>
    simp only [World.step, World.createOrGet]
    split
    · exact ⟨h0, Or.inr (Or.inr ⟨⟨w.s.cache, rfl⟩, rfl, ho⟩)⟩
    · simp only [World.construct]
      split
      · exact ⟨h0, Or.inr (Or.inr ⟨⟨w.s.cache, rfl⟩, rfl, ho⟩)⟩
      · refine ⟨by simp [h0], Or.inr (Or.inr ⟨⟨w.s.cache, rfl⟩, rfl, ?_⟩)⟩
        simp only; rw [List.getElem?_append_left hlt]; exact ho
  | createOrGetCond k t =>
    simp only [World.step, World.createOrGetCond]
    split
    · exact ⟨h0, Or.inr (Or.inr ⟨⟨w.s.cache, rfl⟩, rfl, ho⟩)⟩
    · simp only [World.construct]
      split
      · exact ⟨h0, Or.inr (Or.inr ⟨⟨w.s.cache, rfl⟩, rfl, ho⟩)⟩
      · refine ⟨by simp [h0], Or.inr (Or.inr ⟨⟨w.s.cache, rfl⟩, rfl, ?_⟩)⟩
        simp only; rw [List.getElem?_append_left hlt]; exact ho
  | unsub id =>
    have hid : id ≠ 0 := fun h => hne (by rw [h])
    simp only [World.step, World.unsubscribe]
    split
    · refine ⟨?_, Or.inr (Or.inr ⟨⟨w.s.cache, rfl⟩, rfl, ho⟩)⟩
      exact (List.mem_erase_of_ne (fun h => hid h.symm)).2 h0
    · exact ⟨h0, Or.inr (Or.inr ⟨⟨w.s.cache, rfl⟩, rfl, ho⟩)⟩
  | resub id =>
    simp only [World.step, World.resubscribe]
    split
    · exact ⟨h0, Or.inr (Or.inr ⟨⟨w.s.cache, rfl⟩, rfl, ho⟩)⟩
    · exact ⟨by simp [h0], Or.inr (Or.inr ⟨⟨w.s.cache, rfl⟩, rfl, ho⟩)⟩

/-- a generic run-level induction for the observer constructed first and never unsubscribed -/
theorem obs0_run (c : Cfg) (hv : Valid c.I) (kind : ObsKind) (P : State → List SOp → Obs → Prop)
    (hcache : ∀ s k acc o, P s acc o → P (setCache s k) acc o)
    (hinit : P (init c.I) [] (Obs.construct c (init c.I) kind))
    (hupd : ∀ s s' j p m x acc o, Inv c s → dispatchReq c.I s j p m = .ok s' → x ∈ s'.sched.flatten →
      x.job = j → x.pos = p → o.kind = kind → P s acc o → P s' (acc ++ [x]) (Obs.updateSpec c s' 0 x o).1)
    (hreset : ∀ s acc o, o.kind = kind → P s acc o → P (init c.I) [] (Obs.resetSpec c (init c.I) 0 o).1)
    (evs : List WEv) (hno : ∀ e ∈ evs, e ≠ .unsub 0) :
    let w := World.run c (.construct kind :: evs)
    ∃ o, w.heap[0]? = some o ∧ o.kind = kind ∧ 0 ∈ w.subs ∧ P w.s w.accepted o := by
  have hkupd : ∀ c' s' x (o : Obs), (Obs.updateSpec c' s' 0 x o).1.kind = o.kind := by
    intro c' s' x o; cases hk : o.kind <;> simp [Obs.updateSpec, hk]
  have hkres : ∀ c' s' (o : Obs), (Obs.resetSpec c' s' 0 o).1.kind = o.kind := by
    intro c' s' o; cases hk : o.kind <;> simp [Obs.resetSpec, hk]
  have hkcons : ∀ c' s' k, (Obs.construct c' s' k).kind = k := by
    intro c' s' k; cases k <;> rfl
  have gen : ∀ (evs : List WEv) (w : World), WInv w → w.cfg = c → (∀ e ∈ evs, e ≠ .unsub 0) →
      (∃ o, w.heap[0]? = some o ∧ o.kind = kind ∧ 0 ∈ w.subs ∧ P w.s w.accepted o) →
      ∃ o, (evs.foldl World.step w).heap[0]? = some o ∧ o.kind = kind ∧ 0 ∈ (evs.foldl World.step w).subs ∧
        P (evs.foldl World.step w).s (evs.foldl World.step w).accepted o := by
    intro evs
    induction evs with
    | nil => intro w _ _ _ h; exact h
    | cons e evs ih =>
      intro w hw hc hno ⟨o, ho, hk, h0, hP⟩
      have hv' : Valid w.cfg.I := by rw [hc]; exact hv
      obtain ⟨hw', hc'⟩ := winv_step hw hv' e
      obtain ⟨h0', hcase⟩ := step_obs0 hw hv' h0 o ho e (hno e (by simp))
      refine ih (w.step e) hw' (by rw [hc', hc]) (fun e' he' => hno e' (by simp [he'])) ?_
      rcases hcase with ⟨j, p, m, s', x, _, hd, hx, hj, hp, ⟨k, hks⟩, hacc, hheap⟩ |
          ⟨_, ⟨k, hks⟩, hacc, hheap⟩ | ⟨⟨k, hks⟩, hacc, hheap⟩
      · refine ⟨_, hheap, by rw [hkupd, hk], h0', ?_⟩
        rw [hks, hacc]
        apply hcache
        rw [hc] at hd ⊢
        exact hupd w.s s' j p m x w.accepted o (by rw [← hc]; exact hw.inv) hd hx hj hp hk hP
      · refine ⟨_, hheap, by rw [hkres, hk], h0', ?_⟩
        rw [hks, hacc, hc]
        apply hcache
        exact hreset w.s w.accepted o hk hP
      · exact ⟨o, hheap, hk, h0', by rw [hks, hacc]; exact hcache _ _ _ _ hP⟩
  intro w
  have hw0 := winv_init c
  obtain ⟨hw1, hc1⟩ := winv_step hw0 (by simpa [World.init] using hv) (.construct kind)
  have hstart : ∃ o, ((World.init c).step (.construct kind)).heap[0]? = some o ∧ o.kind = kind ∧
      0 ∈ ((World.init c).step (.construct kind)).subs ∧
      P ((World.init c).step (.construct kind)).s ((World.init c).step (.construct kind)).accepted o := by
    refine ⟨Obs.construct c (init c.I) kind, ?_, hkcons _ _ _, ?_, ?_⟩ <;>
      simp [World.step, World.construct, World.init]
    exact hinit
  have := gen evs _ hw1 (by rw [hc1]; rfl) hno hstart
  show ∃ o, (World.run c (.construct kind :: evs)).heap[0]? = some o ∧ o.kind = kind ∧
    0 ∈ (World.run c (.construct kind :: evs)).subs ∧
    P (World.run c (.construct kind :: evs)).s (World.run c (.construct kind :: evs)).accepted o
  simp only [World.run, List.foldl_cons]
  exact this

/-- **C10 (history observer).** A history observer created on the fresh dispatcher and never unsubscribed
always records exactly the accepted dispatch sequence since the last reset, in order. -/
theorem C10_history (c : Cfg) (hv : Valid c.I) (evs : List WEv) (hno : ∀ e ∈ evs, e ≠ .unsub 0) :
    let w := World.run c (.construct .history :: evs)
    ∃ o, w.heap[0]? = some o ∧ o.hist = w.accepted := by
  intro w
  obtain ⟨o, ho, _, _, hP⟩ := obs0_run c hv .history (fun _ acc o => o.hist = acc)
    (fun _ _ _ _ h => h) rfl
    (by intro s s' j p m x acc o _ _ _ _ _ hk h; simp [Obs.updateSpec, hk, h])
    (by intro s acc o hk _; simp [Obs.resetSpec, hk]) evs hno
  exact ⟨o, ho, hP⟩

/-! non-vacuity -/
example :
    let c : Cfg := { I := exampleInstance }
    let w := World.run c [.construct .history, .construct .recorder, .construct .history, .disp 1 0 none,
      .disp 1 0 none, .unsub 1, .disp 0 0 (some 0)]
    w.subs = [0] ∧ (w.heap[0]?.map (·.hist)) = some [⟨1, 0, 1, 0, 4⟩, ⟨0, 0, 0, 0, 3⟩] ∧
    (w.heap[1]?.map (·.log.length)) = some 1 ∧ w.heap.length = 2 := by decide

end JS

import JobShopModel.Viz
import JobShopProofs.Properties.C02
/-!
# C20 — Gantt charts and animations show the schedule that was built
-/
namespace JS

/-! ## decimal digits -/

/-- value of a most-significant-first digit list -/
def dval (ds : List Nat) : Nat := ds.foldl (fun acc d => acc * 10 + d) 0

theorem foldl_val (l : List Nat) : ∀ acc, l.foldl (fun acc d => acc * 10 + d) acc = acc * 10 ^ l.length + dval l := by
  induction l with
  | nil => intro acc; simp [dval]
  | cons a t ih =>
    intro acc
    simp only [List.foldl_cons, dval, List.length_cons]
    rw [ih (acc * 10 + a), ih (0 * 10 + a)]
    simp only [dval, Nat.zero_mul, Nat.zero_add, Nat.pow_succ, Nat.add_mul]
    rw [Nat.mul_assoc acc, Nat.mul_comm 10]
    omega

theorem dval_cons (a : Nat) (as : List Nat) : dval (a :: as) = a * 10 ^ as.length + dval as := by
  simp only [dval, List.foldl_cons]
  rw [foldl_val as (0 * 10 + a)]; simp [dval]

theorem dval_append_single (ds : List Nat) (d : Nat) : dval (ds ++ [d]) = dval ds * 10 + d := by
  simp [dval, List.foldl_append]

theorem dval_lt (ds : List Nat) (h : ∀ d ∈ ds, d < 10) : dval ds < 10 ^ ds.length := by
  induction ds with
  | nil => simp [dval]
  | cons a t ih =>
    rw [dval_cons, List.length_cons, Nat.pow_succ]
    have h1 := ih (fun d hd => h d (by simp [hd]))
    have h2 : a + 1 ≤ 10 := h a (by simp)
    have h3 : (a + 1) * 10 ^ t.length ≤ 10 * 10 ^ t.length := Nat.mul_le_mul_right _ h2
    rw [Nat.add_mul] at h3
    rw [Nat.mul_comm (10 ^ t.length) 10]
    omega

theorem decDigits_lt10 (n : Nat) (h : n < 10) : decDigits n = [n] := by
  rw [decDigits]; simp [h]

theorem decDigits_ge10 (n : Nat) (h : ¬ n < 10) : decDigits n = decDigits (n / 10) ++ [n % 10] := by
  rw [decDigits]; simp [h]

theorem dval_decDigits (n : Nat) : dval (decDigits n) = n := by
  induction n using Nat.strongRecOn with
  | _ n ih =>
    by_cases h : n < 10
    · rw [decDigits_lt10 n h]; simp [dval]
    · rw [decDigits_ge10 n h, dval_append_single, ih (n / 10) (by omega)]; omega

theorem decDigits_digits (n : Nat) : ∀ d ∈ decDigits n, d < 10 := by
  induction n using Nat.strongRecOn with
  | _ n ih =>
    by_cases h : n < 10
    · rw [decDigits_lt10 n h]; intro d hd; simp at hd; omega
    · rw [decDigits_ge10 n h]
      intro d hd
      rcases List.mem_append.1 hd with h1 | h1
      · exact ih (n / 10) (by omega) d h1
      · simp at h1; omega

theorem decDigits_length_pos (n : Nat) : 0 < (decDigits n).length := by
  by_cases h : n < 10
  · rw [decDigits_lt10 n h]; simp
  · rw [decDigits_ge10 n h]; simp

theorem decDigits_length_mono : ∀ (m n : Nat), n ≤ m → (decDigits n).length ≤ (decDigits m).length := by
  intro m
  induction m using Nat.strongRecOn with
  | _ m ih =>
    intro n hnm
    by_cases hm : m < 10
    · rw [decDigits_lt10 m hm, decDigits_lt10 n (by omega)]; simp
    · by_cases hn : n < 10
      · rw [decDigits_lt10 n hn, decDigits_ge10 m hm]; simp
      · rw [decDigits_ge10 n hn, decDigits_ge10 m hm]
        simp only [List.length_append, List.length_singleton]
        have := ih (m / 10) (by omega) (n / 10) (Nat.div_le_div_right hnm)
        omega

theorem frameDigits_digits (n : Nat) : ∀ d ∈ frameDigits n, d < 10 := by
  intro d hd
  simp only [frameDigits, pad2, List.mem_append, List.mem_replicate] at hd
  rcases hd with ⟨_, rfl⟩ | h
  · omega
  · exact decDigits_digits n d h

theorem dval_replicate_zero (k : Nat) (ds : List Nat) : dval (List.replicate k 0 ++ ds) = dval ds := by
  induction k with
  | zero => simp
  | succ k ih => rw [List.replicate_succ, List.cons_append, dval_cons, ih]; simp

theorem dval_frameDigits (n : Nat) : dval (frameDigits n) = n := by
  simp only [frameDigits, pad2]; rw [dval_replicate_zero, dval_decDigits]

theorem frameDigits_length (n : Nat) : (frameDigits n).length = max 2 (decDigits n).length := by
  simp only [frameDigits, pad2, List.length_append, List.length_replicate]; omega

theorem frameDigits_length_mono (m n : Nat) (h : n ≤ m) : (frameDigits n).length ≤ (frameDigits m).length := by
  rw [frameDigits_length, frameDigits_length]
  have := decDigits_length_mono m n h
  omega

/-- on equal-length digit lists, lexicographic order is numeric order -/
theorem lexLe_iff : ∀ (as bs : List Nat), as.length = bs.length → (∀ d ∈ as, d < 10) → (∀ d ∈ bs, d < 10) →
    (lexLe as bs = true ↔ dval as ≤ dval bs)
  | [], [], _, _, _ => by simp [lexLe, dval]
  | [], _ :: _, h, _, _ => by simp at h
  | _ :: _, [], h, _, _ => by simp at h
  | a :: as, b :: bs, hlen, ha, hb => by
    simp only [List.length_cons, Nat.add_right_cancel_iff] at hlen
    have ih := lexLe_iff as bs hlen (fun d hd => ha d (by simp [hd])) (fun d hd => hb d (by simp [hd]))
    have h1 := dval_lt as (fun d hd => ha d (by simp [hd]))
    have h2 := dval_lt bs (fun d hd => hb d (by simp [hd]))
    rw [dval_cons, dval_cons, hlen]
    rw [hlen] at h1
    simp only [lexLe]
    by_cases hab : a < b
    · simp only [hab, ↓reduceIte, true_iff]
      have : (a + 1) * 10 ^ bs.length ≤ b * 10 ^ bs.length := Nat.mul_le_mul_right _ hab
      rw [Nat.add_mul] at this
      omega
    · simp only [hab, ↓reduceIte]
      by_cases heq : a = b
      · subst heq; simp only [↓reduceIte, ih]; omega
      · simp only [heq, ↓reduceIte, Bool.false_eq_true, false_iff, Nat.not_le]
        have hba : b < a := by omega
        have : (b + 1) * 10 ^ bs.length ≤ a * 10 ^ bs.length := Nat.mul_le_mul_right _ hba
        rw [Nat.add_mul] at this
        omega

/-- **the sort key `(len(name), name)` orders frames numerically — for every frame number, with no bound** -/
theorem frameKeyLe_iff (i j : Nat) : frameKeyLe i j = true ↔ i ≤ j := by
  simp only [frameKeyLe]
  by_cases hij : i ≤ j
  · have hl := frameDigits_length_mono j i hij
    by_cases hlt : (frameDigits i).length < (frameDigits j).length
    · simp [hlt, hij]
    · have heq : (frameDigits i).length = (frameDigits j).length := by omega
      simp only [hlt, ↓reduceIte, if_pos heq, hij, iff_true]
      rw [lexLe_iff _ _ heq (frameDigits_digits i) (frameDigits_digits j), dval_frameDigits, dval_frameDigits]
      exact hij
  · have hji : j ≤ i := by omega
    have hl := frameDigits_length_mono i j hji
    have hlt : ¬ (frameDigits i).length < (frameDigits j).length := by omega
    simp only [hlt, ↓reduceIte, hij, iff_false]
    by_cases heq : (frameDigits i).length = (frameDigits j).length
    · simp only [heq, ↓reduceIte, Bool.not_eq_true]
      have := (lexLe_iff _ _ heq (frameDigits_digits i) (frameDigits_digits j))
      rw [dval_frameDigits, dval_frameDigits] at this
      cases h : lexLe (frameDigits i) (frameDigits j)
      · rfl
      · exact absurd (this.1 h) hij
    · simp [heq]

/-! ## the load order -/

theorem insertBy_perm (le : Nat → Nat → Bool) (x : Nat) : ∀ (l : List Nat), (insertBy le x l).Perm (x :: l)
  | [] => List.Perm.refl _
  | y :: ys => by
    simp only [insertBy]
    split
    · exact List.Perm.refl _
    · exact ((insertBy_perm le x ys).cons y).trans (List.Perm.swap x y ys)

theorem insertBy_sorted (x : Nat) : ∀ (l : List Nat), l.Pairwise (· ≤ ·) → (insertBy frameKeyLe x l).Pairwise (· ≤ ·)
  | [], _ => by simp [insertBy]
  | y :: ys, h => by
    simp only [insertBy]
    rw [List.pairwise_cons] at h
    by_cases hxy : frameKeyLe x y = true
    · simp only [hxy, ↓reduceIte]
      have hle := (frameKeyLe_iff x y).1 hxy
      rw [List.pairwise_cons]
      refine ⟨?_, List.pairwise_cons.2 h⟩
      intro b hb
      rcases List.mem_cons.1 hb with rfl | hb
      · exact hle
      · exact Nat.le_trans hle (h.1 b hb)
    · simp only [hxy, Bool.false_eq_true, ↓reduceIte]
      have hyx : y ≤ x := by
        have : ¬ x ≤ y := fun h => hxy ((frameKeyLe_iff x y).2 h)
        omega
      rw [List.pairwise_cons]
      refine ⟨?_, insertBy_sorted x ys h.2⟩
      intro b hb
      rcases List.mem_cons.1 ((insertBy_perm frameKeyLe x ys).mem_iff.1 hb) with rfl | hb
      · exact hyx
      · exact h.1 b hb

theorem loadOrder_spec (l : List Nat) : (loadOrder l).Perm l ∧ (loadOrder l).Pairwise (· ≤ ·) := by
  induction l with
  | nil => simp [loadOrder]
  | cons a t ih =>
    simp only [loadOrder, List.foldr_cons]
    exact ⟨(insertBy_perm _ a _).trans (ih.1.cons a), insertBy_sorted a _ ih.2⟩

/-- **C20 (frames load in numeric order, for every number of frames).** Whatever order the directory listing
returns the `n` frame files in, sorting them by `(len(name), name)` yields frame 1, frame 2, …, frame `n`. -/
theorem C20_load_order (n : Nat) (listing : List Nat) (h : listing.Perm ((List.range n).map (· + 1))) :
    loadOrder listing = (List.range n).map (· + 1) := by
  obtain ⟨hp, hs⟩ := loadOrder_spec listing
  refine List.Perm.eq_of_pairwise (le := (· ≤ ·)) (fun a b _ _ h1 h2 => Nat.le_antisymm h1 h2) hs ?_ (hp.trans h)
  rw [List.pairwise_map]
  exact (List.pairwise_lt_range (n := n)).imp (fun h => by omega)

/-- the k-th frame is drawn from the schedule after the first k recorded dispatches (C02 replay), and it is the
k-th file loaded -/
theorem C20_frame_k (I : Instance) (h : List (Nat × Nat × Nat)) (k : Nat) (hk : k < h.length)
    (listing : List Nat) (hl : listing.Perm ((List.range h.length).map (· + 1))) :
    (loadOrder listing)[k]? = some (k + 1) ∧
    replay I (init I) (h.take (k + 1)) = replay I (replay I (init I) (h.take k)) ((h.drop k).take 1) := by
  constructor
  · rw [C20_load_order h.length listing hl]; simp [hk]
  · rw [← replay_append]
    congr 1
    rw [List.take_add_one]
    cases hd : h[k]? with
    | none => simp [List.getElem?_eq_none_iff] at hd; omega
    | some x => simp [List.drop_eq_getElem_cons hk, List.getElem?_eq_some_iff.1 hd |>.2]

/-! ## bars and ticks -/

theorem bars_length (s : State) : (bars s).length = numScheduled s := by
  simp only [bars, numScheduled, List.length_flatMap, List.length_map]
  have : s.sched.zipIdx.map (fun p => p.1.length) = s.sched.map List.length := by
    rw [show (fun p : List SOp × Nat => p.1.length) = List.length ∘ Prod.fst from rfl, ← List.map_map,
      List.zipIdx_eq_zip_range', List.map_fst_zip (by simp)]
  simpa using congrArg List.sum this

/-- **C20 (bars).** The chart draws exactly one bar per scheduled operation, machine list by machine list: the bar of
entry `x` listed on machine `m` sits in row `1 + 10·m`, starts at `x.start`, is `x.dur` wide and takes its colour
from `x.job`. -/
theorem C20_bars (s : State) :
    bars s = s.sched.zipIdx.flatMap (fun (ms, mi) => ms.map fun x => (⟨1 + 10 * mi, x.start, x.dur, x.job⟩ : Bar)) ∧
    (bars s).length = numScheduled s := by
  refine ⟨?_, bars_length s⟩
  simp only [bars, SOp.end_]
  congr 1
  funext p
  obtain ⟨ms, mi⟩ := p
  simp only
  apply List.map_congr_left
  intro x _
  congr 1
  omega

/-- **C20 (bars, every reachable schedule).** In every state a dispatcher can reach, the bars are exactly the
entries of the schedule: each sits in the row of the machine *its operation was assigned to*, and every scheduled
entry has its bar. -/
theorem C20_bars_reachable (c : Cfg) (hv : Valid c.I) (evs : List Ev) (b : Bar) :
    b ∈ bars (run c evs) ↔
      ∃ x ∈ (run c evs).sched.flatten, b = ⟨1 + 10 * x.machine, x.start, x.dur, x.job⟩ := by
  have hin := (inv_run hv evs).cinv.inList
  generalize run c evs = s at *
  rw [(C20_bars s).1]
  simp only [List.mem_flatMap, List.mem_map, List.mem_flatten, Prod.exists]
  constructor
  · rintro ⟨ms, mi, hmem, x, hx, rfl⟩
    have hget := List.mem_zipIdx_iff_getElem?.1 hmem
    have hxm : x.machine = mi := hin mi x (by simp [List.getD_eq_getElem?_getD, hget, hx])
    exact ⟨x, ⟨ms, List.mem_of_getElem? hget, hx⟩, by rw [hxm]⟩
  · rintro ⟨x, ⟨ms, hms, hx⟩, rfl⟩
    obtain ⟨mi, hget⟩ := List.getElem?_of_mem hms
    have hxm : x.machine = mi := hin mi x (by simp [List.getD_eq_getElem?_getD, hget, hx])
    exact ⟨ms, mi, List.mem_zipIdx_iff_getElem?.2 hget, x, hx, by rw [hxm]⟩

theorem xticks_last (xlim n : Nat) : (xticks xlim n).getLast? = some xlim := by
  simp only [xticks]
  split
  · rename_i h; simpa using h
  · simp

/-- **C20 (time axis).** The last tick is the makespan (or the requested limit) and no tick exceeds it. -/
theorem C20_ticks (xlim n : Nat) :
    (xticks xlim n).getLast? = some xlim ∧ ∀ t ∈ xticks xlim n, t ≤ xlim := by
  refine ⟨xticks_last xlim n, ?_⟩
  have hstep : 0 < max 1 (xlim / n) := by omega
  have hall : ∀ t ∈ (List.range (xlim / max 1 (xlim / n) + 1)).map (· * max 1 (xlim / n)), t ≤ xlim := by
    intro t ht
    simp only [List.mem_map, List.mem_range] at ht
    obtain ⟨k, hk, rfl⟩ := ht
    calc k * max 1 (xlim / n) ≤ (xlim / max 1 (xlim / n)) * max 1 (xlim / n) :=
          Nat.mul_le_mul_right _ (by omega)
      _ ≤ xlim := Nat.div_mul_le_self _ _
  intro t ht
  simp only [xticks] at ht
  split at ht
  · exact hall t ht
  · rcases List.mem_append.1 ht with h | h
    · exact hall t (List.dropLast_subset _ h)
    · simp at h; omega

/-! non-vacuity: frame 100 sorts after frame 11 and 99; frame 1000 after 101 -/
example : loadOrder [100, 11, 1000, 99, 101, 9] = [9, 11, 99, 100, 101, 1000] := by
  obtain ⟨hp, hs⟩ := loadOrder_spec [100, 11, 1000, 99, 101, 9]
  exact List.Perm.eq_of_pairwise (le := (· ≤ ·)) (fun a b _ _ h1 h2 => Nat.le_antisymm h1 h2) hs (by decide)
    (hp.trans (by decide))
example : frameKeyLe 99 100 = true ∧ frameKeyLe 100 11 = false := by
  exact ⟨(frameKeyLe_iff 99 100).2 (by omega), by
    cases h : frameKeyLe 100 11
    · rfl
    · exact absurd ((frameKeyLe_iff 100 11).1 h) (by omega)⟩

end JS

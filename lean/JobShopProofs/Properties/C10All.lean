import JobShopProofs.HistoryWorld
import JobShopProofs.Unsubscribed
/-! Everything the C10 check audits, in one module. -/

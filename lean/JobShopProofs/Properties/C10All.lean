import JobShopProofs.HistoryWorld
import JobShopProofs.Unsubscribed
import JobShopProofs.NotifyRound
/-! Everything the C10 check audits, in one module. -/

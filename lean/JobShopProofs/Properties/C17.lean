import JobShopModel.Features
import JobShopProofs.Properties.C16
/-!
# C17 — the residual graph hides only the decided and everything done

Graph level: `GInv` (a removed node has no outgoing edge and no edge points to a removed or non-existent
node) holds for every graph the four builders produce and is preserved by `remove_node` with its
isolated-node sweep and by every update of the residual graph updater; hence after every history no
remaining edge touches a removed node, the `removed_nodes` mask agrees with the adjacency structure, and
removals are permanent within an episode.  Which nodes get removed (completed ⊆ removed operations ⊆
scheduled; machine/job nodes only when all their operations are scheduled; all nodes at the end) is
validated by the differential run and the oracle on the real graph.
-/
namespace JS

structure GInv (g : Graph) : Prop where
  lenA : g.adj.length = g.nodes.length
  lenR : g.removed.length = g.nodes.length
  /-- a removed node has no outgoing edges -/
  noOut : ∀ u, u < g.nodes.length → g.removed.getD u true = true → g.adj.getD u [] = []
  /-- every edge points to a node that exists and is not removed -/
  target : ∀ w e, e ∈ g.adj.getD w [] → g.present e.1 = true

theorem ginv_empty : GInv {} := by
  constructor <;> simp [Graph.present]

theorem getD_append_lt {α} (l : List α) (a d : α) (k : Nat) (h : k < l.length) : (l ++ [a]).getD k d = l.getD k d := by
  simp [List.getD_eq_getElem?_getD, List.getElem?_append_left h]

theorem ginv_addNode {g : Graph} (h : GInv g) (k : NodeKind) : GInv (g.addNode k) := by
  constructor
  · simp [Graph.addNode, h.lenA]
  · simp [Graph.addNode, h.lenR]
  · intro u hu hr
    simp only [Graph.addNode, List.length_append, List.length_singleton] at hu hr ⊢
    by_cases hlt : u < g.nodes.length
    · rw [getD_append_lt _ _ _ _ (by rw [h.lenR]; exact hlt)] at hr
      rw [getD_append_lt _ _ _ _ (by rw [h.lenA]; exact hlt)]
      exact h.noOut u hlt hr
    · have : u = g.removed.length := by rw [h.lenR]; omega
      subst this
      simp [List.getD_eq_getElem?_getD] at hr
  · intro w e he
    simp only [Graph.addNode] at he ⊢
    have hmem : e ∈ g.adj.getD w [] := by
      by_cases hlt : w < g.adj.length
      · rwa [getD_append_lt _ _ _ _ hlt] at he
      · simp only [List.getD_eq_getElem?_getD] at he
        by_cases heq : w = g.adj.length
        · subst heq; simp at he
        · rw [List.getElem?_eq_none (by simp; omega)] at he; simp at he
    have := h.target w e hmem
    simp only [Graph.present, Bool.and_eq_true, decide_eq_true_eq, Bool.not_eq_true'] at this ⊢
    refine ⟨by simp; omega, ?_⟩
    rw [getD_append_lt _ _ _ _ (by rw [h.lenR]; exact this.1)]
    exact this.2

theorem addEdge_present (g : Graph) (u v : Nat) (t : EType) (x : Nat) : (g.addEdge u v t).present x = g.present x := by
  unfold Graph.addEdge; split <;> rfl

theorem ginv_addEdge {g : Graph} (h : GInv g) (u v : Nat) (t : EType) : GInv (g.addEdge u v t) := by
  by_cases hp : (g.present u && g.present v) = true
  · have hp' := hp
    simp only [Bool.and_eq_true] at hp'
    obtain ⟨hu, hv⟩ := hp'
    have hul : u < g.adj.length := by
      simp only [Graph.present, Bool.and_eq_true, decide_eq_true_eq] at hu; rw [h.lenA]; exact hu.1
    have hadj : (g.addEdge u v t).adj = g.adj.modify u fun l =>
        if l.any (·.1 == v) then l.map fun e => if e.1 == v then (v, t) else e else l ++ [(v, t)] := by
      unfold Graph.addEdge; rw [if_pos hp]
    have hnodes : (g.addEdge u v t).nodes = g.nodes := by unfold Graph.addEdge; split <;> rfl
    have hremoved : (g.addEdge u v t).removed = g.removed := by unfold Graph.addEdge; split <;> rfl
    constructor
    · rw [hadj, hnodes]; simp [h.lenA]
    · rw [hremoved, hnodes]; exact h.lenR
    · intro k hk hr
      rw [hnodes] at hk
      rw [hremoved] at hr
      rw [hadj, getD_modify_eq _ _ _ _ hul]
      by_cases hku : k = u
      · subst hku
        simp only [Graph.present, Bool.and_eq_true, decide_eq_true_eq, Bool.not_eq_true'] at hu
        rw [hu.2] at hr; cases hr
      · simp only [hku, ↓reduceIte]; exact h.noOut k hk hr
    · intro w e he
      rw [addEdge_present]
      rw [hadj, getD_modify_eq _ _ _ _ hul] at he
      by_cases hwu : w = u
      · subst hwu
        simp only [↓reduceIte] at he
        split at he
        · simp only [List.mem_map] at he
          obtain ⟨e0, he0, rfl⟩ := he
          split
          · exact hv
          · exact h.target w e0 he0
        · rcases List.mem_append.1 he with h1 | h1
          · exact h.target w e h1
          · simp only [List.mem_singleton] at h1; subst h1; exact hv
      · simp only [hwu, ↓reduceIte] at he
        exact h.target w e he
  · have : g.addEdge u v t = g := by unfold Graph.addEdge; rw [if_neg hp]
    rw [this]; exact h

theorem ginv_addBoth {g : Graph} (h : GInv g) (u v : Nat) (t : EType) : GInv (addBoth g u v t) :=
  ginv_addEdge (ginv_addEdge h u v t) v u t

theorem ginv_foldl {α} (f : Graph → α → Graph) (hf : ∀ g a, GInv g → GInv (f g a)) :
    ∀ (l : List α) (g : Graph), GInv g → GInv (l.foldl f g)
  | [], _, h => h
  | a :: t, g, h => ginv_foldl f hf t _ (hf g a h)

/-- **C17 (built graphs are well formed).** Every graph a builder produces satisfies `GInv` (with no node removed). -/
theorem C17_built_inv (b : Builder) (I : Instance) : GInv (build b I) := by
  have hop : GInv (opNodesGraph I) := ginv_foldl _ (fun g _ h => ginv_addNode h _) _ _ ginv_empty
  have hdisj : ∀ g, GInv g → GInv (addDisjunctiveEdges I g) := fun g h =>
    ginv_foldl _ (fun g _ h => ginv_foldl _ (fun g ab h => ginv_addBoth h _ _ _) _ _ h) _ _ h
  have hconj : ∀ g, GInv g → GInv (addConjunctiveEdges I g) := fun g h =>
    ginv_foldl _ (fun g _ h => ginv_foldl _ (fun g ab h => ginv_addEdge h _ _ _) _ _ h) _ _ h
  have hss : ∀ g, GInv g → GInv (addSourceSink I g) := by
    intro g h
    unfold addSourceSink
    simp only
    apply ginv_foldl
    · intro g j h
      split
      · exact ginv_addEdge (ginv_addEdge h _ _ _) _ _ _
      · exact h
    · exact ginv_addNode (ginv_addNode h _) _
  have hmn : ∀ g, GInv g → GInv (addMachineNodes I g) := fun g h => ginv_foldl _ (fun g _ h => ginv_addNode h _) _ _ h
  have hjn : ∀ g, GInv g → GInv (addJobNodes I g) := fun g h => ginv_foldl _ (fun g _ h => ginv_addNode h _) _ _ h
  have hom : ∀ g, GInv g → GInv (addOperationMachineEdges I g) := fun g h =>
    ginv_foldl _ (fun g _ h => ginv_foldl _ (fun g _ h => ginv_addBoth h _ _ _) _ _ h) _ _ h
  have hmm : ∀ g, GInv g → GInv (addMachineMachineEdges I g) := fun g h =>
    ginv_foldl _ (fun g ab h => ginv_addBoth h _ _ _) _ _ h
  have hsj : ∀ g, GInv g → GInv (addSameJobEdges I g) := fun g h =>
    ginv_foldl _ (fun g _ h => ginv_foldl _ (fun g ab h => ginv_addBoth h _ _ _) _ _ h) _ _ h
  have hoj : ∀ g, GInv g → GInv (addOperationJobEdges I g) := fun g h =>
    ginv_foldl _ (fun g _ h => ginv_foldl _ (fun g _ h => ginv_addBoth h _ _ _) _ _ h) _ _ h
  have hjj : ∀ g, GInv g → GInv (addJobJobEdges I g) := fun g h =>
    ginv_foldl _ (fun g ab h => ginv_addBoth h _ _ _) _ _ h
  have hgl : ∀ g, GInv g → GInv (addGlobal I g) := by
    intro g h
    unfold addGlobal
    simp only
    exact ginv_foldl _ (fun g _ h => ginv_addBoth h _ _ _) _ _
      (ginv_foldl _ (fun g _ h => ginv_addBoth h _ _ _) _ _ (ginv_addNode h _))
  cases b
  · exact hss _ (hconj _ (hdisj _ hop))
  · exact hsj _ (hmm _ (hom _ (hmn _ hop)))
  · exact hjj _ (hoj _ (hjn _ (hmm _ (hom _ (hmn _ hop)))))
  · exact hgl _ (hoj _ (hjn _ (hom _ (hmn _ hop))))

/-! ## removal -/

theorem getD_map {α β} (l : List α) (f : α → β) (k : Nat) (d : α) (d' : β) (h : k < l.length) :
    (l.map f).getD k d' = f (l.getD k d) := by
  simp [List.getD_eq_getElem?_getD, List.getElem?_eq_getElem h]

theorem ginv_dropNode {g : Graph} (h : GInv g) (u : Nat) (hu : u < g.nodes.length) : GInv (g.dropNode u) := by
  have hul : u < g.adj.length := by rw [h.lenA]; exact hu
  have hur : u < g.removed.length := by rw [h.lenR]; exact hu
  have hadj : ∀ k, k < g.nodes.length → (g.dropNode u).adj.getD k [] =
      if k = u then [] else (g.adj.getD k []).filter (·.1 != u) := by
    intro k hk
    simp only [Graph.dropNode]
    rw [getD_map _ _ k [] [] (by simp [h.lenA]; exact hk), getD_set_eq _ _ _ _ hul]
    by_cases hku : k = u <;> simp [hku]
  have hrem : ∀ k, (g.dropNode u).removed.getD k true = if k = u then true else g.removed.getD k true := by
    intro k; simp only [Graph.dropNode]; exact getD_set_eq _ _ _ _ hur k
  constructor
  · simp [Graph.dropNode, h.lenA]
  · simp [Graph.dropNode, h.lenR]
  · intro k hk hr
    have hk' : k < g.nodes.length := hk
    rw [hadj k hk']
    rw [hrem] at hr
    by_cases hku : k = u
    · simp [hku]
    · simp only [hku, ↓reduceIte] at hr ⊢
      rw [h.noOut k hk' hr]; rfl
  · intro w e he
    by_cases hw : w < g.nodes.length
    · rw [hadj w hw] at he
      by_cases hwu : w = u
      · simp [hwu] at he
      · simp only [hwu, ↓reduceIte, List.mem_filter, bne_iff_ne, ne_eq] at he
        have := h.target w e he.1
        simp only [Graph.present, Bool.and_eq_true, decide_eq_true_eq, Bool.not_eq_true'] at this ⊢
        refine ⟨this.1, ?_⟩
        rw [hrem]; simp only [he.2, ↓reduceIte]; exact this.2
    · have : (g.dropNode u).adj.getD w [] = [] := by
        simp only [List.getD_eq_getElem?_getD]
        rw [List.getElem?_eq_none (by simp [Graph.dropNode, h.lenA]; omega)]; rfl
      rw [this] at he; cases he

theorem dropNode_nodes (g : Graph) (u : Nat) : (g.dropNode u).nodes = g.nodes := rfl

theorem ginv_removeNode {g : Graph} (h : GInv g) (u : Nat) (hu : u < g.nodes.length) : GInv (g.removeNode u) := by
  unfold Graph.removeNode
  simp only
  have h1 := ginv_dropNode h u hu
  have : ∀ (l : List Nat) (g' : Graph), GInv g' → (∀ v ∈ l, v < g'.nodes.length) →
      GInv (l.foldl (fun g v => g.dropNode v) g') := by
    intro l
    induction l with
    | nil => intro g' hg _; exact hg
    | cons a t ih =>
      intro g' hg hl
      simp only [List.foldl_cons]
      exact ih _ (ginv_dropNode hg a (hl a (by simp))) (fun v hv => by rw [dropNode_nodes]; exact hl v (by simp [hv]))
  apply this _ _ h1
  intro v hv
  simp only [List.mem_filter, List.mem_range] at hv
  exact hv.1

/-- **C17 (no dangling edges).** In a graph satisfying `GInv` — every built graph, and every graph obtained from one
by any number of `remove_node` calls — no remaining edge touches a removed node. -/
theorem C17_no_dangling_edges {g : Graph} (h : GInv g) : ∀ e ∈ g.edges, g.present e.1 = true ∧ g.present e.2.1 = true := by
  intro e he
  simp only [Graph.edges, List.mem_flatMap, List.mem_range] at he
  obtain ⟨u, hu, he⟩ := he
  split at he
  · rename_i hp
    simp only [List.mem_map] at he
    obtain ⟨e0, he0, rfl⟩ := he
    exact ⟨hp, h.target u e0 he0⟩
  · cases he

theorem dropNode_removed_mono (g : Graph) (u k : Nat) (h : g.removed.getD k true = true) :
    (g.dropNode u).removed.getD k true = true := by
  simp only [Graph.dropNode, List.getD_eq_getElem?_getD, List.getElem?_set] at h ⊢
  split
  · split <;> simp_all
  · exact h

/-- **C17 (removals are permanent).** `remove_node` never un-removes a node, and it does remove its argument. -/
theorem C17_removed_monotone (g : Graph) (u : Nat) (hu : u < g.removed.length) :
    (∀ k, g.removed.getD k true = true → (g.removeNode u).removed.getD k true = true) ∧
    (g.removeNode u).removed.getD u true = true := by
  have hfold : ∀ (l : List Nat) (g' : Graph) (k : Nat), g'.removed.getD k true = true →
      (l.foldl (fun g v => g.dropNode v) g').removed.getD k true = true := by
    intro l
    induction l with
    | nil => intro _ _ h; exact h
    | cons a t ih => intro g' k h; simp only [List.foldl_cons]; exact ih _ k (dropNode_removed_mono g' a k h)
  constructor
  · intro k hk
    exact hfold _ _ k (dropNode_removed_mono g u k hk)
  · apply hfold
    simp [Graph.dropNode, List.getD_eq_getElem?_getD, hu]

theorem ginv_removeIf {g : Graph} (hg : GInv g) (nid : Nat) (cond : Bool) : GInv (removeIf g nid cond) := by
  unfold removeIf
  split
  · rename_i hc
    simp only [Bool.and_eq_true, Bool.not_eq_true'] at hc
    have hlt : nid < g.nodes.length := by
      rw [← hg.lenR]
      apply Classical.byContradiction; intro hn
      have : g.removed[nid]? = none := List.getElem?_eq_none (by omega)
      simp [List.getD_eq_getElem?_getD, this] at hc
    exact ginv_removeNode hg nid hlt
  · exact hg

/-- the residual updater's update only ever calls `remove_node` on nodes of the graph -/
theorem residualUpdate_inv (c : Cfg) (s : State) (heap : List FObs) (o : FObs) (h : GInv o.graph) :
    GInv (residualUpdate c s heap o) := by
  unfold residualUpdate
  simp only
  have h1 : GInv (removeCompletedOps c.I o.graph (completedPure c s)) :=
    ginv_foldl _ (fun g r hg => ginv_removeIf hg _ _) _ _ h
  have hfl : ∀ (g : Graph) (flags : List Int) (kind : Nat → NodeKind), GInv g → GInv (removeFlagged g flags kind) :=
    fun g flags kind hg => ginv_foldl _ (fun g fm hg => ginv_removeIf hg _ _) _ _ hg
  have hite : ∀ (cnd : Bool) (a b : Graph), GInv a → GInv b → GInv (if cnd = true then a else b) := by
    intro cnd a b ha hb; split <;> assumption
  apply hite
  · exact hfl _ _ _ (hite _ _ _ (hfl _ _ _ h1) h1)
  · exact hite _ _ _ (hfl _ _ _ h1) h1

/-- **C17 (every update keeps the graph consistent).** -/
theorem C17_removeNode_spec {g : Graph} (h : GInv g) (u : Nat) (hu : u < g.nodes.length) :
    GInv (g.removeNode u) ∧ (g.removeNode u).nodes = g.nodes := by
  refine ⟨ginv_removeNode h u hu, ?_⟩
  unfold Graph.removeNode
  simp only
  have : ∀ (l : List Nat) (g' : Graph), (l.foldl (fun g v => g.dropNode v) g').nodes = g'.nodes := by
    intro l
    induction l with
    | nil => intro _; rfl
    | cons a t ih => intro g'; simp only [List.foldl_cons]; rw [ih]; rfl
  rw [this]; rfl

/-! ## completed operations are removed -/

theorem removeIf_mono (g : Graph) (nid : Nat) (cond : Bool) (k : Nat) (h : g.removed.getD k true = true) :
    (removeIf g nid cond).removed.getD k true = true := by
  unfold removeIf
  split
  · rename_i hc
    simp only [Bool.and_eq_true, Bool.not_eq_true'] at hc
    have hlt : nid < g.removed.length := by
      apply Classical.byContradiction; intro hn
      have : g.removed[nid]? = none := List.getElem?_eq_none (by omega)
      simp [List.getD_eq_getElem?_getD, this] at hc
    exact (C17_removed_monotone g nid hlt).1 k h
  · exact h

/-- `removeIf g nid true` leaves `nid` removed (or out of range) -/
theorem removeIf_sets (g : Graph) (nid : Nat) : (removeIf g nid true).removed.getD nid true = true := by
  unfold removeIf
  split
  · rename_i hc
    simp only [Bool.and_eq_true, Bool.not_eq_true', true_and] at hc
    have hlt : nid < g.removed.length := by
      apply Classical.byContradiction; intro hn
      have : g.removed[nid]? = none := List.getElem?_eq_none (by omega)
      simp [List.getD_eq_getElem?_getD, this] at hc
    exact (C17_removed_monotone g nid hlt).2
  · rename_i hc
    cases h : g.removed.getD nid true with
    | true => rfl
    | false => exact absurd (by rw [h]; rfl) hc

theorem foldl_removeIf_mono {α} (f : Graph → α → Nat) (cnd : Graph → α → Bool) : ∀ (l : List α) (g : Graph) (k : Nat),
    g.removed.getD k true = true → (l.foldl (fun g a => removeIf g (f g a) (cnd g a)) g).removed.getD k true = true
  | [], _, _, h => h
  | a :: t, g, k, h => by
    simp only [List.foldl_cons]
    exact foldl_removeIf_mono f cnd t _ k (removeIf_mono g _ _ k h)

/-- **C17 (completed operations are removed).** After every update of the residual graph updater, the node of every
completed operation is removed (and stays removed: `C17_removed_monotone`). -/
theorem C17_completed_removed (c : Cfg) (s : State) (heap : List FObs) (o : FObs) (r : OpRef)
    (hr : r ∈ completedPure c s) :
    (residualUpdate c s heap o).removed.getD (opId c.I r) true = true := by
  unfold residualUpdate
  simp only
  -- after the first stage the node is removed
  have h1 : (removeCompletedOps c.I o.graph (completedPure c s)).removed.getD (opId c.I r) true = true := by
    unfold removeCompletedOps
    generalize completedPure c s = refs at hr
    generalize o.graph = g
    induction refs generalizing g with
    | nil => cases hr
    | cons a t ih =>
      simp only [List.foldl_cons]
      rcases List.mem_cons.1 hr with rfl | ht
      · exact foldl_removeIf_mono (fun _ x => opId c.I x) (fun _ _ => true) t _ _ (removeIf_sets g _)
      · exact ih ht _
  -- the later stages only remove more
  have hfl : ∀ (g : Graph) (flags : List Int) (kind : Nat → NodeKind), g.removed.getD (opId c.I r) true = true →
      (removeFlagged g flags kind).removed.getD (opId c.I r) true = true := by
    intro g flags kind hg
    unfold removeFlagged
    exact foldl_removeIf_mono (fun g (fm : Int × Nat) => nodeIdOf g (kind fm.2)) (fun _ fm => fm.1 == 1) _ g _ hg
  have hite : ∀ (cnd : Bool) (a b : Graph), a.removed.getD (opId c.I r) true = true →
      b.removed.getD (opId c.I r) true = true → (if cnd = true then a else b).removed.getD (opId c.I r) true = true := by
    intro cnd a b ha hb; split <;> assumption
  apply hite
  · exact hfl _ _ _ (hite _ _ _ (hfl _ _ _ h1) h1)
  · exact hite _ _ _ (hfl _ _ _ h1) h1

/-! non-vacuity -/
set_option maxRecDepth 100000 in
example :
    let c : Cfg := { I := posInstance }
    let w := FWorld.run c [.residual .completeAgentTask true true, .disp 0 0 (some 0), .disp 1 0 none, .disp 0 1 none,
      .disp 1 1 (some 0)]
    (w.heap[3]?.map fun o => o.graph.removed.all id) = some true := by decide

end JS

import JobShopProofs.FeatureWorld
import JobShopProofs.EstSemantics
/-!
# C11 at full strength on the model: every reachable feature world

`C11_world`: construct any observers on the fresh dispatcher (any kinds, feature-type subsets, order; helpers are created
lazily as in the code; composites and graph updaters may be in the list), then run ANY sequence of dispatch requests
(accepted or rejected, any machine choices) and resets.  In the world reached, every subscribed feature observer
reports, on the entities the property names, the from-scratch specification of `FeatureSpecs.lean` evaluated on the
current dispatcher state.  The unpacked statements below restate the clauses of `ObsVal` one observer at a time.

Hypotheses are those of the property: valid instance; with a filter installed, positive durations; machine-level
counts of `DurationObserver` / `RemainingOperationsObserver`: non-flexible instances.  The operation-level
`DurationObserver` value of a running operation is the recorded known finding (not claimed: `DurOpsOK` speaks about
unscheduled operations only).
-/
namespace JS

/-- the worlds the property quantifies over -/
structure Reached (c : Cfg) (w : FWorld) : Prop where
  ex : ∃ ctors evs : List FEv, (∀ e ∈ ctors, e.isCtor = true) ∧ (∀ e ∈ ctors, e.NodupFts) ∧
    (∀ e ∈ evs, e.isCtor = false) ∧ w = FWorld.run c (ctors ++ evs)

/-- **C11 (every observer, every feature, every history).** -/
theorem C11_world (c : Cfg) (hv : Valid c.I) (hF : c.F = none ∨ PosDurI c.I) (w : FWorld) (hw : Reached c w) :
    ∀ id ∈ w.subs, ∀ o, w.heap[id]? = some o → ObsVal c w.s o := by
  obtain ⟨ctors, evs, hct, hnd, hev, rfl⟩ := hw.ex
  obtain ⟨h, hc⟩ := finv_run c hv hF ctors evs hct hnd hev
  intro id hid o ho
  have := h.val id hid o ho
  rwa [hc] at this

section unpacked
variable (c : Cfg) (hv : Valid c.I) (hF : c.F = none ∨ PosDurI c.I) (w : FWorld) (hw : Reached c w)
variable (id : Nat) (hid : id ∈ w.subs) (o : FObs) (ho : w.heap[id]? = some o)
include hv hF hw hid ho

/-- readiness: indicator of the available operations / their machines / their jobs -/
theorem C11_world_isReady (hk : o.kind = .isReady) (ft : FT) (hft : ft ∈ o.fts) :
    o.col ft = indicator (numEntities c.I ft) (readyIds c w.s ft) :=
  (C11_world c hv hF w hw id hid o ho).ready hk ft hft

/-- earliest start of every unscheduled operation, relative to the current time -/
theorem C11_world_est_ops (hk : o.kind = .earliestStart) (hft : FT.operations ∈ o.fts) (r : OpRef)
    (hr : r ∈ unscheduledPure c.I w.s) :
    (o.col .operations).getD (opId c.I r) 0 = estSpec c.I w.s r - currentTimePure c w.s :=
  (C11_world c hv hF w hw id hid o ho).estOps hk hft r hr

theorem C11_world_est_machines (hk : o.kind = .earliestStart) (hft : FT.machines ∈ o.fts) (m : Nat)
    (hm : m < numMachines c.I) :
    (o.col .machines).getD m 0 =
      ((((unscheduledPure c.I w.s).filter (onMachine c.I m)).map (estSpec c.I w.s)).min?).getD 0
        - currentTimePure c w.s :=
  (C11_world c hv hF w hw id hid o ho).estMach hk hft m hm

theorem C11_world_est_jobs (hk : o.kind = .earliestStart) (hft : FT.jobs ∈ o.fts) (j : Nat) (hj : j < c.I.length)
    (hleft : w.s.jobIdx.getD j 0 < (c.I.getD j []).length) :
    (o.col .jobs).getD j 0 = estSpec c.I w.s (j, w.s.jobIdx.getD j 0) - currentTimePure c w.s :=
  (C11_world c hv hF w hw id hid o ho).estJobs hk hft j hj hleft

/-- duration: unscheduled operations keep their duration; jobs (and machines of non-flexible instances) report the
total duration of their unscheduled operations -/
theorem C11_world_duration_ops (hk : o.kind = .duration) (hft : FT.operations ∈ o.fts) (r : OpRef)
    (hr : r ∈ unscheduledPure c.I w.s) : (o.col .operations).getD (opId c.I r) 0 = opDurF c.I r :=
  ((C11_world c hv hF w hw id hid o ho).durOps hk hft).2 r hr

theorem C11_world_duration_jobs (hk : o.kind = .duration) (hft : FT.jobs ∈ o.fts) :
    o.col .jobs = durJobsSpec c.I w.s :=
  (C11_world c hv hF w hw id hid o ho).durJobs hk hft

theorem C11_world_duration_machines (hk : o.kind = .duration) (hn : NonFlexG c.I) (hft : FT.machines ∈ o.fts) :
    o.col .machines = durMachSpec c.I w.s :=
  (C11_world c hv hF w hw id hid o ho).durMach hk hn hft

/-- scheduled flag and numbers of ongoing operations -/
theorem C11_world_isScheduled_ops (hk : o.kind = .isScheduled) (hft : FT.operations ∈ o.fts) :
    o.col .operations = schedOpsSpec c.I w.s :=
  (C11_world c hv hF w hw id hid o ho).schOps hk hft

theorem C11_world_isScheduled_machines (hk : o.kind = .isScheduled) (hft : FT.machines ∈ o.fts) :
    o.col .machines = ongoingMachSpec c w.s :=
  (C11_world c hv hF w hw id hid o ho).schMach hk hft

theorem C11_world_isScheduled_jobs (hk : o.kind = .isScheduled) (hft : FT.jobs ∈ o.fts) :
    o.col .jobs = ongoingJobsSpec c w.s :=
  (C11_world c hv hF w hw id hid o ho).schJobs hk hft

/-- position among the unscheduled operations of the job -/
theorem C11_world_position (hk : o.kind = .positionInJob) (hft : FT.operations ∈ o.fts) (r : OpRef)
    (hr : r ∈ unscheduledPure c.I w.s) : (o.col .operations).getD (opId c.I r) 0 = posSpec w.s r :=
  ((C11_world c hv hF w hw id hid o ho).pos hk hft).2 r hr

/-- remaining operations -/
theorem C11_world_remaining_jobs (hk : o.kind = .remainingOps) (hft : FT.jobs ∈ o.fts) :
    o.col .jobs = remJobsSpec c.I w.s :=
  (C11_world c hv hF w hw id hid o ho).remJobs hk hft

theorem C11_world_remaining_machines (hk : o.kind = .remainingOps) (hn : NonFlexG c.I) (hft : FT.machines ∈ o.fts) :
    o.col .machines = remMachSpec c.I w.s :=
  (C11_world c hv hF w hw id hid o ho).remMach hk (Or.inl hn) hft

/-- completion flags (flexible instances included) -/
theorem C11_world_completed_ops (hk : o.kind = .isCompleted) (hft : FT.operations ∈ o.fts) :
    o.col .operations = complOpsSpec c w.s :=
  (C11_world c hv hF w hw id hid o ho).cmpOps hk hft

theorem C11_world_completed_jobs (hk : o.kind = .isCompleted) (hft : FT.jobs ∈ o.fts) :
    o.col .jobs = complJobsSpec c.I w.s :=
  ((C11_world c hv hF w hw id hid o ho).cmpJobs hk hft).2

theorem C11_world_completed_machines (hk : o.kind = .isCompleted) (hft : FT.machines ∈ o.fts) :
    o.col .machines = complMachSpec c.I w.s :=
  ((C11_world c hv hF w hw id hid o ho).cmpMach hk hft).2

/-- the per-job lists of `UnscheduledOperationsObserver` -/
theorem C11_world_unscheduled (hk : o.kind = .unscheduled) : o.deques = dequesSpec c.I w.s :=
  (C11_world c hv hF w hw id hid o ho).unsched hk

end unpacked

/-! ## why `estSpec` is the *earliest possible* start -/

/-- **C11 (earliest start is a lower bound).** Whatever is dispatched from a reachable state on, an operation that is
unscheduled now never starts before `estSpec`. -/
theorem C11_est_is_earliest {I : Instance} (hv : Valid I) {s : State} (hc : CInv I s) (h : List (Nat × Nat × Nat))
    (r : OpRef) (hr : r ∈ unscheduledPure I s) (x : SOp) (hx : x ∈ (runReqs I s h).sched.flatten)
    (hxr : x.job = r.1 ∧ x.pos = r.2) : estSpec I s r ≤ x.start :=
  est_lower_bound hv hc h r hr x hx hxr

/-- **C11 (… and attained for the next operation of every job).** -/
theorem C11_est_next_attained {I : Instance} (hv : Valid I) {s : State} (hc : CInv I s) (j : Nat) (op : Op)
    (hop : getOp I j (s.jobIdx.getD j 0) = some op) :
    ∃ m ∈ op.machines, ∃ s', dispatch I s j (s.jobIdx.getD j 0) m = .ok s' ∧
      startTime s j m = estSpec I s (j, s.jobIdx.getD j 0) :=
  est_next_attained hv hc j op hop

/-! ## non-vacuity: a concrete reachable world with every observer, helpers created lazily, a flexible instance -/

def c11Instance : Instance := [[⟨[0, 1], 3⟩, ⟨[1], 2⟩], [⟨[1], 4⟩, ⟨[0], 1⟩, ⟨[1], 0⟩]]

def c11Ctors : List FEv :=
  [.construct .isCompleted none, .construct .earliestStart (some [.jobs, .operations]), .construct .duration none,
   .construct .positionInJob none, .construct .isScheduled none, .construct .isReady (some [.machines]),
   .construct .remainingOps none, .composite none, .residual .agentTask true true]

def c11Events : List FEv := [.disp 0 0 (some 1), .disp 1 0 none, .disp 0 0 none, .reset, .disp 1 0 (some 1), .disp 1 1 none]

example : Reached { I := c11Instance } (FWorld.run { I := c11Instance } (c11Ctors ++ c11Events)) :=
  ⟨c11Ctors, c11Events, by decide,
    by intro e he; simp only [c11Ctors, List.mem_cons, List.not_mem_nil, or_false] at he
       rcases he with rfl | rfl | rfl | rfl | rfl | rfl | rfl | rfl | rfl <;> simp [FEv.NodupFts],
    by decide, rfl⟩

example : Valid c11Instance := valid_of_validB (by decide)

set_option maxRecDepth 100000 in
/-- in that world: 11 subscribers (3 helpers were created lazily), two accepted dispatches since the reset -/
example : (FWorld.run { I := c11Instance } (c11Ctors ++ c11Events)).subs.length = 11 ∧
    numScheduled (FWorld.run { I := c11Instance } (c11Ctors ++ c11Events)).s = 2 := by decide

end JS

import JobShopProofs.Properties.C16
import JobShopProofs.EdgeType
import JobShopProofs.GraphEdges
import JobShopProofs.SolvedEdges
/-!
# C16 — all theorems (the edge-type theorem lives in `EdgeType.lean`, which needs the graph invariant of C17)
-/

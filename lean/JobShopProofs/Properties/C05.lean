import JobShopProofs.Properties.C02
import JobShopProofs.Lemmas.Filters
/-!
# C05 — state queries agree with the schedule, whatever was asked before

`spec c s q` (in `JobShopModel/Events.lean`) is the from-scratch answer: it never reads the memo table.
`C05_answers`: in every reachable state, after any finite sequence of earlier queries (any order, any
repetition), the method call returns `spec`.  The remaining theorems tie `spec` itself to the *schedule*:
scheduled = the operations that appear in the schedule, unscheduled = the others, ongoing = scheduled
operations that end after the current time, and the partition laws.
-/
namespace JS

/-- ask a list of queries one after the other; return the answers -/
def askAll (c : Cfg) : State → List Query → List Answer × State
  | s, [] => ([], s)
  | s, q :: qs => let r := ask c s q; let rs := askAll c r.2 qs; (r.1 :: rs.1, rs.2)

theorem askAll_ok (c : Cfg) : ∀ (qs : List Query) (s : State), CacheOK c s →
    (askAll c s qs).1 = qs.map (spec c s) ∧ CacheOK c (askAll c s qs).2 ∧ ∃ k, (askAll c s qs).2 = setCache s k
  | [], s, h => ⟨rfl, h, ⟨s.cache, rfl⟩⟩
  | q :: qs, s, h => by
    obtain ⟨hv, hok, k, hk⟩ := ask_ok c s h q
    obtain ⟨hv2, hok2, k2, hk2⟩ := askAll_ok c qs (ask c s q).2 hok
    refine ⟨?_, hok2, ⟨k2, ?_⟩⟩
    · rw [hk] at hv2
      simp only [askAll, List.map_cons, hv, hk, hv2]
      have : spec c (setCache s k) = spec c s := funext (spec_setCache c s k)
      rw [this]
    · simp only [askAll]; rw [hk2, hk]; rfl

/-- **C05 (answers).** In every reachable state, every answer in any finite sequence of queries equals
the from-scratch `spec` of that state: no answer depends on which queries came before, how often, or
in what order. -/
theorem C05_answers (c : Cfg) (hv : Valid c.I) (evs : List Ev) (qs : List Query) :
    (askAll c (run c evs) qs).1 = qs.map (spec c (run c evs)) :=
  (askAll_ok c qs _ (inv_run hv evs).cache).1

/-- `spec` is a function of the tracking vectors and the schedule only: it ignores the memo. -/
theorem C05_spec_ignores_memo (c : Cfg) (s : State) (k : Cache) (q : Query) :
    spec c (setCache s k) q = spec c s q := spec_setCache c s k q

/-- **C05 (no stale memo).** Every accepted dispatch and every reset leaves the memo empty, so no answer
can reflect an earlier state. -/
theorem C05_no_stale (c : Cfg) (s : State) (e : Ev) :
    (∀ j p m s', e = .disp j p m → dispatchReq c.I s j p m = .ok s' → (stepEv c s e).1.cache = {}) ∧
    (e = .reset → (stepEv c s e).1.cache = {}) := by
  constructor
  · intro j p m s' he hd
    subst he
    simp only [stepEv, hd]
    obtain ⟨mm, op, _, _, hdd⟩ := dispatchReq_ok hd
    obtain ⟨_, hsp⟩ := dispatch_ok hdd
    rw [hsp.eq]
  · intro he; subst he; rfl

/-! ## what the answers mean in terms of the schedule -/

theorem getD_length_of_getOp {I : Instance} {j p : Nat} : (getOp I j p).isSome ↔ p < (I.getD j []).length := by
  unfold getOp
  simp only [List.getD_eq_getElem?_getD]
  cases hj : I[j]? with
  | none => simp
  | some job =>
    simp only [Option.bind_some, Option.getD_some]
    constructor
    · intro h
      cases hp : job[p]? with
      | none => simp [hp] at h
      | some _ => exact (List.getElem?_eq_some_iff.1 hp).1
    · intro h; simp [List.getElem?_eq_getElem h]

theorem mem_scheduledPure (I : Instance) (s : State) (r : OpRef) :
    r ∈ scheduledPure I s ↔ (getOp I r.1 r.2).isSome ∧ r.2 < s.jobIdx.getD r.1 0 := by
  obtain ⟨j, p⟩ := r
  unfold scheduledPure
  simp only [List.mem_flatMap, List.mem_range, List.mem_map, Prod.mk.injEq, List.mem_take_iff_getElem,
    List.getElem_range, List.length_range, getD_length_of_getOp]
  constructor
  · rintro ⟨j', hj', p', ⟨i, hi, rfl⟩, rfl, rfl⟩
    omega
  · rintro ⟨h1, h2⟩
    have hj : j < I.length := by
      apply Classical.byContradiction; intro hn
      have : I[j]? = none := List.getElem?_eq_none (by omega : I.length ≤ j)
      simp [this] at h1
    exact ⟨j, hj, p, ⟨p, by omega, rfl⟩, rfl, rfl⟩

theorem mem_unscheduledPure (I : Instance) (s : State) (r : OpRef) :
    r ∈ unscheduledPure I s ↔ (getOp I r.1 r.2).isSome ∧ s.jobIdx.getD r.1 0 ≤ r.2 := by
  obtain ⟨j, p⟩ := r
  unfold unscheduledPure
  simp only [List.mem_flatMap, List.mem_range, List.mem_map, Prod.mk.injEq, List.mem_drop_iff_getElem,
    List.getElem_range, List.length_range, getD_length_of_getOp]
  constructor
  · rintro ⟨j', hj', p', ⟨i, hi, rfl⟩, rfl, rfl⟩
    omega
  · rintro ⟨h1, h2⟩
    have hj : j < I.length := by
      apply Classical.byContradiction; intro hn
      have : I[j]? = none := List.getElem?_eq_none (by omega : I.length ≤ j)
      simp [this] at h1
    exact ⟨j, hj, p, ⟨p - s.jobIdx.getD j 0, by omega, by omega⟩, rfl, rfl⟩

/-- **C05 (scheduled = in the schedule).** In every reachable state an operation is reported scheduled
exactly when it occurs in the schedule, and unscheduled exactly when it is an operation of the instance
that does not. -/
theorem C05_scheduled_iff (c : Cfg) (hv : Valid c.I) (evs : List Ev) (r : OpRef) :
    let s := run c evs
    (r ∈ scheduledPure c.I s ↔ ∃ x ∈ s.sched.flatten, (x.job, x.pos) = r) ∧
    (r ∈ unscheduledPure c.I s ↔ (getOp c.I r.1 r.2).isSome ∧ ¬ ∃ x ∈ s.sched.flatten, (x.job, x.pos) = r) := by
  intro s
  have hi : Inv c s := inv_run hv evs
  obtain ⟨a, hr, ha, ha2⟩ := hi.cinv.abs
  have key : r.2 < s.jobIdx.getD r.1 0 ↔ ∃ x ∈ s.sched.flatten, (x.job, x.pos) = r := by
    rw [← hr.idx]
    constructor
    · intro h
      obtain ⟨x, hx, h1, h2⟩ := ha.idx_sched r.1 r.2 h
      exact ⟨x, hr.sched.mem_iff.1 hx, by rw [h1, h2]⟩
    · rintro ⟨x, hx, rfl⟩
      exact ha.sched_lt x (hr.sched.mem_iff.2 hx)
  constructor
  · rw [mem_scheduledPure, key]
    constructor
    · exact fun h => h.2
    · rintro ⟨x, hx, rfl⟩
      obtain ⟨op, hop, _⟩ := ha.sched_op x (hr.sched.mem_iff.2 hx)
      exact ⟨by simp [hop], ⟨x, hx, rfl⟩⟩
  · rw [mem_unscheduledPure, ← key]
    constructor
    · rintro ⟨h1, h2⟩; exact ⟨h1, by omega⟩
    · rintro ⟨h1, h2⟩; exact ⟨h1, by omega⟩

/-- **C05 (partition 1).** Scheduled and unscheduled operations partition the operations of the instance. -/
theorem C05_partition_sched (I : Instance) (s : State) (r : OpRef) :
    ((getOp I r.1 r.2).isSome ↔ (r ∈ scheduledPure I s ∨ r ∈ unscheduledPure I s)) ∧
    ¬ (r ∈ scheduledPure I s ∧ r ∈ unscheduledPure I s) := by
  rw [mem_scheduledPure, mem_unscheduledPure]
  constructor
  · constructor
    · intro h
      by_cases hlt : r.2 < s.jobIdx.getD r.1 0
      · left; exact ⟨h, hlt⟩
      · right; exact ⟨h, by omega⟩
    · rintro (h | h) <;> exact h.1
  · rintro ⟨h1, h2⟩; omega

/-- **C05 (ongoing).** In every reachable state the ongoing operations are exactly the scheduled operations
that end after the current time (so the backwards scan with `break` loses nothing), and completed
operations are the scheduled ones that do not. -/
theorem C05_ongoing_iff (c : Cfg) (hv : Valid c.I) (evs : List Ev) (x : SOp) :
    let s := run c evs
    x ∈ ongoingPure c s ↔ x ∈ s.sched.flatten ∧ currentTimePure c s < x.end_ := by
  intro s
  have hi : Inv c s := inv_run hv evs
  obtain ⟨a, hr, ha, ha2⟩ := hi.cinv.abs
  unfold ongoingPure ongoingAt
  simp only [List.mem_flatMap]
  constructor
  · rintro ⟨ms, hms, hx⟩
    obtain ⟨m, hm, rfl⟩ := List.mem_iff_getElem.1 hms
    have hget : s.sched.getD m [] = s.sched[m] := by simp [List.getD_eq_getElem?_getD, List.getElem?_eq_getElem hm]
    have hord := hi.cinv.ordered m
    rw [hget] at hord
    have := (mem_takeWhile_desc (currentTimePure c s) s.sched[m].reverse
      (List.pairwise_reverse.2 hord)
      (fun y hy => ha2.dur_nonneg y (hr.sched.mem_iff.2
        (List.mem_flatten.2 ⟨_, hms, List.mem_reverse.1 hy⟩))) x).1 hx
    exact ⟨List.mem_flatten.2 ⟨_, hms, List.mem_reverse.1 this.1⟩, this.2⟩
  · rintro ⟨hx, ht⟩
    obtain ⟨ms, hms, hxm⟩ := List.mem_flatten.1 hx
    obtain ⟨m, hm, rfl⟩ := List.mem_iff_getElem.1 hms
    have hget : s.sched.getD m [] = s.sched[m] := by simp [List.getD_eq_getElem?_getD, List.getElem?_eq_getElem hm]
    have hord := hi.cinv.ordered m
    rw [hget] at hord
    refine ⟨_, hms, (mem_takeWhile_desc (currentTimePure c s) s.sched[m].reverse
      (List.pairwise_reverse.2 hord)
      (fun y hy => ha2.dur_nonneg y (hr.sched.mem_iff.2
        (List.mem_flatten.2 ⟨_, hms, List.mem_reverse.1 hy⟩))) x).2 ⟨List.mem_reverse.2 hxm, ht⟩⟩

theorem mem_sortRefs (I : Instance) (l : List OpRef) (r : OpRef) :
    r ∈ sortRefs I l ↔ r ∈ allOps I ∧ r ∈ l := by
  simp [sortRefs]

/-- **C05 (partition 2).** Ongoing and completed partition the scheduled operations; uncompleted is
unscheduled followed by ongoing. -/
theorem C05_partition_ongoing (c : Cfg) (hv : Valid c.I) (evs : List Ev) (r : OpRef) :
    let s := run c evs
    (r ∈ scheduledPure c.I s ↔ (r ∈ completedPure c s ∨ r ∈ (ongoingPure c s).map fun x => (x.job, x.pos))) ∧
    ¬ (r ∈ completedPure c s ∧ r ∈ (ongoingPure c s).map fun x => (x.job, x.pos)) ∧
    uncompletedPure c s = unscheduledPure c.I s ++ (ongoingPure c s).map fun x => (x.job, x.pos) := by
  intro s
  refine ⟨?_, ?_, rfl⟩
  · simp only [completedPure, mem_sortRefs, List.mem_filter, Bool.not_eq_true', List.contains_eq_mem,
      decide_eq_false_iff_not]
    constructor
    · intro h
      by_cases ho : r ∈ (ongoingPure c s).map fun x => (x.job, x.pos)
      · right; exact ho
      · left
        refine ⟨(mem_allOps' c.I r).2 ((mem_scheduledPure c.I s r).1 h).1, h, ?_⟩
        simpa using ho
    · rintro (h | h)
      · exact h.2.1
      · simp only [List.mem_map] at h
        obtain ⟨x, hx, rfl⟩ := h
        have := ((C05_ongoing_iff c hv evs x).1 hx).1
        exact ((C05_scheduled_iff c hv evs (x.job, x.pos)).1).2 ⟨x, this, rfl⟩
  · simp only [completedPure, mem_sortRefs, List.mem_filter, Bool.not_eq_true', List.contains_eq_mem,
      decide_eq_false_iff_not]
    rintro ⟨⟨_, _, h⟩, h2⟩
    exact h (by simpa using h2)

/-- non-vacuity: a reachable state with an ongoing, a completed and unscheduled operations; the query
sequence asks `uncompleted` before `unscheduled` (the order that exposed the aliasing defect) -/
example :
    let c : Cfg := { I := exampleInstance, F := some [.dominated] }
    let s := run c [.disp 1 0 (some 1), .disp 0 0 (some 0)]
    (askAll c s [.uncompleted, .unscheduled, .ongoing, .completed, .currentTime]).1 =
      [.refs [(0, 1), (0, 2), (1, 1), (1, 0)], .refs [(0, 1), (0, 2), (1, 1)],
       .sops [⟨1, 0, 1, 0, 4⟩], .refs [(0, 0)], .int 3] := by decide

end JS

import JobShopProofs.Properties.C11World
import JobShopProofs.CompositeWorld
import JobShopProofs.LateAttach
/-!
# C11 — all theorems (`C11World`: every observer's values in every reachable world; `CompositeWorld`: the composite
is the concatenation of its parts' current matrices, with one name per column, in every reachable world)
-/

import JobShopModel.Generator
/-!
# C19 — generated instances respect the requested shape and seed

The generator is a function of its parameters and of the stream of draws its own `random.Random` produces;
the theorems hold for *every* stream (so for every seed), constrained only by what `randint`/`choice`
guarantee.
-/
namespace JS

theorem randintN_spec {a b : Nat} {draws : List Nat} {v : Nat} {d : List Nat}
    (h : randintN a b draws = .ok (v, d)) : a ≤ v ∧ v ≤ b ∧ d = draws.tail := by
  unfold randintN at h
  split at h
  · cases h
    have := Nat.mod_lt (draws.headD 0) (by omega : 0 < b - a + 1)
    exact ⟨by omega, by omega, rfl⟩
  · cases h

theorem randintI_spec {a b : Int} {draws : List Nat} {v : Int} {d : List Nat}
    (h : randintI a b draws = .ok (v, d)) : a ≤ v ∧ v ≤ b := by
  unfold randintI at h
  split at h
  · cases h
    have h1 := Int.emod_nonneg ((draws.headD 0 : Nat) : Int) (by omega : b - a + 1 ≠ 0)
    have h2 := Int.emod_lt_of_pos ((draws.headD 0 : Nat) : Int) (by omega : 0 < b - a + 1)
    exact ⟨by omega, by omega⟩
  · cases h

theorem choiceN_spec {seq draws : List Nat} {v : Nat} {d : List Nat} (h : choiceN seq draws = .ok (v, d)) :
    v ∈ seq := by
  unfold choiceN at h
  cases seq with
  | nil => cases h
  | cons a t =>
    simp only at h
    cases h
    have hlt : draws.headD 0 % (a :: t).length < (a :: t).length := Nat.mod_lt _ (by simp)
    simp only [List.getD_eq_getElem?_getD, List.getElem?_eq_getElem hlt, Option.getD_some]
    exact List.getElem_mem _

/-- every element of the sequence can be chosen: `choice` has full support -/
theorem choiceN_support (seq : List Nat) (x : Nat) (hx : x ∈ seq) (ds : List Nat) :
    ∃ d, choiceN seq (d :: ds) = .ok (x, ds) := by
  obtain ⟨i, hi, rfl⟩ := List.mem_iff_getElem.1 hx
  refine ⟨i, ?_⟩
  unfold choiceN
  cases seq with
  | nil => simp at hi
  | cons a t =>
    simp only [List.headD_cons, List.tail_cons, Nat.mod_eq_of_lt hi]
    simp [List.getD_eq_getElem?_getD, List.getElem?_eq_getElem hi]

theorem chooseMany_spec : ∀ (k : Nat) (avail draws ms d : List Nat), avail.Nodup →
    chooseMany k avail draws = .ok (ms, d) → ms.length = k ∧ ms.Nodup ∧ ∀ m ∈ ms, m ∈ avail
  | 0, _, _, _, _, _, h => by
    simp only [chooseMany] at h; cases h; simp
  | k + 1, avail, draws, ms, d, hnd, h => by
    simp only [chooseMany] at h
    cases hc : choiceN avail draws with
    | error e => simp [hc] at h
    | ok r =>
      obtain ⟨m, d1⟩ := r
      simp only [hc] at h
      cases hr : chooseMany k (avail.erase m) d1 with
      | error e => simp [hr] at h
      | ok r2 =>
        obtain ⟨ms', d2⟩ := r2
        simp only [hr] at h
        cases h
        have hm := choiceN_spec hc
        obtain ⟨h1, h2, h3⟩ := chooseMany_spec k (avail.erase m) d1 ms' d (hnd.erase m) hr
        refine ⟨by simp [h1], ?_, ?_⟩
        · rw [List.nodup_cons]
          refine ⟨?_, h2⟩
          intro hmem
          have := h3 m hmem
          exact (List.Nodup.mem_erase_iff hnd).1 this |>.1 rfl
        · intro x hx
          rcases List.mem_cons.1 hx with rfl | hx
          · exact hm
          · exact List.mem_of_mem_erase (h3 x hx)

/-- shape of one generated operation -/
structure OpShape (p : GenParams) (nm : Nat) (op : Op) : Prop where
  dur : p.durRange.1 ≤ op.dur ∧ op.dur ≤ p.durRange.2
  lt : ∀ m ∈ op.machines, m < nm
  nodup : op.machines.Nodup
  count : if p.mpo.2 > 1 then p.mpo.1 ≤ op.machines.length ∧ op.machines.length ≤ p.mpo.2 else op.machines.length = 1

theorem genOp_spec (p : GenParams) (nm : Nat) (avail draws : List Nat) (op : Op) (avail' d : List Nat)
    (hav : ∀ m ∈ avail, m < nm) (hnd : avail.Nodup) (h : genOp p avail draws = .ok (op, avail', d)) :
    OpShape p nm op ∧ (∀ m ∈ avail', m < nm) ∧ avail'.Nodup ∧
    (p.mpo.2 ≤ 1 → ∃ m, op.machines = [m] ∧ m ∈ avail ∧ avail' = if p.allowRecirc then avail else avail.erase m) := by
  unfold genOp at h
  cases hd : randintI p.durRange.1 p.durRange.2 draws with
  | error e => simp [hd] at h
  | ok r =>
    obtain ⟨dur, d1⟩ := r
    simp only [hd] at h
    have hdur := randintI_spec hd
    by_cases hk : p.mpo.2 > 1
    · simp only [hk, ↓reduceIte] at h
      cases hr : randintN p.mpo.1 p.mpo.2 d1 with
      | error e => simp [hr] at h
      | ok r2 =>
        obtain ⟨k, d2⟩ := r2
        simp only [hr] at h
        obtain ⟨hk1, hk2, _⟩ := randintN_spec hr
        cases hc : chooseMany k avail d2 with
        | error e => simp [hc] at h
        | ok r3 =>
          obtain ⟨ms, d3⟩ := r3
          simp only [hc] at h
          cases h
          obtain ⟨h1, h2, h3⟩ := chooseMany_spec k avail d2 ms d hnd hc
          refine ⟨⟨hdur, fun m hm => hav m (h3 m hm), h2, by simp [hk, h1, hk1, hk2]⟩, hav, hnd, fun hle => by omega⟩
    · simp only [hk, ↓reduceIte] at h
      cases hc : choiceN avail d1 with
      | error e => simp [hc] at h
      | ok r2 =>
        obtain ⟨m, d2⟩ := r2
        simp only [hc] at h
        cases h
        have hm := choiceN_spec hc
        refine ⟨⟨hdur, by intro x hx; simp only [List.mem_singleton] at hx; subst hx; exact hav _ hm, by simp,
          by simp [hk]⟩, ?_, ?_, fun _ => ⟨m, rfl, hm, rfl⟩⟩
        · intro x hx
          split at hx
          · exact hav x hx
          · exact hav x (List.mem_of_mem_erase hx)
        · split
          · exact hnd
          · exact hnd.erase m

theorem genJob_spec (p : GenParams) (nm : Nat) : ∀ (n : Nat) (avail draws : List Nat) (ops : List Op) (d : List Nat),
    (∀ m ∈ avail, m < nm) → avail.Nodup → genJob p n avail draws = .ok (ops, d) →
    ops.length = n ∧ (∀ op ∈ ops, OpShape p nm op) ∧
    (p.mpo.2 ≤ 1 → p.allowRecirc = false →
      ∃ rest, avail.Perm ((ops.map fun op => op.machines.headD 0) ++ rest))
  | 0, avail, draws, ops, d, _, _, h => by
    simp only [genJob] at h; cases h
    exact ⟨rfl, by simp, fun _ _ => ⟨avail, by simp⟩⟩
  | n + 1, avail, draws, ops, d, hav, hnd, h => by
    simp only [genJob] at h
    cases ho : genOp p avail draws with
    | error e => simp [ho] at h
    | ok r =>
      obtain ⟨op, avail', d1⟩ := r
      simp only [ho] at h
      cases hj : genJob p n avail' d1 with
      | error e => simp [hj] at h
      | ok r2 =>
        obtain ⟨ops', d2⟩ := r2
        simp only [hj] at h
        cases h
        obtain ⟨hs, hav', hnd', hsingle⟩ := genOp_spec p nm avail draws op avail' d1 hav hnd ho
        obtain ⟨h1, h2, h3⟩ := genJob_spec p nm n avail' d1 ops' d hav' hnd' hj
        refine ⟨by simp [h1], ?_, ?_⟩
        · intro o ho'
          rcases List.mem_cons.1 ho' with rfl | ho'
          · exact hs
          · exact h2 o ho'
        · intro hle hrc
          obtain ⟨m, hm1, hm2, hm3⟩ := hsingle hle
          obtain ⟨rest, hrest⟩ := h3 hle hrc
          refine ⟨rest, ?_⟩
          simp only [List.map_cons, hm1, List.headD_cons, List.cons_append]
          rw [hm3, hrc] at hrest
          simp only [Bool.false_eq_true, ↓reduceIte] at hrest
          exact (List.perm_cons_erase hm2).trans (List.Perm.cons m hrest)

theorem genJobs_spec (p : GenParams) (nm : Nat) : ∀ (n : Nat) (draws : List Nat) (jobs : List (List Op)) (d : List Nat),
    genJobs p nm n draws = .ok (jobs, d) →
    jobs.length = n ∧ ∀ job ∈ jobs, job.length = nm ∧ (∀ op ∈ job, OpShape p nm op) ∧
      (p.mpo.2 ≤ 1 → p.allowRecirc = false → (job.map fun op => op.machines.headD 0).Perm (List.range nm))
  | 0, draws, jobs, d, h => by simp only [genJobs] at h; cases h; simp
  | n + 1, draws, jobs, d, h => by
    simp only [genJobs] at h
    cases hj : genJob p nm (List.range nm) draws with
    | error e => simp [hj] at h
    | ok r =>
      obtain ⟨job, d1⟩ := r
      simp only [hj] at h
      cases hr : genJobs p nm n d1 with
      | error e => simp [hr] at h
      | ok r2 =>
        obtain ⟨jobs', d2⟩ := r2
        simp only [hr] at h
        cases h
        obtain ⟨h1, h2, h3⟩ := genJob_spec p nm nm (List.range nm) draws job d1
          (by intro m hm; exact List.mem_range.1 hm) List.nodup_range hj
        obtain ⟨g1, g2⟩ := genJobs_spec p nm n d1 jobs' d hr
        refine ⟨by simp [g1], ?_⟩
        intro jb hjb
        rcases List.mem_cons.1 hjb with rfl | hjb
        · refine ⟨h1, h2, ?_⟩
          intro hle hrc
          obtain ⟨rest, hrest⟩ := h3 hle hrc
          have hlen := hrest.length_eq
          simp only [List.length_range, List.length_append, List.length_map, h1] at hlen
          have : rest = [] := List.eq_nil_of_length_eq_zero (by omega)
          subst this
          simpa using hrest.symm
        · exact g2 jb hjb

/-- **C19 (shape).** Whatever the random stream, every instance the generator produces has a job count within
the requested range; all jobs have the same number `M` of operations, with `M` within the requested machine
range; every machine id is below `M`; durations lie within range; each operation has the requested number of
distinct eligible machines; when fewer jobs than machines are disallowed there are at least as many jobs as
machines; and without recirculation and with single-machine operations each job visits each of the `M`
machines exactly once. -/
theorem C19_shape (p : GenParams) (draws : List Nat) (I : Instance) (nm : Nat) (d : List Nat)
    (h : generate p draws = .ok (I, nm, d)) :
    p.jobsRange.1 ≤ I.length ∧ I.length ≤ p.jobsRange.2 ∧
    p.machinesRange.1 ≤ nm ∧ nm ≤ p.machinesRange.2 ∧
    (p.allowLess = false → nm ≤ I.length) ∧
    ∀ job ∈ I, job.length = nm ∧ (∀ op ∈ job, OpShape p nm op) ∧
      (p.mpo.2 ≤ 1 → p.allowRecirc = false → (job.map fun op => op.machines.headD 0).Perm (List.range nm)) := by
  unfold generate at h
  cases hj : randintN p.jobsRange.1 p.jobsRange.2 draws with
  | error e => simp [hj] at h
  | ok r =>
    obtain ⟨nj, d1⟩ := r
    simp only [hj] at h
    obtain ⟨hj1, hj2, _⟩ := randintN_spec hj
    cases hm : randintN p.machinesRange.1 (if p.allowLess then p.machinesRange.2 else min nj p.machinesRange.2) d1 with
    | error e => simp [hm] at h
    | ok r2 =>
      obtain ⟨nm', d2⟩ := r2
      simp only [hm] at h
      obtain ⟨hm1, hm2, _⟩ := randintN_spec hm
      cases hg : genJobs p nm' nj d2 with
      | error e => simp [hg] at h
      | ok r3 =>
        obtain ⟨jobs, d3⟩ := r3
        simp only [hg] at h
        cases h
        obtain ⟨g1, g2⟩ := genJobs_spec p nm nj d2 I d hg
        refine ⟨by omega, by omega, hm1, ?_, ?_, g2⟩
        · split at hm2
          · exact hm2
          · omega
        · intro hal
          simp only [hal, Bool.false_eq_true, ↓reduceIte] at hm2
          omega

/-- **C19 (support).** Every machine can be drawn: `choice` can return any element of the list it is given, and the
multi-machine chooser draws from all `M` machines (`chooseMany` starts from the full list). -/
theorem C19_support (nm : Nat) (m : Nat) (hm : m < nm) (ds : List Nat) :
    ∃ d, choiceN (List.range nm) (d :: ds) = .ok (m, ds) :=
  choiceN_support _ m (List.mem_range.2 hm) ds

theorem iterate_spec (p : GenParams) : ∀ (n : Nat) (g : GenState) (l : List (Instance × Nat)) (g' : GenState),
    iterate p n g = .ok (l, g') →
    l.length = n ∧ l.map (·.2) = (List.range n).map (fun i => g.counter + 1 + i) ∧ g'.counter = g.counter + n
  | 0, g, l, g', h => by simp only [iterate] at h; cases h; simp
  | n + 1, g, l, g', h => by
    simp only [iterate] at h
    cases hn : g.next p with
    | error e => simp [hn] at h
    | ok r =>
      obtain ⟨I, name, g1⟩ := r
      simp only [hn] at h
      cases hr : iterate p n g1 with
      | error e => simp [hr] at h
      | ok r2 =>
        obtain ⟨rest, g2⟩ := r2
        simp only [hr] at h
        cases h
        obtain ⟨h1, h2, h3⟩ := iterate_spec p n g1 rest g' hr
        have hname : name = g.counter + 1 ∧ g1.counter = g.counter + 1 := by
          unfold GenState.next at hn
          cases hg : generate p g.draws with
          | error e => simp [hg] at hn
          | ok r3 => obtain ⟨I', nm, d⟩ := r3; simp only [hg] at hn; cases hn; exact ⟨rfl, rfl⟩
        refine ⟨by simp [h1], ?_, by omega⟩
        simp only [List.map_cons, h2, hname.1, hname.2]
        rw [List.range_succ_eq_map]
        simp only [List.map_cons, List.map_map, Nat.add_zero]
        congr 1
        apply List.map_congr_left
        intro i _
        simp only [Function.comp_apply]; omega

/-- **C19 (names and iteration).** Iterating a generator with iteration limit `n` yields exactly `n` instances whose
names carry consecutive fresh counters — never reused by that generator, also across several iterations since the
counter only grows. -/
theorem C19_names_and_length (p : GenParams) (n : Nat) (g : GenState) (l : List (Instance × Nat)) (g' : GenState)
    (h : iterate p n g = .ok (l, g')) :
    l.length = n ∧ (l.map (·.2)).Nodup ∧ (∀ x ∈ l, g.counter < x.2) ∧ g'.counter = g.counter + n := by
  obtain ⟨h1, h2, h3⟩ := iterate_spec p n g l g' h
  refine ⟨h1, ?_, ?_, h3⟩
  · rw [h2]
    exact List.Pairwise.map _ (by intro a b hab heq; omega) List.nodup_range
  · intro x hx
    have : x.2 ∈ l.map (·.2) := List.mem_map.2 ⟨x, hx, rfl⟩
    rw [h2] at this
    simp only [List.mem_map, List.mem_range] at this
    obtain ⟨i, _, hi⟩ := this
    omega

/-- **C19 (names across iterations).** Two successive iterations of one generator (the second starting from the state
the first left) never share a name: the counter is not reset by `__iter__`. -/
theorem C19_names_across_passes (p : GenParams) (n1 n2 : Nat) (g g1 g2 : GenState) (l1 l2 : List (Instance × Nat))
    (h1 : iterate p n1 g = .ok (l1, g1)) (h2 : iterate p n2 g1 = .ok (l2, g2)) :
    ∀ x ∈ l1, ∀ y ∈ l2, x.2 ≠ y.2 := by
  obtain ⟨_, hn1, hc1⟩ := iterate_spec p n1 g l1 g1 h1
  obtain ⟨_, _, hlow, _⟩ := C19_names_and_length p n2 g1 l2 g2 h2
  intro x hx y hy
  have : x.2 ∈ l1.map (·.2) := List.mem_map.2 ⟨x, hx, rfl⟩
  rw [hn1] at this
  simp only [List.mem_map, List.mem_range] at this
  obtain ⟨i, hi, hxi⟩ := this
  have := hlow y hy
  omega

/-- **C19 (same seed, same sequence).** The sequence a generator produces is a function of its parameters and its
own stream only: two generator objects with equal parameters and equal streams produce identical sequences,
however their construction and use are interleaved — each owns its stream. -/
theorem C19_deterministic (p : GenParams) (n : Nat) (g1 g2 : GenState) (h : g1.draws = g2.draws)
    (hc : g1.counter = g2.counter) :
    ((iterate p n g1).map (fun r => r.1)).mapError (fun e => (e.1, e.2.draws, e.2.counter)) =
      ((iterate p n g2).map (fun r => r.1)).mapError (fun e => (e.1, e.2.draws, e.2.counter)) := by
  have : ∀ (n : Nat) (g1 g2 : GenState), g1.draws = g2.draws → g1.counter = g2.counter →
      ((iterate p n g1).map (fun r => r.1)).mapError (fun e => (e.1, e.2.draws, e.2.counter)) =
        ((iterate p n g2).map (fun r => r.1)).mapError (fun e => (e.1, e.2.draws, e.2.counter)) := by
    intro n
    induction n with
    | zero => intro g1 g2 _ _; rfl
    | succ n ih =>
      intro g1 g2 hd hcn
      simp only [iterate, GenState.next, hd, hcn]
      cases hg : generate p g2.draws with
      | error e => rfl
      | ok r =>
        obtain ⟨I, nm, d⟩ := r
        simp only
        have := ih { g1 with draws := d, counter := g2.counter + 1 } { g2 with draws := d, counter := g2.counter + 1 } rfl rfl
        cases h1 : iterate p n { g1 with draws := d, counter := g2.counter + 1 } <;>
          cases h2 : iterate p n { g2 with draws := d, counter := g2.counter + 1 } <;>
          simp_all [Except.map, Except.mapError]
  exact this n g1 g2 h hc

/-! non-vacuity -/
example : (generate { jobsRange := (2, 3), machinesRange := (2, 4), durRange := (1, 9) } [5, 3, 7, 1, 2, 9, 0, 4, 4, 1, 3, 3, 8]).toOption.map
    (fun r => (r.1.length, r.2.1)) = some (3, 2) := by decide

end JS

import JobShopProofs.Properties.C05
/-!
# C07 — ready-operation filters prune soundly and never deadlock

For `f ∈ {dominated, nonImmediateMachines, nonIdleMachines, nonImmediateOps}` and every composition.
States are arbitrary reachable states `run c evs`; lists are arbitrary lists `L` of operations of the
instance (`RefsOK`), in particular every sub-list of the ready operations.
-/
namespace JS

/-- **C07 (sub-list).** Every filter and every composition returns a sub-list of its input: same
order, nothing foreign, no new duplicates — in *any* state. -/
theorem C07_sublist (I : Instance) (s : State) (fs : List FilterKind) (L : List OpRef) :
    (applyFilters I s fs L).Sublist L := applyFilters_sublist I s fs L

theorem C07_sublist_single (I : Instance) (s : State) (f : FilterKind) (L : List OpRef) :
    (applyFilter I s f L).Sublist L := applyFilter_sublist I s f L

/-- **C07 (never empty).** In every reachable state, every composition of filters maps a non-empty list of
operations of the instance to a non-empty list (zero durations included). -/
theorem C07_nonempty (c : Cfg) (hv : Valid c.I) (evs : List Ev) (fs : List FilterKind) (L : List OpRef)
    (hL : L ≠ []) (hok : RefsOK c.I L) : applyFilters c.I (run c evs) fs L ≠ [] :=
  applyFilters_nonempty hv (inv_run hv evs).cinv fs hL hok

/-- **C07 (composition).** A composite filter is the left-to-right fold of its parts. -/
theorem C07_comp (I : Instance) (s : State) (f : FilterKind) (fs : List FilterKind) (L : List OpRef) :
    applyFilters I s (f :: fs) L = applyFilters I s fs (applyFilter I s f L) ∧ applyFilters I s [] L = L :=
  ⟨rfl, rfl⟩

/-! ## documented criteria -/

/-- **Idle machines.** In a reachable state the filter keeps exactly the operations that have an eligible
machine on which nothing is still running at the earliest start time of the list. -/
theorem C07_criterion_nonIdle (c : Cfg) (hv : Valid c.I) (evs : List Ev) (L : List OpRef) (r : OpRef) :
    let s := run c evs
    r ∈ filterNonIdle c.I s L ↔
      r ∈ L ∧ ∃ op, getOp c.I r.1 r.2 = some op ∧ ∃ m ∈ op.machines,
        ∀ x ∈ s.sched.getD m [], x.end_ ≤ minStart c.I s L := by
  intro s
  have hc := (inv_run hv evs).cinv
  unfold filterNonIdle
  simp only [List.mem_filter]
  constructor
  · rintro ⟨hr, h⟩
    cases hop : getOp c.I r.1 r.2 with
    | none => simp [hop] at h
    | some op =>
      simp only [hop, Bool.not_eq_true', List.all_eq_false, List.contains_eq_mem, decide_eq_true_eq] at h
      obtain ⟨m, hm, hnb⟩ := h
      refine ⟨hr, op, rfl, m, hm, ?_⟩
      intro x hx
      apply Classical.byContradiction; intro hlt
      exact hnb ((mem_nonIdleMachines hc _ m).2 ⟨x, hx, by omega⟩)
  · rintro ⟨hr, op, hop, m, hm, hall⟩
    refine ⟨hr, ?_⟩
    simp only [hop, Bool.not_eq_true', List.all_eq_false, List.contains_eq_mem, decide_eq_true_eq]
    refine ⟨m, hm, ?_⟩
    intro hb
    obtain ⟨x, hx, ht⟩ := (mem_nonIdleMachines hc _ m).1 hb
    have := hall x hx
    omega

/-- **Immediate operations.** The filter keeps exactly the operations that can themselves start, on one
of their machines, at the earliest start time of the list. -/
theorem C07_criterion_nonImmediateOps (I : Instance) (s : State) (L : List OpRef) (hok : RefsOK I L) (r : OpRef) :
    r ∈ filterNonImmediateOps I s L ↔
      r ∈ L ∧ ∃ op, getOp I r.1 r.2 = some op ∧ ∃ m ∈ op.machines, startTime s r.1 m = minStart I s L := by
  unfold filterNonImmediateOps
  simp only [List.mem_filter, beq_iff_eq]
  constructor
  · rintro ⟨hr, he⟩
    obtain ⟨op, hop, hne⟩ := hok r hr
    obtain ⟨⟨m, hm, hem⟩, _⟩ := earliestStart_spec I s r op hop hne
    exact ⟨hr, op, hop, m, hm, by rw [hem, he]⟩
  · rintro ⟨hr, op, hop, m, hm, he⟩
    refine ⟨hr, ?_⟩
    have hL : L ≠ [] := List.ne_nil_of_mem hr
    obtain ⟨op', hop', hne⟩ := hok r hr
    rw [hop] at hop'; cases hop'
    obtain ⟨⟨m', hm', hem⟩, hle⟩ := earliestStart_spec I s r op hop hne
    have h1 := hle m hm
    have h2 := (minStart_spec I s L hL hok).2 r hr op hop m' hm'
    omega

/-- **Immediate machines.** The filter keeps exactly the operations that share an eligible machine with
some operation of the list that can start on that machine at the earliest start time. -/
theorem C07_criterion_nonImmediateMachines (I : Instance) (s : State) (L : List OpRef) (r : OpRef) :
    r ∈ filterNonImmediateMachines I s L ↔
      r ∈ L ∧ ∃ op, getOp I r.1 r.2 = some op ∧ ∃ m ∈ op.machines,
        ∃ r' ∈ L, ∃ op', getOp I r'.1 r'.2 = some op' ∧ m ∈ op'.machines ∧ startTime s r'.1 m = minStart I s L := by
  unfold filterNonImmediateMachines immediateMachine
  simp only [List.mem_filter]
  constructor
  · rintro ⟨hr, h⟩
    cases hop : getOp I r.1 r.2 with
    | none => simp [hop] at h
    | some op =>
      simp only [hop, List.any_eq_true] at h
      obtain ⟨m, hm, r', hr', h'⟩ := h
      cases hop' : getOp I r'.1 r'.2 with
      | none => simp [hop'] at h'
      | some op' =>
        simp only [hop', Bool.and_eq_true, List.contains_eq_mem, decide_eq_true_eq, beq_iff_eq] at h'
        exact ⟨hr, op, rfl, m, hm, r', hr', op', hop', h'.1, h'.2⟩
  · rintro ⟨hr, op, hop, m, hm, r', hr', op', hop', hm', he⟩
    refine ⟨hr, ?_⟩
    simp only [hop, List.any_eq_true]
    exact ⟨m, hm, r', hr', by simp [hop', hm', he]⟩

/-- **Dominated operations**, positive durations: the filter keeps, in order, exactly the operations that
start on some eligible machine before the earliest completion on that machine among the list. -/
theorem C07_criterion_dominated (I : Instance) (s : State) (L : List OpRef) (hp : PosDurL I L) :
    filterDominated I s L = L.filter (critDom I (startTime s) (minEnd I s L)) ∧
    ∀ r, r ∈ filterDominated I s L ↔ r ∈ L ∧ NotDominated I s L r := by
  have h : filterDominated I s L = L.filter (critDom I (startTime s) (minEnd I s L)) := by
    rw [filterDominated_eq, find?_zeroDur_none hp]
  refine ⟨h, ?_⟩
  intro r
  rw [h, List.mem_filter, critDom_iff]

/-- **Dominated operations**, zero-duration shortcut: if the list contains a zero-duration operation the
result is the first such operation alone. -/
theorem C07_criterion_dominated_zero (I : Instance) (s : State) (L : List OpRef) (r0 : OpRef)
    (h : L.find? (zeroDur I) = some r0) : filterDominated I s L = [r0] := by
  rw [filterDominated_eq, h]

/-! ## no deadlock -/

theorem mem_rawReady (I : Instance) (s : State) (r : OpRef) :
    r ∈ rawReady I s ↔ r.1 < I.length ∧ r.2 = s.jobIdx.getD r.1 0 ∧ r.2 < (I.getD r.1 []).length := by
  obtain ⟨j, p⟩ := r
  unfold rawReady
  simp only [List.mem_filterMap, List.mem_range]
  constructor
  · rintro ⟨j', hj', h⟩
    split at h
    · simp only [Option.some.injEq, Prod.mk.injEq] at h
      obtain ⟨rfl, rfl⟩ := h
      exact ⟨hj', rfl, by assumption⟩
    · cases h
  · rintro ⟨h1, h2, h3⟩
    refine ⟨j, h1, ?_⟩
    have h2' : p = s.jobIdx.getD j 0 := h2
    have h3' : p < (I.getD j []).length := h3
    subst h2'
    simp only [h3', ↓reduceIte]

theorem rawReady_refsOK {I : Instance} (hv : Valid I) (s : State) : RefsOK I (rawReady I s) := by
  intro r hr
  obtain ⟨_, _, h3⟩ := (mem_rawReady I s r).1 hr
  have := (getD_length_of_getOp (I := I) (j := r.1) (p := r.2)).2 h3
  cases hop : getOp I r.1 r.2 with
  | none => simp [hop] at this
  | some op => exact ⟨op, rfl, (hv r.1 r.2 op hop).1⟩

/-- **C07 (no deadlock).** In every reachable state whose schedule is not complete, the list of
available operations (under any filter configuration) is non-empty, each available operation is a ready
operation of the instance, and dispatching it on any of its eligible machines is accepted.  So a
schedule can always be completed by choosing only among available operations. -/
theorem C07_progress (c : Cfg) (hv : Valid c.I) (evs : List Ev)
    (hinc : isComplete c.I (run c evs) = false) :
    availablePure c (run c evs) ≠ [] ∧
    ∀ r ∈ availablePure c (run c evs), r ∈ rawReady c.I (run c evs) ∧
      ∃ op, getOp c.I r.1 r.2 = some op ∧ ∀ m ∈ op.machines, ∃ s', dispatch c.I (run c evs) r.1 r.2 m = .ok s' := by
  have hi := inv_run hv evs
  have hraw : rawReady c.I (run c evs) ≠ [] := by
    have hnc : ¬ Complete c.I (run c evs).sched := by
      rw [← (C01_complete_iff c hv evs).2]; simp [hinc]
    have hex : ∃ j p, (getOp c.I j p).isSome ∧
        ¬ ∃ x ∈ (run c evs).sched.flatten, x.job = j ∧ x.pos = p := by
      apply Classical.byContradiction; intro hne
      apply hnc; intro j p hjp
      apply Classical.byContradiction; intro hno
      exact hne ⟨j, p, hjp, hno⟩
    obtain ⟨j, p, hjp, hno⟩ := hex
    have hlen := getD_length_of_getOp.1 hjp
    have hidx : (run c evs).jobIdx.getD j 0 ≤ p := by
      apply Classical.byContradiction; intro hlt
      have := ((C05_scheduled_iff c hv evs (j, p)).1).1
        ((mem_scheduledPure c.I _ (j, p)).2 ⟨hjp, by simp only; omega⟩)
      obtain ⟨x, hx, he⟩ := this
      simp only [Prod.mk.injEq] at he
      exact hno ⟨x, hx, he.1, he.2⟩
    have hj : j < c.I.length := by
      apply Classical.byContradiction; intro hn
      have : c.I[j]? = none := List.getElem?_eq_none (by omega)
      simp [List.getD_eq_getElem?_getD, this] at hlen
    exact List.ne_nil_of_mem ((mem_rawReady c.I _ (j, (run c evs).jobIdx.getD j 0)).2 ⟨hj, rfl, by simp only; omega⟩)
  have hok := rawReady_refsOK hv (run c evs)
  have hsub : (availablePure c (run c evs)).Sublist (rawReady c.I (run c evs)) := by
    unfold availablePure applyCfg
    cases c.F with
    | none => exact List.Sublist.refl _
    | some fs => exact applyFilters_sublist _ _ fs _
  constructor
  · unfold availablePure applyCfg
    cases c.F with
    | none => exact hraw
    | some fs => exact applyFilters_nonempty hv hi.cinv fs hraw hok
  · intro r hr
    have hrr := hsub.subset hr
    obtain ⟨op, hop, _⟩ := hok r hrr
    obtain ⟨_, h2, _⟩ := (mem_rawReady c.I _ r).1 hrr
    exact ⟨hrr, op, hop, fun m hm => dispatch_accepts hi.cinv hop h2.symm hm⟩

/-! non-vacuity: reachable states of the example instance in which each filter removes an operation
(the dominated filter through the zero-duration shortcut in the first, through the criterion in the third) -/
example :
    let c : Cfg := { I := exampleInstance }
    let s := run c [.disp 0 0 (some 0)]
    rawReady c.I s = [(0, 1), (1, 0)] ∧ filterDominated c.I s [(0, 1), (1, 0)] = [(0, 1)] ∧
    filterNonImmediateOps c.I s [(0, 1), (1, 0)] = [(1, 0)] ∧
    filterNonImmediateMachines c.I s [(0, 1), (1, 0)] = [(1, 0)] := by decide
example :
    let c : Cfg := { I := exampleInstance }
    let s := run c [.disp 0 0 (some 0), .disp 0 1 none]
    rawReady c.I s = [(0, 2), (1, 0)] ∧ filterNonIdle c.I s [(0, 2), (1, 0)] = [(1, 0)] := by decide

end JS

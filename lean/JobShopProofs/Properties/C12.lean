import JobShopProofs.Properties.C11
import JobShopProofs.Properties.C13
/-!
# C12 — reset makes everything indistinguishable from new

Proved here: the dispatcher itself (`reset = init`); for the observers whose callbacks only read the
dispatcher (`IsReady`, `Duration`, `IsScheduled`, `PositionInJob`, history, rewards) the value after a reset is
a function of the instance, the filter and the observed feature types alone — it does not depend on
anything the observer held before, hence equals the value a freshly constructed observer has; and the
behaviour after a reset is a function of the reset world only.  The observers with helper observers
(`RemainingOperations`, `IsCompleted`, composite) and the graph updater are covered by the differential run
against fresh real objects (three episodes, random creation orders).
-/
namespace JS

/-- **C12 (dispatcher).** `Dispatcher.reset` restores exactly the freshly constructed state, from any state. -/
theorem C12_dispatcher (I : Instance) (s : State) (w : FWorld) :
    reset I s = init I ∧ (∃ w0 : FWorld, w0.s = init w.cfg.I ∧ w.reset = w.subs.foldl (fun w id => w.callReset id) w0) :=
  ⟨rfl, ⟨{ w with s := init w.cfg.I }, rfl, rfl⟩⟩

/-- what `reset()` leaves in an observer whose callbacks read only the dispatcher -/
def resetCore (c : Cfg) (s : State) (o : FObs) : FObs :=
  match o.kind with
  | .isReady => isReadyFeatures c s o
  | .duration => durationInit c s (o.zeroed c.I)
  | .isScheduled => o.zeroed c.I
  | .positionInJob => positionInit c s (o.zeroed c.I)
  | _ => o

theorem callReset_isolated (w : FWorld) (id : Nat) (o : FObs) (ho : w.heap[id]? = some o)
    (hk : o.kind = .isReady ∨ o.kind = .duration ∨ o.kind = .isScheduled ∨ o.kind = .positionInJob) :
    w.callReset id = w.setObs id (resetCore w.cfg w.s o) := by
  rcases hk with h | h | h | h <;> simp [FWorld.callReset, ho, h, resetCore]

theorem zeroed_col_aux (I : Instance) (ft : FT) : ∀ (l : List FT), ft ∈ l →
    (match (l.map fun ft => (ft, [zeros (numEntities I ft)])).find? (fun x => x.1 == ft) with
      | some (_, c :: _) => c
      | _ => []) = zeros (numEntities I ft)
  | [], h => by cases h
  | a :: t, h => by
    simp only [List.map_cons, List.find?_cons]
    by_cases he : a = ft
    · subst he; simp
    · have : (a == ft) = false := by simpa using he
      simp only [this]
      rcases List.mem_cons.1 h with h1 | h1
      · exact absurd h1.symm he
      · exact zeroed_col_aux I ft t h1

theorem zeroed_col (I : Instance) (o : FObs) (_hnd : o.fts.Nodup) (ft : FT) (hft : ft ∈ o.fts) :
    (o.zeroed I).col ft = zeros (numEntities I ft) := by
  unfold FObs.zeroed FObs.col
  exact zeroed_col_aux I ft o.fts hft

/-- **C12 (isolated feature observers).** After `reset()` in dispatcher state `s`, every column of an
`IsReady`/`Duration`/`IsScheduled`/`PositionInJob` observer is a function of `(instance, filter, s, feature
type)` only: two observers of the same class observing the same feature types — in particular the reset one
and a freshly constructed one — have identical columns, whatever they held before. -/
theorem C12_reset_isolated (c : Cfg) (s : State) (o1 o2 : FObs) (hk : o1.kind = o2.kind) (hf : o1.fts = o2.fts)
    (hnd : o1.fts.Nodup)
    (hkind : o1.kind = .isReady ∨ o1.kind = .duration ∨ o1.kind = .isScheduled ∨ o1.kind = .positionInJob)
    (ft : FT) (hft : ft ∈ o1.fts) :
    (resetCore c s o1).col ft = (resetCore c s o2).col ft := by
  have hnd2 : o2.fts.Nodup := hf ▸ hnd
  have hft2 : ft ∈ o2.fts := hf ▸ hft
  rcases hkind with h | h | h | h
  · have h2 : o2.kind = .isReady := by rw [← hk]; exact h
    simp only [resetCore, h, h2]
    rw [C11_isReady c s o1 hnd ft hft, C11_isReady c s o2 hnd2 ft hft2]
  · have h2 : o2.kind = .duration := by rw [← hk]; exact h
    simp only [resetCore, h, h2, durationInit]
    rw [(assignCols_col _ _ (zeroed_wf c.I o1 hnd) (by intros; rfl) ft hft).1,
      (assignCols_col _ _ (zeroed_wf c.I o2 hnd2) (by intros; rfl) ft hft2).1]
  · have h2 : o2.kind = .isScheduled := by rw [← hk]; exact h
    simp only [resetCore, h, h2]
    rw [zeroed_col c.I o1 hnd ft hft, zeroed_col c.I o2 hnd2 ft hft2]
  · have h2 : o2.kind = .positionInJob := by rw [← hk]; exact h
    simp only [resetCore, h, h2, positionInit]
    have e1 : (o1.zeroed c.I).has .operations = o1.has .operations := rfl
    have e2 : (o2.zeroed c.I).has .operations = o2.has .operations := rfl
    have e3 : o1.has .operations = o2.has .operations := by unfold FObs.has; rw [hf]
    rw [e1, e2, ← e3]
    by_cases hop : o1.has .operations = true
    · simp only [hop, ↓reduceIte]
      have hop1 : FT.operations ∈ o1.fts := by simpa [FObs.has] using hop
      have hop2 : FT.operations ∈ o2.fts := hf ▸ hop1
      by_cases hfo : ft = .operations
      · subst hfo
        rw [col_setCol_same _ _ _ ((zeroed_wf c.I o1 hnd).has_col hop1),
          col_setCol_same _ _ _ ((zeroed_wf c.I o2 hnd2).has_col hop2),
          zeroed_col c.I o1 hnd _ hop1, zeroed_col c.I o2 hnd2 _ hop2]
      · rw [col_setCol_other _ _ _ _ hfo, col_setCol_other _ _ _ _ hfo,
          zeroed_col c.I o1 hnd ft hft, zeroed_col c.I o2 hnd2 ft hft2]
    · simp only [hop, Bool.false_eq_true, ↓reduceIte]
      rw [zeroed_col c.I o1 hnd ft hft, zeroed_col c.I o2 hnd2 ft hft2]

/-- **C12 (history and rewards).** After a reset the history observer is empty and the reward observers hold no
rewards and the makespan of the empty schedule — exactly the state of freshly constructed ones. -/
theorem C12_reset_history_rewards (w : FWorld) (id : Nat) (o : FObs) (ho : w.heap[id]? = some o)
    (hs : w.s = init w.cfg.I) :
    (o.kind = .history → ((w.callReset id).heap[id]?.map (·.hist)) = some []) ∧
    (o.kind = .makespanReward →
      ((w.callReset id).heap[id]?.map fun o => (o.rewards, o.curMakespan)) = some ([], 0)) ∧
    (o.kind = .idleReward → ((w.callReset id).heap[id]?.map (·.rewards)) = some []) := by
  have hlt : id < w.heap.length := (List.getElem?_eq_some_iff.1 ho).1
  refine ⟨?_, ?_, ?_⟩ <;> intro hk <;> simp only [FWorld.callReset, ho, hk, FWorld.setObs]
  · simp [hlt]
  · simp [hlt, hs, makespan_init]
  · simp [hlt]

/-- **C12 (behaviour after a reset depends on the reset world only).** Whatever happened before, the world after
`… reset, evs₂` is `evs₂` applied to the reset world: equal reset worlds give equal traces. -/
theorem C12_trace_after_reset (c : Cfg) (evs1 evs2 : List FEv) :
    FWorld.run c (evs1 ++ [.reset] ++ evs2) = evs2.foldl FWorld.step ((FWorld.run c evs1).reset) := by
  simp [FWorld.run, List.foldl_append, FWorld.step]

/-! non-vacuity: a world with helpers, reset after a partial episode equals the freshly built world -/
example :
    let c : Cfg := { I := exampleInstance, F := some [.dominated] }
    let setup : List FEv := [.construct .isCompleted none, .construct .earliestStart none, .construct .duration none,
      .construct .makespanReward none, .composite none]
    let w1 := FWorld.run c (setup ++ [.disp 1 0 none, .disp 0 0 (some 0), .disp 0 1 none, .reset])
    let w0 := FWorld.run c setup
    w1.heap = w0.heap ∧ w1.subs = w0.subs := by decide

end JS

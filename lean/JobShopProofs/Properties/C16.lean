import JobShopModel.Graph
import JobShopProofs.Properties.C06
/-!
# C16 — graph encodings are faithful to the instance and the schedule

The builders are modelled operation by operation (`JobShopModel/Graph.lean`, with networkx's insertion-order
and attribute-overwrite semantics) and compared edge by edge with the real graphs.  Proved here: the node
lists of all four builders (one node per entity, operation node ids = operation ids), and — for the solved
disjunctive graph of any dispatcher-built schedule with positive durations — that start times strictly
increase along every edge (so the graph is acyclic), that every chain of edges has duration weight at most
the makespan, and that some chain attains it.  Edges of the solved graph are taken as the relation
`SolvedEdge` on schedule entries (job successor, or next entry on the same machine list).
-/
namespace JS

/-! ## nodes -/

theorem addEdge_nodes (g : Graph) (u v : Nat) (t : EType) : (g.addEdge u v t).nodes = g.nodes := by
  unfold Graph.addEdge; split <;> rfl
theorem addBoth_nodes (g : Graph) (u v : Nat) (t : EType) : (addBoth g u v t).nodes = g.nodes := by
  unfold addBoth; rw [addEdge_nodes, addEdge_nodes]

theorem foldl_nodes {α} (f : Graph → α → Graph) (hf : ∀ g a, (f g a).nodes = g.nodes) :
    ∀ (l : List α) (g : Graph), (l.foldl f g).nodes = g.nodes
  | [], _ => rfl
  | a :: t, g => by simp only [List.foldl_cons]; rw [foldl_nodes f hf t, hf]

theorem foldl_addNode_nodes {α} (k : α → NodeKind) : ∀ (l : List α) (g : Graph),
    (l.foldl (fun g a => g.addNode (k a)) g).nodes = g.nodes ++ l.map k
  | [], g => by simp
  | a :: t, g => by
    simp only [List.foldl_cons, List.map_cons]
    rw [foldl_addNode_nodes k t]; simp [Graph.addNode]

theorem opNodesGraph_nodes (I : Instance) : (opNodesGraph I).nodes = (List.range (numOps I)).map .operation := by
  unfold opNodesGraph
  rw [foldl_addNode_nodes]; rfl

theorem addDisjunctiveEdges_nodes (I : Instance) (g : Graph) : (addDisjunctiveEdges I g).nodes = g.nodes := by
  unfold addDisjunctiveEdges
  apply foldl_nodes
  intro g m
  apply foldl_nodes
  intro g ab; obtain ⟨a, b⟩ := ab; first | exact addBoth_nodes _ _ _ _ | exact addEdge_nodes _ _ _ _

theorem addConjunctiveEdges_nodes (I : Instance) (g : Graph) : (addConjunctiveEdges I g).nodes = g.nodes := by
  unfold addConjunctiveEdges
  apply foldl_nodes
  intro g j
  apply foldl_nodes
  intro g ab; obtain ⟨a, b⟩ := ab; first | exact addBoth_nodes _ _ _ _ | exact addEdge_nodes _ _ _ _

theorem addSourceSink_nodes (I : Instance) (g : Graph) : (addSourceSink I g).nodes = g.nodes ++ [.source, .sink] := by
  unfold addSourceSink
  simp only
  rw [foldl_nodes _ (by intro g j; split <;> simp [addEdge_nodes])]
  simp only [Graph.addNode, List.append_assoc, List.cons_append, List.nil_append]

theorem addMachineNodes_nodes (I : Instance) (g : Graph) :
    (addMachineNodes I g).nodes = g.nodes ++ (List.range (numMachines I)).map .machine := by
  unfold addMachineNodes; rw [foldl_addNode_nodes]

theorem addJobNodes_nodes (I : Instance) (g : Graph) :
    (addJobNodes I g).nodes = g.nodes ++ (List.range I.length).map .job := by
  unfold addJobNodes; rw [foldl_addNode_nodes]

theorem addOperationMachineEdges_nodes (I : Instance) (g : Graph) : (addOperationMachineEdges I g).nodes = g.nodes := by
  unfold addOperationMachineEdges
  apply foldl_nodes; intro g m; apply foldl_nodes; intro g o; exact addBoth_nodes _ _ _ _

theorem addMachineMachineEdges_nodes (I : Instance) (g : Graph) : (addMachineMachineEdges I g).nodes = g.nodes := by
  unfold addMachineMachineEdges
  apply foldl_nodes; intro g ab; obtain ⟨a, b⟩ := ab; exact addBoth_nodes _ _ _ _

theorem addSameJobEdges_nodes (I : Instance) (g : Graph) : (addSameJobEdges I g).nodes = g.nodes := by
  unfold addSameJobEdges
  apply foldl_nodes; intro g j; apply foldl_nodes; intro g ab; obtain ⟨a, b⟩ := ab; exact addBoth_nodes _ _ _ _

theorem addOperationJobEdges_nodes (I : Instance) (g : Graph) : (addOperationJobEdges I g).nodes = g.nodes := by
  unfold addOperationJobEdges
  apply foldl_nodes; intro g j; apply foldl_nodes; intro g o; exact addBoth_nodes _ _ _ _

theorem addJobJobEdges_nodes (I : Instance) (g : Graph) : (addJobJobEdges I g).nodes = g.nodes := by
  unfold addJobJobEdges
  apply foldl_nodes; intro g ab; obtain ⟨a, b⟩ := ab; exact addBoth_nodes _ _ _ _

theorem addGlobal_nodes (I : Instance) (g : Graph) : (addGlobal I g).nodes = g.nodes ++ [.global] := by
  unfold addGlobal
  simp only
  rw [foldl_nodes _ (by intro g j; exact addBoth_nodes _ _ _ _), foldl_nodes _ (by intro g m; exact addBoth_nodes _ _ _ _)]
  simp [Graph.addNode]

/-- **C16 (nodes).** Each builder yields exactly one node per entity it represents, operation nodes first with
node id = operation id, then (as applicable) one node per machine, one per job, the global node, or source
and sink. -/
theorem C16_nodes (I : Instance) :
    (build .disjunctive I).nodes = (List.range (numOps I)).map .operation ++ [.source, .sink] ∧
    (build .agentTask I).nodes =
      (List.range (numOps I)).map .operation ++ (List.range (numMachines I)).map .machine ∧
    (build .agentTaskJobs I).nodes =
      (List.range (numOps I)).map .operation ++ (List.range (numMachines I)).map .machine ++
        (List.range I.length).map .job ∧
    (build .completeAgentTask I).nodes =
      (List.range (numOps I)).map .operation ++ (List.range (numMachines I)).map .machine ++
        (List.range I.length).map .job ++ [.global] := by
  refine ⟨?_, ?_, ?_, ?_⟩
  · simp only [build, buildDisjunctive]
    rw [addSourceSink_nodes, addConjunctiveEdges_nodes, addDisjunctiveEdges_nodes, opNodesGraph_nodes]
  · simp only [build, buildAgentTask]
    rw [addSameJobEdges_nodes, addMachineMachineEdges_nodes, addOperationMachineEdges_nodes, addMachineNodes_nodes,
      opNodesGraph_nodes]
  · simp only [build, buildAgentTaskJobs]
    rw [addJobJobEdges_nodes, addOperationJobEdges_nodes, addJobNodes_nodes, addMachineMachineEdges_nodes,
      addOperationMachineEdges_nodes, addMachineNodes_nodes, opNodesGraph_nodes]
  · simp only [build, buildCompleteAgentTask]
    rw [addGlobal_nodes, addOperationJobEdges_nodes, addJobNodes_nodes, addOperationMachineEdges_nodes,
      addMachineNodes_nodes, opNodesGraph_nodes]

/-! ## the solved disjunctive graph -/

/-- `y` is the entry right after `x` on some machine list -/
def MachConsec (s : State) (x y : SOp) : Prop := ∃ m pre post, s.sched.getD m [] = pre ++ x :: y :: post

/-- the edges of the solved disjunctive graph between operation nodes -/
def SolvedEdge (s : State) (x y : SOp) : Prop :=
  x ∈ s.sched.flatten ∧ y ∈ s.sched.flatten ∧ ((x.job = y.job ∧ x.pos + 1 = y.pos) ∨ MachConsec s x y)

/-- **C16 (acyclic).** In the solved disjunctive graph of a dispatcher-built schedule with positive durations
the start time strictly increases along every edge — a strict potential, so there is no cycle. -/
theorem C16_solved_acyclic (c : Cfg) (hv : Valid c.I) (hp : PosDurI c.I) (evs : List Ev) (x y : SOp)
    (he : SolvedEdge (run c evs) x y) : x.end_ ≤ y.start ∧ x.start < y.start := by
  have hi := inv_run hv evs
  have hf := feasible_of_cinv hi.cinv
  obtain ⟨hx, hy, hcase⟩ := he
  have hdur : 0 < x.dur := by
    obtain ⟨op, hop, hd, _⟩ := hf.isOp x hx
    rw [hd]; exact hp _ _ op hop
  have hle : x.end_ ≤ y.start := by
    rcases hcase with ⟨hj, hpos⟩ | ⟨m, pre, post, hm⟩
    · exact hf.jobOrder x hx y hy hj (by omega)
    · have hord := hf.machOrder m
      rw [hm, List.pairwise_append] at hord
      have := hord.2.1
      rw [List.pairwise_cons] at this
      exact this.1 y (by simp)
  exact ⟨hle, by simp only [SOp.end_] at hle; omega⟩

/-- a chain of solved-graph edges -/
def Chain (s : State) : List SOp → Prop
  | [] => True
  | [_] => True
  | x :: y :: rest => SolvedEdge s x y ∧ Chain s (y :: rest)

def chainWeight (l : List SOp) : Int := (l.map (·.dur)).sum

theorem chain_weight_le (c : Cfg) (hv : Valid c.I) (hp : PosDurI c.I) (evs : List Ev) :
    ∀ (l : List SOp) (x : SOp), Chain (run c evs) (x :: l) → x ∈ (run c evs).sched.flatten →
      ∃ z, (x :: l).getLast? = some z ∧ z ∈ (run c evs).sched.flatten ∧ x.start + chainWeight (x :: l) ≤ z.end_
  | [], x, _, hx => ⟨x, rfl, hx, by simp [chainWeight, SOp.end_]⟩
  | y :: rest, x, hch, hx => by
    obtain ⟨he, hrest⟩ := hch
    obtain ⟨z, hz1, hz2, hz3⟩ := chain_weight_le c hv hp evs rest y hrest he.2.1
    obtain ⟨hle, _⟩ := C16_solved_acyclic c hv hp evs x y he
    refine ⟨z, by simpa using hz1, hz2, ?_⟩
    simp only [chainWeight, List.map_cons, List.sum_cons, SOp.end_] at hz3 hle ⊢
    omega

/-- **C16 (no path is longer than the makespan).** The duration weight of every chain of solved-graph edges
(in particular of every source-to-sink path) is at most the makespan. -/
theorem C16_path_le_makespan (c : Cfg) (hv : Valid c.I) (hp : PosDurI c.I) (evs : List Ev) (l : List SOp)
    (hne : l ≠ []) (hch : Chain (run c evs) l) (hmem : ∀ x ∈ l, x ∈ (run c evs).sched.flatten) :
    chainWeight l ≤ makespan (run c evs) := by
  cases l with
  | nil => exact absurd rfl hne
  | cons x t =>
    have hi := inv_run hv evs
    obtain ⟨z, _, hz, hw⟩ := chain_weight_le c hv hp evs t x hch (hmem x (by simp))
    have h1 := cinv_end_le_makespan hi.cinv z hz
    have h2 := (feasible_of_cinv hi.cinv).nonneg x (hmem x (by simp))
    omega

/-! ### the critical path -/

/-- every entry either starts at 0 or starts exactly when a solved-graph predecessor ends -/
def Tight (s : State) : Prop :=
  ∀ x ∈ s.sched.flatten, x.start = 0 ∨ ∃ y, SolvedEdge s y x ∧ y.end_ = x.start

theorem tight_init (I : Instance) : Tight (init I) := by
  intro x hx
  simp [init] at hx

theorem machConsec_mono {I : Instance} {s s' : State} {j p m : Nat} {op : Op} (hwf : WF I s)
    (hd : DispSpec I s s' j p m op) {x y : SOp} (h : MachConsec s x y) : MachConsec s' x y := by
  obtain ⟨k, pre, post, hk⟩ := h
  have hmlt := machine_lt I j p m op hd.hop hd.hm
  have hlenS : m < s.sched.length := by rw [hwf.lenS]; exact hmlt
  refine ⟨k, pre, ?_⟩
  rw [hd.eq]; simp only
  rw [getD_modify_eq _ _ _ _ hlenS]
  by_cases hkm : k = m
  · subst hkm
    refine ⟨post ++ [⟨j, p, k, startTime s j k, op.dur⟩], ?_⟩
    simp only [↓reduceIte]
    rw [hk]; simp
  · refine ⟨post, ?_⟩
    simp only [hkm, ↓reduceIte]
    exact hk

theorem tight_dispatch {I : Instance} (hv : Valid I) {s s' : State} {j p m : Nat} {op : Op} (hc : CInv I s)
    (hd : DispSpec I s s' j p m op) (ht : Tight s) : Tight s' := by
  have hmlt := machine_lt I j p m op hd.hop hd.hm
  have hlenS : m < s.sched.length := by rw [hc.wf.lenS]; exact hmlt
  have hperm := flatten_modify_perm s.sched m (⟨j, p, m, startTime s j m, op.dur⟩ : SOp) hlenS
  have hflat : ∀ z, z ∈ s'.sched.flatten ↔ z ∈ s.sched.flatten ∨ z = ⟨j, p, m, startTime s j m, op.dur⟩ := by
    intro z; rw [hd.eq]; simp only; rw [hperm.mem_iff]; simp
  have hedge : ∀ a b, SolvedEdge s a b → SolvedEdge s' a b := by
    intro a b ⟨ha, hb, hcase⟩
    refine ⟨(hflat a).2 (Or.inl ha), (hflat b).2 (Or.inl hb), ?_⟩
    rcases hcase with h | h
    · left; exact h
    · right; exact machConsec_mono hc.wf hd h
  intro x hx
  rcases (hflat x).1 hx with hxold | rfl
  · rcases ht x hxold with h0 | ⟨y, hy, he⟩
    · left; exact h0
    · right; exact ⟨y, hedge y x hy, he⟩
  · -- the new entry
    obtain ⟨a, hr, ha, ha2⟩ := hc.abs
    simp only
    have hnewmem : (⟨j, p, m, startTime s j m, op.dur⟩ : SOp) ∈ s'.sched.flatten := (hflat _).2 (Or.inr rfl)
    by_cases hjm : s.machNext.getD m 0 ≤ s.jobNext.getD j 0
    · -- the job constraint is binding
      have hst : startTime s j m = s.jobNext.getD j 0 := by simp only [startTime]; omega
      cases p with
      | zero =>
        left
        have := ha.jN_zero j (by rw [hr.idx]; exact hd.hidx)
        rw [hr.jN] at this
        rw [hst, this]
      | succ q =>
        right
        obtain ⟨y, hy, hyj, hyp⟩ := ha.idx_sched j q (by rw [hr.idx, hd.hidx]; omega)
        have hyf : y ∈ s.sched.flatten := hr.sched.mem_iff.1 hy
        have hlast := ha.jN_last y hy (by rw [hyj, hyp, hr.idx, hd.hidx])
        rw [hyj, hr.jN] at hlast
        refine ⟨y, ⟨(hflat y).2 (Or.inl hyf), hnewmem, Or.inl ⟨hyj, by simp [hyp]⟩⟩, ?_⟩
        rw [hst, hlast]
    · -- the machine constraint is binding
      have hst : startTime s j m = s.machNext.getD m 0 := by simp only [startTime]; omega
      have hlast := hc.lastEnd m
      cases hl : (s.sched.getD m []).getLast? with
      | none =>
        left
        rw [hl] at hlast
        simp only [Option.map_none, Option.getD_none] at hlast
        rw [hst, hlast]
      | some l =>
        right
        rw [hl] at hlast
        simp only [Option.map_some, Option.getD_some] at hlast
        obtain ⟨ys, hys⟩ := List.getLast?_eq_some_iff.1 hl
        have hlf : l ∈ s.sched.flatten := mem_getD_flatten _ m l (by rw [hys]; simp)
        refine ⟨l, ⟨(hflat l).2 (Or.inl hlf), hnewmem, Or.inr ⟨m, ys, [], ?_⟩⟩, ?_⟩
        · rw [hd.eq]; simp only
          rw [getD_modify_eq _ _ _ _ hlenS]
          simp only [↓reduceIte]
          rw [hys]; simp
        · rw [hst, hlast]

theorem tight_runEvs {c : Cfg} (hv : Valid c.I) : ∀ (evs : List Ev) (s : State), Inv c s → Tight s →
    Tight (runEvs c s evs)
  | [], _, _, ht => ht
  | e :: evs, s, hi, ht => by
    have hi' := inv_stepEv hv hi e
    simp only [runEvs, List.foldl_cons]
    apply tight_runEvs hv evs _ hi'
    cases e with
    | disp j p m =>
      simp only [stepEv]
      cases hd : dispatchReq c.I s j p m with
      | error e => exact ht
      | ok s' =>
        obtain ⟨mm, op, _, _, hdd⟩ := dispatchReq_ok hd
        obtain ⟨op', hsp⟩ := dispatch_ok hdd
        exact tight_dispatch hv hi.cinv hsp ht
    | reset => exact tight_init c.I
    | query q =>
      simp only [stepEv]
      obtain ⟨_, _, k, hk⟩ := ask_ok c s hi.cache q
      rw [hk]; exact ht

/-- **C16 (the longest path equals the makespan).** For every dispatcher-built schedule with positive durations,
every entry `x` is the end of a chain of solved-graph edges that starts at time 0 and whose duration weight is
exactly `x`'s end time; in particular a latest-ending operation ends a chain of weight equal to the makespan. -/
theorem C16_critical_path (c : Cfg) (hv : Valid c.I) (hp : PosDurI c.I) (evs : List Ev) :
    (∀ x ∈ (run c evs).sched.flatten, ∃ l, l.getLast? = some x ∧ Chain (run c evs) l ∧
      (∀ y ∈ l, y ∈ (run c evs).sched.flatten) ∧ chainWeight l = x.end_) ∧
    ((run c evs).sched.flatten ≠ [] → ∃ l, l ≠ [] ∧ Chain (run c evs) l ∧
      (∀ y ∈ l, y ∈ (run c evs).sched.flatten) ∧ chainWeight l = makespan (run c evs)) := by
  have hi := inv_run hv evs
  have ht : Tight (run c evs) := tight_runEvs hv evs _ (inv_init c) (tight_init c.I)
  have hf := feasible_of_cinv hi.cinv
  have main : ∀ (n : Nat) (x : SOp), x ∈ (run c evs).sched.flatten → x.start.toNat = n →
      ∃ l, l.getLast? = some x ∧ Chain (run c evs) l ∧ (∀ y ∈ l, y ∈ (run c evs).sched.flatten) ∧
        chainWeight l = x.end_ := by
    intro n
    induction n using Nat.strongRecOn with
    | _ n ih =>
      intro x hx hn
      have hnn := hf.nonneg x hx
      rcases ht x hx with h0 | ⟨y, hyx, hye⟩
      · exact ⟨[x], rfl, trivial, by simpa using hx, by simp [chainWeight, SOp.end_, h0]⟩
      · obtain ⟨_, hlt⟩ := C16_solved_acyclic c hv hp evs y x hyx
        have hyn := hf.nonneg y hyx.1
        obtain ⟨l, hl1, hl2, hl3, hl4⟩ := ih y.start.toNat (by omega) y hyx.1 rfl
        refine ⟨l ++ [x], by simp, ?_, ?_, ?_⟩
        · -- appending one edge to a chain ending in y
          have : ∀ (l : List SOp), l.getLast? = some y → Chain (run c evs) l → Chain (run c evs) (l ++ [x]) := by
            intro l
            induction l with
            | nil => intro h; simp at h
            | cons a t iht =>
              intro hlast hch
              cases t with
              | nil =>
                simp only [List.getLast?_singleton, Option.some.injEq] at hlast
                subst hlast
                exact ⟨hyx, trivial⟩
              | cons b t' =>
                obtain ⟨hab, hrest⟩ := hch
                refine ⟨hab, iht ?_ hrest⟩
                simpa using hlast
          exact this l hl1 hl2
        · intro z hz
          rcases List.mem_append.1 hz with h | h
          · exact hl3 z h
          · simp only [List.mem_singleton] at h; subst h; exact hx
        · simp only [chainWeight, List.map_append, List.sum_append, List.map_cons, List.map_nil, List.sum_cons,
            List.sum_nil] at hl4 ⊢
          rw [hl4, hye]; simp [SOp.end_]
  refine ⟨fun x hx => main _ x hx rfl, ?_⟩
  intro hne
  -- an entry whose end is the makespan
  have hatt := foldl_last_attained (run c evs).sched 0
  have hmk : ∃ x ∈ (run c evs).sched.flatten, x.end_ = makespan (run c evs) := by
    rcases hatt with h0 | ⟨ms, hms, l, hl, he⟩
    · -- makespan 0 is impossible with positive durations and a non-empty schedule
      obtain ⟨x, hx⟩ := List.exists_mem_of_ne_nil _ hne
      have h1 := cinv_end_le_makespan hi.cinv x hx
      have h2 := hf.nonneg x hx
      obtain ⟨op, hop, hd, _⟩ := hf.isOp x hx
      have h3 := hp _ _ op hop
      have : makespan (run c evs) = 0 := h0
      simp only [SOp.end_] at h1; omega
    · exact ⟨l, List.mem_flatten.2 ⟨ms, hms, List.mem_of_getLast? hl⟩, he⟩
  obtain ⟨x, hx, hxe⟩ := hmk
  obtain ⟨l, hl1, hl2, hl3, hl4⟩ := main _ x hx rfl
  refine ⟨l, ?_, hl2, hl3, by rw [hl4, hxe]⟩
  intro h; rw [h] at hl1; simp at hl1

/-! non-vacuity: the positive-duration example, its critical path -/
example :
    let c : Cfg := { I := posInstance }
    let s := run c [.disp 0 0 (some 0), .disp 1 0 none, .disp 0 1 none, .disp 1 1 (some 0)]
    makespan s = 5 ∧ (buildSolved c.I s).edges.length = 7 := by decide

end JS

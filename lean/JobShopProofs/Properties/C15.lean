import JobShopModel.Equality
/-!
# C15 — equality means same content
-/
namespace JS

theorem listEq_iff {α} (eq : α → α → Bool) (h : ∀ a b, eq a b = true ↔ a = b) :
    ∀ (l1 l2 : List α), listEq eq l1 l2 = true ↔ l1 = l2
  | [], [] => by simp [listEq]
  | [], _ :: _ => by simp [listEq]
  | _ :: _, [] => by simp [listEq]
  | a :: t, b :: u => by simp [listEq, h, listEq_iff eq h t u]

/-- **C15 (operations).** Two operations are equal exactly when they have the same machines, duration,
job, position and id. -/
theorem C15_opEq_iff (a b : OpObj) : opEq a b = true ↔ a = b := by
  cases a; cases b
  have hl : ∀ l1 l2 : List Nat, listEq (· == ·) l1 l2 = true ↔ l1 = l2 :=
    listEq_iff (· == ·) (by intro a b; exact beq_iff_eq)
  simp only [opEq, Bool.and_eq_true, hl, beq_iff_eq, OpObj.mk.injEq]
  constructor
  · rintro ⟨⟨⟨⟨h1, h2⟩, h3⟩, h4⟩, h5⟩; exact ⟨h1, h2, h3, h4, h5⟩
  · rintro ⟨h1, h2, h3, h4, h5⟩; exact ⟨⟨⟨⟨h1, h2⟩, h3⟩, h4⟩, h5⟩

/-- **C15 (scheduled operations).** -/
theorem C15_sopEq_iff (a b : SOpObj) : sopEq a b = true ↔ a = b := by
  cases a; cases b
  simp only [sopEq, Bool.and_eq_true, C15_opEq_iff, beq_iff_eq, SOpObj.mk.injEq]
  constructor
  · rintro ⟨⟨h1, h2⟩, h3⟩; exact ⟨h1, h2, h3⟩
  · rintro ⟨h1, h2, h3⟩; exact ⟨⟨h1, h2⟩, h3⟩

/-- **C15 (instances).** -/
theorem C15_instEq_iff (a b : List (List OpObj)) : instEq a b = true ↔ a = b :=
  listEq_iff _ (listEq_iff _ C15_opEq_iff) a b

/-- **C15 (schedules).** A schedule is its instance together with its per-machine lists: two schedules are equal exactly when both
coincide (partial schedules of different instances are different schedules). -/
theorem C15_schedEq_iff (a b : SchedObj) : schedEq a b = true ↔ a = b := by
  obtain ⟨ia, sa⟩ := a
  obtain ⟨ib, sb⟩ := b
  simp only [schedEq, Bool.and_eq_true, C15_instEq_iff, Prod.mk.injEq]
  exact and_congr Iff.rfl (listEq_iff _ (listEq_iff _ C15_sopEq_iff) sa sb)

/-- **C15 (equivalence relation).** Equality on each of the four kinds of object is reflexive, symmetric
and transitive — a consequence of coinciding with content equality. -/
theorem C15_equivalence :
    (∀ a : OpObj, opEq a a = true) ∧ (∀ a b : OpObj, opEq a b = opEq b a) ∧
    (∀ a b c : OpObj, opEq a b = true → opEq b c = true → opEq a c = true) ∧
    (∀ a : List (List OpObj), instEq a a = true) ∧ (∀ a b : List (List OpObj), instEq a b = instEq b a) ∧
    (∀ a b c : List (List OpObj), instEq a b = true → instEq b c = true → instEq a c = true) ∧
    (∀ a : SchedObj, schedEq a a = true) ∧ (∀ a b : SchedObj, schedEq a b = schedEq b a) ∧
    (∀ a b c : SchedObj, schedEq a b = true → schedEq b c = true → schedEq a c = true) ∧
    (∀ a : SOpObj, sopEq a a = true) ∧ (∀ a b : SOpObj, sopEq a b = sopEq b a) ∧
    (∀ a b c : SOpObj, sopEq a b = true → sopEq b c = true → sopEq a c = true) := by
  have sym : ∀ {α} (eq : α → α → Bool), (∀ a b, eq a b = true ↔ a = b) → ∀ a b, eq a b = eq b a := by
    intro α eq h a b
    cases h1 : eq a b <;> cases h2 : eq b a <;> try rfl
    · have := (h b a).1 h2; have := (h a b).2 this.symm; simp_all
    · have := (h a b).1 h1; have := (h b a).2 this.symm; simp_all
  refine ⟨fun a => (C15_opEq_iff a a).2 rfl, sym _ C15_opEq_iff, ?_, fun a => (C15_instEq_iff a a).2 rfl,
    sym _ C15_instEq_iff, ?_, fun a => (C15_schedEq_iff a a).2 rfl, sym _ C15_schedEq_iff, ?_,
    fun a => (C15_sopEq_iff a a).2 rfl, sym _ C15_sopEq_iff, ?_⟩
  · intro a b c h1 h2; exact (C15_opEq_iff a c).2 (((C15_opEq_iff a b).1 h1).trans ((C15_opEq_iff b c).1 h2))
  · intro a b c h1 h2; exact (C15_instEq_iff a c).2 (((C15_instEq_iff a b).1 h1).trans ((C15_instEq_iff b c).1 h2))
  · intro a b c h1 h2; exact (C15_schedEq_iff a c).2 (((C15_schedEq_iff a b).1 h1).trans ((C15_schedEq_iff b c).1 h2))
  · intro a b c h1 h2; exact (C15_sopEq_iff a c).2 (((C15_sopEq_iff a b).1 h1).trans ((C15_sopEq_iff b c).1 h2))

/-- **C15 (distinguishes).** Objects that differ in machines, durations, job structure, start time or machine
assignment are not equal. -/
theorem C15_distinguishes :
    (∀ a b : OpObj, a.machines ≠ b.machines ∨ a.dur ≠ b.dur → opEq a b = false) ∧
    (∀ a b : SOpObj, a.start ≠ b.start ∨ a.machine ≠ b.machine ∨ a.op ≠ b.op → sopEq a b = false) ∧
    (∀ a b : List (List OpObj), a.map List.length ≠ b.map List.length → instEq a b = false) := by
  refine ⟨?_, ?_, ?_⟩
  · intro a b h
    cases he : opEq a b
    · rfl
    · have := (C15_opEq_iff a b).1 he; subst this; simp at h
  · intro a b h
    cases he : sopEq a b
    · rfl
    · have := (C15_sopEq_iff a b).1 he; subst this; simp at h
  · intro a b h
    cases he : instEq a b
    · rfl
    · have := (C15_instEq_iff a b).1 he; subst this; simp at h

/-- **C15 (hash).** Equal operations hash equally. -/
theorem C15_hash (a b : OpObj) (h : opEq a b = true) : opHash a = opHash b := by
  rw [(C15_opEq_iff a b).1 h]

/-- independently built instances with the same content are equal: the operation objects are a function of
the instance content -/
theorem C15_same_content (I J : Instance) (h : I = J) : instEq (opObjs I) (opObjs J) = true := by
  subst h; exact (C15_instEq_iff _ _).2 rfl

/-! non-vacuity -/
example : instEq (opObjs [[⟨[0, 1], 3⟩], [⟨[1], 2⟩, ⟨[0], 0⟩]]) (opObjs [[⟨[0, 1], 3⟩], [⟨[1], 2⟩]]) = false := by decide
example : opEq ⟨[0], 5, 0, 0, 0⟩ ⟨[1, 2], 7, 0, 0, 0⟩ = false := by decide

end JS

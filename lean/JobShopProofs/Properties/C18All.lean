import JobShopProofs.MultiEnvRewards
import JobShopProofs.GenRefusal
/-! everything proved for C18 (one module for the per-run audit) -/

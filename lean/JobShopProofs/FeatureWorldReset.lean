import JobShopProofs.FeatureWorldDefs
import JobShopProofs.Properties.C12
/-!
# `Dispatcher.reset` re-establishes the value invariant of the feature world

`FWorld.reset` puts the dispatcher back into its initial state and then calls `reset()` on every subscriber, in
order.  One such call may rewrite other heap entries (helpers are reset first) and may push missing helpers; every
entry that is rewritten or pushed ends up with the values its specification prescribes for the initial state, and
every subscriber is rewritten at least once.
-/
namespace JS
namespace FWReset

/-! ## observer level: the values after a reset in the initial state -/

/-- the shape of the earliest-start matrix -/
def EstSh (I : Instance) (est : List (List Int)) : Prop :=
  est.length = I.length ∧ ∀ j, (est.getD j []).length = (I.getD j []).length

theorem obsVal_plain {c : Cfg} {s : State} {o : FObs} (h1 : o.kind.single = false) (h2 : o.kind ≠ .unscheduled) :
    ObsVal c s o := by
  constructor
  all_goals (intro hk; rw [hk] at h1 h2; first | (simp [FKind.single] at h1; done) | exact absurd rfl h2)

theorem obsVal_unscheduled {c : Cfg} {s : State} {o : FObs} (hk : o.kind = .unscheduled)
    (h : o.deques = dequesSpec c.I s) : ObsVal c s o := by
  constructor
  case unsched => exact fun _ => h
  all_goals (intro hk'; rw [hk] at hk'; cases hk')

theorem obsVal_isReady {c : Cfg} {s : State} {o : FObs} (hk : o.kind = .isReady)
    (h : ∀ ft ∈ o.fts, o.col ft = indicator (numEntities c.I ft) (readyIds c s ft)) : ObsVal c s o := by
  constructor
  case ready => exact fun _ => h
  all_goals (intro hk'; rw [hk] at hk'; cases hk')

theorem isScheduled_init (I : Instance) (r : OpRef) : isScheduled (init I) r = false := by
  unfold isScheduled
  rw [init_jobIdx_getD]
  simp

theorem schedOpsSpec_init (I : Instance) : schedOpsSpec I (init I) = zeros (numOps I) := by
  unfold schedOpsSpec zeros
  apply List.ext_getElem
  · simp [length_allOps]
  · intro k h1 h2
    simp [isScheduled_init]

theorem dequesSpec_init (I : Instance) : dequesSpec I (init I) = fullDequesF I := by
  unfold dequesSpec fullDequesF
  apply List.map_congr_left
  intro j _
  rw [init_jobIdx_getD, List.drop_zero]

/-- `IsReadyObserver.reset` -/
theorem fresh_isReady (c : Cfg) (s : State) {o : FObs} (hk : o.kind = .isReady) (hsh : o.Shaped c.I) :
    ObsVal c s (isReadyFeatures c s o) := by
  have hkeep := keeps_isReadyFeatures c s hsh
  apply obsVal_isReady (hkeep.kind.trans hk)
  intro ft hft
  rw [hkeep.fts] at hft
  exact C11_isReady c s o hsh.wf.nodup ft hft

theorem setCol_est (o : FObs) (ft : FT) (col : List Int) : (o.setCol ft col).est = o.est := rfl

theorem assignCols_est (o : FObs) (g : FObs → FT → List Int) : (o.assignCols g).est = o.est := by
  unfold FObs.assignCols
  have : ∀ (l : List FT) (o : FObs), (l.foldl (fun o ft => o.setCol ft (g o ft)) o).est = o.est := by
    intro l
    induction l with
    | nil => intro o; rfl
    | cons a t ih => intro o; simp only [List.foldl_cons]; rw [ih]; rfl
  exact this o.fts o

theorem estCol_indep (c : Cfg) (s : State) :
    ∀ (o : FObs) (ft ft' : FT) (cc : List Int), ft ≠ ft' → estCol c s (o.setCol ft' cc) ft = estCol c s o ft := by
  intro o ft ft' cc hne
  cases ft <;> simp only [estCol, setCol_est, col_setCol_other _ _ _ _ hne]

/-- the value clauses of an earliest-start observer whose columns were just written from a correct matrix -/
theorem obsVal_est {c : Cfg} {s : State} {o : FObs} (hk : o.kind = .earliestStart) (hw : o.WF)
    (hok : EstOK c.I s o.est) : ObsVal c s (estFeatures c s o) := by
  have hcol : ∀ ft ∈ o.fts, (estFeatures c s o).col ft = estCol c s o ft := fun ft hft =>
    (assignCols_col o (estCol c s) hw (estCol_indep c s) ft hft).1
  have hfts : (estFeatures c s o).fts = o.fts := assignCols_fts o _
  have hest : (estFeatures c s o).est = o.est := assignCols_est o _
  have hkind : (estFeatures c s o).kind = .earliestStart := by
    have : ∀ (l : List FT) (o : FObs), (l.foldl (fun o ft => o.setCol ft (estCol c s o ft)) o).kind = o.kind := by
      intro l
      induction l with
      | nil => intro o; rfl
      | cons a t ih => intro o; simp only [List.foldl_cons]; rw [ih]; rfl
    exact (this o.fts o).trans hk
  constructor
  case estM => intro _; rw [hest]; exact hok
  case estOps =>
    intro _ hft r hr
    rw [hfts] at hft
    rw [hcol _ hft]
    exact estCol_ops c s o hok r hr
  case estMach =>
    intro _ hft m hm
    rw [hfts] at hft
    rw [hcol _ hft]
    exact estCol_machines c s o hok m hm
  case estJobs =>
    intro _ hft j hj hlt
    rw [hfts] at hft
    rw [hcol _ hft]
    exact estCol_jobs c s o hok j hj hlt
  all_goals (intro hk'; rw [hkind] at hk'; cases hk')

/-- `EarliestStartTimeObserver.reset` -/
theorem fresh_est (c : Cfg) (s : State) {o : FObs} (hk : o.kind = .earliestStart) (hsh : o.Shaped c.I)
    (he : EstSh c.I o.est) :
    ObsVal c s (estFeatures c s (({ o with est := estCompute c.I s o.est } : FObs).zeroed c.I)) := by
  apply obsVal_est
  · exact hk
  · exact zeroed_wf c.I _ hsh.wf.nodup
  · exact estCompute_spec c.I s o.est he

/-- `DurationObserver.reset` -/
theorem fresh_duration (c : Cfg) (s : State) {o : FObs} (hk : o.kind = .duration) (hsh : o.Shaped c.I) :
    ObsVal c s (durationInit c s (o.zeroed c.I)) := by
  have hw : (o.zeroed c.I).WF := zeroed_wf c.I o hsh.wf.nodup
  have hkeep := keeps_durationInit c s (zeroed_shaped c.I o hsh.wf.nodup)
  have hkind : (durationInit c s (o.zeroed c.I)).kind = .duration := hkeep.kind.trans hk
  have hfts : (durationInit c s (o.zeroed c.I)).fts = (o.zeroed c.I).fts := hkeep.fts
  constructor
  case durOps => intro _ hft; rw [hfts] at hft; exact durationInit_ops c s _ hw hft
  case durJobs => intro _ hft; rw [hfts] at hft; exact (durationInit_jobs c s _ hw hft).1
  case durMach => intro _ _ hft; rw [hfts] at hft; exact durationInit_machines c s _ hw hft
  all_goals (intro hk'; rw [hkind] at hk'; cases hk')

/-- `IsScheduledObserver.reset` (in the initial state) -/
theorem fresh_isScheduled (c : Cfg) {o : FObs} (hk : o.kind = .isScheduled) (hsh : o.Shaped c.I) :
    ObsVal c (init c.I) (o.zeroed c.I) := by
  have hnd := hsh.wf.nodup
  constructor
  case schOps =>
    intro _ hft
    rw [zeroed_col c.I o hnd _ hft, schedOpsSpec_init]; rfl
  case schMach =>
    intro _ hft
    rw [zeroed_col c.I o hnd _ hft, (ongoingSpecs_init c).1]; rfl
  case schJobs =>
    intro _ hft
    rw [zeroed_col c.I o hnd _ hft, (ongoingSpecs_init c).2]; rfl
  all_goals (intro hk'; rw [zeroed_kind, hk] at hk'; cases hk')

/-- `PositionInJobObserver.reset` (in the initial state) -/
theorem fresh_position (c : Cfg) {o : FObs} (hk : o.kind = .positionInJob) (hsh : o.Shaped c.I) :
    ObsVal c (init c.I) (positionInit c (init c.I) (o.zeroed c.I)) := by
  have hnd := hsh.wf.nodup
  have hw : (o.zeroed c.I).WF := zeroed_wf c.I o hnd
  have hkeep := keeps_positionInit c (init c.I) (zeroed_shaped c.I o hnd)
  have hkind : (positionInit c (init c.I) (o.zeroed c.I)).kind = .positionInJob := hkeep.kind.trans hk
  constructor
  case pos =>
    intro _ hft
    rw [hkeep.fts] at hft
    refine (positionInit_spec c _ hw hft ?_).1
    rw [zeroed_col c.I o hnd _ hft, zeros_length]; rfl
  all_goals (intro hk'; rw [hkind] at hk'; cases hk')

/-- `RemainingOperationsObserver.initialize_features` on zero arrays, from the full deques (initial state) -/
theorem fresh_remaining (c : Cfg) {o : FObs} (hk : o.kind = .remainingOps) (hsh : o.Shaped c.I) :
    ObsVal c (init c.I) (remainingInit c (fullDequesF c.I) (o.zeroed c.I)) := by
  have hnd := hsh.wf.nodup
  have hw : (o.zeroed c.I).WF := zeroed_wf c.I o hnd
  have hkeep := keeps_remainingInit c (fullDequesF c.I) (zeroed_shaped c.I o hnd)
  have hkind : (remainingInit c (fullDequesF c.I) (o.zeroed c.I)).kind = .remainingOps := hkeep.kind.trans hk
  obtain ⟨h1, h2, _, _⟩ := remainingInit_spec c (init c.I) (wf_init c.I) (o.zeroed c.I) hw
    (fun ft hft => zeroed_col c.I o hnd ft hft)
  rw [dequesSpec_init] at h1 h2
  constructor
  case remJobs => intro _ hft; rw [hkeep.fts] at hft; exact h1 hft
  case remMach => intro _ _ hft; rw [hkeep.fts] at hft; exact h2 hft
  all_goals (intro hk'; rw [hkind] at hk'; cases hk')

/-- `IsCompletedObserver.initialize_features` with counters copied from a correct helper (initial state) -/
theorem fresh_isCompleted (c : Cfg) {o : FObs} (hk : o.kind = .isCompleted) (hsh : o.Shaped c.I) (rj rm : List Int)
    (hrj : FT.jobs ∈ o.fts → rj = remJobsSpec c.I (init c.I))
    (hrm : FT.machines ∈ o.fts → rm = remMachSpec c.I (init c.I)) :
    ObsVal c (init c.I) ({ (o.zeroed c.I) with remJob := rj, remMach := rm } : FObs) := by
  have hnd := hsh.wf.nodup
  have hcol : ∀ ft ∈ o.fts, ({ (o.zeroed c.I) with remJob := rj, remMach := rm } : FObs).col ft
      = zeros (numEntities c.I ft) := fun ft hft => zeroed_col c.I o hnd ft hft
  constructor
  case cmpOps =>
    intro _ hft
    rw [hcol _ hft, (complSpecs_init c).1]; rfl
  case cmpJobs =>
    intro _ hft
    refine ⟨hrj hft, ?_⟩
    rw [hcol _ hft, (complSpecs_init c).2]; rfl
  case cmpMach =>
    intro _ hft
    refine ⟨hrm hft, ?_⟩
    rw [hcol _ hft, complMachSpec_init]; rfl
  all_goals (intro hk'; exact absurd (show o.kind = _ from hk') (by rw [hk]; simp))


/-! ## world level: the modification relation -/

/-- shape facts every entry keeps -/
def ShQ (c : Cfg) (o : FObs) : Prop :=
  (o.kind.single = true → o.Shaped c.I) ∧ (o.kind = .earliestStart → EstSh c.I o.est)

/-- what a rewritten or pushed entry at index `k` satisfies: the shape facts and — unless `k` is excepted — the
values specified for the initial state -/
def QX (c : Cfg) (E : Nat → Prop) (k : Nat) (o : FObs) : Prop :=
  ShQ c o ∧ (¬ E k → ObsVal c (init c.I) o)

/-- no exception -/
abbrev Q0 (c : Cfg) : Nat → FObs → Prop := QX c (fun _ => False)

theorem shq_of_obsVal {c : Cfg} {s : State} {o : FObs} (h : ObsVal c s o) (hs : o.kind.single = true → o.Shaped c.I) :
    ShQ c o :=
  ⟨hs, fun hk => ⟨(h.estM hk).1, (h.estM hk).2.1⟩⟩

theorem qx_of_obsVal {c : Cfg} {o : FObs} (E : Nat → Prop) (k : Nat) (h : ObsVal c (init c.I) o)
    (hs : o.kind.single = true → o.Shaped c.I) : QX c E k o :=
  ⟨shq_of_obsVal h hs, fun _ => h⟩

/-- `w'` is `w` with some entries rewritten and some pushed; rewritten entries keep their kind and (single-column
observers) feature types; rewritten and pushed entries satisfy `Q` -/
structure Mod (Q : Nat → FObs → Prop) (w w' : FWorld) : Prop where
  good : Good w w'
  len : w.heap.length ≤ w'.heap.length
  newsubs : ∀ id ∈ w'.subs, id ∈ w.subs ∨ w.heap.length ≤ id
  old : ∀ k o, w.heap[k]? = some o → ∃ o', w'.heap[k]? = some o' ∧ o'.kind = o.kind ∧
    (o.kind.single = true → o'.fts = o.fts) ∧ (o' = o ∨ Q k o')
  new : ∀ k o', w.heap.length ≤ k → w'.heap[k]? = some o' → Q k o'

theorem Mod.refl (Q : Nat → FObs → Prop) (w : FWorld) : Mod Q w w :=
  ⟨Good.refl w, Nat.le_refl _, fun _ h => Or.inl h, fun _ o h => ⟨o, h, rfl, fun _ => rfl, Or.inl rfl⟩,
   fun k o' hk h => by
     have := (List.getElem?_eq_some_iff.1 h).1
     omega⟩

theorem Mod.trans {Q : Nat → FObs → Prop} {a b c : FWorld} (h1 : Mod Q a b) (h2 : Mod Q b c) : Mod Q a c := by
  refine ⟨h1.good.trans h2.good, Nat.le_trans h1.len h2.len, ?_, ?_, ?_⟩
  · intro id hid
    rcases h2.newsubs id hid with h | h
    · exact h1.newsubs id h
    · exact Or.inr (Nat.le_trans h1.len h)
  · intro k o ho
    obtain ⟨o1, g1, k1, f1, q1⟩ := h1.old k o ho
    obtain ⟨o2, g2, k2, f2, q2⟩ := h2.old k o1 g1
    refine ⟨o2, g2, k2.trans k1, fun hs => (f2 (k1 ▸ hs)).trans (f1 hs), ?_⟩
    rcases q2 with rfl | q2
    · exact q1
    · exact Or.inr q2
  · intro k o' hk ho'
    by_cases hlt : k < b.heap.length
    · obtain ⟨o1, g1⟩ : ∃ o1, b.heap[k]? = some o1 := ⟨b.heap[k], List.getElem?_eq_getElem hlt⟩
      obtain ⟨o2, g2, _, _, q2⟩ := h2.old k o1 g1
      rw [ho'] at g2; cases g2
      rcases q2 with rfl | q2
      · exact h1.new k _ hk g1
      · exact q2
    · exact h2.new k o' (by omega) ho'

theorem Mod.mono {Q Q' : Nat → FObs → Prop} {w w' : FWorld} (h : Mod Q w w')
    (hq : ∀ k o', w'.heap[k]? = some o' → Q k o' → Q' k o') : Mod Q' w w' := by
  refine ⟨h.good, h.len, h.newsubs, ?_, fun k o' hk ho' => hq k o' ho' (h.new k o' hk ho')⟩
  intro k o ho
  obtain ⟨o', g, k1, f1, q1⟩ := h.old k o ho
  refine ⟨o', g, k1, f1, ?_⟩
  rcases q1 with q1 | q1
  · exact Or.inl q1
  · exact Or.inr (hq k o' g q1)

theorem mod_push (Q : Nat → FObs → Prop) (w : FWorld) (o : FObs) (hq : Q w.heap.length o) : Mod Q w (w.push o).1 := by
  refine ⟨good_push w o, by simp [FWorld.push], ?_, ?_, ?_⟩
  · intro id hid
    simp only [FWorld.push, List.mem_append, List.mem_singleton] at hid
    rcases hid with h | h
    · exact Or.inl h
    · exact Or.inr (by omega)
  · intro k o0 hk
    have hlt : k < w.heap.length := (List.getElem?_eq_some_iff.1 hk).1
    refine ⟨o0, ?_, rfl, fun _ => rfl, Or.inl rfl⟩
    simp only [FWorld.push]
    rw [List.getElem?_append_left hlt]; exact hk
  · intro k o' hk ho'
    simp only [FWorld.push] at ho'
    rw [List.getElem?_append_right hk] at ho'
    have hk0 : k - w.heap.length = 0 := by
      cases hc : k - w.heap.length with
      | zero => rfl
      | succ n => rw [hc] at ho'; simp at ho'
    rw [hk0] at ho'
    simp only [List.getElem?_cons_zero, Option.some.injEq] at ho'
    subst ho'
    have : k = w.heap.length := by omega
    rw [this]; exact hq

theorem push_get (w : FWorld) (o : FObs) : (w.push o).1.heap[w.heap.length]? = some o := by
  simp [FWorld.push]

theorem setObs_get {w : FWorld} {id : Nat} (hlt : id < w.heap.length) (o' : FObs) :
    (w.setObs id o').heap[id]? = some o' := by
  simp [FWorld.setObs, hlt]

theorem setObs_get_ne (w : FWorld) {id k : Nat} (hne : id ≠ k) (o' : FObs) :
    (w.setObs id o').heap[k]? = w.heap[k]? := by
  simp only [FWorld.setObs]
  rw [List.getElem?_set_ne hne]

theorem mod_setObs (Q : Nat → FObs → Prop) (w : FWorld) (id : Nat) (o' : FObs)
    (h : ∀ o0, w.heap[id]? = some o0 → o'.kind = o0.kind ∧ (o0.kind.single = true → o'.fts = o0.fts) ∧ Q id o') :
    Mod Q w (w.setObs id o') := by
  refine ⟨good_setObs w id o', by simp [FWorld.setObs], fun _ hid => Or.inl hid, ?_, ?_⟩
  · intro k o hk
    by_cases hik : id = k
    · subst hik
      have hlt : id < w.heap.length := (List.getElem?_eq_some_iff.1 hk).1
      obtain ⟨a, b, q⟩ := h o hk
      exact ⟨o', setObs_get hlt o', a, b, Or.inr q⟩
    · exact ⟨o, by rw [setObs_get_ne w hik]; exact hk, rfl, fun _ => rfl, Or.inl rfl⟩
  · intro k o1 hk ho1
    have := (List.getElem?_eq_some_iff.1 ho1).1
    simp only [FWorld.setObs, List.length_set] at this
    omega

/-! ## the fold invariant -/

structure J (c : Cfg) (w : FWorld) : Prop where
  cfg : w.cfg = c
  s : w.s = init c.I
  subs : SubsOK w
  shape : ∀ (k : Nat) (o : FObs), w.heap[k]? = some o → o.kind.single = true → o.Shaped c.I
  est : ∀ id ∈ w.subs, ∀ o : FObs, w.heap[id]? = some o → o.kind = .earliestStart → EstSh c.I o.est

theorem J.ext {c : Cfg} {w w' : FWorld} {E : Nat → Prop} (hj : J c w) (hm : Mod (QX c E) w w') : J c w' := by
  refine ⟨hm.good.st.1.trans hj.cfg, hm.good.st.2.trans hj.s, hm.good.ok hj.subs, ?_, ?_⟩
  · intro k o' ho' hs
    by_cases hlt : k < w.heap.length
    · obtain ⟨o, g⟩ : ∃ o, w.heap[k]? = some o := ⟨w.heap[k], List.getElem?_eq_getElem hlt⟩
      obtain ⟨o2, g2, k2, _, q2⟩ := hm.old k o g
      rw [ho'] at g2; cases g2
      rcases q2 with rfl | q2
      · exact hj.shape k _ g hs
      · exact q2.1.1 hs
    · exact (hm.new k o' (by omega) ho').1.1 hs
  · intro id hid o' ho' hk
    rcases hm.newsubs id hid with h | h
    · have hlt := hj.subs.valid id h
      obtain ⟨o, g⟩ : ∃ o, w.heap[id]? = some o := ⟨w.heap[id], List.getElem?_eq_getElem hlt⟩
      obtain ⟨o2, g2, k2, _, q2⟩ := hm.old id o g
      rw [ho'] at g2; cases g2
      rcases q2 with rfl | q2
      · exact hj.est id h _ g hk
      · exact q2.1.2 hk
    · exact (hm.new id o' h ho').1.2 hk

/-- the entry at `k` (if any) has the values specified for the initial state -/
def FreshAt (c : Cfg) (w : FWorld) (k : Nat) : Prop := ∀ o, w.heap[k]? = some o → ObsVal c (init c.I) o

theorem FreshAt.ext {c : Cfg} {w w' : FWorld} {E : Nat → Prop} {k : Nat} (hf : FreshAt c w k)
    (hm : Mod (QX c E) w w') (hk : ¬ E k) : FreshAt c w' k := by
  intro o' ho'
  by_cases hlt : k < w.heap.length
  · obtain ⟨o, g⟩ : ∃ o, w.heap[k]? = some o := ⟨w.heap[k], List.getElem?_eq_getElem hlt⟩
    obtain ⟨o2, g2, _, _, q2⟩ := hm.old k o g
    rw [ho'] at g2; cases g2
    rcases q2 with rfl | q2
    · exact hf _ g
    · exact q2.2 hk
  · exact (hm.new k o' (by omega) ho').2 hk

/-! ## `findObs` -/

theorem find?_congr' {α} (p q : α → Bool) : ∀ (l : List α), (∀ a ∈ l, p a = q a) → l.find? p = l.find? q
  | [], _ => rfl
  | a :: t, h => by
    simp only [List.find?_cons]
    rw [h a (by simp), find?_congr' p q t (fun x hx => h x (by simp [hx]))]

theorem findObs_spec {w : FWorld} {kind : FKind} {need : List FT} {id : Nat} (h : w.findObs kind need = some id) :
    id ∈ w.subs ∧ ∃ o, w.heap[id]? = some o ∧ o.kind = kind ∧ ∀ ft ∈ need, ft ∈ o.fts := by
  unfold FWorld.findObs at h
  refine ⟨List.mem_of_find?_eq_some h, ?_⟩
  have := List.find?_some h
  cases ho : w.heap[id]? with
  | none => simp [ho] at this
  | some o =>
    simp only [ho, Bool.and_eq_true, beq_iff_eq, List.all_eq_true, List.contains_eq_mem, decide_eq_true_eq] at this
    exact ⟨o, rfl, this.1, this.2⟩

/-- the lookup predicate of `findObs` -/
def findP (w : FWorld) (kind : FKind) (need : List FT) (id : Nat) : Bool :=
  match w.heap[id]? with
  | some o => o.kind == kind && need.all (fun ft => o.fts.contains ft)
  | none => false

theorem findObs_eq (w : FWorld) (kind : FKind) (need : List FT) : w.findObs kind need = w.subs.find? (findP w kind need) := rfl

theorem findP_mod {Q : Nat → FObs → Prop} {w w' : FWorld} (hm : Mod Q w w') (hs : SubsOK w) {kind : FKind}
    (hk : kind.single = true) (need : List FT) : ∀ id ∈ w.subs, findP w' kind need id = findP w kind need id := by
  intro id hid
  have hlt := hs.valid id hid
  obtain ⟨o, g⟩ : ∃ o, w.heap[id]? = some o := ⟨w.heap[id], List.getElem?_eq_getElem hlt⟩
  obtain ⟨o', g', k', f', _⟩ := hm.old id o g
  simp only [findP, g, g']
  by_cases hkk : o.kind = kind
  · rw [k', f' (hkk ▸ hk)]
  · have h1 : (o.kind == kind) = false := by simpa using hkk
    have h2 : (o'.kind == kind) = false := by rw [k']; exact h1
    simp [h1, h2]

/-- an observer that was found is still found after rewriting and pushing -/
theorem findObs_mod {Q : Nat → FObs → Prop} {w w' : FWorld} (hm : Mod Q w w') (hs : SubsOK w) {kind : FKind}
    (hk : kind.single = true) {need : List FT} {r : Nat} (h : w.findObs kind need = some r) :
    w'.findObs kind need = some r := by
  obtain ⟨t, ht⟩ := hm.good.pre
  rw [findObs_eq] at h ⊢
  rw [ht, List.find?_append, find?_congr' _ _ _ (findP_mod hm hs hk need), h]
  rfl

/-- if none was found and the first pushed entry matches, it is found afterwards -/
theorem findObs_new {Q : Nat → FObs → Prop} {w w' : FWorld} (hm : Mod Q w w') (hs : SubsOK w) {kind : FKind}
    (hk : kind.single = true) {need : List FT} (h : w.findObs kind need = none) (t : List Nat)
    (ht : w'.subs = w.subs ++ w.heap.length :: t) (o' : FObs) (ho' : w'.heap[w.heap.length]? = some o')
    (hkind : o'.kind = kind) (hfts : ∀ ft ∈ need, ft ∈ o'.fts) : w'.findObs kind need = some w.heap.length := by
  rw [findObs_eq] at h ⊢
  rw [ht, List.find?_append, find?_congr' _ _ _ (findP_mod hm hs hk need), h]
  have : findP w' kind need w.heap.length = true := by
    simp only [findP, ho', hkind, beq_self_eq_true, Bool.true_and, List.all_eq_true, List.contains_eq_mem,
      decide_eq_true_eq]
    exact hfts
  simp [this]


/-! ## the helpers -/

theorem init_sched_flatten (I : Instance) : (init I).sched.flatten = [] := by
  simp [init]

theorem obs_at {w : FWorld} {k : Nat} (hlt : k < w.heap.length) : ∃ o, w.heap[k]? = some o :=
  ⟨w.heap[k], List.getElem?_eq_getElem hlt⟩

/-- `create_or_get_observer(UnscheduledOperationsObserver)` in the initial state: a new helper is correct -/
theorem getUnscheduled_mod {c : Cfg} {w : FWorld} (hj : J c w) (E : Nat → Prop) :
    Mod (QX c E) w w.getUnscheduled.1 ∧
    ∃ u, w.getUnscheduled.1.heap[w.getUnscheduled.2]? = some u ∧ u.kind = .unscheduled := by
  unfold FWorld.getUnscheduled
  cases hf : w.findObs .unscheduled [] with
  | some id =>
    obtain ⟨o, ho, hk⟩ := findObs_kind hf
    exact ⟨Mod.refl _ w, o, ho, hk⟩
  | none =>
    simp only
    refine ⟨mod_push _ w _ ?_, _, push_get w _, rfl⟩
    apply qx_of_obsVal
    · apply obsVal_unscheduled rfl
      simp only [hj.s, hj.cfg, init_sched_flatten, List.foldl_nil]
      exact (dequesSpec_init c.I).symm
    · intro h; simp [FKind.single] at h

theorem newRemaining_mod {c : Cfg} {w : FWorld} (hj : J c w) (need : List FT) (hnd : need.Nodup)
    (hnone : w.findObs .remainingOps need = none) :
    (w.newRemaining need).2 = w.heap.length ∧
    Mod (QX c (· = w.heap.length)) w (w.newRemaining need).1 ∧
    (w.newRemaining need).1.findObs .remainingOps need = some w.heap.length := by
  unfold FWorld.newRemaining
  simp only
  have hbase : QX c (· = w.heap.length) w.heap.length (({ kind := .remainingOps, fts := need } : FObs).zeroed w.cfg.I) := by
    refine ⟨⟨fun _ => ?_, fun h => by simp [FObs.zeroed] at h⟩, fun h => absurd rfl h⟩
    rw [hj.cfg]; exact zeroed_shaped _ _ hnd
  have m1 := mod_push (QX c (· = w.heap.length)) w _ hbase
  have g1 := push_get w (({ kind := .remainingOps, fts := need } : FObs).zeroed w.cfg.I)
  have hs1 : (w.push (({ kind := .remainingOps, fts := need } : FObs).zeroed w.cfg.I)).1.subs = w.subs ++ [w.heap.length] := rfl
  have hid : (w.push (({ kind := .remainingOps, fts := need } : FObs).zeroed w.cfg.I)).2 = w.heap.length := rfl
  generalize hw1 : (w.push (({ kind := .remainingOps, fts := need } : FObs).zeroed w.cfg.I)) = r1 at m1 g1 hs1 hid
  obtain ⟨w1, id⟩ := r1
  simp only at m1 g1 hs1 hid ⊢
  subst hid
  have j1 : J c w1 := hj.ext m1
  obtain ⟨m2, _⟩ := getUnscheduled_mod j1 (· = w.heap.length)
  obtain ⟨t2, ht2⟩ := m2.good.pre
  generalize w1.getUnscheduled = r2 at m2 ht2
  obtain ⟨w2, uid⟩ := r2
  simp only at m2 ht2 ⊢
  have j2 : J c w2 := j1.ext m2
  obtain ⟨o2, ho2, hk2, hf2, _⟩ := m2.old _ _ g1
  have hk2' : o2.kind = .remainingOps := hk2
  have hs2 : o2.kind.single = true := by rw [hk2']; rfl
  have hf2' : o2.fts = need := hf2 rfl
  rw [getD_of_some ho2, j2.cfg]
  have hkeep := keeps_remainingInit c (w2.heap.getD uid default).deques (j2.shape _ _ ho2 hs2)
  have m3 : Mod (QX c (· = w.heap.length)) w2 (w2.setObs w.heap.length (remainingInit c (w2.heap.getD uid default).deques o2)) := by
    apply mod_setObs
    intro o0 h0
    rw [ho2] at h0; cases h0
    refine ⟨hkeep.kind, fun _ => hkeep.fts, ⟨fun _ => hkeep.shaped, fun h => ?_⟩, fun h => absurd rfl h⟩
    rw [hkeep.kind, hk2'] at h; cases h
  have mall := m1.trans (m2.trans m3)
  refine ⟨trivial, mall, ?_⟩
  have hlt : w.heap.length < w2.heap.length := (List.getElem?_eq_some_iff.1 ho2).1
  refine findObs_new mall hj.subs rfl hnone t2 ?_ _ (setObs_get hlt _) (hkeep.kind.trans hk2') ?_
  · show w2.subs = _
    rw [ht2, hs1]; simp
  · intro ft hft
    rw [hkeep.fts, hf2']; exact hft

theorem getRemaining_mod {c : Cfg} {w : FWorld} (hj : J c w) (need : List FT) (hnd : need.Nodup) :
    Mod (QX c (· = (w.getRemaining need).2)) w (w.getRemaining need).1 ∧
    (w.getRemaining need).1.findObs .remainingOps need = some (w.getRemaining need).2 := by
  unfold FWorld.getRemaining
  cases hf : w.findObs .remainingOps need with
  | some id => exact ⟨Mod.refl _ w, hf⟩
  | none =>
    simp only
    obtain ⟨h1, h2, h3⟩ := newRemaining_mod hj need hnd hf
    rw [h1]
    exact ⟨h2, h3⟩

/-- `RemainingOperationsObserver.reset`: the helper, then the observer itself -/
theorem resetRemaining_mod {c : Cfg} {w : FWorld} (hj : J c w) {id : Nat} {o : FObs} (ho : w.heap[id]? = some o)
    (hk : o.kind = .remainingOps) :
    Mod (Q0 c) w (w.resetRemaining id) ∧ FreshAt c (w.resetRemaining id) id := by
  unfold FWorld.resetRemaining
  simp only
  obtain ⟨m1, u, hu, hku⟩ := getUnscheduled_mod hj (fun _ => False)
  generalize w.getUnscheduled = r1 at m1 hu
  obtain ⟨w1, uid⟩ := r1
  simp only at m1 hu ⊢
  have j1 : J c w1 := hj.ext m1
  rw [getD_of_some hu, j1.cfg]
  have hult : uid < w1.heap.length := (List.getElem?_eq_some_iff.1 hu).1
  have m2 : Mod (Q0 c) w1 (w1.setObs uid { u with deques := fullDequesF c.I }) := by
    apply mod_setObs
    intro o0 h0
    rw [hu] at h0; cases h0
    refine ⟨rfl, fun _ => rfl, ?_⟩
    apply qx_of_obsVal
    · exact obsVal_unscheduled hku (dequesSpec_init c.I).symm
    · intro h; rw [show ({ u with deques := fullDequesF c.I } : FObs).kind = .unscheduled from hku] at h
      simp [FKind.single] at h
  have hu2 : (w1.setObs uid { u with deques := fullDequesF c.I }).heap[uid]? = some { u with deques := fullDequesF c.I } :=
    setObs_get hult _
  generalize w1.setObs uid { u with deques := fullDequesF c.I } = w2 at m2 hu2
  have j2 : J c w2 := j1.ext m2
  obtain ⟨o2, ho2, hk2, _, _⟩ := (m1.trans m2).old id o ho
  have hk2' : o2.kind = .remainingOps := hk2.trans hk
  have hs2 : o2.kind.single = true := by rw [hk2']; rfl
  have hsh2 := j2.shape _ _ ho2 hs2
  rw [getD_of_some ho2, getD_of_some hu2, j2.cfg]
  have hlt : id < w2.heap.length := (List.getElem?_eq_some_iff.1 ho2).1
  have hval := fresh_remaining c hk2' hsh2
  have hkeep := (keeps_zeroed (I := c.I) hsh2.wf.nodup).trans
    (keeps_remainingInit c (fullDequesF c.I) (zeroed_shaped c.I o2 hsh2.wf.nodup))
  have m3 : Mod (Q0 c) w2 (w2.setObs id (remainingInit c (fullDequesF c.I) (o2.zeroed c.I))) := by
    apply mod_setObs
    intro o0 h0
    rw [ho2] at h0; cases h0
    exact ⟨hkeep.kind, fun _ => hkeep.fts, qx_of_obsVal _ _ hval (fun _ => hkeep.shaped)⟩
  refine ⟨m1.trans (m2.trans m3), ?_⟩
  intro o' ho'
  rw [setObs_get hlt] at ho'
  cases ho'
  exact hval


theorem setObs_fresh {c : Cfg} {w : FWorld} {id : Nat} {o o' : FObs} (ho : w.heap[id]? = some o)
    (hkind : o'.kind = o.kind) (hfts : o.kind.single = true → o'.fts = o.fts) (hval : ObsVal c (init c.I) o')
    (hsh : o'.kind.single = true → o'.Shaped c.I) :
    Mod (Q0 c) w (w.setObs id o') ∧ FreshAt c (w.setObs id o') id := by
  have hlt : id < w.heap.length := (List.getElem?_eq_some_iff.1 ho).1
  constructor
  · apply mod_setObs
    intro o0 h0
    rw [ho] at h0; cases h0
    exact ⟨hkind, hfts, qx_of_obsVal _ _ hval hsh⟩
  · intro o1 ho1
    rw [setObs_get hlt] at ho1
    cases ho1
    exact hval

theorem qx_weaken {c : Cfg} (E : Nat → Prop) {k : Nat} {o : FObs} (h : Q0 c k o) : QX c E k o :=
  ⟨h.1, fun _ => h.2 (fun hf => hf)⟩

/-- `IsCompletedObserver.initialize_features` when a correct remaining-operations helper is found -/
theorem isCompletedInit_mod {c : Cfg} {w : FWorld} (hj : J c w) {id : Nat} {o : FObs} (ho : w.heap[id]? = some o)
    (hk : o.kind = .isCompleted) {rid : Nat}
    (hf : w.findObs .remainingOps (o.fts.filter (· != .operations)) = some rid) (hfr : FreshAt c w rid) :
    Mod (Q0 c) w (w.isCompletedInit id) ∧ FreshAt c (w.isCompletedInit id) id := by
  have hs : o.kind.single = true := by rw [hk]; rfl
  have hsh := hj.shape _ _ ho hs
  have hlt : id < w.heap.length := (List.getElem?_eq_some_iff.1 ho).1
  obtain ⟨_, r, hr, hkr, hneed⟩ := findObs_spec hf
  have hne : id ≠ rid := by
    intro h; subst h
    rw [ho] at hr; cases hr
    rw [hk] at hkr; cases hkr
  have m1 : Mod (QX c (· = id)) w (w.setObs id (o.zeroed c.I)) := by
    apply mod_setObs
    intro o0 h0
    rw [ho] at h0; cases h0
    refine ⟨rfl, fun _ => rfl, ⟨fun _ => zeroed_shaped c.I o hsh.wf.nodup, fun h => ?_⟩, fun h => absurd rfl h⟩
    rw [zeroed_kind, hk] at h; cases h
  have hf1 : (w.setObs id (o.zeroed c.I)).findObs .remainingOps (o.fts.filter (· != .operations)) = some rid :=
    findObs_mod m1 hj.subs rfl hf
  have hres : w.isCompletedInit id = w.setObs id
      { (o.zeroed c.I) with
        remJob := if (o.zeroed c.I).has .jobs then r.col .jobs else (o.zeroed c.I).remJob,
        remMach := if (o.zeroed c.I).has .machines then r.col .machines else (o.zeroed c.I).remMach } := by
    unfold FWorld.isCompletedInit
    simp only
    rw [getD_of_some ho, hj.cfg]
    have hg : (w.setObs id (o.zeroed c.I)).getRemaining ((o.zeroed c.I).fts.filter (· != .operations)) =
        (w.setObs id (o.zeroed c.I), rid) := by
      unfold FWorld.getRemaining
      rw [show (o.zeroed c.I).fts = o.fts from rfl, hf1]
    rw [hg]
    simp only
    have hr1 : (w.setObs id (o.zeroed c.I)).heap[rid]? = some r := by rw [setObs_get_ne w hne]; exact hr
    rw [getD_of_some (setObs_get hlt _), getD_of_some hr1]
    simp only [FWorld.setObs, List.set_set]
  rw [hres]
  have hrf := hfr r hr
  have hjobs : FT.jobs ∈ o.fts → FT.jobs ∈ r.fts := fun h =>
    hneed _ (List.mem_filter.2 ⟨h, by decide⟩)
  have hmach : FT.machines ∈ o.fts → FT.machines ∈ r.fts := fun h =>
    hneed _ (List.mem_filter.2 ⟨h, by decide⟩)
  refine setObs_fresh ho ?_ ?_ ?_ ?_
  · rfl
  · exact fun _ => rfl
  · apply fresh_isCompleted c hk hsh
    · intro hft
      rw [if_pos (show (o.zeroed c.I).has .jobs = true from mem_has hft)]
      exact hrf.remJobs hkr (hjobs hft)
    · intro hft
      rw [if_pos (show (o.zeroed c.I).has .machines = true from mem_has hft)]
      exact hrf.remMach hkr (Or.inr rfl) (hmach hft)
  · intro _
    exact (keeps_withRem (zeroed_shaped c.I o hsh.wf.nodup) _ _).shaped

/-! ## one `reset()` callback -/

theorem callReset_mod {c : Cfg} {w : FWorld} (hj : J c w) {id : Nat} (hid : id ∈ w.subs) :
    Mod (Q0 c) w (w.callReset id) ∧ FreshAt c (w.callReset id) id := by
  unfold FWorld.callReset
  cases h0 : w.heap[id]? with
  | none => exact ⟨Mod.refl _ w, fun o ho => by rw [h0] at ho; cases ho⟩
  | some o =>
    simp only
    have hsh : o.kind.single = true → o.Shaped c.I := hj.shape _ _ h0
    rw [hj.cfg, hj.s]
    split
    · rename_i hk
      have hs : o.kind.single = true := by rw [hk]; rfl
      have hkeep := keeps_isReadyFeatures c (init c.I) (hsh hs)
      exact setObs_fresh h0 hkeep.kind (fun _ => hkeep.fts) (fresh_isReady c _ hk (hsh hs)) (fun _ => hkeep.shaped)
    · rename_i hk
      have hs : o.kind.single = true := by rw [hk]; rfl
      have k1 := keeps_withEst (hsh hs) (estCompute c.I (init c.I) o.est)
      have k2 := k1.trans (keeps_zeroed (I := c.I) k1.shaped.wf.nodup)
      have k3 := k2.trans (keeps_estFeatures c (init c.I) k2.shaped)
      exact setObs_fresh h0 k3.kind (fun _ => k3.fts) (fresh_est c _ hk (hsh hs) (hj.est id hid o h0 hk))
        (fun _ => k3.shaped)
    · rename_i hk
      have hs : o.kind.single = true := by rw [hk]; rfl
      have k1 := keeps_zeroed (I := c.I) (hsh hs).wf.nodup
      have k2 := k1.trans (keeps_durationInit c (init c.I) k1.shaped)
      exact setObs_fresh h0 k2.kind (fun _ => k2.fts) (fresh_duration c _ hk (hsh hs)) (fun _ => k2.shaped)
    · rename_i hk
      have hs : o.kind.single = true := by rw [hk]; rfl
      have k1 := keeps_zeroed (I := c.I) (hsh hs).wf.nodup
      exact setObs_fresh h0 k1.kind (fun _ => k1.fts) (fresh_isScheduled c hk (hsh hs)) (fun _ => k1.shaped)
    · rename_i hk
      have hs : o.kind.single = true := by rw [hk]; rfl
      have k1 := keeps_zeroed (I := c.I) (hsh hs).wf.nodup
      have k2 := k1.trans (keeps_positionInit c (init c.I) k1.shaped)
      exact setObs_fresh h0 k2.kind (fun _ => k2.fts) (fresh_position c hk (hsh hs)) (fun _ => k2.shaped)
    · rename_i hk
      exact resetRemaining_mod hj h0 hk
    · rename_i hk
      have hs : o.kind.single = true := by rw [hk]; rfl
      have hnd : (o.fts.filter (· != .operations)).Nodup := (hsh hs).wf.nodup.filter _
      obtain ⟨m1, f1⟩ := getRemaining_mod hj _ hnd
      generalize w.getRemaining (o.fts.filter (· != .operations)) = r1 at m1 f1
      obtain ⟨w1, rid⟩ := r1
      simp only at m1 f1 ⊢
      have j1 : J c w1 := hj.ext m1
      obtain ⟨_, r, hr, hkr, _⟩ := findObs_spec f1
      obtain ⟨m2, fr2⟩ := resetRemaining_mod j1 hr hkr
      have j2 : J c (w1.resetRemaining rid) := j1.ext m2
      have f2 := findObs_mod m2 j1.subs rfl f1
      obtain ⟨o1, ho1, hk1, hf1, _⟩ := m1.old id o h0
      obtain ⟨o2, ho2, hk2, hf2, _⟩ := m2.old id o1 ho1
      have hk2' : o2.kind = .isCompleted := hk2.trans (hk1.trans hk)
      have hfts2 : o2.fts = o.fts := (hf2 (hk1 ▸ hs)).trans (hf1 hs)
      obtain ⟨m3, fr3⟩ := isCompletedInit_mod j2 ho2 hk2' (rid := rid) (by rw [hfts2]; exact f2) fr2
      refine ⟨?_, fr3⟩
      have mall : Mod (QX c (· = rid)) w ((w1.resetRemaining rid).isCompletedInit id) :=
        m1.trans ((m2.trans m3).mono (fun _ _ _ h => qx_weaken _ h))
      apply mall.mono
      intro k o' ho' hq
      refine ⟨hq.1, fun _ => ?_⟩
      by_cases hkr : k = rid
      · subst hkr
        exact (fr2.ext m3 (fun hf => hf)) o' ho'
      · exact hq.2 hkr
    · rename_i hk
      exact setObs_fresh h0 rfl (fun h => by rw [hk] at h; cases h) (obsVal_plain (by rw [hk]; rfl) (by rw [hk]; simp))
        (fun h => by rw [hk] at h; cases h)
    · rename_i hk
      refine setObs_fresh h0 rfl (fun _ => rfl) (obsVal_unscheduled hk (dequesSpec_init c.I).symm) (fun h => ?_)
      rw [show ({ o with deques := fullDequesF c.I } : FObs).kind = .unscheduled from hk] at h
      cases h
    · rename_i hk
      exact setObs_fresh h0 rfl (fun _ => rfl) (obsVal_plain (by rw [hk]; rfl) (by rw [hk]; simp))
        (fun h => by rw [hk] at h; cases h)
    · rename_i hk
      exact setObs_fresh h0 rfl (fun _ => rfl) (obsVal_plain (by rw [hk]; rfl) (by rw [hk]; simp))
        (fun h => by rw [hk] at h; cases h)
    · rename_i hk
      exact setObs_fresh h0 rfl (fun _ => rfl) (obsVal_plain (by rw [hk]; rfl) (by rw [hk]; simp))
        (fun h => by rw [hk] at h; cases h)
    · rename_i hk
      exact setObs_fresh h0 rfl (fun _ => rfl) (obsVal_plain (by rw [hk]; rfl) (by rw [hk]; simp))
        (fun h => by rw [hk] at h; cases h)

/-! ## the loop over the subscribers -/

theorem fold_callReset {c : Cfg} : ∀ (l : List Nat) (w : FWorld), J c w → (∀ id ∈ l, id ∈ w.subs) →
    Mod (Q0 c) w (l.foldl (fun w id => w.callReset id) w) ∧
    ∀ id ∈ l, FreshAt c (l.foldl (fun w id => w.callReset id) w) id
  | [], w, _, _ => ⟨Mod.refl _ w, fun _ h => by cases h⟩
  | a :: t, w, hj, hsub => by
    simp only [List.foldl_cons]
    obtain ⟨m1, fr1⟩ := callReset_mod hj (hsub a (by simp))
    have j1 : J c (w.callReset a) := hj.ext m1
    obtain ⟨t1, ht1⟩ := m1.good.pre
    obtain ⟨m2, fr2⟩ := fold_callReset t (w.callReset a) j1
      (fun id hid => by rw [ht1]; exact List.mem_append_left _ (hsub id (by simp [hid])))
    refine ⟨m1.trans m2, ?_⟩
    intro id hid
    rcases List.mem_cons.1 hid with rfl | hid
    · exact fr1.ext m2 (fun hf => hf)
    · exact fr2 id hid

end FWReset

set_option linter.unusedVariables false in
open FWReset in
/-- `Dispatcher.reset` re-establishes the invariant (in the initial dispatcher state) -/
theorem finv_reset {w : FWorld} (hv : Valid w.cfg.I) (h : FInv w) : FInv w.reset ∧ w.reset.s = init w.cfg.I := by
  have hj : J w.cfg { w with s := JS.init w.cfg.I } := by
    refine ⟨rfl, rfl, ⟨h.subs.nodup, h.subs.valid⟩, fun k o ho hs => h.shape k o ho hs, ?_⟩
    intro id hid o ho hk
    have := (h.val id hid o ho).estM hk
    exact ⟨this.1, this.2.1⟩
  obtain ⟨m, fr⟩ := fold_callReset w.subs { w with s := JS.init w.cfg.I } hj (fun _ hid => hid)
  have hj' := hj.ext m
  have hcfg : w.reset.cfg = w.cfg := hj'.cfg
  have hs : w.reset.s = init w.cfg.I := hj'.s
  refine ⟨⟨?_, hj'.subs, ⟨[], ?_⟩, ?_⟩, hs⟩
  · intro k o ho hsg
    rw [hcfg]
    exact hj'.shape k o ho hsg
  · rw [hs, hcfg]; rfl
  · intro id hid o ho
    rw [hs, hcfg]
    rcases m.newsubs id hid with h1 | h1
    · exact fr id h1 o ho
    · exact (m.new id o h1 ho).2 (fun hf => hf)

end JS

import JobShopProofs.MultiEnvFits
import JobShopProofs.Properties.C09
/-!
# C09, environment clause: a rejected decision leaves the environment exactly as it was

An illegal decision (`Env.legal = false`: unknown or finished job, ineligible machine id, `-1` on an operation that does
not have exactly one machine) makes `step` raise and return the very same environment — every field: dispatcher state,
every observer, the graph — for the single-instance and for the multi-instance environment; rejected decisions can be
deleted from any history; conversely a legal decision is accepted by the dispatcher, and for reachable environments a
step raises exactly when the decision is illegal.
-/
namespace JS

/-- the operation the environment's `step` addresses exists exactly when the two guards of `step` pass -/
theorem getOp_eq_none_iff (I : Instance) (j p : Nat) :
    getOp I j p = none ↔ (j ≥ I.length ∨ p ≥ (I.getD j []).length) := by
  unfold getOp
  by_cases hj : j < I.length
  · simp only [List.getElem?_eq_getElem hj, Option.bind_some, List.getD_eq_getElem?_getD, Option.getD_some,
      List.getElem?_eq_none_iff]
    omega
  · have : I[j]? = none := List.getElem?_eq_none_iff.2 (by omega)
    simp only [this, Option.bind_none, true_iff]
    exact Or.inl (by omega)

/-- an illegal decision on an existing operation is rejected by the dispatcher (no validity hypothesis: `-1` on an
operation with an empty machine list is rejected too) -/
theorem dispatchReq_illegal (I : Instance) (s : State) (j : Nat) (machine : Int) (op : Op)
    (hop : getOp I j (s.jobIdx.getD j 0) = some op)
    (hill : (if machine == -1 then op.machines.length == 1
             else decide (0 ≤ machine) && op.machines.contains machine.toNat) = false) :
    ∃ e, dispatchReq I s j (s.jobIdx.getD j 0) (if machine == -1 then none else some machine) = .error e := by
  unfold dispatchReq
  simp only [hop, ne_eq, not_true_eq_false, ↓reduceIte]
  by_cases hm : (machine == -1) = true
  · simp only [hm, ↓reduceIte, beq_eq_false_iff_ne, ne_eq] at hill ⊢
    simp only [resolveMachine]
    by_cases hlen : op.machines.length > 1
    · simp only [hlen, ↓reduceIte]; exact ⟨_, rfl⟩
    · simp only [hlen, ↓reduceIte]
      cases hms : op.machines with
      | nil => exact ⟨_, rfl⟩
      | cons m0 t =>
        exfalso
        rw [hms] at hill hlen
        simp only [List.length_cons] at hill hlen
        omega
  · simp only [hm, Bool.false_eq_true, ↓reduceIte, Bool.and_eq_false_iff, decide_eq_false_iff_not] at hill ⊢
    simp only [resolveMachine]
    by_cases hneg : machine < 0
    · simp only [hneg, ↓reduceIte]; exact ⟨_, rfl⟩
    · simp only [hneg, ↓reduceIte]
      have hnm : machine.toNat ∉ op.machines := by
        rcases hill with h | h
        · omega
        · simpa using h
      simp only [hnm, ↓reduceIte]; exact ⟨_, rfl⟩

/-- a legal decision on a reachable dispatcher state is accepted by the dispatcher -/
theorem dispatchReq_legal (I : Instance) (s : State) (hc : CInv I s) (j : Nat) (machine : Int) (op : Op)
    (hop : getOp I j (s.jobIdx.getD j 0) = some op)
    (hleg : (if machine == -1 then op.machines.length == 1
             else decide (0 ≤ machine) && op.machines.contains machine.toNat) = true) :
    ∃ s', dispatchReq I s j (s.jobIdx.getD j 0) (if machine == -1 then none else some machine) = .ok s' := by
  unfold dispatchReq
  simp only [hop, ne_eq, not_true_eq_false, ↓reduceIte]
  by_cases hm : (machine == -1) = true
  · simp only [hm, ↓reduceIte, beq_iff_eq] at hleg ⊢
    cases hms : op.machines with
    | nil => rw [hms] at hleg; simp at hleg
    | cons m0 t =>
      have hres : resolveMachine op none = .ok m0 := by
        simp only [resolveMachine, hms]
        rw [hms] at hleg
        simp only [hleg]
        simp
      rw [hres]
      exact dispatch_accepts hc hop rfl (by rw [hms]; simp)
  · simp only [hm, Bool.false_eq_true, ↓reduceIte, Bool.and_eq_true, decide_eq_true_eq,
      List.contains_iff_mem] at hleg ⊢
    have hres : resolveMachine op (some machine) = .ok machine.toNat := by
      simp only [resolveMachine]
      rw [if_neg (by omega), if_pos hleg.2]
    rw [hres]
    exact dispatch_accepts hc hop rfl hleg.2

/-- **C09 (1).** An illegal decision is rejected and the environment is EXACTLY what it was (every field: dispatcher
state, every observer, the graph). -/
theorem C09_env_illegal_rejected (e : Env) (job : Nat) (machine : Int) (hill : e.legal job machine = false) :
    e.step job machine = (e, .raised) := by
  unfold Env.step
  by_cases h1 : job ≥ e.w.cfg.I.length
  · simp only [if_pos h1]
  · simp only [if_neg h1]
    by_cases h2 : e.w.s.jobIdx.getD job 0 ≥ (e.w.cfg.I.getD job []).length
    · simp only [if_pos h2]
    · simp only [if_neg h2]
      unfold Env.legal at hill
      cases hop : getOp e.w.cfg.I job (e.w.s.jobIdx.getD job 0) with
      | none =>
        rcases (getOp_eq_none_iff _ _ _).1 hop with h | h
        · exact absurd h h1
        · exact absurd h h2
      | some op =>
        rw [hop] at hill
        obtain ⟨er, her⟩ := dispatchReq_illegal e.w.cfg.I e.w.s job machine op hop hill
        have hd : e.w.dispatch job (e.w.s.jobIdx.getD job 0) (if machine == -1 then none else some machine)
            = (e.w, false) := by
          unfold FWorld.dispatch; rw [her]
        rw [hd]

/-- **C09 (2).** The same for the multi-instance environment. -/
theorem C09_multi_illegal_rejected (m : MultiEnv) (job : Nat) (machine : Int) (hill : m.env.legal job machine = false) :
    m.step job machine = (m, .raised) := by
  unfold MultiEnv.step
  rw [C09_env_illegal_rejected m.env job machine hill]

/-- **C09 (3).** As if never made: rejected decisions can be deleted from any history (single environment). -/
theorem C09_env_as_if_never (e : Env) (h1 h2 : List EnvEv) (job : Nat) (machine : Int)
    (hill : (e.runEvs h1).legal job machine = false) :
    e.runEvs (h1 ++ [.step job machine] ++ h2) = e.runEvs (h1 ++ h2) := by
  simp only [Env.runEvs, List.foldl_append, List.foldl_cons, List.foldl_nil, Env.apply]
  congr 1
  have := C09_env_illegal_rejected (e.runEvs h1) job machine hill
  simp only [Env.runEvs] at this
  rw [this]

/-- **C09 (4).** … and from any history of the multi-instance environment (episodes, resets onto new instances
included). -/
theorem C09_multi_as_if_never (m : MultiEnv) (h1 h2 : List MEv) (job : Nat) (machine : Int)
    (hill : (m.run h1).env.legal job machine = false) :
    m.run (h1 ++ [.step job machine] ++ h2) = m.run (h1 ++ h2) := by
  simp only [MultiEnv.run, List.foldl_append, List.foldl_cons, List.foldl_nil, MultiEnv.stepEv]
  congr 1
  have := C09_multi_illegal_rejected (m.run h1) job machine hill
  simp only [MultiEnv.run] at this
  rw [this]

/-- **C09 (5).** Conversely: on a valid instance a legal decision is accepted by the dispatcher of the environment (the
request the step makes does not raise), so "rejected" and "illegal" coincide at the dispatcher. -/
theorem C09_env_legal_dispatches (e : Env) (hv : Valid e.w.cfg.I) (hinv : CInv e.w.cfg.I e.w.s) (job : Nat) (machine : Int)
    (hleg : e.legal job machine = true) :
    (e.w.dispatch job (e.w.s.jobIdx.getD job 0) (if machine == -1 then none else some machine)).2 = true := by
  unfold Env.legal at hleg
  cases hop : getOp e.w.cfg.I job (e.w.s.jobIdx.getD job 0) with
  | none => rw [hop] at hleg; cases hleg
  | some op =>
    rw [hop] at hleg
    obtain ⟨s', hs'⟩ := dispatchReq_legal e.w.cfg.I e.w.s hinv job machine op hop hleg
    unfold FWorld.dispatch
    simp only [hs']
    cases (s'.sched.flatten.find? fun x => x.job == job && x.pos == e.w.s.jobIdx.getD job 0) <;> rfl

/-- the shape of a step whose dispatch is accepted -/
theorem Env.step_of_accepted (e : Env) (job : Nat) (machine : Int) (op : Op) (w' : FWorld)
    (hop : getOp e.w.cfg.I job (e.w.s.jobIdx.getD job 0) = some op)
    (hdd : e.w.dispatch job (e.w.s.jobIdx.getD job 0) (if machine == -1 then none else some machine) = (w', true)) :
    (e.step job machine).1 = { e with w := w' } ∧
    ((e.step job machine).2 = .raised → ({ e with w := w' } : Env).observation = none) := by
  have hnn : ¬ (job ≥ e.w.cfg.I.length ∨ e.w.s.jobIdx.getD job 0 ≥ (e.w.cfg.I.getD job []).length) := by
    intro h
    have := (getOp_eq_none_iff _ _ _).2 h
    rw [hop] at this; cases this
  have h1 : ¬ job ≥ e.w.cfg.I.length := fun h => hnn (Or.inl h)
  have h2 : ¬ e.w.s.jobIdx.getD job 0 ≥ (e.w.cfg.I.getD job []).length := fun h => hnn (Or.inr h)
  unfold Env.step
  simp only [if_neg h1, if_neg h2, hdd]
  cases hob : ({ e with w := w' } : Env).observation with
  | none => exact ⟨rfl, fun _ => rfl⟩
  | some ob => exact ⟨rfl, fun h => by cases h⟩

/-- **C09 (6).** For an environment built by the constructor on a valid instance and driven through any steps and
resets, a step raises exactly when the decision is illegal. -/
theorem C09_env_raises_iff_illegal (c : Cfg) (hv : Valid c.I) (ec : EnvCfg) (e0 : Env) (hf : FeatsOK ec.feats)
    (hpad : ec.usePadding = true) (hmk : Env.make c ec = some e0) (evs : List EnvEv) (job : Nat) (machine : Int) :
    let e := e0.runEvs evs
    (e.step job machine).2 = .raised ↔ e.legal job machine = false := by
  intro e
  constructor
  · intro hr
    cases hl : e.legal job machine with
    | false => rfl
    | true =>
      exfalso
      obtain ⟨hok, hcfg, _⟩ := Env.make_envOK hf hmk
      have hok2 := Env.make_envOK2 hf hmk
      have hv0 : Valid e0.w.cfg.I := by rw [hcfg]; exact hv
      have hrun2 := Env.runEvs_envOK2 hok hok2 hv0 evs
      have hvr : Valid e.w.cfg.I := by
        show Valid (e0.runEvs evs).w.cfg.I
        rw [Env.runEvs_cfg e0 evs hok]; exact hv0
      have hd := C09_env_legal_dispatches e hvr hrun2.cinv job machine hl
      -- the observation of the environment after the step exists (C18)
      have hobs := C18_observation_in_space c ec e0 hf hpad hmk (evs ++ [.step job machine])
      simp only [Env.runEvs, List.foldl_append, List.foldl_cons, List.foldl_nil, Env.apply] at hobs
      obtain ⟨o, ho, _⟩ := hobs
      change (Env.step e job machine).1.observation = some o at ho
      unfold Env.legal at hl
      cases hop : getOp e.w.cfg.I job (e.w.s.jobIdx.getD job 0) with
      | none => rw [hop] at hl; cases hl
      | some op =>
        rcases hdd : e.w.dispatch job (e.w.s.jobIdx.getD job 0) (if machine == -1 then none else some machine)
          with ⟨w', b⟩
        rw [hdd] at hd
        simp only at hd
        subst hd
        obtain ⟨hw', hnone⟩ := Env.step_of_accepted e job machine op w' hop hdd
        rw [hw', hnone hr] at ho
        cases ho
  · intro hill
    rw [C09_env_illegal_rejected e job machine hill]

/-! non-vacuity: an environment made by the constructor on a three-job instance whose job 0 ends with a flexible
operation, stepped twice (job 1 is then finished, job 0 is at its flexible operation, job 2 at a single-machine one):
one illegal decision of each kind, and the legal ones; the illegal ones raise, the legal ones do not -/
set_option maxRecDepth 100000 in
example :
    let c : Cfg := { I := [[⟨[0], 2⟩, ⟨[0, 1], 3⟩], [⟨[1], 4⟩], [⟨[1], 1⟩]], F := some [.dominated] }
    let ec : EnvCfg := { builder := .agentTask, feats := [(.isReady, none), (.duration, some [.machines, .operations]),
      (.isCompleted, some [.jobs])] }
    (Env.make c ec).map (fun e0 =>
      let e := e0.runEvs [.step 1 (-1), .step 0 (-1)]
      (e.w.s.jobIdx,
       -- finished job (with `-1` and with its machine), unknown job, ineligible machine (in range, negative),
       -- `-1` on the flexible operation, wrong machine for the single-machine operation
       [e.legal 1 (-1), e.legal 1 1, e.legal 5 0, e.legal 0 2, e.legal 0 (-3), e.legal 0 (-1), e.legal 2 0],
       -- legal: either machine of the flexible operation, `-1` or the machine of the single-machine operation
       [e.legal 0 0, e.legal 0 1, e.legal 2 (-1), e.legal 2 1],
       [(e.step 1 (-1)).2 == .raised, (e.step 5 0).2 == .raised, (e.step 0 2).2 == .raised,
        (e.step 0 (-1)).2 == .raised, (e.step 0 1).2 == .raised, (e.step 2 (-1)).2 == .raised])) =
    some ([1, 1, 0], [false, false, false, false, false, false, false], [true, true, true, true],
          [true, true, true, true, false, false]) := by
  decide

/-- the hypotheses of (6) hold for that environment: valid instance, admissible feature configuration, padding on -/
example :
    let c : Cfg := { I := [[⟨[0], 2⟩, ⟨[0, 1], 3⟩], [⟨[1], 4⟩], [⟨[1], 1⟩]], F := some [.dominated] }
    let ec : EnvCfg := { builder := .agentTask, feats := [(.isReady, none), (.duration, some [.machines, .operations]),
      (.isCompleted, some [.jobs])] }
    Valid c.I ∧ FeatsOK ec.feats ∧ ec.usePadding = true := by
  refine ⟨valid_of_validB (by decide), ?_, rfl⟩
  intro kf hkf l hl
  simp only [List.mem_cons, List.mem_nil_iff, or_false] at hkf
  rcases hkf with rfl | rfl | rfl <;> simp at hl <;> subst hl <;> decide

end JS

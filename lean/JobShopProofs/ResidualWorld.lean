import JobShopProofs.ResidualAnchors
import JobShopProofs.Properties.C11World
/-!
# C17 on the whole feature world

With a residual graph updater attached, after every dispatch of every history no unscheduled operation's node is removed, every
completed operation's node is removed, and a machine / job node is removed only when all its operations are scheduled
(`C17_world`).

Route: a world invariant `RInv` over all residual observers of the heap, run alongside `FInv`.

* `RK w w'`: the frame relation of constructors and resets — kinds never change, a residual observer is either untouched or has
  its graph put back to the initial graph, an `isCompleted` observer keeps its feature types, new entries are not residual
  observers, the subscriber list stays `List.range heap.length`.
* the dispatch: subscribers are notified in increasing id order, so when the residual updater is notified the `isCompleted`
  observer it reads (a smaller id) already reports the completion flags of the NEW state (`fold_split`, `rinv_dispatch`).
-/
namespace JS
namespace RW

/-! ## callbacks never change the kind -/

theorem foldl_kind {α} (f : FObs → α → FObs) (hf : ∀ o a, (f o a).kind = o.kind) :
    ∀ (l : List α) (o : FObs), (l.foldl f o).kind = o.kind
  | [], _ => rfl
  | a :: t, o => by simp only [List.foldl_cons]; rw [foldl_kind f hf t, hf]

theorem assignCols_kind (o : FObs) (g : FObs → FT → List Int) : (o.assignCols g).kind = o.kind := by
  unfold FObs.assignCols
  exact foldl_kind (fun o ft => o.setCol ft (g o ft)) (fun _ _ => rfl) _ _

theorem isReadyFeatures_kind (c : Cfg) (s : State) (o : FObs) : (isReadyFeatures c s o).kind = o.kind := by
  unfold isReadyFeatures; rw [assignCols_kind]; rfl

theorem estFeatures_kind (c : Cfg) (s : State) (o : FObs) : (estFeatures c s o).kind = o.kind := by
  unfold estFeatures; rw [assignCols_kind]

theorem durationInit_kind (c : Cfg) (s : State) (o : FObs) : (durationInit c s o).kind = o.kind := by
  unfold durationInit; rw [assignCols_kind]

theorem positionInit_kind (c : Cfg) (s : State) (o : FObs) : (positionInit c s o).kind = o.kind := by
  unfold positionInit; split <;> rfl

theorem remainingInit_kind (c : Cfg) (dq : List (List OpRef)) (o : FObs) : (remainingInit c dq o).kind = o.kind := by
  unfold remainingInit
  apply foldl_kind
  intro o r
  dsimp only
  repeat' split
  all_goals rfl

/-! ## the frame relation of constructors and resets -/

/-- `w'` is `w` after some pushes and rewrites that respect the residual observers -/
structure RK (w w' : FWorld) : Prop where
  good : Good w w'
  len : w.heap.length ≤ w'.heap.length
  rng : w.subs = List.range w.heap.length → w'.subs = List.range w'.heap.length
  old : ∀ (k : Nat) (o : FObs), w.heap[k]? = some o → ∃ o' : FObs, w'.heap[k]? = some o' ∧ o'.kind = o.kind ∧
    (o.kind = .residual → o' = o ∨ o' = { o with graph := o.graph0 }) ∧ (o.kind = .isCompleted → o'.fts = o.fts)
  new : ∀ (k : Nat) (o' : FObs), w.heap.length ≤ k → w'.heap[k]? = some o' → o'.kind ≠ .residual

theorem RK.refl (w : FWorld) : RK w w :=
  ⟨Good.refl w, Nat.le_refl _, fun h => h, fun _ o h => ⟨o, h, rfl, fun _ => Or.inl rfl, fun _ => rfl⟩,
    fun k o' hk h => by have := (List.getElem?_eq_some_iff.1 h).1; omega⟩

theorem RK.trans {a b c : FWorld} (h1 : RK a b) (h2 : RK b c) : RK a c := by
  refine ⟨h1.good.trans h2.good, Nat.le_trans h1.len h2.len, fun h => h2.rng (h1.rng h), ?_, ?_⟩
  · intro k o ho
    obtain ⟨o1, g1, k1, r1, f1⟩ := h1.old k o ho
    obtain ⟨o2, g2, k2, r2, f2⟩ := h2.old k o1 g1
    refine ⟨o2, g2, k2.trans k1, ?_, fun hk => (f2 (k1.trans hk)).trans (f1 hk)⟩
    intro hk
    rcases r1 hk with rfl | rfl
    · exact r2 hk
    · rcases r2 hk with e | e
      · exact Or.inr e
      · exact Or.inr e
  · intro k o' hk ho'
    by_cases hlt : k < b.heap.length
    · obtain ⟨o1, g1⟩ : ∃ o1, b.heap[k]? = some o1 := ⟨b.heap[k], List.getElem?_eq_getElem hlt⟩
      obtain ⟨o2, g2, k2, _, _⟩ := h2.old k o1 g1
      rw [ho'] at g2; cases g2
      rw [k2]; exact h1.new k o1 hk g1
    · exact h2.new k o' (by omega) ho'

theorem rk_push (w : FWorld) (o : FObs) (hk : o.kind ≠ .residual) : RK w (w.push o).1 := by
  refine ⟨good_push w o, by simp [FWorld.push], ?_, ?_, ?_⟩
  · intro h
    simp only [FWorld.push, List.length_append, List.length_singleton]
    rw [h, List.range_succ]
  · intro k o0 h0
    exact ⟨o0, (FCtor.keep_push w o).keep k o0 h0, rfl, fun _ => Or.inl rfl, fun _ => rfl⟩
  · intro k o' hk' ho'
    rcases FCtor.push_get ho' with h1 | ⟨_, rfl⟩
    · have := (List.getElem?_eq_some_iff.1 h1).1; omega
    · exact hk

theorem rk_setObs (w : FWorld) (id : Nat) (o' : FObs)
    (h : ∀ o0, w.heap[id]? = some o0 → o'.kind = o0.kind ∧
      (o0.kind = .residual → o' = { o0 with graph := o0.graph0 }) ∧ (o0.kind = .isCompleted → o'.fts = o0.fts)) :
    RK w (w.setObs id o') := by
  refine ⟨good_setObs w id o', by simp [FWorld.setObs], ?_, ?_, ?_⟩
  · intro hr
    simp only [FWorld.setObs, List.length_set]; exact hr
  · intro k o hk
    by_cases hik : id = k
    · subst hik
      obtain ⟨a, b, c⟩ := h o hk
      exact ⟨o', FCtor.setObs_get_self hk o', a, fun hr => Or.inr (b hr), c⟩
    · refine ⟨o, ?_, rfl, fun _ => Or.inl rfl, fun _ => rfl⟩
      simp only [FWorld.setObs]
      rw [List.getElem?_set_ne hik]; exact hk
  · intro k o1 hk ho1
    have := (List.getElem?_eq_some_iff.1 ho1).1
    simp only [FWorld.setObs, List.length_set] at this
    omega

/-- rewriting an observer that is neither a residual updater nor an `isCompleted` observer, keeping its kind -/
theorem rk_setObs_plain {w : FWorld} {id : Nat} {o0 : FObs} (h0 : w.heap[id]? = some o0) (o' : FObs)
    (hk : o'.kind = o0.kind) (hr : o0.kind ≠ .residual) (hc : o0.kind ≠ .isCompleted) : RK w (w.setObs id o') := by
  apply rk_setObs
  intro o1 h1
  rw [h0] at h1; cases h1
  exact ⟨hk, fun h => absurd h hr, fun h => absurd h hc⟩

/-- rewriting an `isCompleted` observer, keeping its kind and feature types -/
theorem rk_setObs_ic {w : FWorld} {id : Nat} {o0 : FObs} (h0 : w.heap[id]? = some o0) (o' : FObs)
    (hk0 : o0.kind = .isCompleted) (hk : o'.kind = o0.kind) (hf : o'.fts = o0.fts) : RK w (w.setObs id o') := by
  apply rk_setObs
  intro o1 h1
  rw [h0] at h1; cases h1
  refine ⟨hk, fun h => ?_, fun _ => hf⟩
  rw [hk0] at h; cases h

theorem kindAt_rk {w w' : FWorld} {id : Nat} {k : FKind} (h : KindAt w id k) (e : RK w w') : KindAt w' id k := by
  obtain ⟨o, ho, hk⟩ := h
  obtain ⟨o', ho', hk', _⟩ := e.old id o ho
  exact ⟨o', ho', hk'.trans hk⟩

/-! ## the helpers -/

theorem kindAt_push (w : FWorld) (o : FObs) : KindAt (w.push o).1 w.heap.length o.kind :=
  ⟨o, FCtor.push_get_new w o, rfl⟩

theorem rk_getUnscheduled (w : FWorld) :
    RK w w.getUnscheduled.1 ∧ KindAt w.getUnscheduled.1 w.getUnscheduled.2 .unscheduled := by
  unfold FWorld.getUnscheduled
  cases hf : w.findObs .unscheduled [] with
  | some id =>
    obtain ⟨o, ho, hk⟩ := findObs_kind hf
    exact ⟨RK.refl w, o, ho, hk⟩
  | none => exact ⟨rk_push w _ (by simp), kindAt_push w _⟩

theorem rk_newRemaining (w : FWorld) (fts : List FT) :
    RK w (w.newRemaining fts).1 ∧ KindAt (w.newRemaining fts).1 (w.newRemaining fts).2 .remainingOps := by
  rw [FCtor.newRemaining_eq]
  simp only
  have e1 := rk_push w (({ kind := .remainingOps, fts := fts } : FObs).zeroed w.cfg.I) (by simp [FObs.zeroed])
  have k1 : KindAt (w.push (({ kind := .remainingOps, fts := fts } : FObs).zeroed w.cfg.I)).1 w.heap.length .remainingOps :=
    kindAt_push w _
  generalize (w.push (({ kind := .remainingOps, fts := fts } : FObs).zeroed w.cfg.I)).1 = w1 at e1 k1
  obtain ⟨e2, _⟩ := rk_getUnscheduled w1
  generalize w1.getUnscheduled = r2 at e2
  obtain ⟨w2, uid⟩ := r2
  simp only at e2 ⊢
  obtain ⟨o2, ho2, hk2⟩ := kindAt_rk k1 e2
  rw [getD_of_some ho2]
  have e3 := rk_setObs_plain ho2 (remainingInit w2.cfg (w2.heap.getD uid default).deques o2)
    (remainingInit_kind _ _ _) (by rw [hk2]; simp) (by rw [hk2]; simp)
  exact ⟨e1.trans (e2.trans e3), _, FCtor.setObs_get_self ho2 _, (remainingInit_kind _ _ _).trans hk2⟩

theorem rk_getRemaining (w : FWorld) (need : List FT) :
    RK w (w.getRemaining need).1 ∧ KindAt (w.getRemaining need).1 (w.getRemaining need).2 .remainingOps := by
  unfold FWorld.getRemaining
  cases hf : w.findObs .remainingOps need with
  | some id =>
    obtain ⟨o, ho, hk⟩ := findObs_kind hf
    exact ⟨RK.refl w, o, ho, hk⟩
  | none => exact rk_newRemaining w need

theorem rk_isCompletedInit {w : FWorld} {id : Nat} (hk : KindAt w id .isCompleted) :
    RK w (w.isCompletedInit id) ∧ ∃ o0 o', w.heap[id]? = some o0 ∧ (w.isCompletedInit id).heap[id]? = some o' ∧
      o'.kind = .isCompleted ∧ o'.fts = o0.fts := by
  obtain ⟨o0, h0, hk0⟩ := hk
  unfold FWorld.isCompletedInit
  simp only
  rw [getD_of_some h0]
  have e1 : RK w (w.setObs id (o0.zeroed w.cfg.I)) := rk_setObs_ic h0 _ hk0 rfl rfl
  have g1 : (w.setObs id (o0.zeroed w.cfg.I)).heap[id]? = some (o0.zeroed w.cfg.I) := FCtor.setObs_get_self h0 _
  generalize w.setObs id (o0.zeroed w.cfg.I) = w1 at e1 g1
  obtain ⟨e2, _⟩ := rk_getRemaining w1 ((o0.zeroed w.cfg.I).fts.filter (· != .operations))
  generalize w1.getRemaining ((o0.zeroed w.cfg.I).fts.filter (· != .operations)) = r2 at e2
  obtain ⟨w2, rid⟩ := r2
  simp only at e2 ⊢
  obtain ⟨o2, ho2, hk2, _, hf2⟩ := e2.old id _ g1
  have hk2' : o2.kind = .isCompleted := hk2.trans hk0
  rw [getD_of_some ho2]
  have e3 := rk_setObs_ic ho2 { o2 with
      remJob := if o2.has .jobs then (w2.heap.getD rid default).col .jobs else o2.remJob,
      remMach := if o2.has .machines then (w2.heap.getD rid default).col .machines else o2.remMach } hk2' rfl rfl
  exact ⟨e1.trans (e2.trans e3), o0, _, h0, FCtor.setObs_get_self ho2 _, hk2', hf2 hk0⟩

theorem rk_resetRemaining {w : FWorld} {id : Nat} (hk : KindAt w id .remainingOps) : RK w (w.resetRemaining id) := by
  unfold FWorld.resetRemaining
  simp only
  obtain ⟨e1, u, hu, hku⟩ := rk_getUnscheduled w
  generalize w.getUnscheduled = r1 at e1 hu
  obtain ⟨w1, uid⟩ := r1
  simp only at e1 hu ⊢
  rw [getD_of_some hu]
  have e2 := rk_setObs_plain hu { u with deques := fullDequesF w1.cfg.I } rfl (by rw [hku]; simp) (by rw [hku]; simp)
  generalize w1.setObs uid { u with deques := fullDequesF w1.cfg.I } = w2 at e2
  obtain ⟨o2, ho2, hk2⟩ := kindAt_rk hk (e1.trans e2)
  rw [getD_of_some ho2]
  have e3 := rk_setObs_plain ho2 (remainingInit w2.cfg (w2.heap.getD uid default).deques (o2.zeroed w2.cfg.I))
    (remainingInit_kind _ _ _) (by rw [hk2]; simp) (by rw [hk2]; simp)
  exact e1.trans (e2.trans e3)

/-! ## one `reset()` callback -/

/-- the residual observer at `k` (if there is one) holds its initial graph -/
def ResetAt (w : FWorld) (k : Nat) : Prop :=
  ∀ o : FObs, w.heap[k]? = some o → o.kind = .residual → o.graph = o.graph0

theorem resetAt_rk {w w' : FWorld} {k : Nat} (h : ResetAt w k) (e : RK w w') : ResetAt w' k := by
  intro o' ho' hk'
  by_cases hlt : k < w.heap.length
  · obtain ⟨o, ho⟩ : ∃ o, w.heap[k]? = some o := ⟨w.heap[k], List.getElem?_eq_getElem hlt⟩
    obtain ⟨o2, g2, k2, r2, _⟩ := e.old k o ho
    rw [ho'] at g2; cases g2
    have hk : o.kind = .residual := k2.symm.trans hk'
    rcases r2 hk with rfl | rfl
    · exact h _ ho hk
    · rfl
  · exact absurd hk' (e.new k o' (by omega) ho')

theorem resetAt_nonres {w w' : FWorld} {k : Nat} {o : FObs} (e : RK w w') (h0 : w.heap[k]? = some o)
    (hne : o.kind ≠ .residual) : ResetAt w' k := by
  intro o' ho' hk'
  obtain ⟨o2, g2, k2, _, _⟩ := e.old k o h0
  rw [ho'] at g2; cases g2
  exact absurd (k2.symm.trans hk') hne

theorem rk_callReset (w : FWorld) (id : Nat) : RK w (w.callReset id) ∧ ResetAt (w.callReset id) id := by
  have key : ∀ o, w.heap[id]? = some o → o.kind ≠ .residual → RK w (w.callReset id) →
      RK w (w.callReset id) ∧ ResetAt (w.callReset id) id := fun o h0 hne e => ⟨e, resetAt_nonres e h0 hne⟩
  cases h0 : w.heap[id]? with
  | none =>
    have : w.callReset id = w := by unfold FWorld.callReset; rw [h0]
    rw [this]
    exact ⟨RK.refl w, fun o ho => by rw [h0] at ho; cases ho⟩
  | some o =>
    by_cases hres : o.kind = .residual
    · have : w.callReset id = w.setObs id { o with graph := o.graph0 } := by
        unfold FWorld.callReset; simp only [h0, hres]
      rw [this]
      refine ⟨rk_setObs w id _ ?_, ?_⟩
      · intro o1 h1
        rw [h0] at h1; cases h1
        exact ⟨rfl, fun _ => rfl, fun _ => rfl⟩
      · intro o1 h1 _
        rw [FCtor.setObs_get_self h0] at h1
        cases h1; rfl
    · apply key o h0 hres
      unfold FWorld.callReset
      simp only [h0]
      split
      · rename_i hk
        exact rk_setObs_plain h0 _ (isReadyFeatures_kind _ _ _) (by rw [hk]; simp) (by rw [hk]; simp)
      · rename_i hk
        exact rk_setObs_plain h0 _ (estFeatures_kind _ _ _) (by rw [hk]; simp) (by rw [hk]; simp)
      · rename_i hk
        exact rk_setObs_plain h0 _ (durationInit_kind _ _ _) (by rw [hk]; simp) (by rw [hk]; simp)
      · rename_i hk
        exact rk_setObs_plain h0 _ rfl (by rw [hk]; simp) (by rw [hk]; simp)
      · rename_i hk
        exact rk_setObs_plain h0 _ (positionInit_kind _ _ _) (by rw [hk]; simp) (by rw [hk]; simp)
      · rename_i hk
        exact rk_resetRemaining ⟨o, h0, hk⟩
      · rename_i hk
        obtain ⟨e1, g1⟩ := rk_getRemaining w (o.fts.filter (· != .operations))
        generalize w.getRemaining (o.fts.filter (· != .operations)) = r1 at e1 g1
        obtain ⟨w1, rid⟩ := r1
        simp only at e1 g1 ⊢
        have e2 := rk_resetRemaining g1
        have hk2 : KindAt (w1.resetRemaining rid) id .isCompleted := kindAt_rk ⟨o, h0, hk⟩ (e1.trans e2)
        exact e1.trans (e2.trans (rk_isCompletedInit hk2).1)
      · rename_i hk
        exact rk_setObs_plain h0 _ rfl (by rw [hk]; simp) (by rw [hk]; simp)
      · rename_i hk
        exact rk_setObs_plain h0 _ rfl (by rw [hk]; simp) (by rw [hk]; simp)
      · rename_i hk
        exact rk_setObs_plain h0 _ rfl (by rw [hk]; simp) (by rw [hk]; simp)
      · rename_i hk
        exact rk_setObs_plain h0 _ rfl (by rw [hk]; simp) (by rw [hk]; simp)
      · rename_i hk
        exact rk_setObs_plain h0 _ rfl (by rw [hk]; simp) (by rw [hk]; simp)
      · rename_i hk
        exact absurd hk hres

/-- the loop of `Dispatcher.reset` -/
theorem rk_fold_callReset : ∀ (l : List Nat) (w : FWorld),
    RK w (l.foldl (fun w id => w.callReset id) w) ∧ ∀ id ∈ l, ResetAt (l.foldl (fun w id => w.callReset id) w) id
  | [], w => ⟨RK.refl w, fun _ h => by cases h⟩
  | a :: t, w => by
    simp only [List.foldl_cons]
    obtain ⟨e1, r1⟩ := rk_callReset w a
    obtain ⟨e2, r2⟩ := rk_fold_callReset t (w.callReset a)
    refine ⟨e1.trans e2, ?_⟩
    intro id hid
    rcases List.mem_cons.1 hid with rfl | hid
    · exact resetAt_rk r1 e2
    · exact r2 id hid

/-! ## constructors -/

theorem rk_getIsCompleted (w : FWorld) (need : List FT) :
    RK w (w.getIsCompleted need).1 ∧ (w.getIsCompleted need).2 ∈ (w.getIsCompleted need).1.subs ∧
    ∃ ic, (w.getIsCompleted need).1.heap[(w.getIsCompleted need).2]? = some ic ∧ ic.kind = .isCompleted ∧
      ∀ ft ∈ need, ft ∈ ic.fts := by
  unfold FWorld.getIsCompleted
  cases hf : w.findObs .isCompleted need with
  | some id =>
    obtain ⟨hm, o, ho, hk, hn⟩ := FCtor.findObs_spec hf
    exact ⟨RK.refl w, hm, o, ho, hk, hn⟩
  | none =>
    simp only
    have e1 := rk_push w (({ kind := .isCompleted, fts := need } : FObs).zeroed w.cfg.I) (by simp [FObs.zeroed])
    have k1 : KindAt (w.push (({ kind := .isCompleted, fts := need } : FObs).zeroed w.cfg.I)).1 w.heap.length .isCompleted :=
      kindAt_push w _
    have g1 := FCtor.push_get_new w (({ kind := .isCompleted, fts := need } : FObs).zeroed w.cfg.I)
    have hs1 : w.heap.length ∈ (w.push (({ kind := .isCompleted, fts := need } : FObs).zeroed w.cfg.I)).1.subs := by
      simp [FWorld.push]
    show RK w ((w.push (({ kind := .isCompleted, fts := need } : FObs).zeroed w.cfg.I)).1.isCompletedInit w.heap.length) ∧
      w.heap.length ∈ ((w.push (({ kind := .isCompleted, fts := need } : FObs).zeroed w.cfg.I)).1.isCompletedInit w.heap.length).subs ∧
      ∃ ic, ((w.push (({ kind := .isCompleted, fts := need } : FObs).zeroed w.cfg.I)).1.isCompletedInit w.heap.length).heap[w.heap.length]? = some ic ∧ _
    generalize (w.push (({ kind := .isCompleted, fts := need } : FObs).zeroed w.cfg.I)).1 = w1 at e1 k1 g1 hs1
    obtain ⟨e2, o0, o', h0, h', hk', hf'⟩ := rk_isCompletedInit k1
    rw [g1] at h0; cases h0
    obtain ⟨t, ht⟩ := e2.good.pre
    refine ⟨e1.trans e2, by rw [ht]; exact List.mem_append_left _ hs1, o', h', hk', ?_⟩
    intro ft hft
    rw [hf']; exact hft

theorem rk_pushThen (w : FWorld) (base final : FObs) (hb : base.kind ≠ .residual) (hk : final.kind = base.kind)
    (hf : base.kind = .isCompleted → final.fts = base.fts) :
    RK w ((w.push base).1.setObs (w.push base).2 final) := by
  refine (rk_push w base hb).trans (rk_setObs _ _ _ ?_)
  intro o0 h0
  rw [show (w.push base).2 = w.heap.length from rfl, FCtor.push_get_new] at h0
  cases h0
  exact ⟨hk, fun h => absurd h hb, hf⟩

theorem rk_constructComposite (w : FWorld) (parts : Option (List Nat)) : RK w (w.constructComposite parts).1 := by
  unfold FWorld.constructComposite
  simp only
  exact rk_pushThen w _ _ (by simp) rfl (fun h => by cases h)

theorem rk_remainingCtor (w : FWorld) (base : FObs) (hk : base.kind = .remainingOps) :
    RK w ((w.push base).1.getUnscheduled.1.setObs (w.push base).2
      (remainingInit (w.push base).1.getUnscheduled.1.cfg
        ((w.push base).1.getUnscheduled.1.heap.getD (w.push base).1.getUnscheduled.2 default).deques base)) := by
  have e1 := rk_push w base (by rw [hk]; simp)
  have k1 : KindAt (w.push base).1 w.heap.length .remainingOps := hk ▸ kindAt_push w base
  show RK w ((w.push base).1.getUnscheduled.1.setObs w.heap.length _)
  generalize (w.push base).1 = w1 at e1 k1
  obtain ⟨e2, _⟩ := rk_getUnscheduled w1
  obtain ⟨o2, ho2, hk2⟩ := kindAt_rk k1 e2
  exact e1.trans (e2.trans (rk_setObs_plain ho2 _ ((remainingInit_kind _ _ _).trans (hk.trans hk2.symm))
    (by rw [hk2]; simp) (by rw [hk2]; simp)))

theorem rk_construct (w : FWorld) (kind : FKind) (fts : Option (List FT)) : RK w (w.construct kind fts).1 := by
  cases kind <;> simp only [FWorld.construct]
  all_goals
    repeat' split
    all_goals first
      | exact RK.refl w
      | exact rk_push w _ (by simp [FObs.zeroed])
      | exact rk_pushThen w _ _ (by simp [FObs.zeroed]) (isReadyFeatures_kind _ _ _) (fun h => by simp [FObs.zeroed] at h)
      | exact rk_pushThen w _ _ (by simp [FObs.zeroed]) (estFeatures_kind _ _ _) (fun h => by simp [FObs.zeroed] at h)
      | exact rk_pushThen w _ _ (by simp [FObs.zeroed]) (durationInit_kind _ _ _) (fun h => by simp [FObs.zeroed] at h)
      | exact rk_pushThen w _ _ (by simp [FObs.zeroed]) (positionInit_kind _ _ _) (fun h => by simp [FObs.zeroed] at h)
      | exact rk_remainingCtor w _ rfl
      | exact (rk_push w _ (by simp [FObs.zeroed])).trans (rk_isCompletedInit (kindAt_push w _)).1

/-! ## the world invariant -/

/-- what C17 says about the graph of a residual observer, for the dispatcher state `s` -/
structure GraphOK (c : Cfg) (s : State) (o : FObs) : Prop where
  ginv : GInv o.graph
  nodes : o.graph.nodes = o.graph0.nodes
  anch : ∀ r ∈ unscheduledPure c.I s, Anch c.I o.graph r
  compl : ∀ r ∈ completedPure c s, o.graph.removed.getD (opId c.I r) true = true
  built : ∃ b : Builder, o.graph0 = build b c.I ∧
    (b ≠ .disjunctive → ∀ m, ∀ r ∈ unscheduledPure c.I s, onMachine c.I m r = true → AnchM c.I o.graph m r) ∧
    ((b = .agentTaskJobs ∨ b = .completeAgentTask) → ∀ r ∈ unscheduledPure c.I s, AnchJ c.I o.graph r)

/-- the observer a residual observer reads its completion flags from: an `isCompleted` observer with a smaller id, subscribed,
observing the feature types of the options that are switched on -/
def PartsOK (w : FWorld) (k : Nat) (o : FObs) : Prop :=
  ∀ i, o.parts.head? = some i → i < k ∧ i ∈ w.subs ∧ ∃ ic : FObs, w.heap[i]? = some ic ∧ ic.kind = .isCompleted ∧
    (o.rmMach = true → FT.machines ∈ ic.fts) ∧ (o.rmJob = true → FT.jobs ∈ ic.fts)

structure RInv (w : FWorld) : Prop where
  rng : w.subs = List.range w.heap.length
  res : ∀ (k : Nat) (o : FObs), w.heap[k]? = some o → o.kind = .residual → GraphOK w.cfg w.s o ∧ PartsOK w k o

theorem unsched_allOps {I : Instance} {s : State} {r : OpRef} (h : r ∈ unscheduledPure I s) : r ∈ allOps I :=
  (mem_allOps' _ _).2 ((mem_unscheduledPure _ _ _).1 h).1

/-- a residual observer that holds its initial graph, a built graph, in the initial state -/
theorem graphOK_fresh {c : Cfg} (hv : Valid c.I) (b : Builder) (o : FObs) (h0 : o.graph0 = build b c.I)
    (hg : o.graph = o.graph0) : GraphOK c (init c.I) o := by
  refine ⟨?_, by rw [hg], ?_, ?_, b, h0, ?_, ?_⟩
  · rw [hg, h0]; exact C17_built_inv b c.I
  · intro r hr
    rw [hg, h0]; exact anch_build b c.I hv r (unsched_allOps hr)
  · intro r hr
    rw [completed_init] at hr; cases hr
  · intro hb m r hr hm
    rw [hg, h0]; exact anchM_build b hb c.I m r (unsched_allOps hr) hm
  · intro hb r hr
    rw [hg, h0]; exact anchJ_build b hb c.I r (unsched_allOps hr)

theorem partsOK_rk {w w' : FWorld} {k : Nat} {o o' : FObs} (e : RK w w') (h : PartsOK w k o)
    (hp : o'.parts = o.parts) (hm : o'.rmMach = o.rmMach) (hj : o'.rmJob = o.rmJob) : PartsOK w' k o' := by
  intro i hi
  rw [hp] at hi
  obtain ⟨h1, h2, ic, h3, h4, h5, h6⟩ := h i hi
  obtain ⟨t, ht⟩ := e.good.pre
  obtain ⟨ic', g1, g2, _, g4⟩ := e.old i ic h3
  refine ⟨h1, by rw [ht]; exact List.mem_append_left _ h2, ic', g1, g2.trans h4, ?_, ?_⟩
  · rw [hm, g4 h4]; exact h5
  · rw [hj, g4 h4]; exact h6

/-- after constructors and resets: the dispatcher is in its initial state, every residual observer either satisfied the
invariant for the initial state already or holds its initial graph -/
theorem rinv_of_rk {w w' : FWorld} (hv : Valid w.cfg.I) (hrng : w.subs = List.range w.heap.length)
    (hres : ∀ (k : Nat) (o : FObs), w.heap[k]? = some o → o.kind = .residual →
      PartsOK w k o ∧ ∃ b : Builder, o.graph0 = build b w.cfg.I)
    (e : RK w w') (hs : w'.s = init w.cfg.I)
    (hg : ∀ (k : Nat) (o' : FObs), w'.heap[k]? = some o' → o'.kind = .residual →
      GraphOK w.cfg (init w.cfg.I) o' ∨ o'.graph = o'.graph0) : RInv w' := by
  refine ⟨e.rng hrng, ?_⟩
  intro k o' ho' hk'
  have hlt : k < w.heap.length := by
    apply Classical.byContradiction; intro hn
    exact e.new k o' (by omega) ho' hk'
  obtain ⟨o, ho⟩ : ∃ o, w.heap[k]? = some o := ⟨w.heap[k], List.getElem?_eq_getElem hlt⟩
  obtain ⟨o2, g2, k2, r2, _⟩ := e.old k o ho
  rw [ho'] at g2; cases g2
  have hk : o.kind = .residual := k2.symm.trans hk'
  obtain ⟨hp, b, hb⟩ := hres k o ho hk
  have hsame : o'.parts = o.parts ∧ o'.rmMach = o.rmMach ∧ o'.rmJob = o.rmJob ∧ o'.graph0 = o.graph0 := by
    rcases r2 hk with rfl | rfl <;> exact ⟨rfl, rfl, rfl, rfl⟩
  rw [e.good.st.1, hs]
  refine ⟨?_, partsOK_rk e hp hsame.1 hsame.2.1 hsame.2.2.1⟩
  rcases hg k o' ho' hk' with h | h
  · exact h
  · exact graphOK_fresh hv b o' (hsame.2.2.2.trans hb) h

theorem rinv_init (c : Cfg) : RInv (FWorld.init c) :=
  ⟨rfl, fun k o h => by simp [FWorld.init] at h⟩

/-- constructors (other than the residual updater's own push) on a dispatcher in its initial state -/
theorem rinv_ctor_rk {w w' : FWorld} (hv : Valid w.cfg.I) (h : RInv w) (hs : w.s = init w.cfg.I) (e : RK w w') :
    RInv w' := by
  refine rinv_of_rk hv h.rng (fun k o ho hk => ⟨(h.res k o ho hk).2, ?_⟩) e (e.good.st.2.trans hs) ?_
  · obtain ⟨b, hb, _⟩ := (h.res k o ho hk).1.built
    exact ⟨b, hb⟩
  · intro k o' ho' hk'
    by_cases hlt : k < w.heap.length
    · obtain ⟨o, ho⟩ : ∃ o, w.heap[k]? = some o := ⟨w.heap[k], List.getElem?_eq_getElem hlt⟩
      obtain ⟨o2, g2, k2, r2, _⟩ := e.old k o ho
      rw [ho'] at g2; cases g2
      have hk : o.kind = .residual := k2.symm.trans hk'
      rcases r2 hk with rfl | rfl
      · left
        rw [← hs]; exact (h.res k _ ho hk).1
      · right; rfl
    · exact absurd hk' (e.new k o' (by omega) ho')

/-- `Dispatcher.reset` -/
theorem rinv_reset {w : FWorld} (hv : Valid w.cfg.I) (h : RInv w) : RInv w.reset := by
  unfold FWorld.reset
  obtain ⟨e, hr⟩ := rk_fold_callReset w.subs { w with s := JS.init w.cfg.I }
  refine rinv_of_rk (w := { w with s := JS.init w.cfg.I }) hv h.rng (fun k o ho hk => ⟨(h.res k o ho hk).2, ?_⟩) e
    e.good.st.2 ?_
  · obtain ⟨b, hb, _⟩ := (h.res k o ho hk).1.built
    exact ⟨b, hb⟩
  · intro k o' ho' hk'
    right
    have hlt : k < w.heap.length := by
      apply Classical.byContradiction; intro hn
      exact e.new k o' (by show w.heap.length ≤ k; omega) ho' hk'
    have hmem : k ∈ w.subs := by rw [h.rng]; exact List.mem_range.2 hlt
    exact hr k hmem o' ho' hk'

/-! ## the constructor of the residual graph updater -/

theorem partsOK_push {w : FWorld} {k : Nat} {o : FObs} (o1 : FObs) (h : PartsOK w k o) : PartsOK (w.push o1).1 k o := by
  intro i hi
  obtain ⟨h1, h2, ic, h3, h4⟩ := h i hi
  exact ⟨h1, by simp only [FWorld.push]; exact List.mem_append_left _ h2, ic, (FCtor.keep_push w o1).keep i ic h3, h4⟩

theorem rinv_push_residual {w : FWorld} (hv : Valid w.cfg.I) (h : RInv w) (hs : w.s = init w.cfg.I) (b : Builder) (o : FObs)
    (hg : o.graph = o.graph0) (hb : o.graph0 = build b w.cfg.I) (hp : PartsOK w w.heap.length o) : RInv (w.push o).1 := by
  constructor
  · simp only [FWorld.push, List.length_append, List.length_singleton]
    rw [h.rng, List.range_succ]
  · intro k o' ho' hk'
    rcases FCtor.push_get ho' with h1 | ⟨rfl, rfl⟩
    · obtain ⟨a, c⟩ := h.res k o' h1 hk'
      exact ⟨a, partsOK_push o c⟩
    · refine ⟨?_, partsOK_push o' hp⟩
      show GraphOK w.cfg w.s o'
      rw [hs]; exact graphOK_fresh hv b o' hb hg

theorem rinv_constructResidual {w : FWorld} (hv : Valid w.cfg.I) (h : RInv w) (hs : w.s = init w.cfg.I) (b : Builder)
    (rm rj : Bool) : RInv (w.constructResidual (build b w.cfg.I) rm rj).1 := by
  unfold FWorld.constructResidual
  by_cases h1 : (w.subs.any fun id => (w.heap[id]?.map (·.kind)) == some FKind.residual) = true
  · rw [if_pos h1]; exact h
  · rw [if_neg h1]
    simp only
    by_cases h2 : ((if rm then [FT.machines] else []) ++ (if rj then [FT.jobs] else [])).isEmpty = true
    · rw [if_pos h2]
      apply rinv_push_residual hv h hs b _ rfl rfl
      intro i hi
      simp at hi
    · rw [if_neg h2]
      obtain ⟨e, hmem, ic, hic, hkic, hfts⟩ :=
        rk_getIsCompleted w ((if rm then [FT.machines] else []) ++ (if rj then [FT.jobs] else []))
      have h' := rinv_ctor_rk hv h hs e
      generalize w.getIsCompleted ((if rm then [FT.machines] else []) ++ (if rj then [FT.jobs] else [])) = r
        at e hmem hic h'
      have hc : r.1.cfg = w.cfg := e.good.st.1
      have hs' : r.1.s = init r.1.cfg.I := by rw [hc, e.good.st.2]; exact hs
      apply rinv_push_residual (hc ▸ hv) h' hs' b _ rfl (by rw [hc])
      intro i hi
      simp only [List.head?_cons, Option.some.injEq] at hi
      subst hi
      refine ⟨(List.getElem?_eq_some_iff.1 hic).1, hmem, ic, hic, hkic, ?_, ?_⟩
      · intro hrm
        apply hfts
        simp only at hrm
        simp [hrm]
      · intro hrj
        apply hfts
        simp only at hrj
        simp [hrj]

theorem rinv_ctor {w : FWorld} (hv : Valid w.cfg.I) (h : RInv w) (hs : w.s = init w.cfg.I) (e : FEv)
    (he : e.isCtor = true) : RInv (w.step e) := by
  cases e with
  | disp j p m => cases he
  | reset => cases he
  | construct k fts => exact rinv_ctor_rk hv h hs (rk_construct w k fts)
  | composite parts => exact rinv_ctor_rk hv h hs (rk_constructComposite w parts)
  | residual b rm rj => exact rinv_constructResidual hv h hs b rm rj

/-! ## the dispatch -/

/-- operations unscheduled after an accepted dispatch were unscheduled before -/
theorem unsched_mono {I : Instance} {s s' : State} {j p m : Nat} {op : Op} (hwf : WF I s) (hd : DispSpec I s s' j p m op)
    {r : OpRef} (hr : r ∈ unscheduledPure I s') : r ∈ unscheduledPure I s := by
  rw [mem_unscheduledPure] at hr ⊢
  refine ⟨hr.1, ?_⟩
  have h1 := (dispSpec_vectors hwf hd).2.1 r.1
  have h2 := hd.hidx
  have h3 := hr.2
  by_cases hj : r.1 = j
  · rw [if_pos hj] at h1
    rw [hj]; omega
  · rw [if_neg hj] at h1
    omega

theorem updObs_res (c : Cfg) (s : State) (x : SOp) (hp : List FObs) (o : FObs) (hk : o.kind = .residual) :
    updObs c s x hp o = { o with graph := residualUpdate c s hp o } := by
  simp only [updObs, hk]

theorem updObs_ic (c : Cfg) (s : State) (x : SOp) (hp : List FObs) (o : FObs) (hk : o.kind = .isCompleted)
    (hsh : o.Shaped c.I) : (updObs c s x hp o).kind = .isCompleted ∧ (updObs c s x hp o).fts = o.fts := by
  have e : updObs c s x hp o = isCompletedUpdate c s x o := by simp only [updObs, hk]
  rw [e]
  have k := keeps_isCompletedUpdate c s x hsh
  exact ⟨k.kind.trans hk, k.fts⟩

/-- the notification loop, split at one subscriber: it is rewritten by `updObs` reading the heap as it is after the earlier
subscribers were notified -/
theorem fold_split (x : SOp) (l1 l2 : List Nat) (a : Nat) (w : FWorld) (hnd : (l1 ++ a :: l2).Nodup) (o : FObs)
    (ho : w.heap[a]? = some o) :
    ((l1 ++ a :: l2).foldl (fun w i => w.callUpdate x i) w).heap[a]? =
      some (updObs w.cfg w.s x (l1.foldl (fun w i => w.callUpdate x i) w).heap o) := by
  rw [List.foldl_append, List.foldl_cons]
  have hnd1 : l1.Nodup := (List.nodup_append.1 hnd).1
  have hnd2 : (a :: l2).Nodup := (List.nodup_append.1 hnd).2.1
  have ha1 : a ∉ l1 := fun hm => (List.nodup_append.1 hnd).2.2 a hm a (by simp) rfl
  obtain ⟨_, f2, f3, _, f5, _⟩ := fold_callUpdate_at x l1 w hnd1
  have ho1 : (l1.foldl (fun w i => w.callUpdate x i) w).heap[a]? = some o := by rw [f5 a ha1]; exact ho
  generalize l1.foldl (fun w i => w.callUpdate x i) w = W1 at f2 f3 ho1 ⊢
  rw [List.nodup_cons] at hnd2
  obtain ⟨_, _, _, _, g5, _⟩ := fold_callUpdate_at x l2 (W1.callUpdate x a) hnd2.2
  rw [g5 a hnd2.1, callUpdate_eq W1 x a o ho1, FCtor.setObs_get_self ho1, f2, f3]

theorem range_split {n k : Nat} (hk : k < n) :
    List.range n = List.range k ++ k :: (List.range (n - (k + 1))).map (fun x => k + 1 + x) := by
  have : n = (k + 1) + (n - (k + 1)) := by omega
  rw [this, List.range_add, List.range_succ, List.append_assoc]
  simp

/-- the loop over `List.range n`: observer `k` is rewritten reading the heap in which the observers `< k` are rewritten already -/
theorem fold_range_at (x : SOp) (W0 : FWorld) (n k : Nat) (hk : k < n) (o : FObs) (ho : W0.heap[k]? = some o) :
    ((List.range n).foldl (fun w i => w.callUpdate x i) W0).heap[k]? =
      some (updObs W0.cfg W0.s x ((List.range k).foldl (fun w i => w.callUpdate x i) W0).heap o) := by
  have hnd : (List.range n).Nodup := List.nodup_range
  rw [range_split hk] at hnd ⊢
  exact fold_split x _ _ k W0 hnd o ho

/-- one update of the residual graph updater across an accepted dispatch, given that the flags it reads are those of the new state -/
theorem graphOK_update (c : Cfg) {s s' : State} {j p m : Nat} {op : Op} (hwf : WF c.I s)
    (hd : DispSpec c.I s s' j p m op) (heap : List FObs) (o : FObs) (h : GraphOK c s o)
    (hM : ∀ i ic, o.parts.head? = some i → heap[i]? = some ic → o.rmMach = true → ic.col .machines = complMachSpec c.I s')
    (hJ : ∀ i ic, o.parts.head? = some i → heap[i]? = some ic → o.rmJob = true → ic.col .jobs = complJobsSpec c.I s') :
    GraphOK c s' { o with graph := residualUpdate c s' heap o } := by
  obtain ⟨b, hb, hbM, hbJ⟩ := h.built
  have hnodes : ∀ k, k < numOps c.I → o.graph.nodes[k]? = some (.operation k) := by
    rw [h.nodes, hb]; exact RA.build_opnodes b c.I
  refine ⟨residualUpdate_inv c s' heap o h.ginv, (RA.residualUpdate_nodes c s' heap o).trans h.nodes, ?_, ?_, b, hb, ?_, ?_⟩
  · intro r hr
    exact anch_residualUpdate c s' heap o h.ginv hnodes hM hJ r hr (h.anch r (unsched_mono hwf hd hr))
  · intro r hr
    exact C17_completed_removed c s' heap o r hr
  · intro hne mm r hr hm
    exact anchM_residualUpdate c s' heap o h.ginv hnodes hM hJ mm r hr hm (hbM hne mm r (unsched_mono hwf hd hr) hm)
  · intro hne r hr
    exact anchJ_residualUpdate c s' heap o h.ginv hnodes hM hJ r hr (hbJ hne r (unsched_mono hwf hd hr))

/-- an `isCompleted` observer after its notification across an accepted dispatch: same feature types, flags of the new state -/
theorem ic_after {w : FWorld} {s' : State} {j p mm : Nat} {op : Op} (hv : Valid w.cfg.I) (hf : FInv w)
    (hc : CInv w.cfg.I w.s) (hsp : DispSpec w.cfg.I w.s s' j p mm op)
    (hmono : ∀ r, r ∈ completedPure w.cfg w.s → r ∈ completedPure w.cfg s')
    {i : Nat} (hi : i ∈ w.subs) {ic : FObs} (hic : w.heap[i]? = some ic) (hk : ic.kind = .isCompleted) (hp : List FObs) :
    (updObs w.cfg s' (newEntry w.s j p mm op) hp ic).kind = .isCompleted ∧
    (updObs w.cfg s' (newEntry w.s j p mm op) hp ic).fts = ic.fts ∧
    (FT.machines ∈ ic.fts → (updObs w.cfg s' (newEntry w.s j p mm op) hp ic).col .machines = complMachSpec w.cfg.I s') ∧
    (FT.jobs ∈ ic.fts → (updObs w.cfg s' (newEntry w.s j p mm op) hp ic).col .jobs = complJobsSpec w.cfg.I s') := by
  have hs : ic.kind.single = true := by rw [hk]; rfl
  have hsh := hf.shape i ic hic hs
  obtain ⟨a, b⟩ := updObs_ic w.cfg s' (newEntry w.s j p mm op) hp ic hk hsh
  obtain ⟨_, _, v⟩ := updObs_spec w.cfg hv hc hsp hmono hp ic (hf.shape i ic hic) (hf.val i hi ic hic)
  exact ⟨a, b, fun h => (v.cmpMach a (by rw [b]; exact h)).2, fun h => (v.cmpJobs a (by rw [b]; exact h)).2⟩

/-- the notification loop of an accepted dispatch preserves the invariant -/
theorem rinv_fold {w : FWorld} {s' : State} {j p mm : Nat} {op : Op} (hv : Valid w.cfg.I) (hf : FInv w) (h : RInv w)
    (hc : CInv w.cfg.I w.s) (hsp : DispSpec w.cfg.I w.s s' j p mm op)
    (hmono : ∀ r, r ∈ completedPure w.cfg w.s → r ∈ completedPure w.cfg s') :
    RInv (w.subs.foldl (fun (W : FWorld) id => W.callUpdate (newEntry w.s j p mm op) id) { w with s := s' }) := by
  obtain ⟨f1, f2, f3, f4, _, f6⟩ :=
    fold_callUpdate_at (newEntry w.s j p mm op) w.subs { w with s := s' } hf.subs.nodup
  have hfold : ∀ (k : Nat) (o : FObs), k < w.heap.length → w.heap[k]? = some o →
      (w.subs.foldl (fun (W : FWorld) id => W.callUpdate (newEntry w.s j p mm op) id) { w with s := s' }).heap[k]? =
        some (updObs w.cfg s' (newEntry w.s j p mm op)
          ((List.range k).foldl (fun (W : FWorld) id => W.callUpdate (newEntry w.s j p mm op) id) { w with s := s' }).heap o) := by
    intro k o hk ho
    have := fold_range_at (newEntry w.s j p mm op) { w with s := s' } w.heap.length k hk o ho
    rw [← h.rng] at this
    exact this
  generalize w.subs.foldl (fun (W : FWorld) id => W.callUpdate (newEntry w.s j p mm op) id) { w with s := s' } = W
    at f1 f2 f3 f4 f6 hfold
  constructor
  · rw [f1, f4]; exact h.rng
  · intro k o' ho' hk'
    have hlt : k < w.heap.length := by
      have := (List.getElem?_eq_some_iff.1 ho').1
      rw [f4] at this; exact this
    obtain ⟨o, ho⟩ : ∃ o, w.heap[k]? = some o := ⟨w.heap[k], List.getElem?_eq_getElem hlt⟩
    have hmem : k ∈ w.subs := by rw [h.rng]; exact List.mem_range.2 hlt
    rw [hfold k o hlt ho] at ho'
    cases ho'
    obtain ⟨kk, _, _⟩ := updObs_spec w.cfg hv hc hsp hmono
      ((List.range k).foldl (fun (W : FWorld) id => W.callUpdate (newEntry w.s j p mm op) id) { w with s := s' }).heap o
      (hf.shape k o ho) (hf.val k hmem o ho)
    have hk : o.kind = .residual := kk.symm.trans hk'
    rw [updObs_res _ _ _ _ _ hk]
    obtain ⟨g, pp⟩ := h.res k o ho hk
    obtain ⟨_, _, _, _, _, g6⟩ :=
      fold_callUpdate_at (newEntry w.s j p mm op) (List.range k) { w with s := s' } List.nodup_range
    rw [f3, f2]
    refine ⟨?_, ?_⟩
    · apply graphOK_update w.cfg hc.wf hsp _ o g
      · intro i ic' hi hic' hrm
        obtain ⟨hik, his, ic, hic, hkic, hm, _⟩ := pp i hi
        obtain ⟨hp, hhp⟩ := g6 i (List.mem_range.2 hik) ic hic
        rw [hhp] at hic'; cases hic'
        exact (ic_after hv hf hc hsp hmono his hic hkic hp).2.2.1 (hm hrm)
      · intro i ic' hi hic' hrj
        obtain ⟨hik, his, ic, hic, hkic, _, hj⟩ := pp i hi
        obtain ⟨hp, hhp⟩ := g6 i (List.mem_range.2 hik) ic hic
        rw [hhp] at hic'; cases hic'
        exact (ic_after hv hf hc hsp hmono his hic hkic hp).2.2.2 (hj hrj)
    · intro i hi
      obtain ⟨hik, his, ic, hic, hkic, hm, hj⟩ := pp i hi
      obtain ⟨hp, hhp⟩ := f6 i his ic hic
      obtain ⟨a, b, _, _⟩ := ic_after hv hf hc hsp hmono his hic hkic hp
      exact ⟨hik, by rw [f1]; exact his, _, hhp, a, fun hh => by rw [b]; exact hm hh, fun hh => by rw [b]; exact hj hh⟩

/-- an accepted or rejected dispatch request preserves the invariant -/
theorem rinv_dispatch {w : FWorld} (hv : Valid w.cfg.I) (hF : w.cfg.F = none ∨ PosDurI w.cfg.I) (hf : FInv w) (h : RInv w)
    (j p : Nat) (m : Option Int) : RInv (w.dispatch j p m).1 := by
  unfold FWorld.dispatch
  cases hdr : dispatchReq w.cfg.I w.s j p m with
  | error e => exact h
  | ok s' =>
    simp only
    obtain ⟨mm, op, hop, _, hdd⟩ := dispatchReq_ok hdr
    obtain ⟨op', hsp⟩ := dispatch_ok hdd
    have hop' := hsp.hop
    rw [hop] at hop'; cases hop'
    obtain ⟨evs, hevs⟩ := hf.reach
    have hc : CInv w.cfg.I w.s := by rw [hevs]; exact (inv_run hv evs).cinv
    have hvop := hv j p op hop
    rw [find_new_entry hc hvop.2.2 hsp]
    simp only
    have hrun : s' = run w.cfg (evs ++ [.disp j p m]) := by
      rw [run_snoc, ← hevs]
      simp only [stepEv, hdr]
    have hmono : ∀ r, r ∈ completedPure w.cfg w.s → r ∈ completedPure w.cfg s' := by
      intro r hr
      rw [hrun]
      rw [hevs] at hr
      exact C06_completed_mono w.cfg hv hF evs j p m r hr
    exact rinv_fold hv hf h hc hsp hmono

/-! ## every reachable feature world -/

theorem both_ctors {c : Cfg} (hv : Valid c.I) : ∀ (ctors : List FEv) (w : FWorld), w.cfg = c → FInv w → RInv w →
    w.s = init c.I → (∀ e ∈ ctors, e.isCtor = true) → (∀ e ∈ ctors, e.NodupFts) →
    FInv (ctors.foldl FWorld.step w) ∧ RInv (ctors.foldl FWorld.step w) ∧ (ctors.foldl FWorld.step w).s = init c.I ∧
      (ctors.foldl FWorld.step w).cfg = c
  | [], w, hc, h, hr, hs, _, _ => ⟨h, hr, hs, hc⟩
  | e :: t, w, hc, h, hr, hs, hct, hnd => by
    simp only [List.foldl_cons]
    subst hc
    obtain ⟨h1, h2, h3⟩ := finv_ctor hv h hs e (hct e (List.mem_cons_self ..))
      (by intro k l he; have := hnd e (List.mem_cons_self ..); rw [he] at this; exact this)
    have hr1 := rinv_ctor hv hr hs e (hct e (List.mem_cons_self ..))
    exact both_ctors (c := w.cfg) hv t _ h3 h1 hr1 h2
      (fun e' he' => hct e' (List.mem_cons_of_mem _ he')) (fun e' he' => hnd e' (List.mem_cons_of_mem _ he'))

theorem both_events {c : Cfg} (hv : Valid c.I) (hF : c.F = none ∨ PosDurI c.I) : ∀ (evs : List FEv) (w : FWorld),
    w.cfg = c → FInv w → RInv w → (∀ e ∈ evs, e.isCtor = false) →
    FInv (evs.foldl FWorld.step w) ∧ RInv (evs.foldl FWorld.step w) ∧ (evs.foldl FWorld.step w).cfg = c
  | [], w, hc, h, hr, _ => ⟨h, hr, hc⟩
  | e :: t, w, hc, h, hr, hev => by
    simp only [List.foldl_cons]
    subst hc
    have he := hev e (List.mem_cons_self ..)
    have hrest : ∀ e' ∈ t, e'.isCtor = false := fun e' he' => hev e' (List.mem_cons_of_mem _ he')
    cases e with
    | disp j p m =>
      have hcfg : (w.dispatch j p m).1.cfg = w.cfg := (dispatch_keeps w j p m).2.2.1
      exact both_events (c := w.cfg) hv hF t _ hcfg (finv_dispatch hv hF h j p m) (rinv_dispatch hv hF h hr j p m) hrest
    | reset =>
      have hcfg : w.reset.cfg = w.cfg := (reset_keeps w).2.2.1
      exact both_events (c := w.cfg) hv hF t _ hcfg (finv_reset hv h).1 (rinv_reset hv hr) hrest
    | construct k fts => simp [FEv.isCtor] at he
    | composite parts => simp [FEv.isCtor] at he
    | residual b rm rj => simp [FEv.isCtor] at he

/-- the value invariant and the residual-graph invariant in every reachable feature world -/
theorem both_run (c : Cfg) (hv : Valid c.I) (hF : c.F = none ∨ PosDurI c.I) (ctors evs : List FEv)
    (hct : ∀ e ∈ ctors, e.isCtor = true) (hnd : ∀ e ∈ ctors, e.NodupFts) (hev : ∀ e ∈ evs, e.isCtor = false) :
    FInv (FWorld.run c (ctors ++ evs)) ∧ RInv (FWorld.run c (ctors ++ evs)) ∧ (FWorld.run c (ctors ++ evs)).cfg = c := by
  unfold FWorld.run
  rw [List.foldl_append]
  obtain ⟨h0, hs0⟩ := finv_init c
  obtain ⟨h1, r1, _, h3⟩ := both_ctors hv ctors (FWorld.init c) rfl h0 (rinv_init c) hs0 hct hnd
  exact both_events hv hF evs _ h3 h1 r1 hev

end RW

/-- **C17 on the whole feature world.**  With a residual graph updater attached, in every reachable feature world: the graph is
consistent, no unscheduled operation's node is removed, every completed operation's node is removed, the initial graph is a built
graph, and a machine / job node is removed only when all its operations are scheduled. -/
theorem C17_world (c : Cfg) (hv : Valid c.I) (hF : c.F = none ∨ PosDurI c.I) (w : FWorld) (hw : Reached c w)
    (id : Nat) (hid : id ∈ w.subs) (o : FObs) (ho : w.heap[id]? = some o) (hk : o.kind = .residual) :
    GInv o.graph ∧
    (∀ r ∈ unscheduledPure c.I w.s, o.graph.present (opId c.I r) = true) ∧
    (∀ r ∈ completedPure c w.s, o.graph.removed.getD (opId c.I r) true = true) ∧
    ∃ b : Builder, o.graph0 = build b c.I ∧
      (b ≠ .disjunctive → ∀ m, ∀ r ∈ unscheduledPure c.I w.s, onMachine c.I m r = true →
          o.graph.present (nodeIdOf o.graph (.machine m)) = true) ∧
      ((b = .agentTaskJobs ∨ b = .completeAgentTask) → ∀ r ∈ unscheduledPure c.I w.s,
          o.graph.present (nodeIdOf o.graph (.job r.1)) = true) := by
  have _ := hid
  obtain ⟨ctors, evs, hct, hnd, hev, rfl⟩ := hw.ex
  obtain ⟨_, hr, hc⟩ := RW.both_run c hv hF ctors evs hct hnd hev
  obtain ⟨g, _⟩ := hr.res id o ho hk
  rw [hc] at g
  obtain ⟨b, hb, hM, hJ⟩ := g.built
  exact ⟨g.ginv, fun r hr => (g.anch r hr).1, g.compl, b, hb, fun hne m r hr hm => (hM hne m r hr hm).1,
    fun hne r hr => (hJ hne r hr).1⟩

/-! non-vacuity: the reachable world of `C11World`'s example has a subscribed residual graph updater (id 10, reading the
`isCompleted` observer 0), unscheduled operations and a completed operation, whose node is removed -/
set_option maxRecDepth 100000 in
example :
    let w := FWorld.run { I := c11Instance } (c11Ctors ++ c11Events)
    10 ∈ w.subs ∧ (w.heap[10]?.map fun o => (o.kind, o.parts, o.graph.removed)) =
        some (.residual, [0], [false, false, true, false, false, false, false]) ∧
      unscheduledPure c11Instance w.s = [(0, 0), (0, 1), (1, 2)] ∧
      completedPure { I := c11Instance } w.s = [(1, 0)] := by decide

end JS

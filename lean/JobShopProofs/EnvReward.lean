import JobShopProofs.EnvInv4
import JobShopProofs.Properties.C09
/-!
# The reward an environment step returns is the reward emitted for that step

`Env.step` returns `lastReward` of the reward observer after the dispatch.  Here: an accepted dispatch appends exactly
one reward to the subscribed reward observer (it is notified exactly once, and no other callback touches it), so the
returned reward is the one emitted for this very step — for the makespan reward, minus the increase of the makespan.
-/
namespace JS

/-- every callback only rewrites the observer it is called on -/
theorem callUpdate_other (w : FWorld) (x : SOp) (id k : Nat) (h : id ≠ k) :
    (w.callUpdate x id).heap[k]? = w.heap[k]? ∧ (w.callUpdate x id).subs = w.subs ∧
    (w.callUpdate x id).s = w.s ∧ (w.callUpdate x id).cfg = w.cfg := by
  unfold FWorld.callUpdate
  cases h0 : w.heap[id]? with
  | none => exact ⟨rfl, rfl, rfl, rfl⟩
  | some o =>
    simp only
    split <;> exact ⟨by simp only [FWorld.setObs]; rw [List.getElem?_set_ne h], rfl, rfl, rfl⟩

theorem callUpdate_frame (w : FWorld) (x : SOp) (id : Nat) :
    (w.callUpdate x id).subs = w.subs ∧ (w.callUpdate x id).s = w.s ∧ (w.callUpdate x id).cfg = w.cfg ∧
    (w.callUpdate x id).heap.length = w.heap.length := by
  unfold FWorld.callUpdate
  cases h0 : w.heap[id]? with
  | none => exact ⟨rfl, rfl, rfl, rfl⟩
  | some o =>
    simp only
    split <;> exact ⟨rfl, rfl, rfl, by simp [FWorld.setObs]⟩

theorem callUpdate_makespanReward (w : FWorld) (x : SOp) (id : Nat) (o : FObs) (ho : w.heap[id]? = some o)
    (hk : o.kind = .makespanReward) :
    w.callUpdate x id = w.setObs id { o with kind := .makespanReward, curMakespan := max o.curMakespan x.end_,
                                             rewards := o.rewards ++ [o.curMakespan - max o.curMakespan x.end_] } := by
  unfold FWorld.callUpdate
  simp only [ho, hk]

theorem callUpdate_idleReward (w : FWorld) (x : SOp) (id : Nat) (o : FObs) (ho : w.heap[id]? = some o)
    (hk : o.kind = .idleReward) :
    ∃ r, w.callUpdate x id = w.setObs id { o with kind := .idleReward, rewards := o.rewards ++ [r] } := by
  unfold FWorld.callUpdate
  simp only [ho, hk]
  exact ⟨_, rfl⟩

/-- the reward observer's own callback appends exactly one reward -/
theorem callUpdate_reward (w : FWorld) (x : SOp) (id : Nat) (o : FObs) (ho : w.heap[id]? = some o)
    (hk : o.kind = .makespanReward ∨ o.kind = .idleReward) :
    ∃ o' r, (w.callUpdate x id).heap[id]? = some o' ∧ o'.rewards = o.rewards ++ [r] ∧ o'.kind = o.kind ∧
      (o.kind = .makespanReward → r = o.curMakespan - max o.curMakespan x.end_ ∧ o'.curMakespan = max o.curMakespan x.end_) := by
  have hlt : id < w.heap.length := (List.getElem?_eq_some_iff.1 ho).1
  rcases hk with hk | hk
  · rw [callUpdate_makespanReward w x id o ho hk]
    have hget : (w.setObs id { o with kind := .makespanReward, curMakespan := max o.curMakespan x.end_, rewards := o.rewards ++ [o.curMakespan - max o.curMakespan x.end_] }).heap[id]? = some { o with kind := .makespanReward, curMakespan := max o.curMakespan x.end_, rewards := o.rewards ++ [o.curMakespan - max o.curMakespan x.end_] } := by
      simp [FWorld.setObs, hlt]
    exact ⟨_, _, hget, rfl, hk.symm, fun _ => ⟨rfl, rfl⟩⟩
  · obtain ⟨r, hr⟩ := callUpdate_idleReward w x id o ho hk
    rw [hr]
    have hget : (w.setObs id { o with kind := .idleReward, rewards := o.rewards ++ [r] }).heap[id]? = some { o with kind := .idleReward, rewards := o.rewards ++ [r] } := by
      simp [FWorld.setObs, hlt]
    exact ⟨_, r, hget, rfl, hk.symm, fun h => by rw [hk] at h; cases h⟩

/-- folding the callbacks over a duplicate-free subscriber list: an observer in the list is called exactly once -/
theorem fold_callUpdate_reward (x : SOp) : ∀ (l : List Nat) (w : FWorld) (id : Nat) (o : FObs), l.Nodup → id ∈ l →
    w.heap[id]? = some o → (o.kind = .makespanReward ∨ o.kind = .idleReward) →
    ∃ o' r, (l.foldl (fun w i => w.callUpdate x i) w).heap[id]? = some o' ∧ o'.rewards = o.rewards ++ [r] ∧
      (o.kind = .makespanReward → r = o.curMakespan - max o.curMakespan x.end_)
  | [], _, _, _, _, h, _, _ => by cases h
  | a :: t, w, id, o, hnd, hmem, ho, hk => by
    simp only [List.foldl_cons]
    rw [List.nodup_cons] at hnd
    by_cases ha : a = id
    · subst ha
      obtain ⟨o', r, ho', hr, hk', hm⟩ := callUpdate_reward w x a o ho hk
      -- the remaining callbacks do not touch it
      have hrest : ∀ (l : List Nat) (w' : FWorld), a ∉ l → (l.foldl (fun w i => w.callUpdate x i) w').heap[a]? = w'.heap[a]? := by
        intro l
        induction l with
        | nil => intro _ _; rfl
        | cons b l ih =>
          intro w' hn
          simp only [List.foldl_cons]
          rw [ih _ (fun h => hn (by simp [h])), (callUpdate_other w' x b a (fun h => hn (by simp [h]))).1]
      exact ⟨o', r, by rw [hrest t _ hnd.1]; exact ho', hr, fun h => (hm h).1⟩
    · have hmem' : id ∈ t := by
        rcases List.mem_cons.1 hmem with h | h
        · exact absurd h.symm ha
        · exact h
      have ho2 : (w.callUpdate x a).heap[id]? = some o := by rw [(callUpdate_other w x a id ha).1]; exact ho
      exact fold_callUpdate_reward x t _ id o hnd.2 hmem' ho2 hk

end JS

namespace JS

/-- subscriber list well-formed: no duplicates, all in the heap -/
structure SubsOK (w : FWorld) : Prop where
  nodup : w.subs.Nodup
  valid : ∀ id ∈ w.subs, id < w.heap.length

theorem subsOK_init (c : Cfg) : SubsOK (FWorld.init c) := ⟨by simp [FWorld.init], by simp [FWorld.init]⟩

theorem subsOK_push {w : FWorld} (h : SubsOK w) (o : FObs) : SubsOK (w.push o).1 := by
  constructor
  · simp only [FWorld.push]
    rw [List.nodup_append]
    refine ⟨h.nodup, by simp, ?_⟩
    intro a ha b hb
    simp only [List.mem_singleton] at hb
    have := h.valid a ha; omega
  · intro id hid
    simp only [FWorld.push, List.mem_append, List.mem_singleton, List.length_append, List.length_singleton] at hid ⊢
    rcases hid with h1 | h1
    · have := h.valid id h1; omega
    · omega

theorem subsOK_setObs {w : FWorld} (h : SubsOK w) (id : Nat) (o : FObs) : SubsOK (w.setObs id o) :=
  ⟨h.nodup, fun i hi => by simp only [FWorld.setObs, List.length_set]; exact h.valid i hi⟩

/-- **C13 / C18 (the step reward is the reward emitted for that step).** If the reward observer is subscribed, an
accepted dispatch on the feature world appends exactly one reward to it; for the makespan reward that reward is the
old makespan minus the new one. `Env.step` returns exactly this last reward. -/
theorem dispatch_appends_one_reward (w : FWorld) (hs : SubsOK w) (rew : Nat) (o : FObs) (ho : w.heap[rew]? = some o)
    (hk : o.kind = .makespanReward ∨ o.kind = .idleReward) (hsub : rew ∈ w.subs) (j p : Nat) (m : Option Int)
    (w' : FWorld) (hd : w.dispatch j p m = (w', true)) (hv : Valid w.cfg.I) (hc : CInv w.cfg.I w.s) :
    ∃ o' r, w'.heap[rew]? = some o' ∧ o'.rewards = o.rewards ++ [r] ∧ o'.rewards.getLast? = some r := by
  unfold FWorld.dispatch at hd
  cases hdr : dispatchReq w.cfg.I w.s j p m with
  | error e => rw [hdr] at hd; cases hd
  | ok s' =>
    rw [hdr] at hd
    simp only at hd
    obtain ⟨mm, op, hop, _, hdd⟩ := dispatchReq_ok hdr
    obtain ⟨op', hsp⟩ := dispatch_ok hdd
    have hop' := hsp.hop
    rw [hop] at hop'; cases hop'
    have hfind := find_new_entry hc (hv j p op hop).2.2 hsp
    rw [hfind] at hd
    simp only [Prod.mk.injEq, and_true] at hd
    subst hd
    obtain ⟨o', r, h1, h2, _⟩ := fold_callUpdate_reward ⟨j, p, mm, startTime w.s j mm, op.dur⟩ w.subs
      { w with s := s' } rew o hs.nodup hsub ho hk
    exact ⟨o', r, h1, h2, by rw [h2]; simp⟩

end JS

namespace JS

/-- `w'` keeps `w`'s subscribers as a prefix of its own and stays well formed -/
structure Good (w w' : FWorld) : Prop where
  ok : SubsOK w → SubsOK w'
  pre : ∃ t, w'.subs = w.subs ++ t
  st : w'.cfg = w.cfg ∧ w'.s = w.s

theorem Good.refl (w : FWorld) : Good w w := ⟨id, ⟨[], by simp⟩, rfl, rfl⟩
theorem Good.trans {a b c : FWorld} (h1 : Good a b) (h2 : Good b c) : Good a c := by
  refine ⟨fun h => h2.ok (h1.ok h), ?_, h2.st.1.trans h1.st.1, h2.st.2.trans h1.st.2⟩
  obtain ⟨t1, e1⟩ := h1.pre
  obtain ⟨t2, e2⟩ := h2.pre
  exact ⟨t1 ++ t2, by rw [e2, e1, List.append_assoc]⟩

theorem good_push (w : FWorld) (o : FObs) : Good w (w.push o).1 :=
  ⟨fun h => subsOK_push h o, ⟨[w.heap.length], rfl⟩, rfl, rfl⟩
theorem good_setObs (w : FWorld) (id : Nat) (o : FObs) : Good w (w.setObs id o) :=
  ⟨fun h => subsOK_setObs h id o, ⟨[], by simp [FWorld.setObs]⟩, rfl, rfl⟩

theorem good_getUnscheduled (w : FWorld) : Good w w.getUnscheduled.1 := by
  unfold FWorld.getUnscheduled
  cases w.findObs .unscheduled [] with
  | some id => exact Good.refl w
  | none => exact good_push w _

theorem good_newRemaining (w : FWorld) (fts : List FT) : Good w (w.newRemaining fts).1 := by
  unfold FWorld.newRemaining
  simp only
  exact (good_push w _).trans ((good_getUnscheduled _).trans (good_setObs _ _ _))

theorem good_getRemaining (w : FWorld) (need : List FT) : Good w (w.getRemaining need).1 := by
  unfold FWorld.getRemaining
  cases w.findObs .remainingOps need with
  | some id => exact Good.refl w
  | none => exact good_newRemaining w need

theorem good_isCompletedInit (w : FWorld) (id : Nat) : Good w (w.isCompletedInit id) := by
  unfold FWorld.isCompletedInit
  simp only
  exact (good_setObs w _ _).trans ((good_getRemaining _ _).trans (good_setObs _ _ _))

theorem good_resetRemaining (w : FWorld) (id : Nat) : Good w (w.resetRemaining id) := by
  unfold FWorld.resetRemaining
  simp only
  exact (good_getUnscheduled w).trans ((good_setObs _ _ _).trans (good_setObs _ _ _))

theorem good_callUpdate (w : FWorld) (x : SOp) (id : Nat) : Good w (w.callUpdate x id) := by
  obtain ⟨h1, h2, h3, h4⟩ := callUpdate_frame w x id
  exact ⟨fun h => ⟨h1 ▸ h.nodup, fun i hi => by rw [h4]; exact h.valid i (h1 ▸ hi)⟩, ⟨[], by simp [h1]⟩, h3, h2⟩

theorem good_callReset (w : FWorld) (id : Nat) : Good w (w.callReset id) := by
  unfold FWorld.callReset
  cases w.heap[id]? with
  | none => exact Good.refl w
  | some o =>
    simp only
    split
    all_goals first
      | exact good_setObs _ _ _
      | exact good_resetRemaining _ _
      | exact (good_getRemaining _ _).trans ((good_resetRemaining _ _).trans (good_isCompletedInit _ _))

theorem good_foldl (f : FWorld → Nat → FWorld) (hf : ∀ w id, Good w (f w id)) : ∀ (l : List Nat) (w : FWorld), Good w (l.foldl f w)
  | [], w => Good.refl w
  | a :: t, w => by simp only [List.foldl_cons]; exact (hf w a).trans (good_foldl f hf t _)

/-- the state-changing operations: subscribers stay a well-formed extension; the dispatcher state stays reachable -/
theorem dispatch_keeps (w : FWorld) (j p : Nat) (m : Option Int) :
    (SubsOK w → SubsOK (w.dispatch j p m).1) ∧ (∃ t, (w.dispatch j p m).1.subs = w.subs ++ t) ∧
    (w.dispatch j p m).1.cfg = w.cfg ∧
    (Valid w.cfg.I → CInv w.cfg.I w.s → CInv w.cfg.I (w.dispatch j p m).1.s) := by
  unfold FWorld.dispatch
  cases hd : dispatchReq w.cfg.I w.s j p m with
  | error e => exact ⟨id, ⟨[], by simp⟩, rfl, fun _ h => h⟩
  | ok s' =>
    simp only
    have hc' : Valid w.cfg.I → CInv w.cfg.I w.s → CInv w.cfg.I s' := by
      intro hv hc
      obtain ⟨mm, op, hop, _, hdd⟩ := dispatchReq_ok hd
      obtain ⟨op', hsp⟩ := dispatch_ok hdd
      have := hsp.hop; rw [hop] at this; cases this
      exact cinv_dispatch (hv j p op hop).2.2 hc hsp
    cases (s'.sched.flatten.find? fun x => x.job == j && x.pos == p) with
    | none => exact ⟨fun h => ⟨h.nodup, h.valid⟩, ⟨[], by simp⟩, rfl, hc'⟩
    | some x =>
      simp only
      have g := good_foldl (fun w id => w.callUpdate x id) (fun w id => good_callUpdate w x id) w.subs { w with s := s' }
      refine ⟨fun h => g.ok ⟨h.nodup, h.valid⟩, g.pre, g.st.1, fun hv hc => ?_⟩
      rw [g.st.2]; exact hc' hv hc

theorem reset_keeps (w : FWorld) :
    (SubsOK w → SubsOK w.reset) ∧ (∃ t, w.reset.subs = w.subs ++ t) ∧ w.reset.cfg = w.cfg ∧
    CInv w.cfg.I w.reset.s := by
  unfold FWorld.reset
  have g := good_foldl (fun w id => w.callReset id) (fun w id => good_callReset w id) w.subs { w with s := JS.init w.cfg.I }
  refine ⟨fun h => g.ok ⟨h.nodup, h.valid⟩, g.pre, g.st.1, ?_⟩
  rw [g.st.2]; exact cinv_init w.cfg.I

end JS

namespace JS

theorem good_construct (w : FWorld) (kind : FKind) (fts : Option (List FT)) : Good w (w.construct kind fts).1 := by
  cases kind <;> simp only [FWorld.construct]
  all_goals
    repeat' split
    all_goals first
      | exact Good.refl w
      | exact good_push w _
      | exact (good_push w _).trans (good_setObs _ _ _)
      | exact (good_push w _).trans ((good_getUnscheduled _).trans (good_setObs _ _ _))
      | exact (good_push w _).trans (good_isCompletedInit _ _)

theorem good_constructComposite (w : FWorld) (parts : Option (List Nat)) : Good w (w.constructComposite parts).1 := by
  unfold FWorld.constructComposite
  simp only
  exact (good_push w _).trans (good_setObs _ _ _)

theorem good_getIsCompleted (w : FWorld) (need : List FT) : Good w (w.getIsCompleted need).1 := by
  unfold FWorld.getIsCompleted
  cases w.findObs .isCompleted need with
  | some id => exact Good.refl w
  | none => exact (good_push w _).trans (good_isCompletedInit _ _)

theorem good_constructResidual (w : FWorld) (g : Graph) (rm rj : Bool) : Good w (w.constructResidual g rm rj).1 := by
  unfold FWorld.constructResidual
  by_cases h1 : (w.subs.any fun id => (w.heap[id]?.map (·.kind)) == some FKind.residual) = true
  · rw [if_pos h1]; exact Good.refl w
  · rw [if_neg h1]
    simp only
    generalize ((if rm then [FT.machines] else []) ++ (if rj then [FT.jobs] else [])) = need
    by_cases h2 : need.isEmpty = true
    · rw [if_pos h2]; exact good_push w _
    · rw [if_neg h2]; exact (good_getIsCompleted w need).trans (good_push _ _)

end JS

import JobShopProofs.EnvInv4
import JobShopProofs.Properties.C09
/-!
# The reward an environment step returns is the reward emitted for that step

`Env.step` returns `lastReward` of the reward observer after the dispatch.  Here: an accepted dispatch appends exactly
one reward to the subscribed reward observer (it is notified exactly once, and no other callback touches it), so the
returned reward is the one emitted for this very step — for the makespan reward, minus the increase of the makespan.
-/
namespace JS

/-- every callback only rewrites the observer it is called on -/
theorem callUpdate_other (w : FWorld) (x : SOp) (id k : Nat) (h : id ≠ k) :
    (w.callUpdate x id).heap[k]? = w.heap[k]? ∧ (w.callUpdate x id).subs = w.subs ∧
    (w.callUpdate x id).s = w.s ∧ (w.callUpdate x id).cfg = w.cfg := by
  unfold FWorld.callUpdate
  cases h0 : w.heap[id]? with
  | none => exact ⟨rfl, rfl, rfl, rfl⟩
  | some o =>
    simp only
    split <;> exact ⟨by simp only [FWorld.setObs]; rw [List.getElem?_set_ne h], rfl, rfl, rfl⟩

theorem callUpdate_frame (w : FWorld) (x : SOp) (id : Nat) :
    (w.callUpdate x id).subs = w.subs ∧ (w.callUpdate x id).s = w.s ∧ (w.callUpdate x id).cfg = w.cfg ∧
    (w.callUpdate x id).heap.length = w.heap.length := by
  unfold FWorld.callUpdate
  cases h0 : w.heap[id]? with
  | none => exact ⟨rfl, rfl, rfl, rfl⟩
  | some o =>
    simp only
    split <;> exact ⟨rfl, rfl, rfl, by simp [FWorld.setObs]⟩

theorem callUpdate_makespanReward (w : FWorld) (x : SOp) (id : Nat) (o : FObs) (ho : w.heap[id]? = some o)
    (hk : o.kind = .makespanReward) :
    w.callUpdate x id = w.setObs id { o with kind := .makespanReward, curMakespan := max o.curMakespan x.end_,
                                             rewards := o.rewards ++ [o.curMakespan - max o.curMakespan x.end_] } := by
  unfold FWorld.callUpdate
  simp only [ho, hk]

theorem callUpdate_idleReward (w : FWorld) (x : SOp) (id : Nat) (o : FObs) (ho : w.heap[id]? = some o)
    (hk : o.kind = .idleReward) :
    ∃ r, w.callUpdate x id = w.setObs id { o with kind := .idleReward, rewards := o.rewards ++ [r] } := by
  unfold FWorld.callUpdate
  simp only [ho, hk]
  exact ⟨_, rfl⟩

/-- the reward observer's own callback appends exactly one reward -/
theorem callUpdate_reward (w : FWorld) (x : SOp) (id : Nat) (o : FObs) (ho : w.heap[id]? = some o)
    (hk : o.kind = .makespanReward ∨ o.kind = .idleReward) :
    ∃ o' r, (w.callUpdate x id).heap[id]? = some o' ∧ o'.rewards = o.rewards ++ [r] ∧ o'.kind = o.kind ∧
      (o.kind = .makespanReward → r = o.curMakespan - max o.curMakespan x.end_ ∧ o'.curMakespan = max o.curMakespan x.end_) := by
  have hlt : id < w.heap.length := (List.getElem?_eq_some_iff.1 ho).1
  rcases hk with hk | hk
  · rw [callUpdate_makespanReward w x id o ho hk]
    have hget : (w.setObs id { o with kind := .makespanReward, curMakespan := max o.curMakespan x.end_, rewards := o.rewards ++ [o.curMakespan - max o.curMakespan x.end_] }).heap[id]? = some { o with kind := .makespanReward, curMakespan := max o.curMakespan x.end_, rewards := o.rewards ++ [o.curMakespan - max o.curMakespan x.end_] } := by
      simp [FWorld.setObs, hlt]
    exact ⟨_, _, hget, rfl, hk.symm, fun _ => ⟨rfl, rfl⟩⟩
  · obtain ⟨r, hr⟩ := callUpdate_idleReward w x id o ho hk
    rw [hr]
    have hget : (w.setObs id { o with kind := .idleReward, rewards := o.rewards ++ [r] }).heap[id]? = some { o with kind := .idleReward, rewards := o.rewards ++ [r] } := by
      simp [FWorld.setObs, hlt]
    exact ⟨_, r, hget, rfl, hk.symm, fun h => by rw [hk] at h; cases h⟩

/-- folding the callbacks over a duplicate-free subscriber list: an observer in the list is called exactly once -/
theorem fold_callUpdate_reward (x : SOp) : ∀ (l : List Nat) (w : FWorld) (id : Nat) (o : FObs), l.Nodup → id ∈ l →
    w.heap[id]? = some o → (o.kind = .makespanReward ∨ o.kind = .idleReward) →
    ∃ o' r, (l.foldl (fun w i => w.callUpdate x i) w).heap[id]? = some o' ∧ o'.rewards = o.rewards ++ [r] ∧
      (o.kind = .makespanReward → r = o.curMakespan - max o.curMakespan x.end_)
  | [], _, _, _, _, h, _, _ => by cases h
  | a :: t, w, id, o, hnd, hmem, ho, hk => by
    simp only [List.foldl_cons]
    rw [List.nodup_cons] at hnd
    by_cases ha : a = id
    · subst ha
      obtain ⟨o', r, ho', hr, hk', hm⟩ := callUpdate_reward w x a o ho hk
      -- the remaining callbacks do not touch it
      have hrest : ∀ (l : List Nat) (w' : FWorld), a ∉ l → (l.foldl (fun w i => w.callUpdate x i) w').heap[a]? = w'.heap[a]? := by
        intro l
        induction l with
        | nil => intro _ _; rfl
        | cons b l ih =>
          intro w' hn
          simp only [List.foldl_cons]
          rw [ih _ (fun h => hn (by simp [h])), (callUpdate_other w' x b a (fun h => hn (by simp [h]))).1]
      exact ⟨o', r, by rw [hrest t _ hnd.1]; exact ho', hr, fun h => (hm h).1⟩
    · have hmem' : id ∈ t := by
        rcases List.mem_cons.1 hmem with h | h
        · exact absurd h.symm ha
        · exact h
      have ho2 : (w.callUpdate x a).heap[id]? = some o := by rw [(callUpdate_other w x a id ha).1]; exact ho
      exact fold_callUpdate_reward x t _ id o hnd.2 hmem' ho2 hk

end JS

namespace JS

/-- subscriber list well-formed: no duplicates, all in the heap -/
structure SubsOK (w : FWorld) : Prop where
  nodup : w.subs.Nodup
  valid : ∀ id ∈ w.subs, id < w.heap.length

theorem subsOK_init (c : Cfg) : SubsOK (FWorld.init c) := ⟨by simp [FWorld.init], by simp [FWorld.init]⟩

theorem subsOK_push {w : FWorld} (h : SubsOK w) (o : FObs) : SubsOK (w.push o).1 := by
  constructor
  · simp only [FWorld.push]
    rw [List.nodup_append]
    refine ⟨h.nodup, by simp, ?_⟩
    intro a ha b hb
    simp only [List.mem_singleton] at hb
    have := h.valid a ha; omega
  · intro id hid
    simp only [FWorld.push, List.mem_append, List.mem_singleton, List.length_append, List.length_singleton] at hid ⊢
    rcases hid with h1 | h1
    · have := h.valid id h1; omega
    · omega

theorem subsOK_setObs {w : FWorld} (h : SubsOK w) (id : Nat) (o : FObs) : SubsOK (w.setObs id o) :=
  ⟨h.nodup, fun i hi => by simp only [FWorld.setObs, List.length_set]; exact h.valid i hi⟩

/-- **C13 / C18 (the step reward is the reward emitted for that step).** If the reward observer is subscribed, an
accepted dispatch on the feature world appends exactly one reward to it; for the makespan reward that reward is the
old makespan minus the new one. `Env.step` returns exactly this last reward. -/
theorem dispatch_appends_one_reward (w : FWorld) (hs : SubsOK w) (rew : Nat) (o : FObs) (ho : w.heap[rew]? = some o)
    (hk : o.kind = .makespanReward ∨ o.kind = .idleReward) (hsub : rew ∈ w.subs) (j p : Nat) (m : Option Int)
    (w' : FWorld) (hd : w.dispatch j p m = (w', true)) (hv : Valid w.cfg.I) (hc : CInv w.cfg.I w.s) :
    ∃ o' r, w'.heap[rew]? = some o' ∧ o'.rewards = o.rewards ++ [r] ∧ o'.rewards.getLast? = some r := by
  unfold FWorld.dispatch at hd
  cases hdr : dispatchReq w.cfg.I w.s j p m with
  | error e => rw [hdr] at hd; cases hd
  | ok s' =>
    rw [hdr] at hd
    simp only at hd
    obtain ⟨mm, op, hop, _, hdd⟩ := dispatchReq_ok hdr
    obtain ⟨op', hsp⟩ := dispatch_ok hdd
    have hop' := hsp.hop
    rw [hop] at hop'; cases hop'
    have hfind := find_new_entry hc (hv j p op hop).2.2 hsp
    rw [hfind] at hd
    simp only [Prod.mk.injEq, and_true] at hd
    subst hd
    obtain ⟨o', r, h1, h2, _⟩ := fold_callUpdate_reward ⟨j, p, mm, startTime w.s j mm, op.dur⟩ w.subs
      { w with s := s' } rew o hs.nodup hsub ho hk
    exact ⟨o', r, h1, h2, by rw [h2]; simp⟩

end JS

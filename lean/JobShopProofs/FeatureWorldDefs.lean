import JobShopProofs.FeatPosition
import JobShopProofs.FeatCompleted
import JobShopProofs.FeatEst
import JobShopProofs.FeatMachines
import JobShopProofs.EnvReward
import JobShopProofs.Properties.C06
/-!
# The value invariant of the feature world (definitions)

`ObsVal c s o`: observer `o` reports, for every entity the property speaks about, the value its documentation
defines, recomputed from the instance and the dispatcher state `s` alone (`FeatureSpecs`).  `FInv w`: the feature
world `w` is well shaped, its subscriber list is duplicate free, its dispatcher state is reachable, and every
subscribed observer satisfies `ObsVal` for the current state.  `FeatureWorld` proves `FInv` for every world reachable
by constructing observers on the fresh dispatcher and then running any sequence of dispatch requests and resets.
-/
namespace JS

structure ObsVal (c : Cfg) (s : State) (o : FObs) : Prop where
  ready : o.kind = .isReady → ∀ ft ∈ o.fts, o.col ft = indicator (numEntities c.I ft) (readyIds c s ft)
  estM : o.kind = .earliestStart → EstOK c.I s o.est
  estOps : o.kind = .earliestStart → FT.operations ∈ o.fts → ∀ r ∈ unscheduledPure c.I s,
    (o.col .operations).getD (opId c.I r) 0 = estSpec c.I s r - currentTimePure c s
  estMach : o.kind = .earliestStart → FT.machines ∈ o.fts → ∀ m, m < numMachines c.I →
    (o.col .machines).getD m 0 =
      ((((unscheduledPure c.I s).filter (onMachine c.I m)).map (estSpec c.I s)).min?).getD 0 - currentTimePure c s
  estJobs : o.kind = .earliestStart → FT.jobs ∈ o.fts → ∀ j, j < c.I.length →
    s.jobIdx.getD j 0 < (c.I.getD j []).length →
    (o.col .jobs).getD j 0 = estSpec c.I s (j, s.jobIdx.getD j 0) - currentTimePure c s
  durOps : o.kind = .duration → FT.operations ∈ o.fts → DurOpsOK c.I s (o.col .operations)
  durJobs : o.kind = .duration → FT.jobs ∈ o.fts → o.col .jobs = durJobsSpec c.I s
  durMach : o.kind = .duration → NonFlexG c.I → FT.machines ∈ o.fts → o.col .machines = durMachSpec c.I s
  schOps : o.kind = .isScheduled → FT.operations ∈ o.fts → o.col .operations = schedOpsSpec c.I s
  schMach : o.kind = .isScheduled → FT.machines ∈ o.fts → o.col .machines = ongoingMachSpec c s
  schJobs : o.kind = .isScheduled → FT.jobs ∈ o.fts → o.col .jobs = ongoingJobsSpec c s
  pos : o.kind = .positionInJob → FT.operations ∈ o.fts → PosSpecOK c.I s (o.col .operations)
  remJobs : o.kind = .remainingOps → FT.jobs ∈ o.fts → o.col .jobs = remJobsSpec c.I s
  remMach : o.kind = .remainingOps → (NonFlexG c.I ∨ s = init c.I) → FT.machines ∈ o.fts →
    o.col .machines = remMachSpec c.I s
  cmpOps : o.kind = .isCompleted → FT.operations ∈ o.fts → o.col .operations = complOpsSpec c s
  cmpJobs : o.kind = .isCompleted → FT.jobs ∈ o.fts →
    o.remJob = remJobsSpec c.I s ∧ o.col .jobs = complJobsSpec c.I s
  cmpMach : o.kind = .isCompleted → FT.machines ∈ o.fts →
    o.remMach = remMachSpec c.I s ∧ o.col .machines = complMachSpec c.I s
  unsched : o.kind = .unscheduled → o.deques = dequesSpec c.I s

/-- every single-column feature observer has one column of the right length per observed feature type -/
def ShapeOK (w : FWorld) : Prop :=
  ∀ (k : Nat) (o : FObs), w.heap[k]? = some o → o.kind.single = true → o.Shaped w.cfg.I

def ValOK (w : FWorld) : Prop := ∀ id ∈ w.subs, ∀ o, w.heap[id]? = some o → ObsVal w.cfg w.s o

structure FInv (w : FWorld) : Prop where
  shape : ShapeOK w
  subs : SubsOK w
  reach : ∃ evs : List Ev, w.s = run w.cfg evs
  val : ValOK w

/-- events that construct an observer -/
def FEv.isCtor : FEv → Bool
  | .construct _ _ | .composite _ | .residual _ _ _ => true
  | _ => false

end JS

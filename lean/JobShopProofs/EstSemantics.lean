import JobShopProofs.FeatEst
import JobShopProofs.Reach
/-!
# Semantics of `estSpec`: the "earliest possible start" really is one

`estSpec I s r` (defined by the recursion `estChain`) is a lower bound on the start time that the operation
`r`, unscheduled in `s`, gets in ANY continuation of the current history (`est_lower_bound`), and for the next
operation of each job it is attained by dispatching it now on its earliest free eligible machine
(`est_next_attained`).
-/
namespace JS

/-- run a list of core dispatch requests `(j, p, m)`, ignoring the rejected ones -/
def runReqs (I : Instance) (s : State) (h : List (Nat × Nat × Nat)) : State :=
  h.foldl (fun s r => match dispatch I s r.1 r.2.1 r.2.2 with | .ok s' => s' | .error _ => s) s

/-- the time the earliest eligible machine of `op` is free, as of state `s` -/
def minFree (s : State) (op : Op) : Int := ((op.machines.map fun m => s.machNext.getD m 0).min?).getD 0

theorem minFree_le (s : State) (op : Op) (m : Nat) (hm : m ∈ op.machines) :
    minFree s op ≤ s.machNext.getD m 0 := by
  have hne : (op.machines.map fun m => s.machNext.getD m 0) ≠ [] := by
    intro h; rw [List.map_eq_nil_iff] at h; rw [h] at hm; cases hm
  obtain ⟨v, hv, _, hle⟩ := min?_spec _ hne
  unfold minFree
  rw [hv]
  exact hle _ (List.mem_map.2 ⟨m, hm, rfl⟩)

theorem minFree_attained (s : State) (op : Op) (hne : op.machines ≠ []) :
    ∃ m ∈ op.machines, s.machNext.getD m 0 = minFree s op := by
  have hne' : (op.machines.map fun m => s.machNext.getD m 0) ≠ [] := by
    intro h; rw [List.map_eq_nil_iff] at h; exact hne h
  obtain ⟨v, hv, hmem, _⟩ := min?_spec _ hne'
  obtain ⟨m, hm, hmv⟩ := List.mem_map.1 hmem
  refine ⟨m, hm, ?_⟩
  unfold minFree
  rw [hv, hmv]; rfl

/-! ## the recursion behind `estChain` / `estSpec` -/

theorem estChain_getD_zero (s : State) (ops : List Op) (acc : Int) (a : Op) (h : ops[0]? = some a) :
    (estChain s ops acc).getD 0 0 = max acc (minFree s a) := by
  cases ops with
  | nil => simp at h
  | cons op rest =>
    simp only [List.getElem?_cons_zero, Option.some.injEq] at h
    subst h
    rfl

theorem estChain_getD_succ (s : State) : ∀ (ops : List Op) (acc : Int) (k : Nat) (a b : Op),
    ops[k]? = some a → ops[k+1]? = some b →
    (estChain s ops acc).getD (k+1) 0 = max ((estChain s ops acc).getD k 0 + a.dur) (minFree s b)
  | [], _, _, _, _, h, _ => by simp at h
  | op :: rest, acc, 0, a, b, ha, hb => by
    simp only [List.getElem?_cons_zero, Option.some.injEq] at ha
    subst ha
    simp only [Nat.zero_add, List.getElem?_cons_succ] at hb
    have h0 := estChain_getD_zero s rest (max acc (minFree s op) + op.dur) b hb
    simp only [estChain, List.getD_cons_succ, List.getD_cons_zero]
    exact h0
  | op :: rest, acc, k+1, a, b, ha, hb => by
    simp only [List.getElem?_cons_succ] at ha hb
    have ih := estChain_getD_succ s rest (max acc (minFree s op) + op.dur) k a b ha hb
    simp only [estChain, List.getD_cons_succ]
    exact ih

theorem getOp_eq_getD (I : Instance) (j p : Nat) : getOp I j p = (I.getD j [])[p]? := by
  unfold getOp
  simp only [List.getD_eq_getElem?_getD]
  cases I[j]? <;> simp

/-- the next operation of a job can start when the job is ready and its earliest eligible machine is free -/
theorem estSpec_next (I : Instance) (s : State) (j : Nat) (op : Op)
    (hop : getOp I j (s.jobIdx.getD j 0) = some op) :
    estSpec I s (j, s.jobIdx.getD j 0) = max (s.jobNext.getD j 0) (minFree s op) := by
  unfold estSpec
  simp only [Nat.sub_self]
  apply estChain_getD_zero
  rw [List.getElem?_drop, Nat.add_zero, ← getOp_eq_getD]
  exact hop

/-- a later operation can start when its predecessor, started as early as possible, has ended and its earliest
eligible machine (as free as it is now) is free -/
theorem estSpec_succ (I : Instance) (s : State) (j p : Nat) (a b : Op) (hp : s.jobIdx.getD j 0 ≤ p)
    (ha : getOp I j p = some a) (hb : getOp I j (p+1) = some b) :
    estSpec I s (j, p+1) = max (estSpec I s (j, p) + a.dur) (minFree s b) := by
  unfold estSpec
  simp only
  have e : p + 1 - s.jobIdx.getD j 0 = (p - s.jobIdx.getD j 0) + 1 := by omega
  rw [e]
  apply estChain_getD_succ
  · rw [List.getElem?_drop, ← getOp_eq_getD]
    have : s.jobIdx.getD j 0 + (p - s.jobIdx.getD j 0) = p := by omega
    rw [this]; exact ha
  · rw [List.getElem?_drop, ← getOp_eq_getD]
    have : s.jobIdx.getD j 0 + (p - s.jobIdx.getD j 0 + 1) = p + 1 := by omega
    rw [this]; exact hb

/-! ## the invariant of every continuation of `s` -/

/-- what every state `t` reachable from `s` satisfies, relative to `s` -/
structure Fut (I : Instance) (s t : State) : Prop where
  cinv : CInv I t
  mN : ∀ m, s.machNext.getD m 0 ≤ t.machNext.getD m 0
  jN : ∀ j, s.jobNext.getD j 0 ≤ t.jobNext.getD j 0
  idx : ∀ j, s.jobIdx.getD j 0 ≤ t.jobIdx.getD j 0
  lb : ∀ x ∈ t.sched.flatten, s.jobIdx.getD x.job 0 ≤ x.pos → estSpec I s (x.job, x.pos) ≤ x.start
  jEnd : ∀ j p a, getOp I j p = some a → s.jobIdx.getD j 0 ≤ p → t.jobIdx.getD j 0 = p + 1 →
      estSpec I s (j, p) + a.dur ≤ t.jobNext.getD j 0

theorem fut_refl {I : Instance} {s : State} (hc : CInv I s) : Fut I s s := by
  refine ⟨hc, fun _ => Int.le_refl _, fun _ => Int.le_refl _, fun _ => Nat.le_refl _, ?_, ?_⟩
  · intro x hx hle
    obtain ⟨a, hr, ha, _⟩ := hc.abs
    have := ha.sched_lt x (hr.sched.mem_iff.2 hx)
    rw [hr.idx] at this
    omega
  · intro j p a _ h1 h2; omega

theorem fut_step {I : Instance} (hv : Valid I) {s t t' : State} {j p m : Nat} {op : Op}
    (hf : Fut I s t) (hd : DispSpec I t t' j p m op) : Fut I s t' := by
  have hdur : 0 ≤ op.dur := (hv j p op hd.hop).2.2
  have hwf := hf.cinv.wf
  obtain ⟨hM, hI, hN⟩ := dispSpec_vectors hwf hd
  have hmlt := machine_lt I j p m op hd.hop hd.hm
  -- the start of the dispatched operation is at least its `estSpec`
  have hidx_le : s.jobIdx.getD j 0 ≤ p := by have := hf.idx j; rw [hd.hidx] at this; exact this
  have hstart : estSpec I s (j, p) ≤ startTime t j m := by
    have hmf : minFree s op ≤ t.machNext.getD m 0 := Int.le_trans (minFree_le s op m hd.hm) (hf.mN m)
    by_cases hp : p = s.jobIdx.getD j 0
    · subst hp
      rw [estSpec_next I s j op hd.hop]
      have := hf.jN j
      simp only [startTime]; omega
    · obtain ⟨q, rfl⟩ : ∃ q, p = q + 1 := ⟨p - 1, by omega⟩
      obtain ⟨a, ha⟩ := getOp_pred I j q op hd.hop
      rw [estSpec_succ I s j q a op (by omega) ha hd.hop]
      have := hf.jEnd j q a ha (by omega) hd.hidx
      simp only [startTime]; omega
  have hsm : t.machNext.getD m 0 ≤ startTime t j m := by simp only [startTime]; omega
  have hsj : t.jobNext.getD j 0 ≤ startTime t j m := by simp only [startTime]; omega
  refine ⟨cinv_dispatch hdur hf.cinv hd, ?_, ?_, ?_, ?_, ?_⟩
  · intro k
    rw [hM k]
    have := hf.mN k
    by_cases hk : k = m
    · subst hk; simp only [↓reduceIte]; omega
    · simp only [hk, ↓reduceIte]; exact this
  · intro k
    rw [hN k]
    have := hf.jN k
    by_cases hk : k = j
    · subst hk; simp only [↓reduceIte]; omega
    · simp only [hk, ↓reduceIte]; exact this
  · intro k
    rw [hI k]
    have := hf.idx k
    by_cases hk : k = j
    · subst hk; simp only [↓reduceIte]; omega
    · simp only [hk, ↓reduceIte]; exact this
  · intro x hx hle
    have hperm := flatten_modify_perm t.sched m (⟨j, p, m, startTime t j m, op.dur⟩ : SOp)
      (by rw [hwf.lenS]; exact hmlt)
    rw [hd.eq] at hx
    simp only at hx
    rw [hperm.mem_iff, List.mem_append, List.mem_singleton] at hx
    rcases hx with hx | rfl
    · exact hf.lb x hx hle
    · exact hstart
  · intro k q a ha hle hk
    rw [hN k]
    rw [hI k] at hk
    by_cases hkj : k = j
    · subst hkj
      simp only [↓reduceIte] at hk ⊢
      have hq : p = q := by omega
      subst hq
      rw [hd.hop] at ha
      cases ha
      omega
    · simp only [hkj, ↓reduceIte] at hk ⊢
      exact hf.jEnd k q a ha hle hk

theorem fut_runReqs {I : Instance} (hv : Valid I) {s : State} (h : List (Nat × Nat × Nat)) :
    ∀ {t : State}, Fut I s t → Fut I s (runReqs I t h) := by
  induction h with
  | nil => intro t hf; exact hf
  | cons r rest ih =>
    intro t hf
    unfold runReqs
    simp only [List.foldl_cons]
    cases hd : dispatch I t r.1 r.2.1 r.2.2 with
    | error e => exact ih hf
    | ok t' =>
      obtain ⟨op, hspec⟩ := dispatch_ok hd
      exact ih (fut_step hv hf hspec)

/-! ## the targets -/

/-- the tracking vectors only grow along accepted dispatches (durations ≥ 0) -/
theorem vectors_mono {I : Instance} (hv : Valid I) {s : State} (hc : CInv I s) (h : List (Nat × Nat × Nat)) :
    (∀ m, s.machNext.getD m 0 ≤ (runReqs I s h).machNext.getD m 0) ∧
    (∀ j, s.jobNext.getD j 0 ≤ (runReqs I s h).jobNext.getD j 0) ∧ CInv I (runReqs I s h) :=
  have hf := fut_runReqs hv h (fut_refl hc)
  ⟨hf.mN, hf.jN, hf.cinv⟩

/-- **lower bound**: whatever is dispatched from now on, an operation that is unscheduled now never starts before
`estSpec` -/
theorem est_lower_bound {I : Instance} (hv : Valid I) {s : State} (hc : CInv I s) (h : List (Nat × Nat × Nat))
    (r : OpRef) (hr : r ∈ unscheduledPure I s) (x : SOp) (hx : x ∈ (runReqs I s h).sched.flatten)
    (hxr : x.job = r.1 ∧ x.pos = r.2) : estSpec I s r ≤ x.start := by
  have hf := fut_runReqs hv h (fut_refl hc)
  have hle := (mem_unsched_iff.1 hr).2.1
  have := hf.lb x hx (by rw [hxr.1, hxr.2]; exact hle)
  rw [hxr.1, hxr.2] at this
  exact this

/-- **attained** for the next operation of a job: dispatching it now on its earliest free eligible machine starts it
exactly at `estSpec` -/
theorem est_next_attained {I : Instance} (hv : Valid I) {s : State} (hc : CInv I s) (j : Nat) (op : Op)
    (hop : getOp I j (s.jobIdx.getD j 0) = some op) :
    ∃ m ∈ op.machines, ∃ s', dispatch I s j (s.jobIdx.getD j 0) m = .ok s' ∧
      startTime s j m = estSpec I s (j, s.jobIdx.getD j 0) := by
  obtain ⟨m, hm, hmin⟩ := minFree_attained s op (hv _ _ op hop).1
  obtain ⟨s', hs'⟩ := dispatch_accepts hc hop rfl hm
  refine ⟨m, hm, s', hs', ?_⟩
  rw [estSpec_next I s j op hop, ← hmin]
  simp only [startTime]
  omega

end JS

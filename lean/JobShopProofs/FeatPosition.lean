import JobShopProofs.FeatureSpecs
/-!
# PositionInJobObserver and DurationObserver (operation level) against their specifications

`positionInit_spec` / `positionUpdate_spec`: the operation column of `PositionInJobObserver` satisfies `PosSpecOK`
after `initialize_features` in the initial state, and one `update` across an accepted dispatch maps `PosSpecOK` of the
old state to `PosSpecOK` of the new state.  `durationInit_ops` / `durationUpdate_ops`: the same for the operation
column of `DurationObserver` and `DurOpsOK` (the value of an *unscheduled* operation is its duration).
-/
namespace JS

/-! ## folds of `setAt` -/

theorem length_setAt (l : List Int) (i : Nat) (v : Int) : (setAt l i v).length = l.length := by
  simp [setAt]

theorem foldl_setAt_length {α} (f : α → Nat) (v : α → Int) : ∀ (l : List α) (col : List Int),
    (l.foldl (fun col a => setAt col (f a) (v a)) col).length = col.length
  | [], _ => rfl
  | a :: t, col => by
    simp only [List.foldl_cons]
    rw [foldl_setAt_length f v t, length_setAt]

/-- the value at index `k` after a fold of `setAt`s, when all writes to `k` write the same value `x` and either
some write hits `k` or `x` was there before -/
theorem foldl_setAt_getD {α} (f : α → Nat) (v : α → Int) (k : Nat) (x : Int) : ∀ (l : List α) (col : List Int),
    (∀ a ∈ l, f a = k → v a = x) → ((∃ a ∈ l, f a = k) ∨ col.getD k 0 = x) → k < col.length →
    (l.foldl (fun col a => setAt col (f a) (v a)) col).getD k 0 = x
  | [], col, _, h, _ => by
    rcases h with ⟨a, ha, _⟩ | h
    · cases ha
    · exact h
  | a :: t, col, hall, h, hk => by
    simp only [List.foldl_cons]
    apply foldl_setAt_getD f v k x t
    · intro b hb; exact hall b (by simp [hb])
    · by_cases hak : f a = k
      · right
        rw [getD_setAt, if_pos ⟨hak, hk⟩]
        exact hall a (by simp) hak
      · rw [getD_setAt, if_neg (fun h => hak h.1)]
        rcases h with ⟨b, hb, hbk⟩ | h
        · rcases List.mem_cons.1 hb with rfl | hb
          · exact absurd hbk hak
          · exact Or.inl ⟨b, hb, hbk⟩
        · exact Or.inr h
    · rw [length_setAt]; exact hk

/-! ## facts about the unscheduled operations -/

theorem mem_allOps_of_unsched_pos {I : Instance} {s : State} {r : OpRef} (h : r ∈ unscheduledPure I s) :
    r ∈ allOps I := by
  rw [mem_allOps']
  exact ((mem_unscheduledPure I s r).1 h).1

theorem init_jobIdx_getD_pos (I : Instance) (j : Nat) : (init I).jobIdx.getD j 0 = 0 := by
  simp only [init, List.getD_eq_getElem?_getD, List.getElem?_replicate]
  split <;> rfl

/-- an operation that is unscheduled after an accepted dispatch was unscheduled before, is not the dispatched one,
and (other jobs) keeps its job's next index -/
theorem unscheduled_after_dispatch {I : Instance} {s s' : State} {j p m : Nat} {op : Op} (hwf : WF I s)
    (hd : DispSpec I s s' j p m op) {r : OpRef} (h : r ∈ unscheduledPure I s') :
    r ∈ unscheduledPure I s ∧ r ≠ (j, p) ∧
    (r.1 = j → p + 1 ≤ r.2 ∧ s'.jobIdx.getD r.1 0 = p + 1) ∧
    (r.1 ≠ j → s'.jobIdx.getD r.1 0 = s.jobIdx.getD r.1 0) := by
  obtain ⟨_, hji, _⟩ := dispSpec_vectors hwf hd
  rw [mem_unscheduledPure] at h ⊢
  obtain ⟨h1, h2⟩ := h
  rw [hji] at h2
  by_cases hr : r.1 = j
  · rw [if_pos hr] at h2
    refine ⟨⟨h1, ?_⟩, ?_, fun _ => ⟨h2, by rw [hji, if_pos hr]⟩, fun h => absurd hr h⟩
    · rw [hr, hd.hidx]; omega
    · intro he; rw [he] at h2; simp at h2; omega
  · rw [if_neg hr] at h2
    refine ⟨⟨h1, h2⟩, ?_, fun h => absurd h hr, fun _ => by rw [hji, if_neg hr]⟩
    intro he; rw [he] at hr; exact hr rfl

/-! ## PositionInJobObserver -/

theorem positionInit_spec (c : Cfg) (o : FObs) (hw : o.WF) (hft : FT.operations ∈ o.fts)
    (hlen : (o.col .operations).length = numOps c.I) :
    PosSpecOK c.I (init c.I) ((positionInit c (init c.I) o).col .operations) ∧
    (positionInit c (init c.I) o).WF ∧ (positionInit c (init c.I) o).fts = o.fts := by
  have hhas : o.has .operations = true := by simpa [FObs.has] using hft
  unfold positionInit
  simp only [hhas, ↓reduceIte]
  refine ⟨?_, hw.setCol _ _, rfl⟩
  rw [col_setCol_same o .operations _ (hw.has_col hft)]
  constructor
  · rw [foldl_setAt_length (fun r : OpRef => opId c.I r) (fun r : OpRef => (r.2 : Int)), hlen]
  · intro r hr
    have hra := mem_allOps_of_unsched_pos hr
    simp only [posSpec, init_jobIdx_getD_pos]
    have : ((r.2 : Int) - ((0 : Nat) : Int)) = (r.2 : Int) := by simp
    rw [this]
    apply foldl_setAt_getD (fun r : OpRef => opId c.I r) (fun r : OpRef => (r.2 : Int))
    · intro r' hr' he
      have := opId_inj (mem_allOps_of_unsched_pos hr') hra he
      rw [this]
    · exact Or.inl ⟨r, hr, rfl⟩
    · rw [hlen]; exact opId_lt hra

/-- the ids `opIdBase I j + q`, `q < ` the length of job `j`, belong to job `j` only -/
theorem opId_other_job {I : Instance} {j : Nat} {r : OpRef} (hr : r ∈ allOps I) (hne : r.1 ≠ j)
    (h1 : opIdBase I j ≤ opId I r) (h2 : opId I r < opIdBase I j + (I.getD j []).length) : False := by
  have hmem : (j, opId I r - opIdBase I j) ∈ allOps I := by
    rw [mem_allOps', getD_length_of_getOp]
    show opId I r - opIdBase I j < (I.getD j []).length
    omega
  have he : opId I r = opId I (j, opId I r - opIdBase I j) := by
    show opId I r = opIdBase I j + (opId I r - opIdBase I j)
    omega
  have := opId_inj hr hmem he
  exact hne (by rw [this])

theorem positionUpdate_spec (c : Cfg) {s s' : State} {j p m : Nat} {op : Op} (hwf : WF c.I s)
    (hd : DispSpec c.I s s' j p m op) (o : FObs) (hw : o.WF) (hft : FT.operations ∈ o.fts)
    (hspec : PosSpecOK c.I s (o.col .operations)) :
    PosSpecOK c.I s' ((positionUpdate c (newEntry s j p m op) o).col .operations) ∧
    (positionUpdate c (newEntry s j p m op) o).WF ∧ (positionUpdate c (newEntry s j p m op) o).fts = o.fts := by
  have hhas : o.has .operations = true := by simpa [FObs.has] using hft
  unfold positionUpdate
  simp only [hhas, ↓reduceIte, newEntry]
  refine ⟨?_, hw.setCol _ _, rfl⟩
  rw [col_setCol_same o .operations _ (hw.has_col hft)]
  obtain ⟨hlen, hval⟩ := hspec
  have hdrop : (List.range (c.I.getD j []).length).drop (p + 1) =
      List.range' (p + 1) ((c.I.getD j []).length - (p + 1)) := by
    rw [List.range_eq_range', List.drop_range']
    simp
  rw [hdrop]
  have hfold : ∀ (l : List (Nat × Nat)) (col : List Int),
      l.foldl (fun col (x : Nat × Nat) => match x with | (p, k) => setAt col (opId c.I (j, p)) (k : Int)) col =
      l.foldl (fun col (pk : Nat × Nat) => setAt col (opId c.I (j, pk.1)) pk.2) col := fun _ _ => rfl
  rw [hfold]
  constructor
  · rw [foldl_setAt_length (fun pk : Nat × Nat => opId c.I (j, pk.1)) (fun pk : Nat × Nat => (pk.2 : Int)), hlen]
  · intro r hr
    obtain ⟨hrs, _, hsame, hother⟩ := unscheduled_after_dispatch hwf hd hr
    have hra := mem_allOps_of_unsched_pos hr
    have hlt : opId c.I r < (o.col .operations).length := by rw [hlen]; exact opId_lt hra
    have hrlen : r.2 < (c.I.getD r.1 []).length :=
      getD_length_of_getOp.1 ((mem_unscheduledPure c.I s' r).1 hr).1
    rw [renumber_fold c.I j _ (p + 1) 0 (o.col .operations) (opId c.I r)]
    have hid : opId c.I r = opIdBase c.I r.1 + r.2 := rfl
    obtain ⟨j', p'⟩ := r
    simp only at hsame hother hrlen hid
    by_cases hj : j' = j
    · subst hj
      obtain ⟨hp, hidx⟩ := hsame rfl
      rw [if_pos (by rw [hid]; omega)]
      simp only [posSpec, hidx, hid]
      omega
    · rw [if_neg]
      · rw [hval _ hrs]
        simp only [posSpec, hother hj]
      · intro hcon
        exact opId_other_job hra hj (by omega) (by omega)

/-! ## DurationObserver, operation level -/

theorem durationInit_ops (c : Cfg) (s : State) (o : FObs) (hw : o.WF) (hft : FT.operations ∈ o.fts) :
    DurOpsOK c.I s ((durationInit c s o).col .operations) := by
  have h := (assignCols_col o (fun _ ft => durationInitCol c s ft) hw (by intros; rfl) .operations hft).1
  unfold durationInit
  rw [h]
  simp only [durationInitCol]
  constructor
  · rw [List.length_map, length_allOps]
  · intro r hr
    have hra := mem_allOps_of_unsched_pos hr
    rw [List.getD_eq_getElem?_getD, List.getElem?_map, allOps_getElem_opId hra]
    rfl

theorem durationUpdate_ops (c : Cfg) {s s' : State} {j p m : Nat} {op : Op} (hwf : WF c.I s)
    (hd : DispSpec c.I s s' j p m op) (o : FObs) (hw : o.WF) (hft : FT.operations ∈ o.fts)
    (hspec : DurOpsOK c.I s (o.col .operations)) :
    DurOpsOK c.I s' ((durationUpdate c s' (newEntry s j p m op) o).col .operations) := by
  have h := (assignCols_col o (durationUpdateCol c s' (newEntry s j p m op)) hw
    (by
      intro o ft ft' cc hne
      cases ft <;> simp only [durationUpdateCol, col_setCol_other _ _ _ _ hne]) .operations hft).1
  unfold durationUpdate
  rw [h]
  simp only [durationUpdateCol, newEntry]
  obtain ⟨hlen, hval⟩ := hspec
  constructor
  · rw [length_setAt, hlen]
  · intro r hr
    obtain ⟨hrs, hne, _, _⟩ := unscheduled_after_dispatch hwf hd hr
    rw [getD_setAt, if_neg]
    · exact hval r hrs
    · intro hcon
      exact hne (opId_inj (mem_allOps_of_unsched_pos hr) (mem_allOps_of_getOp hd.hop) hcon.1.symm)

end JS

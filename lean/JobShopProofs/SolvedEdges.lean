import JobShopProofs.GraphEdges
import JobShopProofs.Properties.C16
/-!
# C16 — the solved disjunctive graph has exactly the prescribed edges

`build_solved_disjunctive_graph(schedule)`: the job chains with source and sink (conjunctive), then — for every machine —
one edge between each pair of operations that are consecutive on that machine in the schedule, typed disjunctive.  The
machine edges are added last, so a job-consecutive pair that is also machine-consecutive ends up disjunctive.
-/
namespace JS

/-- `x` is immediately followed by `y` on some machine of the schedule -/
def MachNext (s : State) (a b : OpRef) : Prop :=
  ∃ m pre post x y, s.sched.getD m [] = pre ++ x :: y :: post ∧ (x.job, x.pos) = a ∧ (y.job, y.pos) = b

def SolvedEdgeSpec (I : Instance) (s : State) (u v : Nat) (t : EType) : Prop :=
  (∃ a ∈ allOps I, ∃ b ∈ allOps I, u = opId I a ∧ v = opId I b ∧
      ((MachNext s a b ∧ t = .disjunctive) ∨ (¬ MachNext s a b ∧ JobSucc a b ∧ t = .conjunctive))) ∨
  (∃ a ∈ allOps I, a.2 = 0 ∧ u = numOps I ∧ v = opId I a ∧ t = .conjunctive) ∨
  (∃ a ∈ allOps I, (a.1, a.2 + 1) ∉ allOps I ∧ u = opId I a ∧ v = numOps I + 1 ∧ t = .conjunctive)

/-! ## consecutive members of a list -/

theorem mem_zip_tail_iff {α} : ∀ (l : List α) (x y : α),
    (x, y) ∈ l.zip l.tail ↔ ∃ pre post, l = pre ++ x :: y :: post
  | [], x, y => by simp
  | [a], x, y => by
    simp only [List.tail_cons, List.zip_nil_right, List.not_mem_nil, false_iff]
    rintro ⟨pre, post, e⟩
    have := congrArg List.length e
    simp at this
    omega
  | a :: b :: t, x, y => by
    have ih := mem_zip_tail_iff (b :: t) x y
    rw [List.tail_cons] at ih ⊢
    rw [List.zip_cons_cons, List.mem_cons, ih]
    constructor
    · rintro (e | ⟨pre, post, e⟩)
      · simp only [Prod.mk.injEq] at e
        obtain ⟨rfl, rfl⟩ := e
        exact ⟨[], t, rfl⟩
      · exact ⟨a :: pre, post, by rw [e]; rfl⟩
    · rintro ⟨pre, post, e⟩
      cases pre with
      | nil =>
        simp only [List.nil_append, List.cons.injEq] at e
        obtain ⟨rfl, rfl, _⟩ := e
        exact Or.inl rfl
      | cons c pre =>
        simp only [List.cons_append, List.cons.injEq] at e
        exact Or.inr ⟨pre, post, e.2⟩

/-! ## the machine phase -/

/-- the `add_edge` calls of the machine phase of `buildSolved` -/
def machList (I : Instance) (S : List (List SOp)) : List (Nat × Nat) :=
  S.flatMap fun ms => (ms.zip ms.tail).map fun ab => (opId I (ab.1.job, ab.1.pos), opId I (ab.2.job, ab.2.pos))

theorem buildSolved_fold (I : Instance) (s : State) :
    buildSolved I s = (machList I s.sched).foldl (fun g xy => g.addEdge xy.1 xy.2 .disjunctive)
      (addSourceSink I (addConjunctiveEdges I (opNodesGraph I))) := by
  unfold buildSolved machList
  simp only
  rw [List.foldl_flatMap]
  congr 1
  funext g ms
  rw [List.foldl_map]

theorem mem_machList (I : Instance) (S : List (List SOp)) (u v : Nat) :
    (u, v) ∈ machList I S ↔ ∃ m pre post x y, S.getD m [] = pre ++ x :: y :: post ∧
      u = opId I (x.job, x.pos) ∧ v = opId I (y.job, y.pos) := by
  simp only [machList, List.mem_flatMap, List.mem_map, Prod.mk.injEq]
  constructor
  · rintro ⟨ms, hms, ⟨x, y⟩, hxy, rfl, rfl⟩
    obtain ⟨pre, post, e⟩ := (mem_zip_tail_iff ms x y).1 hxy
    obtain ⟨m, hm, rfl⟩ := List.mem_iff_getElem.1 hms
    refine ⟨m, pre, post, x, y, ?_, rfl, rfl⟩
    rw [← e]
    simp [List.getD_eq_getElem?_getD, List.getElem?_eq_getElem hm]
  · rintro ⟨m, pre, post, x, y, e, rfl, rfl⟩
    have hm : m < S.length := by
      apply Classical.byContradiction
      intro hn
      rw [getD_nil_of_le S m (by omega)] at e
      have := congrArg List.length e
      simp at this
    have hget : S.getD m [] = S[m] := by
      simp [List.getD_eq_getElem?_getD, List.getElem?_eq_getElem hm]
    refine ⟨S[m], List.getElem_mem hm, (x, y), ?_, rfl, rfl⟩
    rw [mem_zip_tail_iff]
    exact ⟨pre, post, by rw [← hget, e]⟩

/-- the machine-phase calls, in terms of `MachNext` -/
theorem mem_machList_iff (I : Instance) (s : State) (u v : Nat) :
    (u, v) ∈ machList I s.sched ↔ ∃ a b, MachNext s a b ∧ u = opId I a ∧ v = opId I b := by
  rw [mem_machList]
  constructor
  · rintro ⟨m, pre, post, x, y, e, rfl, rfl⟩
    exact ⟨_, _, ⟨m, pre, post, x, y, e, rfl, rfl⟩, rfl, rfl⟩
  · rintro ⟨a, b, ⟨m, pre, post, x, y, e, rfl, rfl⟩, rfl, rfl⟩
    exact ⟨m, pre, post, x, y, e, rfl, rfl⟩

/-- both operations of a machine-consecutive pair are scheduled entries -/
theorem machNext_mem {s : State} {a b : OpRef} (h : MachNext s a b) :
    (∃ x ∈ s.sched.flatten, (x.job, x.pos) = a) ∧ (∃ y ∈ s.sched.flatten, (y.job, y.pos) = b) := by
  obtain ⟨m, pre, post, x, y, e, ha, hb⟩ := h
  exact ⟨⟨x, mem_getD_flatten _ m x (by rw [e]; simp), ha⟩, ⟨y, mem_getD_flatten _ m y (by rw [e]; simp), hb⟩⟩

/-- every scheduled entry names an operation of the instance -/
def SchedOps (I : Instance) (s : State) : Prop := ∀ x ∈ s.sched.flatten, (x.job, x.pos) ∈ allOps I

theorem schedOps_of_feasible {I : Instance} {s : State} (hf : Feasible I s.sched) : SchedOps I s := by
  intro x hx
  obtain ⟨_, hox, _⟩ := hf.isOp x hx
  exact mem_allOps_of_getOp hox

/-- machine-consecutive operations are operations of the instance -/
theorem machNext_allOps {I : Instance} {s : State} (hf : SchedOps I s) {a b : OpRef} (h : MachNext s a b) :
    a ∈ allOps I ∧ b ∈ allOps I := by
  obtain ⟨⟨x, hx, rfl⟩, ⟨y, hy, rfl⟩⟩ := machNext_mem h
  exact ⟨hf x hx, hf y hy⟩

/-- an operation is never its own machine successor: each operation is scheduled once -/
theorem machNext_irrefl {I : Instance} {s : State} (hf : Feasible I s.sched) (a : OpRef) : ¬ MachNext s a a := by
  rintro ⟨m, pre, post, x, y, e, ha, hb⟩
  have hm : m < s.sched.length := by
    apply Classical.byContradiction
    intro hn
    rw [getD_nil_of_le s.sched m (by omega)] at e
    have := congrArg List.length e
    simp at this
  have hget : s.sched.getD m [] = s.sched[m] := by
    simp [List.getD_eq_getElem?_getD, List.getElem?_eq_getElem hm]
  have hsub : List.Sublist (s.sched.getD m []) s.sched.flatten := by
    rw [hget]; exact List.sublist_flatten_of_mem (List.getElem_mem hm)
  have hnd := (hsub.map (fun x : SOp => (x.job, x.pos))).nodup hf.once
  rw [e] at hnd
  simp only [List.map_append, List.map_cons] at hnd
  have := (List.nodup_append.1 hnd).2.1
  rw [List.nodup_cons] at this
  exact this.1 (by rw [ha, ← hb]; simp)

/-! ## the stages of `buildSolved` -/

theorem opsL_length (I : Instance) : ((List.range (numOps I)).map NodeKind.operation).length = numOps I := by simp

/-- the graph before the machine phase: job chains, source and sink -/
theorem stage_chains (I : Instance) :
    Stage (addSourceSink I (addConjunctiveEdges I (opNodesGraph I)))
      ((List.range (numOps I)).map .operation ++ [.source, .sink])
      (fun u v t => ((u, v) ∈ conjList I ∨ (u, v) ∈ ssList I (numOps I)) ∧ t = .conjunctive) := by
  have h0 := stage_opNodes I
  have hlen := opsL_length I
  have h2 := stage_fold .conjunctive (conjList I) h0 (by
    intro xy hxy
    obtain ⟨x, y⟩ := xy
    obtain ⟨a, ha, b, hb, _, rfl, rfl⟩ := (mem_conjList I x y).1 hxy
    rw [hlen]; exact ⟨opId_lt ha, opId_lt hb⟩)
  rw [← addConjunctiveEdges_fold] at h2
  have hn2 : (addConjunctiveEdges I (opNodesGraph I)).nodes.length = numOps I := by
    rw [h2.nodes, hlen]
  have h3 := stage_fold .conjunctive (ssList I (numOps I)) (stage_addNode (stage_addNode h2 .source) .sink) (by
    intro xy hxy
    obtain ⟨x, y⟩ := xy
    simp only [List.length_append, hlen, List.length_singleton]
    rcases (mem_ssList I _ x y).1 hxy with ⟨a, ha, _, rfl, rfl⟩ | ⟨a, ha, _, rfl, rfl⟩
    · have := opId_lt ha; constructor <;> omega
    · have := opId_lt ha; constructor <;> omega)
  rw [← hn2, ← addSourceSink_fold, hn2] at h3
  rw [List.append_assoc] at h3
  apply stage_congr h3
  intro u v t
  simp only [false_and, false_or]
  constructor
  · rintro (⟨⟨h, rfl⟩, _⟩ | ⟨h, rfl⟩)
    · exact ⟨Or.inl h, rfl⟩
    · exact ⟨Or.inr h, rfl⟩
  · rintro ⟨h | h, rfl⟩
    · by_cases hs : (u, v) ∈ ssList I (numOps I)
      · exact Or.inr ⟨hs, rfl⟩
      · exact Or.inl ⟨⟨h, rfl⟩, hs⟩
    · exact Or.inr ⟨h, rfl⟩

/-- the solved graph of a schedule over the instance's operations as a build stage -/
theorem stage_solved (I : Instance) (s : State) (hf : SchedOps I s) :
    Stage (buildSolved I s) ((List.range (numOps I)).map .operation ++ [.source, .sink]) (SolvedEdgeSpec I s) := by
  have hlen := opsL_length I
  have h := stage_fold .disjunctive (machList I s.sched) (stage_chains I) (by
    intro xy hxy
    obtain ⟨x, y⟩ := xy
    obtain ⟨a, b, hab, rfl, rfl⟩ := (mem_machList_iff I s x y).1 hxy
    obtain ⟨ha, hb⟩ := machNext_allOps hf hab
    have := opId_lt ha
    have := opId_lt hb
    simp only [List.length_append, hlen, List.length_cons, List.length_nil]
    constructor <;> omega)
  rw [← buildSolved_fold] at h
  apply stage_congr h
  intro u v t
  unfold SolvedEdgeSpec
  constructor
  · rintro (⟨⟨hc | hs, rfl⟩, hnm⟩ | ⟨hm, rfl⟩)
    · obtain ⟨a, ha, b, hb, hjs, rfl, rfl⟩ := (mem_conjList I u v).1 hc
      refine Or.inl ⟨a, ha, b, hb, rfl, rfl, Or.inr ⟨?_, hjs, rfl⟩⟩
      intro hmn
      exact hnm ((mem_machList_iff I s _ _).2 ⟨a, b, hmn, rfl, rfl⟩)
    · rcases (mem_ssList I _ u v).1 hs with ⟨a, ha, h0, rfl, rfl⟩ | ⟨a, ha, hl, rfl, rfl⟩
      · exact Or.inr (Or.inl ⟨a, ha, h0, rfl, rfl, rfl⟩)
      · exact Or.inr (Or.inr ⟨a, ha, hl, rfl, rfl, rfl⟩)
    · obtain ⟨a, b, hab, rfl, rfl⟩ := (mem_machList_iff I s u v).1 hm
      obtain ⟨ha, hb⟩ := machNext_allOps hf hab
      exact Or.inl ⟨a, ha, b, hb, rfl, rfl, Or.inl ⟨hab, rfl⟩⟩
  · have hnot : ∀ x y, (x, y) ∈ machList I s.sched → x < numOps I ∧ y < numOps I := by
      intro x y hxy
      obtain ⟨a, b, hab, rfl, rfl⟩ := (mem_machList_iff I s x y).1 hxy
      obtain ⟨ha, hb⟩ := machNext_allOps hf hab
      exact ⟨opId_lt ha, opId_lt hb⟩
    rintro (⟨a, ha, b, hb, rfl, rfl, (⟨hmn, rfl⟩ | ⟨hnmn, hjs, rfl⟩)⟩ | ⟨a, ha, h0, rfl, rfl, rfl⟩ |
      ⟨a, ha, hl, rfl, rfl, rfl⟩)
    · exact Or.inr ⟨(mem_machList_iff I s _ _).2 ⟨a, b, hmn, rfl, rfl⟩, rfl⟩
    · refine Or.inl ⟨⟨Or.inl ((mem_conjList I _ _).2 ⟨a, ha, b, hb, hjs, rfl, rfl⟩), rfl⟩, ?_⟩
      intro hm
      obtain ⟨a', b', hab', e1, e2⟩ := (mem_machList_iff I s _ _).1 hm
      obtain ⟨ha', hb'⟩ := machNext_allOps hf hab'
      have := opId_inj ha ha' e1; subst this
      have := opId_inj hb hb' e2; subst this
      exact hnmn hab'
    · refine Or.inl ⟨⟨Or.inr ((mem_ssList I _ _ _).2 (Or.inl ⟨a, ha, h0, rfl, rfl⟩)), rfl⟩, ?_⟩
      intro hm
      have := (hnot _ _ hm).1
      omega
    · refine Or.inl ⟨⟨Or.inr ((mem_ssList I _ _ _).2 (Or.inr ⟨a, ha, hl, rfl, rfl⟩)), rfl⟩, ?_⟩
      intro hm
      have := (hnot _ _ hm).2
      omega

/-! ## the theorems -/

/-- the edge characterisation for any schedule whose entries are operations of the instance (reachable or not) -/
theorem solved_edges_of_schedOps (I : Instance) (s : State) (hf : SchedOps I s) (u v : Nat) (t : EType) :
    (u, v, t) ∈ (buildSolved I s).edges ↔ SolvedEdgeSpec I s u v t :=
  stage_edges (stage_solved I s hf) u v t

/-- **C16 (solved graph: exactly the prescribed edges, correctly typed).**  Nodes: operations (node id = operation id),
then source `numOps I` and sink `numOps I + 1`.  Between two operations `a`, `b` there is an edge `opId a → opId b` iff
`b` comes right after `a` on some machine of the schedule (then the edge is disjunctive) or — when that is not the case —
`b` is the job successor of `a` (conjunctive).  The source points (conjunctive) to the first operation of every non-empty
job, the last operation of every non-empty job points (conjunctive) to the sink; nothing else. -/
theorem C16_solved_edges (c : Cfg) (hv : Valid c.I) (evs : List Ev) (u v : Nat) (t : EType) :
    (u, v, t) ∈ (buildSolved c.I (run c evs)).edges ↔ SolvedEdgeSpec c.I (run c evs) u v t :=
  solved_edges_of_schedOps c.I (run c evs) (schedOps_of_feasible (C01_feasible c hv evs)) u v t

/-- **C16 (solved graph: nodes).** Operations in id order, then source and sink — for every schedule. -/
theorem C16_solved_nodes (I : Instance) (s : State) :
    (buildSolved I s).nodes = (List.range (numOps I)).map .operation ++ [.source, .sink] := by
  rw [buildSolved_fold, foldl_addEdge_nodes, addSourceSink_nodes, addConjunctiveEdges_nodes, opNodesGraph_nodes]

/-- the solved graph of a reachable schedule has no self-loop -/
theorem C16_solved_no_loop (c : Cfg) (hv : Valid c.I) (evs : List Ev) (u : Nat) (t : EType) :
    (u, u, t) ∉ (buildSolved c.I (run c evs)).edges := by
  have hf := C01_feasible c hv evs
  rw [C16_solved_edges c hv evs]
  rintro (⟨a, ha, b, hb, e1, e2, h⟩ | ⟨a, ha, _, e1, e2, _⟩ | ⟨a, ha, _, e1, e2, _⟩)
  · have := opId_inj ha hb (e1.symm.trans e2); subst this
    rcases h with ⟨hmn, _⟩ | ⟨_, hjs, _⟩
    · exact machNext_irrefl hf a hmn
    · exact jobSucc_ne hjs rfl
  · have := opId_lt ha; omega
  · have := opId_lt ha; omega

/-- every ordered pair of nodes carries at most one edge, with one type -/
theorem C16_solved_edges_nodup (c : Cfg) (hv : Valid c.I) (evs : List Ev) :
    ((buildSolved c.I (run c evs)).edges.map fun e => (e.1, e.2.1)).Nodup :=
  stage_edges_nodup (stage_solved c.I (run c evs) (schedOps_of_feasible (C01_feasible c hv evs)))

end JS

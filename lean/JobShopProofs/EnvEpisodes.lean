import JobShopProofs.ResetFresh
import JobShopProofs.Properties.C18
/-!
# C12, environment clause — every episode of an environment behaves like its first

`Env.make_is_run`: the world of a freshly made environment is the run of a well-formed constructor list.
`C12_env_reset_fresh`: whatever actions were played, `reset` returns the environment `Env.make` built.
`C12_env_episodes_equal`: hence replaying the same actions after a reset gives identical step outputs.
-/
namespace JS

/-- the constructor event of a feature config -/
def featEv (kf : FKind × Option (List FT)) : FEv := .construct kf.1 kf.2

/-- the constructor events `Env.make` performs, given the ids of the feature observers -/
def envCtors (ec : EnvCfg) (ids : List Nat) : List FEv :=
  ec.feats.map featEv ++
    [.composite (some ids), .residual ec.builder ec.rmMach ec.rmJob, .construct ec.reward none, .construct .history none]

theorem ctorsOK_append : ∀ (l1 l2 : List FEv) (w : FWorld), CtorsOK w l1 → CtorsOK (l1.foldl FWorld.step w) l2 →
    CtorsOK w (l1 ++ l2)
  | [], _, _, _, h2 => h2
  | e :: t, l2, w, h1, h2 => by
    obtain ⟨a, b, c, d⟩ := h1
    exact ⟨a, b, c, ctorsOK_append t l2 _ d h2⟩

/-- `constructFeats` is the run of the configs' constructor events, and these are well formed -/
theorem constructFeats_run : ∀ (feats : List (FKind × Option (List FT))) (w : FWorld), FeatsOK feats →
    ∀ w' ids, constructFeats w feats = some (w', ids) →
      w' = (feats.map featEv).foldl FWorld.step w ∧ CtorsOK w (feats.map featEv)
  | [], w, _, w', ids, h => by
    simp only [constructFeats] at h; cases h
    exact ⟨rfl, trivial⟩
  | (k, fts) :: rest, w, hf, w', ids, h => by
    simp only [constructFeats] at h
    by_cases hk : (!k.isFeature || k == .composite) = true
    · rw [if_pos hk] at h; cases h
    · rw [if_neg hk] at h
      rcases hc : w.construct k fts with ⟨w1, oid⟩
      rw [hc] at h
      cases oid with
      | none => simp only at h; cases h
      | some id =>
        simp only at h
        cases hr : constructFeats w1 rest with
        | none => rw [hr] at h; cases h
        | some r =>
          obtain ⟨w2, ids2⟩ := r
          rw [hr] at h
          simp only [Option.some.injEq, Prod.mk.injEq] at h
          obtain ⟨rfl, rfl⟩ := h
          obtain ⟨e2, ok2⟩ := constructFeats_run rest w1 (fun kf hkf => hf kf (by simp [hkf])) w2 ids2 hr
          have hstep : w.step (featEv (k, fts)) = w1 := by
            show (w.construct k fts).1 = w1
            rw [hc]
          simp only [List.map_cons, List.foldl_cons, hstep]
          refine ⟨e2, rfl, ?_, ?_, ?_⟩
          · show FEv.NodupFts (.construct k fts)
            cases fts with
            | none => trivial
            | some l => exact hf (k, some l) (by simp) l rfl
          · intro l hl; cases hl
          · rw [hstep]; exact ok2

/-- the world of a freshly made environment is the run of the constructor events `envCtors`, which are well formed -/
theorem Env.make_is_run' {c : Cfg} {ec : EnvCfg} {e : Env} (hf : FeatsOK ec.feats) (h : Env.make c ec = some e) :
    ∃ ids : List Nat, CtorsOK (FWorld.init c) (envCtors ec ids) ∧ e.w = FWorld.run c (envCtors ec ids) := by
  unfold Env.make at h
  cases h1 : constructFeats (FWorld.init c) ec.feats with
  | none => rw [h1] at h; cases h
  | some r1 =>
    obtain ⟨w1, ids⟩ := r1
    rw [h1] at h
    simp only at h
    obtain ⟨hw1, e1, g1⟩ := constructFeats_ok ec.feats _ (heapOK_init c) hf w1 ids h1
    obtain ⟨r1, ok1⟩ := constructFeats_run ec.feats _ hf w1 ids h1
    rcases h2 : w1.constructComposite (some ids) with ⟨w2, ocomp⟩
    rw [h2] at h
    cases ocomp with
    | none => simp only at h; cases h
    | some comp =>
      simp only at h
      obtain ⟨hw2, e2, _⟩ := constructComposite_ok hw1 ids g1 w2 comp h2
      have hc2 : w2.cfg = c := by rw [e2.cfg, e1.cfg]; rfl
      rcases h3 : w2.constructResidual (build ec.builder c.I) ec.rmMach ec.rmJob with ⟨w3, oupd⟩
      rw [h3] at h
      cases oupd with
      | none => simp only at h; cases h
      | some upd =>
        simp only at h
        by_cases hrw : (ec.reward != .makespanReward && ec.reward != .idleReward) = true
        · rw [if_pos hrw] at h; cases h
        · rw [if_neg hrw] at h
          rcases h4 : w3.construct ec.reward none with ⟨w4, orew⟩
          rw [h4] at h
          cases orew with
          | none => simp only at h; cases h
          | some rew =>
            simp only at h
            rcases h5 : w4.construct .history none with ⟨w5, ohist⟩
            rw [h5] at h
            cases ohist with
            | none => simp only at h; cases h
            | some hid =>
              simp only [Option.some.injEq] at h
              subst h
              have s2 : w1.step (.composite (some ids)) = w2 := by
                show (w1.constructComposite (some ids)).1 = w2
                rw [h2]
              have s3 : w2.step (.residual ec.builder ec.rmMach ec.rmJob) = w3 := by
                show (w2.constructResidual (build ec.builder w2.cfg.I) ec.rmMach ec.rmJob).1 = w3
                rw [hc2, h3]
              have s4 : w3.step (.construct ec.reward none) = w4 := by
                show (w3.construct ec.reward none).1 = w4
                rw [h4]
              have s5 : w4.step (.construct .history none) = w5 := by
                show (w4.construct .history none).1 = w5
                rw [h5]
              refine ⟨ids, ?_, ?_⟩
              · unfold envCtors
                refine ctorsOK_append _ _ _ ok1 ?_
                rw [← r1]
                simp only [CtorsOK, s2, s3, s4, FEv.isCtor, FEv.NodupFts, true_and, and_true]
                refine ⟨?_, ?_, ?_, ?_⟩
                · intro l hl i hi
                  cases hl
                  obtain ⟨q, hq, _⟩ := g1 i hi
                  exact (List.getElem?_eq_some_iff.1 hq).1
                · intro l hl; cases hl
                · intro l hl; cases hl
                · intro l hl; cases hl
              · show w5 = _
                unfold FWorld.run envCtors
                rw [List.foldl_append, ← r1]
                simp only [List.foldl_cons, List.foldl_nil, s2, s3, s4, s5]

/-- the world of a freshly made environment is the run of a well-formed constructor list -/
theorem Env.make_is_run {c : Cfg} {ec : EnvCfg} {e : Env} (hf : FeatsOK ec.feats) (h : Env.make c ec = some e) :
    ∃ ctors : List FEv, CtorsOK (FWorld.init c) ctors ∧ e.w = FWorld.run c ctors := by
  obtain ⟨ids, h1, h2⟩ := Env.make_is_run' hf h
  exact ⟨_, h1, h2⟩

/-- run a list of actions (legal or not) -/
def Env.steps (e : Env) (acts : List (Nat × Int)) : Env := acts.foldl (fun e a => (e.step a.1 a.2).1) e

/-- a step changes only the world, and only through a dispatch request (or not at all) -/
theorem Env.step_world (e : Env) (job : Nat) (machine : Int) :
    (e.step job machine).1 = e ∨ ∃ j p m, (e.step job machine).1 = { e with w := e.w.step (.disp j p m) } := by
  unfold Env.step
  by_cases h1 : job ≥ e.w.cfg.I.length
  · simp only [if_pos h1]; exact Or.inl trivial
  · simp only [if_neg h1]
    by_cases h2 : e.w.s.jobIdx.getD job 0 ≥ (e.w.cfg.I.getD job []).length
    · simp only [if_pos h2]; exact Or.inl trivial
    · simp only [if_neg h2]
      rcases hdd : e.w.dispatch job (e.w.s.jobIdx.getD job 0) (if machine == -1 then none else some machine) with ⟨w', b⟩
      have hw' : e.w.step (.disp job (e.w.s.jobIdx.getD job 0) (if machine == -1 then none else some machine)) = w' := by
        show (e.w.dispatch job (e.w.s.jobIdx.getD job 0) (if machine == -1 then none else some machine)).1 = w'
        rw [hdd]
      cases b with
      | false => exact Or.inl rfl
      | true =>
        simp only
        refine Or.inr ⟨job, e.w.s.jobIdx.getD job 0, (if machine == -1 then none else some machine), ?_⟩
        rw [hw']
        cases ({ e with w := w' } : Env).observation <;> rfl

/-- after any actions the environment is the original one with a world reached by dispatch events -/
theorem Env.steps_world : ∀ (acts : List (Nat × Int)) (e : Env),
    ∃ evs : List FEv, (∀ x ∈ evs, x.isCtor = false) ∧ e.steps acts = { e with w := evs.foldl FWorld.step e.w }
  | [], e => ⟨[], (fun _ hx => nomatch hx), rfl⟩
  | a :: t, e => by
    have hcons : e.steps (a :: t) = ((e.step a.1 a.2).1).steps t := rfl
    rw [hcons]
    rcases Env.step_world e a.1 a.2 with h | ⟨j, p, m, h⟩
    · rw [h]; exact Env.steps_world t e
    · rw [h]
      obtain ⟨evs, hev, heq⟩ := Env.steps_world t { e with w := e.w.step (.disp j p m) }
      refine ⟨.disp j p m :: evs, ?_, ?_⟩
      · intro x hx
        rcases List.mem_cons.1 hx with rfl | hx
        · rfl
        · exact hev x hx
      · rw [heq]; rfl

/-- **every episode starts from the freshly made environment**: whatever actions were played (and however many resets
happened in between), `reset` returns the environment to exactly the state `Env.make` built -/
theorem C12_env_reset_fresh {c : Cfg} {ec : EnvCfg} {e : Env} (hv : Valid c.I) (hf : FeatsOK ec.feats)
    (h : Env.make c ec = some e) (acts : List (Nat × Int)) :
    ((e.steps acts).reset).1 = e := by
  obtain ⟨ctors, hok, hw⟩ := Env.make_is_run hf h
  obtain ⟨evs, hev, heq⟩ := Env.steps_world acts e
  rw [heq]
  show ({ e with w := (evs.foldl FWorld.step e.w).reset } : Env) = e
  have : (evs.foldl FWorld.step e.w).reset = e.w := by
    rw [hw]
    have := C12_world c hv ctors evs hok hev
    unfold FWorld.run at this ⊢
    rw [List.foldl_append] at this
    exact this
  rw [this]

/-- hence any two episodes replaying the same actions produce identical step outputs -/
theorem C12_env_episodes_equal {c : Cfg} {ec : EnvCfg} {e : Env} (hv : Valid c.I) (hf : FeatsOK ec.feats)
    (h : Env.make c ec = some e) (acts1 acts2 : List (Nat × Int)) (a : Nat × Int) :
    (((e.steps acts1).reset).1.steps acts2).step a.1 a.2 = (e.steps acts2).step a.1 a.2 := by
  rw [C12_env_reset_fresh hv hf h acts1]

end JS

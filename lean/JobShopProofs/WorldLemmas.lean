import JobShopModel.World
import JobShopProofs.Reach
/-!
# The notification loop

`notifyAll` threads the dispatcher state through the observers because an observer may query the
dispatcher (and thereby fill its memo).  Under memo coherence every such query returns the pure value, so
the loop is equivalent to the pure `notifyPure`, and the dispatcher changes only in its memo.
-/
namespace JS

/-- what a recorder is guaranteed to see: the pure, from-scratch view of state `s` -/
def snapshotSpec (c : Cfg) (s : State) : Snapshot :=
  { sched := s.sched, machNext := s.machNext, jobIdx := s.jobIdx, jobNext := s.jobNext,
    currentTime := currentTimePure c s, unscheduled := unscheduledPure c.I s }

theorem takeSnapshot_ok (c : Cfg) (s : State) (h : CacheOK c s) :
    (takeSnapshot c s).1 = snapshotSpec c s ∧ CacheOK c (takeSnapshot c s).2 ∧
      ∃ k, (takeSnapshot c s).2 = setCache s k := by
  obtain ⟨hv1, hok1, k1, hk1⟩ := qCurrentTime_ok c s h
  obtain ⟨hv2, hok2, k2, hk2⟩ := qUnscheduled_ok c (qCurrentTime c s).2 hok1
  refine ⟨?_, hok2, ⟨k2, ?_⟩⟩
  · rw [hk1] at hv2
    simp only [takeSnapshot, snapshotSpec, hv1, hk1, hv2, unscheduledPure_setCache]
  · rw [hk1] at hk2
    simp only [takeSnapshot, hk1, hk2, setCache_setCache]

/-- pure meaning of `observer.update(x)` in dispatcher state `s` -/
def Obs.updateSpec (c : Cfg) (s : State) (id : Nat) (x : SOp) (o : Obs) : Obs × List (Nat × Notif) :=
  match o.kind with
  | .history => ({ o with hist := o.hist ++ [x] }, [])
  | .unscheduled => ({ o with deques := popJob o.deques x.job }, [])
  | .makespanReward =>
    ({ o with curMakespan := max o.curMakespan x.end_,
              rewards := o.rewards ++ [o.curMakespan - max o.curMakespan x.end_] }, [])
  | .idleReward =>
    ({ o with rewards := o.rewards ++ [-(idleGap (s.sched.getD x.machine []).dropLast x)] }, [])
  | .recorder => ({ o with log := o.log ++ [.update x (snapshotSpec c s)] }, [(id, .update x (snapshotSpec c s))])

/-- pure meaning of `observer.reset()` -/
def Obs.resetSpec (c : Cfg) (s : State) (id : Nat) (o : Obs) : Obs × List (Nat × Notif) :=
  match o.kind with
  | .history => ({ o with hist := [] }, [])
  | .unscheduled => ({ o with deques := fullDeques c.I }, [])
  | .makespanReward => ({ o with rewards := [], curMakespan := makespan s }, [])
  | .idleReward => ({ o with rewards := [] }, [])
  | .recorder => ({ o with log := o.log ++ [.reset (snapshotSpec c s)] }, [(id, .reset (snapshotSpec c s))])

/-- a call that behaves like the pure `g` on every memo-variant of `s0` -/
def CallOK (c : Cfg) (s0 : State) (f : State → Nat → Obs → Obs × State × List (Nat × Notif))
    (g : Nat → Obs → Obs × List (Nat × Notif)) : Prop :=
  ∀ k id o, CacheOK c (setCache s0 k) →
    (f (setCache s0 k) id o).1 = (g id o).1 ∧ (f (setCache s0 k) id o).2.2 = (g id o).2 ∧
    CacheOK c (f (setCache s0 k) id o).2.1 ∧ ∃ k', (f (setCache s0 k) id o).2.1 = setCache s0 k'

theorem update_callOK (c : Cfg) (s0 : State) (x : SOp) :
    CallOK c s0 (fun s id o => Obs.update c s id x o) (fun id o => Obs.updateSpec c s0 id x o) := by
  intro k id o hok
  cases hk : o.kind <;> simp only [Obs.update, Obs.updateSpec, hk]
  · exact ⟨trivial, trivial, hok, ⟨k, rfl⟩⟩
  · exact ⟨trivial, trivial, hok, ⟨k, rfl⟩⟩
  · exact ⟨trivial, trivial, hok, ⟨k, rfl⟩⟩
  · exact ⟨rfl, trivial, hok, ⟨k, rfl⟩⟩
  · obtain ⟨h1, h2, k', h3⟩ := takeSnapshot_ok c (setCache s0 k) hok
    have hs : snapshotSpec c (setCache s0 k) = snapshotSpec c s0 := by simp [snapshotSpec]
    refine ⟨by rw [h1, hs], by rw [h1, hs], h2, ⟨k', by rw [h3]; rfl⟩⟩

theorem reset_callOK (c : Cfg) (s0 : State) :
    CallOK c s0 (fun s id o => Obs.reset c s id o) (fun id o => Obs.resetSpec c s0 id o) := by
  intro k id o hok
  cases hk : o.kind <;> simp only [Obs.reset, Obs.resetSpec, hk]
  · exact ⟨trivial, trivial, hok, ⟨k, rfl⟩⟩
  · exact ⟨trivial, trivial, hok, ⟨k, rfl⟩⟩
  · exact ⟨rfl, trivial, hok, ⟨k, rfl⟩⟩
  · exact ⟨trivial, trivial, hok, ⟨k, rfl⟩⟩
  · obtain ⟨h1, h2, k', h3⟩ := takeSnapshot_ok c (setCache s0 k) hok
    have hs : snapshotSpec c (setCache s0 k) = snapshotSpec c s0 := by simp [snapshotSpec]
    refine ⟨by rw [h1, hs], by rw [h1, hs], h2, ⟨k', by rw [h3]; rfl⟩⟩

/-- the notification loop without the dispatcher state -/
def notifyPure (g : Nat → Obs → Obs × List (Nat × Notif)) :
    List Nat → List Obs → List (Nat × Notif) → List Obs × List (Nat × Notif)
  | [], heap, tr => (heap, tr)
  | id :: rest, heap, tr =>
    match heap[id]? with
    | none => notifyPure g rest heap tr
    | some o => notifyPure g rest (heap.set id (g id o).1) (tr ++ (g id o).2)

theorem notifyAll_eq_pure {c : Cfg} {s0 : State} {f g} (hfg : CallOK c s0 f g) :
    ∀ (ids : List Nat) (k : Cache) (heap : List Obs) (tr : List (Nat × Notif)), CacheOK c (setCache s0 k) →
      (notifyAll f ids (setCache s0 k) heap tr).2 = notifyPure g ids heap tr ∧
      CacheOK c (notifyAll f ids (setCache s0 k) heap tr).1 ∧
      ∃ k', (notifyAll f ids (setCache s0 k) heap tr).1 = setCache s0 k'
  | [], k, heap, tr, hok => ⟨rfl, hok, ⟨k, rfl⟩⟩
  | id :: rest, k, heap, tr, hok => by
    unfold notifyAll notifyPure
    cases hh : heap[id]? with
    | none => exact notifyAll_eq_pure hfg rest k heap tr hok
    | some o =>
      obtain ⟨h1, h2, h3, k', h4⟩ := hfg k id o hok
      simp only
      rw [h4] at h3 ⊢
      rw [h1, h2]
      exact notifyAll_eq_pure hfg rest k' _ _ h3

/-! ## what the pure loop does -/

theorem notifyPure_length (g) : ∀ (ids : List Nat) (heap : List Obs) (tr), (notifyPure g ids heap tr).1.length = heap.length
  | [], _, _ => rfl
  | id :: rest, heap, tr => by
    unfold notifyPure
    cases heap[id]? with
    | none => exact notifyPure_length g rest heap tr
    | some o => simp only; rw [notifyPure_length g rest]; simp

/-- observers that are not in the list are untouched -/
theorem notifyPure_other (g) : ∀ (ids : List Nat) (heap : List Obs) (tr) (i : Nat), i ∉ ids →
    (notifyPure g ids heap tr).1[i]? = heap[i]?
  | [], _, _, _, _ => rfl
  | id :: rest, heap, tr, i, hi => by
    unfold notifyPure
    have hne : i ≠ id := fun h => hi (by simp [h])
    have hr : i ∉ rest := fun h => hi (by simp [h])
    cases heap[id]? with
    | none => exact notifyPure_other g rest heap tr i hr
    | some o =>
      simp only
      rw [notifyPure_other g rest _ _ i hr, List.getElem?_set_ne (fun h => hne h.symm)]

/-- every listed observer is called exactly once, on its own current value -/
theorem notifyPure_mem (g) : ∀ (ids : List Nat) (heap : List Obs) (tr) (i : Nat), ids.Nodup → i ∈ ids →
    ∀ o, heap[i]? = some o → (notifyPure g ids heap tr).1[i]? = some (g i o).1
  | [], _, _, _, _, hi, _, _ => by simp at hi
  | id :: rest, heap, tr, i, hnd, hi, o, ho => by
    unfold notifyPure
    rw [List.nodup_cons] at hnd
    by_cases hid : i = id
    · subst hid
      simp only [ho]
      rw [notifyPure_other g rest _ _ i hnd.1]
      have hlt : i < heap.length := (List.getElem?_eq_some_iff.1 ho).1
      simp [hlt]
    · have hir : i ∈ rest := by
        rcases List.mem_cons.1 hi with h | h
        · exact absurd h hid
        · exact h
      cases hh : heap[id]? with
      | none => exact notifyPure_mem g rest heap tr i hnd.2 hir o ho
      | some o' =>
        simp only
        exact notifyPure_mem g rest _ _ i hnd.2 hir o
          (by rw [List.getElem?_set_ne (fun h => hid h.symm)]; exact ho)

theorem flatMap_congr' {α β} {f g : α → List β} : ∀ (l : List α), (∀ a ∈ l, f a = g a) → l.flatMap f = l.flatMap g
  | [], _ => rfl
  | a :: t, h => by
    simp only [List.flatMap_cons]
    rw [h a (by simp), flatMap_congr' t (fun b hb => h b (by simp [hb]))]

/-- the calls happen in list order: the trace grows by the calls' entries in that order -/
theorem notifyPure_trace (g) :
    ∀ (ids : List Nat) (heap : List Obs) (tr), ids.Nodup → (∀ id ∈ ids, id < heap.length) →
    (notifyPure g ids heap tr).2 = tr ++ ids.flatMap fun id => match heap[id]? with
      | some o => (g id o).2 | none => []
  | [], _, tr, _, _ => by simp [notifyPure]
  | id :: rest, heap, tr, hnd, hlt => by
    unfold notifyPure
    rw [List.nodup_cons] at hnd
    have hid := hlt id (by simp)
    have hh : heap[id]? = some heap[id] := List.getElem?_eq_getElem hid
    simp only [hh, List.flatMap_cons]
    rw [notifyPure_trace g rest _ _ hnd.2 (by intro i hi; simpa using hlt i (by simp [hi]))]
    rw [List.append_assoc]
    congr 2
    apply flatMap_congr'
    intro i hi
    have hne : i ≠ id := fun h => hnd.1 (h ▸ hi)
    rw [List.getElem?_set_ne (fun h => hne h.symm)]

end JS

import JobShopProofs.EnvInv
/-!
# Every callback, dispatch, reset and constructor preserves the heap invariant
-/
namespace JS

theorem keeps_withEst {I : Instance} {o : FObs} (h : o.Shaped I) (est : List (List Int)) :
    Keeps I o { o with est := est } :=
  ⟨⟨⟨h.wf.keys, h.wf.nodup⟩, h.one⟩, rfl, rfl, rfl, rfl, rfl⟩

/-- recomputing a composite from the current heap -/
theorem setObs_composite {w : FWorld} (hw : HeapOK w) {id : Nat} {o : FObs} (h0 : w.heap[id]? = some o)
    (hk : o.kind = .composite) :
    HeapOK (w.setObs id { o with cols := compositeCols w.heap o.parts, fts := (compositeCols w.heap o.parts).map (·.1) }) ∧
    WExt w (w.setObs id { o with cols := compositeCols w.heap o.parts, fts := (compositeCols w.heap o.parts).map (·.1) }) := by
  apply setObs_ok hw
  · intro o1 h1
    rw [h0] at h1; cases h1
    exact ⟨rfl, rfl, rfl, fun h => by rw [hk] at h; cases h⟩
  · intro o1 h1
    rw [h0] at h1; cases h1
    refine ⟨fun h => ?_, fun h => ?_, fun _ => ?_⟩
    · simp only [hk] at h; cases h
    · simp only [hk] at h; cases h
    · refine ⟨w.heap, rfl, ?_⟩
      intro i hi
      obtain ⟨_, hc, hall⟩ := (hw id o h0).comp hk
      obtain ⟨p, q, _, hq, hs, _, _⟩ := hall i hi
      have hne : id ≠ i := by
        intro heq; subst heq
        rw [h0] at hq; cases hq
        rw [hk] at hs; cases hs
      refine ⟨q, q, hq, ?_, hs, shaped_of_heapOK hw hq hs, rfl⟩
      rw [List.getElem?_set_ne hne]; exact hq

theorem callUpdate_ok {w : FWorld} (hw : HeapOK w) (x : SOp) (id : Nat) :
    HeapOK (w.callUpdate x id) ∧ WExt w (w.callUpdate x id) := by
  unfold FWorld.callUpdate
  cases h0 : w.heap[id]? with
  | none => exact ⟨hw, WExt.refl w⟩
  | some o =>
    simp only
    have hsh : o.kind.single = true → o.Shaped w.cfg.I := fun hs => shaped_of_heapOK hw h0 hs
    split
    · rename_i hk
      exact setObs_keeps hw h0 (by rw [hk]; rfl) (keeps_isReadyFeatures _ _ (hsh (by rw [hk]; rfl)))
    · rename_i hk
      have hs : o.kind.single = true := by rw [hk]; rfl
      have k1 := keeps_withEst (hsh hs) (estCompute w.cfg.I w.s o.est)
      exact setObs_keeps hw h0 hs (k1.trans (keeps_estFeatures _ _ k1.shaped))
    · rename_i hk
      exact setObs_keeps hw h0 (by rw [hk]; rfl) (keeps_durationUpdate _ _ _ (hsh (by rw [hk]; rfl)))
    · rename_i hk
      exact setObs_keeps hw h0 (by rw [hk]; rfl) (keeps_isScheduledUpdate _ _ _ (hsh (by rw [hk]; rfl)))
    · rename_i hk
      exact setObs_keeps hw h0 (by rw [hk]; rfl) (keeps_positionUpdate _ _ (hsh (by rw [hk]; rfl)))
    · rename_i hk
      exact setObs_keeps hw h0 (by rw [hk]; rfl) (keeps_remainingUpdate _ _ (hsh (by rw [hk]; rfl)))
    · rename_i hk
      exact setObs_keeps hw h0 (by rw [hk]; rfl) (keeps_isCompletedUpdate _ _ _ (hsh (by rw [hk]; rfl)))
    · rename_i hk
      exact setObs_composite hw h0 hk
    · rename_i hk
      exact setObs_plain hw h0 ⟨by rw [hk]; rfl, by rw [hk]; simp, by rw [hk]; simp⟩ ⟨rfl, rfl, rfl⟩
    · rename_i hk
      exact setObs_plain hw h0 ⟨by rw [hk]; rfl, by rw [hk]; simp, by rw [hk]; simp⟩ ⟨rfl, rfl, rfl⟩
    · rename_i hk
      exact setObs_plain hw h0 ⟨by rw [hk]; rfl, by rw [hk]; simp, by rw [hk]; simp⟩ ⟨rfl, rfl, rfl⟩
    · rename_i hk
      exact setObs_plain hw h0 ⟨by rw [hk]; rfl, by rw [hk]; simp, by rw [hk]; simp⟩ ⟨rfl, rfl, rfl⟩
    · rename_i hk
      apply setObs_ok hw
      · intro o1 h1
        rw [h0] at h1; cases h1
        exact ⟨rfl, rfl, rfl, fun _ => rfl⟩
      · intro o1 h1
        rw [h0] at h1; cases h1
        obtain ⟨hg, hsz, hg0⟩ := (hw id o h0).res hk
        refine ⟨fun h => ?_, fun _ => ⟨residualUpdate_inv _ _ _ _ hg, residualUpdate_sizeLe _ _ _ _ _ hsz, hg0⟩, fun h => ?_⟩
        · simp only [hk] at h; cases h
        · simp only [hk] at h; cases h

theorem callReset_ok {w : FWorld} (hw : HeapOK w) (id : Nat) :
    HeapOK (w.callReset id) ∧ WExt w (w.callReset id) := by
  unfold FWorld.callReset
  cases h0 : w.heap[id]? with
  | none => exact ⟨hw, WExt.refl w⟩
  | some o =>
    simp only
    have hsh : o.kind.single = true → o.Shaped w.cfg.I := fun hs => shaped_of_heapOK hw h0 hs
    split
    · rename_i hk
      exact setObs_keeps hw h0 (by rw [hk]; rfl) (keeps_isReadyFeatures _ _ (hsh (by rw [hk]; rfl)))
    · rename_i hk
      have hs : o.kind.single = true := by rw [hk]; rfl
      have k1 := keeps_withEst (hsh hs) (estCompute w.cfg.I w.s o.est)
      have k2 := k1.trans (keeps_zeroed (I := w.cfg.I) k1.shaped.wf.nodup)
      exact setObs_keeps hw h0 hs (k2.trans (keeps_estFeatures _ _ k2.shaped))
    · rename_i hk
      have hs : o.kind.single = true := by rw [hk]; rfl
      have k1 := keeps_zeroed (I := w.cfg.I) (hsh hs).wf.nodup
      exact setObs_keeps hw h0 hs (k1.trans (keeps_durationInit _ _ k1.shaped))
    · rename_i hk
      have hs : o.kind.single = true := by rw [hk]; rfl
      exact setObs_keeps hw h0 hs (keeps_zeroed (I := w.cfg.I) (hsh hs).wf.nodup)
    · rename_i hk
      have hs : o.kind.single = true := by rw [hk]; rfl
      have k1 := keeps_zeroed (I := w.cfg.I) (hsh hs).wf.nodup
      exact setObs_keeps hw h0 hs (k1.trans (keeps_positionInit _ _ k1.shaped))
    · rename_i hk
      exact resetRemaining_ok hw ⟨o, h0, hk⟩
    · rename_i hk
      have hs : o.kind.single = true := by rw [hk]; rfl
      have hnd : (o.fts.filter (· != .operations)).Nodup := (hsh hs).wf.nodup.filter _
      obtain ⟨h1, e1, g1⟩ := getRemaining_ok hw _ hnd
      generalize w.getRemaining (o.fts.filter (· != .operations)) = r1 at h1 e1 g1
      obtain ⟨w1, rid⟩ := r1
      simp only at h1 e1 g1 ⊢
      obtain ⟨h2, e2⟩ := resetRemaining_ok h1 g1
      have hk2 : KindAt (w1.resetRemaining rid) id .isCompleted := KindAt.ext ⟨o, h0, hk⟩ (e1.trans e2)
      obtain ⟨h3, e3⟩ := isCompletedInit_ok h2 hk2
      exact ⟨h3, e1.trans (e2.trans e3)⟩
    · rename_i hk
      exact setObs_composite hw h0 hk
    · rename_i hk
      exact setObs_plain hw h0 ⟨by rw [hk]; rfl, by rw [hk]; simp, by rw [hk]; simp⟩ ⟨rfl, rfl, rfl⟩
    · rename_i hk
      exact setObs_plain hw h0 ⟨by rw [hk]; rfl, by rw [hk]; simp, by rw [hk]; simp⟩ ⟨rfl, rfl, rfl⟩
    · rename_i hk
      exact setObs_plain hw h0 ⟨by rw [hk]; rfl, by rw [hk]; simp, by rw [hk]; simp⟩ ⟨rfl, rfl, rfl⟩
    · rename_i hk
      exact setObs_plain hw h0 ⟨by rw [hk]; rfl, by rw [hk]; simp, by rw [hk]; simp⟩ ⟨rfl, rfl, rfl⟩
    · rename_i hk
      apply setObs_ok hw
      · intro o1 h1
        rw [h0] at h1; cases h1
        exact ⟨rfl, rfl, rfl, fun _ => rfl⟩
      · intro o1 h1
        rw [h0] at h1; cases h1
        obtain ⟨_, _, hg0⟩ := (hw id o h0).res hk
        refine ⟨fun h => ?_, fun _ => ⟨hg0, SizeLe.refl _, hg0⟩, fun h => ?_⟩
        · simp only [hk] at h; cases h
        · simp only [hk] at h; cases h

/-- changing the dispatcher state does not touch the heap -/
theorem heapOK_withS {w : FWorld} (hw : HeapOK w) (s : State) : HeapOK { w with s := s } := hw
theorem wext_withS (w : FWorld) (s : State) : WExt w { w with s := s } :=
  ⟨rfl, fun _ o h => ⟨o, h, rfl, rfl, rfl, fun _ => rfl⟩⟩

theorem foldl_ok (f : FWorld → Nat → FWorld) (hf : ∀ w id, HeapOK w → HeapOK (f w id) ∧ WExt w (f w id)) :
    ∀ (l : List Nat) (w : FWorld), HeapOK w → HeapOK (l.foldl f w) ∧ WExt w (l.foldl f w)
  | [], w, h => ⟨h, WExt.refl w⟩
  | a :: t, w, h => by
    simp only [List.foldl_cons]
    obtain ⟨h1, e1⟩ := hf w a h
    obtain ⟨h2, e2⟩ := foldl_ok f hf t _ h1
    exact ⟨h2, e1.trans e2⟩

theorem dispatch_ok' {w : FWorld} (hw : HeapOK w) (j p : Nat) (m : Option Int) :
    HeapOK (w.dispatch j p m).1 ∧ WExt w (w.dispatch j p m).1 := by
  unfold FWorld.dispatch
  cases dispatchReq w.cfg.I w.s j p m with
  | error e => exact ⟨hw, WExt.refl w⟩
  | ok s' =>
    simp only
    cases (s'.sched.flatten.find? fun x => x.job == j && x.pos == p) with
    | none => exact ⟨heapOK_withS hw s', wext_withS w s'⟩
    | some x =>
      simp only
      obtain ⟨h1, e1⟩ := foldl_ok (fun w id => w.callUpdate x id) (fun w id h => callUpdate_ok h x id) w.subs
        { w with s := s' } (heapOK_withS hw s')
      exact ⟨h1, (wext_withS w s').trans e1⟩

theorem reset_ok' {w : FWorld} (hw : HeapOK w) : HeapOK w.reset ∧ WExt w w.reset := by
  unfold FWorld.reset
  obtain ⟨h1, e1⟩ := foldl_ok (fun w id => w.callReset id) (fun w id h => callReset_ok h id) w.subs
    { w with s := JS.init w.cfg.I } (heapOK_withS hw _)
  exact ⟨h1, (wext_withS w _).trans e1⟩

end JS

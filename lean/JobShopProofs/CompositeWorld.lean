import JobShopProofs.ResetFresh
import JobShopProofs.ResidualWorld
/-!
# C11, last clause, on the whole feature world: the composite observer is always the concatenation of its parts

`C11_world_composite`: in every world reached by constructing observers on the fresh dispatcher (helpers created lazily,
nested composites, graph updaters) and then running any dispatch requests and resets, every composite observer holds
the column-wise concatenation of its parts' CURRENT matrices (feature types in order of first appearance), its parts
are earlier observers, and it has one column name per column for every feature type.

Route: the constructed world `w0` satisfies `RF.XInv` (every `reset()` is the identity there, in particular the
composite's), every later world is statically equivalent to it (`RF.SRel`), a reset gives `w0` back (C12), and the
notification loop of a dispatch rewrites the observers in increasing id order, a composite after all its parts.  The
names are set once by the constructor; the number of columns per feature type of every observer never changes.
-/
namespace JS
namespace CW

open RF

/-! ## counting columns -/

/-- number of columns of feature type `ft` -/
def cnt (cols : List (FT × List (List Int))) (ft : FT) : Nat := ((cols.filter (·.1 == ft)).flatMap (·.2)).length

theorem addKey_nodup (acc : List FT) (ft : FT) (h : acc.Nodup) : (addKey acc ft).Nodup := by
  unfold addKey
  split
  · exact h
  · rename_i hc
    rw [List.nodup_append]
    refine ⟨h, by simp, ?_⟩
    intro a ha b hb
    simp only [List.mem_singleton] at hb
    subst hb
    intro e
    subst e
    exact hc (by simpa using ha)

theorem foldl_addKey_nodup : ∀ (fts acc : List FT), acc.Nodup → (fts.foldl addKey acc).Nodup
  | [], _, h => h
  | a :: t, acc, h => by
    simp only [List.foldl_cons]
    exact foldl_addKey_nodup t _ (addKey_nodup acc a h)

theorem orderOf_nodup_aux : ∀ (ftss : List (List FT)) (acc : List FT), acc.Nodup →
    (ftss.foldl (fun acc fts => fts.foldl addKey acc) acc).Nodup
  | [], _, h => h
  | a :: t, acc, h => by
    simp only [List.foldl_cons]
    exact orderOf_nodup_aux t _ (foldl_addKey_nodup a acc h)

theorem orderOf_nodup (ftss : List (List FT)) : (orderOf ftss).Nodup :=
  orderOf_nodup_aux ftss [] List.nodup_nil

/-- the entries of the parts (the observers that exist among `parts`) -/
def partObs (heap : List FObs) (parts : List Nat) : List FObs := parts.filterMap fun i => heap[i]?

/-- the columns the parts contribute for `ft`, in order -/
def partCols (obs : List FObs) (ft : FT) : List (List Int) :=
  obs.flatMap fun o => (o.cols.filter (·.1 == ft)).flatMap (·.2)

theorem compositeCols_eq (heap : List FObs) (parts : List Nat) :
    compositeCols heap parts =
      (orderOf ((partObs heap parts).map fun o => o.cols.map (·.1))).map fun ft => (ft, partCols (partObs heap parts) ft) := by
  unfold compositeCols
  simp only
  rw [compositeCols_order]
  rfl

theorem compositeCols_keys (heap : List FObs) (parts : List Nat) :
    (compositeCols heap parts).map (·.1) = orderOf ((partObs heap parts).map fun o => o.cols.map (·.1)) := by
  rw [compositeCols_eq, List.map_map]
  simp [Function.comp_def]

theorem filter_key_none {β} (ft : FT) : ∀ (l : List (FT × β)), ft ∉ l.map (·.1) → l.filter (·.1 == ft) = []
  | [], _ => rfl
  | a :: t, h => by
    simp only [List.map_cons, List.mem_cons, not_or] at h
    have hb : (a.1 == ft) = false := by
      simp only [beq_eq_false_iff_ne, ne_eq]
      exact fun e => h.1 e.symm
    simp only [List.filter_cons, hb, Bool.false_eq_true, ↓reduceIte]
    exact filter_key_none ft t h.2

theorem filter_map_key {β} (F : FT → β) (ft : FT) : ∀ (l : List FT), l.Nodup →
    (l.map fun t => (t, F t)).filter (·.1 == ft) = if ft ∈ l then [(ft, F ft)] else []
  | [], _ => rfl
  | a :: t, h => by
    rw [List.nodup_cons] at h
    have ih := filter_map_key F ft t h.2
    simp only [List.map_cons, List.filter_cons, List.mem_cons]
    by_cases ha : a = ft
    · subst ha
      have hn : a ∉ t := h.1
      rw [ih]
      simp [hn]
    · have hb : (a == ft) = false := by simpa using ha
      have hne : ¬ ft = a := fun e => ha e.symm
      rw [ih]
      simp [hb, hne]

/-- the composite has, for `ft`, exactly the columns its parts have -/
theorem cnt_compositeCols (heap : List FObs) (parts : List Nat) (ft : FT) :
    cnt (compositeCols heap parts) ft = (partCols (partObs heap parts) ft).length := by
  unfold cnt
  rw [compositeCols_eq, filter_map_key _ ft _ (orderOf_nodup _)]
  split
  · simp
  · rename_i hno
    simp only [List.flatMap_nil, List.length_nil]
    have : partCols (partObs heap parts) ft = [] := by
      unfold partCols
      rw [List.flatMap_eq_nil_iff]
      intro o ho
      have hk : ft ∉ o.cols.map (·.1) := by
        intro hm
        apply hno
        rw [orderOf_mem]
        exact ⟨_, List.mem_map.2 ⟨o, ho, rfl⟩, hm⟩
      rw [filter_key_none ft o.cols hk]
      rfl
    rw [this]
    rfl

/-- the number of `ft` columns of the observer at `i` (0 if there is none) -/
def pcnt (heap : List FObs) (ft : FT) (i : Nat) : Nat :=
  match heap[i]? with
  | some o => cnt o.cols ft
  | none => 0

theorem partCols_length (heap : List FObs) (ft : FT) : ∀ (parts : List Nat),
    (partCols (partObs heap parts) ft).length = (parts.map (pcnt heap ft)).sum
  | [] => rfl
  | a :: t => by
    have ih := partCols_length heap ft t
    unfold partCols partObs at ih ⊢
    simp only [List.filterMap_cons, List.map_cons, List.sum_cons]
    cases ha : heap[a]? with
    | none =>
      simp only [pcnt, ha]
      rw [ih]; omega
    | some o =>
      simp only [List.flatMap_cons, List.length_append, pcnt, ha]
      rw [ih]
      rfl

theorem cnt_composite_sum (heap : List FObs) (parts : List Nat) (ft : FT) :
    cnt (compositeCols heap parts) ft = (parts.map (pcnt heap ft)).sum := by
  rw [cnt_compositeCols, partCols_length]

/-! ## the names clause from `C11_composite_names` -/

theorem names_of_map_eq (ft : FT) : ∀ (L1 : List (FT × List String)) (L2 : List (FT × List (List Int))),
    L1.map (fun x => (x.1, x.2.length)) = L2.map (fun x => (x.1, x.2.length)) → (L2.map (·.1)).Nodup →
    ((L1.find? (·.1 == ft)).map (·.2.length)).getD 0 = cnt L2 ft
  | [], [], _, _ => rfl
  | [], _ :: _, h, _ => by simp at h
  | _ :: _, [], h, _ => by simp at h
  | a :: t, b :: t2, h, hnd => by
    simp only [List.map_cons, List.cons.injEq, Prod.mk.injEq] at h
    obtain ⟨⟨h1, h2⟩, h3⟩ := h
    simp only [List.map_cons, List.nodup_cons] at hnd
    have ih := names_of_map_eq ft t t2 h3 hnd.2
    unfold cnt at ih ⊢
    by_cases hk : a.1 = ft
    · have hb1 : (a.1 == ft) = true := by simpa using hk
      have hb2 : (b.1 == ft) = true := by rw [← h1]; exact hb1
      have hnot : ft ∉ t2.map (·.1) := by rw [← hk, h1]; exact hnd.1
      simp only [List.find?_cons, hb1, List.filter_cons, hb2, ↓reduceIte, Option.map_some, Option.getD_some,
        List.flatMap_cons, List.length_append]
      rw [filter_key_none ft t2 hnot]
      simp [h2]
    · have hb1 : (a.1 == ft) = false := by simpa using hk
      have hb2 : (b.1 == ft) = false := by rw [← h1]; exact hb1
      simp only [List.find?_cons, hb1, List.filter_cons, hb2, Bool.false_eq_true, ↓reduceIte]
      exact ih

/-- the names clause for one observer -/
def NamesOK (o : FObs) : Prop :=
  ∀ ft, ((o.names.find? (·.1 == ft)).map (·.2.length)).getD 0 = cnt o.cols ft

theorem namesOK_new (heap : List FObs) (parts : List Nat) (o : FObs)
    (hne : ∀ i ∈ parts, ∀ p, heap[i]? = some p → ∀ tc ∈ p.cols, tc.2 ≠ [])
    (hn : o.names = compositeNames heap parts) (hc : o.cols = compositeCols heap parts) : NamesOK o := by
  intro ft
  rw [hn, hc]
  apply names_of_map_eq ft _ _ (C11_composite_names heap parts hne)
  rw [compositeCols_keys]
  exact orderOf_nodup _

/-! ## the invariant: every composite is the concatenation of its parts' current matrices -/

def CompInv (w : FWorld) : Prop :=
  ∀ (k : Nat) (o : FObs), w.heap[k]? = some o → o.kind = .composite →
    o.cols = compositeCols w.heap o.parts ∧ o.fts = o.cols.map (·.1)

/-- in the freshly constructed world the composite's `reset()` is the identity -/
theorem compInv_of_xinv {c : Cfg} {w : FWorld} (h : XInv c w []) : CompInv w := by
  intro k o ho hk
  have fx := h.fix k o (by simp) ho
  obtain ⟨_, h2⟩ := (fixO_composite hk).1 fx
  rw [resetLocal_composite _ _ _ hk] at h2
  have e1 := congrArg FObs.cols h2
  have e2 := congrArg FObs.fts h2
  simp only at e1 e2
  refine ⟨e1.symm, ?_⟩
  rw [← e2, ← e1]

theorem parts_lt_of_xinv {c : Cfg} {w : FWorld} (h : XInv c w []) :
    ∀ (k : Nat) (o : FObs), w.heap[k]? = some o → o.kind = .composite → ∀ i ∈ o.parts, i < k := by
  intro k o ho hk i hi
  have fx := h.fix k o (by simp) ho
  exact (((fixO_composite hk).1 fx).1 i hi).1

theorem updObs_composite (c : Cfg) (s : State) (x : SOp) (hp : List FObs) {o : FObs} (hk : o.kind = .composite) :
    updObs c s x hp o = { o with cols := compositeCols hp o.parts, fts := (compositeCols hp o.parts).map (·.1) } := by
  simp only [updObs, hk]

/-- the notification loop: every composite ends up as the concatenation of its parts as they are AFTER the loop -/
theorem compInv_fold {c : Cfg} {w w0 : FWorld} (h : SRel c w w0) (s' : State) (x : SOp) :
    CompInv (w.subs.foldl (fun w id => w.callUpdate x id) { w with s := s' }) := by
  have hsubs : w.subs = List.range w.heap.length := by rw [h.subs, h.full, h.len]
  generalize hW : ({ w with s := s' } : FWorld) = W0
  have hheap : W0.heap = w.heap := by rw [← hW]
  rw [hsubs, ← hheap]
  have hfr := fold_callUpdate_at x (List.range W0.heap.length) W0 List.nodup_range
  -- every entry after the loop, and after a prefix of the loop
  have hat : ∀ n k, k < n → n ≤ W0.heap.length → ∀ o, W0.heap[k]? = some o →
      ((List.range n).foldl (fun w i => w.callUpdate x i) W0).heap[k]? =
        some (updObs W0.cfg W0.s x ((List.range k).foldl (fun w i => w.callUpdate x i) W0).heap o) :=
    fun n k hk _ o ho => RW.fold_range_at x W0 n k hk o ho
  intro k o' ho' hk'
  have hlt : k < W0.heap.length := by rw [← hfr.2.2.2.1]; exact lt_of_get ho'
  have ho : W0.heap[k]? = some W0.heap[k] := List.getElem?_eq_getElem hlt
  generalize W0.heap[k] = o at ho
  rw [hat _ k hlt (Nat.le_refl _) o ho] at ho'
  cases ho'
  have hk : o.kind = .composite := by
    rw [← kind_of_stat (stat_updObs W0.cfg W0.s x _ o)]; exact hk'
  rw [updObs_composite _ _ _ _ hk]
  -- the parts have smaller ids
  have hlt0 : k < w0.heap.length := by rw [← h.len, ← hheap]; exact hlt
  have hparts : ∀ i ∈ o.parts, i < k :=
    (h.ent k o w0.heap[k] (by rw [← hheap]; exact ho) (List.getElem?_eq_getElem hlt0)).2.2 hk
  have hc : compositeCols ((List.range k).foldl (fun w i => w.callUpdate x i) W0).heap o.parts =
      compositeCols ((List.range W0.heap.length).foldl (fun w i => w.callUpdate x i) W0).heap o.parts := by
    apply compositeCols_congr
    intro i hi
    have hik := hparts i hi
    have hi0 : W0.heap[i]? = some W0.heap[i] := List.getElem?_eq_getElem (by omega)
    rw [hat k i hik (by omega) _ hi0, hat _ i (by omega) (Nat.le_refl _) _ hi0]
  exact ⟨hc, rfl⟩

theorem compInv_dispatch {c : Cfg} {w w0 : FWorld} (h : SRel c w w0) (hi : CompInv w) (j p : Nat) (m : Option Int) :
    CompInv (w.dispatch j p m).1 := by
  unfold FWorld.dispatch
  cases hdr : dispatchReq w.cfg.I w.s j p m with
  | error e => exact hi
  | ok s' =>
    simp only
    cases (s'.sched.flatten.find? fun x => x.job == j && x.pos == p) with
    | none => exact hi
    | some x => exact compInv_fold h s' x

/-! ## the number of columns per feature type never changes -/

theorem cnt_shaped {I : Instance} {o : FObs} (h : o.Shaped I) (ft : FT) :
    cnt o.cols ft = if ft ∈ o.fts then 1 else 0 := by
  unfold cnt
  obtain ⟨h1, h2⟩ := shaped_filter_cols h ft
  split
  · rename_i hft
    obtain ⟨c, hc, _⟩ := h1 hft
    rw [hc]; rfl
  · rename_i hft
    rw [h2 hft]; rfl

theorem single_ne_composite {o : FObs} (h : o.kind.single = true) : o.kind ≠ .composite := by
  intro e; rw [e] at h; cases h

/-- static equivalence keeps the columns of the observers that have none to speak of -/
theorem cols_of_stat {o o' : FObs} (h : stat o = stat o') (h1 : o.kind.single = false) (h2 : o.kind ≠ .composite) :
    o.cols = o'.cols := by
  have hk' : o'.kind = o.kind := (kind_of_stat h).symm
  cases hk : o.kind
  case unscheduled =>
    rw [stat_unscheduled hk, stat_unscheduled (hk'.trans hk)] at h; have := congrArg FObs.cols h; exact this
  case history =>
    rw [stat_history hk, stat_history (hk'.trans hk)] at h; have := congrArg FObs.cols h; exact this
  case makespanReward =>
    rw [stat_makespan hk, stat_makespan (hk'.trans hk)] at h; have := congrArg FObs.cols h; exact this
  case idleReward =>
    rw [stat_idle hk, stat_idle (hk'.trans hk)] at h; have := congrArg FObs.cols h; exact this
  case residual =>
    rw [stat_residual hk, stat_residual (hk'.trans hk)] at h; have := congrArg FObs.cols h; exact this
  case composite => exact absurd hk h2
  all_goals (rw [hk] at h1; cases h1)

theorem names_of_stat {o o' : FObs} (h : stat o = stat o') (hk : o.kind = .composite) : o.names = o'.names := by
  have hk' : o'.kind = .composite := (kind_of_stat h).symm.trans hk
  rw [stat_composite hk, stat_composite hk'] at h
  have := congrArg FObs.names h
  exact this

theorem cnt_static {c : Cfg} {w w0 : FWorld} (h : SRel c w w0) (hs : ShapeOK w) (hs0 : ShapeOK w0)
    (hi : CompInv w) (hi0 : CompInv w0) (ft : FT) :
    ∀ (n k : Nat), k < n → ∀ (o o0 : FObs), w.heap[k]? = some o → w0.heap[k]? = some o0 →
      cnt o.cols ft = cnt o0.cols ft := by
  intro n
  induction n with
  | zero => intro k hk; omega
  | succ n ih =>
    intro k hk o o0 ho ho0
    have hseq := h.ent k o o0 ho ho0
    have hkind : o.kind = o0.kind := hseq.kind
    by_cases hsg : o.kind.single = true
    · have hne := single_ne_composite hsg
      rw [cnt_shaped (hs k o ho hsg) ft, cnt_shaped (hs0 k o0 ho0 (hkind ▸ hsg)) ft, fts_of_stat hseq.1 hne]
    · have hsg' : o.kind.single = false := by simpa using hsg
      by_cases hc : o.kind = .composite
      · rw [(hi k o ho hc).1, (hi0 k o0 ho0 (hkind ▸ hc)).1, cnt_composite_sum, cnt_composite_sum,
          ← parts_of_stat hseq.1]
        congr 1
        apply List.map_congr_left
        intro i hi'
        have hik : i < k := hseq.2.2 hc i hi'
        have hlt : i < w.heap.length := Nat.lt_trans hik (lt_of_get ho)
        have hlt0 : i < w0.heap.length := by rw [← h.len]; exact hlt
        have e1 : w.heap[i]? = some w.heap[i] := List.getElem?_eq_getElem hlt
        have e2 : w0.heap[i]? = some w0.heap[i] := List.getElem?_eq_getElem hlt0
        have := ih i (by omega) _ _ e1 e2
        simp only [pcnt, e1, e2]
        exact this
      · rw [cols_of_stat hseq.1 hsg' hc]

/-! ## no observer has a feature type without columns -/

def NoEmpty (o : FObs) : Prop := ∀ tc ∈ o.cols, tc.2 ≠ []

/-- observers without matrices -/
def PlainOK (w : FWorld) : Prop :=
  ∀ (k : Nat) (o : FObs), w.heap[k]? = some o → o.kind.single = false → o.kind ≠ .composite → o.cols = []

theorem noEmpty_all {w : FWorld} (hs : ShapeOK w) (hi : CompInv w)
    (hlt : ∀ (k : Nat) (o : FObs), w.heap[k]? = some o → o.kind = .composite → ∀ i ∈ o.parts, i < k) (hp : PlainOK w) :
    ∀ (n k : Nat), k < n → ∀ (o : FObs), w.heap[k]? = some o → NoEmpty o := by
  intro n
  induction n with
  | zero => intro k hk; omega
  | succ n ih =>
    intro k hk o ho tc htc
    by_cases hsg : o.kind.single = true
    · obtain ⟨ft, cs⟩ := tc
      obtain ⟨c, hc, _⟩ := (hs k o ho hsg).one ft cs htc
      simp [hc]
    · have hsg' : o.kind.single = false := by simpa using hsg
      by_cases hc : o.kind = .composite
      · rw [(hi k o ho hc).1, compositeCols_eq] at htc
        obtain ⟨ft, hft, rfl⟩ := List.mem_map.1 htc
        simp only
        obtain ⟨keys, hkeys, hmem⟩ := (orderOf_mem _ ft).1 hft
        obtain ⟨p, hp', rfl⟩ := List.mem_map.1 hkeys
        obtain ⟨tc', htc', hk1⟩ := List.mem_map.1 hmem
        obtain ⟨i, hi', hio⟩ := List.mem_filterMap.1 hp'
        have hne := ih i (by have := hlt k o ho hc i hi'; omega) p hio tc' htc'
        obtain ⟨col, hcol⟩ := List.exists_mem_of_ne_nil _ hne
        apply List.ne_nil_of_mem (a := col)
        unfold partCols
        rw [List.mem_flatMap]
        refine ⟨p, hp', ?_⟩
        rw [List.mem_flatMap]
        refine ⟨tc', ?_, hcol⟩
        rw [List.mem_filter]
        exact ⟨htc', by simpa using hk1⟩
      · rw [hp k o ho hsg' hc] at htc
        cases htc

/-! ## constructors: old entries are kept as they are, new entries of `construct` / `constructResidual` are no composites -/

/-- what a constructor other than the composite's may add to the heap -/
def NewOK (o : FObs) : Prop := o.kind ≠ .composite ∧ (o.kind.single = false → o.cols = [])

theorem newOK_single {o : FObs} (h : o.kind.single = true) : NewOK o :=
  ⟨single_ne_composite h, fun h' => by rw [h] at h'; cases h'⟩

/-- `w` extends the base world `b`: the entries of `b` are unchanged, the others are `NewOK` -/
structure Ext (b w : FWorld) : Prop where
  len : b.heap.length ≤ w.heap.length
  old : ∀ (k : Nat) (o : FObs), b.heap[k]? = some o → w.heap[k]? = some o
  new : ∀ (k : Nat) (o : FObs), b.heap.length ≤ k → w.heap[k]? = some o → NewOK o

theorem ext_refl (b : FWorld) : Ext b b :=
  ⟨Nat.le_refl _, fun _ _ h => h, fun k o hk h => by have := lt_of_get h; omega⟩

theorem ext_push {b w : FWorld} (h : Ext b w) (o : FObs) (ho : NewOK o) : Ext b (w.push o).1 := by
  refine ⟨by simp only [FWorld.push, List.length_append, List.length_singleton]; have := h.len; omega, ?_, ?_⟩
  · intro k x hx
    exact (FCtor.keep_push w o).keep k x (h.old k x hx)
  · intro k x hk hx
    rcases FCtor.push_get hx with h1 | ⟨_, rfl⟩
    · exact h.new k x hk h1
    · exact ho

theorem ext_set {b w : FWorld} (h : Ext b w) (id : Nat) (o : FObs) (hid : b.heap.length ≤ id) (ho : NewOK o) :
    Ext b (w.setObs id o) := by
  refine ⟨by simp only [FWorld.setObs, List.length_set]; exact h.len, ?_, ?_⟩
  · intro k x hx
    have hlt : k < b.heap.length := lt_of_get hx
    rw [get_setObs_ne w (by omega) o]
    exact h.old k x hx
  · intro k x hk hx
    rcases FCtor.setObs_get hx with ⟨_, rfl⟩ | ⟨_, h1⟩
    · exact ho
    · exact h.new k x hk h1

theorem ext_getUnscheduled {b w : FWorld} (h : Ext b w) : Ext b w.getUnscheduled.1 := by
  unfold FWorld.getUnscheduled
  cases w.findObs .unscheduled [] with
  | some id => exact h
  | none => exact ext_push h _ ⟨by simp, fun _ => rfl⟩

theorem ext_newRemaining {b w : FWorld} (h : Ext b w) (fts : List FT) : Ext b (w.newRemaining fts).1 := by
  rw [FCtor.newRemaining_eq]
  simp only
  have e1 := ext_push h (({ kind := .remainingOps, fts := fts } : FObs).zeroed w.cfg.I) (newOK_single rfl)
  have k1 : KindAt (w.push (({ kind := .remainingOps, fts := fts } : FObs).zeroed w.cfg.I)).1 w.heap.length .remainingOps :=
    RW.kindAt_push w _
  generalize (w.push (({ kind := .remainingOps, fts := fts } : FObs).zeroed w.cfg.I)).1 = w1 at e1 k1
  have e2 := ext_getUnscheduled e1
  obtain ⟨r2, _⟩ := RW.rk_getUnscheduled w1
  generalize w1.getUnscheduled = q at e2 r2
  obtain ⟨w2, uid⟩ := q
  simp only at e2 r2 ⊢
  obtain ⟨o2, ho2, hk2⟩ := RW.kindAt_rk k1 r2
  rw [getD_of_some ho2]
  exact ext_set e2 _ _ h.len (newOK_single (by rw [RW.remainingInit_kind, hk2]; rfl))

theorem ext_getRemaining {b w : FWorld} (h : Ext b w) (need : List FT) : Ext b (w.getRemaining need).1 := by
  unfold FWorld.getRemaining
  cases w.findObs .remainingOps need with
  | some id => exact h
  | none => exact ext_newRemaining h need

theorem ext_isCompletedInit {b w : FWorld} (h : Ext b w) {id : Nat} (hid : b.heap.length ≤ id)
    (hk : KindAt w id .isCompleted) : Ext b (w.isCompletedInit id) := by
  obtain ⟨o0, h0, hk0⟩ := hk
  unfold FWorld.isCompletedInit
  simp only
  rw [getD_of_some h0]
  have e1 : Ext b (w.setObs id (o0.zeroed w.cfg.I)) := ext_set h id _ hid (newOK_single (by
    show o0.kind.single = true
    rw [hk0]; rfl))
  have g1 : KindAt (w.setObs id (o0.zeroed w.cfg.I)) id .isCompleted :=
    ⟨_, FCtor.setObs_get_self h0 _, hk0⟩
  generalize w.setObs id (o0.zeroed w.cfg.I) = w1 at e1 g1
  have e2 := ext_getRemaining e1 ((o0.zeroed w.cfg.I).fts.filter (· != .operations))
  obtain ⟨r2, _⟩ := RW.rk_getRemaining w1 ((o0.zeroed w.cfg.I).fts.filter (· != .operations))
  generalize w1.getRemaining ((o0.zeroed w.cfg.I).fts.filter (· != .operations)) = q at e2 r2
  obtain ⟨w2, rid⟩ := q
  simp only at e2 r2 ⊢
  obtain ⟨o2, ho2, hk2⟩ := RW.kindAt_rk g1 r2
  rw [getD_of_some ho2]
  exact ext_set e2 _ _ hid (newOK_single (by
    show o2.kind.single = true
    rw [hk2]; rfl))

theorem ext_getIsCompleted {b w : FWorld} (h : Ext b w) (need : List FT) : Ext b (w.getIsCompleted need).1 := by
  unfold FWorld.getIsCompleted
  cases w.findObs .isCompleted need with
  | some id => exact h
  | none =>
    simp only
    exact ext_isCompletedInit (ext_push h _ (newOK_single rfl)) h.len (RW.kindAt_push w _)

theorem ext_constructResidual (w : FWorld) (g : Graph) (rm rj : Bool) : Ext w (w.constructResidual g rm rj).1 := by
  unfold FWorld.constructResidual
  by_cases h1 : (w.subs.any fun id => (w.heap[id]?.map (·.kind)) == some FKind.residual) = true
  · rw [if_pos h1]; exact ext_refl w
  · rw [if_neg h1]
    simp only
    generalize ((if rm then [FT.machines] else []) ++ (if rj then [FT.jobs] else [])) = need
    by_cases h2 : need.isEmpty = true
    · rw [if_pos h2]
      exact ext_push (ext_refl w) _ ⟨by simp, fun _ => rfl⟩
    · rw [if_neg h2]
      exact ext_push (ext_getIsCompleted (ext_refl w) need) _ ⟨by simp, fun _ => rfl⟩

theorem ext_pushThen (w : FWorld) (base final : FObs) (hb : base.kind.single = true) (hk : final.kind = base.kind) :
    Ext w ((w.push base).1.setObs (w.push base).2 final) :=
  ext_set (ext_push (ext_refl w) base (newOK_single hb)) _ final (Nat.le_refl _) (newOK_single (by rw [hk]; exact hb))

theorem ext_remainingCtor (w : FWorld) (base : FObs) (hk : base.kind = .remainingOps) :
    Ext w ((w.push base).1.getUnscheduled.1.setObs (w.push base).2
      (remainingInit (w.push base).1.getUnscheduled.1.cfg
        ((w.push base).1.getUnscheduled.1.heap.getD (w.push base).1.getUnscheduled.2 default).deques base)) :=
  ext_set (ext_getUnscheduled (ext_push (ext_refl w) base (newOK_single (by rw [hk]; rfl)))) _ _ (Nat.le_refl _)
    (newOK_single (by rw [RW.remainingInit_kind, hk]; rfl))

theorem ext_construct (w : FWorld) (kind : FKind) (fts : Option (List FT)) : Ext w (w.construct kind fts).1 := by
  cases kind <;> simp only [FWorld.construct]
  all_goals
    repeat' split
    all_goals first
      | exact ext_refl w
      | exact ext_push (ext_refl w) _ ⟨by simp, fun _ => rfl⟩
      | exact ext_push (ext_refl w) _ (newOK_single rfl)
      | exact ext_pushThen w _ _ rfl (RW.isReadyFeatures_kind _ _ _)
      | exact ext_pushThen w _ _ rfl (RW.estFeatures_kind _ _ _)
      | exact ext_pushThen w _ _ rfl (RW.durationInit_kind _ _ _)
      | exact ext_pushThen w _ _ rfl (RW.positionInit_kind _ _ _)
      | exact ext_remainingCtor w _ rfl
      | exact ext_isCompletedInit (ext_push (ext_refl w) _ (newOK_single rfl)) (Nat.le_refl _) (RW.kindAt_push w _)

/-! ## the constructor-time invariant -/

/-- every composite has one name per column; the observers without matrices have none -/
structure CI (w : FWorld) : Prop where
  names : ∀ (k : Nat) (o : FObs), w.heap[k]? = some o → o.kind = .composite → NamesOK o
  plain : PlainOK w

theorem ci_init (c : Cfg) : CI (FWorld.init c) :=
  ⟨fun k o h => by simp [FWorld.init] at h, fun k o h => by simp [FWorld.init] at h⟩

theorem ci_ext {w w' : FWorld} (h : CI w) (e : Ext w w') : CI w' := by
  refine ⟨?_, ?_⟩
  · intro k o ho hk
    by_cases hlt : k < w.heap.length
    · have h1 := e.old k _ (List.getElem?_eq_getElem hlt)
      rw [h1] at ho; cases ho
      exact h.names k _ (List.getElem?_eq_getElem hlt) hk
    · exact absurd hk (e.new k o (by omega) ho).1
  · intro k o ho hs hc
    by_cases hlt : k < w.heap.length
    · have h1 := e.old k _ (List.getElem?_eq_getElem hlt)
      rw [h1] at ho; cases ho
      exact h.plain k _ (List.getElem?_eq_getElem hlt) hs hc
    · exact (e.new k o (by omega) ho).2 hs

theorem ci_comp_core {c : Cfg} {w : FWorld} (h : CI w) (hs : ShapeOK w) (hx : XInv c w []) (ps : List Nat)
    (hps : ∀ i ∈ ps, i < w.heap.length) :
    CI ((w.push { kind := .composite, parts := ps }).1.setObs (w.push { kind := .composite, parts := ps }).2
      { ({ kind := .composite, parts := ps } : FObs) with
        cols := compositeCols (w.push { kind := .composite, parts := ps }).1.heap ps,
        fts := (compositeCols (w.push { kind := .composite, parts := ps }).1.heap ps).map (·.1),
        names := compositeNames (w.push { kind := .composite, parts := ps }).1.heap ps }) := by
  have hne : ∀ i ∈ ps, ∀ p, (w.push { kind := .composite, parts := ps }).1.heap[i]? = some p → ∀ tc ∈ p.cols, tc.2 ≠ [] := by
    intro i hi p hp
    rw [get_push_lt w _ (hps i hi)] at hp
    exact noEmpty_all hs (compInv_of_xinv hx) (parts_lt_of_xinv hx) h.plain (i + 1) i (by omega) p hp
  refine ⟨?_, ?_⟩
  · intro k o ho hk
    rcases FCtor.setObs_get ho with ⟨_, rfl⟩ | ⟨hne', h1⟩
    · exact namesOK_new _ ps _ hne rfl rfl
    · rcases FCtor.push_get h1 with h2 | ⟨h2, _⟩
      · exact h.names k o h2 hk
      · exact absurd h2 hne'
  · intro k o ho hsg hc
    rcases FCtor.setObs_get ho with ⟨_, rfl⟩ | ⟨hne', h1⟩
    · exact absurd rfl hc
    · rcases FCtor.push_get h1 with h2 | ⟨h2, _⟩
      · exact h.plain k o h2 hsg hc
      · exact absurd h2 hne'

theorem ci_constructComposite {c : Cfg} {w : FWorld} (h : CI w) (hs : ShapeOK w) (hx : XInv c w [])
    (parts : Option (List Nat)) (hp : ∀ l, parts = some l → ∀ i ∈ l, i < w.heap.length) :
    CI (w.constructComposite parts).1 := by
  cases parts with
  | some l => exact ci_comp_core h hs hx l (hp l rfl)
  | none =>
    exact ci_comp_core h hs hx (w.subs.filter fun id => match w.heap[id]? with | some o => o.kind.isFeature | none => false)
      (fun i hi => hx.ok.valid i (List.mem_filter.1 hi).1)

theorem ci_step {c : Cfg} {w : FWorld} (h : CI w) (hs : ShapeOK w) (hx : XInv c w []) (e : FEv) (he : e.isCtor = true)
    (hp : ∀ l, e = .composite (some l) → ∀ i ∈ l, i < w.heap.length) : CI (w.step e) := by
  cases e with
  | disp j p m => cases he
  | reset => cases he
  | construct k fts => exact ci_ext h (ext_construct w k fts)
  | composite parts => exact ci_constructComposite h hs hx parts (fun l hl => hp l (by rw [hl]))
  | residual b rm rj => exact ci_ext h (ext_constructResidual w _ rm rj)

theorem ci_ctors {c : Cfg} (hv : Valid c.I) : ∀ (ctors : List FEv) (w : FWorld), w.cfg = c → FInv w → w.s = init c.I →
    XInv c w [] → CI w → CtorsOK w ctors → CI (ctors.foldl FWorld.step w)
  | [], _, _, _, _, _, h, _ => h
  | e :: t, w, hc, hf, hs, hx, h, hok => by
    simp only [List.foldl_cons]
    obtain ⟨h1, h2, h3, h4⟩ := hok
    subst hc
    obtain ⟨f1, f2, f3⟩ := finv_ctor hv hf hs e h1
      (by intro k l he; rw [he] at h2; exact h2)
    exact ci_ctors (c := w.cfg) hv t _ f3 f1 f2 (xinv_step hv hx e h1 h3) (ci_step h hf.shape hx e h1 h3) h4

theorem ctorsOK_flags : ∀ (ctors : List FEv) (w : FWorld), CtorsOK w ctors →
    (∀ e ∈ ctors, e.isCtor = true) ∧ (∀ e ∈ ctors, e.NodupFts)
  | [], _, _ => ⟨fun _ h => (nomatch h), fun _ h => (nomatch h)⟩
  | e :: t, w, hok => by
    obtain ⟨h1, h2, _, h4⟩ := hok
    obtain ⟨i1, i2⟩ := ctorsOK_flags t _ h4
    constructor
    · intro e' he'
      rcases List.mem_cons.1 he' with rfl | h
      · exact h1
      · exact i1 e' h
    · intro e' he'
      rcases List.mem_cons.1 he' with rfl | h
      · exact h2
      · exact i2 e' h

/-! ## dispatch requests and resets -/

theorem comp_events {c : Cfg} (hv : Valid c.I) {w0 : FWorld} (h0 : XInv c w0 []) : ∀ (evs : List FEv) (w : FWorld),
    SRel c w w0 → CompInv w → (∀ e ∈ evs, e.isCtor = false) →
    SRel c (evs.foldl FWorld.step w) w0 ∧ CompInv (evs.foldl FWorld.step w)
  | [], _, h, hi, _ => ⟨h, hi⟩
  | e :: t, w, h, hi, hev => by
    simp only [List.foldl_cons]
    have he := hev e (List.mem_cons_self ..)
    have hrest : ∀ e' ∈ t, e'.isCtor = false := fun e' he' => hev e' (List.mem_cons_of_mem _ he')
    cases e with
    | disp j p m => exact comp_events hv h0 t _ (srel_dispatch h j p m) (compInv_dispatch h hi j p m) hrest
    | reset =>
      have : w.reset = w0 := (reset_lock hv h).trans (reset_fix h0)
      show SRel c (t.foldl FWorld.step w.reset) w0 ∧ CompInv (t.foldl FWorld.step w.reset)
      rw [this]
      exact comp_events hv h0 t _ (srel_of_xinv h0) (compInv_of_xinv h0) hrest
    | construct k fts => simp [FEv.isCtor] at he
    | composite parts => simp [FEv.isCtor] at he
    | residual b rm rj => simp [FEv.isCtor] at he

end CW

/-- **C11 (composite, every reachable world).** After any constructors (helpers created lazily, nested composites) and any
dispatch requests and resets, every composite observer holds the column-wise concatenation of its parts' current matrices,
feature types in order of first appearance; its parts are earlier observers; and it has one column name per column. -/
theorem C11_world_composite (c : Cfg) (hv : Valid c.I) (hF : c.F = none ∨ PosDurI c.I) (ctors evs : List FEv)
    (hok : CtorsOK (FWorld.init c) ctors) (hev : ∀ e ∈ evs, e.isCtor = false)
    (id : Nat) (o : FObs) (ho : (FWorld.run c (ctors ++ evs)).heap[id]? = some o) (hk : o.kind = .composite) :
    let w := FWorld.run c (ctors ++ evs)
    -- the matrices are the concatenation of the parts' current matrices, feature types in order of first appearance
    o.cols = compositeCols w.heap o.parts ∧ o.fts = o.cols.map (·.1) ∧
    -- every part is an earlier observer
    (∀ i ∈ o.parts, i < id) ∧
    -- one name per column, for every feature type
    (∀ ft, ((o.names.find? (·.1 == ft)).map (·.2.length)).getD 0 = ((o.cols.filter (·.1 == ft)).flatMap (·.2)).length) := by
  intro w
  have hx := xinv_run c hv ctors hok
  obtain ⟨hct, hnd⟩ := CW.ctorsOK_flags ctors _ hok
  have hrun : FWorld.run c (ctors ++ evs) = evs.foldl FWorld.step (FWorld.run c ctors) := by
    unfold FWorld.run
    rw [List.foldl_append]
  obtain ⟨hsrel, hcomp⟩ := CW.comp_events hv hx evs _ (RF.srel_of_xinv hx) (CW.compInv_of_xinv hx) hev
  rw [← hrun] at hsrel hcomp
  have hsh : ShapeOK (FWorld.run c (ctors ++ evs)) := (finv_run c hv hF ctors evs hct hnd hev).1.shape
  have hsh0 : ShapeOK (FWorld.run c ctors) := by
    have := (finv_run c hv hF ctors [] hct hnd (fun _ h => by cases h)).1.shape
    rwa [List.append_nil] at this
  have hci : CW.CI (FWorld.run c ctors) :=
    CW.ci_ctors hv ctors (FWorld.init c) rfl (finv_init c).1 (finv_init c).2 (RF.xinv_init c) (CW.ci_init c) hok
  have hlt0 : id < (FWorld.run c ctors).heap.length := by rw [← hsrel.len]; exact RF.lt_of_get ho
  have ho0 : (FWorld.run c ctors).heap[id]? = some (FWorld.run c ctors).heap[id] := List.getElem?_eq_getElem hlt0
  generalize (FWorld.run c ctors).heap[id] = o0 at ho0
  have hseq := hsrel.ent id o o0 ho ho0
  have hk0 : o0.kind = .composite := hseq.kind.symm.trans hk
  refine ⟨(hcomp id o ho hk).1, (hcomp id o ho hk).2, hseq.2.2 hk, ?_⟩
  intro ft
  have h1 := CW.cnt_static hsrel hsh hsh0 hcomp (CW.compInv_of_xinv hx) ft (id + 1) id (by omega) o o0 ho ho0
  have h2 := hci.names id o0 ho0 hk0 ft
  rw [CW.names_of_stat hseq.1 hk]
  exact h2.trans h1.symm

end JS

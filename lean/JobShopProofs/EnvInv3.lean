import JobShopProofs.EnvInv2
/-!
# Constructors preserve the heap invariant; the environment invariant
-/
namespace JS

theorem supported_nodup (k : FKind) : k.supported.Nodup := by cases k <;> decide

theorem resolveFts_nodup {kind : FKind} {fts : Option (List FT)} {l : List FT}
    (hnd : ∀ l, fts = some l → l.Nodup) (h : resolveFts kind fts = some l) : l.Nodup := by
  unfold resolveFts at h
  cases fts with
  | none => cases h; exact supported_nodup kind
  | some l0 =>
    simp only at h
    by_cases hall : (l0.all fun ft => kind.supported.contains ft) = true
    · rw [if_pos hall] at h; cases h; exact hnd _ rfl
    · rw [if_neg hall] at h; cases h

theorem getUnscheduled_keepEntries (w : FWorld) (k : Nat) (o : FObs) (h : w.heap[k]? = some o) :
    w.getUnscheduled.1.heap[k]? = some o := by
  unfold FWorld.getUnscheduled
  cases w.findObs .unscheduled [] with
  | some id => exact h
  | none =>
    simp only [FWorld.push]
    rw [List.getElem?_append_left (List.getElem?_eq_some_iff.1 h).1]; exact h

/-- push a zeroed single-column observer, then rewrite it with a shape-keeping transformer -/
theorem pushThen_ok {w : FWorld} (hw : HeapOK w) (base o' : FObs) (hs : base.kind.single = true)
    (hb : base.Shaped w.cfg.I) (hk : Keeps w.cfg.I base o') :
    HeapOK ((w.push base).1.setObs (w.push base).2 o') ∧ WExt w ((w.push base).1.setObs (w.push base).2 o') ∧
      KindAt ((w.push base).1.setObs (w.push base).2 o') (w.push base).2 base.kind := by
  obtain ⟨h1, e1, g1⟩ := push_ok hw base
    ⟨fun _ => hb, fun h => absurd h (single_not_res hs).1, fun h => absurd h (single_not_res hs).2⟩
  obtain ⟨h2, e2⟩ := setObs_keeps h1 g1 hs hk
  exact ⟨h2, e1.trans e2, KindAt.ext ⟨base, g1, rfl⟩ e2⟩

theorem push_single_ok {w : FWorld} (hw : HeapOK w) (base : FObs) (hs : base.kind.single = true)
    (hb : base.Shaped w.cfg.I) :
    HeapOK (w.push base).1 ∧ WExt w (w.push base).1 ∧ KindAt (w.push base).1 (w.push base).2 base.kind := by
  obtain ⟨h1, e1, g1⟩ := push_ok hw base
    ⟨fun _ => hb, fun h => absurd h (single_not_res hs).1, fun h => absurd h (single_not_res hs).2⟩
  exact ⟨h1, e1, base, g1, rfl⟩

theorem push_plain_ok {w : FWorld} (hw : HeapOK w) (o : FObs)
    (hp : o.kind.single = false ∧ o.kind ≠ .residual ∧ o.kind ≠ .composite) :
    HeapOK (w.push o).1 ∧ WExt w (w.push o).1 ∧ KindAt (w.push o).1 (w.push o).2 o.kind := by
  obtain ⟨h1, e1, g1⟩ := push_ok hw o (obsOK_plain _ _ _ hp)
  exact ⟨h1, e1, o, g1, rfl⟩

/-- the outcome of a constructor: the invariant, an extension, and the new observer has the requested kind -/
def CtorOK (w : FWorld) (r : FWorld × Option Nat) (kind : FKind) : Prop :=
  HeapOK r.1 ∧ WExt w r.1 ∧ ∀ id, r.2 = some id → KindAt r.1 id kind

theorem ctorOK_none {w : FWorld} (hw : HeapOK w) (kind : FKind) : CtorOK w (w, none) kind :=
  ⟨hw, WExt.refl w, fun _ h => by cases h⟩

def baseOf (I : Instance) (kind : FKind) (l : List FT) : FObs :=
  ({ kind := kind, fts := l, est := if kind == .earliestStart then estInitial I else [] } : FObs).zeroed I

theorem construct_feature {w : FWorld} (hw : HeapOK w) (kind : FKind) (hs : kind.single = true) (fts : Option (List FT))
    (hnd : ∀ l, fts = some l → l.Nodup) : CtorOK w (w.construct kind fts) kind := by
  cases hr : resolveFts kind fts with
  | none =>
    have : w.construct kind fts = (w, none) := by
      cases kind <;> simp [FKind.single] at hs <;> simp [FWorld.construct, hr]
    rw [this]; exact ctorOK_none hw kind
  | some l =>
    have hl := resolveFts_nodup hnd hr
    have hb : (baseOf w.cfg.I kind l).Shaped w.cfg.I := zeroed_shaped _ _ hl
    have hbk : (baseOf w.cfg.I kind l).kind = kind := rfl
    have hbs : (baseOf w.cfg.I kind l).kind.single = true := by rw [hbk]; exact hs
    generalize hbase : baseOf w.cfg.I kind l = base at hb hbk hbs
    cases kind <;> simp [FKind.single] at hs
    · -- isReady
      have : w.construct .isReady fts = ((w.push base).1.setObs (w.push base).2 (isReadyFeatures w.cfg w.s base), some (w.push base).2) := by
        rw [← hbase]; unfold FWorld.construct; simp only [hr]; rfl
      rw [this]
      obtain ⟨a, b, c⟩ := pushThen_ok hw base _ hbs hb (keeps_isReadyFeatures w.cfg w.s hb)
      exact ⟨a, b, fun id h => by cases h; rw [hbk] at c; exact c⟩
    · -- earliestStart
      have : w.construct .earliestStart fts = ((w.push base).1.setObs (w.push base).2 (estFeatures w.cfg w.s base), some (w.push base).2) := by
        rw [← hbase]; unfold FWorld.construct; simp only [hr]; rfl
      rw [this]
      obtain ⟨a, b, c⟩ := pushThen_ok hw base _ hbs hb (keeps_estFeatures w.cfg w.s hb)
      exact ⟨a, b, fun id h => by cases h; rw [hbk] at c; exact c⟩
    · -- duration
      have : w.construct .duration fts = ((w.push base).1.setObs (w.push base).2 (durationInit w.cfg w.s base), some (w.push base).2) := by
        rw [← hbase]; unfold FWorld.construct; simp only [hr]; rfl
      rw [this]
      obtain ⟨a, b, c⟩ := pushThen_ok hw base _ hbs hb (keeps_durationInit w.cfg w.s hb)
      exact ⟨a, b, fun id h => by cases h; rw [hbk] at c; exact c⟩
    · -- isScheduled
      have : w.construct .isScheduled fts = ((w.push base).1, some (w.push base).2) := by
        rw [← hbase]; unfold FWorld.construct; simp only [hr]; rfl
      rw [this]
      obtain ⟨a, b, c⟩ := push_single_ok hw base hbs hb
      exact ⟨a, b, fun id h => by cases h; rw [hbk] at c; exact c⟩
    · -- positionInJob
      have : w.construct .positionInJob fts = ((w.push base).1.setObs (w.push base).2 (positionInit w.cfg w.s base), some (w.push base).2) := by
        rw [← hbase]; unfold FWorld.construct; simp only [hr]; rfl
      rw [this]
      obtain ⟨a, b, c⟩ := pushThen_ok hw base _ hbs hb (keeps_positionInit w.cfg w.s hb)
      exact ⟨a, b, fun id h => by cases h; rw [hbk] at c; exact c⟩
    · -- remainingOps
      have : w.construct .remainingOps fts =
          ((w.push base).1.getUnscheduled.1.setObs (w.push base).2
            (remainingInit (w.push base).1.getUnscheduled.1.cfg
              ((w.push base).1.getUnscheduled.1.heap.getD (w.push base).1.getUnscheduled.2 default).deques base),
           some (w.push base).2) := by
        rw [← hbase]; unfold FWorld.construct; simp only [hr]; rfl
      rw [this]
      obtain ⟨h1, e1, g1⟩ := push_ok hw base
        ⟨fun _ => hb, fun h => absurd h (single_not_res hbs).1, fun h => absurd h (single_not_res hbs).2⟩
      obtain ⟨h2, e2, _⟩ := getUnscheduled_ok h1
      have g2 := getUnscheduled_keepEntries _ _ _ g1
      have hcfg : (w.push base).1.getUnscheduled.1.cfg = w.cfg := e2.cfg.trans e1.cfg
      have hb2 : base.Shaped (w.push base).1.getUnscheduled.1.cfg.I := by rw [hcfg]; exact hb
      obtain ⟨h3, e3⟩ := setObs_keeps h2 g2 hbs (keeps_remainingInit _ _ hb2)
      exact ⟨h3, e1.trans (e2.trans e3), fun id h => by
        cases h; exact KindAt.ext ⟨base, g2, hbk⟩ e3⟩
    · -- isCompleted
      have : w.construct .isCompleted fts = ((w.push base).1.isCompletedInit (w.push base).2, some (w.push base).2) := by
        rw [← hbase]; unfold FWorld.construct; simp only [hr]; rfl
      rw [this]
      obtain ⟨a, b, c⟩ := push_single_ok hw base hbs hb
      rw [hbk] at c
      obtain ⟨h2, e2⟩ := isCompletedInit_ok a c
      exact ⟨h2, b.trans e2, fun id h => by cases h; exact c.ext e2⟩

theorem construct_plain {w : FWorld} (hw : HeapOK w) (kind : FKind)
    (hk : kind = .unscheduled ∨ kind = .history ∨ kind = .makespanReward ∨ kind = .idleReward) :
    CtorOK w (w.construct kind none) kind := by
  have key : ∀ (o : FObs), o.kind = kind → CtorOK w ((w.push o).1, some (w.push o).2) kind := by
    intro o ho
    have hp : o.kind.single = false ∧ o.kind ≠ .residual ∧ o.kind ≠ .composite := by
      rw [ho]; rcases hk with rfl | rfl | rfl | rfl <;> exact ⟨rfl, by simp, by simp⟩
    obtain ⟨a, b, c⟩ := push_plain_ok hw o hp
    exact ⟨a, b, fun id h => by cases h; rw [ho] at c; exact c⟩
  rcases hk with rfl | rfl | rfl | rfl
  all_goals
    simp only [FWorld.construct]
    split
    · exact ctorOK_none hw _
    · exact key _ rfl

end JS

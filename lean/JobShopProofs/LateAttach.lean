import JobShopProofs.Unsubscribed
import JobShopProofs.Properties.C11World
/-!
# Attaching an observer at any time leaves every existing observer as it is (C11 / C05)

A constructor event (`construct`, `composite`, `residual`) may be issued in ANY dispatcher state, also in the middle of an episode.
The late-comer obtains its helper observers through `create_or_get_observer`: it READS a helper it finds among the subscribers, or
pushes a new one at the end of the heap; the only entries it writes are the ones it has just pushed.  Hence

* `C11_attach_leaves_others`: no existing heap entry is written, whatever the dispatcher state and whoever is subscribed;
* `C11_attach_frame`: the subscriber list grows at the end only, configuration and dispatcher state are unchanged;
* `C11_world_attach`: in a reachable feature world, after attaching anything at all, every earlier subscriber is still subscribed,
  still holds what it held, and what it holds is still the specified value for the (unchanged) current state.

Route: `FCtor.Keep w w'` (`FeatureWorldCtor.lean`: configuration, dispatcher state and every heap entry of `w` are kept) for every
constructor, WITHOUT any assumption on the dispatcher state (there it comes bundled with the partial invariant of the fresh
dispatcher), by the argument of the `off_*` lemmas of `Unsubscribed.lean`: `setObs` is only ever applied to an id that is new.
-/
namespace JS

namespace LateAttach

open FCtor (Keep keep_push)

theorem keep_getUnscheduled (w : FWorld) : Keep w w.getUnscheduled.1 := by
  unfold FWorld.getUnscheduled
  cases w.findObs .unscheduled [] with
  | some k => exact Keep.refl w
  | none => exact keep_push w _

theorem keep_newRemaining (w : FWorld) (fts : List FT) : Keep w (w.newRemaining fts).1 := by
  unfold FWorld.newRemaining
  simp only
  exact ((keep_push w _).trans (keep_getUnscheduled _)).setObs _ _ (Nat.le_refl _)

theorem keep_getRemaining (w : FWorld) (need : List FT) : Keep w (w.getRemaining need).1 := by
  unfold FWorld.getRemaining
  cases w.findObs .remainingOps need with
  | some k => exact Keep.refl w
  | none => exact keep_newRemaining w need

/-- `initialize_features` of an `IsCompletedObserver` whose id is new with respect to `w0` -/
theorem keep_isCompletedInit {w0 w : FWorld} (h : Keep w0 w) (id : Nat) (hid : w0.heap.length ≤ id) :
    Keep w0 (w.isCompletedInit id) := by
  unfold FWorld.isCompletedInit
  simp only
  exact ((h.setObs id _ hid).trans (keep_getRemaining _ _)).setObs id _ hid

theorem keep_construct (w : FWorld) (kind : FKind) (fts : Option (List FT)) : Keep w (w.construct kind fts).1 := by
  cases kind <;> simp only [FWorld.construct]
  all_goals
    repeat' split
    all_goals first
      | exact Keep.refl w
      | exact keep_push w _
      | exact (keep_push w _).setObs _ _ (Nat.le_refl _)
      | exact ((keep_push w _).trans (keep_getUnscheduled _)).setObs _ _ (Nat.le_refl _)
      | exact keep_isCompletedInit (keep_push w _) _ (Nat.le_refl _)

theorem keep_constructComposite (w : FWorld) (parts : Option (List Nat)) : Keep w (w.constructComposite parts).1 := by
  unfold FWorld.constructComposite
  simp only
  exact (keep_push w _).setObs _ _ (Nat.le_refl _)

theorem keep_getIsCompleted (w : FWorld) (need : List FT) : Keep w (w.getIsCompleted need).1 := by
  unfold FWorld.getIsCompleted
  cases w.findObs .isCompleted need with
  | some k => exact Keep.refl w
  | none => exact keep_isCompletedInit (keep_push w _) _ (Nat.le_refl _)

theorem keep_constructResidual (w : FWorld) (g : Graph) (rm rj : Bool) : Keep w (w.constructResidual g rm rj).1 := by
  unfold FWorld.constructResidual
  by_cases h1 : (w.subs.any fun id => (w.heap[id]?.map (·.kind)) == some FKind.residual) = true
  · rw [if_pos h1]; exact Keep.refl w
  · rw [if_neg h1]
    simp only
    generalize ((if rm then [FT.machines] else []) ++ (if rj then [FT.jobs] else [])) = need
    by_cases h2 : need.isEmpty = true
    · rw [if_pos h2]; exact keep_push w _
    · rw [if_neg h2]; exact (keep_getIsCompleted w need).trans (keep_push _ _)

/-- every constructor event keeps configuration, dispatcher state and all existing heap entries -/
theorem keep_step (w : FWorld) (e : FEv) (he : e.isCtor = true) : Keep w (w.step e) := by
  cases e with
  | disp j p m => cases he
  | reset => cases he
  | construct k fts => exact keep_construct w k fts
  | composite parts => exact keep_constructComposite w parts
  | residual b rm rj => exact keep_constructResidual w _ rm rj

/-- every constructor event appends to the subscriber list -/
theorem good_step (w : FWorld) (e : FEv) (he : e.isCtor = true) : Good w (w.step e) := by
  cases e with
  | disp j p m => cases he
  | reset => cases he
  | construct k fts => exact good_construct w k fts
  | composite parts => exact good_constructComposite w parts
  | residual b rm rj => exact good_constructResidual w _ rm rj

theorem keep_foldl : ∀ (late : List FEv) (w : FWorld), (∀ e ∈ late, e.isCtor = true) →
    Keep w (late.foldl FWorld.step w) ∧ Good w (late.foldl FWorld.step w)
  | [], w, _ => ⟨Keep.refl w, Good.refl w⟩
  | e :: t, w, hl => by
    simp only [List.foldl_cons]
    have he := hl e (List.mem_cons_self ..)
    obtain ⟨k2, g2⟩ := keep_foldl t (w.step e) (fun x hx => hl x (List.mem_cons_of_mem _ hx))
    exact ⟨(keep_step w e he).trans k2, (good_step w e he).trans g2⟩

end LateAttach

/-- (1) a constructor event never writes to an existing heap entry (whatever the dispatcher state, whoever is subscribed) -/
theorem C11_attach_leaves_others (w : FWorld) (e : FEv) (he : e.isCtor = true) (k : Nat) (o : FObs) (ho : w.heap[k]? = some o) :
    (w.step e).heap[k]? = some o :=
  (LateAttach.keep_step w e he).keep k o ho

/-- (2) … keeps the subscriber list as a prefix, the configuration and the dispatcher state -/
theorem C11_attach_frame (w : FWorld) (e : FEv) (he : e.isCtor = true) :
    (∃ t, (w.step e).subs = w.subs ++ t) ∧ (w.step e).cfg = w.cfg ∧ (w.step e).s = w.s :=
  ⟨(LateAttach.good_step w e he).pre, (LateAttach.keep_step w e he).cfg, (LateAttach.keep_step w e he).s⟩

/-- (1), (2) for any number of attachments in a row -/
theorem C11_attach_many (w : FWorld) (late : List FEv) (hl : ∀ e ∈ late, e.isCtor = true) :
    (∀ (k : Nat) (o : FObs), w.heap[k]? = some o → (late.foldl FWorld.step w).heap[k]? = some o) ∧
    (∃ t, (late.foldl FWorld.step w).subs = w.subs ++ t) ∧ (late.foldl FWorld.step w).cfg = w.cfg ∧
    (late.foldl FWorld.step w).s = w.s := by
  obtain ⟨k, g⟩ := LateAttach.keep_foldl late w hl
  exact ⟨k.keep, g.pre, k.cfg, k.s⟩

/-- (3) hence every observer that reported the right values before the attachment reports the right values after it: in a
reachable feature world (observers built on the fresh dispatcher, any history), after attaching anything at all, every EARLIER
subscriber still satisfies `ObsVal` for the (unchanged) current state -/
theorem C11_world_attach (c : Cfg) (hv : Valid c.I) (hF : c.F = none ∨ PosDurI c.I) (w : FWorld) (hw : Reached c w)
    (late : List FEv) (hl : ∀ e ∈ late, e.isCtor = true) :
    let w' := late.foldl FWorld.step w
    w'.s = w.s ∧ ∀ id ∈ w.subs, ∀ o, w.heap[id]? = some o → w'.heap[id]? = some o ∧ id ∈ w'.subs ∧ ObsVal c w'.s o := by
  intro w'
  obtain ⟨k, g⟩ := LateAttach.keep_foldl late w hl
  refine ⟨k.s, ?_⟩
  intro id hid o ho
  refine ⟨k.keep id o ho, good_mem g hid, ?_⟩
  show ObsVal c (late.foldl FWorld.step w).s o
  rw [k.s]
  exact C11_world c hv hF w hw id hid o ho

/-! ## non-vacuity

on `c11Instance`: `remainingOps` (0; it creates `unscheduled`, 1) and `isReady` (2) are built on the fresh dispatcher, two dispatches
are accepted; THEN an `isCompleted` observer (3; it looks for a `remainingOps` helper with machines and jobs, finds 0 and only reads
it: no second `remainingOps`/`unscheduled` appears), a residual updater (4; it finds the `isCompleted` 3 and records it) and a
composite (5, over all feature observers) are attached.  Entries 0, 1, 2 are what they were, the subscribers `[0, 1, 2]` are a prefix
of the new list, the dispatcher state is the same; the late `isCompleted` has read the CURRENT counts of the helper. -/
set_option maxRecDepth 100000 in
example :
    let w := FWorld.run { I := c11Instance }
      [.construct .remainingOps none, .construct .isReady none, .disp 0 0 (some 1), .disp 1 0 none]
    let late : List FEv := [.construct .isCompleted none, .residual .agentTask true true, .composite none]
    let w' := late.foldl FWorld.step w
    w.subs = [0, 1, 2] ∧ (w.heap.map (·.kind)) = [.remainingOps, .unscheduled, .isReady] ∧ numScheduled w.s = 2 ∧
    w'.heap[0]? = w.heap[0]? ∧ w'.heap[1]? = w.heap[1]? ∧ w'.heap[2]? = w.heap[2]? ∧
    w'.subs = [0, 1, 2, 3, 4, 5] ∧ w'.s = w.s ∧
    (w'.heap.map (·.kind)) = [.remainingOps, .unscheduled, .isReady, .isCompleted, .residual, .composite] ∧
    -- the helper the new `isCompleted` obtains is the existing `remainingOps` observer 0
    w.findObs .remainingOps [.machines, .jobs] = some 0 ∧
    ((w.step (.construct .isCompleted none)).getRemaining [.machines, .jobs]).2 = 0 ∧
    (w'.heap[3]?.map fun o => (o.remJob, o.remMach)) = (w.heap[0]?.map fun o => (o.col .jobs, o.col .machines)) ∧
    (w'.heap[0]?.map fun o => o.col .jobs) = some [1, 2] ∧
    -- the updater records the late `isCompleted`, the composite all feature observers
    (w'.heap[4]?.map (·.parts)) = some [3] ∧ (w'.heap[5]?.map (·.parts)) = some [0, 2, 3] := by decide

/-! the world before the attachments is one `C11_world_attach` speaks about -/
example : Reached { I := c11Instance } (FWorld.run { I := c11Instance }
    [.construct .remainingOps none, .construct .isReady none, .disp 0 0 (some 1), .disp 1 0 none]) :=
  ⟨[.construct .remainingOps none, .construct .isReady none], [.disp 0 0 (some 1), .disp 1 0 none], by decide,
    by intro e he; simp only [List.mem_cons, List.not_mem_nil, or_false] at he
       rcases he with rfl | rfl <;> simp [FEv.NodupFts],
    by decide, rfl⟩

end JS
